import IodineModel.Lemmas.SrvC14e
/-
Helper lemmas for property C14, part f (for the (B)/(C) theorems): `Inc` for every handler, the sweep and one
whole iteration.  `X` is `arrKeys q` for an arriving query `q`, `[]` for the other inputs.
-/
namespace Iodine.C14L
open Iodine Iodine.Server Iodine.Gen

/-- the key the arriving query may be held (and answered) under: none if its DNS id is 0 -/
def arrKeys (q : Query) : List Key := if q.id = 0 then [] else [keyOf q]

theorem qKeys_eq_arrKeys (q : Query) (h2 : q.id2 = 0) : qKeys q = arrKeys q := by
  unfold qKeys arrKeys; simp [h2]

/-! ### generic steps -/

theorem inc_ans {X : List Key} {s s' : Srv} {q : Query} {d : List Nat} {e : Nat} (h : SameQ s s') :
    Inc X s (s', [writeDns q d e .ctrl]) := inc_keep h (noChunk_one fun v => uKeys_writeDns_ctrl v q d e)

theorem inc_nil {X : List Key} {s s' : Srv} (h : SameQ s s') : Inc X s (s', []) := inc_keep h noChunk_nil

theorem inc_raw {X : List Key} {s s' : Srv} {b : List Nat} {l u c : Nat} {q : Query} (h : SameQ s s') :
    Inc X s (s', [sendRaw b l u c q]) := inc_keep h (noChunk_one fun _ => rfl)

macro "incctl" : tactic =>
  `(tactic| first
    | (refine inc_ans ?_; sameq)
    | (refine inc_nil ?_; sameq))

/-! ### handshake and option handlers -/

theorem handleVersion_inc (X : List Key) (s : Srv) (q : Query) (inb : List Nat) :
    Inc X s (handleVersion s q inb) := by
  unfold handleVersion
  extract_lets unpacked version
  clear_value version
  split
  · split
    · rename_i u s1 heq
      have h1 : SameQ s s1 := by have := sameQ_findAvailableUser s; rw [heq] at this; exact this
      have h2 : SameQ s (popRand s1).2 := h1.trans (sameQ_popRand s1)
      simp only []
      rw [setUser_setUser]
      apply Inc.preSameQ h2
      apply inc_setUser
      · intro k hk
        have : pairKeys (QQ (resetSession { getUser (popRand s1).2 u with
            seed := (popRand s1).1, host := q.from_, q := q, encoder := .b32, downenc := chT })) = [] := by
          simp [resetSession, QQ, pairKeys, qKeys]
        rw [this] at hk; exact absurd hk List.not_mem_nil
      · exact noChunk_one fun v => uKeys_sendVersionResponse v _ _ _ _ _
    · rename_i s1 heq
      have h1 : SameQ s s1 := by have := sameQ_findAvailableUser s; rw [heq] at this; exact this
      exact inc_keep h1 (noChunk_one fun v => uKeys_sendVersionResponse v _ _ _ _ _)
  · exact inc_keep (SameQ.refl _) (noChunk_one fun v => uKeys_sendVersionResponse v _ _ _ _ _)

theorem handleLogin_inc (X : List Key) (s : Srv) (q : Query) (inb : List Nat) :
    Inc X s (handleLogin s q inb) := by
  unfold handleLogin
  simp only []
  split
  · incctl
  · split
    · incctl
    · split
      · incctl
      · incctl

theorem handleIp_inc (X : List Key) (s : Srv) (q : Query) (inb : List Nat) :
    Inc X s (handleIp s q inb) := by
  unfold handleIp
  simp only []
  split <;> incctl

theorem handleZ_inc (X : List Key) (s : Srv) (q : Query) (inb : List Nat) :
    Inc X s (handleZ s q inb) := by
  unfold handleZ
  incctl

theorem handleSwitchCodec_inc (X : List Key) (s : Srv) (q : Query) (dlen : Nat) (inb : List Nat) :
    Inc X s (handleSwitchCodec s q dlen inb) := by
  unfold handleSwitchCodec
  simp only []
  repeat' apply inc_ite
  all_goals incctl

theorem handleOptions_inc (X : List Key) (s : Srv) (q : Query) (dlen : Nat) (inb : List Nat) :
    Inc X s (handleOptions s q dlen inb) := by
  unfold handleOptions
  simp only []
  repeat' apply inc_ite
  all_goals incctl

theorem handleDownCodecCheck_inc (X : List Key) (s : Srv) (q : Query) (dlen : Nat) (inb : List Nat) :
    Inc X s (handleDownCodecCheck s q dlen inb) := by
  unfold handleDownCodecCheck
  extract_lets c named rawOk dn
  clear_value dn
  repeat' apply inc_ite
  · incctl
  · incctl
  · split <;> incctl

theorem handleFragsizeProbe_inc (X : List Key) (s : Srv) (q : Query) (dlen : Nat) (inb : List Nat) :
    Inc X s (handleFragsizeProbe s q dlen inb) := by
  unfold handleFragsizeProbe
  simp only []
  repeat' apply inc_ite
  all_goals incctl

theorem handleSetFragsize_inc (X : List Key) (s : Srv) (q : Query) (inb : List Nat) :
    Inc X s (handleSetFragsize s q inb) := by
  unfold handleSetFragsize
  simp only []
  repeat' apply inc_ite
  all_goals incctl

/-! ### the duplicate filter, storing the arriving query -/

theorem qKeys_dup_mem (a q : Query) (ht : q.type = a.type) (hn : q.name = a.name) (k : Key)
    (hk : k ∈ qKeys { a with id2 := q.id, from2 := q.from_ }) : k ∈ qKeys a ∨ k ∈ arrKeys q := by
  have hk2 : key2 { a with id2 := q.id, from2 := q.from_ } = keyOf q := by simp [key2, keyOf, ht, hn]
  have hk1 : keyOf { a with id2 := q.id, from2 := q.from_ } = keyOf a := rfl
  unfold qKeys at hk
  rw [hk2, hk1] at hk
  simp only [] at hk
  unfold qKeys arrKeys
  by_cases ha : a.id = 0
  · simp [ha] at hk
  · by_cases hq : q.id = 0
    · simp [ha, hq] at hk; subst hk; left; by_cases h2 : a.id2 = 0 <;> simp [ha, h2]
    · simp [ha, hq] at hk
      rcases hk with rfl | rfl
      · left; by_cases h2 : a.id2 = 0 <;> simp [ha, h2]
      · right; simp [hq]

theorem rememberDuplicate_inc (s : Srv) (u : Nat) (q : Query) (s' : Srv)
    (h : rememberDuplicate s u q = some s') : Inc (arrKeys q) s (s', []) := by
  unfold rememberDuplicate at h
  simp only [] at h
  split at h
  · rename_i hc
    injection h with h; subst h
    apply inc_setUser _ _ _ _ noChunk_nil
    intro k hk
    simp only [QQ, pairKeys, QV] at hk ⊢
    rcases List.mem_append.1 hk with hk | hk
    · rcases qKeys_dup_mem (getUser s u).q q hc.2.1 hc.2.2.1 k hk with h | h
      · exact Or.inl (List.mem_append_left _ h)
      · exact Or.inr h
    · exact Or.inl (List.mem_append_right _ hk)
  · split at h
    · rename_i hc
      injection h with h; subst h
      apply inc_setUser _ _ _ _ noChunk_nil
      intro k hk
      simp only [QQ, pairKeys, QV] at hk ⊢
      rcases List.mem_append.1 hk with hk | hk
      · exact Or.inl (List.mem_append_left _ hk)
      · rcases qKeys_dup_mem (getUser s u).qs q hc.2.1 hc.2.2 k hk with h | h
        · exact Or.inl (List.mem_append_right _ h)
        · exact Or.inr h
    · cases h

theorem saveQuery_inc (s : Srv) (u : Nat) (q : Query) (h2 : q.id2 = 0) :
    Inc (arrKeys q) s (saveQuery s u q, []) := by
  unfold saveQuery
  apply inc_setUser _ _ _ _ noChunk_nil
  intro k hk
  simp only [QQ, pairKeys, QV] at hk ⊢
  rcases List.mem_append.1 hk with hk | hk
  · rw [qKeys_eq_arrKeys q h2] at hk; exact Or.inr hk
  · exact Or.inl (List.mem_append_right _ hk)

/-! ### ping -/

theorem pingFresh_inc (s : Srv) (u : Nat) (q : Query) (unpacked : List Nat)
    (hu : u < s.users.length) (hid : q.id ≠ 0) (h2 : q.id2 = 0) :
    Inc (arrKeys q) s (pingFresh s u q unpacked) := by
  unfold pingFresh
  extract_lets b s1 r1 t r2 didsend s3 x r3
  have hs1 : SameQ s s1 := sameQ_processDownstreamAck _ _ _ _
  clear_value s1
  have hr1 : Inc (arrKeys q) s1 r1 ∧ r1.1.users.length = s1.users.length := by
    simp only [r1]
    split
    · exact ⟨sc_inc _ s1 u .qs (by assumption), sc_len _ _ _⟩
    · exact ⟨inc_nil (SameQ.refl _), rfl⟩
  clear_value r1
  have hr2 : Inc (arrKeys q) r1.1 r2.1 ∧ r2.1.1.users.length = r1.1.users.length := by
    simp only [r2, t]
    split
    · dsimp only
      exact ⟨sc_inc _ r1.1 u .q (by assumption), sc_len _ _ _⟩
    · exact ⟨inc_nil (SameQ.refl _), rfl⟩
  clear_value r2 t
  have hs3 : Inc (arrKeys q) r2.1.1 (s3, []) := saveQuery_inc _ u q h2
  have hlen : u < r2.1.1.users.length := by rw [hr2.2, hr1.2, hs1.len]; exact hu
  have hq3 : (getUser s3 u).q = q := saveQuery_q _ _ _ hlen
  clear_value s3
  have hr3 : Inc (arrKeys q) s3 r3 := by
    simp only [r3]
    split
    · exact sc_inc _ s3 u .q (by show (getUser s3 u).q.id ≠ 0; rw [hq3]; exact hid)
    · exact inc_nil (SameQ.refl _)
  clear_value r3
  have := ((hr1.1.seq hr2.1).seq hs3).seq hr3
  simp only [List.append_nil] at this
  exact Inc.preSameQ hs1 this

theorem answerFromDnscache_noChunk (s : Srv) (u : Nat) (q : Query) (e : Event)
    (h : answerFromDnscache s u q = some e) : NoChunk [e] := by
  unfold answerFromDnscache at h
  simp only [] at h
  split at h
  · injection h with h; subst h; exact noChunk_one fun v => uKeys_writeDns_cached v u q _ _
  · cases h

theorem answerFromQmem_noChunk (q : Query) (mem : List QmemEntry) (cmc : List Nat) (u : Nat) (e : Event)
    (h : answerFromQmem q mem cmc u = some e) : NoChunk [e] := by
  unfold answerFromQmem at h
  split at h
  · injection h with h; subst h; exact noChunk_one fun v => uKeys_writeDns_qmem v u q _ _
  · cases h

theorem handlePing_inc (s : Srv) (q : Query) (inb : List Nat) (h2 : q.id2 = 0) :
    Inc (arrKeys q) s (handlePing s q inb) := by
  unfold handlePing
  extract_lets unpacked userid u
  clear_value unpacked
  by_cases hid : q.id = 0
  · rw [if_pos hid]; incctl
  · rw [if_neg hid]
    apply inc_ite
    · incctl
    · by_cases hchk : checkAuthenticatedUserAndIp s userid q = true
      · rw [if_pos hchk]; incctl
      · rw [if_neg hchk]
        have hu : u < s.users.length := lt_of_checkAuth hchk
        clear_value userid u
        split
        · rename_i e he
          exact inc_keep (SameQ.refl _) (answerFromDnscache_noChunk s u q e he)
        · split
          · rename_i e he
            exact inc_keep (SameQ.refl _) (answerFromQmem_noChunk q _ _ u e he)
          · split
            · rename_i s' hd
              exact rememberDuplicate_inc s _ q s' hd
            · exact pingFresh_inc s _ q _ hu hid h2

/-! ### tun packets and the data handler -/

theorem deliverToUser_inc (X : List Key) (s : Srv) (t : Nat) (data : List Nat) (len : Nat) :
    Inc X s (deliverToUser s t data len) := by
  unfold deliverToUser
  simp only []
  apply inc_ite
  · apply inc_ite
    · exact (sendWaiting_inc X _ t).preSameQ (sameQ_startNewOutpacket _ _ _ _)
    · exact inc_nil (sameQ_saveToOutpacketq _ _ _ _)
  · exact inc_raw (SameQ.refl _)

theorem handleFullPacket_inc (X : List Key) (s : Srv) (u : Nat) : Inc X s (handleFullPacket s u) := by
  unfold handleFullPacket
  extract_lets x0 r
  have hr : Inc X s r := by
    simp only [r]
    split
    · apply inc_ite
      · split
        · exact inc_keep (SameQ.refl _) (noChunk_one fun _ => rfl)
        · exact deliverToUser_inc X s _ _ _
      · exact inc_nil (SameQ.refl _)
    · exact inc_nil (SameQ.refl _)
  clear_value r
  exact hr.postSameQ (sameQ_setUser _ _ _ (fun _ => rfl))

theorem tunnelTun_inc (X : List Key) (s : Srv) (frame : List Nat) : Inc X s (tunnelTun s frame) := by
  unfold tunnelTun
  apply inc_ite
  · exact inc_nil (SameQ.refl _)
  · apply inc_ite
    · exact inc_nil (SameQ.refl _)
    · split
      · exact inc_nil (SameQ.refl _)
      · simp only []
        apply inc_ite
        · apply inc_ite
          · exact inc_nil (sameQ_saveToOutpacketq _ _ _ _)
          · exact (sendWaiting_inc X _ _).preSameQ (sameQ_startNewOutpacket _ _ _ _)
        · exact inc_raw (SameQ.refl _)

theorem dataStepQs_inc (X : List Key) (s : Srv) (u : Nat) : Inc X s (dataStepQs s u).1 := by
  unfold dataStepQs
  split
  · exact sc_inc X s u .qs (by assumption)
  · exact inc_nil (SameQ.refl _)

theorem moveQ_inc (X : List Key) (s : Srv) (u : Nat) :
    Inc X s (setUser s u fun y => { y with qs := y.q, qsNew := true, q := { y.q with id := 0 } }, []) := by
  apply inc_setUser _ _ _ _ noChunk_nil
  intro k hk
  have e : pairKeys (QQ { getUser s u with qs := (getUser s u).q, qsNew := true, q := clearId (getUser s u).q })
      = qKeys (getUser s u).q := by simp [QQ, pairKeys]
  have hk' : k ∈ qKeys (getUser s u).q := by rw [← e]; exact hk
  exact Or.inl (List.mem_append_left _ hk')

theorem dataStepQ_inc (X : List Key) (s : Srv) (u : Nat) (a b c : Bool) : Inc X s (dataStepQ s u a b c).1 := by
  unfold dataStepQ
  simp only []
  split
  · split
    · exact sc_inc X s u .q (by assumption)
    · exact moveQ_inc X s u
  · exact inc_nil (SameQ.refl _)

theorem dataStepFinal_inc (X : List Key) (s : Srv) (u : Nat) (a b c : Bool)
    (h : (getUser s u).q.id ≠ 0) : Inc X s (dataStepFinal s u a b c) := by
  unfold dataStepFinal
  simp only []
  apply inc_ite
  · exact sc_inc X s u .q h
  · apply inc_ite
    · apply inc_ite
      · exact moveQ_inc X s u
      · exact sc_inc X s u .q h
    · exact inc_nil (SameQ.refl _)

theorem dataFresh_inc (s : Srv) (u : Nat) (q : Query) (inb : List Nat)
    (hu : u < s.users.length) (hid : q.id ≠ 0) (h2 : q.id2 = 0) :
    Inc (arrKeys q) s (dataFresh s u q inb) := by
  unfold dataFresh
  extract_lets b1 b2 b3 upSeq upFrag dnSeq dnFrag lastfrag s1 up upstreamOk s2 r3 r4 r5 s6 r7
  have hs1 : SameQ s s1 := sameQ_processDownstreamAck _ _ _ _
  clear_value s1
  have hs2 : SameQ s1 s2 := by
    apply sameQ_setUser'
    split
    · rw [QQ_dataStore, QQ_dataUpstream]
    · rw [QQ_dataUpstream]
  clear_value s2
  have hr3 : Inc (arrKeys q) s2 r3 ∧ r3.1.users.length = s2.users.length := by
    simp only [r3]
    split
    · exact ⟨handleFullPacket_inc _ s2 u, (handleFullPacket_balL q s2 u []).len⟩
    · exact ⟨inc_nil (SameQ.refl _), rfl⟩
  clear_value r3
  have hr4 : Inc (arrKeys q) r3.1 r4.1 := dataStepQs_inc _ _ u
  have hl4 : r4.1.1.users.length = r3.1.users.length := (dataStepQs_balL q r3.1 u []).len
  clear_value r4
  have hr5 : Inc (arrKeys q) r4.1.1 r5.1 := dataStepQ_inc _ _ u _ _ _
  have hl5 : r5.1.1.users.length = r4.1.1.users.length := (dataStepQ_balL q r4.1.1 u upstreamOk lastfrag r4.2 []).len
  clear_value r5
  have hs6 : Inc (arrKeys q) r5.1.1 (s6, []) := saveQuery_inc _ u q h2
  have hlen : u < r5.1.1.users.length := by rw [hl5, hl4, hr3.2, hs2.len, hs1.len]; exact hu
  have hq6 : (getUser s6 u).q = q := saveQuery_q _ _ _ hlen
  clear_value s6
  have hr7 : Inc (arrKeys q) s6 r7 := dataStepFinal_inc _ s6 u _ _ _ (by rw [hq6]; exact hid)
  clear_value r7
  have := (((hr3.1.seq hr4).seq hr5).seq hs6).seq hr7
  simp only [List.append_nil] at this
  exact Inc.preSameQ (hs1.trans hs2) this

theorem handleData_inc (s : Srv) (q : Query) (dlen : Nat) (inb : List Nat) (h2 : q.id2 = 0) :
    Inc (arrKeys q) s (handleData s q dlen inb) := by
  unfold handleData
  extract_lets userid u
  apply inc_ite
  · incctl
  · by_cases hid : q.id = 0
    · rw [if_pos hid]; incctl
    · rw [if_neg hid]
      by_cases hchk : checkAuthenticatedUserAndIp s userid q = true
      · rw [if_pos hchk]; incctl
      · rw [if_neg hchk]
        have hu : u < s.users.length := lt_of_checkAuth hchk
        clear_value userid u
        split
        · rename_i e he
          exact inc_keep (SameQ.refl _) (answerFromDnscache_noChunk s u q e he)
        · split
          · rename_i e he
            exact inc_keep (SameQ.refl _) (answerFromQmem_noChunk q _ _ u e he)
          · split
            · rename_i s' hd
              exact rememberDuplicate_inc s _ q s' hd
            · exact dataFresh_inc s _ q _ hu hid h2

theorem handleNullRequest_inc (s : Srv) (q : Query) (dlen : Nat) (h2 : q.id2 = 0) :
    Inc (arrKeys q) s (handleNullRequest s q dlen) := by
  unfold handleNullRequest
  extract_lets inb c
  clear_value c inb
  apply inc_ite
  · incctl
  apply inc_ite
  · exact handleVersion_inc _ s q inb
  apply inc_ite
  · exact handleLogin_inc _ s q inb
  apply inc_ite
  · exact handleIp_inc _ s q inb
  apply inc_ite
  · exact handleZ_inc _ s q inb
  apply inc_ite
  · exact handleSwitchCodec_inc _ s q dlen inb
  apply inc_ite
  · exact handleOptions_inc _ s q dlen inb
  apply inc_ite
  · exact handleDownCodecCheck_inc _ s q dlen inb
  apply inc_ite
  · exact handleFragsizeProbe_inc _ s q dlen inb
  apply inc_ite
  · exact handleSetFragsize_inc _ s q inb
  apply inc_ite
  · exact handlePing_inc s q inb h2
  apply inc_ite
  · exact handleData_inc s q dlen inb h2
  · incctl

theorem tunnelDns_inc (s : Srv) (q : Query) (h2 : q.id2 = 0) : Inc (arrKeys q) s (tunnelDns s q) := by
  unfold tunnelDns
  apply inc_ite
  · incctl
  · split
    · extract_lets n
      clear_value n
      apply inc_ite
      · unfold handleARequest
        extract_lets dest
        apply inc_ite
        · incctl
        · exact inc_keep (SameQ.refl _) (noChunk_one fun _ => rfl)
      apply inc_ite
      · unfold handleARequest
        extract_lets dest
        apply inc_ite
        · incctl
        · exact inc_keep (SameQ.refl _) (noChunk_one fun _ => rfl)
      apply inc_ite
      · exact handleNullRequest_inc s q _ h2
      apply inc_ite
      · unfold handleNsRequest
        apply inc_ite
        · incctl
        · exact inc_keep (SameQ.refl _) (noChunk_one fun _ => rfl)
      · incctl
    · apply inc_ite
      · unfold forwardQuery
        exact inc_keep (sameQ_of_users rfl) (noChunk_one fun _ => rfl)
      · incctl

/-! ### raw mode -/

theorem inc_q0 {X : List Key} (s : Srv) (u : Nat) (f : Session → Session) {evs : List Event}
    (hq : (f (getUser s u)).q.id = 0) (hqs : (f (getUser s u)).qs = (getUser s u).qs) (he : NoChunk evs) :
    Inc X s (setUser s u f, evs) := by
  apply inc_setUser _ _ _ _ he
  intro k hk
  simp only [QQ, pairKeys, QV, qKeys_id0 hq, hqs, List.nil_append] at hk ⊢
  exact Or.inl (List.mem_append_right _ hk)

theorem handleRawLogin_inc (X : List Key) (s : Srv) (packet : List Nat) (src : Addr) (u : Nat) :
    Inc X s (handleRawLogin s packet (rawQuery src) u) := by
  unfold handleRawLogin
  simp only []
  repeat' apply inc_ite
  any_goals exact inc_nil (SameQ.refl _)
  have h1 : Inc X s (setUser s u (fun x => { x with lastPkt := s.now, q := rawQuery src, host := (rawQuery src).from_ }), []) :=
    inc_q0 s u _ rfl rfl noChunk_nil
  have e : SameQ (setUser s u (fun x => { x with lastPkt := s.now, q := rawQuery src, host := (rawQuery src).from_ }))
      (setUser (userSetConnType (setUser s u (fun x => { x with lastPkt := s.now, q := rawQuery src, host := (rawQuery src).from_ })) u .rawUdp) u
        (fun x => { x with authenticatedRaw := true })) := by
    apply SameQ.set; exact sameQ_userSetConnType _ _ _
    intro _; rfl
  have h2 := h1.seq (inc_keep (X := X) e (noChunk_one (e := sendRaw (Login.loginCalcC s.cfg.password ((getUser s u).seed + 2 ^ 32 - 1)) 16 u RAW_HDR_CMD_LOGIN (rawQuery src)) fun _ => rfl))
  exact h2

theorem handleRawData_inc (X : List Key) (s : Srv) (packet : List Nat) (src : Addr) (u : Nat) :
    Inc X s (handleRawData s packet (rawQuery src) u) := by
  unfold handleRawData
  apply inc_ite
  · exact inc_nil (SameQ.refl _)
  apply inc_ite
  · exact inc_nil (SameQ.refl _)
  · extract_lets s1
    have h1 : Inc X s (s1, []) := inc_q0 s u _ rfl rfl noChunk_nil
    clear_value s1
    have h2 := h1.seq (handleFullPacket_inc X s1 u)
    exact h2

theorem handleRawPing_inc (X : List Key) (s : Srv) (src : Addr) (u : Nat) :
    Inc X s (handleRawPing s (rawQuery src) u) := by
  unfold handleRawPing
  apply inc_ite
  · exact inc_nil (SameQ.refl _)
  apply inc_ite
  · exact inc_nil (SameQ.refl _)
  · exact inc_q0 s u _ rfl rfl (noChunk_one fun _ => rfl)

theorem rawDecode_inc (X : List Key) (s : Srv) (packet : List Nat) (src : Addr) (r : Res)
    (h : rawDecode s packet src = some r) : Inc X s r := by
  unfold rawDecode at h
  split at h
  · cases h
  split at h
  · cases h
  extract_lets b u cmd q body at h
  clear_value cmd u b body
  split at h
  · injection h with h; subst h; exact handleRawLogin_inc X s _ src u
  split at h
  · injection h with h; subst h; exact handleRawData_inc X s _ src u
  split at h
  · injection h with h; subst h; exact handleRawPing_inc X s src u
  · injection h with h; subst h; exact inc_nil (SameQ.refl _)

theorem tunnelBind_inc (X : List Key) (s : Srv) (d : List Nat) : Inc X s (tunnelBind s d) := by
  unfold tunnelBind
  apply inc_ite
  · exact inc_nil (SameQ.refl _)
  · split
    · exact inc_nil (SameQ.refl _)
    · exact inc_keep (SameQ.refl _) (noChunk_one fun _ => rfl)

/-! ### the sweep, one iteration -/

theorem sweepFrom_inc (X : List Key) : ∀ (n i : Nat) (s : Srv), Inc X s (sweepFrom n i s)
  | 0, _, s => inc_nil (SameQ.refl _)
  | n + 1, i, s => by
    unfold sweepFrom
    extract_lets y r
    have hr : Inc X s r := by
      simp only [r]
      split
      · rename_i h; exact sc_inc X s i .qs h.2.1
      · exact inc_nil (SameQ.refl _)
    clear_value r
    exact Inc.seq hr (sweepFrom_inc X n (i + 1) r.1)

/-- what the arriving query contributes -/
def inArr : Input → List Key
  | .q q => arrKeys q
  | _ => []

theorem dispatch_inc (s : Srv) (inp : Input) (tunsel : Bool) (hwf : ∀ q, inp = .q q → q.id2 = 0) :
    Inc (inArr inp) s (dispatch s inp tunsel) := by
  cases inp with
  | q q => exact tunnelDns_inc s q (hwf q rfl)
  | tick => exact inc_nil (SameQ.refl _)
  | tun frame =>
    unfold dispatch
    simp only []
    split
    · exact tunnelTun_inc _ s _
    · exact inc_nil (SameQ.refl _)
  | rawf src bytes =>
    unfold dispatch
    simp only []
    split
    · rename_i r hr; exact rawDecode_inc _ s _ src r hr
    · exact inc_nil (SameQ.refl _)
  | bind bytes =>
    unfold dispatch
    simp only []
    split
    · exact tunnelBind_inc _ s _
    · exact inc_nil (SameQ.refl _)

theorem body_inc {X : List Key} {s : Srv} {inp : Input} {tunsel : Bool}
    (h : Inc X s (dispatch s inp tunsel)) : Inc X s (body s inp tunsel) := by
  have h1 : Inc X s (andThen (andThen (dispatch s inp tunsel) (fun s => (s, [Event.sweep]))) sweep) := by
    unfold andThen sweep
    have h2 := sweepFrom_inc X (dispatch s inp tunsel).1.cfg.createdUsers 0 (dispatch s inp tunsel).1
    have h3 : Inc X (dispatch s inp tunsel).1 ((dispatch s inp tunsel).1, [Event.sweep]) :=
      inc_keep (SameQ.refl _) (noChunk_one fun _ => rfl)
    exact (h.seq h3).seq h2
  unfold body
  generalize andThen (andThen (dispatch s inp tunsel) (fun s => (s, [Event.sweep]))) sweep = r at h1
  cases inp with
  | tun frame =>
    simp only []
    split
    · exact h1
    · have h3 : Inc X r.1 (r.1, [Event.tunskip]) := inc_keep (SameQ.refl _) (noChunk_one fun _ => rfl)
      exact h1.seq h3
  | _ => exact h1

theorem iteration_inc (s : Srv) (st : Step) (hwf : ∀ q, st.inp = .q q → q.id2 = 0) :
    Inc (inArr st.inp) s (next s st, out s st) := by
  have h := body_inc (dispatch_inc { (topOfLoop s).1 with now := st.now } st.inp (topOfLoop s).2.2 hwf)
  exact h.preSameQ (sameQ_topOfLoop s st.now)

end Iodine.C14L
