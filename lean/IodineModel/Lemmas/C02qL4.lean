import IodineModel.Lemmas.C02qL3
/-
C02 phase 2 / upstream, lazy mode, desynchronised — the joint invariants of the DROP flow and its first steps.

`UpDropL P out w c0 j r`: the first fragment of the packet `out` is in flight for the `(r+1)`-th time (`r` resends so far), its
sequence number is `j ∈ 5..8` ahead of the server's `inpacket.seqno` — i.e. the server's own number or one of the three
before —, so the server will drop it; and its ack will not match (`j = 8` only with `inpacket.fragment ≥ 1`).
`UpBouncedL`: the server has dropped the fragment and answered the query it held; the client has read that answer (an ack
for something else) and is waiting for its 1 s timer.
-/
namespace Iodine.C02L
open Iodine Iodine.Gen Iodine.World

structure UpDropL (P : Par) (out : List Nat) (w : W) (c0 : Client.Cli) (j r : Nat) : Prop where
  ph : w.cs.ph = .tunnel
  ready : CReadyL P c0 out 0 0
  res : c0.outchunkresent = r
  cli : w.cs.c = { sentStateL c0 with sendPingSoon := 0 }
  up : w.up = upOfEvents (Client.sendChunk c0).evs
  down : w.down = []
  srv : SStat P w.srv
  idle : IdleLazy (Server.getUser w.srv P.u)
  oq : (Server.getUser w.srv P.u).oqFilled = 0
  held : HeldBase P (Server.getUser w.srv P.u).q
  heldid : (Server.getUser w.srv P.u).q.id = c0.chunkid
  hj : 5 ≤ j ∧ j ≤ 8
  ahead : c0.outpkt.seqno = ((Server.getUser w.srv P.u).inpacket.seqno + (j : Int)) % 8
  noack : j = 8 → 1 ≤ (Server.getUser w.srv P.u).inpacket.fragment
  syncd : (Server.getUser w.srv P.u).outpacket.seqno = c0.inpkt.seqno
  mem : HeldMem P (Server.getUser w.srv P.u) (Server.getUser w.srv P.u).q c0.datacmc c0.randSeed

/-- the client after the answer that did not acknowledge its fragment -/
structure UpBouncedL (P : Par) (out : List Nat) (w : W) (c0 : Client.Cli) (j r : Nat) : Prop where
  ready : CReadyL P c0 out 0 0
  res : c0.outchunkresent = r
  cs : w.cs = ⟨ackBook { sentStateL c0 with sendPingSoon := 0 }, .tunnel⟩
  up : w.up = []
  down : w.down = []
  srv : SStat P w.srv
  fresh : (Server.getUser w.srv P.u).lastPkt = w.srv.now
  idle : IdleLazy (Server.getUser w.srv P.u)
  oq : (Server.getUser w.srv P.u).oqFilled = 0
  held : HeldBase P (Server.getUser w.srv P.u).q
  heldd : HeldData P (Server.getUser w.srv P.u).q c0.datacmc
  heldid : (Server.getUser w.srv P.u).q.id = (sentState c0).chunkid
  hj : 5 ≤ j ∧ j ≤ 8
  ahead : c0.outpkt.seqno = ((Server.getUser w.srv P.u).inpacket.seqno + (j : Int)) % 8
  noack : j = 8 → 1 ≤ (Server.getUser w.srv P.u).inpacket.fragment
  syncd : (Server.getUser w.srv P.u).outpacket.seqno = c0.inpkt.seqno
  mem : HeldMem P (Server.getUser w.srv P.u) (Server.getUser w.srv P.u).q ((c0.datacmc + 1) % 36) c0.randSeed

/-- `offerC` from a desynchronised quiescent state, `d + 1 ∈ 5..8`: the fragment that will be dropped is in flight -/
theorem up_offer_lazy_drop {P : Par} (hP : P.Ok) {d : Nat} {w : W} (hq : QuietLazyD P d 0 w) (hd : 4 ≤ d ∧ d ≤ 7)
    (h7 : d = 7 → 1 ≤ (Server.getUser w.srv P.u).inpacket.fragment) (frame : List Nat)
    (hne : frame ≠ []) (hl : frame.length < 65536) (hb : Codec.Bytes frame) :
    ∃ w1, step w (.offerC frame) = w1 ∧ UpDropL P (0x5a :: frame) w1 (newPacket w.cs.c frame) (d + 1) 0 ∧
      w1.tunS = w.tunS ∧ w1.tunC = w.tunC ∧ w1.srv = w.srv := by
  have hcs := cstate_eta w.cs hq.ph
  have hready := newPacket_readyL hq.cst hq.cnt frame hl hb
  obtain ⟨name, hsend, _, _, _⟩ := send_readyL hP hready
  have hsf := sentFactsL (newPacket w.cs.c frame)
  have hsel : tunSelC w = true := by
    unfold tunSelC Client.pending
    rw [hq.ph]
    simp [Client.selectOf, hq.idleC]
  have hstep : Client.cstep w.cs (.tun frame) =
      (⟨{ sentStateL (newPacket w.cs.c frame) with sendPingSoon := 0 }, .tunnel⟩,
       [] ++ (Client.sendChunk (newPacket w.cs.c frame)).evs,
       .sel (Client.selectOf { sentStateL (newPacket w.cs.c frame) with sendPingSoon := 0 })) := by
    rw [hcs, cstep_tun w.cs.c frame hq.cst.running hq.cst.alive hq.idleC hne hq.cst.conn]
    have ht : frame.take 65536 = frame := List.take_of_length_le (by omega)
    rw [settle_afterSend _ _ _ (by rw [hsend]) (by rw [hsend]; have := hsf.running; simpa using this.trans hq.cst.running)]
    rw [hsend]
  have hw1 : step w (.offerC frame) =
      { w with cs := ⟨{ sentStateL (newPacket w.cs.c frame) with sendPingSoon := 0 }, .tunnel⟩,
               up := w.up ++ upOfEvents ([] ++ (Client.sendChunk (newPacket w.cs.c frame)).evs),
               tunC := w.tunC ++ tunOfCEvents ([] ++ (Client.sendChunk (newPacket w.cs.c frame)).evs) } := by
    rw [step_offerC w frame hsel, stepC_of w _ _ _ _ hstep (by show _ = w.cs.c.now; exact hsf.now)]
  have hsd : (Server.getUser w.srv P.u).outpacket.seqno = w.cs.c.inpkt.seqno := by
    have := hq.syncd; have := hq.cst.iseq; omega
  have hres0 : (newPacket w.cs.c frame).outchunkresent = 0 := rfl
  refine ⟨_, rfl, ?_, ?_, ?_, ?_⟩
  · rw [hw1]
    refine ⟨rfl, hready, hres0, rfl, ?_, hq.down, hq.srv, hq.idle, hq.oq, hq.held, hq.heldid, by omega, ?_, ?_, hsd, hq.mem⟩
    · show w.up ++ upOfEvents ([] ++ _) = _
      rw [hq.up]; rfl
    · have hs : Client.sChar ((w.cs.c.outpkt.seqno + 1) % 8) = (w.cs.c.outpkt.seqno + 1) % 8 := sChar_small _ (by omega)
      show (newPacket w.cs.c frame).outpkt.seqno = ((Server.getUser w.srv P.u).inpacket.seqno + ((d + 1 : Nat) : Int)) % 8
      have : (newPacket w.cs.c frame).outpkt.seqno = (w.cs.c.outpkt.seqno + 1) % 8 := hs
      rw [this, hq.syncu]
      have := hq.srv.x.iseq
      omega
    · intro h8
      exact h7 (by omega)
  · rw [hw1]
  · rw [hw1]
    show w.tunC ++ tunOfCEvents ([] ++ (Client.sendChunk (newPacket w.cs.c frame)).evs) = w.tunC
    rw [hsend]
    simp [tunOfCEvents]
  · rw [hw1]

theorem sentStateL_resentL (c : Client.Cli) : (sentStateL c).outchunkresent = c.outchunkresent := by
  rw [sentStateL_eta]
  simp [sentState, Client.rotateChunkid]

/-- two scheduler steps (`deliverUp`, `deliverDown`): the server drops the fragment and answers the query it held; the
client reads an ack that is not for its fragment and stays as it is -/
theorem drop_bounce {P : Par} (hP : P.Ok) {out : List Nat} {w : W} {c0 : Client.Cli} {j r : Nat}
    (h : UpDropL P out w c0 j r) :
    ∃ w', promptSteps P.u 2 w = some w' ∧ UpBouncedL P out w' c0 j r ∧
      w'.tunS = w.tunS ∧ w'.tunC = w.tunC ∧
      (Server.getUser w'.srv P.u).inpacket = (Server.getUser w.srv P.u).inpacket ∧
      (Server.getUser w'.srv P.u).tunIp = (Server.getUser w.srv P.u).tunIp ∧
      (Server.getUser w'.srv P.u).fragsize = (Server.getUser w.srv P.u).fragsize ∧
      w'.srv.now = w.srv.now ∧ w'.cs.c.now = w.cs.c.now := by
  obtain ⟨name, hsend, hm1, hm2, hQ⟩ := send_readyL hP h.ready
  have hsf := sentFactsL c0
  have hsi := sentIdsL c0
  have hcst := cstat_sentL h.ready
  have hup : w.up = [.query (sentState c0).chunkid P.ty name] := by rw [h.up, hsend]; rfl
  have hsqc : ((c0.outpkt.seqno.toNat : Nat) : Int) = c0.outpkt.seqno := by have := h.ready.stat.oseq; omega
  have hrej : Rej (Server.getUser w.srv P.u) c0.outpkt.seqno.toNat 0 :=
    rej_of_ahead h.srv.x.iseq h.srv.x.ifrag.1 h.hj (by rw [hsqc]; exact h.ahead)
  -- step 1: the server drops the fragment and answers the query it held
  obtain ⟨s', evs, t, pkt, hit, hdown, htun, hdr, hmem⟩ :=
    srv_recv_drop_lazy hP h.srv h.idle h.ready.stat.cmc h.held h.mem hQ hrej
  have hHc0 := h.mem.c0
  have hHid := h.heldid
  generalize hH : (Server.getUser w.srv P.u).q = H at hdown hHc0 hHid
  have hq1 : quiet P.u w = false := quiet_false_of_up _ _ _ _ hup
  have hs1 : step w (promptEv w) =
      { w with up := [], srv := s', down := [.ans H.id H.type H.name pkt] } := by
    rw [promptEv_up w _ _ hup, step_deliverUp w _ _ hup, srvInput_query, stepS_zero { w with up := [] } _ s' evs t hit, hdown, htun]
    simp [h.down]
  -- step 2: the client receives the answer
  generalize hw2 : ({ w with up := [], srv := s', down := [.ans H.id H.type H.name pkt] } : W) = w2 at hs1
  have hw2cs : w2.cs = w.cs := by subst hw2; rfl
  have hw2up : w2.up = [] := by subst hw2; rfl
  have hw2down : w2.down = [.ans H.id H.type H.name pkt] := by subst hw2; rfl
  have hq2 : quiet P.u w2 = false := quiet_false_of_down _ _ _ _ hw2down
  obtain ⟨y, hpkt, hyo, hyi⟩ := hdr.pkt
  obtain ⟨hlen2, hdn, hus, huf⟩ := ack_hdr (x := Server.getUser w.srv P.u) hpkt (by rw [hyi]; exact h.srv.x.iseq)
    (by rw [hyi]; exact h.srv.x.ifrag) hyo h.srv.x.oseq h.srv.x.ofrag
  rw [hyi] at hus huf
  have hcnt2 : CntOk { sentStateL c0 with sendPingSoon := 0 } 2 := hsi.cnt h.ready.cnt
  generalize hc : ({ sentStateL c0 with sendPingSoon := 0 } : Client.Cli) = c at hsf hcst hsi hcnt2
  have hwc : w.cs = ⟨c, .tunnel⟩ := by rw [cstate_eta w.cs h.ph, h.cli, hc]
  generalize hrq : (Client.Rq.mk (pkt.length : Int) H.id (answerType H.type) 0 (H.name.headD 0) pkt) = rq
  have hdl : Client.tunnelDns c rq = Client.upstream (ackBook c) (Client.decodeHdr pkt) [] false 2 := by
    have := tunnelDns_dataless_lazy c rq
      (by subst hrq; show Client.notData c (H.name.headD 0) = false
          rw [headD_eq_getD]
          exact notData_held (hsf.useridChar.trans h.ready.stat.uch) _ hHc0)
      (by subst hrq; exact hlen2)
      (by subst hrq; unfold Client.recentId; show (H.id == c.chunkid || H.id == c.chunkidPrev || H.id == c.chunkidPrev2) = true
          rw [hsi.prev, hHid]; simp)
      hsf.sps
      (by subst hrq; show H.id ≠ c.chunkid; rw [hHid]; exact fun e => hsi.ne h.ready.stat.cid e.symm)
      (by subst hrq; show (Client.decodeHdr pkt).dnSeq = c.inpkt.seqno; rw [hdn, hsf.inpkt]; exact h.syncd)
    subst hrq
    exact this
  have hbk : (ackBook c).outpkt = c.outpkt := rfl
  have hother := (upstream_other_ack (ackBook c) (Client.decodeHdr pkt) [] false 2
    (by
      intro ⟨_, h2, h3⟩
      rw [hus, hbk, hsf.oseq, h.ahead] at h2
      rw [huf, hbk, hsf.ofrag, h.ready.frag] at h3
      have hj := h.hj
      have hi := h.srv.x.iseq
      by_cases h8 : j = 8
      · have := h.noack h8
        omega
      · omega)).1
  have hfp : Client.finalPing (ackBook c) [] false 2 = (ackBook c, [], .ret 2) := by simp [Client.finalPing]
  have hb := cstat_ackBookL hcst
  have hstep2 : Client.cstep w2.cs (.rq rq) = (⟨ackBook c, .tunnel⟩, [], .sel (Client.selectOf (ackBook c))) := by
    rw [hw2cs, hwc, cstep_rq c rq hcst.running hcst.alive hcst.conn, hdl, hother, hfp]
    simp [Client.settle, Client.loopTop, hb.running]
  have hnow2 : (ackBook c).now = w2.cs.c.now := by
    rw [hw2cs, hwc]; rfl
  have hs2 : step w2 (promptEv w2) = { w2 with down := [], cs := ⟨ackBook c, .tunnel⟩ } := by
    rw [promptEv_down w2 _ _ hw2up hw2down, step_deliverDown w2 _ _ hw2down]
    have hci : cliInput (.ans H.id H.type H.name pkt) = .rq rq := by subst hrq; rfl
    rw [hci, stepC_of _ _ _ _ _ (by exact hstep2) (by exact hnow2)]
    subst hw2
    simp [upOfEvents, tunOfCEvents]
  refine ⟨{ w2 with down := [], cs := ⟨ackBook c, .tunnel⟩ }, ?_, ?_, ?_, ?_, ?_, ?_, ?_, ?_, ?_⟩
  · rw [promptSteps_succ hq1, hs1, promptSteps_succ hq2, hs2]
    rfl
  · subst hw2
    refine ⟨h.ready, h.res, by rw [← hc], rfl, rfl, hdr.stat, ?_, hdr.idle, by rw [hdr.oq]; exact h.oq, ?_, ?_, ?_, h.hj, ?_, ?_, ?_, ?_⟩
    · show (Server.getUser s' P.u).lastPkt = s'.now
      rw [hdr.last, hdr.now]
    · show HeldBase P (Server.getUser s' P.u).q
      rw [hdr.qeq]; exact hQ.heldBase
    · show HeldData P (Server.getUser s' P.u).q c0.datacmc
      rw [hdr.qeq]; exact hQ.heldData h.ready.stat.cmc
    · show (Server.getUser s' P.u).q.id = _
      rw [hdr.qeq, upQuery_id]
    · show c0.outpkt.seqno = ((Server.getUser s' P.u).inpacket.seqno + (j : Int)) % 8
      rw [hdr.inp]; exact h.ahead
    · show j = 8 → 1 ≤ (Server.getUser s' P.u).inpacket.fragment
      rw [hdr.inp]; exact h.noack
    · show (Server.getUser s' P.u).outpacket.seqno = c0.inpkt.seqno
      rw [hdr.outp]; exact h.syncd
    · show HeldMem P (Server.getUser s' P.u) (Server.getUser s' P.u).q _ _
      rw [hdr.qeq]; exact hmem
  · subst hw2; rfl
  · subst hw2; rfl
  · subst hw2; exact hdr.inp
  · subst hw2; exact hdr.tun
  · subst hw2; exact hdr.frag
  · subst hw2; exact hdr.now
  · subst hw2; show (ackBook c).now = w.cs.c.now; rw [hwc]; rfl

end Iodine.C02L
