import IodineModel.Lemmas.C02u2
import IodineModel.Lemmas.C02h
/-
C02 / ping — the server's handling of a client ping, at the level of the session slot.

1. `tunnelDns_ping`: the dispatch `tunnel_dns` / `handle_null_request` / `handle_ping` / duplicate filters for a ping
   query of user `u` (analogue of `tunnelDns_data`);
2. `iteration_ping`: one loop iteration of a single-client server with a fresh ping (analogue of `iteration_data`);
3. `ping_name_facts`, `sendPing_facts`: what the server reads out of the ping name the client builds, including the
   fingerprint `save_to_qmem_pingordata` computes.
-/
namespace Iodine.C02L
open Iodine

/-! ## 1. dispatch of a ping query -/

/-- no entry of the ping fingerprint memory is for this payload and type -/
def PQmemMiss (x : Server.Session) (q : Server.Query) (cmc : List Nat) : Prop :=
  ∀ e ∈ x.qmemping, ¬ (e.type ≠ Gen.T_UNSET ∧ e.type = q.type ∧ e.cmc = cmc)

theorem answerFromQmem_none (q : Server.Query) (mem : List Server.QmemEntry) (cmc : List Nat) (u : Nat)
    (h : ∀ e ∈ mem, ¬ (e.type ≠ Gen.T_UNSET ∧ e.type = q.type ∧ e.cmc = cmc)) :
    Server.answerFromQmem q mem cmc u = none := by
  unfold Server.answerFromQmem
  have : mem.any (fun e => e.type != Gen.T_UNSET && e.type == q.type && e.cmc == cmc) = false := by
    rw [List.any_eq_false]
    intro e he hc
    apply h e he
    have hc' : (¬e.type = Gen.T_UNSET ∧ e.type = q.type) ∧ e.cmc = cmc := by simpa using hc
    exact ⟨hc'.1.1, hc'.1.2, hc'.2⟩
  simp only [this, Bool.false_eq_true, if_false]

/-- what `handlePing` unpacks -/
def pingUnpacked (Q : Server.Query) (dlen : Nat) : List Nat :=
  Encoding.unpackData Codec.b32 65536 ((Q.name.take (min dlen 512)).drop 1)

theorem tunnelDns_ping (s : Server.Srv) (Q : Server.Query) (u dlen : Nat)
    (hdl : Common.queryDatalen Q.name s.cfg.topdomain = some dlen) (h2 : 2 ≤ dlen)
    (hc : Q.name.getD 0 0 = 112) (hty : TunnelType Q.type) (hid : Q.id ≠ 0)
    (hlen : 4 ≤ (pingUnpacked Q dlen).length) (huid : Server.charVal ((pingUnpacked Q dlen).getD 0 0) = (u : Int))
    (hchk : Server.checkAuthenticatedUserAndIp s (u : Int) Q = false)
    (hcache : Server.answerFromDnscache s u Q = none)
    (hqmem : Server.answerFromQmem Q (Server.getUser s u).qmemping ((pingUnpacked Q dlen).take 4) u = none)
    (hdup : Server.rememberDuplicate s u Q = none) :
    Server.tunnelDns s Q = Server.pingFresh s u Q (pingUnpacked Q dlen) := by
  have hne : Q.name.length ≠ 0 := by
    intro h0
    have : Q.name = [] := List.eq_nil_of_length_eq_zero h0
    rw [this] at hc
    exact absurd hc (by decide)
  unfold Server.tunnelDns
  rw [if_neg hne]
  simp only [hdl]
  have hA1 : ¬ (dlen = 3 ∧ Q.type = Gen.T_A ∧ (Q.name.getD 0 0 = 110 ∨ Q.name.getD 0 0 = 78) ∧
      (Q.name.getD 1 0 = 115 ∨ Q.name.getD 1 0 = 83) ∧ Q.name.getD 2 0 = 46) := by
    intro h; omega
  have hA2 : ¬ (dlen = 4 ∧ Q.type = Gen.T_A ∧ (Q.name.getD 0 0 = 119 ∨ Q.name.getD 0 0 = 87) ∧
      (Q.name.getD 1 0 = 119 ∨ Q.name.getD 1 0 = 87) ∧ (Q.name.getD 2 0 = 119 ∨ Q.name.getD 2 0 = 87) ∧
      Q.name.getD 3 0 = 46) := by
    intro h; omega
  unfold TunnelType at hty
  rw [if_neg hA1, if_neg hA2, if_pos hty]
  unfold Server.handleNullRequest
  rw [if_neg (by omega)]
  simp only
  have hg0 : (Q.name.take (min dlen 512)).getD 0 0 = 112 := by
    rw [← hc]
    simp only [List.getD_eq_getElem?_getD, List.getElem?_take]
    rw [if_pos (by omega)]
  rw [hg0]
  rw [if_neg (by omega), if_neg (by omega), if_neg (by omega), if_neg (by omega), if_neg (by omega),
      if_neg (by omega), if_neg (by omega), if_neg (by omega), if_neg (by omega), if_pos (Or.inr rfl)]
  unfold Server.handlePing
  rw [if_neg hid]
  have hun : Encoding.unpackData Codec.b32 65536 ((Q.name.take (min dlen 512)).drop 1) = pingUnpacked Q dlen := rfl
  simp only [hun]
  rw [if_neg (by omega)]
  simp only [huid, hchk, Int.toNat_natCast, hcache, hqmem, hdup]
  simp

/-! ## 2. one loop iteration with a fresh ping -/

/-- An iteration that receives a fresh (no filter hits) ping of session `u`: the slot is rewritten by the ping handler
and then by the sweep. -/
theorem iteration_ping {u : Nat} {s : Server.Srv} (hs : Solo u s) (Q : Server.Query) (now' dlen : Nat)
    (hdl : Common.queryDatalen Q.name s.cfg.topdomain = some dlen) (h2 : 2 ≤ dlen)
    (hc : Q.name.getD 0 0 = 112) (hty : TunnelType Q.type) (hid : Q.id ≠ 0)
    (hlen : 4 ≤ (pingUnpacked Q dlen).length) (huid : Server.charVal ((pingUnpacked Q dlen).getD 0 0) = (u : Int))
    (hadm : Admitted (entryS s u now') u Q)
    (hcache : CacheMiss (topSess (Server.getUser s u) s.now) Q)
    (hqmem : PQmemMiss (topSess (Server.getUser s u) s.now) Q ((pingUnpacked Q dlen).take 4))
    (hdup1 : (topSess (Server.getUser s u) s.now).q.id = 0 ∨ (topSess (Server.getUser s u) s.now).q.name ≠ Q.name)
    (hdup2 : (topSess (Server.getUser s u) s.now).qs.id = 0 ∨ (topSess (Server.getUser s u) s.now).qs.name ≠ Q.name) :
    Server.iteration s (.q Q) now' =
      (let r := pingSess (topSess (Server.getUser s u) s.now) u Q (Server.charVal ((pingUnpacked Q dlen).getD 1 0) / 16)
                  (Server.charVal ((pingUnpacked Q dlen).getD 1 0) % 16) now'
       ({ putUser s u (sweepSess r.1 u now').1 with now := now' }, r.2 ++ [Server.Event.sweep] ++ (sweepSess r.1 u now').2,
        ((Server.topOfLoop s).2.1, (Server.topOfLoop s).2.2))) := by
  have hs1 := entryS_solo hs now'
  have hg := getUser_entryS hs now'
  apply iteration_solo hs (.q Q) now' _ _ (by intro f hf; cases hf)
  show Server.tunnelDns (entryS s u now') Q = _
  rw [tunnelDns_ping (entryS s u now') Q u dlen hdl h2 hc hty hid hlen huid (checkAuth_admitted hadm)
    (answerFromDnscache_none _ _ _ (by rw [hg]; exact hcache))
    (answerFromQmem_none _ _ _ _ (by rw [hg]; exact hqmem))
    (rememberDuplicate_none _ _ _ (by rw [hg]; exact hdup1) (by rw [hg]; exact hdup2))]
  rw [pingFresh_eq _ _ _ _ hs1.lt, hg]
  unfold entryS
  simp only [putUser_withNow, putUser_putUser]

/-! ## 3. what the server reads out of the client's ping -/

/-- `inline_dotify` of fewer than 57 characters adds no dot -/
theorem dotifyAux_short (s : List Nat) : ∀ k, k + s.length < 57 → Encoding.dotifyAux k s = s := by
  induction s with
  | nil => intro k _; rfl
  | cons c cs ih =>
    intro k hk
    simp only [List.length_cons] at hk
    simp only [Encoding.dotifyAux]
    rw [if_neg (by omega), ih (k + 1) (by omega)]

/-- the seven Base32 characters of a 4-byte payload -/
theorem encFull4_length (d : List Nat) (h4 : d.length = 4) : (Codec.encFull Codec.b32 d).length = 7 := by
  rw [Codec.encFull_length, h4]; rfl

theorem encFull_b32_nodot (d : List Nat) : ∀ ch ∈ Codec.encFull Codec.b32 d, ch ≠ 46 :=
  fun ch hch => C08.tables_nodot.1 ch (Codec.encFull_mem_tbl C07.wf_b32 d ch hch)

/-- `build_hostname` of a 4-byte payload in Base32, explicitly: the seven characters, a dot, the domain -/
theorem ping_built {L : Nat} {td : List Nat} (S : UpSetting Codec.b32 L td) (prev : Nat) (d : List Nat)
    (h4 : d.length = 4) :
    Encoding.buildHostname Codec.b32 L 4095 prev td d = some ⟨Codec.encFull Codec.b32 d ++ [46] ++ td, 4⟩ := by
  have hL := S.hL
  have ht := S.td_len
  have hlenE := encFull4_length d h4
  have hneE : Codec.encFull Codec.b32 d ≠ [] := by
    intro h; rw [h] at hlenE; simp at hlenE
  unfold Encoding.buildHostname
  have hmin : min L 4095 = L := by omega
  rw [hmin, if_neg (by omega)]
  have henc : Codec.enc Codec.b32 (L - td.length - 8 - (L - td.length - 8) / 57) d =
      ⟨Codec.encFull Codec.b32 d, 4, 8⟩ := by
    unfold Codec.enc
    have hn : Codec.nchars Codec.b32.k d.length = 7 := by rw [h4]; rfl
    simp only [hn]
    rw [if_pos (by omega), h4]
  simp only [henc]
  have hdot : Encoding.dotify (Codec.encFull Codec.b32 d) = Codec.encFull Codec.b32 d :=
    dotifyAux_short _ 0 (by omega)
  rw [hdot]
  have hlast : (Codec.encFull Codec.b32 d).getLast?.getD prev ≠ Encoding.DOT := by
    rw [List.getLast?_eq_some_getLast hneE]
    exact encFull_b32_nodot d _ (List.getLast_mem hneE)
  rw [if_neg hlast]
  rfl

theorem idxOf?_append_cons (a : List Nat) (x : Nat) (rest : List Nat) (h : ∀ ch ∈ a, ch ≠ x) :
    (a ++ x :: rest).idxOf? x = some a.length := by
  induction a with
  | nil => simp [List.idxOf?_cons]
  | cons c cs ih =>
    have hc : c ≠ x := h c (by simp)
    rw [List.cons_append, List.idxOf?_cons, if_neg (by simpa using hc), ih (fun ch hch => h ch (by simp [hch]))]
    rfl

/-- the fingerprint `save_to_qmem_pingordata` computes on a name `p<7 Base32 characters>.<rest>` -/
theorem ping_fingerprint (d rest : List Nat) (h4 : d.length = 4) (hb : Codec.Bytes d) :
    (112 :: (Codec.encFull Codec.b32 d ++ [46] ++ rest)).idxOf? 46 = some 8 ∧
    Codec.dec Codec.b32 8 7 ((112 :: (Codec.encFull Codec.b32 d ++ [46] ++ rest)).drop 1) = d := by
  have hlenE := encFull4_length d h4
  constructor
  · have := idxOf?_append_cons (112 :: Codec.encFull Codec.b32 d) 46 rest (by
      intro ch hch
      rcases List.mem_cons.mp hch with rfl | hch
      · omega
      · exact encFull_b32_nodot d ch hch)
    simp only [List.length_cons, hlenE] at this
    simpa using this
  · simp only [List.drop_succ_cons, List.drop_zero, List.append_assoc]
    unfold Codec.dec Codec.cstr
    rw [List.take_left' hlenE]
    have htw : (Codec.encFull Codec.b32 d).takeWhile (fun ch => ch != 0) = Codec.encFull Codec.b32 d := by
      have := Codec.cstr_of_nonzero _ (Codec.encFull_nonzero C07.wf_b32 d)
      unfold Codec.cstr at this
      rw [List.take_of_length_le (Nat.le_refl _)] at this
      exact this
    rw [htw, Codec.decAll_encFull C07.wf_b32 d hb]
    exact List.take_of_length_le (by omega)

theorem ping_name_facts {cd : Codec.Codec} {L : Nat} {td : List Nat} (S : UpSetting cd L td) (d : List Nat)
    (h4 : d.length = 4) (hb : Codec.Bytes d) :
    let b := Client.buildHostname Codec.b32 (L : Int) 4095 112 td d
    let name := 112 :: b.name
    C10.LegalName name ∧ name.getD 0 0 = 112 ∧
    (∃ dlen, Common.queryDatalen name td = some dlen ∧ 2 ≤ dlen ∧ dlen ≤ 255 ∧
       Encoding.unpackData Codec.b32 65536 ((name.take (min dlen 512)).drop 1) = d) ∧
    /- the fingerprint `save_to_qmem_pingordata` computes: Base32-decode of the characters between the 'p' and the
       FIRST dot -/
    (∃ cp, name.idxOf? 46 = some cp ∧ (Codec.dec Codec.b32 8 (cp - 1) (name.drop 1)).take 4 = d ∧
       4 ≤ (Codec.dec Codec.b32 8 (cp - 1) (name.drop 1)).length) := by
  intro b name
  have hne : d ≠ [] := by intro h; rw [h] at h4; simp at h4
  obtain ⟨hleg, -, -, ⟨dlen, hq, h2, h255, hun, -, -, -⟩, hused⟩ := up_hop1 S.toB32 112 d (by omega) hne hb
  have hbe : b = ⟨Codec.encFull Codec.b32 d ++ [46] ++ td, 4⟩ :=
    clientBuild_eq Codec.b32 L 4095 112 td d _ S.hL.2 (ping_built S.toB32 112 d h4)
  refine ⟨hleg, rfl, ⟨dlen, hq, h2, h255, ?_⟩, ?_⟩
  · rw [hun, hused h4, ← h4, List.take_length]
  · obtain ⟨hi, hd⟩ := ping_fingerprint d td h4 hb
    have hname : name = 112 :: (Codec.encFull Codec.b32 d ++ [46] ++ td) := by
      show 112 :: b.name = _
      rw [hbe]
    rw [hname]
    refine ⟨8, hi, ?_, ?_⟩
    · show (Codec.dec Codec.b32 8 7 _).take 4 = d
      rw [hd, ← h4, List.take_length]
    · show 4 ≤ (Codec.dec Codec.b32 8 7 _).length
      rw [hd, h4]
      exact Nat.le_refl 4

/-- the ack byte `seqno << 4 | fragment` is below 128, so the server's `char` reads it back unchanged -/
theorem charVal_ackByte : ∀ a, a < 8 → ∀ f, f < 16 →
    Server.charVal (a * 16 ||| f) / 16 = (a : Int) ∧ Server.charVal (a * 16 ||| f) % 16 = (f : Int) := by decide

theorem charVal_small (n : Nat) (h : n < 128) : Server.charVal n = (n : Int) := by
  unfold Server.charVal Server.sChar
  omega

/-- **what the server reads out of the ping `send_ping` emits** (immediate mode, DNS mode): the query name starts with
`p`, is legal, `query_datalen` finds the data part, `handle_ping` unpacks exactly the four payload bytes (user id, ack
nibbles, CMC), and `save_to_qmem_pingordata` fingerprints the same four bytes. -/
theorem sendPing_facts (c : Client.Cli) (cd : Codec.Codec) (L : Nat) (td : List Nat)
    (hlazy : c.lazymode = false) (hL : c.hostnameMaxlen = (L : Int)) (htd : c.topdomain = td)
    (S : UpSetting cd L td) (hqt : c.doQtype < 65536) (hconn : c.conn = .dnsNull)
    (hu : 0 ≤ c.userid ∧ c.userid < 16) (hr : c.randSeed < 65536)
    (h3 : 0 ≤ c.inpkt.seqno ∧ c.inpkt.seqno < 8) (h4 : 0 ≤ c.inpkt.fragment ∧ c.inpkt.fragment < 16) :
    ∃ name,
      Client.sendPing c =
        ⟨Client.rotateChunkid { c with randSeed := (c.randSeed + 1) % 65536 },
         [.query (Client.rotateChunkid { c with randSeed := (c.randSeed + 1) % 65536 }).chunkid c.doQtype name], false⟩ ∧
      name.getD 0 0 = 112 ∧ C10.LegalName name ∧
      ∃ dlen, Common.queryDatalen name td = some dlen ∧ 2 ≤ dlen ∧
        (∀ ty id from_ from2 dest, pingUnpacked ⟨name, ty, id, from_, 0, from2, dest⟩ dlen = pingData c) ∧
        Server.charVal ((pingData c).getD 0 0) = c.userid ∧
        Server.charVal ((pingData c).getD 1 0) / 16 = c.inpkt.seqno ∧
        Server.charVal ((pingData c).getD 1 0) % 16 = c.inpkt.fragment ∧
        ∃ cp, name.idxOf? 46 = some cp ∧ (Codec.dec Codec.b32 8 (cp - 1) (name.drop 1)).take 4 = pingData c ∧
          4 ≤ (Codec.dec Codec.b32 8 (cp - 1) (name.drop 1)).length := by
  obtain ⟨hsend, -⟩ := sendPing_imm c cd L td hlazy hL htd S hqt hconn
  obtain ⟨hleg, hg0, ⟨dlen, hq, h2, -, hun⟩, hfp⟩ := ping_name_facts S (pingData c) (pingData_length c) (pingData_bytes c)
  have hbn : Client.buildHostname Codec.b32 c.hostnameMaxlen 4095 112 c.topdomain (pingData c) =
      Client.buildHostname Codec.b32 (L : Int) 4095 112 td (pingData c) := by rw [hL, htd]
  rw [hbn] at hsend
  refine ⟨_, hsend, hg0, hleg, dlen, hq, h2, fun _ _ _ _ _ => hun, ?_, ?_, ?_, hfp⟩
  · rw [pingData_eq c hu hr h3 h4, List.getD_cons_zero, charVal_small _ (by omega)]
    omega
  · rw [pingData_eq c hu hr h3 h4, List.getD_cons_succ, List.getD_cons_zero,
      (charVal_ackByte _ (by omega) _ (by omega)).1]
    omega
  · rw [pingData_eq c hu hr h3 h4, List.getD_cons_succ, List.getD_cons_zero,
      (charVal_ackByte _ (by omega) _ (by omega)).2]
    omega

/-! ### non-vacuity: the client `exH` of `C02h.lean` (user 3, ack 6/9, CMC 513, domain `t.ab`) -/

example : ∃ id name, (Client.sendPing exH).evs = [.query id 10 name] ∧ name.getD 0 0 = 112 ∧
    (∃ dlen, Common.queryDatalen name [116, 46, 97, 98] = some dlen ∧
      pingUnpacked ⟨name, 10, 7827, Server.Addr.zero, 0, Server.Addr.zero, Server.Addr.zero⟩ dlen = [3, 105, 2, 1]) ∧
    Server.charVal 3 = exH.userid ∧ Server.charVal 105 / 16 = exH.inpkt.seqno ∧
    Server.charVal 105 % 16 = exH.inpkt.fragment := by
  obtain ⟨name, h1, h2, -, dlen, h4, -, h6, h7, h8, h9, -⟩ :=
    sendPing_facts exH _ 255 [116, 46, 97, 98] rfl rfl rfl exH_setting (by decide) rfl (by decide) (by decide)
      (by decide) (by decide)
  exact ⟨_, name, by rw [h1]; rfl, h2, ⟨dlen, h4, h6 _ _ _ _ _⟩, h7, h8, h9⟩

/-- the name of that ping and the fingerprint `save_to_qmem_pingordata` takes of it -/
example : [112, 97, 110, 117, 113, 101, 97, 105, 46, 116, 46, 97, 98].idxOf? 46 = some 8 ∧
    (Codec.dec Codec.b32 8 (8 - 1) ([112, 97, 110, 117, 113, 101, 97, 105, 46, 116, 46, 97, 98].drop 1)).take 4 =
      [3, 105, 2, 1] := by decide +kernel

end Iodine.C02L
