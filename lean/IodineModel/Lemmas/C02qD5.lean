import IodineModel.Lemmas.C02qD4
import IodineModel.Props.C02
/-
C02 phase 2, downstream / immediate mode, desynchronised start — NON-VACUITY and the concrete witness of the finding.

`desyncC w d`: the joint state `w` with the client's downstream sequence number set back by `d`: from a synchronised
quiescent state this gives a state desynchronised by `d`, so every theorem about `QuietImmD P 0 d` has
instances.  `exD d` = the demo session `C02.exW` treated that way.
-/
namespace Iodine.C02L
open Iodine Iodine.Gen Iodine.World

/-- `w` with the client's `inpkt.seqno` set back by `d` (mod 8) -/
def desyncC (w : W) (d : Nat) : W :=
  { w with cs := ⟨{ w.cs.c with inpkt := { w.cs.c.inpkt with seqno := (w.cs.c.inpkt.seqno - (d : Int)) % 8 } }, w.cs.ph⟩ }

theorem quietImmD_desyncC {P : Par} {w : W} (h : QuietImm P w) (d : Nat) : QuietImmD P 0 d (desyncC w d) := by
  have hc := h.cst
  have hi := hc.iseq
  have hsi := h.srv.x.iseq
  refine ⟨h.ph, ⟨hc.running, hc.conn, hc.imm, hc.uid, hc.uch, hc.td, hc.L, hc.enc, hc.ty, hc.cid, hc.cmc, hc.alive, hc.oseq, ?_,
    hc.ifrag, hc.seed⟩, h.idleC, h.up, h.down, h.srv, h.idle, h.oq, ?_, ?_, h.aged, h.paged⟩
  · show 0 ≤ (w.cs.c.inpkt.seqno - (d : Int)) % 8 ∧ (w.cs.c.inpkt.seqno - (d : Int)) % 8 < 8
    omega
  · show w.cs.c.outpkt.seqno = ((Server.getUser w.srv P.u).inpacket.seqno + (0 : Nat)) % 8
    rw [h.syncu]
    have := hc.oseq
    omega
  · show (Server.getUser w.srv P.u).outpacket.seqno = ((w.cs.c.inpkt.seqno - (d : Int)) % 8 + (d : Int)) % 8
    rw [h.syncd]
    omega

theorem roomy_desyncC {P : Par} {w : W} (h : Roomy P w) (d : Nat) : Roomy P (desyncC w d) := ⟨h.to, h.cli, h.srv⟩

/-- the demo session of `Props/C02.lean`, desynchronised by `d` in the downstream direction -/
def exD (d : Nat) : W := desyncC C02.exW d

theorem exD_quiet (d : Nat) : QuietImmD C02.exP 0 d (exD d) := quietImmD_desyncC C02.ex_quiescent d

theorem exD_roomy (d : Nat) : Roomy C02.exP (exD d) := roomy_desyncC C02.ex_roomy d

/-- non-vacuity of `down_packet_imm_desync_drop`, and the theorem applied: on the demo session desynchronised by 4 the
two-fragment frame is lost after exactly 21 scheduler steps, the one-fragment frame after 3 -/
example : ∃ w', promptSteps 0 21 (step (exD 4) (.offerS (demoFrame 2 30))) = some w' ∧ QuietImmD C02.exP 0 5 w' ∧
    w'.tunC = [] ∧ w'.tunS = [] := by
  obtain ⟨w', h1, h2, h3, h4, _⟩ := down_packet_imm_desync_drop C02.exP_ok (exD_quiet 4) (by decide) (demoFrame 2 30)
    (by decide +kernel) (by decide) (by decide) (by decide +kernel) (exD_roomy 4).to (exD_roomy 4).cli (exD_roomy 4).srv
  have hg : downFrags (Server.getUser (exD 4).srv C02.exP.u).fragsize ((demoFrame 2 30).length + 1) ((demoFrame 2 30).length + 1) = 2 := by
    decide +kernel
  rw [hg] at h1
  exact ⟨w', h1, h2, h3, h4⟩

example : ∃ w', promptSteps 0 3 (step (exD 6) (.offerS (demoFrame 2 4))) = some w' ∧ QuietImmD C02.exP 0 7 w' ∧
    w'.tunC = [] ∧ w'.tunS = [] := by
  obtain ⟨w', h1, h2, h3, h4, _⟩ := down_packet_imm_desync_drop C02.exP_ok (exD_quiet 6) (by decide) (demoFrame 2 4)
    (by decide +kernel) (by decide) (by decide) (by decide +kernel) (exD_roomy 6).to (exD_roomy 6).cli (exD_roomy 6).srv
  have hg : downFrags (Server.getUser (exD 6).srv C02.exP.u).fragsize ((demoFrame 2 4).length + 1) ((demoFrame 2 4).length + 1) = 1 := by
    decide +kernel
  rw [hg] at h1
  exact ⟨w', h1, h2, h3, h4⟩

/-- **desync_drops_new_packets_down_imm** (a concrete run, evaluated by the kernel).  The demo session, the server's
downstream sequence number 4 ahead of the client's (what four downstream packets given up during a downstream blackout leave
behind), everything delivered promptly from now on:
* the same frame that the synchronised session delivers in 8 steps is LOST (21 steps, nothing written to either tun device);
* of five frames offered one after the other (each after the joint state is quiescent again) the first THREE are lost —
  those numbered 5, 6, 7 ahead —, the fourth (same number as the client's: taken through the "weird situation" clause,
  because the client's `inpkt.fragment` is 0) and the fifth arrive. -/
theorem desync_drops_new_packets_down_imm :
    QuietImmD C02.exP 0 4 (exD 4) ∧ Roomy C02.exP (exD 4) ∧
    runPromptCount 0 40 (step C02.exW (.offerS (demoFrame 2 30))) 0 =
      (runPrompt 0 40 (step C02.exW (.offerS (demoFrame 2 30))), 8) ∧
    (runPrompt 0 40 (step C02.exW (.offerS (demoFrame 2 30)))).tunC = [demoFrame 2 30] ∧
    runPromptCount 0 40 (step (exD 4) (.offerS (demoFrame 2 30))) 0 =
      (runPrompt 0 40 (step (exD 4) (.offerS (demoFrame 2 30))), 21) ∧
    (runPrompt 0 40 (step (exD 4) (.offerS (demoFrame 2 30)))).tunC = [] ∧
    (runPrompt 0 40 (step (exD 4) (.offerS (demoFrame 2 30)))).tunS = [] ∧
    quiet 0 (runPrompt 0 40 (step (exD 4) (.offerS (demoFrame 2 30)))) = true ∧
    (offerAllS 0 40 (exD 4) [demoFrame 2 30, demoFrame 2 4, demoFrame 2 31, demoFrame 2 5, demoFrame 2 32]).tunC =
      [demoFrame 2 5, demoFrame 2 32] :=
  ⟨exD_quiet 4, exD_roomy 4, by decide +kernel, by decide +kernel, by decide +kernel, by decide +kernel,
    by decide +kernel, by decide +kernel, by decide +kernel⟩

end Iodine.C02L
