import IodineModel.Lemmas.C02v8
/-
Upstream transfer in immediate mode: a fragment that is not the last one (two scheduler steps).
-/
namespace Iodine.C02L
open Iodine Iodine.Gen Iodine.World

/-- the client's view of a dataless answer to the query in flight -/
theorem ack_hdr {x y : Server.Session} {pkt : List Nat} (hp : pkt = Server.scPkt y 0)
    (h1 : 0 ≤ y.inpacket.seqno ∧ y.inpacket.seqno < 8) (h2 : 0 ≤ y.inpacket.fragment ∧ y.inpacket.fragment < 16)
    (ho : y.outpacket = x.outpacket) (h3 : 0 ≤ x.outpacket.seqno ∧ x.outpacket.seqno < 8)
    (h4 : 0 ≤ x.outpacket.fragment ∧ x.outpacket.fragment < 16) :
    (pkt.length : Int) = 2 ∧ (Client.decodeHdr pkt).dnSeq = x.outpacket.seqno ∧
    (Client.decodeHdr pkt).upSeq = y.inpacket.seqno ∧ (Client.decodeHdr pkt).upFrag = y.inpacket.fragment := by
  subst hp
  have hd := decodeHdr_scPkt y 0 h1 h2 (ho ▸ h3) (ho ▸ h4)
  rw [hd]
  refine ⟨?_, by rw [ho], rfl, rfl⟩
  rw [scPkt_length]
  simp

/-- the client state in which the acknowledgement of the fragment in flight is processed -/
theorem cstat_sent {P : Par} {c0 : Client.Cli} {out : List Nat} {o f : Nat} (h : CReady P c0 out o f) :
    CStat P { sentState c0 with sendPingSoon := 0 } := by
  have hs := sentFacts c0
  have hc := h.stat
  exact ⟨hs.running.trans hc.running, hs.conn.trans hc.conn, hs.lazymode.trans hc.imm, hs.userid.trans hc.uid,
    hs.useridChar.trans hc.uch, hs.topdomain.trans hc.td, hs.hostnameMaxlen.trans hc.L, hs.dataenc.trans hc.enc,
    hs.doQtype.trans hc.ty, hs.cid, by rw [hs.cmc]; split <;> omega, by rw [hs.ldt, hs.now]; exact hc.alive,
    by rw [hs.oseq]; exact hc.oseq, by rw [hs.inpkt]; exact hc.iseq, by rw [hs.inpkt]; exact hc.ifrag, by rw [hs.seed]; exact hc.seed⟩

/-- `ackBook` and `ackNext` keep the static facts; the session is alive again -/
theorem cstat_ackBook {P : Par} {c : Client.Cli} (hc : CStat P c) : CStat P (ackBook c) := by
  exact ⟨hc.running, hc.conn, hc.imm, hc.uid, hc.uch, hc.td, hc.L, hc.enc, hc.ty, hc.cid, hc.cmc,
    by show ¬ c.now + 60 < c.now; omega, hc.oseq, hc.iseq, hc.ifrag, hc.seed⟩

theorem mid_step {P : Par} (hP : P.Ok) {sl sp : Nat} {out : List Nat} {w : W} {c0 : Client.Cli} {o f : Nat}
    (h : UpFlightS P sl sp out w c0 o f) (h64 : out.length ≤ 65536)
    (hlt : o + fragLen P (out.drop o) < out.length) (hf1 : f + 1 < 16) (hsl : 1 ≤ sl ∧ sl ≤ 21 := by omega) :
    ∃ w' c0', promptSteps P.u 2 w = some w' ∧ UpFlightS P sl sp out w' c0' (o + fragLen P (out.drop o)) (f + 1) ∧
      w'.tunS = w.tunS ∧ w'.tunC = w.tunC ∧ c0'.outpkt.seqno = c0.outpkt.seqno ∧
      (Server.getUser w'.srv P.u).tunIp = (Server.getUser w.srv P.u).tunIp ∧ c0'.selecttimeout = c0.selecttimeout ∧
      (Server.getUser w'.srv P.u).fragsize = (Server.getUser w.srv P.u).fragsize := by
  obtain ⟨name, hsend, hm1, hm2, hQ⟩ := send_ready hP h.ready
  generalize hm : fragLen P (out.drop o) = m at *
  have hlast : (m == out.length - o) = false := by
    rw [beq_eq_false_iff_ne]; omega
  rw [hlast] at hQ
  have hsf := sentFacts c0
  have hcst := cstat_sent h.ready
  have hup : w.up = [.query (sentState c0).chunkid P.ty name] := by rw [h.up, hsend]; rfl
  have hsq : c0.outpkt.seqno.toNat < 8 := by have := h.ready.stat.oseq; omega
  have hsqc : ((c0.outpkt.seqno.toNat : Nat) : Int) = c0.outpkt.seqno := by have := h.ready.stat.oseq; omega
  -- step 1: the server receives the fragment
  obtain ⟨s', evs, t, pkt, hit, hdown, htun, hmid, hfresh, hpaged⟩ :=
    srv_recv_mid hP h.srv h.idle h.ready.stat.cmc h.aged h.paged hQ h.expect hsq h.ready.hf hm2 h64
  have hq1 : quiet P.u w = false := quiet_false_of_up _ _ _ _ hup
  have hs1 : step w (promptEv w) =
      { w with up := [], srv := s', down := [.ans (sentState c0).chunkid P.ty name pkt] } := by
    rw [promptEv_up w _ _ hup, step_deliverUp w _ _ hup, srvInput_query, stepS_zero { w with up := [] } _ s' evs t hit, hdown, htun]
    simp [h.down, upQuery]
  -- step 2: the client receives the acknowledgement
  generalize hw2 : ({ w with up := [], srv := s', down := [.ans (sentState c0).chunkid P.ty name pkt] } : W) = w2 at hs1
  have hw2cs : w2.cs = w.cs := by subst hw2; rfl
  have hw2up : w2.up = [] := by subst hw2; rfl
  have hw2down : w2.down = [.ans (sentState c0).chunkid P.ty name pkt] := by subst hw2; rfl
  have hq2 : quiet P.u w2 = false := quiet_false_of_down _ _ _ _ hw2down
  obtain ⟨y, hpkt, hyo, hys, hyf⟩ := hmid.pkt
  have hyf' : y.inpacket.fragment = (f : Int) := by rw [hyf]; omega
  obtain ⟨hlen2, hdn, hus, huf⟩ := ack_hdr (x := Server.getUser w.srv P.u) hpkt (by rw [hys]; omega) (by rw [hyf']; omega) hyo
    h.srv.x.oseq h.srv.x.ofrag
  generalize hc : ({ sentState c0 with sendPingSoon := 0 } : Client.Cli) = c at hsf hcst
  have hwc : w.cs = ⟨c, .tunnel⟩ := by rw [cstate_eta w.cs h.ph, h.cli, hc]
  -- the answer as the client's `read_dns` delivers it
  generalize hrq : (Client.Rq.mk (pkt.length : Int) (sentState c0).chunkid (answerType P.ty) 0 (name.headD 0) pkt) = rq
  have hcid : c.chunkid = (sentState c0).chunkid := by rw [← hc]
  have hdl : Client.tunnelDns c rq = Client.upstream (ackBook c) (Client.decodeHdr pkt) [] false 2 := by
    have := tunnelDns_dataless c rq (by subst hrq; show name.headD 0 = c.useridChar; rw [headD_eq_getD, hsf.useridChar, h.ready.stat.uch]; exact hQ.c0)
      (by subst hrq; exact hlen2)
      (by subst hrq; unfold Client.recentId; rw [hcid]; simp)
      hsf.sps hcst.imm (by subst hrq; show (Client.decodeHdr pkt).dnSeq = c.inpkt.seqno; rw [hdn, hsf.inpkt]; exact h.syncd)
    subst hrq
    exact this
  have hbk : (ackBook c).outpkt = c.outpkt := rfl
  have hmore := upstream_ack_more (ackBook c) (Client.decodeHdr pkt) [] false 2
    (by
      have hlen0 : out.length ≠ 0 := by have := h.ready.ho; omega
      unfold Client.isSending
      rw [hbk, hsf.olen, h.ready.len]
      simpa using hlen0)
    (by rw [hus, hys, hbk, hsf.oseq]; exact hsqc)
    (by rw [huf, hyf', hbk, hsf.ofrag, h.ready.frag])
    (by rw [hbk, hsf.ooff, hsf.osent, hsf.olen, cFragLen_ready h.ready, hm, h.ready.off, h.ready.len]; exact hlt)
  -- the next ready state
  generalize hc0' : ackNext (ackBook c) = c0' at hmore
  have hready' : CReady P c0' out (o + m) (f + 1) := by
    subst hc0'
    have hb := cstat_ackBook hcst
    refine ⟨⟨hb.running, hb.conn, hb.imm, hb.uid, hb.uch, hb.td, hb.L, hb.enc, hb.ty, hb.cid, hb.cmc, hb.alive, hb.oseq, hb.iseq, hb.ifrag, hb.seed⟩,
      ?_, ?_, ?_, ?_, hlt, hf1, h.ready.bytes⟩
    · show c.outpkt.data = out; rw [hsf.odata]; exact h.ready.data
    · show c.outpkt.len = out.length; rw [hsf.olen]; exact h.ready.len
    · show c.outpkt.offset + c.outpkt.sentlen = o + m
      rw [hsf.ooff, hsf.osent, cFragLen_ready h.ready, hm, h.ready.off]
    · show Client.sChar (c.outpkt.fragment + 1) = ((f + 1 : Nat) : Int)
      rw [hsf.ofrag, h.ready.frag, sChar_small _ (by omega)]
      omega
  obtain ⟨name', hsend', _, _, _⟩ := send_ready hP hready'
  have hsf' := sentFacts c0'
  have hstep2 : Client.cstep w2.cs (.rq rq) =
      (⟨{ sentState c0' with sendPingSoon := 0 }, .tunnel⟩, [] ++ (Client.sendChunk c0').evs,
       .sel (Client.selectOf { sentState c0' with sendPingSoon := 0 })) := by
    rw [hw2cs, hwc, cstep_rq c rq hcst.running hcst.alive hcst.conn, hdl, hmore]
    rw [settle_afterSend _ _ _ (by rw [hsend']) (by rw [hsend']; have := hsf'.running; simpa using this.trans hready'.stat.running)]
    rw [hsend']
  have hnow' : ({ sentState c0' with sendPingSoon := 0 } : Client.Cli).now = w2.cs.c.now := by
    rw [hsf'.now, hw2cs, hwc]
    subst hc0'; rfl
  have hs2 : step w2 (promptEv w2) =
      { w2 with down := [], cs := ⟨{ sentState c0' with sendPingSoon := 0 }, .tunnel⟩,
                up := upOfEvents (Client.sendChunk c0').evs } := by
    rw [promptEv_down w2 _ _ hw2up hw2down, step_deliverDown w2 _ _ hw2down]
    have hci : cliInput (.ans (sentState c0).chunkid P.ty name pkt) = .rq rq := by subst hrq; rfl
    rw [hci, stepC_of _ _ _ _ _ (by exact hstep2) (by exact hnow')]
    subst hw2
    simp [hsend', tunOfCEvents]
  refine ⟨{ w2 with down := [], cs := ⟨{ sentState c0' with sendPingSoon := 0 }, .tunnel⟩,
                    up := upOfEvents (Client.sendChunk c0').evs }, c0', ?_, ?_, ?_, ?_, ?_, ?_, ?_, ?_⟩
  · rw [promptSteps_succ hq1, hs1, promptSteps_succ hq2, hs2]
    rfl
  · subst hw2
    refine ⟨rfl, hready', rfl, rfl, rfl, hmid.stat, hmid.idle, by rw [hmid.oq]; exact h.oq, ?_, ?_, ?_, ?_⟩
    · have : c0'.outpkt.seqno = c0.outpkt.seqno := by subst hc0'; show c.outpkt.seqno = _; exact hsf.oseq
      rw [this]; exact hmid.expect
    · show (Server.getUser s' P.u).outpacket.seqno = c0'.inpkt.seqno
      rw [hmid.outp, h.syncd]
      subst hc0'; show c0.inpkt.seqno = c.inpkt.seqno; rw [hsf.inpkt]
    · have : c0'.datacmc = (c0.datacmc + 1) % 36 := by
        subst hc0'; show c.datacmc = _; rw [hsf.cmc]
        have := h.ready.stat.cmc
        split <;> omega
      rw [this]; exact hfresh
    · have : c0'.randSeed = c0.randSeed := by subst hc0'; show c.randSeed = _; exact hsf.seed
      rw [this]; exact hpaged
  · subst hw2; rfl
  · subst hw2; rfl
  · subst hc0'; show c.outpkt.seqno = _; exact hsf.oseq
  · subst hw2; exact hmid.tun
  · subst hc0'; show c.selecttimeout = _; exact hsf.selto
  · subst hw2; exact hmid.frag

end Iodine.C02L
