import IodineModel.Lemmas.SrvC14c
/-
Helper lemmas for property C14, part d: tun packets, the data handler, the other request kinds, raw mode,
the sweep, one whole iteration.
-/
namespace Iodine.C14L
open Iodine Iodine.Server Iodine.Gen

/-- a step with bookkeeping only -/
theorem bal_keep {arr : Query} {s s' : Srv} {x : List Key} {evs : List Event} (h : SameQ s s')
    (he : keysOf arr evs = []) : Bal arr s x (s', evs) x := by
  apply Bal.mk'; intro k; simp [h.held_eq, he]

/-- `Bal` together with "the number of slots stays" -/
structure BalL (arr : Query) (s : Srv) (xin : List Key) (r : Res) (xout : List Key) : Prop where
  bal : Bal arr s xin r xout
  len : r.1.users.length = s.users.length

theorem balL_keep {arr : Query} {s s' : Srv} {x : List Key} {evs : List Event} (h : SameQ s s')
    (he : keysOf arr evs = []) : BalL arr s x (s', evs) x := ⟨bal_keep h he, h.len⟩

theorem balL_ite {arr : Query} {s : Srv} {xin xout : List Key} {c : Prop} [Decidable c] {a b : Res}
    (ha : BalL arr s xin a xout) (hb : BalL arr s xin b xout) : BalL arr s xin (if c then a else b) xout := by
  split <;> assumption

theorem BalL.preSameQ {arr : Query} {s s' : Srv} {xin xout : List Key} {r : Res} (h : SameQ s s')
    (hb : BalL arr s' xin r xout) : BalL arr s xin r xout := ⟨hb.bal.preSameQ h, by rw [hb.len, h.len]⟩

theorem BalL.postSameQ {arr : Query} {s s' : Srv} {xin xout : List Key} {r : Res} (h : SameQ r.1 s')
    (hb : BalL arr s xin r xout) : BalL arr s xin (s', r.2) xout := ⟨hb.bal.postSameQ h, by rw [← hb.len]; exact h.len⟩

theorem sc_balL (arr : Query) (s : Srv) (u : Nat) (w : QSel) (x : List Key) (h : (w.get (getUser s u)).id ≠ 0) :
    BalL arr s x (sendChunkOrDataless s u w).1 x := ⟨sc_bal arr s u w x h, sc_len s u w⟩

theorem sendWaiting_balL (arr : Query) (s : Srv) (u : Nat) (x : List Key) : BalL arr s x (sendWaiting s u) x :=
  ⟨sendWaiting_bal arr s u x, sendWaiting_len s u⟩

theorem deliverToUser_balL (arr : Query) (s : Srv) (t : Nat) (data : List Nat) (len : Nat) (x : List Key) :
    BalL arr s x (deliverToUser s t data len) x := by
  unfold deliverToUser
  simp only []
  apply balL_ite
  · apply balL_ite
    · exact (sendWaiting_balL arr _ t x).preSameQ (sameQ_startNewOutpacket _ _ _ _)
    · exact balL_keep (sameQ_saveToOutpacketq _ _ _ _) rfl
  · exact balL_keep (SameQ.refl _) rfl

theorem handleFullPacket_balL (arr : Query) (s : Srv) (u : Nat) (x : List Key) :
    BalL arr s x (handleFullPacket s u) x := by
  unfold handleFullPacket
  extract_lets x0 r
  have hr : BalL arr s x r x := by
    simp only [r]
    split
    · apply balL_ite
      · split
        · exact balL_keep (SameQ.refl _) rfl
        · exact deliverToUser_balL arr s _ _ _ x
      · exact balL_keep (SameQ.refl _) rfl
    · exact balL_keep (SameQ.refl _) rfl
  clear_value r
  exact hr.postSameQ (sameQ_setUser _ _ _ (fun _ => rfl))

theorem tunnelTun_balL (arr : Query) (s : Srv) (frame : List Nat) (x : List Key) :
    BalL arr s x (tunnelTun s frame) x := by
  unfold tunnelTun
  apply balL_ite
  · exact balL_keep (SameQ.refl _) rfl
  · apply balL_ite
    · exact balL_keep (SameQ.refl _) rfl
    · split
      · exact balL_keep (SameQ.refl _) rfl
      · simp only []
        apply balL_ite
        · apply balL_ite
          · exact balL_keep (sameQ_saveToOutpacketq _ _ _ _) rfl
          · exact (sendWaiting_balL arr _ _ x).preSameQ (sameQ_startNewOutpacket _ _ _ _)
        · exact balL_keep (SameQ.refl _) rfl

theorem sameQ_setUser' (s : Srv) (u : Nat) (f : Session → Session) (hf : QQ (f (getUser s u)) = QQ (getUser s u)) :
    SameQ s (setUser s u f) := by
  constructor
  rw [qview_setUser, hf, QQ_getUser, set_getD_self]

theorem QQ_dataUpstream (x : Session) (a b : Nat) : QQ (dataUpstream x a b).1 = QQ x := by
  unfold dataUpstream
  repeat' split
  all_goals rfl

theorem QQ_dataStore (x : Session) (p : List Nat) : QQ (dataStore x p) = QQ x := rfl

theorem dataStepQs_balL (arr : Query) (s : Srv) (u : Nat) (x : List Key) : BalL arr s x (dataStepQs s u).1 x := by
  unfold dataStepQs
  split
  · exact sc_balL arr s u .qs x (by assumption)
  · exact balL_keep (SameQ.refl _) rfl

/-- `q → q_sendrealsoon` -/
theorem moveQ_balL (arr : Query) (s : Srv) (u : Nat) (x : List Key) :
    BalL arr s x (setUser s u fun y => { y with qs := y.q, qsNew := true, q := { y.q with id := 0 } }, []) x := by
  refine ⟨?_, length_setUser _ _ _⟩
  apply Bal.mk'; intro k
  have a := count_held_setUser_le k s u (fun y => { y with qs := y.q, qsNew := true, q := clearId y.q })
  simp only [QQ, pairKeys, List.count_append, qKeys_clearId, List.count_nil] at a
  simp only [keysOf_nil, List.count_nil]
  show _ + (held (setUser s u fun y => { y with qs := y.q, qsNew := true, q := clearId y.q })).count k + _ ≤ _
  omega

theorem dataStepQ_balL (arr : Query) (s : Srv) (u : Nat) (a b c : Bool) (x : List Key) :
    BalL arr s x (dataStepQ s u a b c).1 x := by
  unfold dataStepQ
  simp only []
  split
  · split
    · exact sc_balL arr s u .q x (by assumption)
    · exact moveQ_balL arr s u x
  · exact balL_keep (SameQ.refl _) rfl

theorem dataStepFinal_balL (arr : Query) (s : Srv) (u : Nat) (a b c : Bool) (x : List Key)
    (h : (getUser s u).q.id ≠ 0) : BalL arr s x (dataStepFinal s u a b c) x := by
  unfold dataStepFinal
  simp only []
  apply balL_ite
  · exact sc_balL arr s u .q x h
  · apply balL_ite
    · apply balL_ite
      · exact moveQ_balL arr s u x
      · exact sc_balL arr s u .q x h
    · exact balL_keep (SameQ.refl _) rfl

theorem dataFresh_bal (arr : Query) (s : Srv) (u : Nat) (q : Query) (inb : List Nat)
    (hu : u < s.users.length) (hid : q.id ≠ 0) (h2 : q.id2 = 0) :
    Bal arr s [keyOf q] (dataFresh s u q inb) [] := by
  unfold dataFresh
  extract_lets b1 b2 b3 upSeq upFrag dnSeq dnFrag lastfrag s1 up upstreamOk s2 r3 r4 r5 s6 r7
  have hs1 : SameQ s s1 := sameQ_processDownstreamAck _ _ _ _
  clear_value s1
  have hs2 : SameQ s1 s2 := by
    apply sameQ_setUser'
    split
    · rw [QQ_dataStore, QQ_dataUpstream]
    · rw [QQ_dataUpstream]
  clear_value s2
  have hr3 : BalL arr s2 [keyOf q] r3 [keyOf q] := by
    simp only [r3]
    apply balL_ite
    · exact handleFullPacket_balL arr s2 u _
    · exact balL_keep (SameQ.refl _) rfl
  clear_value r3
  have hr4 : BalL arr r3.1 [keyOf q] r4.1 [keyOf q] := dataStepQs_balL arr _ u _
  clear_value r4
  have hr5 : BalL arr r4.1.1 [keyOf q] r5.1 [keyOf q] := dataStepQ_balL arr _ u _ _ _ _
  clear_value r5
  have hs6 : Bal arr r5.1.1 [keyOf q] (s6, []) [] := saveQuery_bal arr _ u q h2
  have hlen : u < r5.1.1.users.length := by rw [hr5.len, hr4.len, hr3.len, hs2.len, hs1.len]; exact hu
  have hq6 : (getUser s6 u).q = q := saveQuery_q _ _ _ hlen
  clear_value s6
  have hr7 : BalL arr s6 [] r7 [] := dataStepFinal_balL arr s6 u _ _ _ _ (by rw [hq6]; exact hid)
  clear_value r7
  apply Bal.mk'; intro k
  have a := hr3.bal.cnt k; have b := hr4.bal.cnt k; have c := hr5.bal.cnt k; have d := hs6.cnt k
  have e := hr7.bal.cnt k
  rw [← hs1.held_eq, ← hs2.held_eq]
  simp only [keysOf_append, List.count_append, keysOf_nil, List.count_nil] at *
  omega

theorem answerFromQmemData_ev (arr : Query) (s : Srv) (u : Nat) (q : Query) (e : Event)
    (h : answerFromQmemData s u q = some e) : evKeys arr e = [keyOf q] :=
  answerFromQmem_ev arr q _ _ u e h

theorem handleData_bal (arr : Query) (s : Srv) (q : Query) (dlen : Nat) (inb : List Nat) (h2 : q.id2 = 0) :
    Bal arr s [keyOf q] (handleData s q dlen inb) [] := by
  unfold handleData
  extract_lets userid u
  apply bal_ite
  · balctl
  · by_cases hid : q.id = 0
    · rw [if_pos hid]; balctl
    · rw [if_neg hid]
      by_cases hchk : checkAuthenticatedUserAndIp s userid q = true
      · rw [if_pos hchk]; balctl
      · rw [if_neg hchk]
        have hu : u < s.users.length := lt_of_checkAuth hchk
        clear_value userid u
        split
        · rename_i e he
          exact bal_ev1 (SameQ.refl _) (answerFromDnscache_ev arr s u q e he)
        · split
          · rename_i e he
            exact bal_ev1 (SameQ.refl _) (answerFromQmemData_ev arr s u q e he)
          · split
            · rename_i s' hd
              exact rememberDuplicate_bal arr s _ q s' hd
            · exact dataFresh_bal arr s _ q _ hu hid h2

theorem handleNullRequest_bal (arr : Query) (s : Srv) (q : Query) (dlen : Nat) (h2 : q.id2 = 0) :
    Bal arr s [keyOf q] (handleNullRequest s q dlen) [] := by
  unfold handleNullRequest
  extract_lets inb c
  clear_value c inb
  apply bal_ite
  · balctl
  apply bal_ite
  · exact handleVersion_bal arr s q inb
  apply bal_ite
  · exact handleLogin_bal arr s q inb
  apply bal_ite
  · exact handleIp_bal arr s q inb
  apply bal_ite
  · exact handleZ_bal arr s q inb
  apply bal_ite
  · exact handleSwitchCodec_bal arr s q dlen inb
  apply bal_ite
  · exact handleOptions_bal arr s q dlen inb
  apply bal_ite
  · exact handleDownCodecCheck_bal arr s q dlen inb
  apply bal_ite
  · exact handleFragsizeProbe_bal arr s q dlen inb
  apply bal_ite
  · exact handleSetFragsize_bal arr s q inb
  apply bal_ite
  · exact handlePing_bal arr s q inb h2
  apply bal_ite
  · exact handleData_bal arr s q dlen inb h2
  · balctl

/-- an NS / A response is an answer to the arriving query -/
theorem bal_nsa (s : Srv) (q : Query) : Bal q s [keyOf q] (s, [Event.nsa q.from_]) [] :=
  bal_ev1 (SameQ.refl _) rfl

theorem handleNsRequest_bal (s : Srv) (q : Query) (dlen : Nat) : Bal q s [keyOf q] (handleNsRequest s q dlen) [] := by
  unfold handleNsRequest
  apply bal_ite
  · balctl
  · exact bal_nsa s q

theorem handleARequest_bal (s : Srv) (q : Query) (f : Bool) : Bal q s [keyOf q] (handleARequest s q f) [] := by
  unfold handleARequest
  extract_lets dest
  clear_value dest
  apply bal_ite
  · balctl
  · exact bal_nsa s q

theorem forwardQuery_bal (arr : Query) (s : Srv) (q : Query) (x : List Key) : Bal arr s x (forwardQuery s q) [] := by
  unfold forwardQuery
  apply Bal.weaken (xout := x)
  refine bal_keep (sameQ_of_users rfl) ?_
  rfl

theorem tunnelDns_bal (s : Srv) (q : Query) (h2 : q.id2 = 0) : Bal q s [keyOf q] (tunnelDns s q) [] := by
  unfold tunnelDns
  apply bal_ite
  · balctl
  · split
    · extract_lets n
      clear_value n
      apply bal_ite
      · exact handleARequest_bal s q _
      apply bal_ite
      · exact handleARequest_bal s q _
      apply bal_ite
      · exact handleNullRequest_bal q s q _ h2
      apply bal_ite
      · exact handleNsRequest_bal s q _
      · balctl
    · apply bal_ite
      · exact forwardQuery_bal q s q _
      · balctl

/-! ### raw mode -/

/-- a write that stores an unanswerable query (`id = 0`) in `q` and keeps `q_sendrealsoon` -/
theorem le_held_setUser_q0 (s : Srv) (u : Nat) (f : Session → Session)
    (hq : (f (getUser s u)).q.id = 0) (hqs : (f (getUser s u)).qs = (getUser s u).qs) :
    Le (held (setUser s u f)) (held s) := by
  intro k
  have a := count_held_setUser_le k s u f
  simp only [QQ, pairKeys, List.count_append, qKeys_id0 hq, hqs, List.count_nil] at a
  omega

theorem balL_shrink {arr : Query} {s s' : Srv} {x : List Key} {evs : List Event} (h : Le (held s') (held s))
    (hl : s'.users.length = s.users.length) (he : keysOf arr evs = []) : BalL arr s x (s', evs) x := by
  refine ⟨?_, hl⟩
  apply Bal.mk'; intro k; have := h k; simp [he]; omega

theorem handleRawLogin_balL (arr : Query) (s : Srv) (packet : List Nat) (src : Addr) (u : Nat) (x : List Key) :
    BalL arr s x (handleRawLogin s packet (rawQuery src) u) x := by
  unfold handleRawLogin
  simp only []
  repeat' apply balL_ite
  any_goals exact balL_keep (SameQ.refl _) rfl
  apply balL_shrink _ _ rfl
  · have h1 := le_held_setUser_q0 s u (fun x => { x with lastPkt := s.now, q := rawQuery src, host := (rawQuery src).from_ })
      rfl rfl
    have e : SameQ (setUser s u (fun x => { x with lastPkt := s.now, q := rawQuery src, host := (rawQuery src).from_ }))
        (setUser (userSetConnType (setUser s u (fun x => { x with lastPkt := s.now, q := rawQuery src, host := (rawQuery src).from_ })) u .rawUdp) u
          (fun x => { x with authenticatedRaw := true })) := by
      apply SameQ.set; exact sameQ_userSetConnType _ _ _
      intro _; rfl
    intro k; rw [e.held_eq]; exact h1 k
  · rw [length_setUser, (sameQ_userSetConnType _ _ _).len, length_setUser]

theorem handleRawData_balL (arr : Query) (s : Srv) (packet : List Nat) (src : Addr) (u : Nat) (x : List Key) :
    BalL arr s x (handleRawData s packet (rawQuery src) u) x := by
  unfold handleRawData
  apply balL_ite
  · exact balL_keep (SameQ.refl _) rfl
  apply balL_ite
  · exact balL_keep (SameQ.refl _) rfl
  · extract_lets s1
    have h1 : Le (held s1) (held s) := le_held_setUser_q0 s u _ rfl rfl
    have hl : s1.users.length = s.users.length := length_setUser _ _ _
    clear_value s1
    have h2 := handleFullPacket_balL arr s1 u x
    refine ⟨?_, by rw [h2.len, hl]⟩
    apply Bal.mk'; intro k
    have a := h2.bal.cnt k; have b := h1 k
    omega

theorem handleRawPing_balL (arr : Query) (s : Srv) (src : Addr) (u : Nat) (x : List Key) :
    BalL arr s x (handleRawPing s (rawQuery src) u) x := by
  unfold handleRawPing
  apply balL_ite
  · exact balL_keep (SameQ.refl _) rfl
  apply balL_ite
  · exact balL_keep (SameQ.refl _) rfl
  · exact balL_shrink (le_held_setUser_q0 s u _ rfl rfl) (length_setUser _ _ _) rfl

theorem rawDecode_balL (arr : Query) (s : Srv) (packet : List Nat) (src : Addr) (x : List Key) (r : Res)
    (h : rawDecode s packet src = some r) : BalL arr s x r x := by
  unfold rawDecode at h
  split at h
  · cases h
  split at h
  · cases h
  extract_lets b u cmd q body at h
  clear_value cmd u b body
  split at h
  · injection h with h; subst h; exact handleRawLogin_balL arr s _ src u x
  split at h
  · injection h with h; subst h; exact handleRawData_balL arr s _ src u x
  split at h
  · injection h with h; subst h; exact handleRawPing_balL arr s src u x
  · injection h with h; subst h; exact balL_keep (SameQ.refl _) rfl

theorem tunnelBind_balL (arr : Query) (s : Srv) (d : List Nat) (x : List Key) : BalL arr s x (tunnelBind s d) x := by
  unfold tunnelBind
  apply balL_ite
  · exact balL_keep (SameQ.refl _) rfl
  · split
    · exact balL_keep (SameQ.refl _) rfl
    · exact balL_keep (SameQ.refl _) rfl

/-! ### the sweep -/

theorem sweepFrom_bal (arr : Query) (x : List Key) : ∀ (n i : Nat) (s : Srv), Bal arr s x (sweepFrom n i s) x
  | 0, _, s => bal_keep (SameQ.refl _) rfl
  | n + 1, i, s => by
    unfold sweepFrom
    extract_lets y r
    have hr : Bal arr s x r x := by
      simp only [r]
      split
      · rename_i h; exact sc_bal arr s i .qs x h.2.1
      · exact bal_keep (SameQ.refl _) rfl
    clear_value r
    exact Bal.seq hr (sweepFrom_bal arr x n (i + 1) r.1)

/-! ### one iteration -/

theorem map_QQ_clearNewFrom (now created : Nat) : ∀ (l : List Session) (i : Nat),
    (clearNewFrom now created l i).map QQ = l.map QQ
  | [], _ => rfl
  | a :: l, i => by
    unfold clearNewFrom
    rw [List.map_cons, List.map_cons, map_QQ_clearNewFrom now created l (i + 1)]
    split <;> rfl

theorem sameQ_topOfLoop (s : Srv) (now' : Nat) : SameQ s { (topOfLoop s).1 with now := now' } :=
  ⟨map_QQ_clearNewFrom _ _ _ _⟩

/-- handler phase for an arriving DNS query -/
theorem dispatch_q_bal (s : Srv) (q : Query) (tunsel : Bool) (h2 : q.id2 = 0) :
    Bal q s [keyOf q] (dispatch s (.q q) tunsel) [] := tunnelDns_bal s q h2

/-- handler phase for every other input: answers come out of the held queries only -/
theorem dispatch_other_bal (arr : Query) (s : Srv) (inp : Input) (tunsel : Bool) (h : ∀ q, inp ≠ .q q) :
    Bal arr s [] (dispatch s inp tunsel) [] := by
  cases inp with
  | q q => exact absurd rfl (h q)
  | tick => exact bal_keep (SameQ.refl _) rfl
  | tun frame =>
    unfold dispatch
    simp only []
    split
    · exact (tunnelTun_balL arr s _ []).bal
    · exact bal_keep (SameQ.refl _) rfl
  | rawf src bytes =>
    unfold dispatch
    simp only []
    split
    · rename_i r hr; exact (rawDecode_balL arr s _ src [] r hr).bal
    · exact bal_keep (SameQ.refl _) rfl
  | bind bytes =>
    unfold dispatch
    simp only []
    split
    · exact (tunnelBind_balL arr s _ []).bal
    · exact bal_keep (SameQ.refl _) rfl

theorem body_bal {arr : Query} {s : Srv} {inp : Input} {tunsel : Bool} {x : List Key}
    (h : Bal arr s x (dispatch s inp tunsel) []) : Bal arr s x (body s inp tunsel) [] := by
  have h1 : Bal arr s x (andThen (andThen (dispatch s inp tunsel) (fun s => (s, [Event.sweep]))) sweep) [] := by
    unfold andThen sweep
    have h2 := sweepFrom_bal arr [] (dispatch s inp tunsel).1.cfg.createdUsers 0 (dispatch s inp tunsel).1
    apply Bal.mk'; intro k
    have a := h.cnt k; have b := h2.cnt k
    simp only [keysOf_append, List.count_append, keysOf_cons, keysOf_nil, evKeys, List.count_nil] at *
    omega
  unfold body
  generalize andThen (andThen (dispatch s inp tunsel) (fun s => (s, [Event.sweep]))) sweep = r at h1
  cases inp with
  | tun frame =>
    simp only []
    split
    · exact h1
    · apply Bal.mk'; intro k
      have a := h1.cnt k
      simp only [keysOf_append, List.count_append, keysOf_cons, keysOf_nil, evKeys, List.count_nil] at *
      omega
  | _ => exact h1

/-- key added to the monitor's pending multiset by an input -/
def inKeys : Input → List Key
  | .q q => [keyOf q]
  | _ => []

theorem iteration_q_le (s : Srv) (q : Query) (now' : Nat) (h2 : q.id2 = 0) :
    Le (keysOf q (out s ⟨.q q, now'⟩) ++ held (next s ⟨.q q, now'⟩)) (held s ++ [keyOf q]) := by
  have h := body_bal (dispatch_q_bal { (topOfLoop s).1 with now := now' } q (topOfLoop s).2.2 h2)
  have h' := (h.preSameQ (sameQ_topOfLoop s now')).le
  simp only [List.append_nil] at h'
  exact h'

theorem iteration_other_le (arr : Query) (s : Srv) (inp : Input) (now' : Nat) (hi : ∀ q, inp ≠ .q q) :
    Le (keysOf arr (out s ⟨inp, now'⟩) ++ held (next s ⟨inp, now'⟩)) (held s) := by
  have h := body_bal (dispatch_other_bal arr { (topOfLoop s).1 with now := now' } inp (topOfLoop s).2.2 hi)
  have h' := (h.preSameQ (sameQ_topOfLoop s now')).le
  simp only [List.append_nil] at h'
  exact h'

/-! ### start-up, and "no NS/A response without a query" -/

theorem heldV_zero : ∀ l : List Nat, heldV ((l.map Session.zero).map QQ) = []
  | [] => rfl
  | a :: l => by
    have := heldV_zero l
    simp only [heldV, List.map_cons, List.flatMap_cons] at *
    rw [this]; rfl

theorem held_start (cfg : Config) (rnd : List Nat) : held (start cfg rnd) = [] := by
  unfold held qview start Srv.init
  exact heldV_zero _

/-- every finite multiset of keys misses some id -/
theorem exists_id_bound : ∀ A : List Key, ∃ N, ∀ k ∈ A, k.2.1 < N
  | [] => ⟨0, by simp⟩
  | a :: A => by
    obtain ⟨N, hN⟩ := exists_id_bound A
    refine ⟨max N (a.2.1 + 1), ?_⟩
    intro k hk
    rcases List.mem_cons.1 hk with rfl | hk
    · omega
    · have := hN k hk; omega

/-- If the balance holds whatever query is taken as "the arriving one", no NS/A response was sent. -/
theorem no_nsa_of_forall_le (evs : List Event) (B A : List Key) (h : ∀ arr, Le (keysOf arr evs ++ B) A) :
    ∀ d, Event.nsa d ∉ evs := by
  intro d hd
  obtain ⟨N, hN⟩ := exists_id_bound A
  let arr : Query := { Query.zero with id := N }
  have hk : (d, N, ([] : List Nat), 0) ∈ keysOf arr evs := by
    unfold keysOf
    exact List.mem_flatMap.2 ⟨_, hd, by simp [evKeys, arr, Query.zero]⟩
  have h1 := h arr (d, N, [], 0)
  have h2 : 0 < (keysOf arr evs ++ B).count (d, N, [], 0) :=
    List.count_pos_iff.2 (List.mem_append_left _ hk)
  have h3 : (d, N, ([] : List Nat), 0) ∈ A := List.count_pos_iff.1 (by omega)
  have := hN _ h3
  simp at this

end Iodine.C14L
