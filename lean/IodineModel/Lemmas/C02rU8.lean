import IodineModel.Lemmas.C02rU7
/-
C02 phase 3 / d7up, LAZY mode — the joint invariant `UpFlightLT` (as `UpFlightT` of `C02rU3`: the server assembles `T`, holds its
first `oS` bytes, the bytes still to come are the client's) and the steps `mid_step_lazyT` (2 events), `last_step_lazyT` (3).
-/
namespace Iodine.C02L
open Iodine Iodine.Gen Iodine.World

structure UpFlightLT (P : Par) (out T : List Nat) (w : W) (c0 : Client.Cli) (o oS f : Nat) : Prop where
  ph : w.cs.ph = .tunnel
  ready : CReadyL P c0 out o f
  cli : w.cs.c = { sentStateL c0 with sendPingSoon := 0 }
  up : w.up = upOfEvents (Client.sendChunk c0).evs
  down : w.down = []
  srv : SStat P w.srv
  idle : IdleLazy (Server.getUser w.srv P.u)
  oq : (Server.getUser w.srv P.u).oqFilled = 0
  held : HeldBase P (Server.getUser w.srv P.u).q
  heldid : (Server.getUser w.srv P.u).q.id = c0.chunkid
  expect : Expect (Server.getUser w.srv P.u) T c0.outpkt.seqno.toNat oS f
  tail : T.drop oS = out.drop o
  syncd : (Server.getUser w.srv P.u).outpacket.seqno = c0.inpkt.seqno
  mem : HeldMem P (Server.getUser w.srv P.u) (Server.getUser w.srv P.u).q c0.datacmc c0.randSeed

theorem UpFlightLT.lens {P : Par} {out T : List Nat} {w : W} {c0 : Client.Cli} {o oS f : Nat} (h : UpFlightLT P out T w c0 o oS f) :
    T.length - oS = out.length - o ∧ oS < T.length := by
  have h1 := congrArg List.length h.tail
  simp only [List.length_drop] at h1
  have := h.ready.ho
  omega

theorem mid_step_lazyT {P : Par} (hP : P.Ok) {out T : List Nat} {w : W} {c0 : Client.Cli} {o oS f : Nat}
    (h : UpFlightLT P out T w c0 o oS f) (h64 : T.length ≤ 65536)
    (hlt : o + fragLen P (out.drop o) < out.length) (hf1 : f + 1 < 16) :
    ∃ w' c0', promptSteps P.u 2 w = some w' ∧
      UpFlightLT P out T w' c0' (o + fragLen P (out.drop o)) (oS + fragLen P (out.drop o)) (f + 1) ∧
      w'.tunS = w.tunS ∧ w'.tunC = w.tunC ∧ c0'.outpkt.seqno = c0.outpkt.seqno ∧
      (Server.getUser w'.srv P.u).tunIp = (Server.getUser w.srv P.u).tunIp ∧
      (Server.getUser w'.srv P.u).fragsize = (Server.getUser w.srv P.u).fragsize := by
  obtain ⟨hTl, hoS⟩ := h.lens
  obtain ⟨name, hsend, hm1, hm2, hQ⟩ := send_readyL hP h.ready
  generalize hm : fragLen P (out.drop o) = m at *
  have hlast : (m == out.length - o) = false := by
    rw [beq_eq_false_iff_ne]; omega
  rw [hlast] at hQ
  have hsf := sentFactsL c0
  have hsi := sentIdsL c0
  have hcst := cstat_sentL h.ready
  have hup : w.up = [.query (sentState c0).chunkid P.ty name] := by rw [h.up, hsend]; rfl
  have hsq : c0.outpkt.seqno.toNat < 8 := by have := h.ready.stat.oseq; omega
  have hsqc : ((c0.outpkt.seqno.toNat : Nat) : Int) = c0.outpkt.seqno := by have := h.ready.stat.oseq; omega
  -- step 1: the server receives the fragment and answers the query it held
  obtain ⟨s', evs, t, pkt, hit, hdown, htun, hmid, hmem⟩ :=
    srv_recv_mid_lazy hP h.srv h.idle h.ready.stat.cmc h.held h.mem (out := T) (o := oS) (m := m) (by rw [h.tail]; exact hQ)
      h.expect hsq h.ready.hf (by omega) h64
  have hHc0 := h.mem.c0
  have hHid := h.heldid
  generalize hH : (Server.getUser w.srv P.u).q = H at hdown hHc0 hHid
  have hq1 : quiet P.u w = false := quiet_false_of_up _ _ _ _ hup
  have hs1 : step w (promptEv w) =
      { w with up := [], srv := s', down := [.ans H.id H.type H.name pkt] } := by
    rw [promptEv_up w _ _ hup, step_deliverUp w _ _ hup, srvInput_query, stepS_zero { w with up := [] } _ s' evs t hit, hdown, htun]
    simp [h.down]
  -- step 2: the client receives the acknowledgement
  generalize hw2 : ({ w with up := [], srv := s', down := [.ans H.id H.type H.name pkt] } : W) = w2 at hs1
  have hw2cs : w2.cs = w.cs := by subst hw2; rfl
  have hw2up : w2.up = [] := by subst hw2; rfl
  have hw2down : w2.down = [.ans H.id H.type H.name pkt] := by subst hw2; rfl
  have hq2 : quiet P.u w2 = false := quiet_false_of_down _ _ _ _ hw2down
  obtain ⟨y, hpkt, hyo, hys, hyf⟩ := hmid.pkt
  have hyf' : y.inpacket.fragment = (f : Int) := by rw [hyf]; omega
  obtain ⟨hlen2, hdn, hus, huf⟩ := ack_hdr (x := Server.getUser w.srv P.u) hpkt (by rw [hys]; omega) (by rw [hyf']; omega) hyo
    h.srv.x.oseq h.srv.x.ofrag
  have hcnt2 : CntOk { sentStateL c0 with sendPingSoon := 0 } 2 := hsi.cnt h.ready.cnt
  generalize hc : ({ sentStateL c0 with sendPingSoon := 0 } : Client.Cli) = c at hsf hcst hsi hcnt2
  have hwc : w.cs = ⟨c, .tunnel⟩ := by rw [cstate_eta w.cs h.ph, h.cli, hc]
  -- the answer as the client's `read_dns` delivers it
  generalize hrq : (Client.Rq.mk (pkt.length : Int) H.id (answerType H.type) 0 (H.name.headD 0) pkt) = rq
  have hdl : Client.tunnelDns c rq = Client.upstream (ackBook c) (Client.decodeHdr pkt) [] false 2 := by
    have := tunnelDns_dataless_lazy c rq
      (by subst hrq; show Client.notData c (H.name.headD 0) = false
          rw [headD_eq_getD]
          exact notData_held (hsf.useridChar.trans h.ready.stat.uch) _ hHc0)
      (by subst hrq; exact hlen2)
      (by subst hrq; unfold Client.recentId; show (H.id == c.chunkid || H.id == c.chunkidPrev || H.id == c.chunkidPrev2) = true
          rw [hsi.prev, hHid]; simp)
      hsf.sps
      (by subst hrq; show H.id ≠ c.chunkid; rw [hHid]; exact fun e => hsi.ne h.ready.stat.cid e.symm)
      (by subst hrq; show (Client.decodeHdr pkt).dnSeq = c.inpkt.seqno; rw [hdn, hsf.inpkt]; exact h.syncd)
    subst hrq
    exact this
  have hbk : (ackBook c).outpkt = c.outpkt := rfl
  have hmore := upstream_ack_more (ackBook c) (Client.decodeHdr pkt) [] false 2
    (by
      have hlen0 : out.length ≠ 0 := by have := h.ready.ho; omega
      unfold Client.isSending
      rw [hbk, hsf.olen, h.ready.len]
      simpa using hlen0)
    (by rw [hus, hys, hbk, hsf.oseq]; exact hsqc)
    (by rw [huf, hyf', hbk, hsf.ofrag, h.ready.frag])
    (by rw [hbk, hsf.ooff, hsf.osent, hsf.olen, cFragLen_readyL h.ready, hm, h.ready.off, h.ready.len]; exact hlt)
  -- the next ready state
  generalize hc0' : ackNext (ackBook c) = c0' at hmore
  have hready' : CReadyL P c0' out (o + m) (f + 1) := by
    subst hc0'
    have hb := cstat_ackBookL hcst
    refine ⟨⟨hb.running, hb.conn, hb.lz, hb.uid, hb.uch, hb.td, hb.L, hb.enc, hb.ty, hb.cid, hb.cmc, hb.alive, hb.oseq, hb.iseq, hb.ifrag, hb.seed⟩,
      cntOk_ackNext _ _ (ackBook_cnt c hcnt2), ?_, ?_, ?_, ?_, hlt, hf1, h.ready.bytes⟩
    · show c.outpkt.data = out; rw [hsf.odata]; exact h.ready.data
    · show c.outpkt.len = out.length; rw [hsf.olen]; exact h.ready.len
    · show c.outpkt.offset + c.outpkt.sentlen = o + m
      rw [hsf.ooff, hsf.osent, cFragLen_readyL h.ready, hm, h.ready.off]
    · show Client.sChar (c.outpkt.fragment + 1) = ((f + 1 : Nat) : Int)
      rw [hsf.ofrag, h.ready.frag, sChar_small _ (by omega)]
      omega
  obtain ⟨name', hsend', _, _, _⟩ := send_readyL hP hready'
  have hsf' := sentFactsL c0'
  have hstep2 : Client.cstep w2.cs (.rq rq) =
      (⟨{ sentStateL c0' with sendPingSoon := 0 }, .tunnel⟩, [] ++ (Client.sendChunk c0').evs,
       .sel (Client.selectOf { sentStateL c0' with sendPingSoon := 0 })) := by
    rw [hw2cs, hwc, cstep_rq c rq hcst.running hcst.alive hcst.conn, hdl, hmore]
    rw [settle_afterSend _ _ _ (by rw [hsend']) (by rw [hsend']; have := hsf'.running; simpa using this.trans hready'.stat.running)]
    rw [hsend']
  have hnow' : ({ sentStateL c0' with sendPingSoon := 0 } : Client.Cli).now = w2.cs.c.now := by
    rw [hsf'.now, hw2cs, hwc]
    subst hc0'; rfl
  have hs2 : step w2 (promptEv w2) =
      { w2 with down := [], cs := ⟨{ sentStateL c0' with sendPingSoon := 0 }, .tunnel⟩,
                up := upOfEvents (Client.sendChunk c0').evs } := by
    rw [promptEv_down w2 _ _ hw2up hw2down, step_deliverDown w2 _ _ hw2down]
    have hci : cliInput (.ans H.id H.type H.name pkt) = .rq rq := by subst hrq; rfl
    rw [hci, stepC_of _ _ _ _ _ (by exact hstep2) (by exact hnow')]
    subst hw2
    simp [hsend', tunOfCEvents]
  have hcmc' : c0'.datacmc = (c0.datacmc + 1) % 36 := by
    subst hc0'; show c.datacmc = _; rw [hsf.cmc]
    have := h.ready.stat.cmc
    split <;> omega
  have hseed' : c0'.randSeed = c0.randSeed := by subst hc0'; show c.randSeed = _; exact hsf.seed
  refine ⟨{ w2 with down := [], cs := ⟨{ sentStateL c0' with sendPingSoon := 0 }, .tunnel⟩,
                    up := upOfEvents (Client.sendChunk c0').evs }, c0', ?_, ?_, ?_, ?_, ?_, ?_, ?_⟩
  · rw [promptSteps_succ hq1, hs1, promptSteps_succ hq2, hs2]
    rfl
  · subst hw2
    refine ⟨rfl, hready', rfl, rfl, rfl, hmid.stat, hmid.idle, by rw [hmid.oq]; exact h.oq, ?_, ?_, ?_,
      by rw [← List.drop_drop, h.tail, List.drop_drop], ?_, ?_⟩
    · show HeldBase P (Server.getUser s' P.u).q
      rw [hmid.qeq]; exact hQ.heldBase
    · show (Server.getUser s' P.u).q.id = c0'.chunkid
      rw [hmid.qeq, upQuery_id]
      subst hc0'; show _ = c.chunkid; exact hsi.cid.symm
    · have : c0'.outpkt.seqno = c0.outpkt.seqno := by subst hc0'; show c.outpkt.seqno = _; exact hsf.oseq
      rw [this]; exact hmid.expect
    · show (Server.getUser s' P.u).outpacket.seqno = c0'.inpkt.seqno
      rw [hmid.outp, h.syncd]
      subst hc0'; show c0.inpkt.seqno = c.inpkt.seqno; rw [hsf.inpkt]
    · show HeldMem P (Server.getUser s' P.u) (Server.getUser s' P.u).q c0'.datacmc c0'.randSeed
      rw [hmid.qeq, hcmc', hseed']; exact hmem
  · subst hw2; rfl
  · subst hw2; rfl
  · subst hc0'; show c.outpkt.seqno = _; exact hsf.oseq
  · subst hw2; exact hmid.tun
  · subst hw2; exact hmid.frag

theorem last_step_lazyT {P : Par} (hP : P.Ok) {out T : List Nat} {w : W} {c0 : Client.Cli} {o oS f : Nat}
    (h : UpFlightLT P out T w c0 o oS f) (h64 : T.length ≤ 65536)
    (heq : o + fragLen P (out.drop o) = out.length)
    (hns : ∀ fr, Server.uncompress T 65536 = some fr → 24 ≤ fr.length → Server.ipDst fr ≠ (Server.getUser w.srv P.u).tunIp) :
    ∃ w', promptSteps P.u 3 w = some w' ∧ QuietLazy P w' ∧ w'.tunS = w.tunS ++ junkUp T ∧
      w'.tunC = w.tunC ∧ w'.cs.c.outpkt.seqno = c0.outpkt.seqno ∧
      (Server.getUser w'.srv P.u).tunIp = (Server.getUser w.srv P.u).tunIp ∧
      (Server.getUser w'.srv P.u).fragsize = (Server.getUser w.srv P.u).fragsize := by
  obtain ⟨hTl, hoS⟩ := h.lens
  obtain ⟨name, hsend, hm1, hm2, hQ⟩ := send_readyL hP h.ready
  generalize hm : fragLen P (out.drop o) = m at *
  have hlast : (m == out.length - o) = true := by
    rw [beq_iff_eq]; omega
  rw [hlast] at hQ
  have hsf := sentFactsL c0
  have hsi := sentIdsL c0
  have hcst := cstat_sentL h.ready
  have hup : w.up = [.query (sentState c0).chunkid P.ty name] := by rw [h.up, hsend]; rfl
  have hsq : c0.outpkt.seqno.toNat < 8 := by have := h.ready.stat.oseq; omega
  have hsqc : ((c0.outpkt.seqno.toNat : Nat) : Int) = c0.outpkt.seqno := by have := h.ready.stat.oseq; omega
  -- step 1: the server receives the last fragment, writes the packet to its tun device and parks the query it held
  obtain ⟨s', evs, t, hit, hdown, htun, hal⟩ :=
    srv_recv_last_lazyT hP h.srv h.idle h.ready.stat.cmc h.mem (T := T) (o := oS) (m := m) (by rw [h.tail]; exact hQ)
      h.expect hsq h.ready.hf (by omega) h64 hns
  have hHc0 := h.mem.c0
  have hHid := h.heldid
  have hHB := h.held
  have hHM := h.mem.congr hal.qmem hal.qlast hal.cache hal.clast hal.pmem hal.plast
  generalize hH : (Server.getUser w.srv P.u).q = H at hal hHc0 hHid hHB hHM
  have hq1 : quiet P.u w = false := quiet_false_of_up _ _ _ _ hup
  have hs1 : step w (promptEv w) =
      { w with up := [], srv := s', tunS := w.tunS ++ junkUp T } := by
    rw [promptEv_up w _ _ hup, step_deliverUp w _ _ hup, srvInput_query, stepS_zero { w with up := [] } _ s' evs t hit, hdown, htun]
    simp [h.down]
  generalize hw2 : ({ w with up := [], srv := s', tunS := w.tunS ++ junkUp T } : W) = w2 at hs1
  have hw2cs : w2.cs = w.cs := by subst hw2; rfl
  have hw2up : w2.up = [] := by subst hw2; rfl
  have hw2down : w2.down = [] := by subst hw2; exact h.down
  have hw2srv : w2.srv = s' := by subst hw2; rfl
  have hcnt2 : CntOk { sentStateL c0 with sendPingSoon := 0 } 2 := hsi.cnt h.ready.cnt
  generalize hc : ({ sentStateL c0 with sendPingSoon := 0 } : Client.Cli) = c at hsf hcst hsi hcnt2
  have hwc : w.cs = ⟨c, .tunnel⟩ := by rw [cstate_eta w.cs h.ph, h.cli, hc]
  have hlen0 : out.length ≠ 0 := by have := h.ready.ho; omega
  have hsending : Client.isSending c = true := by
    unfold Client.isSending
    rw [hsf.olen, h.ready.len]
    simpa using hlen0
  -- step 2: nothing in flight; the server's 20 ms timer (parked query) expires before the client's second
  have hq2 : quiet P.u w2 = false := by
    unfold World.quiet
    rw [hw2cs, hwc]
    simp [hsending]
  obtain ⟨s'', evs2, tunsel, hit2, hdown2, htun2, hS2, hidle2, hqeq2, hmem2, hin2, hout2, hoq2, htun2', hnow2, hfrag2⟩ :=
    srv_tick_ack_lazy hP hal.stat (H := H) (Q := upQuery (sentState c0).chunkid P.ty name) h.ready.stat.cmc
      hHM hHB hQ.heldBase (hQ.heldData h.ready.stat.cmc) hal.q hal.qs hal.lazy (by rw [hal.outp]; exact h.idle.out)
  have htoS : timeoutS w2 = 20000 := by
    unfold timeoutS
    rw [hw2srv]
    have := congrArg (fun r => r.2.2.1) hit2
    simp only [Server.iteration] at this
    exact this
  have htoC : timeoutC w2 = some 1000000 := by
    unfold timeoutC Client.pending
    rw [hw2cs, hwc]
    simp [Client.selectOf, hsf.sps, hsending]
  have hs2 : step w2 (promptEv w2) =
      { w2 with srv := s'', down := [.ans H.id H.type H.name (Server.scPkt (Server.getUser s' P.u) 0)] } := by
    rw [promptEv_tickS w2 hw2up hw2down _ htoC (by rw [htoS]; decide)]
    show stepS w2 .tick (timeoutS w2 / 1000000) = _
    rw [htoS, show (20000 : Nat) / 1000000 = 0 from rfl, stepS_zero w2 _ s'' evs2 (20000, tunsel) (by rw [hw2srv]; exact hit2),
      hdown2, htun2, hw2down]
    simp
  generalize hw3 : ({ w2 with srv := s'', down := [.ans H.id H.type H.name (Server.scPkt (Server.getUser s' P.u) 0)] } : W) = w3 at hs2
  have hw3cs : w3.cs = w.cs := by subst hw3; exact hw2cs
  have hw3up : w3.up = [] := by subst hw3; exact hw2up
  have hw3down : w3.down = [.ans H.id H.type H.name (Server.scPkt (Server.getUser s' P.u) 0)] := by subst hw3; rfl
  have hq3 : quiet P.u w3 = false := quiet_false_of_down _ _ _ _ hw3down
  -- step 3: the client receives the acknowledgement; the packet is complete
  generalize hpkt : Server.scPkt (Server.getUser s' P.u) 0 = pkt at hw3down hs2 hw3
  obtain ⟨hlen2, hdn, hus, huf⟩ := ack_hdr (x := Server.getUser s' P.u) (y := Server.getUser s' P.u) hpkt.symm
    (by rw [hal.iseq]; omega) (by rw [hal.ifrag]; have := h.ready.hf; omega) rfl hal.stat.x.oseq hal.stat.x.ofrag
  generalize hrq : (Client.Rq.mk (pkt.length : Int) H.id (answerType H.type) 0 (H.name.headD 0) pkt) = rq
  have hdl : Client.tunnelDns c rq = Client.upstream (ackBook c) (Client.decodeHdr pkt) [] false 2 := by
    have := tunnelDns_dataless_lazy c rq
      (by subst hrq; show Client.notData c (H.name.headD 0) = false
          rw [headD_eq_getD]
          exact notData_held (hsf.useridChar.trans h.ready.stat.uch) _ hHc0)
      (by subst hrq; exact hlen2)
      (by subst hrq; unfold Client.recentId; show (H.id == c.chunkid || H.id == c.chunkidPrev || H.id == c.chunkidPrev2) = true
          rw [hsi.prev, hHid]; simp)
      hsf.sps
      (by subst hrq; show H.id ≠ c.chunkid; rw [hHid]; exact fun e => hsi.ne h.ready.stat.cid e.symm)
      (by subst hrq; show (Client.decodeHdr pkt).dnSeq = c.inpkt.seqno; rw [hdn, hal.outp, hsf.inpkt]; exact h.syncd)
    subst hrq
    exact this
  have hbk : (ackBook c).outpkt = c.outpkt := rfl
  have hdone := upstream_ack_done (ackBook c) (Client.decodeHdr pkt) [] false 2
    (by unfold Client.isSending; rw [hbk]; exact hsending)
    (by rw [hus, hal.iseq, hbk, hsf.oseq]; exact hsqc)
    (by rw [huf, hal.ifrag, hbk, hsf.ofrag, h.ready.frag])
    (by rw [hbk, hsf.ooff, hsf.osent, hsf.olen, cFragLen_readyL h.ready, hm, h.ready.off, h.ready.len]; omega)
  generalize hcd : ackDone (ackBook c) = cd at hdone
  have hfp : Client.finalPing cd [] false 2 = (cd, [], .ret 2) := by simp [Client.finalPing]
  have hb := cstat_ackBookL hcst
  have hcdstat : CStatL P cd := by
    subst hcd
    exact ⟨hb.running, hb.conn, hb.lz, hb.uid, hb.uch, hb.td, hb.L, hb.enc, hb.ty, hb.cid, hb.cmc, hb.alive, hb.oseq, hb.iseq, hb.ifrag, hb.seed⟩
  have hcdcnt : CntOk cd 1 := by
    subst hcd
    exact cntOk_ackDone _ _ (ackBook_cnt c hcnt2)
  have hstep3 : Client.cstep w3.cs (.rq rq) = (⟨cd, .tunnel⟩, [], .sel (Client.selectOf cd)) := by
    rw [hw3cs, hwc, cstep_rq c rq hcst.running hcst.alive hcst.conn, hdl, hdone, hfp]
    simp [Client.settle, Client.loopTop, hcdstat.running]
  have hnow3 : cd.now = w3.cs.c.now := by
    rw [hw3cs, hwc]; subst hcd; rfl
  have hs3 : step w3 (promptEv w3) = { w3 with down := [], cs := ⟨cd, .tunnel⟩ } := by
    rw [promptEv_down w3 _ _ hw3up hw3down, step_deliverDown w3 _ _ hw3down]
    have hci : cliInput (.ans H.id H.type H.name pkt) = .rq rq := by subst hrq; rfl
    rw [hci, stepC_of _ _ _ _ _ (by exact hstep3) (by exact hnow3)]
    subst hw3
    simp [upOfEvents, tunOfCEvents, hw2up]
  have hcmc' : cd.datacmc = (c0.datacmc + 1) % 36 := by
    subst hcd; show c.datacmc = _; rw [hsf.cmc]
    have := h.ready.stat.cmc
    split <;> omega
  have hseed' : cd.randSeed = c0.randSeed := by subst hcd; show c.randSeed = _; exact hsf.seed
  refine ⟨{ w3 with down := [], cs := ⟨cd, .tunnel⟩ }, ?_, ?_, ?_, ?_, ?_, ?_, ?_⟩
  · rw [promptSteps_succ hq1, hs1, promptSteps_succ hq2, hs2, promptSteps_succ hq3, hs3]
    rfl
  · subst hw3; subst hw2
    refine ⟨rfl, hcdstat, hcdcnt, ?_, rfl, rfl, hS2, hidle2, by rw [hoq2, hal.oq]; exact h.oq, ?_, ?_, ?_, ?_, ?_⟩
    · subst hcd; rfl
    · show HeldBase P (Server.getUser s'' P.u).q
      rw [hqeq2]; exact hQ.heldBase
    · show (Server.getUser s'' P.u).q.id = cd.chunkid
      rw [hqeq2, upQuery_id]
      subst hcd; show _ = c.chunkid; exact hsi.cid.symm
    · show (Server.getUser s'' P.u).inpacket.seqno = cd.outpkt.seqno
      rw [hin2, hal.iseq]
      subst hcd
      show _ = c.outpkt.seqno
      rw [hsf.oseq]; exact hsqc
    · show (Server.getUser s'' P.u).outpacket.seqno = cd.inpkt.seqno
      rw [hout2, hal.outp, h.syncd]
      subst hcd
      show c0.inpkt.seqno = c.inpkt.seqno
      rw [hsf.inpkt]
    · show HeldMem P (Server.getUser s'' P.u) (Server.getUser s'' P.u).q cd.datacmc cd.randSeed
      rw [hqeq2, hcmc', hseed']; exact hmem2
  · subst hw3; subst hw2; rfl
  · subst hw3; subst hw2; rfl
  · subst hcd; show c.outpkt.seqno = _; exact hsf.oseq
  · subst hw3; subst hw2
    show (Server.getUser s'' P.u).tunIp = _
    rw [htun2', hal.tun]
  · subst hw3; subst hw2
    show (Server.getUser s'' P.u).fragsize = _
    rw [hfrag2, hal.frag]

end Iodine.C02L
