import IodineModel.Lemmas.C02frame
import IodineModel.Server.Handle
/-
Component lemmas about the CLIENT model (IodineModel/Client/*.lean) for the properties
`client_resends_then_gives_up`, `client_tun_gating`, `ack_advances`, `seqno_window`, `session_expiry_60`,
`no_deadlock_after_giveup`.  Every theorem is stated for ALL states `c : Cli`.
-/
namespace Iodine.C02L
open Iodine Iodine.Client

/-! ## 1. frame of the senders -/

/-- the fields `send_chunk` may change: those of `send_query` plus `outpkt.sentlen` and `datacmc` -/
def scFrame (c r : Cli) : Cli :=
  { c with chunkid := r.chunkid, chunkidPrev := r.chunkidPrev, chunkidPrev2 := r.chunkidPrev2, sendcnt := r.sendcnt,
           recvcnt := r.recvcnt, selecttimeout := r.selecttimeout, lazymode := r.lazymode, randSeed := r.randSeed, lastrawping := r.lastrawping,
           outpkt := { c.outpkt with sentlen := r.outpkt.sentlen }, datacmc := r.datacmc }

/-- the fields a handler's "sender + rest of the function" may change: `scFrame` plus `sendPingSoon` -/
def sndFrame (c r : Cli) : Cli :=
  { c with chunkid := r.chunkid, chunkidPrev := r.chunkidPrev, chunkidPrev2 := r.chunkidPrev2, sendcnt := r.sendcnt,
           recvcnt := r.recvcnt, selecttimeout := r.selecttimeout, lazymode := r.lazymode, randSeed := r.randSeed, lastrawping := r.lastrawping,
           outpkt := { c.outpkt with sentlen := r.outpkt.sentlen }, datacmc := r.datacmc,
           sendPingSoon := r.sendPingSoon }

theorem scFrame_self (c : Cli) : scFrame c c = c := rfl
theorem sndFrame_self (c : Cli) : sndFrame c c = c := rfl

theorem sqFrame_scFrame (c r : Cli) (h : r = sqFrame c r) : r = scFrame c r := by
  have h1 : r.outpkt = c.outpkt := by have := congrArg Cli.outpkt h; exact this
  have h2 : r.datacmc = c.datacmc := by have := congrArg Cli.datacmc h; exact this
  calc r = sqFrame c r := h
    _ = scFrame c r := by simp only [sqFrame, scFrame, h1, h2]

theorem scFrame_sndFrame (c r : Cli) (h : r = scFrame c r) : r = sndFrame c r := by
  have h1 : r.sendPingSoon = c.sendPingSoon := by have := congrArg Cli.sendPingSoon h; exact this
  calc r = scFrame c r := h
    _ = sndFrame c r := by simp only [sndFrame, scFrame, h1]

theorem scFrame_trans (a b c : Cli) (h1 : b = scFrame a b) (h2 : c = scFrame b c) : c = scFrame a c := by
  calc c = scFrame b c := h2
    _ = scFrame (scFrame a b) c := congrArg (fun z => scFrame z c) h1
    _ = scFrame a c := rfl

theorem sndFrame_trans (a b c : Cli) (h1 : b = sndFrame a b) (h2 : c = sndFrame b c) : c = sndFrame a c := by
  calc c = sndFrame b c := h2
    _ = sndFrame (sndFrame a b) c := congrArg (fun z => sndFrame z c) h1
    _ = sndFrame a c := rfl

/-- `send_packet` changes only what `send_query` changes. -/
theorem sendPacket_frame (c : Cli) (cmd : Nat) (d : List Nat) :
    (sendPacket c cmd d).c = sqFrame c (sendPacket c cmd d).c := by
  unfold sendPacket
  exact sendQuery_frame _ _

/-- `send_ping` changes only what `send_query` changes (`randSeed`, the CMC of the ping, is among those fields). -/
theorem sendPing_frame (c : Cli) : (sendPing c).c = sqFrame c (sendPing c).c := by
  unfold sendPing
  split
  · exact sqFrame_trans _ _ _ rfl (sendPacket_frame _ _ _)
  · rfl

/-- `send_chunk` changes, besides the `send_query` fields, only `outpkt.sentlen` and `datacmc`. -/
theorem sendChunk_frame (c : Cli) : (sendChunk c).c = scFrame c (sendChunk c).c := by
  unfold sendChunk
  simp only
  exact scFrame_trans _ _ _ rfl (sqFrame_scFrame _ _ (sendQuery_frame _ _))

theorem sendPing_frame' (c : Cli) : (sendPing c).c = scFrame c (sendPing c).c :=
  sqFrame_scFrame _ _ (sendPing_frame c)

/-- `afterSend`: the state is the sender's, with `send_ping_soon = 0` unless the thread got parked. -/
theorem afterSend_state (s : Sent) (pre : List CEvent) (k : Resume) :
    (afterSend s pre k).1 = if s.parked then s.c else { s.c with sendPingSoon := 0 } := by
  unfold afterSend
  split
  · rfl
  · exact resume_state _ _

theorem afterSend_evs (s : Sent) (pre : List CEvent) (k : Resume) : (afterSend s pre k).2.1 = pre ++ s.evs := by
  unfold afterSend
  split <;> rfl

theorem afterSend_stop (s : Sent) (pre : List CEvent) (k : Resume) :
    (afterSend s pre k).2.2 = if s.parked then .park k else .ret (resume s.c k).2 := by
  unfold afterSend
  split <;> rfl

/-- frame of `afterSend`: whatever the sender left unchanged (up to `scFrame`) is still unchanged, except
`sendPingSoon` -/
theorem afterSend_frame (c : Cli) (s : Sent) (pre : List CEvent) (k : Resume) (h : s.c = scFrame c s.c) :
    (afterSend s pre k).1 = sndFrame c (afterSend s pre k).1 := by
  rw [afterSend_state]
  split
  · exact scFrame_sndFrame _ _ h
  · exact sndFrame_trans _ _ _ (scFrame_sndFrame _ _ h) rfl

/-- what the frames say field by field: everything of the transfer except `outpkt.sentlen` is left alone by
`send_chunk`, `send_ping`, `send_packet` (use with `sendChunk_frame`, `sendPing_frame'`, …) -/
theorem scFrame_fields (c r : Cli) (h : r = scFrame c r) :
    r.outpkt.len = c.outpkt.len ∧ r.outpkt.offset = c.outpkt.offset ∧ r.outpkt.fragment = c.outpkt.fragment ∧
    r.outpkt.seqno = c.outpkt.seqno ∧ r.outpkt.data = c.outpkt.data ∧ r.inpkt = c.inpkt ∧
    r.outchunkresent = c.outchunkresent ∧ r.running = c.running ∧ r.conn = c.conn ∧ r.userid = c.userid ∧
    r.useridChar = c.useridChar ∧ r.useridChar2 = c.useridChar2 ∧ r.dataenc = c.dataenc ∧ r.topdomain = c.topdomain ∧
    r.hostnameMaxlen = c.hostnameMaxlen ∧ r.lastdownstreamtime = c.lastdownstreamtime ∧ r.now = c.now ∧
    r.sendPingSoon = c.sendPingSoon ∧ r.doQtype = c.doQtype ∧ r.edns0 = c.edns0 ∧ r.downenc = c.downenc ∧
    r.packrecv = c.packrecv ∧ r.packrecvOos = c.packrecvOos ∧ r.packrecvServfail = c.packrecvServfail := by
  rw [h]
  exact ⟨rfl, rfl, rfl, rfl, rfl, rfl, rfl, rfl, rfl, rfl, rfl, rfl, rfl, rfl, rfl, rfl, rfl, rfl, rfl, rfl, rfl, rfl,
    rfl, rfl⟩

/-- the same for a whole handler tail (sender + `send_ping_soon = 0`): `sendPingSoon` is no longer kept -/
theorem sndFrame_fields (c r : Cli) (h : r = sndFrame c r) :
    r.outpkt.len = c.outpkt.len ∧ r.outpkt.offset = c.outpkt.offset ∧ r.outpkt.fragment = c.outpkt.fragment ∧
    r.outpkt.seqno = c.outpkt.seqno ∧ r.outpkt.data = c.outpkt.data ∧ r.inpkt = c.inpkt ∧
    r.outchunkresent = c.outchunkresent ∧ r.running = c.running ∧ r.conn = c.conn ∧ r.userid = c.userid ∧
    r.useridChar = c.useridChar ∧ r.useridChar2 = c.useridChar2 ∧ r.dataenc = c.dataenc ∧ r.topdomain = c.topdomain ∧
    r.hostnameMaxlen = c.hostnameMaxlen ∧ r.lastdownstreamtime = c.lastdownstreamtime ∧ r.now = c.now ∧
    r.doQtype = c.doQtype ∧ r.edns0 = c.edns0 ∧ r.downenc = c.downenc ∧
    r.packrecv = c.packrecv ∧ r.packrecvOos = c.packrecvOos ∧ r.packrecvServfail = c.packrecvServfail := by
  rw [h]
  exact ⟨rfl, rfl, rfl, rfl, rfl, rfl, rfl, rfl, rfl, rfl, rfl, rfl, rfl, rfl, rfl, rfl, rfl, rfl, rfl, rfl, rfl, rfl,
    rfl⟩

/-- `send_chunk` sets `outpkt.sentlen` to what `build_hostname` consumed and steps `datacmc` through 0..35 -/
theorem sendChunk_sentlen (c : Cli) :
    (sendChunk c).c.outpkt.sentlen =
      (buildHostname c.dataenc.codec c.hostnameMaxlen 4091 0 c.topdomain (outRest c.outpkt)).used ∧
    (sendChunk c).c.datacmc = (if c.datacmc + 1 ≥ 36 then 0 else c.datacmc + 1) := by
  unfold sendChunk
  simp only
  constructor
  · have := congrArg (fun z => z.outpkt.sentlen) (sendQuery_frame
      { c with outpkt := { c.outpkt with sentlen :=
          (buildHostname c.dataenc.codec c.hostnameMaxlen 4091 0 c.topdomain (outRest c.outpkt)).used },
               datacmc := if c.datacmc + 1 ≥ 36 then 0 else c.datacmc + 1 }
      (chunkHeader { c with outpkt := { c.outpkt with sentlen :=
          (buildHostname c.dataenc.codec c.hostnameMaxlen 4091 0 c.topdomain (outRest c.outpkt)).used } }
        ((buildHostname c.dataenc.codec c.hostnameMaxlen 4091 0 c.topdomain (outRest c.outpkt)).used ==
          c.outpkt.len - c.outpkt.offset) ++
        (buildHostname c.dataenc.codec c.hostnameMaxlen 4091 0 c.topdomain (outRest c.outpkt)).name))
    exact this
  · have := congrArg Cli.datacmc (sendQuery_frame
      { c with outpkt := { c.outpkt with sentlen :=
          (buildHostname c.dataenc.codec c.hostnameMaxlen 4091 0 c.topdomain (outRest c.outpkt)).used },
               datacmc := if c.datacmc + 1 ≥ 36 then 0 else c.datacmc + 1 }
      (chunkHeader { c with outpkt := { c.outpkt with sentlen :=
          (buildHostname c.dataenc.codec c.hostnameMaxlen 4091 0 c.topdomain (outRest c.outpkt)).used } }
        ((buildHostname c.dataenc.codec c.hostnameMaxlen 4091 0 c.topdomain (outRest c.outpkt)).used ==
          c.outpkt.len - c.outpkt.offset) ++
        (buildHostname c.dataenc.codec c.hostnameMaxlen 4091 0 c.topdomain (outRest c.outpkt)).name))
    exact this

/-! ## 2. `client_resends_then_gives_up` -/

/-- the data part of the host name `send_chunk` builds for the fragment in flight -/
def chunkData (c : Cli) : List Nat :=
  (buildHostname c.dataenc.codec c.hostnameMaxlen 4091 0 c.topdomain (outRest c.outpkt)).name

/-- same packet, same position in it -/
def SameChunk (c c' : Cli) : Prop :=
  c'.outpkt.len = c.outpkt.len ∧ c'.outpkt.offset = c.outpkt.offset ∧ c'.outpkt.fragment = c.outpkt.fragment ∧
  c'.outpkt.seqno = c.outpkt.seqno ∧ c'.outpkt.data = c.outpkt.data ∧ c'.inpkt = c.inpkt ∧
  c'.dataenc = c.dataenc ∧ c'.hostnameMaxlen = c.hostnameMaxlen ∧ c'.topdomain = c.topdomain ∧ c'.userid = c.userid ∧
  c'.useridChar = c.useridChar ∧ c'.conn = c.conn

theorem SameChunk.refl (c : Cli) : SameChunk c c :=
  ⟨rfl, rfl, rfl, rfl, rfl, rfl, rfl, rfl, rfl, rfl, rfl, rfl⟩

theorem SameChunk.trans {a b c : Cli} (h1 : SameChunk a b) (h2 : SameChunk b c) : SameChunk a c := by
  obtain ⟨a1, a2, a3, a4, a5, a6, a7, a8, a9, a10, a11, a12⟩ := h1
  obtain ⟨b1, b2, b3, b4, b5, b6, b7, b8, b9, b10, b11, b12⟩ := h2
  exact ⟨b1.trans a1, b2.trans a2, b3.trans a3, b4.trans a4, b5.trans a5, b6.trans a6, b7.trans a7, b8.trans a8,
    b9.trans a9, b10.trans a10, b11.trans a11, b12.trans a12⟩

/-- whatever lies inside `sndFrame` of a state with the same chunk has the same chunk -/
theorem sameChunk_of_sndFrame (c0 c r : Cli) (h : r = sndFrame c r) (h0 : SameChunk c0 c) : SameChunk c0 r := by
  rw [h]
  exact h0

theorem chunkData_sameChunk {c c' : Cli} (h : SameChunk c c') : chunkData c' = chunkData c := by
  obtain ⟨h1, h2, -, -, h5, -, h7, h8, h9, -, -, -⟩ := h
  unfold chunkData outRest
  rw [h1, h2, h5, h7, h8, h9]

/-- the four header characters of a chunk depend only on what `SameChunk` fixes, the fifth on `datacmc` -/
theorem chunkHeader_sameChunk {c c' : Cli} (h : SameChunk c c') (hd : c'.datacmc = c.datacmc) (last : Bool) :
    chunkHeader c' last = chunkHeader c last := by
  obtain ⟨-, -, h3, h4, -, h6, -, -, -, -, h11, -⟩ := h
  unfold chunkHeader
  rw [h3, h4, h6, h11, hd]

/-- the five characters in front of the data part do not depend on `outpkt.sentlen` -/
theorem chunkHeader_length (c : Cli) (last : Bool) : (chunkHeader c last).length = 5 := rfl

/-- `send_chunk` is `send_query` of a 5-character header followed by `chunkData c`: a resent chunk (`SameChunk`)
carries the SAME data part (`chunkData_sameChunk`). -/
theorem sendChunk_eq (c : Cli) :
    sendChunk c =
      (let used := (buildHostname c.dataenc.codec c.hostnameMaxlen 4091 0 c.topdomain (outRest c.outpkt)).used
       let c2 : Cli := { c with outpkt := { c.outpkt with sentlen := used } }
       let last : Bool := used == c.outpkt.len - c.outpkt.offset
       let c1 : Cli := { c2 with datacmc := if c2.datacmc + 1 ≥ 36 then 0 else c2.datacmc + 1 }
       sendQuery c1 (chunkHeader c2 last ++ chunkData c)) := rfl

theorem sendChunk_name (c : Cli) :
    (sendChunk c).evs =
      (let used := (buildHostname c.dataenc.codec c.hostnameMaxlen 4091 0 c.topdomain (outRest c.outpkt)).used
       let c2 : Cli := { c with outpkt := { c.outpkt with sentlen := used } }
       let last : Bool := used == c.outpkt.len - c.outpkt.offset
       let c1 : Cli := { c2 with datacmc := if c2.datacmc + 1 ≥ 36 then 0 else c2.datacmc + 1 }
       (sendQuery c1 (chunkHeader c2 last ++ chunkData c)).evs) := rfl

/-- `outchunkresent` does not enter the chunk -/
theorem sameChunk_resent (c : Cli) (n : Nat) : SameChunk c { c with outchunkresent := n } := SameChunk.refl c

theorem isSending_of_sameChunk {c c' : Cli} (h : SameChunk c c') : isSending c' = isSending c := by
  unfold isSending
  rw [h.1]

/-- a timeout with fewer than three resends behind it: the same chunk is sent again, the counter goes up by one -/
theorem timeoutBranch_resend_spec (c : Cli) (hs : isSending c = true) (h : c.outchunkresent < 3) :
    SameChunk c (timeoutBranch c).1 ∧ (timeoutBranch c).1.outchunkresent = c.outchunkresent + 1 ∧
    isSending (timeoutBranch c).1 = true ∧
    (timeoutBranch c).2.1 = (sendChunk { c with outchunkresent := c.outchunkresent + 1 }).evs := by
  rw [timeoutBranch_resend c hs h]
  have hf := afterSend_frame _ _ [] .timeout (sendChunk_frame { c with outchunkresent := c.outchunkresent + 1 })
  have hsc := sameChunk_of_sndFrame c _ _ hf (sameChunk_resent c _)
  refine ⟨hsc, ?_, ?_, ?_⟩
  · have := congrArg Cli.outchunkresent hf
    exact this
  · rw [isSending_of_sameChunk hsc, hs]
  · rw [afterSend_evs]
    rfl

/-- the state from which the give-up ping is sent: no packet in flight, counter 0 -/
abbrev dropPkt (c : Cli) : Cli :=
  { c with outpkt := { c.outpkt with offset := 0, len := 0, sentlen := 0 }, outchunkresent := 0 }

/-- a timeout with three resends behind it: the packet is dropped, a ping is sent -/
theorem timeoutBranch_giveup_spec (c : Cli) (hs : isSending c = true) (h : 3 ≤ c.outchunkresent) :
    (timeoutBranch c).1.outpkt.len = 0 ∧ (timeoutBranch c).1.outchunkresent = 0 ∧
    isSending (timeoutBranch c).1 = false ∧
    (timeoutBranch c).2.1 =
      (sendPing { c with outpkt := { c.outpkt with offset := 0, len := 0, sentlen := 0 }, outchunkresent := 0 }).evs := by
  have he : timeoutBranch c = afterSend (sendPing (dropPkt c)) [] .timeout := by
    unfold timeoutBranch
    have : ¬ c.outchunkresent < 3 := by omega
    simp [hs, this]
  rw [he]
  have hf := afterSend_frame _ _ [] .timeout (sendPing_frame' (dropPkt c))
  have hl : (afterSend (sendPing (dropPkt c)) [] .timeout).1.outpkt.len = 0 := by
    have := congrArg (fun z => z.outpkt.len) hf
    exact this
  refine ⟨hl, ?_, ?_, ?_⟩
  · have := congrArg Cli.outchunkresent hf
    exact this
  · unfold isSending
    rw [hl]
    rfl
  · rw [afterSend_evs]
    rfl

/-- Exactly three resends of the same chunk, the fourth timeout drops the packet and pings. -/
theorem client_resends_then_gives_up (c : Cli) (hs : isSending c = true) (h0 : c.outchunkresent = 0) :
    let c1 := (timeoutBranch c).1
    let c2 := (timeoutBranch c1).1
    let c3 := (timeoutBranch c2).1
    let c4 := (timeoutBranch c3).1
    SameChunk c c1 ∧ c1.outchunkresent = 1 ∧ SameChunk c c2 ∧ c2.outchunkresent = 2 ∧
    SameChunk c c3 ∧ c3.outchunkresent = 3 ∧
    (timeoutBranch c).2.1 = (sendChunk { c with outchunkresent := 1 }).evs ∧
    (timeoutBranch c1).2.1 = (sendChunk { c1 with outchunkresent := 2 }).evs ∧
    (timeoutBranch c2).2.1 = (sendChunk { c2 with outchunkresent := 3 }).evs ∧
    c4.outpkt.len = 0 ∧ c4.outchunkresent = 0 ∧ isSending c4 = false ∧
    (timeoutBranch c3).2.1 =
      (sendPing { c3 with outpkt := { c3.outpkt with offset := 0, len := 0, sentlen := 0 }, outchunkresent := 0 }).evs := by
  intro c1 c2 c3 c4
  obtain ⟨a1, a2, a3, a4⟩ := timeoutBranch_resend_spec c hs (by omega)
  have a2' : c1.outchunkresent = 1 := by rw [a2, h0]
  obtain ⟨b1, b2, b3, b4⟩ := timeoutBranch_resend_spec c1 a3 (by omega)
  have b2' : c2.outchunkresent = 2 := by rw [b2, a2']
  obtain ⟨d1, d2, d3, d4⟩ := timeoutBranch_resend_spec c2 b3 (by omega)
  have d2' : c3.outchunkresent = 3 := by rw [d2, b2']
  obtain ⟨e1, e2, e3, e4⟩ := timeoutBranch_giveup_spec c3 d3 (by omega)
  rw [h0] at a4
  rw [a2'] at b4
  rw [b2'] at d4
  exact ⟨a1, a2', a1.trans b1, b2', (a1.trans b1).trans d1, d2', a4, b4, d4, e1, e2, e3, e4⟩

/-- `advanceClock` changes only `now` … -/
theorem advanceClock_frame (c : Cli) (s : Sel) : advanceClock c s = { c with now := (advanceClock c s).now } := rfl

/-- … and never turns the clock back -/
theorem advanceClock_now (c : Cli) (s : Sel) : (advanceClock c s).now = c.now + (s.to / 1000000).toNat := rfl

theorem advanceClock_sameChunk (c : Cli) (s : Sel) : SameChunk c (advanceClock c s) := SameChunk.refl c

theorem advanceClock_outchunkresent (c : Cli) (s : Sel) : (advanceClock c s).outchunkresent = c.outchunkresent := rfl

theorem advanceClock_isSending (c : Cli) (s : Sel) : isSending (advanceClock c s) = isSending c := rfl

/-- the step machine on a `tick`: the `i == 0` branch on the state with the advanced clock (as long as the 60 s
have not run out) -/
theorem tunnelStep_tick (c : Cli) (hrun : c.running = true)
    (hexp : ¬ c.lastdownstreamtime + 60 < (advanceClock c (selectOf c)).now) :
    tunnelStep c .tick = settle (timeoutBranch (advanceClock c (selectOf c))) := by
  have h1 : afterSelect (advanceClock c (selectOf c)) = advanceClock c (selectOf c) := by
    unfold afterSelect
    exact if_neg hexp
  have h2 : (advanceClock c (selectOf c)).running = true := hrun
  unfold tunnelStep
  simp only [fire, h1, h2]
  rfl

/-- the fields an excursion into `handshake_lazyoff` may change -/
def lzFrame (c r : Cli) : Cli :=
  { c with chunkid := r.chunkid, chunkidPrev := r.chunkidPrev, chunkidPrev2 := r.chunkidPrev2, sendcnt := r.sendcnt,
           recvcnt := r.recvcnt, selecttimeout := r.selecttimeout, lazymode := r.lazymode, randSeed := r.randSeed, lastrawping := r.lastrawping,
           now := r.now, sendPingSoon := r.sendPingSoon }

theorem lzFrame_trans (a b c : Cli) (h1 : b = lzFrame a b) (h2 : c = lzFrame b c) : c = lzFrame a c := by
  calc c = lzFrame b c := h2
    _ = lzFrame (lzFrame a b) c := congrArg (fun z => lzFrame z c) h1
    _ = lzFrame a c := rfl

theorem sqFrame_lzFrame (c r : Cli) (h : r = sqFrame c r) : r = lzFrame c r := by
  have h1 : r.now = c.now := by have := congrArg Cli.now h; exact this
  have h2 : r.sendPingSoon = c.sendPingSoon := by have := congrArg Cli.sendPingSoon h; exact this
  calc r = sqFrame c r := h
    _ = lzFrame c r := by simp only [sqFrame, lzFrame, h1, h2]

theorem fire_frame (c : Cli) (s : Sel) (inp : CInput) : (fire c s inp).1 = lzFrame c (fire c s inp).1 := by
  unfold fire
  split
  · rfl
  · split <;> rfl
  · rfl

theorem waitdnsRound_frame (c : Cli) (w : WaitIn) (r : Cli × Int) (h : waitdnsRound c w = some r) :
    r.1 = lzFrame c r.1 := by
  cases w with
  | timeout =>
    unfold waitdnsRound at h
    cases h
    rfl
  | ans rq =>
    unfold waitdnsRound at h
    simp only at h
    split at h
    · cases h
    · by_cases h2 : rq.rv < 0
      · rw [if_pos h2] at h
        cases h
        dsimp only
        split <;> rfl
      · rw [if_neg h2] at h
        cases h
        dsimp only
        split <;> rfl

theorem lazyoffGot_frame (c : Cli) (read : Int) (buf : List Nat) : (lazyoffGot c read buf).1 = lzFrame c (lazyoffGot c read buf).1 := by
  unfold lazyoffGot
  split <;> rfl

theorem lazyoffReturn_frame (c : Cli) (k : Resume) (evs : List CEvent) :
    (lazyoffReturn c k evs).1.c = lzFrame c (lazyoffReturn c k evs).1.c := by
  unfold lazyoffReturn loopTop
  rw [resume_state]
  split <;> rfl

theorem lazyoffNext_frame (c : Cli) (i : Nat) (k : Resume) :
    (lazyoffNext c i k).1.c = lzFrame c (lazyoffNext c i k).1.c := by
  unfold lazyoffNext
  simp only
  split
  · exact sqFrame_lzFrame _ _ (lazyoffIter_frame _ _)
  · exact lzFrame_trans _ _ _ (sqFrame_lzFrame _ _ (lazyoffIter_frame _ _)) (lazyoffReturn_frame _ _ _)

theorem lazyoffTail_frame (c : Cli) (i : Nat) (k : Resume) (read : Int) (buf : List Nat) :
    (if (lazyoffGot c read buf).2 then lazyoffReturn (lazyoffGot c read buf).1 k []
      else lazyoffNext (lazyoffGot c read buf).1 i k).1.c =
    lzFrame c (if (lazyoffGot c read buf).2 then lazyoffReturn (lazyoffGot c read buf).1 k []
      else lazyoffNext (lazyoffGot c read buf).1 i k).1.c := by
  split
  · exact lzFrame_trans _ _ _ (lazyoffGot_frame _ _ _) (lazyoffReturn_frame _ _ _)
  · exact lzFrame_trans _ _ _ (lazyoffGot_frame _ _ _) (lazyoffNext_frame _ _ _)

/-- a step inside `handshake_lazyoff` changes only the `send_query` fields, the clock and `send_ping_soon` -/
theorem lazyoffStep_frame (c : Cli) (i : Nat) (k : Resume) (inp : CInput) :
    (lazyoffStep c i k inp).1.c = lzFrame c (lazyoffStep c i k inp).1.c := by
  unfold lazyoffStep
  simp only
  split
  · exact fire_frame _ _ _
  · rename_i c' read hw
    have h1 := waitdnsRound_frame _ _ _ hw
    have h12 := lzFrame_trans _ _ _ (fire_frame c waitSel inp) h1
    exact lzFrame_trans _ _ _ h12 (lazyoffTail_frame _ _ _ _ _)

/-- An excursion into `handshake_lazyoff` leaves the packets and the resend counter alone. -/
theorem lazyoffStep_preserves (c : Cli) (i : Nat) (k : Resume) (inp : CInput) :
    (cstep ⟨c, .lazyoff i k⟩ inp).1.c.outpkt = c.outpkt ∧ (cstep ⟨c, .lazyoff i k⟩ inp).1.c.inpkt = c.inpkt ∧
    (cstep ⟨c, .lazyoff i k⟩ inp).1.c.outchunkresent = c.outchunkresent ∧
    SameChunk c (cstep ⟨c, .lazyoff i k⟩ inp).1.c := by
  have h : (cstep ⟨c, .lazyoff i k⟩ inp).1.c = lzFrame c (cstep ⟨c, .lazyoff i k⟩ inp).1.c := lazyoffStep_frame c i k inp
  refine ⟨?_, ?_, ?_, ?_⟩
  · have := congrArg Cli.outpkt h; exact this
  · have := congrArg Cli.inpkt h; exact this
  · have := congrArg Cli.outchunkresent h; exact this
  · rw [h]; exact SameChunk.refl c

/-- non-vacuity: a concrete client with a 3-byte packet in flight; the four successive timeouts produce three data
queries (same name up to the data-CMC character, position 4) and then a ping (`p…`), after which nothing is in
flight. -/
def exC : Cli :=
  { Cli.boot with topdomain := [97, 46, 98, 99], doQtype := 10, running := true, conn := .dnsNull, useridChar := 48,
                  outpkt := ⟨3, 0, 0, [0x5a, 1, 2], 1, 0⟩ }

example :
    let r1 := timeoutBranch exC
    let r2 := timeoutBranch r1.1
    let r3 := timeoutBranch r2.1
    let r4 := timeoutBranch r3.1
    r1.2.1 = [.query 7727 10 [48, 101, 97, 98, 97, 108, 105, 97, 113, 101, 46, 97, 46, 98, 99]] ∧
    r2.2.1 = [.query 15454 10 [48, 101, 97, 98, 98, 108, 105, 97, 113, 101, 46, 97, 46, 98, 99]] ∧
    r3.2.1 = [.query 23181 10 [48, 101, 97, 98, 99, 108, 105, 97, 113, 101, 46, 97, 46, 98, 99]] ∧
    r4.2.1 = [.query 30908 10 [112, 97, 97, 97, 97, 97, 97, 97, 46, 97, 46, 98, 99]] ∧
    r3.1.outchunkresent = 3 ∧ r4.1.outchunkresent = 0 ∧ r4.1.outpkt.len = 0 := by decide +kernel

example : isSending exC = true ∧ exC.outchunkresent = 0 := by decide

/-! ## 3. `client_tun_gating` -/

/-- tun is in the read set exactly when nothing is in flight or the chunk in flight has been resent twice -/
theorem client_tun_gating (c : Cli) :
    (selectOf c).tun = true ↔ (isSending c = false ∨ c.outchunkresent ≥ 2) := selectOf_tun c

theorem afterSelect_of_not_expired (c : Cli) (hexp : ¬ c.lastdownstreamtime + 60 < c.now) : afterSelect c = c :=
  if_neg hexp

theorem afterSelect_of_expired (c : Cli) (hexp : c.lastdownstreamtime + 60 < c.now) :
    afterSelect c = { c with running := false } := if_pos hexp

/-- the raw-mode keepalive is a no-op in DNS mode -/
theorem rawKeepalive_dns (c : Cli) (h : c.conn = .dnsNull) : rawKeepalive c = (c, []) := by
  unfold rawKeepalive
  rw [if_neg (by intro hc; exact hc.1 h)]

/-- … and in any mode touches only `lastrawping` -/
theorem rawKeepalive_frame (c : Cli) : (rawKeepalive c).1 = { c with lastrawping := (rawKeepalive c).1.lastrawping } := by
  unfold rawKeepalive
  split <;> rfl

theorem after_nil (r : CState × List CEvent × Next) : after [] r = r := rfl

/-- what `tunnelStep` does once the 60 s check has passed (the raw-mode keepalive precedes the tun / dns handlers) -/
theorem tunnelStep_alive_raw (c : Cli) (inp : CInput) (hrun : c.running = true)
    (hexp : ¬ (fire c (selectOf c) inp).1.lastdownstreamtime + 60 < (fire c (selectOf c) inp).1.now) :
    tunnelStep c inp =
      (match (fire c (selectOf c) inp).2 with
       | .timeout => settle (timeoutBranch (fire c (selectOf c) inp).1)
       | .tun frame => after (rawKeepalive (fire c (selectOf c) inp).1).2
           (settle (tunnelTun (rawKeepalive (fire c (selectOf c) inp).1).1 frame))
       | .dns inp' => after (rawKeepalive (fire c (selectOf c) inp).1).2
           (settle (tunnelDnsInput (rawKeepalive (fire c (selectOf c) inp).1).1 inp'))) := by
  have hr : (fire c (selectOf c) inp).1.running = true := by
    have := congrArg Cli.running (fire_frame c (selectOf c) inp)
    exact this.trans hrun
  unfold tunnelStep
  simp only [afterSelect_of_not_expired _ hexp, hr, Bool.not_true, Bool.false_eq_true, if_false]
  generalize (fire c (selectOf c) inp).2 = fd
  cases fd <;> rfl

/-- the same in DNS mode, where no keepalive exists -/
theorem tunnelStep_alive (c : Cli) (inp : CInput) (hrun : c.running = true) (hconn : c.conn = .dnsNull)
    (hexp : ¬ (fire c (selectOf c) inp).1.lastdownstreamtime + 60 < (fire c (selectOf c) inp).1.now) :
    tunnelStep c inp =
      (match (fire c (selectOf c) inp).2 with
       | .timeout => settle (timeoutBranch (fire c (selectOf c) inp).1)
       | .tun frame => settle (tunnelTun (fire c (selectOf c) inp).1 frame)
       | .dns inp' => settle (tunnelDnsInput (fire c (selectOf c) inp).1 inp')) := by
  have hc : (fire c (selectOf c) inp).1.conn = .dnsNull := by
    have := congrArg Cli.conn (fire_frame c (selectOf c) inp)
    exact this.trans hconn
  rw [tunnelStep_alive_raw c inp hrun hexp, rawKeepalive_dns _ hc]
  generalize (fire c (selectOf c) inp).2 = fd
  cases fd <;> rfl

/-- A tun frame that arrives while a packet is in flight (possible from the second resend on, when tun is selected
again) is read and discarded: NOTHING changes and nothing is sent — except, in raw mode, the keepalive that precedes
every handler when it is due (`rawKeepalive`: only `lastrawping` changes). -/
theorem tunnelStep_tun_while_sending_raw (c : Cli) (f : List Nat) (hrun : c.running = true)
    (hexp : ¬ c.lastdownstreamtime + 60 < c.now) (hs : isSending c = true) (h2 : c.outchunkresent ≥ 2) :
    tunnelStep c (.tun f) =
      (⟨(rawKeepalive c).1, .tunnel⟩, (rawKeepalive c).2, .sel (selectOf (rawKeepalive c).1)) := by
  have ht : (selectOf c).tun = true := (selectOf_tun c).2 (Or.inr h2)
  have hfire : fire c (selectOf c) (.tun f) = (c, .tun f) := by
    simp only [fire, ht, if_true]
  have hk := rawKeepalive_frame c
  have hs' : isSending (rawKeepalive c).1 = true := by rw [hk]; exact hs
  have hr' : (rawKeepalive c).1.running = true := by rw [hk]; exact hrun
  rw [tunnelStep_alive_raw c _ hrun (by rw [hfire]; exact hexp), hfire]
  simp only [tunnelTun_sending _ f hs', settle, loopTop, hr', if_true, after, List.append_nil]

/-- … in DNS mode: nothing at all -/
theorem tunnelStep_tun_while_sending (c : Cli) (f : List Nat) (hrun : c.running = true) (hconn : c.conn = .dnsNull)
    (hexp : ¬ c.lastdownstreamtime + 60 < c.now) (hs : isSending c = true) (h2 : c.outchunkresent ≥ 2) :
    tunnelStep c (.tun f) = (⟨c, .tunnel⟩, [], .sel (selectOf c)) := by
  rw [tunnelStep_tun_while_sending_raw c f hrun hexp hs h2, rawKeepalive_dns c hconn]

/-- the packet `tunnel_tun` sets up from a frame -/
def newPacket (c : Cli) (f : List Nat) : Cli :=
  { c with outpkt := { data := (compress (f.take 65536)).take 65536, len := (f.take 65536).length + 1, offset := 0,
                       sentlen := 0, fragment := 0, seqno := sChar ((c.outpkt.seqno + 1) % 8) },
           outchunkresent := 0 }

/-- `tunnel_tun` with nothing in flight and a non-empty frame: new packet, next seqno, first chunk (or raw frame) sent -/
theorem tunnelTun_accept (c : Cli) (f : List Nat) (hs : isSending c = false) (hf : f ≠ []) :
    tunnelTun c f =
      if c.conn = .dnsNull then afterSend (sendChunk (newPacket c f)) [] (.tunChunk ((f.take 65536).length : Nat))
      else ((sendRawData (newPacket c f)).1, (sendRawData (newPacket c f)).2, .ret ((f.take 65536).length : Nat)) := by
  have hl : ¬ (f.take 65536).length = 0 := by
    cases f with
    | nil => exact absurd rfl hf
    | cons a t => simp
  unfold tunnelTun
  simp only [if_neg hl, hs, Bool.false_eq_true, if_false]
  rfl

theorem tunnelStep_tun_accept_raw (c : Cli) (f : List Nat) (hrun : c.running = true)
    (hexp : ¬ c.lastdownstreamtime + 60 < c.now) (hs : isSending c = false) (hf : f ≠ []) :
    tunnelStep c (.tun f) =
      after (rawKeepalive c).2
        (settle (if c.conn = .dnsNull then
                   afterSend (sendChunk (newPacket (rawKeepalive c).1 f)) [] (.tunChunk ((f.take 65536).length : Nat))
                 else ((sendRawData (newPacket (rawKeepalive c).1 f)).1, (sendRawData (newPacket (rawKeepalive c).1 f)).2,
                       .ret ((f.take 65536).length : Nat)))) := by
  have ht : (selectOf c).tun = true := (selectOf_tun c).2 (Or.inl hs)
  have hfire : fire c (selectOf c) (.tun f) = (c, .tun f) := by
    simp only [fire, ht, if_true]
  have hk := rawKeepalive_frame c
  have hs' : isSending (rawKeepalive c).1 = false := by rw [hk]; exact hs
  have hc' : (rawKeepalive c).1.conn = c.conn := by rw [hk]
  rw [tunnelStep_alive_raw c _ hrun (by rw [hfire]; exact hexp), hfire]
  simp only [tunnelTun_accept _ f hs' hf, hc']

theorem tunnelStep_tun_accept (c : Cli) (f : List Nat) (hrun : c.running = true) (hconn : c.conn = .dnsNull)
    (hexp : ¬ c.lastdownstreamtime + 60 < c.now) (hs : isSending c = false) (hf : f ≠ []) :
    tunnelStep c (.tun f) =
      settle (afterSend (sendChunk (newPacket c f)) [] (.tunChunk ((f.take 65536).length : Nat))) := by
  rw [tunnelStep_tun_accept_raw c f hrun hexp hs hf, rawKeepalive_dns c hconn, if_pos hconn]
  rfl

/-- HARNESS ARTEFACT: a tun frame offered while tun_fd is not in the read set cannot be seen by the real `select`;
the harness (and `fire`) makes the `select` return 0 instead, without advancing the clock, so `.tun f` acts like a
timeout.  (Nothing of the C program corresponds to this input; it only says the model never reads tun then.) -/
theorem tunnelStep_tun_not_selected (c : Cli) (f : List Nat) (hrun : c.running = true)
    (hexp : ¬ c.lastdownstreamtime + 60 < c.now) (ht : (selectOf c).tun = false) :
    tunnelStep c (.tun f) = settle (timeoutBranch c) := by
  have hfire : fire c (selectOf c) (.tun f) = (c, .timeout) := by
    simp only [fire, ht, Bool.false_eq_true, if_false]
  rw [tunnelStep_alive_raw c _ hrun (by rw [hfire]; exact hexp), hfire]

/-! ## 4. `ack_advances`, client half -/

/-- `finalPing` changes only sender fields and `sendPingSoon` -/
theorem finalPing_frame (c : Cli) (evs : List CEvent) (sendNow : Bool) (read : Int) :
    (finalPing c evs sendNow read).1 = sndFrame c (finalPing c evs sendNow read).1 := by
  unfold finalPing
  split
  · exact afterSend_frame _ _ _ _ (sendPing_frame' c)
  · rfl

theorem finalPing_evs (c : Cli) (evs : List CEvent) (sendNow : Bool) (read : Int) :
    (finalPing c evs sendNow read).2.1 = if sendNow then evs ++ (sendPing c).evs else evs := by
  unfold finalPing
  split
  · exact afterSend_evs _ _ _
  · rfl

/-- the state `send_chunk` is called with after an ack of a non-final fragment -/
def ackNext (c : Cli) : Cli :=
  { c with outpkt := { c.outpkt with offset := c.outpkt.offset + c.outpkt.sentlen,
                                     fragment := sChar (c.outpkt.fragment + 1) },
           outchunkresent := 0 }

/-- the state after the ack of the last fragment ("Packet completed"), before the final ping -/
def ackDone (c : Cli) : Cli :=
  { c with outpkt := { c.outpkt with offset := 0, len := 0, sentlen := 0 }, outchunkresent := 0,
           sendPingSoon := if c.sendPingSoon = 0 ∨ c.sendPingSoon > 20 then 20 else c.sendPingSoon }

theorem upstream_ack_more (c : Cli) (h : Hdr) (evs : List CEvent) (sendNow : Bool) (read : Int)
    (hs : isSending c = true) (hq : h.upSeq = c.outpkt.seqno) (hf : h.upFrag = c.outpkt.fragment)
    (hlt : c.outpkt.offset + c.outpkt.sentlen < c.outpkt.len) :
    upstream c h evs sendNow read = afterSend (sendChunk (ackNext c)) evs (.dnsChunk read) := by
  unfold upstream
  have : ¬ (c.outpkt.offset + c.outpkt.sentlen ≥ c.outpkt.len) := by omega
  simp only [hs, hq, hf, and_self, if_true, this, if_false]
  rfl

theorem upstream_ack_done (c : Cli) (h : Hdr) (evs : List CEvent) (sendNow : Bool) (read : Int)
    (hs : isSending c = true) (hq : h.upSeq = c.outpkt.seqno) (hf : h.upFrag = c.outpkt.fragment)
    (hge : ¬ c.outpkt.offset + c.outpkt.sentlen < c.outpkt.len) :
    upstream c h evs sendNow read = finalPing (ackDone c) evs sendNow read := by
  unfold upstream
  have : c.outpkt.offset + c.outpkt.sentlen ≥ c.outpkt.len := by omega
  simp only [hs, hq, hf, and_self, if_true, this]
  congr 1
  unfold ackDone
  by_cases hp : c.sendPingSoon = 0 ∨ c.sendPingSoon > 20
  · simp only [hp, if_true]
  · simp only [hp, if_false]

/-- The ack of the fragment in flight: either the next fragment goes out (offset advanced by what was sent, fragment
number + 1, resend counter 0), or the packet is complete. -/
theorem upstream_ack (c : Cli) (h : Hdr) (evs : List CEvent) (sendNow : Bool) (read : Int)
    (hs : isSending c = true) (hq : h.upSeq = c.outpkt.seqno) (hf : h.upFrag = c.outpkt.fragment) :
    let r := (upstream c h evs sendNow read).1
    (c.outpkt.offset + c.outpkt.sentlen < c.outpkt.len →
      r.outpkt.offset = c.outpkt.offset + c.outpkt.sentlen ∧ r.outpkt.fragment = sChar (c.outpkt.fragment + 1) ∧
      r.outpkt.len = c.outpkt.len ∧ r.outpkt.data = c.outpkt.data ∧ r.outpkt.seqno = c.outpkt.seqno ∧
      r.outchunkresent = 0 ∧ isSending r = true ∧
      (upstream c h evs sendNow read).2.1 = evs ++ (sendChunk (ackNext c)).evs) ∧
    (¬ c.outpkt.offset + c.outpkt.sentlen < c.outpkt.len →
      r.outpkt.len = 0 ∧ r.outpkt.offset = 0 ∧ r.outchunkresent = 0 ∧ isSending r = false ∧
      r.outpkt.seqno = c.outpkt.seqno ∧ r.outpkt.fragment = c.outpkt.fragment ∧
      (upstream c h evs sendNow read).2.1 = if sendNow then evs ++ (sendPing (ackDone c)).evs else evs) := by
  intro r
  constructor
  · intro hlt
    have he := upstream_ack_more c h evs sendNow read hs hq hf hlt
    have hfr : r = sndFrame (ackNext c) r := by
      show (upstream c h evs sendNow read).1 = sndFrame (ackNext c) (upstream c h evs sendNow read).1
      rw [he]
      exact afterSend_frame _ _ _ _ (sendChunk_frame (ackNext c))
    have hlen : r.outpkt.len = c.outpkt.len := by have := congrArg (fun z => z.outpkt.len) hfr; exact this
    refine ⟨?_, ?_, hlen, ?_, ?_, ?_, ?_, ?_⟩
    · have := congrArg (fun z => z.outpkt.offset) hfr; exact this
    · have := congrArg (fun z => z.outpkt.fragment) hfr; exact this
    · have := congrArg (fun z => z.outpkt.data) hfr; exact this
    · have := congrArg (fun z => z.outpkt.seqno) hfr; exact this
    · have := congrArg Cli.outchunkresent hfr; exact this
    · unfold isSending at hs ⊢
      rw [hlen]
      exact hs
    · rw [he, afterSend_evs]
  · intro hge
    have he := upstream_ack_done c h evs sendNow read hs hq hf hge
    have hfr : r = sndFrame (ackDone c) r := by
      show (upstream c h evs sendNow read).1 = sndFrame (ackDone c) (upstream c h evs sendNow read).1
      rw [he]
      exact finalPing_frame _ _ _ _
    have hlen : r.outpkt.len = 0 := by have := congrArg (fun z => z.outpkt.len) hfr; exact this
    refine ⟨hlen, ?_, ?_, ?_, ?_, ?_, ?_⟩
    · have := congrArg (fun z => z.outpkt.offset) hfr; exact this
    · have := congrArg Cli.outchunkresent hfr; exact this
    · unfold isSending
      rw [hlen]
      rfl
    · have := congrArg (fun z => z.outpkt.seqno) hfr; exact this
    · have := congrArg (fun z => z.outpkt.fragment) hfr; exact this
    · rw [he, finalPing_evs]

/-- Any other ack (nothing in flight, other seqno, other fragment) changes nothing of the transfer: only the final
ping (if one is due) is sent. -/
theorem upstream_other_ack (c : Cli) (h : Hdr) (evs : List CEvent) (sendNow : Bool) (read : Int)
    (hn : ¬ (isSending c = true ∧ h.upSeq = c.outpkt.seqno ∧ h.upFrag = c.outpkt.fragment)) :
    upstream c h evs sendNow read = finalPing c evs sendNow read ∧
    (upstream c h evs sendNow read).1.outpkt.len = c.outpkt.len ∧
    (upstream c h evs sendNow read).1.outpkt.offset = c.outpkt.offset ∧
    (upstream c h evs sendNow read).1.outpkt.fragment = c.outpkt.fragment ∧
    (upstream c h evs sendNow read).1.outpkt.seqno = c.outpkt.seqno ∧
    (upstream c h evs sendNow read).1.outpkt.data = c.outpkt.data ∧
    (upstream c h evs sendNow read).1.outchunkresent = c.outchunkresent ∧
    SameChunk c (upstream c h evs sendNow read).1 := by
  have he : upstream c h evs sendNow read = finalPing c evs sendNow read := by
    unfold upstream
    rw [if_neg hn]
  have hfr := finalPing_frame c evs sendNow read
  rw [he]
  refine ⟨rfl, ?_, ?_, ?_, ?_, ?_, ?_, ?_⟩
  · have := congrArg (fun z => z.outpkt.len) hfr; exact this
  · have := congrArg (fun z => z.outpkt.offset) hfr; exact this
  · have := congrArg (fun z => z.outpkt.fragment) hfr; exact this
  · have := congrArg (fun z => z.outpkt.seqno) hfr; exact this
  · have := congrArg (fun z => z.outpkt.data) hfr; exact this
  · have := congrArg Cli.outchunkresent hfr; exact this
  · exact sameChunk_of_sndFrame c c _ hfr (SameChunk.refl c)

/-! ## 5. `seqno_window` -/

/-- client and server carry the same copy of `recent_seqno` (common.c) -/
theorem recentSeqnoLoop_eq (got : Int) (n : Nat) (our : Int) :
    Client.recentSeqnoLoop got n our = Server.recentSeqnoLoop got n our := by
  induction n generalizing our with
  | zero => rfl
  | succ n ih => simp only [Client.recentSeqnoLoop, Server.recentSeqnoLoop, ih]

theorem recentSeqno_eq : Client.recentSeqno = Server.recentSeqno := by
  funext a b
  exact recentSeqnoLoop_eq b 4 a

theorem recentSeqno_unfold (a b : Int) (ha : 0 ≤ a ∧ a < 8) :
    Client.recentSeqno a b = true ↔ (b = a ∨ b = (a - 1) % 8 ∨ b = (a - 2) % 8 ∨ b = (a - 3) % 8) := by
  obtain ⟨h0, h8⟩ := ha
  have hc : a = 0 ∨ a = 1 ∨ a = 2 ∨ a = 3 ∨ a = 4 ∨ a = 5 ∨ a = 6 ∨ a = 7 := by omega
  rcases hc with rfl | rfl | rfl | rfl | rfl | rfl | rfl | rfl <;>
    simp [Client.recentSeqno, Client.recentSeqnoLoop]

/-- `recent_seqno(our, got)`: "current or up to 3 back", modulo 8 -/
theorem recentSeqno_iff (a b : Int) (ha : 0 ≤ a ∧ a < 8) :
    Client.recentSeqno a b = true ↔ ∃ k : Nat, k < 4 ∧ b = (a - k) % 8 := by
  rw [recentSeqno_unfold a b ha]
  constructor
  · rintro (h | h | h | h)
    · exact ⟨0, by omega, by omega⟩
    · exact ⟨1, by omega, by omega⟩
    · exact ⟨2, by omega, by omega⟩
    · exact ⟨3, by omega, by omega⟩
  · rintro ⟨k, hk, rfl⟩
    omega

theorem recentSeqno_iff_server (a b : Int) (ha : 0 ≤ a ∧ a < 8) :
    Server.recentSeqno a b = true ↔ ∃ k : Nat, k < 4 ∧ b = (a - k) % 8 := by
  rw [← recentSeqno_eq]
  exact recentSeqno_iff a b ha

/-- two consecutive packets are never mistaken for duplicates -/
theorem recentSeqno_next (a : Int) (ha : 0 ≤ a ∧ a < 8) : Client.recentSeqno a ((a + 1) % 8) = false := by
  cases hr : Client.recentSeqno a ((a + 1) % 8) with
  | false => rfl
  | true =>
    obtain ⟨k, hk, he⟩ := (recentSeqno_iff a _ ha).1 hr
    omega

theorem recentSeqno_next_server (a : Int) (ha : 0 ≤ a ∧ a < 8) : Server.recentSeqno a ((a + 1) % 8) = false := by
  rw [← recentSeqno_eq]
  exact recentSeqno_next a ha

/-- the window has exactly four members: four packets ahead is "new" again, anything nearer behind is a duplicate -/
theorem recentSeqno_far (a : Int) (ha : 0 ≤ a ∧ a < 8) (j : Nat) (hj : 1 ≤ j ∧ j ≤ 4) :
    Client.recentSeqno a ((a + j) % 8) = false := by
  cases hr : Client.recentSeqno a ((a + j) % 8) with
  | false => rfl
  | true =>
    obtain ⟨k, hk, he⟩ := (recentSeqno_iff a _ ha).1 hr
    omega

/-- server: the first fragment of the NEXT packet is taken (`upstream_ok`), the reassembly buffer restarts -/
theorem dataUpstream_next (x : Server.Session) (a : Int) (ha : 0 ≤ a ∧ a < 8) (hx : x.inpacket.seqno = a) (frag : Nat) :
    (Server.dataUpstream x ((a + 1) % 8).toNat frag).2 = true ∧
    (Server.dataUpstream x ((a + 1) % 8).toNat frag).1 =
      { x with inpacket := { x.inpacket with seqno := (a + 1) % 8, fragment := frag, len := 0, offset := 0 } } := by
  have hcast : (((a + 1) % 8).toNat : Int) = (a + 1) % 8 := by omega
  have hne : ¬ (a + 1) % 8 = a := by omega
  unfold Server.dataUpstream
  simp only [hcast, hx, hne, false_and, if_false, recentSeqno_next_server a ha, Bool.false_eq_true, and_false,
    ne_eq, not_false_eq_true, if_true, and_self]

/-- client: the first fragment of the NEXT downstream packet is taken, the reassembly buffer restarts -/
theorem acceptFragment_next (c : Cli) (h : Hdr) (ha : 0 ≤ c.inpkt.seqno ∧ c.inpkt.seqno < 8)
    (hn : h.dnSeq = (c.inpkt.seqno + 1) % 8) :
    acceptFragment c h =
      some { c with inpkt := { c.inpkt with seqno := (c.inpkt.seqno + 1) % 8, fragment := sChar h.dnFrag, len := 0 } } := by
  obtain ⟨h0, h8⟩ := ha
  have hne : h.dnSeq ≠ c.inpkt.seqno := by omega
  have hs : sChar h.dnSeq = (c.inpkt.seqno + 1) % 8 := by
    unfold sChar
    omega
  unfold acceptFragment
  rw [if_pos hne, hs]

theorem acceptFragment_next' (c : Cli) (h : Hdr) (ha : 0 ≤ c.inpkt.seqno ∧ c.inpkt.seqno < 8)
    (hn : h.dnSeq = (c.inpkt.seqno + 1) % 8) :
    ∃ c', acceptFragment c h = some c' ∧ c'.inpkt.len = 0 ∧ c'.inpkt.seqno = (c.inpkt.seqno + 1) % 8 ∧
      c'.inpkt.fragment = sChar h.dnFrag ∧ c'.outpkt = c.outpkt ∧ c'.outchunkresent = c.outchunkresent :=
  ⟨_, acceptFragment_next c h ha hn, rfl, rfl, rfl, rfl, rfl⟩

/-- … and it is not held back as a "recent duplicate" before that (`dupeSeqno` leaves `read` alone) -/
theorem dupeSeqno_next (c : Cli) (h : Hdr) (read : Int) (ha : 0 ≤ c.inpkt.seqno ∧ c.inpkt.seqno < 8)
    (hn : h.dnSeq = (c.inpkt.seqno + 1) % 8) : dupeSeqno c h read = (c, read) := by
  unfold dupeSeqno
  rw [hn, recentSeqno_next _ ha]
  simp

/-- a dataless header (`read = 2`) with an unseen seqno: the client adopts it -/
theorem datalessAdopt_spec (c : Cli) (h : Hdr) (hne : h.dnSeq ≠ c.inpkt.seqno)
    (hr : Client.recentSeqno c.inpkt.seqno h.dnSeq = false) :
    datalessAdopt c h 2 =
      { c with inpkt := { c.inpkt with seqno := sChar h.dnSeq, fragment := sChar h.dnFrag, len := 0 },
               sendPingSoon := 500 } ∧
    (datalessAdopt c h 2).inpkt.seqno = sChar h.dnSeq ∧ (datalessAdopt c h 2).inpkt.len = 0 := by
  have he : datalessAdopt c h 2 =
      { c with inpkt := { c.inpkt with seqno := sChar h.dnSeq, fragment := sChar h.dnFrag, len := 0 },
               sendPingSoon := 500 } := by
    unfold datalessAdopt
    simp [hne, hr]
  rw [he]
  exact ⟨rfl, rfl, rfl⟩

/-- … in particular the next seqno -/
theorem datalessAdopt_next (c : Cli) (h : Hdr) (ha : 0 ≤ c.inpkt.seqno ∧ c.inpkt.seqno < 8)
    (hn : h.dnSeq = (c.inpkt.seqno + 1) % 8) :
    (datalessAdopt c h 2).inpkt.seqno = (c.inpkt.seqno + 1) % 8 ∧ (datalessAdopt c h 2).inpkt.len = 0 := by
  have hne : h.dnSeq ≠ c.inpkt.seqno := by omega
  have hr : Client.recentSeqno c.inpkt.seqno h.dnSeq = false := by rw [hn]; exact recentSeqno_next _ ha
  have hs : sChar h.dnSeq = (c.inpkt.seqno + 1) % 8 := by
    unfold sChar
    omega
  obtain ⟨-, h1, h2⟩ := datalessAdopt_spec c h hne hr
  exact ⟨h1.trans hs, h2⟩

/-- with data or a seen seqno nothing is adopted here -/
theorem datalessAdopt_other (c : Cli) (h : Hdr) (read : Int)
    (hn : ¬ (read = 2 ∧ h.dnSeq ≠ c.inpkt.seqno ∧ Client.recentSeqno c.inpkt.seqno h.dnSeq = false)) :
    datalessAdopt c h read = c := by
  unfold datalessAdopt
  rw [if_neg]
  simpa using hn

example : Client.recentSeqno 1 6 = true ∧ Client.recentSeqno 1 5 = false ∧ Client.recentSeqno 1 2 = false := by decide

/-! ## 6. `session_expiry_60`, client half -/

theorem sndFrame_running (c r : Cli) (h : r = sndFrame c r) : r.running = c.running := by
  have := congrArg Cli.running h
  exact this

theorem timeoutBranch_frame_running (c : Cli) : (timeoutBranch c).1.running = c.running := by
  unfold timeoutBranch
  split
  · split
    · exact (sndFrame_running _ _ (afterSend_frame _ _ _ _ (sendChunk_frame _))).trans rfl
    · exact (sndFrame_running _ _ (afterSend_frame _ _ _ _ (sendPing_frame' _))).trans rfl
  · exact (sndFrame_running _ _ (afterSend_frame _ _ _ _ (sendPing_frame' _))).trans rfl

/-- the `i == 0` branch never clears `running` -/
theorem timeoutBranch_running (c : Cli) : (timeoutBranch c).1.running = c.running := timeoutBranch_frame_running c

/-- `tunnel_tun` never clears `running` -/
theorem tunnelTun_running (c : Cli) (f : List Nat) : (tunnelTun c f).1.running = c.running := by
  unfold tunnelTun
  simp only
  split
  · rfl
  · split
    · rfl
    · split
      · exact (sndFrame_running _ _ (afterSend_frame _ _ _ _ (sendChunk_frame _))).trans rfl
      · rfl

theorem finalPing_running (c : Cli) (evs : List CEvent) (sendNow : Bool) (read : Int) :
    (finalPing c evs sendNow read).1.running = c.running :=
  sndFrame_running _ _ (finalPing_frame c evs sendNow read)

theorem upstream_running (c : Cli) (h : Hdr) (evs : List CEvent) (sendNow : Bool) (read : Int) :
    (upstream c h evs sendNow read).1.running = c.running := by
  unfold upstream
  simp only
  split
  · split
    · rw [finalPing_running]
      split <;> rfl
    · exact (sndFrame_running _ _ (afterSend_frame _ _ _ _ (sendChunk_frame _))).trans rfl
  · exact finalPing_running _ _ _ _

theorem servfailCount_running (c : Cli) (rq : Rq) : (servfailCount c rq).running = c.running := by
  unfold servfailCount
  repeat' split
  all_goals rfl

theorem dupeSeqno_running (c : Cli) (h : Hdr) (read : Int) : (dupeSeqno c h read).1.running = c.running := by
  unfold dupeSeqno
  split <;> rfl

theorem oosCount_running (c : Cli) : (oosCount c).running = c.running := by
  unfold oosCount
  simp only
  split <;> rfl

theorem lazyHint_running (c : Cli) (id : Nat) : (lazyHint c id).running = c.running := by
  unfold lazyHint
  repeat' split
  all_goals rfl

theorem datalessAdopt_running (c : Cli) (h : Hdr) (read : Int) : (datalessAdopt c h read).running = c.running := by
  unfold datalessAdopt
  split <;> rfl

theorem acceptFragment_running (c c' : Cli) (h : Hdr) (he : acceptFragment c h = some c') : c'.running = c.running := by
  unfold acceptFragment at he
  repeat' split at he
  all_goals first | (cases he; rfl) | cases he

theorem downstream_running (c : Cli) (h : Hdr) (buf : List Nat) (read : Int) (sendNow : Bool) :
    (downstream c h buf read sendNow).1.running = c.running := by
  unfold downstream
  split
  · split
    · rfl
    · rename_i c' he
      have h1 := acceptFragment_running c c' h he
      simp only
      split
      · split
        · exact h1
        · exact h1
      · split
        · exact h1
        · exact h1
  · rfl

/-- `tunnel_dns` (DNS mode) never clears `running` -/
theorem tunnelDns_running (c : Cli) (rq : Rq) : (tunnelDns c rq).1.running = c.running := by
  unfold tunnelDns
  split
  · rfl
  · split
    · exact servfailCount_running c rq
    · split
      · rfl
      · simp only
        split
        · split
          · rw [sndFrame_running _ _ (afterSend_frame _ _ _ _ (sendPing_frame' _)), oosCount_running]
            exact dupeSeqno_running _ _ _
          · rw [oosCount_running]
            exact dupeSeqno_running _ _ _
        · rw [upstream_running, downstream_running, datalessAdopt_running, lazyHint_running]
          exact dupeSeqno_running _ _ _

theorem readRaw_running (c : Cli) (d : List Nat) : (readRaw c d).1.running = c.running := by
  unfold readRaw
  simp only
  repeat' split
  all_goals rfl

/-- `tunnel_dns` never clears `running` -/
theorem tunnelDnsInput_running (c : Cli) (inp : CInput) : (tunnelDnsInput c inp).1.running = c.running := by
  unfold tunnelDnsInput
  split
  · split <;> exact tunnelDns_running _ _
  · split <;> exact readRaw_running _ _

theorem fire_running (c : Cli) (s : Sel) (inp : CInput) : (fire c s inp).1.running = c.running := by
  have := congrArg Cli.running (fire_frame c s inp)
  exact this

/-- a handler that leaves `running` set leads to a next `select` -/
theorem settle_sel (r : Cli × List CEvent × Stop) (h : r.1.running = true) : ∃ s, (settle r).2.2 = .sel s := by
  unfold settle
  split
  · unfold loopTop
    rw [if_pos h]
    exact ⟨_, rfl⟩
  · exact ⟨_, rfl⟩

/-- The 60 s rule is the ONLY way out of `client_tunnel`'s loop: one turn ends with `finished 0` iff the last
downstream data is more than 60 s old when `select` returns; otherwise the thread is in a `select` again. -/
theorem tunnelStep_finished_iff (c : Cli) (inp : CInput) (hrun : c.running = true) :
    let c' := (fire c (selectOf c) inp).1
    ((tunnelStep c inp).2.2 = .finished 0 ↔ c'.lastdownstreamtime + 60 < c'.now) ∧
    (¬ c'.lastdownstreamtime + 60 < c'.now → ∃ s, (tunnelStep c inp).2.2 = .sel s) ∧
    (c'.lastdownstreamtime + 60 < c'.now →
      tunnelStep c inp = (⟨{ c' with running := false }, .idle⟩, [], .finished 0)) := by
  intro c'
  have hr : c'.running = true := (fire_running c (selectOf c) inp).trans hrun
  have hexpd : c'.lastdownstreamtime + 60 < c'.now →
      tunnelStep c inp = (⟨{ c' with running := false }, .idle⟩, [], .finished 0) := by
    intro hexp
    have hexp' : (fire c (selectOf c) inp).1.lastdownstreamtime + 60 < (fire c (selectOf c) inp).1.now := hexp
    unfold tunnelStep
    simp only [afterSelect_of_expired _ hexp', Bool.not_false, if_true]
    rfl
  have halive : ¬ c'.lastdownstreamtime + 60 < c'.now → ∃ s, (tunnelStep c inp).2.2 = .sel s := by
    intro hexp
    rw [tunnelStep_alive_raw c inp hrun hexp]
    have hk : (rawKeepalive c').1.running = true := by
      have := congrArg Cli.running (rawKeepalive_frame c')
      exact this.trans hr
    split
    · exact settle_sel _ ((timeoutBranch_running _).trans hr)
    · exact settle_sel _ ((tunnelTun_running _ _).trans hk)
    · exact settle_sel _ ((tunnelDnsInput_running _ _).trans hk)
  refine ⟨⟨?_, ?_⟩, halive, hexpd⟩
  · intro hfin
    apply Classical.byContradiction
    intro hexp
    obtain ⟨s, hs⟩ := halive hexp
    rw [hs] at hfin
    cases hfin
  · intro hexp
    rw [hexpd hexp]

/-! ## 7. `no_deadlock_after_giveup`, client half -/

/-- with nothing in flight tun is always selected -/
theorem selectOf_tun_idle (c : Cli) (hs : isSending c = false) : (selectOf c).tun = true :=
  (selectOf_tun c).2 (Or.inl hs)

/-- with nothing in flight a timeout sends a ping -/
theorem timeoutBranch_idle (c : Cli) (hs : isSending c = false) :
    timeoutBranch c = afterSend (sendPing c) [] .timeout := by
  unfold timeoutBranch
  simp only [hs, Bool.false_eq_true, if_false]

/-- what `tunnel_tun` leaves of a new packet, parked or not -/
theorem tunnelTun_accept_state (c : Cli) (f : List Nat) (hs : isSending c = false) (hf : f ≠ []) :
    (tunnelTun c f).1.outpkt.seqno = sChar ((c.outpkt.seqno + 1) % 8) ∧
    (tunnelTun c f).1.outpkt.data = (compress (f.take 65536)).take 65536 ∧
    (tunnelTun c f).1.outpkt.offset = 0 ∧ (tunnelTun c f).1.outpkt.fragment = 0 ∧
    (tunnelTun c f).1.outchunkresent = 0 ∧
    (c.conn = .dnsNull → (tunnelTun c f).1.outpkt.len = (f.take 65536).length + 1 ∧ isSending (tunnelTun c f).1 = true ∧
      (tunnelTun c f).2.1 = (sendChunk (newPacket c f)).evs) := by
  rw [tunnelTun_accept c f hs hf]
  by_cases hc : c.conn = .dnsNull
  · rw [if_pos hc]
    have hfr := afterSend_frame _ _ [] (.tunChunk ((f.take 65536).length : Nat)) (sendChunk_frame (newPacket c f))
    have hlen : (afterSend (sendChunk (newPacket c f)) [] (.tunChunk ((f.take 65536).length : Nat))).1.outpkt.len =
        (f.take 65536).length + 1 := by
      have := congrArg (fun z => z.outpkt.len) hfr
      exact this
    refine ⟨?_, ?_, ?_, ?_, ?_, fun _ => ⟨hlen, ?_, ?_⟩⟩
    · have := congrArg (fun z => z.outpkt.seqno) hfr; exact this
    · have := congrArg (fun z => z.outpkt.data) hfr; exact this
    · have := congrArg (fun z => z.outpkt.offset) hfr; exact this
    · have := congrArg (fun z => z.outpkt.fragment) hfr; exact this
    · have := congrArg Cli.outchunkresent hfr; exact this
    · unfold isSending
      rw [hlen]
      rfl
    · rw [afterSend_evs]
      rfl
  · rw [if_neg hc]
    exact ⟨rfl, rfl, rfl, rfl, rfl, fun h => absurd h hc⟩

/-- After the give-up the client is ready for the next packet: nothing in flight, tun selected, a timeout just pings,
and the next non-empty tun frame starts a new packet with the NEXT seqno. -/
theorem client_ready_after_giveup (c : Cli) (hs : isSending c = true) (h3 : c.outchunkresent = 3) :
    let c4 := (timeoutBranch c).1
    isSending c4 = false ∧ c4.outchunkresent = 0 ∧ (selectOf c4).tun = true ∧
    timeoutBranch c4 = afterSend (sendPing c4) [] .timeout ∧
    ∀ f : List Nat, f ≠ [] →
      (tunnelTun c4 f).1.outpkt.seqno = sChar ((c.outpkt.seqno + 1) % 8) ∧
      (tunnelTun c4 f).1.outpkt.data = (compress (f.take 65536)).take 65536 ∧
      (tunnelTun c4 f).1.outpkt.offset = 0 ∧ (tunnelTun c4 f).1.outpkt.fragment = 0 ∧
      (tunnelTun c4 f).1.outchunkresent = 0 ∧
      (c.conn = .dnsNull → (tunnelTun c4 f).1.outpkt.len = (f.take 65536).length + 1 ∧
        isSending (tunnelTun c4 f).1 = true ∧ (tunnelTun c4 f).2.1 = (sendChunk (newPacket c4 f)).evs) := by
  intro c4
  obtain ⟨-, e2, e3, -⟩ := timeoutBranch_giveup_spec c hs (by omega)
  have hfr : c4 = sndFrame (dropPkt c) c4 := by
    show (timeoutBranch c).1 = sndFrame (dropPkt c) (timeoutBranch c).1
    rw [timeoutBranch_giveup c hs h3]
    exact afterSend_frame _ _ _ _ (sendPing_frame' (dropPkt c))
  have hseq : c4.outpkt.seqno = c.outpkt.seqno := by have := congrArg (fun z => z.outpkt.seqno) hfr; exact this
  have hconn : c4.conn = c.conn := by have := congrArg Cli.conn hfr; exact this
  refine ⟨e3, e2, selectOf_tun_idle c4 e3, timeoutBranch_idle c4 e3, ?_⟩
  intro f hf
  have h := tunnelTun_accept_state c4 f e3 hf
  rw [hseq, hconn] at h
  exact h

/-- the same through the step machine: the next tun frame is accepted by `tunnelStep` -/
theorem client_step_after_giveup (c : Cli) (f : List Nat) (hs : isSending c = true) (h3 : c.outchunkresent = 3)
    (hf : f ≠ []) (hrun : c.running = true)
    (hexp : ¬ (timeoutBranch c).1.lastdownstreamtime + 60 < (timeoutBranch c).1.now) :
    let c4 := (timeoutBranch c).1
    tunnelStep c4 (.tun f) =
      after (rawKeepalive c4).2
        (settle (if c4.conn = .dnsNull then
                   afterSend (sendChunk (newPacket (rawKeepalive c4).1 f)) [] (.tunChunk ((f.take 65536).length : Nat))
                 else ((sendRawData (newPacket (rawKeepalive c4).1 f)).1, (sendRawData (newPacket (rawKeepalive c4).1 f)).2,
                       .ret ((f.take 65536).length : Nat)))) := by
  intro c4
  obtain ⟨-, -, e3, -⟩ := timeoutBranch_giveup_spec c hs (by omega)
  exact tunnelStep_tun_accept_raw c4 f ((timeoutBranch_running c).trans hrun) hexp e3 hf

/-! ## corollaries in terms of `SameChunk`, non-vacuity -/

theorem sendChunk_sameChunk (c : Cli) : SameChunk c (sendChunk c).c :=
  sameChunk_of_sndFrame c c _ (scFrame_sndFrame _ _ (sendChunk_frame c)) (SameChunk.refl c)

theorem sendPing_sameChunk (c : Cli) : SameChunk c (sendPing c).c :=
  sameChunk_of_sndFrame c c _ (scFrame_sndFrame _ _ (sendPing_frame' c)) (SameChunk.refl c)

/-- a client with an 8-byte packet that needs two chunks (`hostname_maxlen = 20`: 5 bytes per query) -/
def exL : Cli :=
  { exC with hostnameMaxlen := 20, lastdownstreamtime := 1000, outpkt := ⟨8, 0, 0, [0x5a, 1, 2, 3, 4, 5, 6, 7], 1, 0⟩ }

/-- item 3: hypotheses of `tunnelStep_tun_while_sending` / `tunnelStep_tun_not_selected` / `tunnelStep_tun_accept`
are satisfiable, and the three behaviours differ -/
example :
    let c := { exL with outchunkresent := 2 }
    c.running = true ∧ ¬ c.lastdownstreamtime + 60 < c.now ∧ isSending c = true ∧ c.outchunkresent ≥ 2 ∧
    (tunnelStep c (.tun [1, 2, 3])).2.1 = [] := by decide +kernel

example :
    exL.running = true ∧ ¬ exL.lastdownstreamtime + 60 < exL.now ∧ (selectOf exL).tun = false ∧
    (tunnelStep exL (.tun [1, 2, 3])).2.1 =
      [.query 7727 10 [48, 101, 97, 97, 97, 108, 105, 97, 113, 101, 97, 121, 101, 46, 97, 46, 98, 99]] := by
  decide +kernel

example :
    let c := { exL with outpkt := Packet.zero }
    c.running = true ∧ ¬ c.lastdownstreamtime + 60 < c.now ∧ isSending c = false ∧
    (tunnelStep c (.tun [0, 0, 8, 0, 69])).1.c.outpkt = ⟨6, 5, 0, [90, 0, 0, 8, 0, 69], 1, 0⟩ ∧
    (tunnelStep c (.tun [0, 0, 8, 0, 69])).2.1 =
      [.query 7727 10 [48, 101, 97, 97, 97, 108, 105, 97, 97, 97, 99, 97, 97, 46, 97, 46, 98, 99]] := by
  decide +kernel

/-- item 4: first ack → second chunk (offset 5, fragment 1), second ack → packet completed and (with
`send_something_now`) the final ping -/
example :
    let c := (sendChunk exL).c
    let r1 := upstream c ⟨0, 0, 1, 0, false⟩ [] false 2
    let r2 := upstream r1.1 ⟨0, 0, 1, 1, false⟩ [] true 2
    isSending c = true ∧ c.outpkt.offset + c.outpkt.sentlen < c.outpkt.len ∧
    r1.1.outpkt = ⟨8, 3, 5, [0x5a, 1, 2, 3, 4, 5, 6, 7], 1, 1⟩ ∧
    r1.2.1 = [.query 15454 10 [48, 101, 105, 98, 98, 97, 117, 100, 97, 111, 46, 97, 46, 98, 99]] ∧
    ¬ r1.1.outpkt.offset + r1.1.outpkt.sentlen < r1.1.outpkt.len ∧
    r2.1.outpkt = ⟨0, 0, 0, [0x5a, 1, 2, 3, 4, 5, 6, 7], 1, 1⟩ ∧
    r2.2.1 = [.query 23181 10 [112, 97, 97, 97, 97, 97, 97, 97, 46, 97, 46, 98, 99]] := by decide +kernel

/-- item 6: `exC` has `lastdownstreamtime = 0`, `now = 1000`: the next turn ends `client_tunnel`; `exL` goes on -/
example : (tunnelStep exC .tick).2.2 = .finished 0 ∧
    (tunnelStep exL .tick).2.2 = .sel ⟨1000000, false, true⟩ := by decide +kernel

/-- item 7: hypotheses of `client_ready_after_giveup` -/
example : isSending { exL with outchunkresent := 3 } = true ∧ ({ exL with outchunkresent := 3 } : Cli).outchunkresent = 3 := by
  decide

end Iodine.C02L
