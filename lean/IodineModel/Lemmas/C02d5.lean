import IodineModel.Lemmas.C02d2
/-
Client side of a downstream transfer: reassembly of an expected fragment.
-/
namespace Iodine.C02L
open Iodine Iodine.Client

/-- the client has the first `o` bytes of the downstream packet `out` (seqno `sq`) and expects fragment `f` -/
def CExpect (c : Cli) (out : List Nat) (sq : Int) (o f : Nat) : Prop :=
  (f = 0 ∧ o = 0 ∧ ∃ j : Nat, 1 ≤ j ∧ j ≤ 4 ∧ sq = (c.inpkt.seqno + j) % 8) ∨
  (f ≠ 0 ∧ c.inpkt.seqno = sq ∧ c.inpkt.fragment = (f : Int) - 1 ∧ c.inpkt.len = o ∧ c.inpkt.data.take o = out.take o)

/-- `inpkt` after fragment `f` with the bytes `(out.drop o).take m` was appended -/
def inAfter (c : Cli) (out : List Nat) (sq : Int) (o m f : Nat) : Packet :=
  { c.inpkt with seqno := sq, fragment := (f : Int), data := out.take (o + m), len := o + m }

theorem sChar_small' (x : Int) (h : -128 ≤ x ∧ x < 128) : sChar x = x := by
  unfold sChar; omega

/-- an expected fragment is accepted and appended -/
theorem append_expected (c : Cli) (h : Hdr) (buf out : List Nat) (sq : Int) (o m f : Nat)
    (hE : CExpect c out sq o f) (hs : 0 ≤ c.inpkt.seqno ∧ c.inpkt.seqno < 8) (hsq : 0 ≤ sq ∧ sq < 8) (hf : f < 16)
    (hh : h.dnSeq = sq ∧ h.dnFrag = (f : Int))
    (hbl : buf.length = 2 + m) (hbd : buf.drop 2 = (out.drop o).take m) (hm : 1 ≤ m) (hom : o + m ≤ out.length)
    (h64 : out.length ≤ 65536) :
    ∃ c2, acceptFragment c h = some c2 ∧
      appendFragment c2 h buf ((2 + m : Nat) : Int) = { c with inpkt := inAfter c out sq o m f } := by
  have hchunk : ((buf.take ((2 + m : Nat) : Int).toNat).drop 2) = (out.drop o).take m := by
    rw [Int.toNat_natCast, List.take_of_length_le (by omega), hbd]
  have hcl : ((out.drop o).take m).length = m := by rw [List.length_take, List.length_drop]; omega
  rcases hE with ⟨h1, h2, j, hj1, hj4, h3⟩ | ⟨h1, h2, h3, h4, h5⟩
  · subst h1; subst h2
    have hne : h.dnSeq ≠ c.inpkt.seqno := by rw [hh.1, h3]; omega
    refine ⟨{ c with inpkt := { c.inpkt with seqno := sChar h.dnSeq, fragment := sChar h.dnFrag, len := 0 } }, ?_, ?_⟩
    · unfold acceptFragment
      rw [if_pos hne]
    · unfold appendFragment inAfter
      simp only [hchunk, Gen.PACKET_DATA_SIZE, Nat.sub_zero, List.take_zero, List.nil_append, Nat.zero_add]
      rw [List.take_of_length_le (by rw [hcl]; omega), hcl, hh.1, hh.2, sChar_small' sq (by omega), sChar_small' _ (by omega)]
      simp
  · refine ⟨c, ?_, ?_⟩
    · unfold acceptFragment
      rw [if_neg (by rw [hh.1, h2]; simp), if_neg (by rw [hh.2]; intro hc; omega), if_neg (by rw [hh.2, h3]; omega),
        if_neg (by rw [hh.2, h3]; omega)]
    · unfold appendFragment inAfter
      simp only [hchunk, Gen.PACKET_DATA_SIZE, h4]
      rw [List.take_of_length_le (by rw [hcl]; omega), hcl, hh.2, sChar_small' _ (by omega), h5, List.take_add]
      simp [h2]

/-- the downstream code on an expected fragment that is NOT the last one: appended, a ping is due at once -/
theorem downstream_mid (c : Cli) (h : Hdr) (buf out : List Nat) (sq : Int) (o m f : Nat)
    (hE : CExpect c out sq o f) (hs : 0 ≤ c.inpkt.seqno ∧ c.inpkt.seqno < 8) (hsq : 0 ≤ sq ∧ sq < 8) (hf : f < 16)
    (hh : h.dnSeq = sq ∧ h.dnFrag = (f : Int)) (hl : h.last = false)
    (hbl : buf.length = 2 + m) (hbd : buf.drop 2 = (out.drop o).take m) (hm : 1 ≤ m) (hom : o + m ≤ out.length)
    (h64 : out.length ≤ 65536) :
    downstream c h buf ((2 + m : Nat) : Int) false = ({ c with inpkt := inAfter c out sq o m f }, [], true) := by
  obtain ⟨c2, ha, hap⟩ := append_expected c h buf out sq o m f hE hs hsq hf hh hbl hbd hm hom h64
  unfold downstream
  rw [if_pos (by omega), ha]
  simp only [hap, hl, Bool.false_eq_true, if_false]
  rw [if_neg (by show ¬ (o + m = 0); omega)]

/-- … and the LAST one: the packet is uncompressed and written to tun, the buffer is empty again, a ping is due in 5 ms -/
theorem downstream_last (c : Cli) (h : Hdr) (buf : List Nat) (frame : List Nat) (sq : Int) (o m f : Nat)
    (hE : CExpect c (0x5a :: frame) sq o f) (hs : 0 ≤ c.inpkt.seqno ∧ c.inpkt.seqno < 8) (hsq : 0 ≤ sq ∧ sq < 8) (hf : f < 16)
    (hh : h.dnSeq = sq ∧ h.dnFrag = (f : Int)) (hl : h.last = true)
    (hbl : buf.length = 2 + m) (hbd : buf.drop 2 = ((0x5a :: frame).drop o).take m) (hm : 1 ≤ m)
    (hom : o + m = (0x5a :: frame).length) (h64 : (0x5a :: frame).length ≤ 65536) :
    downstream c h buf ((2 + m : Nat) : Int) false =
      ({ c with inpkt := { inAfter c (0x5a :: frame) sq o m f with len := 0 }, sendPingSoon := 5 }, [writeTun frame], false) := by
  obtain ⟨c2, ha, hap⟩ := append_expected c h buf (0x5a :: frame) sq o m f hE hs hsq hf hh hbl hbd hm (by omega) h64
  have hun : uncompress ((inAfter c (0x5a :: frame) sq o m f).data.take (inAfter c (0x5a :: frame) sq o m f).len) 65536 = some frame := by
    unfold inAfter
    simp only
    rw [hom, List.take_take, Nat.min_self, List.take_length]
    unfold uncompress
    simp only [List.length_cons] at h64
    simp
    omega
  unfold downstream
  rw [if_pos (by omega), ha]
  simp only [hap, hl, if_true]
  unfold deliver
  simp only [hun]
  rfl

end Iodine.C02L
