import IodineModel.Lemmas.C02qA3
/- C02 phase 2, "aged" (4): second stage of the run of `C02qA3` (kernel evaluation). -/
namespace Iodine.C02L
open Iodine Iodine.World

set_option maxRecDepth 100000 in
theorem qa_stageB : run qaWA qaSegB = qaWB := by decide +kernel

end Iodine.C02L
