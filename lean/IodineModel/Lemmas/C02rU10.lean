import IodineModel.Lemmas.C02rU9
/-
C02 phase 3 / d7up, LAZY mode — `d = 7`, the server's last fragment number 0, a packet of `g ≥ 2` fragments, as a whole:
`up_packet_lazy_desync7_multi` (the lazy-mode twin of `up_packet_imm_desync7_multi`, `C02rU4`).
-/
namespace Iodine.C02L
open Iodine Iodine.Gen Iodine.World

theorem up_flight_run_lazyT {P : Par} (hP : P.Ok) {out T : List Nat} (h64 : T.length ≤ 65536) :
    ∀ (fuel : Nat) (w : W) (c0 : Client.Cli) (o oS f : Nat), UpFlightLT P out T w c0 o oS f →
      (out.drop o).length ≤ fuel → f + upFrags P fuel (out.drop o) ≤ 16 →
      (∀ fr, Server.uncompress T 65536 = some fr → 24 ≤ fr.length → Server.ipDst fr ≠ (Server.getUser w.srv P.u).tunIp) →
      ∃ w', promptSteps P.u (2 * upFrags P fuel (out.drop o) + 1) w = some w' ∧
        QuietLazy P w' ∧
        w'.tunS = w.tunS ++ junkUp T ∧ w'.tunC = w.tunC ∧ w'.cs.c.outpkt.seqno = c0.outpkt.seqno ∧
        (Server.getUser w'.srv P.u).tunIp = (Server.getUser w.srv P.u).tunIp ∧
        (Server.getUser w'.srv P.u).fragsize = (Server.getUser w.srv P.u).fragsize := by
  intro fuel
  induction fuel with
  | zero =>
    intro w c0 o oS f h hl
    have := h.ready.ho
    simp only [List.length_drop] at hl
    omega
  | succ fuel ih =>
    intro w c0 o oS f h hl hf hns
    have hne : out.drop o ≠ [] := by
      intro hc
      have := congrArg List.length hc
      simp only [List.length_drop, List.length_nil] at this
      have := h.ready.ho
      omega
    obtain ⟨_, _, hm1, hm2, _⟩ := send_readyL hP h.ready
    have hu : upFrags P (fuel + 1) (out.drop o) =
        1 + upFrags P fuel ((out.drop o).drop (fragLen P (out.drop o))) := by
      simp [upFrags, hne]
    rw [List.drop_drop] at hu
    rw [hu] at hf ⊢
    by_cases hlast : o + fragLen P (out.drop o) = out.length
    · have hnil : out.drop (o + fragLen P (out.drop o)) = [] := by
        rw [hlast]; exact List.drop_length
      rw [hnil, upFrags_nil]
      exact last_step_lazyT hP h h64 hlast hns
    · have hlt : o + fragLen P (out.drop o) < out.length := by omega
      have hg1 : 1 ≤ upFrags P fuel (out.drop (o + fragLen P (out.drop o))) := by
        cases fuel with
        | zero => simp only [List.length_drop] at hl; omega
        | succ k =>
          have : out.drop (o + fragLen P (out.drop o)) ≠ [] := by
            intro hc
            have := congrArg List.length hc
            simp only [List.length_drop, List.length_nil] at this
            omega
          simp [upFrags, this]
      obtain ⟨w1, c1, hs, hfl, ht1, ht2, hsq, htip, hfrm⟩ := mid_step_lazyT hP h h64 hlt (by omega)
      obtain ⟨w', h1, h2, h3, h4, h5, h6, h9⟩ := ih w1 c1 _ _ _ hfl
        (by simp only [List.length_drop] at hl ⊢; omega) (by omega) (by rw [htip]; exact hns)
      refine ⟨w', ?_, h2, ?_, ?_, ?_, ?_, by rw [h9, hfrm]⟩
      · have := promptSteps_add P.u 2 (2 * upFrags P fuel (out.drop (o + fragLen P (out.drop o))) + 1) w w1 hs
        rw [h1] at this
        rw [← this]
        congr 1
        omega
      · rw [h3, ht1]
      · rw [h4, ht2]
      · rw [h5, hsq]
      · rw [h6, htip]

/-- **`d = 7`, the server's last fragment number 0, a packet of `g ≥ 2` fragments, LAZY mode**: after the clean-path `2·g + 1`
prompt steps the joint state is `QuietLazy` (in step); the client wrote nothing; the server wrote `junkUp (chimeraUp …)`. -/
theorem up_packet_lazy_desync7_multi {P : Par} (hP : P.Ok) {w : W} (hq : QuietLazyD P 7 0 w)
    (h0 : (Server.getUser w.srv P.u).inpacket.fragment = 0) (hbuf : BufOk (Server.getUser w.srv P.u).inpacket)
    (frame : List Nat) (hne : frame ≠ []) (hl : frame.length < 65536) (hb : Codec.Bytes frame)
    (hmulti : fragLen P (0x5a :: frame) < (0x5a :: frame).length)
    (hg16 : upFrags P (frame.length + 1) (0x5a :: frame) ≤ 16)
    (hok : ChimeraOk P (Server.getUser w.srv P.u).inpacket (Server.getUser w.srv P.u).tunIp frame) :
    ∃ w', promptSteps P.u (2 * upFrags P (frame.length + 1) (0x5a :: frame) + 1) (step w (.offerC frame)) = some w' ∧
      QuietLazy P w' ∧
      w'.tunS = w.tunS ++ junkUp (chimeraUp P (Server.getUser w.srv P.u).inpacket frame) ∧ w'.tunC = w.tunC ∧
      (Server.getUser w'.srv P.u).tunIp = (Server.getUser w.srv P.u).tunIp ∧
      (Server.getUser w'.srv P.u).fragsize = (Server.getUser w.srv P.u).fragsize := by
  obtain ⟨w2, c1, hs2, hfl, hu1, hu2, hu4, hu6⟩ := up_lazy_false_ack_more hP hq h0 hbuf frame hne hl hb hmulti
  have hTlen : (chimeraUp P (Server.getUser w.srv P.u).inpacket frame).length ≤ 65536 := by
    have := hok.cap
    unfold chimeraUp
    rw [List.length_append, List.length_take, List.length_drop]
    have := hbuf.data
    omega
  have hu : upFrags P (frame.length + 1) (0x5a :: frame) =
      1 + upFrags P frame.length ((0x5a :: frame).drop (fragLen P (0x5a :: frame))) := by
    simp [upFrags]
  have hm1 : 1 ≤ fragLen P (0x5a :: frame) := by
    obtain ⟨_, _, hm1, _, _⟩ := send_readyL hP (newPacket_readyL hq.cst hq.cnt frame hl hb)
    simpa using hm1
  have hg1 : 1 ≤ upFrags P frame.length ((0x5a :: frame).drop (fragLen P (0x5a :: frame))) := by
    cases hfl' : frame.length with
    | zero => simp [hfl'] at hmulti; omega
    | succ k =>
      have : (0x5a :: frame).drop (fragLen P (0x5a :: frame)) ≠ [] := by
        intro hc
        have := congrArg List.length hc
        simp only [List.length_drop, List.length_nil, List.length_cons] at this
        simp only [List.length_cons] at hmulti
        omega
      simp [upFrags, this]
  obtain ⟨w', h1, h2, h3, h4, _, h6, h9⟩ := up_flight_run_lazyT hP hTlen frame.length w2 c1 _ _ 1 hfl
    (by simp only [List.length_drop, List.length_cons]; omega)
    (by rw [hu] at hg16; omega) (by rw [hu4]; exact hok.ns)
  refine ⟨w', ?_, h2, by rw [h3, hu1], by rw [h4, hu2], by rw [h6, hu4], by rw [h9, hu6]⟩
  have := promptSteps_add P.u 2 (2 * upFrags P frame.length ((0x5a :: frame).drop (fragLen P (0x5a :: frame))) + 1) _ w2 hs2
  rw [h1] at this
  rw [← this, hu]
  congr 1
  omega

end Iodine.C02L
