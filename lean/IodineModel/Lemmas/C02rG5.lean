import IodineModel.Lemmas.C02rG4
import IodineModel.Lemmas.C02qD8
/-
C02, phase 3, sub-package "gdown" — part 5: COMPOSITION "downstream blackout, then clean path", immediate mode.

From a synchronised quiescent state `k` frames are offered to the server while every downstream datagram is lost
(`giveupRunDown`); the run ends with freshness slack 1 (`giveup_runs_down_imm`: the pings arrive and are remembered), so the
phase-2 theorems about a desynchronised start apply as they stand.  Then the path is clean again (prompt schedule):
* the client's next poll (`tickC deliverUp deliverDown`, the events the prompt scheduler picks) RESYNCHRONISES when `k ≤ 4` (the
  client adopts the number of the dataless answer), and changes nothing when `5 ≤ k ≤ 7` (the number is in the window);
* of the frames offered afterwards (`offerAllS`) the first `8 − k` are LOST when `5 ≤ k ≤ 7` (none when `k ≤ 4`), all others
  arrive exactly once and in order; final state `QuietImm`.
-/
namespace Iodine.C02L
open Iodine Iodine.Gen Iodine.Server Iodine.World

/-- the number of frames lost on the clean path after `k` downstream give-ups and one idle poll -/
def rGlostAfter (k : Nat) : Nat := if k ≤ 4 then 0 else 8 - k

/-- the state after the blackout: desynchronised by `k` downstream, slack 1, with timer room for the next poll -/
theorem blackout_leaves_desync {P : Par} (hP : P.Ok) (F : Nat) (hF : 0 < F) (bl : List (List Nat)) {w : W} (hq : QuietImm P w)
    (hFw : (getUser w.srv P.u).fragsize = F)
    (hbl : ∀ f ∈ bl, 24 ≤ f.length ∧ f.length < 65536 ∧ ipDst f = (getUser w.srv P.u).tunIp)
    (hsps : w.cs.c.sendPingSoon = 0) (hsel : w.cs.c.selecttimeout ≤ 9) (hk : 1 ≤ bl.length ∧ bl.length ≤ 7)
    (hc : ¬ w.cs.c.lastdownstreamtime + 60 < w.cs.c.now + (rGpollsAll F bl + 1) * w.cs.c.selecttimeout.toNat)
    (hs : w.srv.now + w.cs.c.selecttimeout.toNat < (getUser w.srv P.u).lastPkt + 60) :
    DownGaveUpN P w.cs.c.selecttimeout.toNat w (giveupRunDown F bl w) (rGpollsAll F bl) bl.length ∧
    QuietImmD P 0 bl.length (giveupRunDown F bl w) ∧ Roomy P (giveupRunDown F bl w) := by
  obtain ⟨g, hq1⟩ := giveup_runs_down_imm hP F hF bl (quietImmDS_of_quietImm hq) hFw hbl hsps hsel (Nat.le_refl 1) (by omega)
    (Or.inr (Or.inl (by omega))) (by intro hx; apply hc; rw [Nat.add_mul]; omega) hs
  have hk8 : (0 + bl.length) % 8 = bl.length := by omega
  rw [hk8] at hq1
  have hq1D := quietImmDS_one.1 hq1
  refine ⟨g, hq1D, ?_⟩
  generalize giveupRunDown F bl w = w1 at g hq1 hq1D
  have hsecs := poll_secsG w1.cs.c hq1D.idleC g.sps
  have hto : (Client.selectOf w1.cs.c).to < 10000000 := by
    rw [selectOf_idle0G _ hq1D.idleC g.sps, g.fr.selto]; omega
  refine ⟨hto, ?_, ?_⟩
  · rw [hsecs, g.fr.selto, g.fr.ldt, g.fr.cnow]
    intro hx; apply hc; rw [Nat.add_mul]; omega
  · rw [hsecs, g.fr.selto]
    rw [g.lp (by omega)]; omega

/-- **blackout_then_clean_downstream_imm.**  From `QuietImm`: `k = bl.length ∈ 1..7` frames under the downstream blackout
(`N = rGpollsAll F bl` polls), then ONE idle poll on the clean path (`tickC deliverUp deliverDown`: these are the prompt
scheduler's own choices, `C02qD7.idle_poll`), then the frames `lost ++ rest` offered to the server one after the other on the
prompt schedule, where `lost.length = rGlostAfter k` (`0` for `k ≤ 4`: the idle poll resynchronised; `8 − k` for `5 ≤ k ≤ 7`):
exactly the frames of `rest` arrive at the client's tun device, once each and in order; nothing reaches the server's tun
device; the final state is `QuietImm`.  Hypotheses: for `k ≥ 5` the client's last fragment number is not 0 (`hfr`, the hypothesis
of `recovery_after_giveups_down_imm_partial`; with `inpkt.fragment = 0` one packet fewer is lost, `C02qD9.desync7_both_outcomes`);
time: `N + 1` polls fit into the client's 60 s (`hc`). -/
theorem blackout_then_clean_downstream_imm {P : Par} (hP : P.Ok) (fuel : Nat) (hfuel : 36 ≤ fuel) (F : Nat) (hF : 0 < F)
    (bl lost rest : List (List Nat)) (w : W) (hq : QuietImm P w) (hFw : (getUser w.srv P.u).fragsize = F)
    (hbl : ∀ f ∈ bl, 24 ≤ f.length ∧ f.length < 65536 ∧ ipDst f = (getUser w.srv P.u).tunIp)
    (hok : ∀ f ∈ lost ++ rest, DownFrameOk (getUser w.srv P.u).tunIp F f)
    (hsps : w.cs.c.sendPingSoon = 0) (hsel : w.cs.c.selecttimeout ≤ 9) (hk : 1 ≤ bl.length ∧ bl.length ≤ 7)
    (hlost : lost.length = rGlostAfter bl.length) (hfr : 5 ≤ bl.length → w.cs.c.inpkt.fragment ≠ 0)
    (hc : ¬ w.cs.c.lastdownstreamtime + 60 < w.cs.c.now + (rGpollsAll F bl + 1) * w.cs.c.selecttimeout.toNat)
    (hs : w.srv.now + w.cs.c.selecttimeout.toNat < (getUser w.srv P.u).lastPkt + 60) :
    QuietImm P (offerAllS P.u fuel (run (giveupRunDown F bl w) [.tickC, .deliverUp, .deliverDown]) (lost ++ rest)) ∧
    (offerAllS P.u fuel (run (giveupRunDown F bl w) [.tickC, .deliverUp, .deliverDown]) (lost ++ rest)).tunC =
      w.tunC ++ rest.map tunImage ∧
    (offerAllS P.u fuel (run (giveupRunDown F bl w) [.tickC, .deliverUp, .deliverDown]) (lost ++ rest)).tunS = w.tunS := by
  obtain ⟨g, hq1, hr1⟩ := blackout_leaves_desync hP F hF bl hq hFw hbl hsps hsel hk hc hs
  generalize giveupRunDown F bl w = w1 at g hq1 hr1 ⊢
  obtain ⟨w2, hrun, _, _, _, a1, a2, a3, a4, a5, a6, a7, _, hadopt, hstale⟩ := idle_poll hP hq1 (by omega) hr1.to hr1.cli hr1.srv
  rw [hrun]
  have hsel2 : w2.cs.c.selecttimeout ≤ 9 := by rw [a7, g.fr.selto]; exact hsel
  have hF2 : (getUser w2.srv P.u).fragsize = F := by rw [a3, g.fr.fragsize, hFw]
  have hT2 : (getUser w2.srv P.u).tunIp = (getUser w.srv P.u).tunIp := by rw [a4, g.fr.tunIp]
  have hok2 : ∀ f ∈ lost ++ rest, DownFrameOk (getUser w2.srv P.u).tunIp (getUser w2.srv P.u).fragsize f := by
    intro f hf; rw [hT2, hF2]; exact hok f hf
  by_cases h4 : bl.length ≤ 4
  · -- resynchronised by the idle poll
    obtain ⟨hq2, hsps2, _, _⟩ := hadopt ⟨hk.1, h4⟩
    have hl0 : lost = [] := List.eq_nil_of_length_eq_zero (by rw [hlost]; unfold rGlostAfter; rw [if_pos h4])
    subst hl0
    obtain ⟨t1, t2, t3⟩ := timing_sps hq2.cst hq2.srv hsps2
    have := down_sequence_imm hP fuel hfuel rest w2 hq2 ⟨t1, t2, t3⟩ hsel2 (by rw [hF2]; exact hF) hok2
    rw [List.nil_append]
    exact ⟨this.1, by rw [this.2.1, a1, g.fr.tunC], by rw [this.2.2, a2, g.fr.tunS]⟩
  · -- the poll changes nothing; the next `8 − k` packets are lost
    obtain ⟨hq2, hsps2, hinp2⟩ := hstale (Or.inr (by omega))
    have hr2 : Roomy P w2 := roomy_afterD hq2 a5 a6 hsel2 (by omega)
    have := recovery_after_giveups_down_imm_partial hP fuel hfuel lost rest w2 bl.length ⟨by omega, hk.2⟩
      (by rw [hlost]; unfold rGlostAfter; rw [if_neg h4]) hq2 (by rw [hinp2, g.fr.inpkt]; exact hfr (by omega)) hr2 hsel2
      (by rw [hF2]; exact hF) hok2
    exact ⟨this.1, by rw [this.2.1, a1, g.fr.tunC], by rw [this.2.2, a2, g.fr.tunS]⟩

/-- … WITHOUT the idle poll (a frame reaches the server before the client's next poll): `k ≤ 3` give-ups are harmless — the
first packet on the clean path carries a number the client takes for new (`down_packet_imm_desync_ok`), everything arrives;
`4 ≤ k ≤ 7`: the next `8 − k` packets are lost (`recovery_after_giveups_down_imm_partial`). -/
theorem blackout_then_clean_downstream_imm_nopoll {P : Par} (hP : P.Ok) (fuel : Nat) (hfuel : 36 ≤ fuel) (F : Nat) (hF : 0 < F)
    (bl lost rest : List (List Nat)) (w : W) (hq : QuietImm P w) (hFw : (getUser w.srv P.u).fragsize = F)
    (hbl : ∀ f ∈ bl, 24 ≤ f.length ∧ f.length < 65536 ∧ ipDst f = (getUser w.srv P.u).tunIp)
    (hok : ∀ f ∈ lost ++ rest, DownFrameOk (getUser w.srv P.u).tunIp F f)
    (hsps : w.cs.c.sendPingSoon = 0) (hsel : w.cs.c.selecttimeout ≤ 9) (hk : 1 ≤ bl.length ∧ bl.length ≤ 7)
    (hlost : lost.length = if bl.length ≤ 3 then 0 else 8 - bl.length) (hne : lost ++ rest ≠ [])
    (hfr : 4 ≤ bl.length → w.cs.c.inpkt.fragment ≠ 0)
    (hc : ¬ w.cs.c.lastdownstreamtime + 60 < w.cs.c.now + (rGpollsAll F bl + 1) * w.cs.c.selecttimeout.toNat)
    (hs : w.srv.now + w.cs.c.selecttimeout.toNat < (getUser w.srv P.u).lastPkt + 60) :
    QuietImm P (offerAllS P.u fuel (giveupRunDown F bl w) (lost ++ rest)) ∧
    (offerAllS P.u fuel (giveupRunDown F bl w) (lost ++ rest)).tunC = w.tunC ++ rest.map tunImage ∧
    (offerAllS P.u fuel (giveupRunDown F bl w) (lost ++ rest)).tunS = w.tunS := by
  obtain ⟨g, hq1, hr1⟩ := blackout_leaves_desync hP F hF bl hq hFw hbl hsps hsel hk hc hs
  generalize giveupRunDown F bl w = w1 at g hq1 hr1 ⊢
  have hsel1 : w1.cs.c.selecttimeout ≤ 9 := by rw [g.fr.selto]; exact hsel
  have hF1 : (getUser w1.srv P.u).fragsize = F := by rw [g.fr.fragsize, hFw]
  have hok1 : ∀ f ∈ lost ++ rest, DownFrameOk (getUser w1.srv P.u).tunIp (getUser w1.srv P.u).fragsize f := by
    intro f hf; rw [g.fr.tunIp, hF1]; exact hok f hf
  by_cases h3 : bl.length ≤ 3
  · have hl0 : lost = [] := List.eq_nil_of_length_eq_zero (by rw [hlost, if_pos h3])
    subst hl0
    rw [List.nil_append] at hne hok1 ⊢
    cases rest with
    | nil => exact absurd rfl hne
    | cons f fs =>
      have hf := hok1 f List.mem_cons_self
      obtain ⟨w', b1, b2, b3, b4, b5, b6, b7, b8, b9, b10⟩ :=
        down_packet_imm_desync_ok hP hq1 h3 f (by rw [hF1]; exact hF) hf hr1.to hr1.cli hr1.srv
      have hrun : runPrompt P.u fuel (step w1 (.offerS f)) = w' :=
        runPrompt_of_steps P.u _ _ _ b1 b2.quiet fuel (by
          have := hf.frags
          unfold downSteps; split <;> omega)
      have ho : offerAllS P.u fuel w1 (f :: fs) = offerAllS P.u fuel w' fs := by
        show offerAllS P.u fuel (runPrompt P.u fuel (step w1 (.offerS f))) fs = _
        rw [hrun]
      rw [ho]
      have := down_sequence_imm hP fuel hfuel fs w' b2 (roomy_after b2 b7 b8 (by rw [b9]; exact hsel1) b10)
        (by rw [b9]; exact hsel1) (by rw [b5, hF1]; exact hF)
        (fun f' hf' => by rw [b5, b6]; exact hok1 f' (List.mem_cons_of_mem _ hf'))
      refine ⟨this.1, ?_, by rw [this.2.2, b4, g.fr.tunS]⟩
      rw [this.2.1, b3, g.fr.tunC]
      simp
  · have := recovery_after_giveups_down_imm_partial hP fuel hfuel lost rest w1 bl.length ⟨by omega, hk.2⟩
      (by rw [hlost, if_neg h3]) hq1 (by rw [g.fr.inpkt]; exact hfr (by omega)) hr1 hsel1 (by rw [hF1]; exact hF) hok1
    exact ⟨this.1, by rw [this.2.1, g.fr.tunC], by rw [this.2.2, g.fr.tunS]⟩

end Iodine.C02L
