import IodineModel.Client.Handshake
/-
Lemmas about the handshake step machine (`Client/Handshake.lean`), part 1: a measure that every step which is not
"reply ignored" strictly decreases — the handshake cannot wedge.

`hsRank` orders the places the thread can be parked in lexicographically: the phases of `client_handshake` in the
order of the C text (later phase = smaller), inside a phase the position of the enclosing search (probe string,
codec letter, halvings of `range` left, timeout round and type number) and the retries left.  Each continuation
function of the model gets a bound `rank … ≤ B`, proved bottom-up in the order of the model file.
-/
namespace Iodine.Client
open Iodine Iodine.Gen

theorem sendQueryPlain_sendcnt (c : Cli) (h : List Nat) : (sendQueryPlain c h).1.1.sendcnt = c.sendcnt := by
  unfold sendQueryPlain
  simp only
  split <;> simp [rotateChunkid]

/-- The claim in the header of `Client/Handshake.lean`: while `send_query_sendcnt` is negative (it is -1 until
`client_tunnel` starts) the "too few answers" block of `send_query` is dead: `send_query` is its plain head and never
enters `handshake_lazyoff`. -/
theorem sendQuery_of_sendcnt_neg (c : Cli) (h : List Nat) (hs : c.sendcnt < 0) :
    sendQuery c h = ⟨(sendQueryPlain c h).1.1, (sendQueryPlain c h).1.2, false⟩ := by
  have hs' := sendQueryPlain_sendcnt c h
  unfold sendQuery
  simp only
  split
  · have : ¬ (0 ≤ (sendQueryPlain c h).1.1.sendcnt) := by rw [hs']; omega
    simp [sendQueryCount, this]
  · rfl

/-- number of halvings until `n` is 0 -/
def halvings (n : Nat) : Nat := if n = 0 then 0 else halvings (n / 2) + 1
decreasing_by omega

theorem halvings_pos {n : Nat} (h : n ≠ 0) : halvings n = halvings (n / 2) + 1 := by
  rw [halvings]; simp [h]

theorem halvings_768 : halvings 768 = 10 := by
  simp [halvings]

/-- probe strings still ahead of pattern `p` -/
def upW (p : Nat) : Nat := 6 - p

/-- codec tests still ahead of codec letter `codec` (S, U, V, then R) -/
def dnW (codec : Nat) : Nat := if codec = 83 then 3 else if codec = 85 then 2 else if codec = 86 then 1 else 0

def hsRank : HPos → Nat
  | .setFrag _ i => 5 - i
  | .frag _ range _ i => 6 + halvings range * 4 + (3 - i)
  | .lazy i => 50 + (5 - i)
  | .switchDown i => 56 + (5 - i)
  | .downenc codec _ i => 62 + dnW codec * 4 + (3 - i)
  | .switchCodec _ i => 78 + (5 - i)
  | .upenc p i => 84 + upW p * 4 + (3 - i)
  | .edns i => 112 + (3 - i)
  | .rawLogin _ i => 116 + (4 - i)
  | .rawIp _ i => 121 + (3 - i)
  | .login _ i => 125 + (5 - i)
  | .version i => 131 + (5 - i)
  | .qtype t q _ => 137 + (3 - t) * 8 + (7 - q)

/-- 0 = not running; otherwise 1 + the rank of the place -/
def posRank : Option HPos → Nat
  | none => 0
  | some p => hsRank p + 1

/-- measure of the state a piece of handshake code ends in -/
def orank (o : HOut) : Nat := posRank o.1.pos

@[simp] theorem orank_done (s : HState) (evs : List CEvent) (rv : Int) : orank (s.done evs rv) = 0 := rfl

@[simp] theorem orank_park (s : HState) (r : Res) (evs : List CEvent) (p : HPos) : orank (s.park r evs p) = hsRank p + 1 := rfl

/-! ### bounds, bottom-up -/

theorem orank_hsEnd (s : HState) (evs : List CEvent) : orank (hsEnd s evs) = 0 := rfl

theorem orank_setFragHead (s : HState) (evs : List CEvent) (f : Int) (i : Nat) : orank (setFragHead s evs f i) ≤ 6 - i := by
  unfold setFragHead
  split
  · rename_i h; simp [hsRank]; omega
  · simp [orank_hsEnd]

theorem orank_setFragGot (s : HState) (f : Int) (i : Nat) (read : Int) : orank (setFragGot s f i read) ≤ 5 - i := by
  unfold setFragGot
  split
  · simp [orank_hsEnd]
  · have := orank_setFragHead s [] f (i + 1); omega

theorem orank_setFragEnter (s : HState) (evs : List CEvent) (f : Int) : orank (setFragEnter s evs f) ≤ 6 :=
  orank_setFragHead _ _ _ 0

theorem orank_fragFinish (s : HState) (evs : List CEvent) (m : Int) : orank (fragFinish s evs m) ≤ 6 := by
  unfold fragFinish
  simp only
  repeat' split
  all_goals first
    | exact orank_setFragEnter _ _ _
    | (simp; done)

theorem orank_fragHead_ge (s : HState) (evs : List CEvent) (pr rg : Nat) (m : Int) (i : Nat) (hi : 3 ≤ i) :
    orank (fragHead s evs pr rg m i) ≤ 6 + halvings rg * 4 := by
  unfold fragHead
  have h1 : ¬ (s.c.running = true ∧ i < 3) := by omega
  simp only [h1, if_false]
  split
  · have := orank_fragFinish s evs m; omega
  · split
    · rename_i h
      have hr : rg ≠ 0 := by omega
      simp [hsRank, halvings_pos hr]
      omega
    · have := orank_fragFinish s evs m; omega

theorem orank_fragHead (s : HState) (evs : List CEvent) (pr rg : Nat) (m : Int) (i : Nat) :
    orank (fragHead s evs pr rg m i) ≤ 6 + halvings rg * 4 + (4 - i) := by
  by_cases hi : 3 ≤ i
  · have := orank_fragHead_ge s evs pr rg m i hi; omega
  · unfold fragHead
    split
    · simp [hsRank]; omega
    · rename_i h
      have hr : s.c.running = false := by
        cases hrun : s.c.running
        · rfl
        · exact absurd ⟨hrun, by omega⟩ h
      split
      · have := orank_fragFinish s evs m; omega
      · simp only [hr]
        simp
        have := orank_fragFinish s evs m; omega

theorem orank_fragGot (s : HState) (pr rg : Nat) (m : Int) (i : Nat) (read : Int) :
    orank (fragGot s pr rg m i read) ≤ 6 + halvings rg * 4 + (3 - i) := by
  unfold fragGot
  simp only
  split
  · split
    · have := orank_fragHead_ge s [] pr rg (fragsizeCheck s read pr m).1 3 (Nat.le_refl _); omega
    · have := orank_fragHead s [] pr rg (fragsizeCheck s read pr m).1 (i + 1); omega
  · have := orank_fragHead s [] pr rg m (i + 1); omega

theorem orank_fragEnter (s : HState) (evs : List CEvent) : orank (fragEnter s evs) ≤ 50 := by
  unfold fragEnter
  simp only
  split
  · have := orank_fragHead { s with inb := [] } evs 768 768 0 0
    rw [halvings_768] at this; omega
  · have := orank_fragFinish { s with inb := [] } evs 0; omega

theorem orank_afterLazy (s : HState) (evs : List CEvent) : orank (afterLazy s evs) ≤ 50 := by
  unfold afterLazy
  split
  · simp
  · split
    · exact orank_fragEnter _ _
    · have := orank_setFragEnter s evs s.args.fragsize; omega

theorem orank_lazyHead (s : HState) (evs : List CEvent) (i : Nat) : orank (lazyHead s evs i) ≤ 50 + (6 - i) := by
  unfold lazyHead
  split
  · simp [hsRank]; omega
  · split
    · have := orank_afterLazy s evs; omega
    · have := orank_afterLazy (lazyRevert s) evs; omega

theorem orank_lazyGot (s : HState) (i : Nat) (read : Int) : orank (lazyGot s i read) ≤ 50 + (5 - i) := by
  unfold lazyGot
  have h := orank_lazyHead s [] (i + 1)
  split
  · split
    · have := orank_afterLazy (lazyRevert s) []; omega
    · split
      · have := orank_afterLazy { s with c := { s.c with lazymode := true } } []; omega
      · omega
  · omega

theorem orank_afterSwitchDown (s : HState) (evs : List CEvent) : orank (afterSwitchDown s evs) ≤ 56 := by
  unfold afterSwitchDown
  split
  · simp
  · split
    · exact orank_lazyHead _ _ 0
    · have := orank_afterLazy s evs; omega

theorem orank_switchDownHead (s : HState) (evs : List CEvent) (i : Nat) : orank (switchDownHead s evs i) ≤ 56 + (6 - i) := by
  unfold switchDownHead
  split
  · simp [hsRank]; omega
  · have := orank_afterSwitchDown s evs; omega

theorem orank_switchDownGot (s : HState) (i : Nat) (read : Int) : orank (switchDownGot s i read) ≤ 56 + (5 - i) := by
  unfold switchDownGot
  split
  · have := orank_afterSwitchDown s []; omega
  · have := orank_switchDownHead s [] (i + 1); omega

theorem orank_afterDownenc (s : HState) (evs : List CEvent) : orank (afterDownenc s evs) ≤ 62 := by
  unfold afterDownenc
  split
  · simp
  · split
    · exact orank_switchDownHead _ _ 0
    · have := orank_afterSwitchDown s evs; omega

theorem orank_downencRet (s : HState) (evs : List CEvent) (d : Nat) : orank (downencRet s evs d) ≤ 62 :=
  orank_afterDownenc _ _

theorem orank_downencFinish (s : HState) (evs : List CEvent) (a b c : Bool) : orank (downencFinish s evs a b c) ≤ 62 := by
  unfold downencFinish
  repeat' split
  all_goals exact orank_downencRet _ _ _

theorem orank_downencTestRet (s : HState) (evs : List CEvent) (codec : Nat) (b64 ok : Bool) :
    orank (downencTestRet s evs codec b64 ok) ≤ 62 + dnW codec * 4 := by
  unfold downencTestRet
  simp only
  repeat' split
  all_goals first
    | (have := orank_downencFinish s evs true false false; omega)
    | (have := orank_downencFinish s evs false false false; omega)
    | (have := orank_downencFinish s evs false ok false; omega)
    | (have := orank_downencFinish s evs b64 (!b64) ok; omega)
    | (have := orank_downencFinish s evs b64 (!b64) true; omega)
    | (have := orank_downencRet s evs 82; omega)
    | (simp [hsRank, dnW, *])

theorem orank_downencTestHead (s : HState) (evs : List CEvent) (codec : Nat) (b64 : Bool) (i : Nat) :
    orank (downencTestHead s evs codec b64 i) ≤ 62 + dnW codec * 4 + (4 - i) := by
  unfold downencTestHead
  split
  · simp [hsRank]; omega
  · have := orank_downencTestRet s evs codec b64 false; omega

theorem orank_downencTestGot (s : HState) (codec : Nat) (b64 : Bool) (i : Nat) (read : Int) :
    orank (downencTestGot s codec b64 i read) ≤ 62 + dnW codec * 4 + (3 - i) := by
  unfold downencTestGot
  split
  · rename_i ok _; have := orank_downencTestRet s [] codec b64 ok; omega
  · have := orank_downencTestHead s [] codec b64 (i + 1); omega

theorem orank_afterSwitchCodec (s : HState) (evs : List CEvent) : orank (afterSwitchCodec s evs) ≤ 78 := by
  unfold afterSwitchCodec
  split
  · simp
  · split
    · split
      · have := orank_downencRet s evs 32; omega
      · have := orank_downencTestHead { s with inb := [] } evs 83 false 0
        simp [dnW] at this; omega
    · have := orank_afterDownenc s evs; omega

theorem orank_switchCodecHead (s : HState) (evs : List CEvent) (bits i : Nat) :
    orank (switchCodecHead s evs bits i) ≤ 78 + (6 - i) := by
  unfold switchCodecHead
  split
  · simp [hsRank]; omega
  · have := orank_afterSwitchCodec s evs; omega

theorem orank_switchCodecGot (s : HState) (bits i : Nat) (read : Int) :
    orank (switchCodecGot s bits i read) ≤ 78 + (5 - i) := by
  unfold switchCodecGot
  split
  · split
    · have := orank_afterSwitchCodec s []; omega
    · have := orank_afterSwitchCodec { s with c := { s.c with dataenc := encOfBits bits } } []; omega
  · have := orank_switchCodecHead s [] bits (i + 1); omega

theorem orank_upencRet (s : HState) (evs : List CEvent) (u : Nat) : orank (upencRet s evs u) ≤ 84 := by
  unfold upencRet
  repeat' split
  all_goals first
    | (simp; done)
    | (have := orank_switchCodecHead { s with inb := [] } evs 6 0; omega)
    | (have := orank_switchCodecHead { s with inb := [] } evs 26 0; omega)
    | (have := orank_switchCodecHead { s with inb := [] } evs 7 0; omega)
    | (have := orank_afterSwitchCodec s evs; omega)

theorem orank_upencTestRet (s : HState) (evs : List CEvent) (p : Nat) (res : Int) :
    orank (upencTestRet s evs p res) ≤ 84 + upW p * 4 := by
  unfold upencTestRet
  simp only
  have h0 := orank_upencRet s evs 0
  have h1 := orank_upencRet s evs 1
  have h2 := orank_upencRet s evs 2
  have h3 := orank_upencRet s evs 3
  have h0' := orank_upencRet { s with inb := [] } evs 0
  repeat' split
  all_goals first
    | omega
    | (simp [hsRank, upW]; omega)

theorem orank_upencTestHead (s : HState) (evs : List CEvent) (p i : Nat) :
    orank (upencTestHead s evs p i) ≤ 84 + upW p * 4 + (4 - i) := by
  unfold upencTestHead
  split
  · simp [hsRank]; omega
  · have := orank_upencTestRet s evs p (if !s.c.running then -1 else 0); omega

theorem orank_upencTestGot (s : HState) (p i : Nat) (read : Int) :
    orank (upencTestGot s p i read) ≤ 84 + upW p * 4 + (3 - i) := by
  unfold upencTestGot
  simp only
  have a := orank_upencTestRet s [] p 0
  have b := orank_upencTestRet s [] p (-1)
  have c := orank_upencTestRet s [] p 1
  have d := orank_upencTestHead s [] p (i + 1)
  repeat' split
  all_goals omega

theorem orank_ednsRet (s : HState) (evs : List CEvent) (ok : Bool) : orank (ednsRet s evs ok) ≤ 112 := by
  unfold ednsRet
  repeat' split
  all_goals first
    | exact Nat.le_trans (orank_upencTestHead _ _ 0 0) (by simp [upW])
    | (simp; done)

theorem orank_ednsHead (s : HState) (evs : List CEvent) (i : Nat) : orank (ednsHead s evs i) ≤ 112 + (4 - i) := by
  unfold ednsHead
  split
  · simp [hsRank]; omega
  · have := orank_ednsRet s evs false; omega

theorem orank_ednsGot (s : HState) (i : Nat) (read : Int) : orank (ednsGot s i read) ≤ 112 + (3 - i) := by
  unfold ednsGot
  split
  · rename_i ok _; have := orank_ednsRet s [] ok; omega
  · have := orank_ednsHead s [] (i + 1); omega

theorem orank_dnsBranch (s : HState) (evs : List CEvent) : orank (dnsBranch s evs) ≤ 116 :=
  orank_ednsHead _ _ 0

theorem orank_rawRet (s : HState) (evs : List CEvent) (ok : Bool) : orank (rawRet s evs ok) ≤ 116 := by
  unfold rawRet
  split
  · simp
  · exact orank_dnsBranch _ _

theorem orank_rawLoginHead (s : HState) (evs : List CEvent) (seed i : Nat) :
    orank (rawLoginHead s evs seed i) ≤ 116 + (5 - i) := by
  unfold rawLoginHead
  split
  · simp [hsRank]; omega
  · have := orank_rawRet s evs false; omega

theorem orank_rawLoginGot (s : HState) (seed i : Nat) (d : Option (List Nat)) :
    orank (rawLoginGot s seed i d) ≤ 116 + (4 - i) := by
  unfold rawLoginGot
  split
  · exact Nat.le_trans (orank_rawLoginHead _ _ _ _) (by omega)
  · simp only
    split
    · exact Nat.le_trans (orank_rawRet _ _ _) (by omega)
    · exact Nat.le_trans (orank_rawLoginHead _ _ _ _) (by omega)

theorem orank_rawIpDone (s : HState) (evs : List CEvent) (seed : Nat) (g : Bool) : orank (rawIpDone s evs seed g) ≤ 121 := by
  unfold rawIpDone
  repeat' split
  all_goals first
    | (have := orank_rawRet s evs false; omega)
    | (have := orank_rawLoginHead s evs seed 0; omega)

theorem orank_rawIpHead (s : HState) (evs : List CEvent) (seed i : Nat) : orank (rawIpHead s evs seed i) ≤ 121 + (4 - i) := by
  unfold rawIpHead
  split
  · simp [hsRank]; omega
  · have := orank_rawIpDone s evs seed false; omega

theorem orank_rawIpGot (s : HState) (seed i : Nat) (read : Int) : orank (rawIpGot s seed i read) ≤ 121 + (3 - i) := by
  unfold rawIpGot
  split
  · have := orank_rawIpDone s [] seed true; omega
  · have := orank_rawIpHead s [] seed (i + 1); omega

theorem orank_afterLogin (s : HState) (evs : List CEvent) (seed : Nat) : orank (afterLogin s evs seed) ≤ 125 := by
  unfold afterLogin
  split
  · exact orank_rawIpHead _ _ _ 0
  · have := orank_dnsBranch s evs; omega

theorem orank_loginHead (s : HState) (evs : List CEvent) (seed i : Nat) : orank (loginHead s evs seed i) ≤ 125 + (6 - i) := by
  unfold loginHead
  split
  · simp [hsRank]; omega
  · simp

theorem orank_loginGot (s : HState) (seed i : Nat) (read : Int) : orank (loginGot s seed i read) ≤ 125 + (5 - i) := by
  unfold loginGot
  split
  · simp only
    split
    · exact Nat.le_trans (orank_afterLogin _ _ _) (by omega)
    · simp
    · simp
    · simp [orank, posRank]
    · exact Nat.le_trans (orank_loginHead _ _ _ _) (by omega)
  · have := orank_loginHead s [] seed (i + 1); omega

theorem orank_versionHead (s : HState) (evs : List CEvent) (i : Nat) : orank (versionHead s evs i) ≤ 131 + (6 - i) := by
  unfold versionHead
  split
  · simp [hsRank]; omega
  · simp

theorem orank_versionGot (s : HState) (i : Nat) (read : Int) : orank (versionGot s i read) ≤ 131 + (5 - i) := by
  unfold versionGot
  have h := orank_versionHead s [] (i + 1)
  split
  · simp only
    repeat' split
    all_goals first
      | omega
      | exact Nat.le_trans (orank_loginHead _ _ _ 0) (by omega)
      | (simp; done)
  · omega

theorem orank_afterQtype (s : HState) (evs : List CEvent) : orank (afterQtype s evs) ≤ 137 :=
  orank_versionHead _ _ 0

theorem orank_qtypeFinish (s : HState) (evs : List CEvent) (h : Nat) : orank (qtypeFinish s evs h) ≤ 137 := by
  unfold qtypeFinish
  split
  · simp
  · simp only
    split
    · simp
    · exact orank_afterQtype _ _

theorem orank_qtypeTest (s : HState) (evs : List CEvent) (t q h : Nat) :
    orank (qtypeTest s evs t q h) = 137 + (3 - t) * 8 + (7 - q) + 1 := rfl

theorem orank_qtypeOuterHead (s : HState) (evs : List CEvent) (t h : Nat) :
    orank (qtypeOuterHead s evs t h) ≤ 137 + (4 - t) * 8 := by
  unfold qtypeOuterHead
  split
  · split
    · rw [orank_qtypeTest]; omega
    · have := orank_qtypeFinish s evs h; omega
  · have := orank_qtypeFinish s evs h; omega

theorem orank_qtypeAfterInner (s : HState) (evs : List CEvent) (t h : Nat) :
    orank (qtypeAfterInner s evs t h) ≤ 137 + (3 - t) * 8 := by
  unfold qtypeAfterInner
  split
  · have := orank_qtypeFinish s evs h; omega
  · have := orank_qtypeOuterHead s evs (t + 1) h
    have e : 4 - (t + 1) = 3 - t := by omega
    rw [e] at this; exact this

theorem qtypeNumcvt_set {q : Nat} (h : qtypeNumcvt q ≠ T_UNSET) : q ≤ 6 := by
  unfold qtypeNumcvt at h
  split at h <;> first | omega | exact absurd rfl h

theorem orank_qtypeInnerHead (s : HState) (evs : List CEvent) (t q h : Nat) :
    orank (qtypeInnerHead s evs t q h) ≤ 137 + (3 - t) * 8 + (8 - q) := by
  unfold qtypeInnerHead
  split
  · simp only
    split
    · exact Nat.le_trans (orank_qtypeAfterInner _ _ _ _) (by omega)
    · rename_i hq
      rw [orank_qtypeTest]
      have := qtypeNumcvt_set hq
      omega
  · have := orank_qtypeAfterInner s evs t h; omega

theorem orank_qtypeGot (s : HState) (t q h : Nat) (read : Int) :
    orank (qtypeGot s t q h read) ≤ 137 + (3 - t) * 8 + (7 - q) := by
  unfold qtypeGot
  split
  · have := orank_qtypeAfterInner s [] t q; omega
  · have := orank_qtypeInnerHead s [] t (q + 1) h; omega

/-- the measure at the first `select` of `client_handshake` -/
theorem orank_hsStart (c : Cli) (args : HsArgs) (pw dev : List Nat) : orank (hsStart c args pw dev) ≤ 162 := by
  unfold hsStart
  simp only
  split
  · exact Nat.le_trans (orank_qtypeOuterHead _ _ 1 100) (by omega)
  · exact Nat.le_trans (orank_afterQtype _ _) (by omega)

/-- whatever `handshake_waitdns` returns, the loop body of the function the thread is parked in ends strictly lower -/
theorem orank_hsGot (s : HState) (p : HPos) (read : Int) : orank (hsGot s p read) ≤ hsRank p := by
  cases p with
  | qtype t q h => exact orank_qtypeGot s t q h read
  | version i => exact orank_versionGot s i read
  | login seed i => exact orank_loginGot s seed i read
  | rawIp seed i => exact orank_rawIpGot s seed i read
  | rawLogin seed i => exact orank_rawLoginGot s seed i none
  | edns i => exact orank_ednsGot s i read
  | upenc p i => exact orank_upencTestGot s p i read
  | switchCodec b i => exact orank_switchCodecGot s b i read
  | downenc cd b i => exact orank_downencTestGot s cd b i read
  | switchDown i => exact orank_switchDownGot s i read
  | lazy i => exact orank_lazyGot s i read
  | frag pr r m i => exact orank_fragGot s pr r m i read
  | setFrag f i => exact orank_setFragGot s f i read

/-! ### one step, runs -/

theorem posRank_le_hsRank {o : Option HPos} {p : HPos} (h : posRank o ≤ hsRank p) : posRank o < posRank (some p) := by
  show posRank o < hsRank p + 1
  omega

/-- `handshake_waitdns` goes round its loop (`continue`) only for a reply, and only `in[]` has changed then -/
theorem hsWaitRound_none {s s' : HState} {c1 bl : Nat} {w : WaitIn} (h : hsWaitRound s c1 bl w = (s', none)) :
    (∃ q, w = .ans q) ∧ s' = { s with inb := s'.inb } := by
  unfold hsWaitRound at h
  split at h
  · simp at h
  · rename_i rq
    refine ⟨⟨rq, rfl⟩, ?_⟩
    simp only at h
    split at h
    · injection h with h1 _
      subst h1
      rfl
    · split at h <;> simp at h

/-- an input that makes the `select` return 0 -/
def isTimeoutInput : CInput → Bool
  | .tick => true
  | .tun _ => true
  | _ => false

def isTick : CInput → Bool
  | .tick => true
  | _ => false

theorem fire_dns (c : Cli) (sel : Sel) (inp : CInput) (h : isTimeoutInput inp = false) : fire c sel inp = (c, .dns inp) := by
  cases inp <;> first | rfl | simp [isTimeoutInput] at h

theorem fire_timeout (c : Cli) (p : HPos) (inp : CInput) (h : isTimeoutInput inp = true) :
    ∃ c', fire c p.sel inp = (c', .timeout) := by
  cases inp with
  | tick => exact ⟨_, rfl⟩
  | tun f => exact ⟨c, by simp [fire, HPos.sel]⟩
  | rq q => simp [isTimeoutInput] at h
  | rawans b => simp [isTimeoutInput] at h

theorem rawLogin?_some {p : HPos} {seed i : Nat} (h : p.rawLogin? = some (seed, i)) : p = .rawLogin seed i := by
  cases p <;> simp [HPos.rawLogin?] at h
  obtain ⟨h1, h2⟩ := h
  subst h1; subst h2; rfl

/-- the code run when the `select` at `p` returns: the measure drops strictly, or (only for a reply) nothing but `in[]`
changes -/
theorem hstepAt_progress_or_ignored (s : HState) (p : HPos) (f : Fired) :
    orank (hstepAt s p f) ≤ hsRank p ∨
    ((∃ q, hsWaitIn f = .ans q) ∧ hstepAt s p f = ({ s with inb := (hstepAt s p f).1.inb }, [], .sel p.sel)) := by
  unfold hstepAt
  cases hr : p.rawLogin? with
  | some si =>
    obtain ⟨seed, i⟩ := si
    left
    rw [rawLogin?_some hr]
    exact orank_rawLoginGot _ _ _ _
  | none =>
    simp only
    generalize hw : hsWaitRound s p.wait.1 p.wait.2.2 (hsWaitIn f) = r
    obtain ⟨s', rd⟩ := r
    cases rd with
    | some read => left; exact orank_hsGot _ _ _
    | none =>
      right
      obtain ⟨h1, h2⟩ := hsWaitRound_none hw
      refine ⟨h1, ?_⟩
      simp only
      rw [h2]

theorem hsWaitIn_timeout : ¬ ∃ q, hsWaitIn .timeout = .ans q := by
  intro ⟨q, h⟩; simp [hsWaitIn] at h

/-- ONE STEP: either the measure drops strictly (below the rank of the place the thread was parked in), or the input
was a reply that `handshake_waitdns` ignores — then nothing but `in[]` has changed, nothing was sent and the thread is
parked in the same `select` again.  A timeout is never ignored. -/
theorem hstep_progress_or_ignored (s : HState) (inp : CInput) (p : HPos) (hp : s.pos = some p) :
    orank (hstep s inp) ≤ hsRank p ∨
    (isTimeoutInput inp = false ∧ hstep s inp = ({ s with inb := (hstep s inp).1.inb }, [], .sel p.sel)) := by
  obtain ⟨c, pos, inb, args, pw, dev⟩ := s
  simp only at hp
  subst hp
  by_cases ht : isTimeoutInput inp = true
  · left
    obtain ⟨c', hc⟩ := fire_timeout c p inp ht
    have e : hstep ⟨c, some p, inb, args, pw, dev⟩ inp = hstepAt ⟨c', some p, inb, args, pw, dev⟩ p .timeout := by
      simp only [hstep, hc]
    rw [e]
    rcases hstepAt_progress_or_ignored ⟨c', some p, inb, args, pw, dev⟩ p .timeout with h | ⟨h, _⟩
    · exact h
    · exact absurd h hsWaitIn_timeout
  · have ht' : isTimeoutInput inp = false := by simpa using ht
    have e : hstep ⟨c, some p, inb, args, pw, dev⟩ inp = hstepAt ⟨c, some p, inb, args, pw, dev⟩ p (.dns inp) := by
      simp only [hstep, fire_dns c p.sel inp ht']
    rw [e]
    rcases hstepAt_progress_or_ignored ⟨c, some p, inb, args, pw, dev⟩ p (.dns inp) with h | ⟨_, h⟩
    · exact Or.inl h
    · exact Or.inr ⟨ht', h⟩

/-- a timeout always makes progress -/
theorem hstep_timeout_progress (s : HState) (inp : CInput) (p : HPos) (hp : s.pos = some p) (ht : isTimeoutInput inp = true) :
    orank (hstep s inp) ≤ hsRank p := by
  rcases hstep_progress_or_ignored s inp p hp with h | ⟨h, _⟩
  · exact h
  · rw [ht] at h; cases h

/-- no input ever increases the measure -/
theorem hstep_mono (s : HState) (inp : CInput) : orank (hstep s inp) ≤ posRank s.pos := by
  cases hp : s.pos with
  | none => simp [hstep, hp, orank, posRank]
  | some p =>
    rcases hstep_progress_or_ignored s inp p hp with h | ⟨_, h⟩
    · show _ ≤ hsRank p + 1; omega
    · rw [h]; simp [orank, hp]

/-- the machine driven by a list of inputs (events dropped) -/
def hsRun (s : HState) : List CInput → HState
  | [] => s
  | i :: r => hsRun (hstep s i).1 r

/-- as many `tick`s as the measure says end the handshake, whatever else arrives in between -/
theorem hsRun_terminates (inps : List CInput) : ∀ (s : HState), posRank s.pos ≤ inps.countP isTick → (hsRun s inps).pos = none := by
  induction inps with
  | nil =>
    intro s h
    cases hp : s.pos with
    | none => exact hp
    | some p => rw [hp] at h; simp [posRank] at h
  | cons i r ih =>
    intro s h
    show (hsRun (hstep s i).1 r).pos = none
    apply ih
    show orank (hstep s i) ≤ _
    by_cases hi : isTick i = true
    · rw [List.countP_cons_of_pos hi] at h
      cases hp : s.pos with
      | none => exact Nat.le_trans (hstep_mono s i) (by simp [hp, posRank])
      | some p =>
        have : isTimeoutInput i = true := by cases i <;> simp_all [isTick, isTimeoutInput]
        have := hstep_timeout_progress s i p hp this
        rw [hp] at h
        simp only [posRank] at h
        omega
    · rw [List.countP_cons_of_neg hi] at h
      exact Nat.le_trans (hstep_mono s i) h

/-! ### no residue of earlier replies -/

theorem hsWaitRound_residue_free (s : HState) (x : List Nat) (c1 bl : Nat) (w : WaitIn) :
    hsWaitRound { s with inb := x } c1 bl w = hsWaitRound s c1 bl w := by
  unfold hsWaitRound
  cases w <;> rfl

theorem rawLoginGot_residue_free (s : HState) (x : List Nat) (seed i : Nat) (d : Option (List Nat)) :
    rawLoginGot { s with inb := x } seed i d = rawLoginGot s seed i d := by
  unfold rawLoginGot
  cases d <;> rfl

/-- While the handshake runs, a step does not depend on what is in `in[]` when the `select` returns: whatever earlier
replies (fitting or ignored) wrote there, the step is the same — state, events, next `select`. -/
theorem hstep_residue_free (s : HState) (x : List Nat) (inp : CInput) (hp : s.pos ≠ none) :
    hstep { s with inb := x } inp = hstep s inp := by
  obtain ⟨c, pos, inb, args, pw, dev⟩ := s
  cases pos with
  | none => exact absurd rfl hp
  | some p =>
    simp only [hstep]
    unfold hstepAt
    cases p.rawLogin? with
    | some si => exact rawLoginGot_residue_free ⟨(fire c p.sel inp).1, some p, inb, args, pw, dev⟩ x si.1 si.2 _
    | none =>
      simp only
      rw [← hsWaitRound_residue_free ⟨(fire c p.sel inp).1, some p, inb, args, pw, dev⟩ x]

/-- … and it depends on a reply only through the return value of `read_dns_withq`, the id, the first character of the
question, the RCODE and the first `min(read, buflen)` decoded bytes. -/
theorem hstep_reply_prefix (s : HState) (p : HPos) (hp : s.pos = some p) (q q' : Rq)
    (hrv : q.rv = q'.rv) (hid : q.id = q'.id) (hrc : q.rcode = q'.rcode) (hn : q.name0 = q'.name0)
    (hbuf : q.buf.take (min q.rv.toNat p.wait.2.2) = q'.buf.take (min q.rv.toNat p.wait.2.2)) :
    hstep s (.rq q) = hstep s (.rq q') := by
  obtain ⟨c, pos, inb, args, pw, dev⟩ := s
  simp only at hp
  subst hp
  simp only [hstep, fire]
  unfold hstepAt
  cases p.rawLogin? with
  | some si => rfl
  | none =>
    simp only [hsWaitIn]
    have : hsWaitRound ⟨c, some p, inb, args, pw, dev⟩ p.wait.1 p.wait.2.2 (.ans q) =
        hsWaitRound ⟨c, some p, inb, args, pw, dev⟩ p.wait.1 p.wait.2.2 (.ans q') := by
      unfold hsWaitRound
      simp only [← hrv, ← hid, ← hrc, ← hn, hbuf]
    rw [this]

end Iodine.Client
