import IodineModel.Lemmas.C02R2
/-
RAW UDP mode, joined model: the joint invariant `RawInv`, the quiescent state `QuietRaw`, and what each scheduler event
of a raw-mode transfer does to the world (`offerC`, `offerS`, delivery of a DATA / PING datagram in either direction).
-/
namespace Iodine.C02L
open Iodine Iodine.Gen Iodine.World

/-- the joint invariant of a raw-mode session `u` (datagrams may be in flight) -/
structure RawInv (u : Nat) (w : W) : Prop where
  /-- the client thread is parked in the `select` of `client_tunnel` -/
  ph : w.cs.ph = .tunnel
  /-- the user id fits the nibble of the raw header -/
  u16 : u < 16
  /-- client: running, `conn = CONN_RAW_UDP`, `userid = u`, not expired, `outpkt.len = 0` -/
  cli : RawCli u w.cs.c
  /-- server: `Solo u`; slot active, authenticated, `authenticated_raw`, `conn = CONN_RAW_UDP`, live, nothing pending,
  immediate mode, `q.from = clientAddr`, `q.id = 0`; `check_ip` off or `host = clientAddr` -/
  srv : RawSrv u w.srv

/-- **quiescent raw-mode joint state**: the invariant, and nothing in flight -/
structure QuietRaw (u : Nat) (w : W) : Prop where
  inv : RawInv u w
  up : w.up = []
  down : w.down = []

theorem QuietRaw.quiet {u : Nat} {w : W} (h : QuietRaw u w) : quiet u w = true := by
  have hs := h.inv.srv.slot
  unfold World.quiet
  simp [h.up, h.down, Client.isSending, h.inv.cli.idle, hs.out, hs.oq, hs.qsid, hs.imm, hs.qid]

theorem tunSelC_raw {u : Nat} {w : W} (h : RawInv u w) : tunSelC w = true := by
  unfold tunSelC Client.pending
  rw [h.ph]
  simp [Client.selectOf, Client.isSending, h.cli.idle]

theorem upKa_due {u : Nat} {c : Client.Cli} (h : kaDue c) : upKa u c = [.raw (rawFrame u 48 [])] := if_pos h
theorem upKa_not_due {u : Nat} {c : Client.Cli} (h : ¬ kaDue c) : upKa u c = [] := if_neg h
theorem cliKa_due {c : Client.Cli} (h : kaDue c) : cliKa c = { c with lastrawping := c.now } := if_pos h
theorem cliKa_not_due' {c : Client.Cli} (h : ¬ kaDue c) : cliKa c = c := if_neg h

/-! ### the client's events -/

/-- `offerC`: (keepalive,) the frame — its first 4091 bytes — goes out as one raw DATA datagram -/
theorem raw_step_offerC {u : Nat} {w : W} (h : RawInv u w) (f : List Nat) (hne : f ≠ []) (hlen : f.length < 65536) :
    step w (.offerC f) =
      { w with cs := ⟨cliUp w.cs.c f, .tunnel⟩, up := w.up ++ (upKa u w.cs.c ++ [.raw (rawFrame u 32 (0x5a :: f.take 4091))]) } ∧
    RawInv u { w with cs := ⟨cliUp w.cs.c f, .tunnel⟩, up := w.up ++ (upKa u w.cs.c ++ [.raw (rawFrame u 32 (0x5a :: f.take 4091))]) } := by
  refine ⟨?_, ⟨rfl, h.u16, h.cli.up f, h.srv⟩⟩
  have hstep := cstep_raw_tun h.cli h.u16 f hne hlen
  rw [← cstate_eta w.cs h.ph] at hstep
  rw [step_offerC w f (tunSelC_raw h), stepC_of w _ _ _ _ hstep (cliUp_facts w.cs.c f).1]
  rw [upOfEvents_append, upOfEvents_ka, tunOfCEvents_append, tunOfCEvents_ka]
  show ({ w with cs := _, up := _, tunC := w.tunC ++ [] } : W) = _
  rw [List.append_nil]
  rfl

/-- `deliverDown` of a raw DATA datagram: (keepalive,) the frame is written to the client's tun device -/
theorem raw_step_down_data {u : Nat} {w : W} (h : RawInv u w) (f : List Nat) (rest : List DownD)
    (hdown : w.down = .raw (rawFrame u 32 (0x5a :: f)) :: rest) (h4 : 4 ≤ f.length) (hlen : f.length + 5 ≤ 65536) :
    step w .deliverDown =
      { w with down := rest, cs := ⟨cliDown w.cs.c, .tunnel⟩, up := w.up ++ upKa u w.cs.c, tunC := w.tunC ++ [tunImage f] } ∧
    RawInv u { w with down := rest, cs := ⟨cliDown w.cs.c, .tunnel⟩, up := w.up ++ upKa u w.cs.c, tunC := w.tunC ++ [tunImage f] } := by
  refine ⟨?_, ⟨rfl, h.u16, h.cli.down, h.srv⟩⟩
  have hstep := cstep_raw_data h.cli h.u16 f hlen
  rw [← cstate_eta w.cs h.ph] at hstep
  rw [step_deliverDown w _ rest hdown]
  have hstep' : Client.cstep ({ w with down := rest } : W).cs (cliInput (.raw (rawFrame u 32 (0x5a :: f)))) = _ := hstep
  rw [stepC_of _ _ _ _ _ hstep' (cliDown_facts w.cs.c).1]
  rw [upOfEvents_append, upOfEvents_ka, tunOfCEvents_append, tunOfCEvents_ka, tunOfC_writeTun f h4]
  show ({ w with down := rest, cs := _, up := w.up ++ (upKa u w.cs.c ++ []), tunC := w.tunC ++ ([] ++ [tunImage f]) } : W) = _
  rw [List.append_nil, List.nil_append]

/-- `deliverDown` of a raw PING datagram: (keepalive,) only `lastdownstreamtime` changes -/
theorem raw_step_down_ping {u : Nat} {w : W} (h : RawInv u w) (rest : List DownD)
    (hdown : w.down = .raw (rawFrame u 48 []) :: rest) :
    step w .deliverDown = { w with down := rest, cs := ⟨cliDown w.cs.c, .tunnel⟩, up := w.up ++ upKa u w.cs.c } ∧
    RawInv u { w with down := rest, cs := ⟨cliDown w.cs.c, .tunnel⟩, up := w.up ++ upKa u w.cs.c } := by
  refine ⟨?_, ⟨rfl, h.u16, h.cli.down, h.srv⟩⟩
  have hstep := cstep_raw_ping h.cli h.u16
  rw [← cstate_eta w.cs h.ph] at hstep
  rw [step_deliverDown w _ rest hdown]
  have hstep' : Client.cstep ({ w with down := rest } : W).cs (cliInput (.raw (rawFrame u 48 []))) = _ := hstep
  rw [stepC_of _ _ _ _ _ hstep' (cliDown_facts w.cs.c).1]
  rw [upOfEvents_append, upOfEvents_ka, tunOfCEvents_append, tunOfCEvents_ka]
  show ({ w with down := rest, cs := _, up := w.up ++ (upKa u w.cs.c ++ []), tunC := w.tunC ++ ([] ++ []) } : W) = _
  rw [List.append_nil, List.append_nil, List.append_nil]

/-! ### the server's events -/

theorem RawInv.srvPut {u : Nat} {w : W} (h : RawInv u w) (y : Server.Session) (hy : RawSlot y w.srv.now)
    (hh : y.host = (Server.getUser w.srv u).host) :
    RawSrv u { putUser w.srv u y with now := w.srv.now } ∧
    Server.getUser { putUser w.srv u y with now := w.srv.now } u = y :=
  ⟨h.srv.put y _ hy hh, getUser_put_now _ _ _ _ h.srv.solo.lt⟩

/-- `deliverUp` of a raw DATA datagram: the frame is written to the server's tun device -/
theorem raw_step_up_data {u : Nat} {w : W} (h : RawInv u w) (f : List Nat) (rest : List UpD)
    (hup : w.up = .raw (rawFrame u 32 (0x5a :: f)) :: rest) (h24 : 24 ≤ f.length) (hlen : f.length + 5 ≤ 65536)
    (hdst : Server.ipDst f ≠ (Server.getUser w.srv u).tunIp) :
    step w .deliverUp =
      { w with up := rest, srv := { putUser w.srv u (srvUp (srvTop (Server.getUser w.srv u)) f w.srv.now) with now := w.srv.now },
               tunS := w.tunS ++ [tunImage f] } ∧
    RawInv u { w with up := rest, srv := { putUser w.srv u (srvUp (srvTop (Server.getUser w.srv u)) f w.srv.now) with now := w.srv.now },
                      tunS := w.tunS ++ [tunImage f] } := by
  refine ⟨?_, ⟨h.ph, h.u16, h.cli, (h.srvPut _ (h.srv.slot.top.up f) rfl).1⟩⟩
  obtain ⟨t, hit⟩ := iteration_raw_data h.srv h.u16 f h24 hlen hdst
  rw [step_deliverUp w _ rest hup]
  have hit' : Server.iteration ({ w with up := rest } : W).srv (srvInput (.raw (rawFrame u 32 (0x5a :: f))))
      ({ w with up := rest } : W).srv.now = _ := hit
  rw [stepS_zero _ _ _ _ _ hit']
  show ({ w with up := rest, srv := _, down := w.down ++ [], tunS := w.tunS ++ [tunImage f] } : W) = _
  rw [List.append_nil]

/-- `deliverUp` of a raw PING datagram: the server answers with a raw PING -/
theorem raw_step_up_ping {u : Nat} {w : W} (h : RawInv u w) (rest : List UpD)
    (hup : w.up = .raw (rawFrame u 48 []) :: rest) :
    step w .deliverUp =
      { w with up := rest, srv := { putUser w.srv u (srvPing (srvTop (Server.getUser w.srv u)) w.srv.now) with now := w.srv.now },
               down := w.down ++ [.raw (rawFrame u 48 [])] } ∧
    RawInv u { w with up := rest, srv := { putUser w.srv u (srvPing (srvTop (Server.getUser w.srv u)) w.srv.now) with now := w.srv.now },
                      down := w.down ++ [.raw (rawFrame u 48 [])] } := by
  refine ⟨?_, ⟨h.ph, h.u16, h.cli, (h.srvPut _ h.srv.slot.top.ping rfl).1⟩⟩
  obtain ⟨t, hit⟩ := iteration_raw_ping h.srv h.u16
  rw [step_deliverUp w _ rest hup]
  have hit' : Server.iteration ({ w with up := rest } : W).srv (srvInput (.raw (rawFrame u 48 [])))
      ({ w with up := rest } : W).srv.now = _ := hit
  rw [stepS_zero _ _ _ _ _ hit']
  have hd : downOfEvents ([Server.Event.raw clientAddr (rawFrame u 48 [])] ++ [Server.Event.sweep] ++ []) =
      [.raw (rawFrame u 48 [])] := by
    simp [downOfEvents]
  rw [hd]
  show ({ w with up := rest, srv := _, down := _, tunS := w.tunS ++ [] } : W) = _
  rw [List.append_nil]

/-- `offerS`: the frame — its first 4091 bytes — goes out as one raw DATA datagram -/
theorem raw_step_offerS {u : Nat} {w : W} (h : RawInv u w) (f : List Nat) (h24 : 24 ≤ f.length) (hlen : f.length < 65536)
    (hdst : Server.ipDst f = (Server.getUser w.srv u).tunIp) :
    step w (.offerS f) =
      { w with srv := { putUser w.srv u (srvTop (Server.getUser w.srv u)) with now := w.srv.now },
               down := w.down ++ [.raw (rawFrame u 32 (0x5a :: f.take 4091))] } ∧
    RawInv u { w with srv := { putUser w.srv u (srvTop (Server.getUser w.srv u)) with now := w.srv.now },
                      down := w.down ++ [.raw (rawFrame u 32 (0x5a :: f.take 4091))] } := by
  refine ⟨?_, ⟨h.ph, h.u16, h.cli, (h.srvPut _ h.srv.slot.top rfl).1⟩⟩
  obtain ⟨t, hit⟩ := iteration_raw_tun h.srv h.u16 f h24 hlen hdst
  rw [step_offerS w f (tunSelS_raw h.srv), stepS_zero _ _ _ _ _ hit]
  have hd : downOfEvents ([Server.Event.raw clientAddr (rawFrame u 32 (0x5a :: f.take 4091))] ++ [Server.Event.sweep] ++ []) =
      [.raw (rawFrame u 32 (0x5a :: f.take 4091))] := by
    simp [downOfEvents]
  rw [hd]
  show ({ w with srv := _, down := _, tunS := w.tunS ++ [] } : W) = _
  rw [List.append_nil]

end Iodine.C02L
