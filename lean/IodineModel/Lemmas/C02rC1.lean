import IodineModel.Lemmas.C02qU7
import IodineModel.Lemmas.C02qB3
/-
C02, phase 3 — BLACKOUT, THEN CLEAN PATH, as one theorem (upstream, immediate mode).

From the quiescent state of the clean path: `k ≤ 5` packets are offered to the client while EVERY upstream datagram is lost
(`giveupRunUp`: offer, nine events of the blackout schedule `blackoutEvUp`, repeat — each packet is given up after three resends,
4 s); then the path is clean and any list of packets is offered, one after the other, on the prompt schedule.  Exactly the first
`lostUp k` of them are lost (none for `k ≤ 3`, 4 for `k = 4`, 3 for `k = 5`), all later ones arrive exactly once and in order;
the final state is quiescent and IN SYNC again, with freshness slack `1 + 4k` / `1 + k` — and every upstream clean-path
theorem holds from such a state (they are proved for every slack ≤ 21: `up_packet_imm`, `up_sequence_imm`,
`recovery_after_giveups_up_imm`), so delivery resumes and stays.
-/
namespace Iodine.C02L
open Iodine Iodine.World

theorem blackout_then_clean_upstream_imm {P : Par} (hP : P.Ok) (fuel : Nat) (hfuel : 33 ≤ fuel) {w : W} (hq : QuietImm P w)
    (lostFrames : List (List Nat)) (hk : lostFrames.length ≤ 5)
    (hlf : ∀ f ∈ lostFrames, f ≠ [] ∧ f.length < 65536 ∧ Codec.Bytes f)
    (hc : ¬ w.cs.c.lastdownstreamtime + 60 < w.cs.c.now + 4 * lostFrames.length)
    (hs : w.srv.now + 4 * lostFrames.length < (Server.getUser w.srv P.u).lastPkt + 60)
    (hfr : lostFrames.length ≤ 3 ∨ 1 ≤ (Server.getUser w.srv P.u).inpacket.fragment)
    (frames : List (List Nat)) (hok : ∀ f ∈ frames, UpFrameOk P (Server.getUser w.srv P.u).tunIp f) :
    (offerAllC P.u fuel (giveupRunUp lostFrames w) frames).tunS =
        w.tunS ++ (frames.drop (lostUp lostFrames.length)).map tunImage ∧
    (offerAllC P.u fuel (giveupRunUp lostFrames w) frames).tunC = w.tunC ∧
    (lostUp lostFrames.length < frames.length →
      QuietImmS P (1 + 4 * lostFrames.length) (1 + lostFrames.length) (offerAllC P.u fuel (giveupRunUp lostFrames w) frames)) := by
  have hq0 : QuietImmDS P 0 0 1 1 w := quietImmDS_zero.2 hq
  obtain ⟨hg, hd⟩ := giveup_runs_up_imm hP lostFrames hlf hq0 (by omega) (by omega) hc hs
  have hsrv : Server.getUser (giveupRunUp lostFrames w).srv P.u = Server.getUser w.srv P.u := by rw [hg.srv]; rfl
  have hk8 : (0 + lostFrames.length) % 8 = lostFrames.length := by omega
  rw [hk8] at hd
  have := recovery_after_giveups_up_imm hP fuel hfuel frames lostFrames.length (giveupRunUp lostFrames w) hd (by omega)
    (by rw [hsrv]; exact hfr) (by rw [hsrv]; exact hok)
  rw [hg.tunS, hg.tunC] at this
  exact this

end Iodine.C02L
