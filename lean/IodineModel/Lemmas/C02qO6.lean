import IodineModel.Lemmas.C02N1
/-
C02 / OVERLAPPING transfers, lazy mode — server side: a RESENT (duplicate) upstream fragment arrives while a query `H` is
parked in `q_sendrealsoon` and no query is held in `q`.  The parked query is answered at once with a dataless packet
(and remembered), the duplicate is not stored, the new query is held.
-/
namespace Iodine.C02L
open Iodine Iodine.Gen Iodine.Server Iodine.World

/-- stage 1 of the data handler on the slot: nothing to acknowledge, the fragment is refused -/
theorem dataASess_dup (x : Session) (upSeq upFrag : Nat) (dnSeq dnFrag : Int) (payload : List Nat)
    (hout : x.outpacket.len = 0) (hup : dataUpstream x upSeq upFrag = (x, false)) :
    dataASess x upSeq upFrag dnSeq dnFrag payload = (x, false) := by
  have hack : ackSess x dnSeq dnFrag = x := by
    unfold ackSess
    rw [if_pos hout]
  unfold dataASess
  rw [hack, hup]
  rfl

/-- the data handler on the slot: nothing to send downstream, no query held in `q`, a query parked in `qs`, and the
upstream fragment is a duplicate (`dataUpstream` refuses it) -/
theorem dataSess_dup_qs (x : Session) (u : Nat) (Q : Query) (h : UpHdr) (payload : List Nat) (now : Nat)
    (hout : x.outpacket.len = 0) (hq : x.q.id = 0) (hqs : x.qs.id ≠ 0) (hqs2 : x.qs.id2 = 0) (hlz : x.lazy = true)
    (hup : dataUpstream x h.upSeq h.upFrag = (x, false)) :
    dataSess x u Q h payload now =
      (saveQ { cacheUpd (qmemUpd x x.qs) x.qs (scPkt x 0) with qs := { x.qs with id := 0 } } Q now,
        [writeDns x.qs (scPkt x 0) x.downenc (.chunk u)]) := by
  have hA := dataASess_dup x h.upSeq h.upFrag h.dnSeq h.dnFrag payload hout hup
  unfold dataSess
  rw [hA]
  simp only [Bool.false_eq_true, false_and, if_false]
  have e1 : stepQsSess x u =
      (({ cacheUpd (qmemUpd x x.qs) x.qs (scPkt x 0) with qs := { x.qs with id := 0 } },
        [writeDns x.qs (scPkt x 0) x.downenc (.chunk u)]), true) := by
    unfold stepQsSess
    rw [if_pos hqs, scSess_dataless x u .qs hout (by exact hqs2)]
    simp only [QSel.get, QSel.set, Bool.not_false]
  rw [e1]
  simp only
  generalize hY : ({ cacheUpd (qmemUpd x x.qs) x.qs (scPkt x 0) with qs := { x.qs with id := 0 } } : Session) = Y
  have hYc : core Y = core { x with qs := { x.qs with id := 0 } } := by
    subst hY
    have := core_memo x x.qs (scPkt x 0)
    unfold core at this ⊢
    simp only [Session.mk.injEq] at this ⊢
    simp [this]
  have hYq : Y.q = x.q := by have h9 := core_q hYc; exact h9
  have hYl : Y.lazy = true := by
    have h9 := core_lazy hYc
    rw [h9]; exact hlz
  have hYo : Y.outpacket = x.outpacket := by have h9 := core_outpacket hYc; exact h9
  have e2 : stepQSess Y u false h.last true = ((Y, []), true) := by
    unfold stepQSess
    rw [if_neg (by rw [hYq]; intro hc; exact hc hq)]
  rw [e2]
  simp only
  have e3 : stepFinalSess (saveQ Y Q now) u false h.last true = (saveQ Y Q now, []) := by
    simp [stepFinalSess, saveQ, hYl]
  rw [e3]
  simp

/-- `iteration_data` (C02u2) with the weaker side condition of `dataStaged_eq`: the "not addressed to the session itself"
condition is needed only when the fragment is accepted -/
theorem iteration_data_acc {u : Nat} {s : Srv} (hs : Solo u s) (Q : Query) (now' dlen : Nat) (hu : u < 16)
    (hdl : Common.queryDatalen Q.name s.cfg.topdomain = some dlen) (h6 : 6 ≤ dlen)
    (hc : Q.name.getD 0 0 = hexLower u) (hty : TunnelType Q.type) (hid : Q.id ≠ 0)
    (hadm : Admitted (entryS s u now') u Q)
    (hcache : CacheMiss (topSess (getUser s u) s.now) Q) (hqmem : QmemMiss (topSess (getUser s u) s.now) Q)
    (hdup1 : (topSess (getUser s u) s.now).q.id = 0 ∨ (topSess (getUser s u) s.now).q.name ≠ Q.name)
    (hdup2 : (topSess (getUser s u) s.now).qs.id = 0 ∨ (topSess (getUser s u) s.now).qs.name ≠ Q.name)
    (hns : (dataASess (topSess (getUser s u) s.now) (parseUpHdr (Q.name.take (min dlen 512))).upSeq
        (parseUpHdr (Q.name.take (min dlen 512))).upFrag (parseUpHdr (Q.name.take (min dlen 512))).dnSeq
        (parseUpHdr (Q.name.take (min dlen 512))).dnFrag ((Q.name.take (min dlen 512)).drop 5)).2 = true →
      (parseUpHdr (Q.name.take (min dlen 512))).last = true →
      ¬ selfAddressed (dataASess (topSess (getUser s u) s.now) (parseUpHdr (Q.name.take (min dlen 512))).upSeq
        (parseUpHdr (Q.name.take (min dlen 512))).upFrag (parseUpHdr (Q.name.take (min dlen 512))).dnSeq
        (parseUpHdr (Q.name.take (min dlen 512))).dnFrag ((Q.name.take (min dlen 512)).drop 5)).1 now') :
    iteration s (.q Q) now' =
      (let r := dataSess (topSess (getUser s u) s.now) u Q (parseUpHdr (Q.name.take (min dlen 512)))
                  ((Q.name.take (min dlen 512)).drop 5) now'
       ({ putUser s u (sweepSess r.1 u now').1 with now := now' }, r.2 ++ [Event.sweep] ++ (sweepSess r.1 u now').2,
        ((topOfLoop s).2.1, (topOfLoop s).2.2))) := by
  have hs1 := entryS_solo hs now'
  have hg := getUser_entryS hs now'
  apply iteration_solo hs (.q Q) now' _ _ (by intro f hf; cases hf)
  show tunnelDns (entryS s u now') Q = _
  rw [tunnelDns_data (entryS s u now') Q u dlen hu hdl h6 hc hty hid (checkAuth_admitted hadm)
    (answerFromDnscache_none _ _ _ (by rw [hg]; exact hcache)) (answerFromQmemData_none _ _ _ (by rw [hg]; exact hqmem))
    (rememberDuplicate_none _ _ _ (by rw [hg]; exact hdup1) (by rw [hg]; exact hdup2))]
  rw [dataFresh_stages, dataStaged_eq hs1 _ _ _ (by rw [hg]; exact fun ha hl => hns ha hl), hg]
  unfold entryS
  simp only [putUser_withNow, putUser_putUser]

/-- **a resent fragment finds a parked query**: the parked query `H` (counter value `k0`) is answered with a dataless packet
and remembered, the duplicate fragment carried by `Q` (counter value `k0 + 1`) is not stored, `Q` is held -/
theorem srv_recv_dup_qs {P : Par} (hP : P.Ok) {s : Srv} (hS : SStat P s) {H Q : Query} {k0 sd : Nat} (hk0 : k0 < 36)
    (hA : Aged P (getUser s P.u) k0 1) (hPA : PAged P (getUser s P.u) sd 1)
    (hB : HeldBase P H) (hHD : HeldData P H k0)
    (hq : (getUser s P.u).q.id = 0) (hqs : (getUser s P.u).qs = H) (hlz : (getUser s P.u).lazy = true)
    (hout : (getUser s P.u).outpacket.len = 0) (hoq : (getUser s P.u).oqFilled = 0)
    {sq fr : Nat} {dsq dfr : Int} {lastf : Bool} {chunk : List Nat}
    (hQ : UpQ P Q ⟨sq, fr, dsq, dfr, lastf⟩ ((k0 + 1) % 36) chunk)
    (hseq : (getUser s P.u).inpacket.seqno = (sq : Int)) (hfr : (fr : Int) ≤ (getUser s P.u).inpacket.fragment) :
    ∃ s' evs t, iteration s (.q Q) s.now = (s', evs, t) ∧
      downOfEvents evs = [.ans H.id H.type H.name (scPkt (getUser s P.u) 0)] ∧ tunOfSEvents evs = [] ∧
      SStat P s' ∧ IdleLazy (getUser s' P.u) ∧ (getUser s' P.u).q = Q ∧
      HeldMem P (getUser s' P.u) Q ((k0 + 2) % 36) sd ∧
      (getUser s' P.u).inpacket = (getUser s P.u).inpacket ∧ (getUser s' P.u).outpacket = (getUser s P.u).outpacket ∧
      (getUser s' P.u).oqFilled = (getUser s P.u).oqFilled ∧ (getUser s' P.u).tunIp = (getUser s P.u).tunIp ∧
      s'.now = s.now ∧ (getUser s' P.u).fragsize = (getUser s P.u).fragsize := by
  obtain ⟨dlen, hdl, h6, hparse, hpl⟩ := hQ.parse
  have htop := topSess_live hS
  have hu := hS.solo.lt
  have hk1 : (k0 + 1) % 36 < 36 := Nat.mod_lt _ (by omega)
  have hk2 : ((k0 + 1) % 36 + 1) % 36 = (k0 + 2) % 36 := by omega
  have hA1 : Aged P (getUser s P.u) ((k0 + 1) % 36) 2 := hA.step hk0 (by omega)
  -- the slot at the top of the loop
  generalize hx0 : ({ getUser s P.u with qsNew := false } : Session) = x0 at htop
  have hx0A : Aged P x0 ((k0 + 1) % 36) 2 := by subst hx0; exact hA1.congr rfl rfl rfl rfl
  have hx0P : PAged P x0 sd 1 := by subst hx0; exact hPA.congr rfl rfl rfl rfl
  have hx0f : Fresh P x0 ((k0 + 1) % 36) (0 + 1) := hx0A.fresh hk1 (by omega)
  have hx0q : x0.q.id = 0 := by subst hx0; exact hq
  have hx0qs : x0.qs = H := by subst hx0; exact hqs
  have hx0l : x0.lazy = true := by subst hx0; exact hlz
  have hx0out : x0.outpacket = (getUser s P.u).outpacket := by subst hx0; rfl
  have hx0in : x0.inpacket = (getUser s P.u).inpacket := by subst hx0; rfl
  have hne : H.name ≠ Q.name := by
    intro he
    have h1 := hHD.c4
    rw [he, hQ.c4] at h1
    have := cmcChar_inj _ _ hk1 hk0 h1
    omega
  have hup : dataUpstream x0 sq fr = (x0, false) := by
    unfold dataUpstream
    rw [if_pos ⟨by rw [hx0in]; exact hseq.symm, by rw [hx0in]; exact hfr⟩]
  have hit := iteration_data_acc hS.solo Q s.now dlen hP.hu (by rw [hS.td]; exact hdl) h6 hQ.c0 (hQ.ty ▸ hP.tty) hQ.id
    (admitted_entry hS Q hQ.from_)
    (by rw [htop]; exact hx0f.cacheMiss Q hQ.ty hQ.c0 hQ.c4 hk1)
    (by rw [htop]; exact hx0f.qmemMiss Q hQ.ty hQ.c4 hk1)
    (by rw [htop]; exact Or.inl hx0q) (by rw [htop, hx0qs]; exact Or.inr hne)
    (by
      rw [htop, hparse]
      intro hc
      rw [dataASess_dup x0 _ _ _ _ _ (by rw [hx0out]; exact hout) hup] at hc
      cases hc)
  rw [htop, hparse, dataSess_dup_qs x0 P.u Q _ _ s.now (by rw [hx0out]; exact hout) hx0q (by rw [hx0qs]; exact hB.id)
    (by rw [hx0qs]; exact hB.id2) hx0l hup, hx0qs] at hit
  simp only at hit
  have hpk : scPkt x0 0 = scPkt (getUser s P.u) 0 := by subst hx0; rfl
  -- the memories after `H` was remembered
  have hYA : Aged P (cacheUpd (qmemUpd x0 H) H (scPkt x0 0)) ((k0 + 2) % 36) 2 := by
    have h3 : Aged P x0 ((k0 + 2) % 36) (2 + 1) := hk2 ▸ hx0A.step hk1 (by omega)
    exact h3.memo H (scPkt x0 0) (scPkt0_len x0) k0 2 ⟨by omega, by omega⟩ (by unfold Behind; omega) hk0 hHD.c4 hHD.len5
      (by rw [hHD.c0]; exact hexLower_ne_p hP.hu)
  have hYP : PAged P (cacheUpd (qmemUpd x0 H) H (scPkt x0 0)) sd 1 :=
    hx0P.memo_data hP.hu H (scPkt x0 0) (scPkt0_len x0) hHD.len5 hHD.c0
  have hmemo : HeldMem P (cacheUpd (qmemUpd x0 H) H (scPkt x0 0)) Q ((k0 + 2) % 36) sd :=
    Or.inl ⟨(k0 + 1) % 36, hQ.heldData hk1, by unfold Behind; omega, hYA, hYP⟩
  generalize hY : (saveQ { cacheUpd (qmemUpd x0 H) H (scPkt x0 0) with qs := { H with id := 0 } } Q s.now : Session) = Y at hit
  have hYM : HeldMem P Y Q ((k0 + 2) % 36) sd := by
    subst hY; exact hmemo.congr rfl rfl rfl rfl rfl rfl
  have hYc : core Y = core { x0 with qs := { H with id := 0 }, q := Q, lastPkt := s.now } := by
    subst hY
    have := core_memo x0 H (scPkt x0 0)
    unfold core at this ⊢
    unfold saveQ
    simp only [Session.mk.injEq] at this ⊢
    simp [this]
  have fA : Y.active = x0.active := by have h9 := core_active hYc; exact h9
  have fB : Y.authenticated = x0.authenticated := by have h9 := core_authenticated hYc; exact h9
  have fC : Y.disabled = x0.disabled := by have h9 := core_disabled hYc; exact h9
  have fD : Y.conn = x0.conn := by have h9 := core_conn hYc; exact h9
  have fE : Y.encoder = x0.encoder := by have h9 := core_encoder hYc; exact h9
  have fF : Y.outpacket = x0.outpacket := by have h9 := core_outpacket hYc; exact h9
  have fG : Y.inpacket = x0.inpacket := by have h9 := core_inpacket hYc; exact h9
  have fH : Y.q = Q := by have h9 := core_q hYc; exact h9
  have fI : Y.qs = { H with id := 0 } := by have h9 := core_qs hYc; exact h9
  have fJ : Y.lazy = x0.lazy := by have h9 := core_lazy hYc; exact h9
  have fK : Y.host = x0.host := by have h9 := core_host hYc; exact h9
  have fL : Y.lastPkt = s.now := by have h9 := core_lastPkt hYc; exact h9
  have fQ : Y.oqFilled = x0.oqFilled := by have h9 := core_oqFilled hYc; exact h9
  have fT : Y.tunIp = x0.tunIp := by have h9 := core_tunIp hYc; exact h9
  -- the sweep does nothing: the parked query was answered
  have hsw : sweepSess Y P.u s.now = (Y, []) := by
    unfold sweepSess
    rw [if_neg (by intro hc; apply hc.2.1; rw [fI])]
  rw [hsw] at hit
  dsimp only at hit
  have hg : getUser { putUser s P.u Y with now := s.now } P.u = Y := by
    rw [getUser_withNow, getUser_putUser_self _ _ _ hu]
  refine ⟨_, _, _, hit, ?_, ?_, ?_, ?_, ?_, ?_, ?_, ?_, ?_, ?_, rfl, ?_⟩
  · simp only [List.append_nil, downOfEvents_append, downOfEvents_sweep, downOfEvents_writeDns _ _ _ _ hB.from_, hpk]
  · simp only [List.append_nil, tunOfSEvents_append, tunOfSEvents_writeDns, tunOfSEvents_sweep]
  · refine ⟨(hS.solo.putUser Y).withNow _, hS.td, ?_, ?_, ?_⟩
    · rw [hg]
      subst hx0
      exact ⟨fA ▸ hS.x.active, fB ▸ hS.x.auth, fC ▸ hS.x.enabled, fD ▸ hS.x.conn, fE ▸ hS.x.enc, fF ▸ hS.x.oseq, fF ▸ hS.x.ofrag,
        fG ▸ hS.x.iseq, fG ▸ hS.x.ifrag⟩
    · rw [hg, fK]; subst hx0; exact hS.host
    · rw [hg, fL]; show s.now < s.now + 60; omega
  · rw [hg]
    refine ⟨?_, ?_, ?_, ?_, ?_⟩
    · rw [fF, hx0out]; exact hout
    · rw [fH]; exact hQ.id
    · rw [fH]; exact hQ.id2
    · rw [fI]
    · rw [fJ]; exact hx0l
  · rw [hg, fH]
  · rw [hg]; exact hYM
  · rw [hg, fG, hx0in]
  · rw [hg, fF, hx0out]
  · rw [hg, fQ]; subst hx0; rfl
  · rw [hg, fT]; subst hx0; rfl
  · rw [hg]
    have : Y.fragsize = x0.fragsize := by have h9 := core_fragsize hYc; exact h9
    rw [this]; subst hx0; rfl

#print axioms srv_recv_dup_qs

end Iodine.C02L
