import IodineModel.Lemmas.C02qL9
/-
C02 phase 2 / upstream, lazy mode — RECOVERY, general form: as `recovery_after_giveups_up_lazy`, but for `d ≥ 4` the server's
`inpacket.fragment` may also be 0 provided every offered frame fits ONE upstream fragment (then the frame offered at distance 7
is falsely acknowledged and lost silently — `up_packet_lazy_desync_false_ack` — instead of resent and given up; it is lost
either way, and the two ends are in step afterwards).
-/
namespace Iodine.C02L
open Iodine Iodine.Gen Iodine.World

/-- the (compressed) frame fits one upstream fragment -/
def OneFrag (P : Par) (f : List Nat) : Prop := fragLen P (0x5a :: f) = (0x5a :: f).length

theorem recovery_after_giveups_up_lazy_gen {P : Par} (hP : P.Ok) (fuel : Nat) (hfuel : 33 ≤ fuel) :
    ∀ (fs : List (List Nat)) (d : Nat) (w : W), QuietLazyD P d 0 w → d < 8 →
      (4 ≤ d → 1 ≤ (Server.getUser w.srv P.u).inpacket.fragment ∨ ∀ f ∈ fs, OneFrag P f) →
      (∀ f ∈ fs, UpFrameOk P (Server.getUser w.srv P.u).tunIp f) →
      (offerAllC P.u fuel w fs).tunS = w.tunS ++ (fs.drop (lost d)).map tunImage ∧
      (offerAllC P.u fuel w fs).tunC = w.tunC ∧
      (Resync d fs.length → QuietLazy P (offerAllC P.u fuel w fs)) ∧
      (fs.length < lost d → QuietLazyD P (d + fs.length) 0 (offerAllC P.u fuel w fs)) := by
  intro fs
  induction fs with
  | nil =>
    intro d w hq hd _ _
    refine ⟨by simp [offerAllC], rfl, ?_, fun _ => hq⟩
    intro hr
    have : d = 0 := by
      rcases hr with h | h | h
      · exact h
      · exact absurd h.2 (by simp)
      · have := h.2; simp at this; omega
    subst this
    exact quietLazyD_zero.1 hq
  | cons f fs ih =>
    intro d w hq hd hfr hok
    have hf := hok f List.mem_cons_self
    by_cases h3 : d ≤ 3
    · obtain ⟨w1, h1, h2, t1, t2, t3, _⟩ := up_packet_lazy_desync_ok hP hq h3 f hf.h24 hf.hl hf.bytes hf.dst hf.frags
      have hrun : runPrompt P.u fuel (step w (.offerC f)) = w1 :=
        runPrompt_of_steps P.u _ _ _ h1 h2.quiet fuel (by have := hf.frags; omega)
      have hseq := up_sequence_lazy hP fuel hfuel fs w1 h2 (fun g hg => by rw [t3]; exact hok g (List.mem_cons_of_mem _ hg))
      have hl0 : lost d = 0 := by simp [lost, h3]
      unfold offerAllC
      rw [hrun, hl0]
      refine ⟨?_, ?_, fun _ => hseq.1, fun h => by simp at h⟩
      · rw [hseq.2.1, t1]; simp [tunImage]
      · rw [hseq.2.2, t2]
    · have h4 : 4 ≤ d := by omega
      have hne : f ≠ [] := by intro hc; have := hf.h24; rw [hc] at this; simp at this
      -- the frame is lost, one way or the other
      have hlost : ∃ w1, runPrompt P.u fuel (step w (.offerC f)) = w1 ∧ QuietLazyD P ((d + 1) % 8) 0 w1 ∧
          w1.tunS = w.tunS ∧ w1.tunC = w.tunC ∧
          (Server.getUser w1.srv P.u).inpacket = (Server.getUser w.srv P.u).inpacket ∧
          (Server.getUser w1.srv P.u).tunIp = (Server.getUser w.srv P.u).tunIp := by
        by_cases hres : d = 7 ∧ ¬ 1 ≤ (Server.getUser w.srv P.u).inpacket.fragment
        · obtain ⟨h7, hz⟩ := hres
          subst h7
          have h0 : (Server.getUser w.srv P.u).inpacket.fragment = 0 := by
            have := hq.srv.x.ifrag.1; omega
          have hone : OneFrag P f := by
            rcases hfr h4 with h | h
            · exact absurd h hz
            · exact h f List.mem_cons_self
          obtain ⟨w1, h1, h2, t1, t2, t3, t4, _⟩ := up_packet_lazy_desync_false_ack hP hq h0 f hne hf.hl hf.bytes hone
          exact ⟨w1, runPrompt_of_steps P.u _ _ _ h1 h2.quiet fuel (by omega), quietLazyD_zero.2 h2, t1, t2, t3, t4⟩
        · obtain ⟨w1, h1, h2, t1, t2, t3, t4, _⟩ :=
            up_packet_lazy_desync_drop hP hq ⟨h4, by omega⟩ (fun h7 => by
              by_cases hz : 1 ≤ (Server.getUser w.srv P.u).inpacket.fragment
              · exact hz
              · exact absurd ⟨h7, hz⟩ hres) f hne hf.hl hf.bytes
          exact ⟨w1, runPrompt_of_steps P.u _ _ _ h1 h2.quiet fuel (by omega), h2, t1, t2, t3, t4⟩
      obtain ⟨w1, hrun, h2, t1, t2, t3, t4⟩ := hlost
      have hd1 : (d + 1) % 8 < 8 := Nat.mod_lt _ (by omega)
      obtain ⟨i1, i2, i3, i4⟩ := ih ((d + 1) % 8) w1 h2 hd1
        (fun _ => by
          rw [t3]
          rcases hfr h4 with h | h
          · exact Or.inl h
          · exact Or.inr (fun g hg => h g (List.mem_cons_of_mem _ hg)))
        (fun g hg => by rw [t4]; exact hok g (List.mem_cons_of_mem _ hg))
      have hl1 : lost d = lost ((d + 1) % 8) + 1 := by
        unfold lost
        by_cases h7 : d = 7
        · subst h7; rfl
        · have : (d + 1) % 8 = d + 1 := by omega
          rw [this, if_neg h3, if_neg (by omega)]; omega
      unfold offerAllC
      rw [hrun, hl1]
      refine ⟨?_, ?_, ?_, ?_⟩
      · rw [i1, t1]; simp
      · rw [i2, t2]
      · intro hr
        apply i3
        rcases hr with h | h | h
        · omega
        · omega
        · by_cases h7 : d = 7
          · subst h7; left; rfl
          · right; right
            have : (d + 1) % 8 = d + 1 := by omega
            rw [this]
            have := h.2
            simp only [List.length_cons] at this
            omega
      · intro hlt
        simp only [List.length_cons] at hlt
        have h7 : d ≠ 7 := by
          intro h7; subst h7
          have : lost ((7 + 1) % 8) = 0 := rfl
          omega
        have e : (d + 1) % 8 = d + 1 := by omega
        have := i4 (by omega)
        rw [e] at this
        simp only [List.length_cons]
        rw [show d + (fs.length + 1) = d + 1 + fs.length from by omega]
        exact this

/-- non-vacuity, and the brief's example: the lazy demo session with the client's `outpkt.seqno` moved on by 4 and the
server's `inpacket.fragment = 0` (as in `exWL` itself): of five one-fragment frames the first four are lost (three after 4 s
of resends each, the fourth silently by a false ack), the fifth arrives -/
example :
    (offerAllC exPL.u 40 (desyncUp exPL.u exWL 4 0) [demoFrame 9 4, demoFrame 9 10, demoFrame 9 4, demoFrame 9 10, demoFrame 9 4]).tunS =
      [demoFrame 9 4] := by
  have hq := quietLazyD_desyncUp ex_quiescent_lazy 4 0 (by decide)
  have h4 : UpFrameOk exPL (Server.getUser exWL.srv exPL.u).tunIp (demoFrame 9 4) ∧ OneFrag exPL (demoFrame 9 4) :=
    ⟨⟨by decide, by decide, by unfold Codec.Bytes; decide, by decide +kernel, by decide +kernel⟩, by unfold OneFrag; decide +kernel⟩
  have h10 : UpFrameOk exPL (Server.getUser exWL.srv exPL.u).tunIp (demoFrame 9 10) ∧ OneFrag exPL (demoFrame 9 10) :=
    ⟨⟨by decide, by decide, by unfold Codec.Bytes; decide, by decide +kernel, by decide +kernel⟩, by unfold OneFrag; decide +kernel⟩
  have hall : ∀ f ∈ [demoFrame 9 4, demoFrame 9 10, demoFrame 9 4, demoFrame 9 10, demoFrame 9 4],
      UpFrameOk exPL (Server.getUser exWL.srv exPL.u).tunIp f ∧ OneFrag exPL f := by
    intro f hf
    simp only [List.mem_cons, List.not_mem_nil, or_false] at hf
    rcases hf with h | h | h | h | h <;> subst h <;> first | exact h4 | exact h10
  have r := recovery_after_giveups_up_lazy_gen exPL_ok 40 (by decide) _ 4 _ hq (by decide)
    (fun _ => Or.inr fun f hf => (hall f hf).2)
    (fun f hf => by rw [desyncUp_tunIp ex_quiescent_lazy]; exact (hall f hf).1)
  have ht : exWL.tunS = [] := by decide +kernel
  have hi : tunImage (demoFrame 9 4) = demoFrame 9 4 := by decide
  have := r.1
  rw [(desyncUp_tun _ _ _ _).1, ht] at this
  rw [this]
  show List.map tunImage [demoFrame 9 4] = _
  simp [hi]

end Iodine.C02L
