import IodineModel.Lemmas.C02L10
/-
C02 / OVERLAPPING transfers, lazy mode — concrete schedules of the endings on the demo session (kernel-evaluated).
-/
namespace Iodine.C02L
open Iodine Iodine.Gen Iodine.World

/-- the concrete schedules of the three endings (kernel-evaluated; `exWL`, upstream × downstream fragments):
2 × 2 (E3) 8 events, 1 × 2 (E2, then the last downstream fragment) 6 events, 2 × 1 (E1, then the last upstream fragment) 8 events -/
theorem overlap_traces_finding :
    promptTrace 0 12 (step (step exWL (.offerC (demoFrame 9 60))) (.offerS (demoFrame 2 30))) =
      [.deliverUp, .deliverDown, .deliverUp, .deliverDown, .deliverUp, .deliverDown, .deliverDown, .deliverUp] ∧
    promptTrace 0 12 (step (step exWL (.offerC (demoFrame 9 4))) (.offerS (demoFrame 2 30))) =
      [.deliverUp, .deliverDown, .deliverUp, .deliverDown, .deliverDown, .deliverUp] ∧
    promptTrace 0 12 (step (step exWL (.offerC (demoFrame 9 60))) (.offerS (demoFrame 2 4))) =
      [.deliverUp, .deliverDown, .deliverDown, .deliverUp, .tickS, .deliverDown, .tickC, .deliverUp] := by decide +kernel


end Iodine.C02L
