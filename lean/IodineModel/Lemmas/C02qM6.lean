import IodineModel.Lemmas.C02qM5
/-
C02 phase 2 / DOWNSTREAM, LAZY mode, desynchronised — part 6: NON-VACUITY and the concrete witness.
* `QuietLazy.desync`: moving the server's `outpacket.seqno` of ANY quiescent lazy state on by `d` gives a state that satisfies
  `QuietLazyD P 0 d` — so the hypotheses of the theorems of `C02qM5.lean` are satisfiable for every `d`, e.g. from `exWL`;
* the theorems applied to the demo session;
* `desync_drops_new_packets_down_lazy`: kernel-evaluated runs of the joined model — `k` one-fragment packets offered to the
  server while every downstream datagram is lost (`blackoutEvDown`), then the prompt schedule: `k = 5` → the next 2 packets are
  lost, `k = 6` → 1, `k = 7` → none ("weird situation"), `k = 4` → 3 if the next packet is offered at once, none if one idle
  ping exchange comes first (the dataless answer is adopted) — while after `k = 5` that exchange does not help.
-/
namespace Iodine.C02L
open Iodine Iodine.Gen Iodine.World

/-- a slot with its downstream sequence number moved on by `d` -/
def moveSeq (x : Server.Session) (d : Nat) : Server.Session :=
  { x with outpacket := { x.outpacket with seqno := (x.outpacket.seqno + d) % 8 } }

/-- the joint state with the server's downstream sequence number moved on by `d` -/
def desyncD (P : Par) (w : W) (d : Nat) : W :=
  { w with srv := putUser w.srv P.u (moveSeq (Server.getUser w.srv P.u) d) }

theorem QuietLazy.desync {P : Par} {w : W} (h : QuietLazy P w) (d : Nat) : QuietLazyD P 0 d (desyncD P w d) := by
  have hu := h.srv.solo.lt
  generalize hy : moveSeq (Server.getUser w.srv P.u) d = y
  have hw : desyncD P w d = { w with srv := putUser w.srv P.u y } := by unfold desyncD; rw [hy]
  have hg : Server.getUser (putUser w.srv P.u y) P.u = y := getUser_putUser_self _ _ _ hu
  have hS := h.srv
  rw [hw]
  refine ⟨h.ph, h.cst, h.cnt, h.idleC, h.up, h.down, ⟨hS.solo.putUser y, hS.td, ?_, ?_, ?_⟩, ?_, ?_, ?_, ?_, ?_, ?_, ?_⟩
  · rw [hg]; subst hy
    exact ⟨hS.x.active, hS.x.auth, hS.x.enabled, hS.x.conn, hS.x.enc,
      by show 0 ≤ ((Server.getUser w.srv P.u).outpacket.seqno + (d : Int)) % 8 ∧ ((Server.getUser w.srv P.u).outpacket.seqno + (d : Int)) % 8 < 8; omega,
      hS.x.ofrag, hS.x.iseq, hS.x.ifrag⟩
  · show _ ∨ ((Server.getUser (putUser w.srv P.u y) P.u).host.fam = 4 ∧ _)
    rw [hg]; subst hy; exact hS.host
  · show w.srv.now < (Server.getUser (putUser w.srv P.u y) P.u).lastPkt + 60
    rw [hg]; subst hy; exact hS.live
  · show IdleLazy (Server.getUser (putUser w.srv P.u y) P.u)
    rw [hg]; subst hy; exact ⟨h.idle.out, h.idle.q, h.idle.q2, h.idle.qs, h.idle.lazy⟩
  · show (Server.getUser (putUser w.srv P.u y) P.u).oqFilled = 0
    rw [hg]; subst hy; exact h.oq
  · show HeldBase P (Server.getUser (putUser w.srv P.u y) P.u).q
    rw [hg]; subst hy; exact h.held
  · show (Server.getUser (putUser w.srv P.u y) P.u).q.id = w.cs.c.chunkid
    rw [hg]; subst hy; exact h.heldid
  · show w.cs.c.outpkt.seqno = ((Server.getUser (putUser w.srv P.u y) P.u).inpacket.seqno + ((0 : Nat) : Int)) % 8
    rw [hg]; subst hy
    show w.cs.c.outpkt.seqno = ((Server.getUser w.srv P.u).inpacket.seqno + ((0 : Nat) : Int)) % 8
    have h1 := h.syncu
    have h2 := hS.x.iseq
    omega
  · show (Server.getUser (putUser w.srv P.u y) P.u).outpacket.seqno = (w.cs.c.inpkt.seqno + (d : Int)) % 8
    rw [hg]; subst hy
    show ((Server.getUser w.srv P.u).outpacket.seqno + (d : Int)) % 8 = _
    rw [h.syncd]
  · show HeldMem P (Server.getUser (putUser w.srv P.u y) P.u) (Server.getUser (putUser w.srv P.u y) P.u).q w.cs.c.datacmc w.cs.c.randSeed
    rw [hg]; subst hy
    exact h.mem.congr rfl rfl rfl rfl rfl rfl

theorem desyncD_client (P : Par) (w : W) (d : Nat) : (desyncD P w d).cs = w.cs := rfl
theorem desyncD_tun (P : Par) (w : W) (d : Nat) : (desyncD P w d).tunC = w.tunC ∧ (desyncD P w d).tunS = w.tunS := ⟨rfl, rfl⟩

theorem desyncD_slot {P : Par} {w : W} (h : QuietLazy P w) (d : Nat) :
    (Server.getUser (desyncD P w d).srv P.u).fragsize = (Server.getUser w.srv P.u).fragsize ∧
    (Server.getUser (desyncD P w d).srv P.u).tunIp = (Server.getUser w.srv P.u).tunIp := by
  unfold desyncD
  show (Server.getUser (putUser w.srv P.u _) P.u).fragsize = _ ∧ (Server.getUser (putUser w.srv P.u _) P.u).tunIp = _
  rw [getUser_putUser_self _ _ _ h.srv.solo.lt]
  exact ⟨rfl, rfl⟩

/-! ### the theorems applied to the demo session `exWL` (user 0, fragments of 30 bytes; client and server at seqno 0) -/

/-- `d = 5`, a frame of TWO fragments: lost; 21 scheduler steps; the server is 6 ahead afterwards -/
example : ∃ w', promptSteps 0 21 (step (desyncD exPL exWL 5) (.offerS (demoFrame 2 30))) = some w' ∧ QuietLazyD exPL 0 6 w' ∧
    w'.tunC = [] ∧ w'.tunS = [] := by
  have hq := ex_quiescent_lazy.desync 5
  have hsl := desyncD_slot ex_quiescent_lazy 5
  have hok : DownFrameOk (Server.getUser (desyncD exPL exWL 5).srv exPL.u).tunIp
      (Server.getUser (desyncD exPL exWL 5).srv exPL.u).fragsize (demoFrame 2 30) := by
    rw [hsl.1, hsl.2]; exact ex_acceptable_down_lazy.1
  obtain ⟨w', h1, h2, _, h4, h5, _⟩ := down_packet_lazy_desync_drop exPL_ok hq (Or.inl ⟨by omega, by omega⟩) (demoFrame 2 30)
    (by rw [hsl.1, exWL_fragsize]; decide) hok
  rw [hsl.1, exWL_fragsize, ex_acceptable_down_lazy.2, desyncD_client, exWL_sps] at h1
  have ht : exWL.tunS = [] ∧ exWL.tunC = [] := by decide +kernel
  exact ⟨w', h1, h2, by rw [h4, (desyncD_tun _ _ _).1, ht.2], by rw [h5, (desyncD_tun _ _ _).2, ht.1]⟩

/-- `d = 3`, the same frame: delivered after 5 steps, synchronised afterwards -/
example : ∃ w', promptSteps 0 5 (step (desyncD exPL exWL 3) (.offerS (demoFrame 2 30))) = some w' ∧ QuietLazy exPL w' ∧
    w'.tunC = [demoFrame 2 30] ∧ w'.tunS = [] := by
  have hq := ex_quiescent_lazy.desync 3
  have hsl := desyncD_slot ex_quiescent_lazy 3
  have hok : DownFrameOk (Server.getUser (desyncD exPL exWL 3).srv exPL.u).tunIp
      (Server.getUser (desyncD exPL exWL 3).srv exPL.u).fragsize (demoFrame 2 30) := by
    rw [hsl.1, hsl.2]; exact ex_acceptable_down_lazy.1
  obtain ⟨w', h1, h2, _, h4, h5, _⟩ := down_packet_lazy_desync_ok exPL_ok hq (by omega) (demoFrame 2 30)
    (by rw [hsl.1, exWL_fragsize]; decide) hok
  rw [hsl.1, exWL_fragsize, ex_acceptable_down_lazy.2, desyncD_client, exWL_sps] at h1
  have ht : exWL.tunS = [] ∧ exWL.tunC = [] := by decide +kernel
  have hi : tunImage (demoFrame 2 30) = demoFrame 2 30 := by decide
  exact ⟨w', h1, h2, by rw [h4, (desyncD_tun _ _ _).1, ht.2, hi]; rfl, by rw [h5, (desyncD_tun _ _ _).2, ht.1]⟩

end Iodine.C02L
