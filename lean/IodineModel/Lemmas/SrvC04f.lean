import IodineModel.Lemmas.SrvC04e
/-
Helper lemmas for C04, part f: raw-mode handlers, `dispatch`, the sweep, the whole iteration; the tunnel addresses of
the slots never change (so in reachable states they are the pool `init_users` set up).
-/
namespace Iodine.C04L
open Iodine Iodine.Server Iodine.Gen

/-! ### raw mode -/

/-- when `handle_raw_login` accepts -/
def rawLoginOk (s : Srv) (packet : List Nat) (u : Nat) : Prop :=
  16 ≤ packet.length ∧ u < s.cfg.createdUsers ∧ (getUser s u).active = true ∧ (getUser s u).disabled = false ∧
  (getUser s u).authenticated = true ∧ ¬ (getUser s u).lastPkt + 60 < s.now ∧
  packet.take 16 = Login.loginCalcC s.cfg.password ((getUser s u).seed + 1)

theorem handleRawLogin_rejected (s : Srv) (packet : List Nat) (q : Query) (u : Nat) (h : ¬ rawLoginOk s packet u) :
    handleRawLogin s packet q u = (s, []) := by
  unfold handleRawLogin
  by_cases h1 : packet.length < 16
  · rw [if_pos h1]
  rw [if_neg h1]
  by_cases h2 : u ≥ s.cfg.createdUsers
  · rw [if_pos h2]
  rw [if_neg h2]
  dsimp only
  split
  · rfl
  next h3 =>
  split
  · rfl
  next h4 =>
  split
  · rfl
  next h5 =>
  split
  · next h6 =>
    exfalso; apply h
    have h3' : (getUser s u).active = true ∧ (getUser s u).disabled = false := by
      cases ha : (getUser s u).active <;> cases hb : (getUser s u).disabled <;> simp [ha, hb] at h3 ⊢
    exact ⟨by omega, by omega, h3'.1, h3'.2, by simpa using h4, h5, h6⟩
  · rfl

theorem frame_userSetConnType (s : Srv) (u : Nat) (c : Conn) : Frame erTun (· = u) s (userSetConnType s u c) := by
  unfold userSetConnType
  split
  · exact Frame.refl _ _ _
  · exact Frame.set erTun _ _ _ (fun _ => rfl)

theorem frame_handleRawLogin (s : Srv) (packet : List Nat) (q : Query) (u : Nat) :
    Frame erTun (fun v => v = u ∧ rawLoginOk s packet u) s (handleRawLogin s packet q u).1 := by
  by_cases h : rawLoginOk s packet u
  · have hm : ∀ v, v = u → v = u ∧ rawLoginOk s packet u := fun v hv => ⟨hv, h⟩
    unfold handleRawLogin
    obtain ⟨h1, h2, h3, h4, h5, h6, h7⟩ := h
    rw [if_neg (by omega), if_neg (by omega)]
    dsimp only
    rw [if_neg (by simp [h3, h4]), if_neg (by simp [h5]), if_neg h6, if_pos h7]
    refine Frame.mono ?_ hm
    refine Frame.trans ?_ (Frame.set erTun _ u _ (fun _ => rfl))
    refine Frame.trans ?_ (frame_userSetConnType _ u _)
    exact Frame.set erTun _ u _ (fun _ => rfl)
  · rw [handleRawLogin_rejected s packet q u h]; exact Frame.refl _ _ _

theorem frame_handleRawData (s : Srv) (packet : List Nat) (q : Query) (u : Nat) :
    Frame erData (fun _ => True) s (handleRawData s packet q u).1 := by
  unfold handleRawData
  split
  · exact Frame.refl _ _ _
  split
  · exact Frame.refl _ _ _
  refine Frame.trans ?_ ((frame_handleFullPacket _ u).mono (fun _ _ => trivial))
  refine Frame.mono (U := (· = u)) ?_ (fun _ _ => trivial)
  exact Frame.set erData _ u _ (fun _ => rfl)

theorem frame_handleRawPing (s : Srv) (q : Query) (u : Nat) :
    Frame erData (· = u) s (handleRawPing s q u).1 := by
  unfold handleRawPing
  split
  · exact Frame.refl _ _ _
  split
  · exact Frame.refl _ _ _
  exact Frame.set erData _ u _ (fun _ => rfl)

theorem frame_rawDecode (s : Srv) (packet : List Nat) (src : Addr) (r : Res) (h : rawDecode s packet src = some r) :
    Frame erTun (fun _ => True) s r.1 := by
  unfold rawDecode at h
  split at h
  · cases h
  split at h
  · cases h
  dsimp only at h
  split at h
  · cases h; exact (frame_handleRawLogin _ _ _ _).mono (fun _ _ => trivial)
  split at h
  · cases h; exact (frame_handleRawData _ _ _ _).coarsen erTun_erData
  split at h
  · cases h; exact ((frame_handleRawPing _ _ _).coarsen erTun_erData).mono (fun _ _ => trivial)
  · cases h; exact Frame.refl _ _ _

/-- a raw-mode datagram changes the address a slot is bound to only if it is a login frame for that slot that
`handle_raw_login` accepts -/
theorem rawDecode_host (s : Srv) (packet : List Nat) (src : Addr) (r : Res) (v : Nat)
    (h : rawDecode s packet src = some r) (hne : (getUser r.1 v).host ≠ (getUser s v).host) :
    RAW_HDR_LEN ≤ packet.length ∧ packet.take 3 = rawHeader.take 3 ∧
    (packet.getD 3 0 &&& RAW_HDR_CMD_MASK) = RAW_HDR_CMD_LOGIN ∧ v = (packet.getD 3 0 &&& RAW_HDR_USR_MASK) ∧
    rawLoginOk s (packet.drop RAW_HDR_LEN) v := by
  have hostOf : ∀ {U : Nat → Prop} {s' : Srv}, Frame erHost U s s' → (getUser s' v).host = (getUser s v).host :=
    fun f => erHost_host (f.rel v)
  unfold rawDecode at h
  split at h
  · cases h
  next h1 =>
  split at h
  · cases h
  next h2 =>
  dsimp only at h
  split at h
  · next h3 =>
    cases h
    have hU : v = (packet.getD 3 0 &&& RAW_HDR_USR_MASK) ∧
        rawLoginOk s (packet.drop RAW_HDR_LEN) (packet.getD 3 0 &&& RAW_HDR_USR_MASK) := by
      by_cases hh : v = (packet.getD 3 0 &&& RAW_HDR_USR_MASK) ∧
          rawLoginOk s (packet.drop RAW_HDR_LEN) (packet.getD 3 0 &&& RAW_HDR_USR_MASK)
      · exact hh
      · have := (frame_handleRawLogin s (packet.drop RAW_HDR_LEN) (rawQuery src)
          (packet.getD 3 0 &&& RAW_HDR_USR_MASK)).other v hh
        rw [this] at hne; exact absurd rfl hne
    refine ⟨by omega, by simpa using h2, h3, hU.1, ?_⟩
    rw [hU.1]; exact hU.2
  split at h
  · cases h
    exact absurd (hostOf ((frame_handleRawData s _ _ _).coarsen erHost_erData)) hne
  split at h
  · cases h
    exact absurd (hostOf ((frame_handleRawPing s _ _).coarsen erHost_erData)) hne
  · cases h; exact absurd rfl hne

/-! ### dispatch -/

theorem frame_tunnelTun (s : Srv) (frame : List Nat) :
    Frame erData (fun v => findUserByIp s (ipDst frame) = some v) s (tunnelTun s frame).1 := by
  cases h : findUserByIp s (ipDst frame) with
  | none => rw [tunnelTun_none s frame h]; exact Frame.refl _ _ _
  | some t =>
    exact (tunnelTun_some_frame s frame t h).mono (fun v hv => by rw [hv])

theorem tunnelBind_fst (s : Srv) (d : List Nat) : (tunnelBind s d).1 = s := by
  unfold tunnelBind
  split
  · rfl
  split <;> rfl

/-- whatever the input, the handler phase keeps configuration, clock, table size and every slot's tunnel address -/
theorem frame_dispatch (s : Srv) (inp : Input) (tunsel : Bool) :
    Frame erTun (fun _ => True) s (dispatch s inp tunsel).1 := by
  unfold dispatch
  cases inp with
  | tick => exact Frame.refl _ _ _
  | tun frame =>
    dsimp only
    split
    · exact ((frame_tunnelTun s _).coarsen erTun_erData).mono (fun _ _ => trivial)
    · exact Frame.refl _ _ _
  | q q => exact (frame_tunnelDns s q).mono (fun _ _ => trivial)
  | rawf src bytes =>
    dsimp only
    split
    · next r h => exact frame_rawDecode s _ src r h
    · exact Frame.refl _ _ _
  | bind bytes =>
    dsimp only
    split
    · rw [tunnelBind_fst]; exact Frame.refl _ _ _
    · exact Frame.refl _ _ _

/-- in the handler phase the address a slot is bound to changes only by a `V` allocation or an accepted raw login -/
theorem dispatch_host (s : Srv) (inp : Input) (tunsel : Bool) (v : Nat)
    (hne : (getUser (dispatch s inp tunsel).1 v).host ≠ (getUser s v).host) :
    (∃ q, inp = .q q ∧ (getUser (tunnelDns s q).1 v).host ≠ (getUser s v).host) ∨
    (∃ src bytes r, inp = .rawf src bytes ∧ rawDecode s (bytes.take 65536) src = some r ∧
      (getUser r.1 v).host ≠ (getUser s v).host) := by
  have hostOf : ∀ {U : Nat → Prop} {s' : Srv}, Frame erHost U s s' → (getUser s' v).host = (getUser s v).host :=
    fun f => erHost_host (f.rel v)
  unfold dispatch at hne
  cases inp with
  | tick => exact absurd rfl hne
  | tun frame =>
    dsimp only at hne
    split at hne
    · exact absurd (hostOf ((frame_tunnelTun s _).coarsen erHost_erData)) hne
    · exact absurd rfl hne
  | q q => exact Or.inl ⟨q, rfl, hne⟩
  | rawf src bytes =>
    dsimp only at hne
    split at hne
    · next r h => exact Or.inr ⟨src, bytes, r, rfl, h, hne⟩
    · exact absurd rfl hne
  | bind bytes =>
    dsimp only at hne
    split at hne
    · rw [tunnelBind_fst] at hne; exact absurd rfl hne
    · exact absurd rfl hne

/-! ### sweep, body, iteration -/

theorem frame_sweepFrom : ∀ (n i : Nat) (s : Srv), Frame erData (fun _ => True) s (sweepFrom n i s).1 := by
  intro n
  induction n with
  | zero => intro i s; exact Frame.refl _ _ _
  | succ n ih =>
    intro i s
    unfold sweepFrom
    dsimp only
    rw [andThen_fst]
    refine Frame.trans ?_ (ih (i + 1) _)
    split
    · exact (frame_sendChunkOrDataless s i .qs).mono (fun _ _ => trivial)
    · exact Frame.refl _ _ _

/-- every event of the sweep answers the query a live DNS-mode session has been holding for "real soon" -/
theorem sweepFrom_events : ∀ (n i : Nat) (s : Srv), ∀ e ∈ (sweepFrom n i s).2,
    ∃ j, i ≤ j ∧ j < i + n ∧ live (getUser s j) s.now = true ∧ (getUser s j).qs.id ≠ 0 ∧
      (getUser s j).conn = .dnsNull ∧ ToSess (getUser s j) j e := by
  intro n
  induction n with
  | zero => intro i s e he; cases he
  | succ n ih =>
    intro i s e he
    unfold sweepFrom at he
    dsimp only at he
    rw [andThen_snd] at he
    rcases List.mem_append.1 he with he | he
    · split at he
      · next hc =>
        exact ⟨i, Nat.le_refl _, by omega, hc.1, hc.2.1, hc.2.2.1, sendChunkOrDataless_toSess s i .qs e he⟩
      · cases he
    · have hf : Frame erData (· = i) s
          (if live (getUser s i) s.now = true ∧ (getUser s i).qs.id ≠ 0 ∧ (getUser s i).conn = Conn.dnsNull ∧
              (!(getUser s i).qsNew) = true then (sendChunkOrDataless s i QSel.qs).1 else (s, [])).1 := by
        split
        · exact frame_sendChunkOrDataless s i .qs
        · exact Frame.refl _ _ _
      obtain ⟨j, h1, h2, h3, h4, h5, h6⟩ := ih (i + 1) _ e he
      have hj : ¬ j = i := by omega
      rw [hf.other j hj, hf.now] at h3
      rw [hf.other j hj] at h4 h5 h6
      exact ⟨j, by omega, by omega, h3, h4, h5, h6⟩

theorem frame_sweep (s : Srv) : Frame erData (fun _ => True) s (sweep s).1 := frame_sweepFrom _ _ _

theorem body_fst (s : Srv) (inp : Input) (tunsel : Bool) :
    (body s inp tunsel).1 = (sweep (dispatch s inp tunsel).1).1 := by
  unfold body
  cases inp <;> dsimp only
  all_goals try rfl
  split <;> rfl

theorem frame_body (s : Srv) (inp : Input) (tunsel : Bool) :
    Frame erTun (fun _ => True) s (body s inp tunsel).1 := by
  rw [body_fst]
  exact (frame_dispatch s inp tunsel).trans ((frame_sweep _).coarsen erTun_erData)

/-- the tunnel addresses of the slots, in slot order -/
def tunIps (s : Srv) : List Nat := s.users.map (·.tunIp)

theorem Frame.tunIps_eq {U : Nat → Prop} {s s' : Srv} (h : Frame erTun U s s') : tunIps s' = tunIps s := by
  unfold tunIps
  apply List.ext_getElem (by simp [h.len])
  intro i h1 h2
  simp only [List.length_map] at h1 h2
  simp only [List.getElem_map]
  have k := h.rel i
  unfold getUser at k
  simp only [List.getD_eq_getElem?_getD, List.getElem?_eq_getElem h1, List.getElem?_eq_getElem h2,
    Option.getD_some] at k
  exact erTun_tunIp k

theorem clearNewFrom_tunIp (now created : Nat) : ∀ (xs : List Session) (i : Nat),
    (clearNewFrom now created xs i).map (·.tunIp) = xs.map (·.tunIp) := by
  intro xs
  induction xs with
  | nil => intro i; rfl
  | cons x xs ih =>
    intro i
    unfold clearNewFrom
    simp only [List.map_cons, ih]
    split <;> rfl

theorem iteration_tunIps (s : Srv) (inp : Input) (now' : Nat) : tunIps (iteration s inp now').1 = tunIps s := by
  unfold iteration
  dsimp only
  rw [(frame_body _ inp _).tunIps_eq]
  unfold tunIps topOfLoop
  dsimp only
  exact clearNewFrom_tunIp _ _ _ _

theorem iteration_cfg (s : Srv) (inp : Input) (now' : Nat) : (iteration s inp now').1.cfg = s.cfg := by
  unfold iteration
  dsimp only
  rw [(frame_body _ inp _).cfg]
  rfl

/-- in every reachable state the slots carry the addresses `init_users` gave them -/
theorem reachable_tunIps (cfg : Config) (s : Srv) (h : Reachable cfg s) :
    tunIps s = Users.initUsers cfg.myIp cfg.netmask := by
  induction h with
  | init rnd =>
    unfold tunIps start Srv.init
    simp only [List.map_map]
    have : ((fun x : Session => x.tunIp) ∘ Session.zero) = id := by funext a; rfl
    rw [this, List.map_id]
  | step st hr hle ih =>
    unfold next
    rw [iteration_tunIps]; exact ih

end Iodine.C04L
