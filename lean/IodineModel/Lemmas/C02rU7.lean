import IodineModel.Lemmas.C02rU5
import IodineModel.Lemmas.C02qL10
/-
C02 phase 3 / d7up, LAZY mode — the server's side of the last fragment when the assembled bytes are an arbitrary string `T`
(`srv_recv_last_lazy` of `C02L6` generalised as `srv_recv_lastT` of `C02rU1` generalises `srv_recv_last`).
-/
namespace Iodine.C02L
open Iodine Iodine.Gen Iodine.Server Iodine.World

theorem srv_recv_last_lazyT {P : Par} (hP : P.Ok) {s : Srv} (hS : SStat P s) (hi : IdleLazy (getUser s P.u)) {k sd : Nat}
    (hk : k < 36) (hM : HeldMem P (getUser s P.u) (getUser s P.u).q k sd)
    {Q : Query} {sq fr : Nat} {dsq dfr : Int} {T : List Nat} {o m : Nat}
    (hQ : UpQ P Q ⟨sq, fr, dsq, dfr, true⟩ k ((T.drop o).take m))
    (hE : Expect (getUser s P.u) T sq o fr) (hsq : sq < 8) (hfr : fr < 16)
    (hm : o + m = T.length) (h64 : T.length ≤ 65536)
    (hns : ∀ out, uncompress T 65536 = some out → 24 ≤ out.length → ipDst out ≠ (getUser s P.u).tunIp) :
    ∃ s' evs t, iteration s (.q Q) s.now = (s', evs, t) ∧ downOfEvents evs = [] ∧
      tunOfSEvents evs = junkUp T ∧ AfterLastL P s s' (getUser s P.u).q Q sq fr := by
  obtain ⟨dlen, hdl, h6, hparse, hpl⟩ := hQ.parse
  have htop := topSess_live hS
  have hu := hS.solo.lt
  generalize hx0 : ({ getUser s P.u with qsNew := false } : Session) = x0 at htop
  have hx0s : XStat P x0 := by subst hx0; exact ⟨hS.x.active, hS.x.auth, hS.x.enabled, hS.x.conn, hS.x.enc, hS.x.oseq, hS.x.ofrag, hS.x.iseq, hS.x.ifrag⟩
  have hx0i : IdleLazy x0 := by subst hx0; exact ⟨hi.out, hi.q, hi.q2, hi.qs, hi.lazy⟩
  have hx0H : x0.q = (getUser s P.u).q := by subst hx0; rfl
  have hx0M : HeldMem P x0 x0.q k sd := by subst hx0; exact hM.congr rfl rfl rfl rfl rfl rfl
  have hx0f : Fresh P x0 k (0 + 1) := hx0M.fresh hk
  have hx0e : Expect x0 T sq o fr := by subst hx0; exact hE
  have hx0o : x0.outpacket = (getUser s P.u).outpacket := by subst hx0; rfl
  have hx0h : x0.host = (getUser s P.u).host := by subst hx0; rfl
  have hx0t : x0.tunIp = (getUser s P.u).tunIp := by subst hx0; rfl
  have hx0c : x0.dnscache = (getUser s P.u).dnscache := by subst hx0; rfl
  have hx0m : x0.qmemdata = (getUser s P.u).qmemdata := by subst hx0; rfl
  have hx0q : x0.oqFilled = (getUser s P.u).oqFilled := by subst hx0; rfl
  rw [← hx0H]
  obtain ⟨I, hup, hI⟩ := accept_of_expect hx0e hx0s.iseq
  obtain ⟨e1, e2, e3, e4, e5, _⟩ := expect_stored hP (sq := sq) (f := fr) hx0s.enc _ hpl hI (Nat.le_of_eq hm) h64
  generalize hst : stored x0 I ((Q.name.take (min dlen 512)).drop 5) = st at e1 e2 e3 e4 e5
  have hstc : core st = core { x0 with inpacket := st.inpacket } := by
    subst hst; unfold stored dataStore; rfl
  have hun : st.inpacket.data.take st.inpacket.len = T := by
    rw [e5, e4, hm, List.take_take, Nat.min_self, List.take_length]
  have hit := iteration_data hS.solo Q s.now dlen hP.hu (by rw [hS.td]; exact hdl) h6 hQ.c0 (hQ.ty ▸ hP.tty) hQ.id
    (admitted_entry hS Q hQ.from_)
    (by rw [htop]; exact hx0f.cacheMiss Q hQ.ty hQ.c0 hQ.c4 hk)
    (by rw [htop]; exact hx0f.qmemMiss Q hQ.ty hQ.c4 hk)
    (by rw [htop]; exact Or.inr (hx0M.name_ne hP.hu hk Q hQ.c0 hQ.c4)) (by rw [htop]; exact Or.inl hx0i.qs)
    (by
      rw [htop, hparse]
      intro _
      rw [dataASess_accept x0 _ _ I hx0i.out hup, hst]
      intro ⟨out', h1, h2, _, _, _, _, h7⟩
      rw [hun] at h1
      have : st.tunIp = x0.tunIp := by have h9 := core_tunIp hstc; exact h9
      rw [this, hx0t] at h7
      exact hns out' h1 h2 h7)
  rw [htop, hparse, dataSess_lazy_last x0 P.u Q _ _ s.now I hx0i rfl hup, hst] at hit
  simp only at hit
  have hfe : downOfEvents (fullEvs st) = [] ∧ tunOfSEvents (fullEvs st) = junkUp T := by
    unfold fullEvs junkUp
    rw [hun]
    cases uncompress T 65536 with
    | none => exact ⟨rfl, rfl⟩
    | some out =>
      simp only
      by_cases h24 : out.length ≥ 4 + 20
      · rw [if_pos h24, if_pos (by omega)]; exact ⟨rfl, rfl⟩
      · rw [if_neg h24, if_neg (by omega)]; exact ⟨rfl, rfl⟩
  generalize hY : saveQ (parkQ (fullSess st)) Q s.now = Y at hit
  have hYc : core Y = core { x0 with
      inpacket := { st.inpacket with len := 0, offset := 0 }, qs := x0.q, qsNew := true, q := Q, lastPkt := s.now } := by
    subst hY
    have := hstc
    unfold core at this ⊢
    unfold parkQ saveQ fullSess
    simp only [Session.mk.injEq] at this ⊢
    simp [this]
  have fA : Y.active = x0.active := by have h9 := core_active hYc; exact h9
  have fB : Y.authenticated = x0.authenticated := by have h9 := core_authenticated hYc; exact h9
  have fC : Y.disabled = x0.disabled := by have h9 := core_disabled hYc; exact h9
  have fD : Y.conn = x0.conn := by have h9 := core_conn hYc; exact h9
  have fE : Y.encoder = x0.encoder := by have h9 := core_encoder hYc; exact h9
  have fF : Y.outpacket = x0.outpacket := by have h9 := core_outpacket hYc; exact h9
  have fG : Y.inpacket = { st.inpacket with len := 0, offset := 0 } := by have h9 := core_inpacket hYc; exact h9
  have fH : Y.q = Q := by have h9 := core_q hYc; exact h9
  have fI : Y.qs = x0.q := by have h9 := core_qs hYc; exact h9
  have fJ : Y.lazy = x0.lazy := by have h9 := core_lazy hYc; exact h9
  have fK : Y.host = x0.host := by have h9 := core_host hYc; exact h9
  have fL : Y.lastPkt = s.now := by have h9 := core_lastPkt hYc; exact h9
  have fM : Y.qsNew = true := by have h9 := core_qsNew hYc; exact h9
  have fN : Y.dnscache = x0.dnscache := by subst hY; subst hst; rfl
  have fO : Y.qmemdata = x0.qmemdata := by subst hY; subst hst; rfl
  have fN2 : Y.dcLast = x0.dcLast := by subst hY; subst hst; rfl
  have fO2 : Y.qmemdataLast = x0.qmemdataLast := by subst hY; subst hst; rfl
  have fP : Y.qmemping = x0.qmemping := by subst hY; subst hst; rfl
  have fP2 : Y.qmempingLast = x0.qmempingLast := by subst hY; subst hst; rfl
  have fQ : Y.oqFilled = x0.oqFilled := by have h9 := core_oqFilled hYc; exact h9
  have fT : Y.tunIp = x0.tunIp := by have h9 := core_tunIp hYc; exact h9
  -- the sweep leaves the query that was parked in this very iteration alone
  have hsw : sweepSess Y P.u s.now = (Y, []) := by
    unfold sweepSess
    rw [if_neg (by intro hc; have := hc.2.2.2; rw [fM] at this; simp at this)]
  rw [hsw] at hit
  dsimp only at hit
  have hg : getUser { putUser s P.u Y with now := s.now } P.u = Y := by
    rw [getUser_withNow, getUser_putUser_self _ _ _ hu]
  refine ⟨_, _, _, hit, ?_, ?_, ?_⟩
  · simp only [downOfEvents_append, hfe.1, downOfEvents_sweep, List.append_nil]
  · simp only [tunOfSEvents_append, hfe.2, tunOfSEvents_sweep, List.append_nil]
  · refine ⟨?_, ?_, ?_, ?_, ?_, ?_, ?_, ?_, ?_, rfl, ?_, ?_, ?_, ?_, ?_, ?_, ?_⟩
    · refine ⟨(hS.solo.putUser Y).withNow _, hS.td, ?_, ?_, ?_⟩
      · rw [hg]
        refine ⟨fA ▸ hx0s.active, fB ▸ hx0s.auth, fC ▸ hx0s.enabled, fD ▸ hx0s.conn, fE ▸ hx0s.enc, fF ▸ hx0s.oseq, fF ▸ hx0s.ofrag, ?_, ?_⟩
        · rw [fG]; show 0 ≤ st.inpacket.seqno ∧ st.inpacket.seqno < 8; rw [e1]; omega
        · rw [fG]; show 0 ≤ st.inpacket.fragment ∧ st.inpacket.fragment < 16; rw [e2]; omega
      · rw [hg, fK, hx0h]; exact hS.host
      · rw [hg, fL]; show s.now < s.now + 60; omega
    · rw [hg, fH]
    · rw [hg, fI]
    · rw [hg, fJ]; exact hx0i.lazy
    · rw [hg, fF, hx0o]
    · rw [hg, fQ, hx0q]
    · rw [hg, fT, hx0t]
    · rw [hg, fG]; exact e1
    · rw [hg, fG]; exact e2
    · rw [hg, fN, hx0c]
    · rw [hg, fO, hx0m]
    · rw [hg, fN2]; subst hx0; rfl
    · rw [hg, fO2]; subst hx0; rfl
    · rw [hg, fP]; subst hx0; rfl
    · rw [hg, fP2]; subst hx0; rfl
    · rw [hg]
      have : Y.fragsize = x0.fragsize := by have h9 := core_fragsize hYc; exact h9
      rw [this]; subst hx0; rfl

end Iodine.C02L
