import IodineModel.Lemmas.C02qD9
import IodineModel.Lemmas.C02rD4
/-
C02 phase 3 / d7down — part 5: NON-VACUITY of `down_packet_imm_desync7_ok`, `down_packet_lazy_desync7_ok`,
`recovery_after_giveups_down_imm`, `recovery_after_giveups_down_lazy` on the demo sessions (`exD` = `desyncC C02.exW`,
immediate mode; `desyncD exPL exWL` / `desyncD exPL exWD`, lazy mode), both cases of `lostDown'`.
-/
namespace Iodine.C02L
open Iodine Iodine.Gen Iodine.World

/-- the client of the demo session has taken nothing yet: fragment number 0, empty reassembly buffer -/
theorem exW_inpkt_rD : C02.exW.cs.c.inpkt.fragment = 0 ∧ C02.exW.cs.c.inpkt.len = 0 := by decide +kernel

theorem exD_inpkt_rD (d : Nat) : (exD d).cs.c.inpkt.fragment = 0 ∧ (exD d).cs.c.inpkt.len = 0 := exW_inpkt_rD

theorem exWL_inpkt_rD : exWL.cs.c.inpkt.fragment = 0 ∧ exWL.cs.c.inpkt.len = 0 := by decide +kernel

/-- non-vacuity of `down_packet_imm_desync7_ok`, and the theorem applied: 7 ahead, fragment number 0, nothing stored: the
two-fragment frame arrives after the usual 8 steps and the session is synchronised -/
example : ∃ w', promptSteps 0 8 (step (exD 7) (.offerS (demoFrame 2 30))) = some w' ∧ QuietImm C02.exP w' ∧
    w'.tunC = [demoFrame 2 30] ∧ w'.tunS = [] := by
  obtain ⟨w', h1, h2, h3, h4, _⟩ := down_packet_imm_desync7_ok C02.exP_ok (exD_quiet 7) (exD_inpkt_rD 7).1 (exD_inpkt_rD 7).2
    (demoFrame 2 30) (by decide +kernel) C02.ex_acceptable_down.1 (exD_roomy 7).to (exD_roomy 7).cli (exD_roomy 7).srv
  have hg : downSteps (downFrags (Server.getUser (exD 7).srv C02.exP.u).fragsize ((demoFrame 2 30).length + 1) ((demoFrame 2 30).length + 1)) = 8 := by
    decide +kernel
  rw [hg] at h1
  have hi : tunImage (demoFrame 2 30) = demoFrame 2 30 := by decide
  exact ⟨w', h1, h2, by rw [h3, hi]; rfl, h4⟩

/-- non-vacuity of `down_packet_lazy_desync7_ok`: `d = 7`, the two-fragment frame: delivered after 5 steps, synchronised -/
example : ∃ w', promptSteps 0 5 (step (desyncD exPL exWL 7) (.offerS (demoFrame 2 30))) = some w' ∧ QuietLazy exPL w' ∧
    w'.tunC = [demoFrame 2 30] ∧ w'.tunS = [] := by
  have hq := ex_quiescent_lazy.desync 7
  have hsl := desyncD_slot ex_quiescent_lazy 7
  have hok : DownFrameOk (Server.getUser (desyncD exPL exWL 7).srv exPL.u).tunIp
      (Server.getUser (desyncD exPL exWL 7).srv exPL.u).fragsize (demoFrame 2 30) := by
    rw [hsl.1, hsl.2]; exact ex_acceptable_down_lazy.1
  obtain ⟨w', h1, h2, _, h4, h5, _⟩ := down_packet_lazy_desync7_ok exPL_ok hq (by rw [desyncD_client]; exact exWL_inpkt_rD.1)
    (by rw [desyncD_client]; exact exWL_inpkt_rD.2) (demoFrame 2 30) (by rw [hsl.1, exWL_fragsize]; decide) hok
  rw [hsl.1, exWL_fragsize, ex_acceptable_down_lazy.2, desyncD_client, exWL_sps] at h1
  have ht : exWL.tunS = [] ∧ exWL.tunC = [] := by decide +kernel
  have hi : tunImage (demoFrame 2 30) = demoFrame 2 30 := by decide
  exact ⟨w', h1, h2, by rw [h4, (desyncD_tun _ _ _).1, ht.2, hi]; rfl, by rw [h5, (desyncD_tun _ _ _).2, ht.1]⟩

private theorem five_ok_rD {tunIp F : Nat} (h1 : tunIp = 0x0a000002) (h2 : F = 30) :
    ∀ f ∈ [demoFrame 2 4, demoFrame 2 30, demoFrame 2 100, demoFrame 2 5, demoFrame 2 31], DownFrameOk tunIp F f := by
  intro f hf
  simp only [List.mem_cons, List.not_mem_nil, or_false] at hf
  subst h1; subst h2
  rcases hf with rfl | rfl | rfl | rfl | rfl
  · exact ⟨by decide, by decide, by decide +kernel, by decide +kernel⟩
  · exact ⟨by decide, by decide, by decide +kernel, by decide +kernel⟩
  · exact ⟨by decide +kernel, by decide +kernel, by decide +kernel, by decide +kernel⟩
  · exact ⟨by decide, by decide, by decide +kernel, by decide +kernel⟩
  · exact ⟨by decide, by decide, by decide +kernel, by decide +kernel⟩

/-- `recovery_after_giveups_down_lazy` applied, case `inpkt.fragment = 0`: the server 5 ahead of the fresh client of `exWL`:
only the first TWO of five offered frames are lost (`d = 5, 6`); the third (`d = 7`) is taken through the weird situation -/
example :
    let fs := [demoFrame 2 4, demoFrame 2 30, demoFrame 2 100, demoFrame 2 5, demoFrame 2 31]
    lostDown' 5 true = 2 ∧ QuietLazy exPL (offerAllS 0 40 (desyncD exPL exWL 5) fs) ∧
    (offerAllS 0 40 (desyncD exPL exWL 5) fs).tunC = [demoFrame 2 100, demoFrame 2 5, demoFrame 2 31] := by
  intro fs
  have hq := ex_quiescent_lazy.desync 5
  have hsl := desyncD_slot ex_quiescent_lazy 5
  have hfr : (desyncD exPL exWL 5).cs.c.inpkt.fragment = 0 := by rw [desyncD_client]; exact exWL_inpkt_rD.1
  have hb : decide ((desyncD exPL exWL 5).cs.c.inpkt.fragment = 0) = true := by simpa using hfr
  have := recovery_after_giveups_down_lazy exPL_ok 40 (by omega) fs 5 (desyncD exPL exWL 5) hq (by omega)
    (fun _ _ => by rw [desyncD_client]; exact exWL_inpkt_rD.2) (by rw [hsl.1, exWL_fragsize]; decide)
    (five_ok_rD (by rw [hsl.2, exWL_tunIp]) (by rw [hsl.1, exWL_fragsize])) (by rw [hb]; decide)
  rw [hb] at this
  have ht : exWL.tunC = [] := by decide +kernel
  refine ⟨by decide, this.1, ?_⟩
  show (offerAllS exPL.u 40 _ fs).tunC = _
  rw [this.2.1, (desyncD_tun _ _ _).1, ht]
  decide

/-- … and case `inpkt.fragment ≠ 0` (`exWD`: the client's last packet had two fragments): the first THREE are lost -/
example :
    let fs := [demoFrame 2 4, demoFrame 2 30, demoFrame 2 100, demoFrame 2 5, demoFrame 2 31]
    lostDown' 5 false = 3 ∧ QuietLazy exPL (offerAllS 0 40 (desyncD exPL exWD 5) fs) ∧
    (offerAllS 0 40 (desyncD exPL exWD 5) fs).tunC = [demoFrame 2 30, demoFrame 2 5, demoFrame 2 31] := by
  intro fs
  have hq := ex_quiescent_after_down.desync 5
  have hsl := desyncD_slot ex_quiescent_after_down 5
  have hfr : (desyncD exPL exWD 5).cs.c.inpkt.fragment ≠ 0 := by rw [desyncD_client, exWD_facts.1]; decide
  have hb : decide ((desyncD exPL exWD 5).cs.c.inpkt.fragment = 0) = false := by simpa using hfr
  have := recovery_after_giveups_down_lazy exPL_ok 40 (by omega) fs 5 (desyncD exPL exWD 5) hq (by omega)
    (fun _ h0 => absurd h0 hfr) (by rw [hsl.1, exWD_facts.2.2.2.1]; decide)
    (five_ok_rD (by rw [hsl.2, exWD_facts.2.2.2.2]) (by rw [hsl.1, exWD_facts.2.2.2.1])) (by rw [hb]; decide)
  rw [hb] at this
  refine ⟨by decide, this.1, ?_⟩
  show (offerAllS exPL.u 40 _ fs).tunC = _
  rw [this.2.1, (desyncD_tun _ _ _).1, exWD_facts.2.1]
  decide

private theorem five_ok_imm_rD (w : W) (h1 : (Server.getUser w.srv C02.exP.u).tunIp = (Server.getUser C02.exW.srv C02.exP.u).tunIp)
    (h2 : (Server.getUser w.srv C02.exP.u).fragsize = (Server.getUser C02.exW.srv C02.exP.u).fragsize) :
    ∀ f ∈ [demoFrame 2 30, demoFrame 2 4, demoFrame 2 31, demoFrame 2 5, demoFrame 2 32],
      DownFrameOk (Server.getUser w.srv C02.exP.u).tunIp (Server.getUser w.srv C02.exP.u).fragsize f := by
  intro f hf
  simp only [List.mem_cons, List.not_mem_nil, or_false] at hf
  rw [h1, h2]
  rcases hf with rfl | rfl | rfl | rfl | rfl <;>
    exact ⟨by decide, by decide, by decide +kernel, by decide +kernel⟩

/-- `recovery_after_giveups_down_imm` applied, case `inpkt.fragment = 0`: 5 ahead of the fresh client of `C02.exW`: of five
frames the first TWO are lost, the third (`d = 7`, weird situation) and the others arrive -/
example : (offerAllS 0 40 (exD 5) [demoFrame 2 30, demoFrame 2 4, demoFrame 2 31, demoFrame 2 5, demoFrame 2 32]).tunC =
    [demoFrame 2 31, demoFrame 2 5, demoFrame 2 32] := by
  have hb : decide ((exD 5).cs.c.inpkt.fragment = 0) = true := by simpa using (exD_inpkt_rD 5).1
  have := (recovery_after_giveups_down_imm C02.exP_ok 40 (by decide) [demoFrame 2 30, demoFrame 2 4, demoFrame 2 31, demoFrame 2 5, demoFrame 2 32]
    5 (exD 5) (exD_quiet 5) (by decide) (fun _ _ => (exD_inpkt_rD 5).2) (exD_roomy 5) (by decide +kernel) (by decide +kernel)
    (five_ok_imm_rD (exD 5) rfl rfl) (by rw [hb]; decide)).2.1
  rw [hb] at this
  show (offerAllS C02.exP.u 40 (exD 5) _).tunC = _
  rw [this]
  have ht : (exD 5).tunC = [] := by decide +kernel
  rw [ht]
  decide

/-- … and case `inpkt.fragment ≠ 0` (`exDf`): the first THREE are lost -/
example : (offerAllS 0 40 (exDf 5) [demoFrame 2 30, demoFrame 2 4, demoFrame 2 31, demoFrame 2 5, demoFrame 2 32]).tunC =
    [demoFrame 2 5, demoFrame 2 32] := by
  have hfr : (exDf 5).cs.c.inpkt.fragment ≠ 0 := by decide
  have hb : decide ((exDf 5).cs.c.inpkt.fragment = 0) = false := by simpa using hfr
  have := (recovery_after_giveups_down_imm C02.exP_ok 40 (by decide) [demoFrame 2 30, demoFrame 2 4, demoFrame 2 31, demoFrame 2 5, demoFrame 2 32]
    5 (exDf 5) (exDf_quiet 5) (by decide) (fun _ h0 => absurd h0 hfr) (exDf_roomy 5) (by decide +kernel) (by decide +kernel)
    (five_ok_imm_rD (exDf 5) rfl rfl) (by rw [hb]; decide)).2.1
  rw [hb] at this
  show (offerAllS C02.exP.u 40 (exDf 5) _).tunC = _
  rw [this]
  have ht : (exDf 5).tunC = [] := by decide +kernel
  rw [ht]
  decide

end Iodine.C02L
