import IodineModel.Lemmas.C02v9
/-
Upstream transfer in immediate mode: the last fragment (three scheduler steps), the induction over the fragments, and
the whole packet.
-/
namespace Iodine.C02L
open Iodine Iodine.Gen Iodine.World

theorem promptEv_tickS (w : W) (h1 : w.up = []) (h2 : w.down = []) (t : Int) (h3 : timeoutC w = some t)
    (h4 : (timeoutS w : Int) ≤ t) : promptEv w = .tickS := by
  simp [promptEv, h1, h2, h3, h4]

theorem last_step {P : Par} (hP : P.Ok) {sl sp : Nat} {frame : List Nat} {w : W} {c0 : Client.Cli} {o f : Nat}
    (h : UpFlightS P sl sp (0x5a :: frame) w c0 o f) (h64 : (0x5a :: frame).length ≤ 65536)
    (heq : o + fragLen P ((0x5a :: frame).drop o) = (0x5a :: frame).length) (h24 : 24 ≤ frame.length)
    (hdst : Server.ipDst frame ≠ (Server.getUser w.srv P.u).tunIp) (hsl : 1 ≤ sl ∧ sl ≤ 21 := by omega) :
    ∃ w', promptSteps P.u 3 w = some w' ∧ QuietImmS P sl sp w' ∧ w'.tunS = w.tunS ++ [[0, 0, 8, 0] ++ frame.drop 4] ∧
      w'.tunC = w.tunC ∧ w'.cs.c.outpkt.seqno = c0.outpkt.seqno ∧
      (Server.getUser w'.srv P.u).tunIp = (Server.getUser w.srv P.u).tunIp ∧
      w'.cs.c.sendPingSoon = 20 ∧ w'.cs.c.selecttimeout = c0.selecttimeout ∧
      (Server.getUser w'.srv P.u).fragsize = (Server.getUser w.srv P.u).fragsize := by
  generalize hout : (0x5a :: frame) = out at h h64 heq
  obtain ⟨name, hsend, hm1, hm2, hQ⟩ := send_ready hP h.ready
  generalize hm : fragLen P (out.drop o) = m at *
  have hlast : (m == out.length - o) = true := by
    rw [beq_iff_eq]; omega
  rw [hlast] at hQ
  have hsf := sentFacts c0
  have hcst := cstat_sent h.ready
  have hup : w.up = [.query (sentState c0).chunkid P.ty name] := by rw [h.up, hsend]; rfl
  have hsq : c0.outpkt.seqno.toNat < 8 := by have := h.ready.stat.oseq; omega
  have hsqc : ((c0.outpkt.seqno.toNat : Nat) : Int) = c0.outpkt.seqno := by have := h.ready.stat.oseq; omega
  -- step 1: the server receives the last fragment and writes the packet to its tun device
  subst hout
  obtain ⟨s', evs, t, hit, hdown, htun, hal⟩ :=
    srv_recv_last hP h.srv h.idle h.ready.stat.cmc h.aged hQ h.expect hsq h.ready.hf heq h64 h24 hdst
  have hq1 : quiet P.u w = false := quiet_false_of_up _ _ _ _ hup
  have hs1 : step w (promptEv w) =
      { w with up := [], srv := s', tunS := w.tunS ++ [[0, 0, 8, 0] ++ frame.drop 4] } := by
    rw [promptEv_up w _ _ hup, step_deliverUp w _ _ hup, srvInput_query, stepS_zero { w with up := [] } _ s' evs t hit, hdown, htun]
    simp [h.down]
  generalize hw2 : ({ w with up := [], srv := s', tunS := w.tunS ++ [[0, 0, 8, 0] ++ frame.drop 4] } : W) = w2 at hs1
  have hw2cs : w2.cs = w.cs := by subst hw2; rfl
  have hw2up : w2.up = [] := by subst hw2; rfl
  have hw2down : w2.down = [] := by subst hw2; exact h.down
  have hw2srv : w2.srv = s' := by subst hw2; rfl
  generalize hc : ({ sentState c0 with sendPingSoon := 0 } : Client.Cli) = c at hsf hcst
  have hwc : w.cs = ⟨c, .tunnel⟩ := by rw [cstate_eta w.cs h.ph, h.cli, hc]
  have hlen0 : (0x5a :: frame).length ≠ 0 := by simp
  have hsending : Client.isSending c = true := by
    unfold Client.isSending
    rw [hsf.olen, h.ready.len]
    simpa using hlen0
  -- step 2: nothing in flight; the server's 20 ms timer (parked query) expires before the client's second
  have hq2 : quiet P.u w2 = false := by
    unfold World.quiet
    rw [hw2cs, hwc]
    simp [hsending]
  have hQid : (upQuery (sentState c0).chunkid P.ty name).id ≠ 0 := hQ.id
  obtain ⟨s'', evs2, tunsel, hit2, hdown2, htun2, hS2, hidle2, hfresh2, hpaged2, hin2, hout2, hoq2, htun2', hfrag2, hnow2⟩ :=
    srv_tick_ack hP hal.stat (Q := upQuery (sentState c0).chunkid P.ty name) h.ready.stat.cmc
      (h.aged.congr hal.qmem hal.qlast hal.cache hal.clast) (h.paged.congr hal.pmem hal.plast hal.cache hal.clast)
      hal.q hal.qs hal.lazy (by rw [hal.outp]; exact h.idle.out) hQ.from_ hQ.id hQ.id2 hQ.c0 hQ.c4 hQ.len5
  have htoS : timeoutS w2 = 20000 := by
    unfold timeoutS
    rw [hw2srv]
    have := congrArg (fun r => r.2.2.1) hit2
    simp only [Server.iteration] at this
    exact this
  have htoC : timeoutC w2 = some 1000000 := by
    unfold timeoutC Client.pending
    rw [hw2cs, hwc]
    simp [Client.selectOf, hsf.sps, hsending]
  have hs2 : step w2 (promptEv w2) =
      { w2 with srv := s'', down := [.ans (sentState c0).chunkid P.ty name (Server.scPkt (Server.getUser s' P.u) 0)] } := by
    rw [promptEv_tickS w2 hw2up hw2down _ htoC (by rw [htoS]; decide)]
    show stepS w2 .tick (timeoutS w2 / 1000000) = _
    rw [htoS, show (20000 : Nat) / 1000000 = 0 from rfl, stepS_zero w2 _ s'' evs2 (20000, tunsel) (by rw [hw2srv]; exact hit2),
      hdown2, htun2, hw2down]
    simp [upQuery]
  generalize hw3 : ({ w2 with srv := s'', down := [.ans (sentState c0).chunkid P.ty name (Server.scPkt (Server.getUser s' P.u) 0)] } : W) = w3 at hs2
  have hw3cs : w3.cs = w.cs := by subst hw3; exact hw2cs
  have hw3up : w3.up = [] := by subst hw3; exact hw2up
  have hw3down : w3.down = [.ans (sentState c0).chunkid P.ty name (Server.scPkt (Server.getUser s' P.u) 0)] := by subst hw3; rfl
  have hq3 : quiet P.u w3 = false := quiet_false_of_down _ _ _ _ hw3down
  -- step 3: the client receives the acknowledgement; the packet is complete
  generalize hpkt : Server.scPkt (Server.getUser s' P.u) 0 = pkt at hw3down hs2 hw3
  obtain ⟨hlen2, hdn, hus, huf⟩ := ack_hdr (x := Server.getUser s' P.u) (y := Server.getUser s' P.u) hpkt.symm
    (by rw [hal.iseq]; omega) (by rw [hal.ifrag]; have := h.ready.hf; omega) rfl hal.stat.x.oseq hal.stat.x.ofrag
  generalize hrq : (Client.Rq.mk (pkt.length : Int) (sentState c0).chunkid (answerType P.ty) 0 (name.headD 0) pkt) = rq
  have hcid : c.chunkid = (sentState c0).chunkid := by rw [← hc]
  have hdl : Client.tunnelDns c rq = Client.upstream (ackBook c) (Client.decodeHdr pkt) [] false 2 := by
    have := tunnelDns_dataless c rq (by subst hrq; show name.headD 0 = c.useridChar; rw [headD_eq_getD, hsf.useridChar, h.ready.stat.uch]; exact hQ.c0)
      (by subst hrq; exact hlen2)
      (by subst hrq; unfold Client.recentId; rw [hcid]; simp)
      hsf.sps hcst.imm (by subst hrq; show (Client.decodeHdr pkt).dnSeq = c.inpkt.seqno; rw [hdn, hal.outp, hsf.inpkt]; exact h.syncd)
    subst hrq
    exact this
  have hbk : (ackBook c).outpkt = c.outpkt := rfl
  have hdone := upstream_ack_done (ackBook c) (Client.decodeHdr pkt) [] false 2
    (by unfold Client.isSending; rw [hbk]; exact hsending)
    (by rw [hus, hal.iseq, hbk, hsf.oseq]; exact hsqc)
    (by rw [huf, hal.ifrag, hbk, hsf.ofrag, h.ready.frag])
    (by rw [hbk, hsf.ooff, hsf.osent, hsf.olen, cFragLen_ready h.ready, hm, h.ready.off, h.ready.len]; omega)
  generalize hcd : ackDone (ackBook c) = cd at hdone
  have hfp : Client.finalPing cd [] false 2 = (cd, [], .ret 2) := by simp [Client.finalPing]
  have hb := cstat_ackBook hcst
  have hcdstat : CStat P cd := by
    subst hcd
    exact ⟨hb.running, hb.conn, hb.imm, hb.uid, hb.uch, hb.td, hb.L, hb.enc, hb.ty, hb.cid, hb.cmc, hb.alive, hb.oseq, hb.iseq, hb.ifrag, hb.seed⟩
  have hstep3 : Client.cstep w3.cs (.rq rq) = (⟨cd, .tunnel⟩, [], .sel (Client.selectOf cd)) := by
    rw [hw3cs, hwc, cstep_rq c rq hcst.running hcst.alive hcst.conn, hdl, hdone, hfp]
    simp [Client.settle, Client.loopTop, hcdstat.running]
  have hnow3 : cd.now = w3.cs.c.now := by
    rw [hw3cs, hwc]; subst hcd; rfl
  have hs3 : step w3 (promptEv w3) = { w3 with down := [], cs := ⟨cd, .tunnel⟩ } := by
    rw [promptEv_down w3 _ _ hw3up hw3down, step_deliverDown w3 _ _ hw3down]
    have hci : cliInput (.ans (sentState c0).chunkid P.ty name pkt) = .rq rq := by subst hrq; rfl
    rw [hci, stepC_of _ _ _ _ _ (by exact hstep3) (by exact hnow3)]
    subst hw3
    simp [upOfEvents, tunOfCEvents, hw2up]
  refine ⟨{ w3 with down := [], cs := ⟨cd, .tunnel⟩ }, ?_, ?_, ?_, ?_, ?_, ?_, ?_, ?_, ?_⟩
  · rw [promptSteps_succ hq1, hs1, promptSteps_succ hq2, hs2, promptSteps_succ hq3, hs3]
    rfl
  · subst hw3; subst hw2
    refine ⟨rfl, hcdstat, ?_, rfl, rfl, hS2, hidle2, by rw [hoq2, hal.oq]; exact h.oq, ?_, ?_, ?_, ?_⟩
    · subst hcd; rfl
    · show (Server.getUser s'' P.u).inpacket.seqno = cd.outpkt.seqno
      rw [hin2, hal.iseq]
      subst hcd
      show _ = c.outpkt.seqno
      rw [hsf.oseq]; exact hsqc
    · show (Server.getUser s'' P.u).outpacket.seqno = cd.inpkt.seqno
      rw [hout2, hal.outp, h.syncd]
      subst hcd
      show c0.inpkt.seqno = c.inpkt.seqno
      rw [hsf.inpkt]
    · have : cd.datacmc = (c0.datacmc + 1) % 36 := by
        subst hcd; show c.datacmc = _; rw [hsf.cmc]
        have := h.ready.stat.cmc
        split <;> omega
      show Aged P (Server.getUser s'' P.u) cd.datacmc sl
      rw [this]; exact hfresh2
    · have : cd.randSeed = c0.randSeed := by subst hcd; show c.randSeed = _; exact hsf.seed
      show PAged P (Server.getUser s'' P.u) cd.randSeed sp
      rw [this]; exact hpaged2
  · subst hw3; subst hw2; rfl
  · subst hw3; subst hw2; rfl
  · subst hcd; show c.outpkt.seqno = _; exact hsf.oseq
  · subst hw3; subst hw2
    show (Server.getUser s'' P.u).tunIp = _
    rw [htun2', hal.tun]
  · show cd.sendPingSoon = 20
    rw [← hcd]
    show (if c.sendPingSoon = 0 ∨ c.sendPingSoon > 20 then 20 else c.sendPingSoon) = 20
    rw [if_pos (Or.inl hsf.sps)]
  · show cd.selecttimeout = _
    rw [← hcd]
    show c.selecttimeout = _
    exact hsf.selto
  · subst hw3; subst hw2
    show (Server.getUser s'' P.u).fragsize = _
    rw [hfrag2, hal.frag]

/-! ### all fragments -/

/-- the number of fragments `send_chunk` cuts the bytes `d` into (`fuel` ≥ `d.length` suffices) -/
def upFrags (P : Par) : Nat → List Nat → Nat
  | 0, _ => 0
  | fuel + 1, d => if d = [] then 0 else 1 + upFrags P fuel (d.drop (fragLen P d))

theorem upFrags_nil (P : Par) (fuel : Nat) : upFrags P fuel [] = 0 := by
  cases fuel <;> simp [upFrags]

theorem up_flight_run_aux {P : Par} (hP : P.Ok) {sl sp : Nat} {frame : List Nat} (h64 : (0x5a :: frame).length ≤ 65536) (h24 : 24 ≤ frame.length)
    (hsl : 1 ≤ sl ∧ sl ≤ 21) :
    ∀ (fuel : Nat) (w : W) (c0 : Client.Cli) (o f : Nat), UpFlightS P sl sp (0x5a :: frame) w c0 o f →
      ((0x5a :: frame).drop o).length ≤ fuel → f + upFrags P fuel ((0x5a :: frame).drop o) ≤ 16 →
      Server.ipDst frame ≠ (Server.getUser w.srv P.u).tunIp →
      ∃ w', promptSteps P.u (2 * upFrags P fuel ((0x5a :: frame).drop o) + 1) w = some w' ∧
        QuietImmS P sl sp w' ∧
        w'.tunS = w.tunS ++ [[0, 0, 8, 0] ++ frame.drop 4] ∧ w'.tunC = w.tunC ∧ w'.cs.c.outpkt.seqno = c0.outpkt.seqno ∧
        (Server.getUser w'.srv P.u).tunIp = (Server.getUser w.srv P.u).tunIp ∧
        w'.cs.c.sendPingSoon = 20 ∧ w'.cs.c.selecttimeout = c0.selecttimeout ∧
        (Server.getUser w'.srv P.u).fragsize = (Server.getUser w.srv P.u).fragsize := by
  intro fuel
  induction fuel with
  | zero =>
    intro w c0 o f h hl
    have := h.ready.ho
    simp only [List.length_drop] at hl
    omega
  | succ fuel ih =>
    intro w c0 o f h hl hf hdst
    have hne : (0x5a :: frame).drop o ≠ [] := by
      intro hc
      have := congrArg List.length hc
      simp only [List.length_drop, List.length_nil] at this
      have := h.ready.ho
      omega
    obtain ⟨_, _, hm1, hm2, _⟩ := send_ready hP h.ready
    have hu : upFrags P (fuel + 1) ((0x5a :: frame).drop o) =
        1 + upFrags P fuel (((0x5a :: frame).drop o).drop (fragLen P ((0x5a :: frame).drop o))) := by
      simp [upFrags, hne]
    rw [List.drop_drop] at hu
    rw [hu] at hf ⊢
    by_cases hlast : o + fragLen P ((0x5a :: frame).drop o) = (0x5a :: frame).length
    · -- last fragment
      have hnil : (0x5a :: frame).drop (o + fragLen P ((0x5a :: frame).drop o)) = [] := by
        rw [hlast]; exact List.drop_length
      rw [hnil, upFrags_nil]
      obtain ⟨w', h1, h2, h3, h4, h5, h6, h7, h8, h9⟩ := last_step hP h h64 hlast h24 hdst
      exact ⟨w', h1, h2, h3, h4, h5, h6, h7, h8, h9⟩
    · -- one more fragment, then the rest
      have hlt : o + fragLen P ((0x5a :: frame).drop o) < (0x5a :: frame).length := by omega
      have hg1 : 1 ≤ upFrags P fuel ((0x5a :: frame).drop (o + fragLen P ((0x5a :: frame).drop o))) := by
        cases fuel with
        | zero => simp only [List.length_drop] at hl; omega
        | succ k =>
          have : (0x5a :: frame).drop (o + fragLen P ((0x5a :: frame).drop o)) ≠ [] := by
            intro hc
            have := congrArg List.length hc
            simp only [List.length_drop, List.length_nil] at this
            omega
          simp [upFrags, this]
      obtain ⟨w1, c1, hs, hfl, ht1, ht2, hsq, htip, hselm, hfrm⟩ := mid_step hP h h64 hlt (by omega)
      obtain ⟨w', h1, h2, h3, h4, h5, h6, h7, h8, h9⟩ := ih w1 c1 _ _ hfl
        (by simp only [List.length_drop] at hl ⊢; omega) (by omega) (by rw [htip]; exact hdst)
      refine ⟨w', ?_, ?_, ?_, ?_, ?_, ?_, h7, by rw [h8, hselm], by rw [h9, hfrm]⟩
      · have := promptSteps_add P.u 2 (2 * upFrags P fuel ((0x5a :: frame).drop (o + fragLen P ((0x5a :: frame).drop o))) + 1) w w1 hs
        rw [h1] at this
        rw [← this]
        congr 1
        omega
      · exact h2
      · rw [h3, ht1]
      · rw [h4, ht2]
      · rw [h5, hsq]
      · rw [h6, htip]

theorem up_flight_run {P : Par} (hP : P.Ok) {sl sp : Nat} {frame : List Nat} (h64 : (0x5a :: frame).length ≤ 65536) (h24 : 24 ≤ frame.length)
    (fuel : Nat) (w : W) (c0 : Client.Cli) (o f : Nat) (hfl : UpFlightS P sl sp (0x5a :: frame) w c0 o f)
    (hlen : ((0x5a :: frame).drop o).length ≤ fuel) (hfr : f + upFrags P fuel ((0x5a :: frame).drop o) ≤ 16)
    (hdst : Server.ipDst frame ≠ (Server.getUser w.srv P.u).tunIp) (hsl : 1 ≤ sl ∧ sl ≤ 21 := by omega) :
    ∃ w', promptSteps P.u (2 * upFrags P fuel ((0x5a :: frame).drop o) + 1) w = some w' ∧
      QuietImmS P sl sp w' ∧
      w'.tunS = w.tunS ++ [[0, 0, 8, 0] ++ frame.drop 4] ∧ w'.tunC = w.tunC ∧ w'.cs.c.outpkt.seqno = c0.outpkt.seqno ∧
      (Server.getUser w'.srv P.u).tunIp = (Server.getUser w.srv P.u).tunIp ∧
      w'.cs.c.sendPingSoon = 20 ∧ w'.cs.c.selecttimeout = c0.selecttimeout ∧
      (Server.getUser w'.srv P.u).fragsize = (Server.getUser w.srv P.u).fragsize :=
  up_flight_run_aux hP h64 h24 hsl fuel w c0 o f hfl hlen hfr hdst

/-- **One packet upstream, immediate mode.**  From a quiescent joint state, a frame offered to the client is cut into
`g` fragments; after `2·g + 1` steps of the prompt schedule the joint state is quiescent again, the server has written
exactly that frame (with the tun header rewritten) to its tun device and the client nothing. -/
theorem up_packet_imm {P : Par} (hP : P.Ok) {sl sp : Nat} {w : W} (hq : QuietImmS P sl sp w) (frame : List Nat)
    (h24 : 24 ≤ frame.length) (hl : frame.length < 65536) (hb : Codec.Bytes frame)
    (hdst : Server.ipDst frame ≠ (Server.getUser w.srv P.u).tunIp)
    (hg16 : upFrags P (frame.length + 1) (0x5a :: frame) ≤ 16) (hsl : 1 ≤ sl ∧ sl ≤ 21 := by omega) :
    ∃ w', promptSteps P.u (2 * upFrags P (frame.length + 1) (0x5a :: frame) + 1) (step w (.offerC frame)) = some w' ∧
      QuietImmS P sl sp w' ∧
      w'.tunS = w.tunS ++ [[0, 0, 8, 0] ++ frame.drop 4] ∧ w'.tunC = w.tunC ∧
      (Server.getUser w'.srv P.u).tunIp = (Server.getUser w.srv P.u).tunIp ∧
      w'.cs.c.sendPingSoon = 20 ∧ w'.cs.c.selecttimeout = w.cs.c.selecttimeout ∧
      (Server.getUser w'.srv P.u).fragsize = (Server.getUser w.srv P.u).fragsize := by
  have hne : frame ≠ [] := by intro hc; rw [hc] at h24; simp at h24
  obtain ⟨w1, hw1, hfl, ht1, ht2⟩ := up_offer hP hq frame hne hl hb
  have hsrv : w1.srv = w.srv := by
    rw [← hw1]
    have hsel : tunSelC w = true := by
      unfold tunSelC Client.pending
      rw [hq.ph]
      simp [Client.selectOf, hq.idleC]
    rw [step_offerC w frame hsel]
    unfold stepC
    have : (Client.cstep w.cs (.tun frame)).1.c.now = w.cs.c.now := by
      have := hfl.cli
      rw [← hw1, step_offerC w frame hsel] at this
      have h2 : (stepC w (.tun frame)).cs = (Client.cstep w.cs (.tun frame)).1 := rfl
      rw [h2] at this
      rw [this]
      exact (sentFacts _).now
    simp only [this, Nat.sub_self, Nat.add_zero]
  obtain ⟨w', h1, h2, h3, h4, _, h6, h7, h8, h9⟩ := up_flight_run hP (by simp; omega) h24 (frame.length + 1) w1 _ 0 0 hfl
    (by simp) (by simpa using hg16) (by rw [hsrv]; exact hdst)
  rw [hw1]
  exact ⟨w', by simpa using h1, h2, by rw [h3, ht1], by rw [h4, ht2], by rw [h6, hsrv], h7, h8, by rw [h9, hsrv]⟩


/-! ### sequences of packets -/

/-- what a frame must satisfy to be carried upstream as one packet of at most 16 fragments and be written to the
server's tun device: an IP packet (at least the 4-byte tun header and a 20-byte IP header), shorter than 64 KiB, made of
bytes, not addressed to the client's own tunnel address -/
structure UpFrameOk (P : Par) (tunIp : Nat) (frame : List Nat) : Prop where
  h24 : 24 ≤ frame.length
  hl : frame.length < 65536
  bytes : Codec.Bytes frame
  dst : Server.ipDst frame ≠ tunIp
  frags : upFrags P (frame.length + 1) (0x5a :: frame) ≤ 16

/-- what the server writes to its tun device for a frame: the frame with the 4-byte tun header rewritten -/
def tunImage (frame : List Nat) : List Nat := [0, 0, 8, 0] ++ frame.drop 4

/-- **A sequence of packets upstream, immediate mode**: each frame is offered after the previous one was delivered;
all of them arrive exactly once, in order, and the joint state is quiescent again. -/
theorem up_sequence_imm_aux {P : Par} (hP : P.Ok) (fuel : Nat) (hfuel : 33 ≤ fuel) {sl sp : Nat}
    (hsl : 1 ≤ sl ∧ sl ≤ 21) :
    ∀ (frames : List (List Nat)) (w : W), QuietImmS P sl sp w →
      (∀ f ∈ frames, UpFrameOk P (Server.getUser w.srv P.u).tunIp f) →
      QuietImmS P sl sp (offerAllC P.u fuel w frames) ∧
      (offerAllC P.u fuel w frames).tunS = w.tunS ++ frames.map tunImage ∧
      (offerAllC P.u fuel w frames).tunC = w.tunC := by
  intro frames
  induction frames with
  | nil => intro w hq _; exact ⟨hq, by simp [offerAllC], rfl⟩
  | cons f fs ih =>
    intro w hq hok
    have hf := hok f List.mem_cons_self
    obtain ⟨w', h1, h2, h3, h4, h5, _⟩ := up_packet_imm hP hq f hf.h24 hf.hl hf.bytes hf.dst hf.frags
    have hrun : runPrompt P.u fuel (step w (.offerC f)) = w' :=
      runPrompt_of_steps P.u _ _ _ h1 h2.quiet fuel (by have := hf.frags; omega)
    have := ih w' h2 (fun g hg => by rw [h5]; exact hok g (List.mem_cons_of_mem _ hg))
    unfold offerAllC
    rw [hrun]
    refine ⟨this.1, ?_, ?_⟩
    · rw [this.2.1, h3]; simp [tunImage]
    · rw [this.2.2, h4]

theorem up_sequence_imm {P : Par} (hP : P.Ok) (fuel : Nat) (hfuel : 33 ≤ fuel) {sl sp : Nat}
    (frames : List (List Nat)) (w : W) (hq : QuietImmS P sl sp w)
    (hok : ∀ f ∈ frames, UpFrameOk P (Server.getUser w.srv P.u).tunIp f) (hsl : 1 ≤ sl ∧ sl ≤ 21 := by omega) :
    QuietImmS P sl sp (offerAllC P.u fuel w frames) ∧
    (offerAllC P.u fuel w frames).tunS = w.tunS ++ frames.map tunImage ∧
    (offerAllC P.u fuel w frames).tunC = w.tunC :=
  up_sequence_imm_aux hP fuel hfuel hsl frames w hq hok

end Iodine.C02L
