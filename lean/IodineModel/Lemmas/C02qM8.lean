import IodineModel.Lemmas.C02qM6
/-
C02 phase 2 / DOWNSTREAM, LAZY mode, desynchronised — part 8: SEQUENCES of packets offered to the server from a desynchronised
quiescent state (`recovery_after_giveups_down_lazy_partial`): the first `lostDown d` packets are lost, all the others are
delivered exactly once and in order, and the joint state is synchronised (`QuietLazy`) again.
PARTIAL: for `d ≥ 4` the client's current fragment number is assumed to be non-zero (the last packet it received had more
than one fragment), so that at `d = 7` the "duplicate fragment" branch applies.  With fragment number 0 the client's "weird
situation" branch takes the packet at `d = 7` (one packet fewer is lost: `desync_drops_new_packets_down_lazy`, `k = 5, 6, 7`);
that branch is not covered by the general theorems here.
-/
namespace Iodine.C02L
open Iodine Iodine.Gen Iodine.World

/-- how many of the next packets are lost when the server is `d` ahead (client's fragment number non-zero) -/
def lostDown (d : Nat) : Nat := if d ≤ 3 then 0 else 8 - d

theorem dropStepsL_le (sps g : Nat) : dropStepsL sps g ≤ 21 := by
  unfold dropStepsL cycleSteps
  split <;> split <;> omega

theorem recovery_after_giveups_down_lazy_partial {P : Par} (hP : P.Ok) (fuel : Nat) (hfuel : 33 ≤ fuel) :
    ∀ (frames : List (List Nat)) (d : Nat) (w : W), QuietLazyD P 0 d w → d < 8 → (4 ≤ d → w.cs.c.inpkt.fragment ≠ 0) →
      0 < (Server.getUser w.srv P.u).fragsize →
      (∀ f ∈ frames, DownFrameOk (Server.getUser w.srv P.u).tunIp (Server.getUser w.srv P.u).fragsize f) →
      lostDown d < frames.length →
      QuietLazy P (offerAllS P.u fuel w frames) ∧
      (offerAllS P.u fuel w frames).tunC = w.tunC ++ (frames.drop (lostDown d)).map tunImage ∧
      (offerAllS P.u fuel w frames).tunS = w.tunS := by
  intro frames
  induction frames with
  | nil => intro d w _ _ _ _ _ hl; simp at hl
  | cons f fs ih =>
    intro d w hq hd8 hfr hF hok hl
    have hf := hok f List.mem_cons_self
    by_cases hd : d ≤ 3
    · -- delivered; synchronised from here on
      have hl0 : lostDown d = 0 := by unfold lostDown; rw [if_pos hd]
      obtain ⟨w', h1, h2, _, h4, h5, h6, h7⟩ := down_packet_lazy_desync_ok hP hq hd f hF hf
      have hsteps : downStepsL w.cs.c.sendPingSoon
          (downFrags (Server.getUser w.srv P.u).fragsize (f.length + 1) (f.length + 1)) ≤ fuel := by
        have := hf.frags
        have := downStepsL_le w.cs.c.sendPingSoon (downFrags (Server.getUser w.srv P.u).fragsize (f.length + 1) (f.length + 1))
        omega
      have hrun : runPrompt P.u fuel (step w (.offerS f)) = w' := runPrompt_of_steps P.u _ _ _ h1 h2.quiet fuel hsteps
      have := down_sequence_lazy hP fuel hfuel fs w' h2 (by rw [h6]; exact hF)
        (fun g hg => by rw [h6, h7]; exact hok g (List.mem_cons_of_mem _ hg))
      unfold offerAllS
      rw [hrun, hl0]
      refine ⟨this.1, ?_, ?_⟩
      · rw [this.2.1, h4]; simp
      · rw [this.2.2, h5]
    · -- lost
      have hd4 : 4 ≤ d := by omega
      have hl1 : lostDown d = 8 - d := by unfold lostDown; rw [if_neg hd]
      have hdd : (4 ≤ d ∧ d ≤ 6) ∨ (d = 7 ∧ w.cs.c.inpkt.fragment ≠ 0) := by
        by_cases h7 : d = 7
        · exact Or.inr ⟨h7, hfr hd4⟩
        · exact Or.inl ⟨hd4, by omega⟩
      obtain ⟨w', h1, h2, _, h4, h5, h6, h7, h8⟩ := down_packet_lazy_desync_drop hP hq hdd f hF hf
      have hsteps : dropStepsL w.cs.c.sendPingSoon
          (downFrags (Server.getUser w.srv P.u).fragsize (f.length + 1) (f.length + 1)) ≤ fuel := by
        have := dropStepsL_le w.cs.c.sendPingSoon (downFrags (Server.getUser w.srv P.u).fragsize (f.length + 1) (f.length + 1))
        omega
      have hrun : runPrompt P.u fuel (step w (.offerS f)) = w' := runPrompt_of_steps P.u _ _ _ h1 h2.quiet fuel hsteps
      have hok' : ∀ g ∈ fs, DownFrameOk (Server.getUser w'.srv P.u).tunIp (Server.getUser w'.srv P.u).fragsize g :=
        fun g hg => by rw [h6, h7]; exact hok g (List.mem_cons_of_mem _ hg)
      unfold offerAllS
      rw [hrun]
      by_cases h7' : d = 7
      · -- synchronised again
        subst h7'
        have hq0 : QuietLazy P w' := quietLazyD_zero.1 h2
        have := down_sequence_lazy hP fuel hfuel fs w' hq0 (by rw [h6]; exact hF) hok'
        rw [hl1]
        refine ⟨this.1, ?_, ?_⟩
        · rw [this.2.1, h4]; rfl
        · rw [this.2.2, h5]
      · have hmod : (d + 1) % 8 = d + 1 := by omega
        rw [hmod] at h2
        have hl2 : lostDown (d + 1) = 8 - d - 1 := by unfold lostDown; rw [if_neg (by omega)]; omega
        have := ih (d + 1) w' h2 (by omega) (fun _ => by rw [h8]; exact hfr hd4) (by rw [h6]; exact hF) hok'
          (by rw [hl2]; simp only [List.length_cons] at hl; omega)
        refine ⟨this.1, ?_, ?_⟩
        · have hdrop : (f :: fs).drop (8 - d) = fs.drop (8 - d - 1) := by
            obtain ⟨m, hm⟩ : ∃ m, 8 - d = m + 1 := ⟨8 - d - 1, by omega⟩
            rw [hm]; simp
          rw [this.2.1, h4, hl2, hl1, hdrop]
        · rw [this.2.2, h5]

/-! ### non-vacuity -/

/-- `exWL` after one downstream packet of two fragments: quiescent, the client's fragment number is 1 -/
def exWD : W := runPrompt 0 40 (step exWL (.offerS (demoFrame 2 30)))

theorem ex_quiescent_after_down : QuietLazy exPL exWD := by
  obtain ⟨w', h1, _, h3, _⟩ := clean_path_downstream_lazy exPL_ok ex_quiescent_lazy exWL_sps (demoFrame 2 30)
    (by rw [exWL_fragsize]; decide) ex_acceptable_down_lazy.1
  have := h1 40 (by rw [exWL_fragsize, ex_acceptable_down_lazy.2]; omega)
  have e : exWD = w' := this
  rw [e]; exact h3

theorem exWD_facts : exWD.cs.c.inpkt.fragment = 1 ∧ exWD.tunC = [demoFrame 2 30] ∧ exWD.tunS = [] ∧
    (Server.getUser exWD.srv exPL.u).fragsize = 30 ∧ (Server.getUser exWD.srv exPL.u).tunIp = 0x0a000002 := by decide +kernel

/-- the theorem applied: with the server 5 ahead of a client whose fragment number is 1, the first THREE of five offered frames
(of one, two and five fragments) are lost (`d = 5, 6, 7`), the last two arrive, in order; synchronised afterwards -/
example :
    let fs := [demoFrame 2 4, demoFrame 2 30, demoFrame 2 100, demoFrame 2 5, demoFrame 2 31]
    lostDown 5 = 3 ∧ QuietLazy exPL (offerAllS 0 40 (desyncD exPL exWD 5) fs) ∧
    (offerAllS 0 40 (desyncD exPL exWD 5) fs).tunC = [demoFrame 2 30, demoFrame 2 5, demoFrame 2 31] := by
  intro fs
  have hq := ex_quiescent_after_down.desync 5
  have hsl := desyncD_slot ex_quiescent_after_down 5
  have hok : ∀ f ∈ fs, DownFrameOk (Server.getUser (desyncD exPL exWD 5).srv exPL.u).tunIp
      (Server.getUser (desyncD exPL exWD 5).srv exPL.u).fragsize f := by
    intro f hf
    simp only [fs, List.mem_cons, List.not_mem_nil, or_false] at hf
    rw [hsl.1, hsl.2, exWD_facts.2.2.2.1, exWD_facts.2.2.2.2]
    rcases hf with rfl | rfl | rfl | rfl | rfl
    · exact ⟨by decide, by decide, by decide +kernel, by decide +kernel⟩
    · exact ⟨by decide, by decide, by decide +kernel, by decide +kernel⟩
    · exact ⟨by decide +kernel, by decide +kernel, by decide +kernel, by decide +kernel⟩
    · exact ⟨by decide, by decide, by decide +kernel, by decide +kernel⟩
    · exact ⟨by decide, by decide, by decide +kernel, by decide +kernel⟩
  have := recovery_after_giveups_down_lazy_partial exPL_ok 40 (by omega) fs 5 (desyncD exPL exWD 5) hq (by omega)
    (fun _ => by rw [desyncD_client, exWD_facts.1]; decide) (by rw [hsl.1, exWD_facts.2.2.2.1]; decide) hok (by decide)
  refine ⟨by decide, this.1, ?_⟩
  show (offerAllS exPL.u 40 _ fs).tunC = _
  rw [this.2.1, (desyncD_tun _ _ _).1, exWD_facts.2.1]
  decide

end Iodine.C02L
