import IodineModel.Lemmas.DownstreamE2E
import IodineModel.Lemmas.MxServer
/-
End-to-end lemmas for C09, MX / SRV.
-/
namespace Iodine.Downstream
open Iodine Iodine.Codec Iodine.Encoding Iodine.Wire Iodine.Wire.Strict Iodine.Wire.Put Iodine.Wire.DnsEncode
open Iodine.Server.WriteDns Iodine.Client.ReadDns Iodine.C10

/-- the host names of the MX/SRV answer for the payload `p` -/
def mxNamesOf (td : Td) (p : List Nat) (dn : Nat) : List (List Nat) := (mxItems (p.length + 1) td p dn).map (·.1)

theorem mxSize_le (ty : Nat) (dns : List (List Nat)) (h : ∀ d ∈ dns, d.length ≤ 253) :
    mxSize ty dns ≤ 273 * dns.length := by
  induction dns with
  | nil => simp [mxSize]
  | cons d r ih =>
    rw [mxSize_cons]
    have := h d (by simp)
    have := ih (fun x hx => h x (by simp [hx]))
    simp only [List.length_cons]
    split <;> omega

theorem writeDns_mx (td : Td) (htd : TdOk td) (id ty : Nat) (qn p : List Nat) (dn : Nat) (hty : ty = 15 ∨ ty = 33)
    (hqn : LegalName qn) (hpb : Codec.Bytes p) (hp1 : 1 ≤ p.length) (hp : p.length ≤ 4096) :
    (writeDns td (id, ty, qn) p dn).2 =
      some (ansPkt id ty (mxNamesOf td p dn).length qn (mxRecs ty 1 ((mxNamesOf td p dn).map labels))) := by
  have nf := nameFacts hqn
  have h253 := nf.le253
  have hpne : p ≠ [] := by intro h; rw [h] at hp1; simp at hp1
  have hbuild := mxBuild_eq dn (p.length + 1) td 0 p htd hpb hpne (by omega) (by omega)
  have hprops := mxItems_props dn (p.length + 1) td p htd hpb (by omega) hpne
  have hcount := mxItems_length dn (p.length + 1) td p (by omega) hpne
  have hne := mxItems_ne_nil dn p.length td p
  unfold writeDns writeDnsR
  simp only []
  rw [if_neg (by rcases hty with h | h <;> simp [h, T_CNAME, T_A]),
    if_pos (by rcases hty with h | h <;> simp [h, T_MX, T_SRV])]
  generalize hmb : mxBuild (p.length + 1) td 0 p dn = res at hbuild
  obtain ⟨td', o⟩ := res
  simp only at hbuild
  subst hbuild
  simp only []
  unfold mxNamesOf
  generalize mxItems (p.length + 1) td p dn = items at hprops hcount hne ⊢
  have hleg : ∀ x ∈ items.map (·.1), LegalName x := by
    intro x hx
    simp only [List.mem_map] at hx
    obtain ⟨it, hit, rfl⟩ := hx
    exact (hprops it hit).2
  generalize hns : items.map (·.1) = names at hleg ⊢
  have hnl : names.length = items.length := by rw [← hns]; simp
  obtain ⟨d, dns, rfl⟩ : ∃ d dns, names = d :: dns := by
    cases names with
    | nil => rw [List.length_nil] at hnl; exact absurd (List.eq_nil_of_length_eq_zero hnl.symm) hne
    | cons d dns => exact ⟨d, dns, rfl⟩
  have hnames : mxNames (mxPack (d :: dns) ++ []) = d :: dns := by
    apply mxNames_pack
    intro x hx
    have hl := hleg x hx
    refine ⟨?_, fun c hc => (hl.2.1 c hc).1⟩
    intro he; subst he
    have := hl.2.2 [] (by simp [labels]); simp at this
  rw [List.append_nil] at hnames
  have hlenrec := mxRecs_length ty (d :: dns) hleg 1
  have hsz := mxSize_le ty (d :: dns) (fun x hx => (hleg x hx).1)
  have htoks : (d :: dns).map tokens = (d :: dns).map labels :=
    List.map_congr_left (fun x hx => (nameFacts (hleg x hx)).tok)
  have hbr : ∀ b : Buf, b.cap = 65536 → b.pos = 12 + labLen (tokens qn) + 5 →
      ansBranch 65536 ty b (mxPack (d :: dns)) 65536 =
        .ok (b.app (mxRecs ty 1 ((d :: dns).map tokens)), (d :: dns).length) := by
    intro b hcap hpos
    unfold ansBranch
    rw [if_neg (by rcases hty with h | h <;> simp [h, T_CNAME, T_A]),
      if_pos (by simpa [T_MX, T_SRV] using hty)]
    unfold ansMx
    simp only [hnames]
    rw [DnsEncode.mxLoop_ok 65536 ty (d :: dns) 1 b hcap (fun nm hnm => (nameFacts (hleg nm hnm)).le63)
      (by rw [hlenrec, hpos, nf.tok, nf.len]; omega)]
    simp
  have henc := dnsEncodeAnswer_of 65536 id ty qn (mxPack (d :: dns)) 65536 nf.le63
    (by rw [nf.tok, nf.len]; omega) _ _ hbr
  rw [henc, nf.tok, htoks]
  simp only []
  rw [if_neg (by simp)]
  rfl

/-- length of the first host name of the MX/SRV answer (`strlen(buf)` on the client) -/
def mxFirstLen (p : List Nat) (dn : Nat) : Nat := nameLenOf (enc (nameCodec dn).2 245 p).chars.length

theorem mxItems_first (fuel : Nat) (td : Td) (data : List Nat) (dn : Nat) :
    ∀ it rest, mxItems (fuel + 1) td data dn = it :: rest → it.1.length = mxFirstLen data dn := by
  intro it rest h
  have hlen := nameenc_length td 255 (by omega) data dn
  simp only [mxItems] at h
  split at h
  · simp only [List.cons.injEq] at h
    rw [← h.1]; exact hlen
  · simp only [List.cons.injEq] at h
    rw [← h.1]; exact hlen

theorem read_mx (B : Nat) (td : Td) (htd : TdOk td) (id ty : Nat) (qn p : List Nat) (dn : Nat) (hid : id < 65536)
    (hty : ty = 15 ∨ ty = 33) (hqn : LegalName qn) (hpb : Codec.Bytes p) (hp1 : 1 ≤ p.length) (hp : p.length ≤ 4096)
    (hB : 4096 ≤ B) (hB2 : B ≤ 65536) :
    ∃ n0 D, readDnsWithq B (ansPkt id ty (mxNamesOf td p dn).length qn (mxRecs ty 1 ((mxNamesOf td p dn).map labels))) =
        .ok ⟨(D.length : Nat), id, ty, 0, n0, D⟩ ∧ D <+: p ∧ (joinedLen (mxNamesOf td p dn) ≤ B → D = p) ∧
        (B < joinedLen (mxNamesOf td p dn) → D.length < p.length) ∧
        D = mxExpected (mxFirstLen p dn) B (mxItems (p.length + 1) td p dn) 0 0 := by
  have h253 := (nameFacts hqn).le253
  have hpne : p ≠ [] := by intro h; rw [h] at hp1; simp at hp1
  have hprops := mxItems_props dn (p.length + 1) td p htd hpb (by omega) hpne
  have hcount := mxItems_length dn (p.length + 1) td p (by omega) hpne
  have hne := mxItems_ne_nil dn p.length td p
  have hflat := mxItems_flatten dn (p.length + 1) td p (by omega) hpne
  have hunif := mxItems_uniform dn (p.length + 1) td p (by omega) hpne
  have hfirstlen := mxItems_first p.length td p dn
  unfold mxNamesOf
  generalize mxItems (p.length + 1) td p dn = items at hprops hcount hne hflat hunif hfirstlen ⊢
  obtain ⟨it, rest, rfl⟩ : ∃ it rest, items = it :: rest := by
    cases items with
    | nil => exact absurd rfl hne
    | cons a b => exact ⟨a, b, rfl⟩
  have hunif1 := uniform_first _ it rest hunif
  have hleg : ∀ x ∈ (it :: rest).map (·.1), LegalName x := by
    intro x hx
    simp only [List.mem_map] at hx
    obtain ⟨i, hi, rfl⟩ := hx
    exact (hprops i hi).2
  have hnl : ((it :: rest).map (·.1)).length = (it :: rest).length := by simp
  have hcnt : (it :: rest).length ≤ 27 := by omega
  have hlen1 : (it :: rest).length ≥ 1 := by simp
  obtain ⟨names, hns⟩ : ∃ names, names = (it :: rest).map (·.1) := ⟨_, rfl⟩
  rw [← hns] at hleg hnl ⊢
  -- sizes
  have hlenrec := mxRecs_length ty names hleg 1
  have hsz := mxSize_le ty names (fun x hx => (hleg x hx).1)
  have hge := mxSize_ge ty names
  have htoks : names.map tokens = names.map labels :=
    List.map_congr_left (fun x hx => (nameFacts (hleg x hx)).tok)
  rw [htoks] at hlenrec
  have hlen := ansPkt_length id ty names.length qn (mxRecs ty 1 (names.map labels)) hqn
  rw [hlenrec] at hlen
  have hty' : ty < 65536 := by rcases hty with h | h <;> omega
  rw [readDnsWithq_eq _ _ (by rw [hlen]; omega),
    decode_front B id ty _ qn _ hid hty' (by omega) (by omega) hqn (by rw [hlen]; omega)]
  simp only []
  rw [if_neg (by rcases hty with h | h <;> simp [h]), if_neg (by rcases hty with h | h <;> simp [h]), if_pos hty]
  have hmx := answerMx_rt (pkt := ansPkt id ty names.length qn (mxRecs ty 1 (names.map labels)))
    (by rw [hlen]; omega) (by rw [hlen]; omega) B (by omega) hB2
    { rv := 0, id := id, rcode := 0, name := Wire.cstr [(qn ++ [0]).headD 0] } ty hty
    (names.map labels) (qn.length + 18) []
    (at_rrs id ty _ qn _ hqn) (by intro h; have h2 := congrArg List.length h; rw [List.length_map, List.length_nil] at h2; omega)
    (by rw [List.length_map]; omega) (by
      intro t ht
      simp only [List.mem_map] at ht
      obtain ⟨n, hn, rfl⟩ := ht
      have hl := hleg n hn
      have nd := nameFacts hl
      rw [joinDots_labels]
      refine ⟨nd.ok, nd.le253, by rw [nd.len]; have := nd.le253; omega, ?_, fun c hc => (hl.2.1 c hc).1⟩
      intro he; subst he
      have := hl.2.2 [] (by simp [labels]); simp at this)
  rw [List.length_map] at hmx
  rw [hmx]
  have hjd : (names.map labels).map joinDots = names := by
    rw [List.map_map]
    conv => rhs; rw [← List.map_id names]
    apply List.map_congr_left
    intro x _
    simp [joinDots_labels]
  rw [hjd, hns]
  simp only [bind_ok]
  -- the first name fits whole: `strlen(buf)` is its length
  have hit := hprops it (by simp)
  have hitl : it.1.length ≤ 253 := hit.2.1
  have hRdef : mxOutPure B ((it :: rest).map (·.1)) [] =
      mxOutPure B (rest.map (·.1)) (it.1 ++ [0]) := by
    simp only [List.map_cons, mxOutPure, List.length_nil]
    rw [if_neg (by omega)]
    have : min it.1.length (B - (0 + 2)) = it.1.length := by omega
    rw [this, List.take_of_length_le (Nat.le_refl _)]
    simp
  obtain ⟨X, hX⟩ := mxOutPure_prefix B (rest.map (·.1)) (it.1 ++ [0])
  have hrun := mxParts_run it.1.length B hB2 (it :: rest) [] [] ((mxOutPure B ((it :: rest).map (·.1)) []).length + 1)
    hunif1 (fun i hi => (hprops i hi).1) (by simp only [List.length_nil]; omega)
    (by rw [hflat]; simp only [List.length_nil]; omega) (by simp only [List.length_nil]; omega)
  obtain ⟨D, hD, hpre, hex1, hex2, hexp⟩ := hrun
  have hex := And.intro hex1 hex2
  rw [hflat] at hpre hex
  rw [hfirstlen it rest rfl] at hexp
  generalize hR : mxOutPure B ((it :: rest).map (·.1)) [] = R at hD hRdef ⊢
  have hRx : R = it.1 ++ 0 :: X := by rw [hRdef, ← hX]; simp
  have hfirst : (Wire.cstr (R ++ [0])).length = it.1.length := by
    rw [hRx, List.append_assoc]
    rw [show (0 :: X) ++ [0] = 0 :: (X ++ [0]) from rfl, Wire.cstr_append_nul it.1 _ hit.1.nonul]
  have hRpos : ¬ ((R.length : Int) ≤ 0) := by
    rw [hRx]; simp only [List.length_append, List.length_cons]; omega
  simp only [List.length_nil, List.nil_append] at hD
  refine ⟨(Wire.cstr [(qn ++ [0]).headD 0]).headD 0, D, ?_, hpre, ?_, ?_, hexp⟩
  · simp only [hRpos, if_false, Int.toNat_natCast, hfirst, hD]
    rw [if_neg (by rcases hty with h | h <;> simp [h]), if_pos hty]
    have hDl : D.length ≤ B := by have := hpre.length_le; omega
    rw [List.take_of_length_le hDl]
  · intro hfit
    exact hex.1 (by simpa using hfit)
  · intro hnfit
    exact hex.2 (by simpa using hnfit)

/-! ### how long the names are, as a function of the payload length -/

/-- payload bytes in a capacity-limited name -/
def ucap (k : Nat) : Nat := k * jcap k / 8

/-- closed form of `joinedLen`: `q` full names and the last one -/
def jl (k n : Nat) : Nat :=
  (n - 1) / ucap k * (nameLenOf (jcap k) + 1) + (nameLenOf (nchars k (n - (n - 1) / ucap k * ucap k)) + 1)

theorem jcap_vals : jcap 5 = 245 ∧ jcap 6 = 244 ∧ jcap 7 = 245 ∧ ucap 5 = 153 ∧ ucap 6 = 183 ∧ ucap 7 = 214 := by decide

theorem nchars_le_iff (k n : Nat) (hk : K567 k) : nchars k n ≤ 245 ↔ n ≤ ucap k := by
  unfold nchars
  rcases hk with rfl | rfl | rfl
  · rw [jcap_vals.2.2.2.1]; omega
  · rw [jcap_vals.2.2.2.2.1]; omega
  · rw [jcap_vals.2.2.2.2.2]; omega

/-- the two branches of the capped encoder, in terms of the input length -/
theorem enc245 {c : Codec} (wf : WF c) (d : List Nat) :
    (d.length ≤ ucap c.k → (enc c 245 d).used = d.length ∧ (enc c 245 d).chars.length = nchars c.k d.length) ∧
    (ucap c.k < d.length → (enc c 245 d).used = ucap c.k ∧ (enc c 245 d).chars.length = jcap c.k) := by
  have hiff := nchars_le_iff c.k d.length wf.k_ok
  have hfl := encFull_length c d
  constructor
  · intro h
    have hm : nchars c.k d.length ≤ 245 := hiff.mpr h
    unfold enc
    simp only [hm, if_true, hfl, and_self]
  · intro h
    have hm : ¬ nchars c.k d.length ≤ 245 := fun h' => by have := hiff.mp h'; omega
    unfold enc
    simp only [hm, if_false]
    refine ⟨rfl, ?_⟩
    rw [List.length_take, hfl]
    simp only [jcap]
    split <;> omega

theorem jl_step (k n : Nat) (hk : K567 k) (h : ucap k < n) :
    jl k n = nameLenOf (jcap k) + 1 + jl k (n - ucap k) := by
  unfold jl
  rcases hk with rfl | rfl | rfl
  · rw [jcap_vals.2.2.2.1]
    have h1 : (n - 1) / 153 = (n - 153 - 1) / 153 + 1 := by rw [jcap_vals.2.2.2.1] at h; omega
    have h2 : n - (n - 1) / 153 * 153 = n - 153 - (n - 153 - 1) / 153 * 153 := by rw [jcap_vals.2.2.2.1] at h; omega
    rw [h2, h1, Nat.add_mul]; omega
  · rw [jcap_vals.2.2.2.2.1]
    have h1 : (n - 1) / 183 = (n - 183 - 1) / 183 + 1 := by rw [jcap_vals.2.2.2.2.1] at h; omega
    have h2 : n - (n - 1) / 183 * 183 = n - 183 - (n - 183 - 1) / 183 * 183 := by rw [jcap_vals.2.2.2.2.1] at h; omega
    rw [h2, h1, Nat.add_mul]; omega
  · rw [jcap_vals.2.2.2.2.2]
    have h1 : (n - 1) / 214 = (n - 214 - 1) / 214 + 1 := by rw [jcap_vals.2.2.2.2.2] at h; omega
    have h2 : n - (n - 1) / 214 * 214 = n - 214 - (n - 214 - 1) / 214 * 214 := by rw [jcap_vals.2.2.2.2.2] at h; omega
    rw [h2, h1, Nat.add_mul]; omega

theorem jl_last (k n : Nat) (hk : K567 k) (h1 : 1 ≤ n) (h : n ≤ ucap k) : jl k n = nameLenOf (nchars k n) + 1 := by
  unfold jl
  have hq : (n - 1) / ucap k = 0 := by
    rcases hk with rfl | rfl | rfl
    · rw [jcap_vals.2.2.2.1] at h ⊢; omega
    · rw [jcap_vals.2.2.2.2.1] at h ⊢; omega
    · rw [jcap_vals.2.2.2.2.2] at h ⊢; omega
  rw [hq]; simp

theorem joinedLen_items (dn : Nat) : ∀ (fuel : Nat) (td : Td) (data : List Nat), data.length ≤ fuel → data ≠ [] →
    joinedLen ((mxItems fuel td data dn).map (·.1)) = jl (nameCodec dn).2.k data.length := by
  intro fuel
  induction fuel with
  | zero => intro td data h hne; exact absurd (List.eq_nil_of_length_eq_zero (by omega)) hne
  | succ fuel ih =>
    intro td data h hne
    have hwf := (hostCodec dn).wf
    have hu := nameenc_used td 255 (by omega) data dn
    have hlen := nameenc_length td 255 (by omega) data dn
    have henc := enc245 hwf data
    have hpos : 1 ≤ data.length := by
      cases data with
      | nil => exact absurd rfl hne
      | cons a b => simp
    have hucap : 152 ≤ ucap (nameCodec dn).2.k := by
      rcases hwf.k_ok with h | h | h <;> rw [h]
      · rw [jcap_vals.2.2.2.1]; omega
      · rw [jcap_vals.2.2.2.2.1]; omega
      · rw [jcap_vals.2.2.2.2.2]; omega
    simp only [mxItems]
    by_cases hle : data.length ≤ ucap (nameCodec dn).2.k
    · obtain ⟨h1, h2⟩ := henc.1 hle
      rw [if_pos (by rw [hu, h1]; exact Nat.le_refl _)]
      simp only [joinedLen, List.map_cons, List.map_nil, List.sum_cons, List.sum_nil, hlen, h2]
      rw [jl_last _ _ hwf.k_ok hpos hle]
      rfl
    · obtain ⟨h1, h2⟩ := henc.2 (by omega)
      rw [if_neg (by rw [hu, h1]; omega)]
      have := ih (nameenc td 255 data dn).td (data.drop (nameenc td 255 data dn).used)
        (by simp only [List.length_drop]; omega) (drop_ne_nil (by rw [hu, h1]; omega))
      simp only [joinedLen, List.map_cons, List.sum_cons, hlen, h2] at this ⊢
      rw [this, List.length_drop, hu, h1, jl_step (nameCodec dn).2.k data.length hwf.k_ok (by omega)]

theorem joinedLen_mxNamesOf (td : Td) (p : List Nat) (dn : Nat) (hp1 : 1 ≤ p.length) :
    joinedLen (mxNamesOf td p dn) = jl (nameCodec dn).2.k p.length := by
  have hpne : p ≠ [] := by intro h; rw [h] at hp1; simp at hp1
  exact joinedLen_items dn (p.length + 1) td p (by omega) hpne

theorem jl_mono_step5 (n : Nat) (h : 1 ≤ n) : jl 5 n ≤ jl 5 (n + 1) := by
  unfold jl
  rw [jcap_vals.2.2.2.1, jcap_vals.1, show nameLenOf 245 = 253 by decide]
  simp only [Nat.add_sub_cancel]
  by_cases hq : n / 153 = (n - 1) / 153
  · rw [hq]
    apply Nat.add_le_add_left
    apply Nat.add_le_add_right
    apply nameLenOf_mono
    unfold nchars
    omega
  · have hq' : n / 153 = (n - 1) / 153 + 1 := by omega
    have hr : n - (n - 1) / 153 * 153 = 153 := by omega
    have hr' : n + 1 - n / 153 * 153 = 1 := by omega
    rw [hr, hr', hq', Nat.add_mul]
    have : nameLenOf (nchars 5 153) = 253 := by decide
    rw [this]
    omega

theorem jl_mono_step6 (n : Nat) (h : 1 ≤ n) : jl 6 n ≤ jl 6 (n + 1) := by
  unfold jl
  rw [jcap_vals.2.2.2.2.1, jcap_vals.2.1, show nameLenOf 244 = 252 by decide]
  simp only [Nat.add_sub_cancel]
  by_cases hq : n / 183 = (n - 1) / 183
  · rw [hq]
    apply Nat.add_le_add_left
    apply Nat.add_le_add_right
    apply nameLenOf_mono
    unfold nchars
    omega
  · have hq' : n / 183 = (n - 1) / 183 + 1 := by omega
    have hr : n - (n - 1) / 183 * 183 = 183 := by omega
    have hr' : n + 1 - n / 183 * 183 = 1 := by omega
    rw [hr, hr', hq', Nat.add_mul]
    have : nameLenOf (nchars 6 183) = 252 := by decide
    rw [this]
    omega

theorem jl_mono_step7 (n : Nat) (h : 1 ≤ n) : jl 7 n ≤ jl 7 (n + 1) := by
  unfold jl
  rw [jcap_vals.2.2.2.2.2, jcap_vals.2.2.1, show nameLenOf 245 = 253 by decide]
  simp only [Nat.add_sub_cancel]
  by_cases hq : n / 214 = (n - 1) / 214
  · rw [hq]
    apply Nat.add_le_add_left
    apply Nat.add_le_add_right
    apply nameLenOf_mono
    unfold nchars
    omega
  · have hq' : n / 214 = (n - 1) / 214 + 1 := by omega
    have hr : n - (n - 1) / 214 * 214 = 214 := by omega
    have hr' : n + 1 - n / 214 * 214 = 1 := by omega
    rw [hr, hr', hq', Nat.add_mul]
    have : nameLenOf (nchars 7 214) = 253 := by decide
    rw [this]
    omega

/-- the names never get shorter when the payload grows -/
theorem jl_mono (k : Nat) (hk : K567 k) {m n : Nat} (hm : 1 ≤ m) (hmn : m ≤ n) : jl k m ≤ jl k n := by
  induction n with
  | zero => omega
  | succ n ih =>
    by_cases h : m = n + 1
    · rw [h]; exact Nat.le_refl _
    · refine Nat.le_trans (ih (by omega)) ?_
      rcases hk with rfl | rfl | rfl
      · exact jl_mono_step5 n (by omega)
      · exact jl_mono_step6 n (by omega)
      · exact jl_mono_step7 n (by omega)

end Iodine.Downstream
