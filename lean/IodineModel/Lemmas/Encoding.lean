import IodineModel.Encoding
import IodineModel.Lemmas.Codec
/-
Helper lemmas for C08 (hostname building).
-/
namespace Iodine.Encoding
open Iodine.Codec

def NoDot (s : List Nat) : Prop := ∀ c ∈ s, c ≠ DOT

/-- Label scanner: the counter after reading `s`, `none` if a label of bad length was closed. -/
def scan : Nat → List Nat → Option Nat
  | n, [] => some n
  | n, c :: cs => if c = DOT then (if 1 ≤ n ∧ n ≤ 63 then scan 0 cs else none) else scan (n + 1) cs

theorem legalAux_append (n : Nat) (a b : List Nat) :
    legalAux n (a ++ b) = match scan n a with
      | none => false
      | some m => legalAux m b := by
  induction a generalizing n with
  | nil => simp [scan]
  | cons c cs ih =>
    simp only [List.cons_append, legalAux, scan]
    by_cases hc : c = DOT
    · by_cases hn : 1 ≤ n ∧ n ≤ 63
      · simp [hc, hn, ih]
      · simp [hc, hn]
    · simp [hc, ih]

theorem scan_append (n : Nat) (a b : List Nat) :
    scan n (a ++ b) = (scan n a).bind (fun m => scan m b) := by
  induction a generalizing n with
  | nil => simp [scan]
  | cons c cs ih =>
    simp only [List.cons_append, scan]
    by_cases hc : c = DOT
    · by_cases hn : 1 ≤ n ∧ n ≤ 63
      · simp [hc, hn, ih]
      · simp [hc, hn]
    · simp [hc, ih]

theorem scan_nodot (n : Nat) (a : List Nat) (h : NoDot a) : scan n a = some (n + a.length) := by
  induction a generalizing n with
  | nil => simp [scan]
  | cons c cs ih =>
    have hc : c ≠ DOT := h c (by simp)
    simp only [scan, hc, if_false, List.length_cons]
    rw [ih _ (fun x hx => h x (by simp [hx]))]
    congr 1; omega

/-- After a non-empty string the counter is 0 exactly when the string ends in a dot. -/
theorem scan_zero_iff_last (n : Nat) (s : List Nat) (hs : s ≠ []) (m : Nat) (h : scan n s = some m) :
    (s.getLast? = some DOT ↔ m = 0) := by
  induction s generalizing n with
  | nil => exact absurd rfl hs
  | cons c cs ih =>
    cases cs with
    | nil =>
      simp only [scan] at h
      by_cases hc : c = DOT
      · by_cases hn : 1 ≤ n ∧ n ≤ 63
        · simp [hc, hn] at h; simp [hc, h.symm]
        · simp [hc, hn] at h
      · simp [hc] at h; simp [hc]; omega
    | cons c2 cs2 =>
      rw [List.getLast?_cons_cons]
      simp only [scan] at h
      by_cases hc : c = DOT
      · by_cases hn : 1 ≤ n ∧ n ≤ 63
        · simp only [hc, hn, if_true] at h
          exact ih 0 (by simp) h
        · simp [hc, hn] at h
      · simp only [hc, if_false] at h
        exact ih (n + 1) (by simp) h

/-- Scanning a dotified dot-free string never closes a bad label, provided the label under
construction is at most 5 characters longer than the dotifier's own count. -/
theorem scan_dotifyAux (k n : Nat) (s : List Nat) (hs : NoDot s) (hk : k < 57) (hn : n ≤ k + 5) :
    ∃ m, scan n (dotifyAux k s) = some m ∧ m ≤ 61 := by
  induction s generalizing k n with
  | nil => exact ⟨n, by simp [dotifyAux, scan], by omega⟩
  | cons c cs ih =>
    have hc : c ≠ DOT := hs c (by simp)
    have hcs : NoDot cs := fun x hx => hs x (by simp [hx])
    simp only [dotifyAux]
    by_cases h57 : k + 1 = 57
    · simp only [h57, if_true, scan, hc, if_false]
      have : 1 ≤ n + 1 ∧ n + 1 ≤ 63 := by omega
      simp only [this, and_self, if_true]
      exact ih 0 0 hcs (by omega) (by omega)
    · simp only [h57, if_false, scan, hc]
      exact ih (k + 1) (n + 1) hcs (by omega) (by omega)

theorem dotifyAux_length (k : Nat) (s : List Nat) (hk : k < 57) :
    (dotifyAux k s).length = s.length + (k + s.length) / 57 := by
  induction s generalizing k with
  | nil => simp [dotifyAux]; omega
  | cons c cs ih =>
    simp only [dotifyAux]
    by_cases h57 : k + 1 = 57
    · simp only [h57, if_true, List.length_cons, ih 0 (by omega)]; omega
    · simp only [h57, if_false, List.length_cons, ih (k + 1) (by omega)]; omega

theorem undotify_dotifyAux (k : Nat) (s : List Nat) (hs : NoDot s) : undotify (dotifyAux k s) = s := by
  induction s generalizing k with
  | nil => simp [dotifyAux, undotify]
  | cons c cs ih =>
    have hc : c ≠ DOT := hs c (by simp)
    have hcs : NoDot cs := fun x hx => hs x (by simp [hx])
    have ih0 := ih 0 hcs
    have ih1 := ih (k + 1) hcs
    unfold undotify at ih0 ih1 ⊢
    simp only [dotifyAux]
    by_cases h57 : k + 1 = 57
    · simp [h57, hc, ih0]
    · simp [h57, hc, ih1]

theorem undotify_append (a b : List Nat) : undotify (a ++ b) = undotify a ++ undotify b := by
  simp [undotify]

theorem dotifyAux_ne_nil (k : Nat) (s : List Nat) (h : s ≠ []) : dotifyAux k s ≠ [] := by
  cases s with
  | nil => exact absurd rfl h
  | cons c cs => simp only [dotifyAux]; split <;> simp

end Iodine.Encoding
