import IodineModel.Lemmas.C02d6
import IodineModel.Lemmas.C02v8
/-
Downstream transfer in immediate mode: the server-side invariant and what an answered ping preserves.
-/
namespace Iodine.C02L
open Iodine Iodine.Gen Iodine.Server Iodine.World

/-- the server's side of a downstream transfer: the outpacket is `out` with seqno `sq`; `m` bytes at offset `o`
(fragment `f`) were sent and are not yet acknowledged (`m = 0`: nothing sent yet) -/
structure DownSrv (P : Par) (s : Srv) (out : List Nat) (sq : Int) (o m f : Nat) : Prop where
  stat : SStat P s
  q : (getUser s P.u).q.id = 0
  qs : (getUser s P.u).qs.id = 0
  lz : (getUser s P.u).lazy = false
  oq : (getUser s P.u).oqFilled = 0
  op : (getUser s P.u).outpacket = ⟨out.length, m, o, out, sq, (f : Int)⟩
  res : (getUser s P.u).outfragresent ≤ 1
  frag : 0 < (getUser s P.u).fragsize

/-- what an answered ping leaves of the static facts, given the new outpacket -/
theorem afterPing_stat {P : Par} {s s' : Srv} {Q : Query} {a b : Int} {pkt : List Nat} (hS : SStat P s)
    (hq : (getUser s P.u).q.id = 0) (hoq : (getUser s P.u).oqFilled = 0) (hres : (getUser s P.u).outfragresent ≤ 5)
    (hid2 : Q.id2 = 0) (hap : AfterPing P s s' Q a b pkt)
    (hos : 0 ≤ (getUser s' P.u).outpacket.seqno ∧ (getUser s' P.u).outpacket.seqno < 8)
    (hof : 0 ≤ (getUser s' P.u).outpacket.fragment ∧ (getUser s' P.u).outpacket.fragment < 16) :
    SStat P s' ∧ (getUser s' P.u).q.id = 0 ∧ (getUser s' P.u).qs = (getUser s P.u).qs ∧
    (getUser s' P.u).lazy = (getUser s P.u).lazy ∧ (getUser s' P.u).oqFilled = 0 ∧
    (getUser s' P.u).fragsize = (getUser s P.u).fragsize ∧ (getUser s' P.u).inpacket = (getUser s P.u).inpacket ∧
    (getUser s' P.u).tunIp = (getUser s P.u).tunIp ∧ (getUser s' P.u).downenc = (getUser s P.u).downenc := by
  generalize hx0 : ({ getUser s P.u with qsNew := false } : Session) = x0
  have hslot : getUser s' P.u = pingZ x0 P.u Q a b s.now := by rw [hap.slot, hx0]; rfl
  have hx0oq : x0.oqFilled = 0 := by subst hx0; exact hoq
  have hx0res : x0.outfragresent ≤ 5 := by subst hx0; exact hres
  have hr := pingZ_rest x0 P.u Q a b s.now hid2 hx0oq hx0res
  have hqq := pingZ_q x0 P.u Q a b s.now hid2 hx0oq hx0res
  rw [← hslot] at hr hqq
  have hrx : rest x0 = rest (getUser s P.u) := by subst hx0; rfl
  have hr' := hr.trans hrx
  refine ⟨⟨hap.solo, hap.td, ?_, ?_, ?_⟩, ?_, rest_qs hr', rest_lazy hr', ?_, rest_fragsize hr', rest_inpacket hr', rest_tunIp hr',
    rest_downenc hr'⟩
  · exact ⟨(rest_active hr').trans hS.x.active, (rest_authenticated hr').trans hS.x.auth, (rest_disabled hr').trans hS.x.enabled,
      (rest_conn hr').trans hS.x.conn, (rest_encoder hr').trans hS.x.enc, hos, hof,
      by rw [rest_inpacket hr']; exact hS.x.iseq, by rw [rest_inpacket hr']; exact hS.x.ifrag⟩
  · rw [hap.cfg, rest_host hr']; exact hS.host
  · rw [hap.now, hqq.2]; omega
  · rw [hqq.1]
  · rw [rest_oqFilled hr']; exact hoq

end Iodine.C02L
