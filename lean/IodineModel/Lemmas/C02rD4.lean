import IodineModel.Lemmas.C02qD8
import IodineModel.Lemmas.C02qM8
import IodineModel.Lemmas.C02rD2
import IodineModel.Lemmas.C02rD3
/-
C02 phase 3 / d7down — part 4: RECOVERY over a sequence of frames offered to the server from a desynchronised quiescent state,
WITHOUT the hypothesis `inpkt.fragment ≠ 0` of `recovery_after_giveups_down_imm_partial` (C02qD8) and
`recovery_after_giveups_down_lazy_partial` (C02qM8).  What is needed instead: when the client's fragment number is 0, its
reassembly buffer is empty (`inpkt.len = 0`) — true after every delivered packet, after a dataless adoption and in a fresh
session (C02rD5).

The number of lost packets is `lostDown' d frag0`: nothing for `d ≤ 3`; for `4 ≤ d ≤ 7` it is `8 − d` when the client's
fragment number is not 0 and `7 − d` when it is 0 — the packet that carries the client's own number (`d = 7`) is then taken
through the "weird situation" clause (`down_packet_imm_desync7_ok`, `down_packet_lazy_desync7_ok`).  A lost packet leaves the
client's `inpkt` untouched, so the case does not change along the run.
-/
namespace Iodine.C02L
open Iodine Iodine.Gen Iodine.World

/-- how many of the next packets are lost when the server's downstream number is `d` ahead; `frag0` = the client's fragment
number is 0 -/
def lostDown' (d : Nat) (frag0 : Bool) : Nat := if d ≤ 3 then 0 else if frag0 then 7 - d else 8 - d

theorem lostDown'_false (d : Nat) : lostDown' d false = lostDown d := by
  unfold lostDown' lostDown
  simp

theorem lostDown'_small (d : Nat) (b : Bool) (hd : d ≤ 3) : lostDown' d b = 0 := by
  unfold lostDown'; rw [if_pos hd]

theorem lostDown'_seven_true : lostDown' 7 true = 0 := rfl

theorem lostDown'_seven_false : lostDown' 7 false = 1 := rfl

theorem lostDown'_step (d : Nat) (b : Bool) (h4 : 4 ≤ d) (h6 : d ≤ 6) : lostDown' d b = lostDown' (d + 1) b + 1 := by
  unfold lostDown'
  have h1 : ¬ d ≤ 3 := by omega
  have h2 : ¬ d + 1 ≤ 3 := by omega
  simp only [h1, h2, if_false]
  cases b
  · simp only [Bool.false_eq_true, if_false]; omega
  · simp only [if_true]; omega

private theorem drop_succ_rD {α : Type} (f : α) (fs : List α) (n : Nat) : (f :: fs).drop (n + 1) = fs.drop n := rfl

/-- **recovery_after_giveups_down_lazy.**  Lazy mode, the server's downstream sequence number `d < 8` ahead of the client's
(what `d` downstream packets given up in a row leave behind); if the client's fragment number is 0 its reassembly buffer is
empty.  Of the frames offered to the server one after the other exactly the first `lostDown' d (fragment = 0)` are LOST; all
the others arrive at the client's tun device exactly once and in order; the joint state is synchronised and quiescent. -/
theorem recovery_after_giveups_down_lazy {P : Par} (hP : P.Ok) (fuel : Nat) (hfuel : 33 ≤ fuel) :
    ∀ (frames : List (List Nat)) (d : Nat) (w : W), QuietLazyD P 0 d w → d < 8 →
      (4 ≤ d → w.cs.c.inpkt.fragment = 0 → w.cs.c.inpkt.len = 0) →
      0 < (Server.getUser w.srv P.u).fragsize →
      (∀ f ∈ frames, DownFrameOk (Server.getUser w.srv P.u).tunIp (Server.getUser w.srv P.u).fragsize f) →
      lostDown' d (decide (w.cs.c.inpkt.fragment = 0)) < frames.length →
      QuietLazy P (offerAllS P.u fuel w frames) ∧
      (offerAllS P.u fuel w frames).tunC = w.tunC ++ (frames.drop (lostDown' d (decide (w.cs.c.inpkt.fragment = 0)))).map tunImage ∧
      (offerAllS P.u fuel w frames).tunS = w.tunS := by
  intro frames
  induction frames with
  | nil => intro d w _ _ _ _ _ hl; simp at hl
  | cons f fs ih =>
    intro d w hq hd8 hlen0 hF hok hl
    have hf := hok f List.mem_cons_self
    have hdel : ∀ w', promptSteps P.u (downStepsL w.cs.c.sendPingSoon
          (downFrags (Server.getUser w.srv P.u).fragsize (f.length + 1) (f.length + 1))) (step w (.offerS f)) = some w' →
        QuietLazy P w' → w'.tunC = w.tunC ++ [tunImage f] → w'.tunS = w.tunS →
        (Server.getUser w'.srv P.u).fragsize = (Server.getUser w.srv P.u).fragsize →
        (Server.getUser w'.srv P.u).tunIp = (Server.getUser w.srv P.u).tunIp →
        QuietLazy P (offerAllS P.u fuel w (f :: fs)) ∧
        (offerAllS P.u fuel w (f :: fs)).tunC = w.tunC ++ ((f :: fs).drop 0).map tunImage ∧
        (offerAllS P.u fuel w (f :: fs)).tunS = w.tunS := by
      intro w' h1 h2 h4 h5 h6 h7
      have hsteps : downStepsL w.cs.c.sendPingSoon
          (downFrags (Server.getUser w.srv P.u).fragsize (f.length + 1) (f.length + 1)) ≤ fuel := by
        have := hf.frags
        have := downStepsL_le w.cs.c.sendPingSoon (downFrags (Server.getUser w.srv P.u).fragsize (f.length + 1) (f.length + 1))
        omega
      have hrun : runPrompt P.u fuel (step w (.offerS f)) = w' := runPrompt_of_steps P.u _ _ _ h1 h2.quiet fuel hsteps
      have := down_sequence_lazy hP fuel hfuel fs w' h2 (by rw [h6]; exact hF)
        (fun g hg => by rw [h6, h7]; exact hok g (List.mem_cons_of_mem _ hg))
      unfold offerAllS
      rw [hrun]
      refine ⟨this.1, ?_, ?_⟩
      · rw [this.2.1, h4]; simp
      · rw [this.2.2, h5]
    by_cases hd : d ≤ 3
    · -- delivered; synchronised from here on
      rw [lostDown'_small d _ hd]
      obtain ⟨w', h1, h2, _, h4, h5, h6, h7⟩ := down_packet_lazy_desync_ok hP hq hd f hF hf
      exact hdel w' h1 h2 h4 h5 h6 h7
    · have hd4 : 4 ≤ d := by omega
      by_cases hW : d = 7 ∧ w.cs.c.inpkt.fragment = 0
      · -- the weird situation: delivered
        obtain ⟨h7, hfr0⟩ := hW
        subst h7
        have hb : decide (w.cs.c.inpkt.fragment = 0) = true := by simpa using hfr0
        rw [hb, lostDown'_seven_true]
        obtain ⟨w', h1, h2, _, h4, h5, h6, h7⟩ := down_packet_lazy_desync7_ok hP hq hfr0 (hlen0 hd4 hfr0) f hF hf
        exact hdel w' h1 h2 h4 h5 h6 h7
      · -- lost
        have hdd : (4 ≤ d ∧ d ≤ 6) ∨ (d = 7 ∧ w.cs.c.inpkt.fragment ≠ 0) := by
          by_cases h7 : d = 7
          · exact Or.inr ⟨h7, fun hc => hW ⟨h7, hc⟩⟩
          · exact Or.inl ⟨hd4, by omega⟩
        obtain ⟨w', h1, h2, _, h4, h5, h6, h7, h8⟩ := down_packet_lazy_desync_drop hP hq hdd f hF hf
        have hsteps : dropStepsL w.cs.c.sendPingSoon
            (downFrags (Server.getUser w.srv P.u).fragsize (f.length + 1) (f.length + 1)) ≤ fuel := by
          have := dropStepsL_le w.cs.c.sendPingSoon (downFrags (Server.getUser w.srv P.u).fragsize (f.length + 1) (f.length + 1))
          omega
        have hrun : runPrompt P.u fuel (step w (.offerS f)) = w' := runPrompt_of_steps P.u _ _ _ h1 h2.quiet fuel hsteps
        have hok' : ∀ g ∈ fs, DownFrameOk (Server.getUser w'.srv P.u).tunIp (Server.getUser w'.srv P.u).fragsize g :=
          fun g hg => by rw [h6, h7]; exact hok g (List.mem_cons_of_mem _ hg)
        unfold offerAllS
        rw [hrun]
        by_cases h7' : d = 7
        · -- synchronised again
          subst h7'
          have hfrn : w.cs.c.inpkt.fragment ≠ 0 := fun hc => hW ⟨rfl, hc⟩
          have hb : decide (w.cs.c.inpkt.fragment = 0) = false := by simpa using hfrn
          rw [hb, lostDown'_seven_false]
          have hq0 : QuietLazy P w' := quietLazyD_zero.1 h2
          have := down_sequence_lazy hP fuel hfuel fs w' hq0 (by rw [h6]; exact hF) hok'
          refine ⟨this.1, ?_, ?_⟩
          · rw [this.2.1, h4]; rfl
          · rw [this.2.2, h5]
        · have hmod : (d + 1) % 8 = d + 1 := by omega
          rw [hmod] at h2
          have hstep := lostDown'_step d (decide (w.cs.c.inpkt.fragment = 0)) hd4 (by omega)
          rw [hstep] at hl ⊢
          have := ih (d + 1) w' h2 (by omega) (fun _ => by rw [h8]; exact hlen0 hd4) (by rw [h6]; exact hF) hok'
            (by rw [h8]; simp only [List.length_cons] at hl; omega)
          rw [h8] at this
          refine ⟨this.1, ?_, ?_⟩
          · rw [this.2.1, h4, drop_succ_rD]
          · rw [this.2.2, h5]

/-- **recovery_after_giveups_down_imm.**  Immediate mode, the server's downstream sequence number `d < 8` ahead of the
client's, timer room; if the client's fragment number is 0 its reassembly buffer is empty.  Of the frames offered to the
server one after the other (each after the joint state is quiescent again) exactly the first `lostDown' d (fragment = 0)`
are LOST; all the others arrive at the client's tun device exactly once and in order; the joint state is synchronised and
quiescent. -/
theorem recovery_after_giveups_down_imm {P : Par} (hP : P.Ok) (fuel : Nat) (hfuel : 36 ≤ fuel) :
    ∀ (frames : List (List Nat)) (d : Nat) (w : W), QuietImmD P 0 d w → d < 8 →
      (4 ≤ d → w.cs.c.inpkt.fragment = 0 → w.cs.c.inpkt.len = 0) →
      Roomy P w → w.cs.c.selecttimeout ≤ 9 → 0 < (Server.getUser w.srv P.u).fragsize →
      (∀ f ∈ frames, DownFrameOk (Server.getUser w.srv P.u).tunIp (Server.getUser w.srv P.u).fragsize f) →
      lostDown' d (decide (w.cs.c.inpkt.fragment = 0)) < frames.length →
      QuietImm P (offerAllS P.u fuel w frames) ∧
      (offerAllS P.u fuel w frames).tunC = w.tunC ++ (frames.drop (lostDown' d (decide (w.cs.c.inpkt.fragment = 0)))).map tunImage ∧
      (offerAllS P.u fuel w frames).tunS = w.tunS := by
  intro frames
  induction frames with
  | nil => intro d w _ _ _ _ _ _ _ hl; simp at hl
  | cons f fs ih =>
    intro d w hq hd8 hlen0 hr hsel hF hok hl
    have hf := hok f List.mem_cons_self
    have hdel : ∀ w', promptSteps P.u (downSteps (downFrags (Server.getUser w.srv P.u).fragsize (f.length + 1) (f.length + 1)))
          (step w (.offerS f)) = some w' →
        QuietImm P w' → w'.tunC = w.tunC ++ [tunImage f] → w'.tunS = w.tunS →
        (Server.getUser w'.srv P.u).fragsize = (Server.getUser w.srv P.u).fragsize →
        (Server.getUser w'.srv P.u).tunIp = (Server.getUser w.srv P.u).tunIp →
        (Server.getUser w'.srv P.u).lastPkt = w'.srv.now → w'.cs.c.lastdownstreamtime = w'.cs.c.now →
        w'.cs.c.selecttimeout = w.cs.c.selecttimeout → w'.cs.c.sendPingSoon ≤ 5 →
        QuietImm P (offerAllS P.u fuel w (f :: fs)) ∧
        (offerAllS P.u fuel w (f :: fs)).tunC = w.tunC ++ ((f :: fs).drop 0).map tunImage ∧
        (offerAllS P.u fuel w (f :: fs)).tunS = w.tunS := by
      intro w' h1 h2 h3 h4 h5 h6 h7 h8 h9 h10
      have hsteps : downSteps (downFrags (Server.getUser w.srv P.u).fragsize (f.length + 1) (f.length + 1)) ≤ fuel := by
        have := hf.frags
        unfold downSteps
        split <;> omega
      have hrun : runPrompt P.u fuel (step w (.offerS f)) = w' := runPrompt_of_steps P.u _ _ _ h1 h2.quiet fuel hsteps
      have := down_sequence_imm hP fuel hfuel fs w' h2 (roomy_after h2 h7 h8 (by rw [h9]; exact hsel) h10) (by rw [h9]; exact hsel)
        (by rw [h5]; exact hF) (fun g hg => by rw [h5, h6]; exact hok g (List.mem_cons_of_mem _ hg))
      unfold offerAllS
      rw [hrun]
      refine ⟨this.1, ?_, ?_⟩
      · rw [this.2.1, h3]; simp
      · rw [this.2.2, h4]
    by_cases hd : d ≤ 3
    · rw [lostDown'_small d _ hd]
      obtain ⟨w', h1, h2, h3, h4, h5, h6, h7, h8, h9, h10⟩ := down_packet_imm_desync_ok hP hq hd f hF hf hr.to hr.cli hr.srv
      exact hdel w' h1 h2 h3 h4 h5 h6 h7 h8 h9 h10
    · have hd4 : 4 ≤ d := by omega
      by_cases hW : d = 7 ∧ w.cs.c.inpkt.fragment = 0
      · obtain ⟨h7, hfr0⟩ := hW
        subst h7
        have hb : decide (w.cs.c.inpkt.fragment = 0) = true := by simpa using hfr0
        rw [hb, lostDown'_seven_true]
        obtain ⟨w', h1, h2, h3, h4, h5, h6, h7, h8, h9, h10⟩ :=
          down_packet_imm_desync7_ok hP hq hfr0 (hlen0 hd4 hfr0) f hF hf hr.to hr.cli hr.srv
        exact hdel w' h1 h2 h3 h4 h5 h6 h7 h8 h9 h10
      · by_cases h7 : d = 7
        · -- the duplicate-fragment branch: lost, synchronised afterwards
          subst h7
          have hfrn : w.cs.c.inpkt.fragment ≠ 0 := fun hc => hW ⟨rfl, hc⟩
          have hb : decide (w.cs.c.inpkt.fragment = 0) = false := by simpa using hfrn
          rw [hb, lostDown'_seven_false]
          obtain ⟨w', h1, h2, h3, h4, h5, h6, h7', h8, h9, h10, _⟩ :=
            down_packet_imm_desync_drop7 hP hq hfrn f hF hf.h24 hf.hl hf.dst hr.to hr.cli hr.srv
          have hrun : runPrompt P.u fuel (step w (.offerS f)) = w' :=
            runPrompt_of_steps P.u _ _ _ h1 h2.quiet fuel (Nat.le_trans (dropSteps_le _) (by omega))
          have := down_sequence_imm hP fuel hfuel fs w' h2 (roomy_afterD (quietImmD_zero.2 h2) h7' h8 (by rw [h9]; exact hsel) h10)
            (by rw [h9]; exact hsel) (by rw [h5]; exact hF) (fun g hg => by rw [h5, h6]; exact hok g (List.mem_cons_of_mem _ hg))
          unfold offerAllS
          rw [hrun]
          refine ⟨this.1, ?_, ?_⟩
          · rw [this.2.1, h3]; rfl
          · rw [this.2.2, h4]
        · obtain ⟨w', h1, h2, h3, h4, h5, h6, h7', h8, h9, h10, h11⟩ :=
            down_packet_imm_desync_drop hP hq ⟨hd4, by omega⟩ f hF hf.h24 hf.hl hf.dst hr.to hr.cli hr.srv
          have hrun : runPrompt P.u fuel (step w (.offerS f)) = w' :=
            runPrompt_of_steps P.u _ _ _ h1 h2.quiet fuel (Nat.le_trans (dropSteps_le _) (by omega))
          have hstep := lostDown'_step d (decide (w.cs.c.inpkt.fragment = 0)) hd4 (by omega)
          rw [hstep] at hl ⊢
          have := ih (d + 1) w' h2 (by omega) (fun _ => by rw [h11]; exact hlen0 hd4)
            (roomy_afterD h2 h7' h8 (by rw [h9]; exact hsel) h10) (by rw [h9]; exact hsel) (by rw [h5]; exact hF)
            (fun g hg => by rw [h5, h6]; exact hok g (List.mem_cons_of_mem _ hg))
            (by rw [h11]; simp only [List.length_cons] at hl; omega)
          rw [h11] at this
          unfold offerAllS
          rw [hrun]
          refine ⟨this.1, ?_, ?_⟩
          · rw [this.2.1, h3, drop_succ_rD]
          · rw [this.2.2, h4]

end Iodine.C02L
