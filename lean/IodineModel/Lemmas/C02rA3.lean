import IodineModel.Lemmas.C02qA2
/-
C02 phase 3, sub-package "lift" (3): the PING half of the renewal, at slot level.
* `PAgedTo P x k np nc sl`: `PAged` (C02f2) for the `np` newest positions of `qmemping` (ring of 30, ping counter modulo
  65536) and the `nc` newest of `dnscache` (ring of 4); `PAgedTo … 30 4 = PAged`, `PAgedTo … 0 0` is just `RingWF`.
* `CleanBoth`: clean query/answer cycles of BOTH kinds on a slot, with the client's two counters (data-CMC `kd`, period 36;
  ping seed `kp`, period 65536).
* RENEWAL (`CleanBoth.renew`, `CleanBoth.renewed`): from ANY well-formed slot, whatever its memories hold, after `nd` data cycles
  and `np` ping cycles the `nd` newest entries of `qmemdata`, the `np` newest of `qmemping` and the `nd + np` newest of `dnscache`
  are aged with slack 1 for both counters.  EXACT COUNTS for full freshness (`Aged … 1 ∧ PAged … 1`, the two clauses of
  `QuietImm`): 15 data cycles (`qmemdata`), 30 ping cycles (`qmemping`); `dnscache` (4 entries, shared) is renewed by any 4
  cycles, so it never adds to the count.  The counts are sharp for the INVARIANTS (one position is learnt per cycle); for the
  weaker property the clean path actually uses (`Fresh`/`FreshNext`, C02rA4) fewer cycles may do.
* `MemEq`: two slots with the same six memory fields; all the memory predicates are congruent for it.
-/
namespace Iodine.C02L
open Iodine Iodine.Gen Iodine.Server

/-! ### slots with the same duplicate memories -/

structure MemEq (y x : Session) : Prop where
  q : y.qmemdata = x.qmemdata
  ql : y.qmemdataLast = x.qmemdataLast
  p : y.qmemping = x.qmemping
  pl : y.qmempingLast = x.qmempingLast
  c : y.dnscache = x.dnscache
  cl : y.dcLast = x.dcLast

theorem MemEq.refl (x : Session) : MemEq x x := ⟨rfl, rfl, rfl, rfl, rfl, rfl⟩
theorem MemEq.symm {x y : Session} (h : MemEq y x) : MemEq x y := ⟨h.q.symm, h.ql.symm, h.p.symm, h.pl.symm, h.c.symm, h.cl.symm⟩
theorem MemEq.trans {x y z : Session} (h : MemEq z y) (h' : MemEq y x) : MemEq z x :=
  ⟨h.q.trans h'.q, h.ql.trans h'.ql, h.p.trans h'.p, h.pl.trans h'.pl, h.c.trans h'.c, h.cl.trans h'.cl⟩

theorem RingWF.memEq {x y : Session} (h : RingWF x) (e : MemEq y x) : RingWF y := h.congr e.q e.ql e.p e.pl e.c e.cl

theorem AgedTo.memEq {P : Par} {x y : Session} {k nq nc sl : Nat} (h : AgedTo P x k nq nc sl) (e : MemEq y x) :
    AgedTo P y k nq nc sl := by
  refine ⟨h.wf.memEq e, ?_, ?_⟩
  · rw [e.q, e.ql]; exact h.qmem
  · rw [e.c, e.cl]; exact h.cache

theorem Aged.memEq {P : Par} {x y : Session} {k sl : Nat} (h : Aged P x k sl) (e : MemEq y x) : Aged P y k sl :=
  h.congr e.q e.ql e.c e.cl

theorem PAged.memEq {P : Par} {x y : Session} {k sl : Nat} (h : PAged P x k sl) (e : MemEq y x) : PAged P y k sl :=
  h.congr e.p e.pl e.c e.cl

/-- `memo` is a function of the memories only -/
theorem MemEq.memo {x y : Session} (e : MemEq y x) (q : Query) (a : List Nat) :
    MemEq (cacheUpd (qmemUpd y q) q a) (cacheUpd (qmemUpd x q) q a) := by
  have h1 : MemEq (qmemUpd y q) (qmemUpd x q) := by
    unfold qmemUpd
    simp only
    split
    · cases List.idxOf? 46 q.name with
      | none => exact e
      | some cp =>
        simp only
        split
        · exact e
        · exact ⟨e.q, e.ql, by simp only [e.p, e.pl], by simp only [e.p, e.pl], e.c, e.cl⟩
    · split
      · exact e
      · exact ⟨by simp only [e.q, e.ql], by simp only [e.q, e.ql], e.p, e.pl, e.c, e.cl⟩
  unfold cacheUpd
  split
  · exact h1
  · exact ⟨h1.q, h1.ql, h1.p, h1.pl, by simp only [h1.c, h1.cl], by simp only [h1.cl]⟩

/-! ### `PAged` for the newest positions only -/

structure PAgedTo (P : Par) (x : Session) (k np nc sl : Nat) : Prop where
  wf : RingWF x
  pq : RingAgedTo np QMEMPING_LEN x.qmemping x.qmempingLast QmemEntry.zero (PQRel P) k 65536 sl
  pc : RingAgedTo nc DNSCACHE_LEN x.dnscache x.dcLast DnsCacheEntry.zero (PCRel P) k 65536 sl

theorem PAgedTo.of_wf {P : Par} {x : Session} (h : RingWF x) (k sl : Nat) : PAgedTo P x k 0 0 sl :=
  ⟨h, RingAgedTo.zero _ _ _ _ _ _ _ _, RingAgedTo.zero _ _ _ _ _ _ _ _⟩

/-- all positions known: `PAged` -/
theorem PAgedTo.paged {P : Par} {x : Session} {k np nc sl : Nat} (h : PAgedTo P x k np nc sl) (hp : 30 ≤ np) (hc : 4 ≤ nc) :
    PAged P x k sl :=
  ⟨h.wf.plen, h.wf.plast, h.wf.clen, h.wf.clast, h.pq.full hp, h.pc.full hc⟩

theorem PAged.toP {P : Par} {x : Session} {k sl : Nat} (h : PAged P x k sl) (hw : RingWF x) (np nc : Nat) :
    PAgedTo P x k np nc sl := ⟨hw, h.pq.to np, h.pc.to nc⟩

theorem PAgedTo.mono {P : Par} {x : Session} {k np nc np' nc' sl sl' : Nat} (h : PAgedTo P x k np nc sl) (hp : np' ≤ np)
    (hc : nc' ≤ nc) (hs : sl ≤ sl') : PAgedTo P x k np' nc' sl' :=
  ⟨h.wf, h.pq.mono hp hs, h.pc.mono hc hs⟩

theorem PAgedTo.memEq {P : Par} {x y : Session} {k np nc sl : Nat} (h : PAgedTo P x k np nc sl) (e : MemEq y x) :
    PAgedTo P y k np nc sl := by
  refine ⟨h.wf.memEq e, ?_, ?_⟩
  · rw [e.p, e.pl]; exact h.pq
  · rw [e.c, e.cl]; exact h.pc

theorem nxt65536 (k : Nat) (hk : k < 65536) : nxt 65536 k = (k + 1) % 65536 := by
  unfold nxt; split <;> omega

/-- the client sent a ping (its counter advanced) -/
theorem PAgedTo.step {P : Par} {x : Session} {k np nc sl : Nat} (h : PAgedTo P x k np nc sl) (hk : k < 65536) (hsl : sl ≤ 1000) :
    PAgedTo P x ((k + 1) % 65536) np nc (sl + 1) := by
  rw [← nxt65536 k hk]
  exact ⟨h.wf, h.pq.step hk (by simp [QMEMPING_LEN]; omega), h.pc.step hk (by simp [DNSCACHE_LEN]; omega)⟩

/-- the answer to a ping whose counter value is `a0 ≤ sl` steps behind is remembered: one more position of each ring is known -/
theorem PAgedTo.memo {P : Par} {x : Session} {k np nc sl : Nat} (h : PAgedTo P x k np nc (sl + 1)) (q : Query) (ans : List Nat)
    (hans : ans.length ≤ DNSCACHE_ANSWER_SIZE) (k0 a0 : Nat) (ha : 1 ≤ a0 ∧ a0 ≤ sl) (hb : Behind 65536 k k0 a0)
    (h0 : q.name.getD 0 0 = 112) (cp : Nat) (hcp : q.name.idxOf? 46 = some cp)
    (hl : 4 ≤ (Codec.dec Codec.b32 8 (cp - 1) (q.name.drop 1)).length)
    (hq2 : ((Codec.dec Codec.b32 8 (cp - 1) (q.name.drop 1)).take 4).getD 2 0 = k0 / 256)
    (hq3 : ((Codec.dec Codec.b32 8 (cp - 1) (q.name.drop 1)).take 4).getD 3 0 = k0 % 256)
    (hs : seedOfName P.td q.name = k0) :
    PAgedTo P (cacheUpd (qmemUpd x q) q ans) k (np + 1) (nc + 1) sl := by
  have hwf : RingWF (cacheUpd (qmemUpd x q) q ans) := (h.wf.qmemUpd q).cacheUpd q ans
  rw [cacheUpd_eq _ _ _ hans, qmemUpd_ping x q h0 cp hcp hl] at hwf ⊢
  refine ⟨hwf, ?_, ?_⟩
  · apply h.pq.push h.wf.plen h.wf.plast
    intro c ⟨_, hc, h2, h3⟩
    simp only at h2 h3
    rw [hq2] at h2
    rw [hq3] at h3
    have hk0 : k0 < 65536 := hb.1
    have : c = k0 := by omega
    subst this
    exact ⟨a0, ha.1, ha.2, hb⟩
  · apply h.pc.push h.wf.clen h.wf.clast
    intro c ⟨_, _, _, hc⟩
    simp only at hc
    rw [hs] at hc
    subst hc
    exact ⟨a0, ha.1, ha.2, hb⟩

/-- the answer to a DATA query is remembered: one more position of `dnscache` is known, `qmemping` is not touched -/
theorem PAgedTo.memo_data {P : Par} (hu : P.u < 16) {x : Session} {k np nc sl : Nat} (h : PAgedTo P x k np nc sl) (q : Query)
    (ans : List Nat) (hans : ans.length ≤ DNSCACHE_ANSWER_SIZE) (h5 : 5 ≤ q.name.length) (h0 : q.name.getD 0 0 = hexLower P.u) :
    PAgedTo P (cacheUpd (qmemUpd x q) q ans) k np (nc + 1) sl := by
  have hne : hexLower P.u ≠ 80 ∧ hexLower P.u ≠ 112 := by
    have := (hexLower_facts P.u hu).2.2
    constructor <;> (intro hc; apply this; rw [hc]; simp)
  have hwf : RingWF (cacheUpd (qmemUpd x q) q ans) := (h.wf.qmemUpd q).cacheUpd q ans
  rw [cacheUpd_eq _ _ _ hans, qmemUpd_data x q h5 (by rw [h0]; exact hne)] at hwf ⊢
  refine ⟨hwf, h.pq, ?_⟩
  apply h.pc.push_irrel h.wf.clen h.wf.clast
  intro c ⟨_, hc, _⟩
  simp only at hc
  rw [h0] at hc
  exact hne.2 hc

/-! ### renewal of both halves -/

/-- clean query/answer cycles on a slot `x` with the client's data-CMC counter `kd` and ping counter `kp`: `nd` data cycles
(the client sends the data query of user `P.u` that carries `kd`, the server remembers it with its answer), `np` ping cycles
(the client sends the ping that carries `kp`), in any order; `nc = nd + np` -/
inductive CleanBoth (P : Par) : Nat → Nat → Nat → Session × Nat × Nat → Session × Nat × Nat → Prop
  | nil (s : Session × Nat × Nat) : CleanBoth P 0 0 0 s s
  | data {nd np nc : Nat} {s : Session × Nat × Nat} {x : Session} {kd kp : Nat} (h : CleanBoth P nd np nc s (x, kd, kp))
      (q : Query) (ans : List Nat) (hans : ans.length ≤ DNSCACHE_ANSWER_SIZE) (h4 : q.name.getD 4 0 = cmcChar kd)
      (h5 : 5 ≤ q.name.length) (h0 : q.name.getD 0 0 = hexLower P.u) :
      CleanBoth P (nd + 1) np (nc + 1) s (cacheUpd (qmemUpd x q) q ans, (kd + 1) % 36, kp)
  | ping {nd np nc : Nat} {s : Session × Nat × Nat} {x : Session} {kd kp : Nat} (h : CleanBoth P nd np nc s (x, kd, kp))
      (q : Query) (ans : List Nat) (hans : ans.length ≤ DNSCACHE_ANSWER_SIZE) (h0 : q.name.getD 0 0 = 112) (cp : Nat)
      (hcp : q.name.idxOf? 46 = some cp) (hl : 4 ≤ (Codec.dec Codec.b32 8 (cp - 1) (q.name.drop 1)).length)
      (hq2 : ((Codec.dec Codec.b32 8 (cp - 1) (q.name.drop 1)).take 4).getD 2 0 = kp / 256)
      (hq3 : ((Codec.dec Codec.b32 8 (cp - 1) (q.name.drop 1)).take 4).getD 3 0 = kp % 256)
      (hs : seedOfName P.td q.name = kp) :
      CleanBoth P nd (np + 1) (nc + 1) s (cacheUpd (qmemUpd x q) q ans, kd, (kp + 1) % 65536)

theorem CleanBoth.count {P : Par} {nd np nc : Nat} {s t : Session × Nat × Nat} (h : CleanBoth P nd np nc s t) : nc = nd + np := by
  induction h <;> omega

theorem hexLower_not_ping {u : Nat} (hu : u < 16) : hexLower u ≠ 80 ∧ hexLower u ≠ 112 := by
  have := (hexLower_facts u hu).2.2
  constructor <;> (intro hc; apply this; rw [hc]; simp)

/-- the data half of a `CleanBoth` run is a `CleanSess` run (C02qA2) -/
theorem CleanBoth.toSess {P : Par} (hu : P.u < 16) {nd np nc : Nat} {x0 x : Session} {kd0 kp0 kd kp : Nat}
    (h : CleanBoth P nd np nc (x0, kd0, kp0) (x, kd, kp)) : CleanSess nd nc (x0, kd0) (x, kd) := by
  generalize hs : (x0, kd0, kp0) = s at h
  generalize ht : (x, kd, kp) = t at h
  induction h generalizing x kd kp with
  | nil s => subst hs; cases ht; exact CleanSess.nil _
  | data h q ans hans h4 h5 h0 ih =>
    cases ht
    exact CleanSess.data (ih hs rfl) q ans hans h4 h5 (by rw [h0]; exact hexLower_not_ping hu)
  | ping h q ans hans h0 cp hcp hl hq2 hq3 hsd ih =>
    cases ht
    exact CleanSess.ping (ih hs rfl) q ans hans h0 cp hcp hl

/-- **RENEWAL of the ping half, slot level.**  From ANY well-formed slot and counter values: after `nd` data cycles and `np`
ping cycles the `np` newest entries of `qmemping` and the `nd + np` newest of `dnscache` are aged with slack 1 for the ping
counter. -/
theorem CleanBoth.renewP {P : Par} (hu : P.u < 16) {nd np nc : Nat} {x0 x : Session} {kd0 kp0 kd kp : Nat}
    (h : CleanBoth P nd np nc (x0, kd0, kp0) (x, kd, kp)) (hwf : RingWF x0) (hk : kp0 < 65536) :
    kp < 65536 ∧ PAgedTo P x kp np nc 1 := by
  generalize hs : (x0, kd0, kp0) = s at h
  generalize ht : (x, kd, kp) = t at h
  induction h generalizing x kd kp with
  | nil s =>
    subst hs
    cases ht
    exact ⟨hk, PAgedTo.of_wf hwf _ _⟩
  | data h q ans hans h4 h5 h0 ih =>
    cases ht
    obtain ⟨h1, h2⟩ := ih hs rfl
    exact ⟨h1, h2.memo_data hu q ans hans h5 h0⟩
  | ping h q ans hans h0 cp hcp hl hq2 hq3 hsd ih =>
    rename_i nd' np' nc' s' x' kd' kp'
    cases ht
    obtain ⟨h1, h2⟩ := ih hs rfl
    refine ⟨Nat.mod_lt _ (by decide), ?_⟩
    have hb : Behind 65536 ((kp' + 1) % 65536) kp' 1 := by rw [← nxt65536 _ h1]; exact behind_nxt h1
    exact (h2.step h1 (by decide)).memo q ans hans _ 1 ⟨Nat.le_refl 1, Nat.le_refl 1⟩ hb h0 cp hcp hl hq2 hq3 hsd

/-- both halves together -/
theorem CleanBoth.renew {P : Par} (hu : P.u < 16) {nd np nc : Nat} {x0 x : Session} {kd0 kp0 kd kp : Nat}
    (h : CleanBoth P nd np nc (x0, kd0, kp0) (x, kd, kp)) (hwf : RingWF x0) (hkd : kd0 < 36) (hkp : kp0 < 65536) :
    kd < 36 ∧ kp < 65536 ∧ AgedTo P x kd nd nc 1 ∧ PAgedTo P x kp np nc 1 :=
  ⟨((h.toSess hu).renew (P := P) hu hwf hkd).1, (h.renewP hu hwf hkp).1, ((h.toSess hu).renew hu hwf hkd).2, (h.renewP hu hwf hkp).2⟩

/-- **… hence after 15 data cycles and 30 ping cycles both freshness clauses of `QuietImm` hold again**, whatever the three
memories held before. -/
theorem CleanBoth.renewed {P : Par} (hu : P.u < 16) {nd np nc : Nat} {x0 x : Session} {kd0 kp0 kd kp : Nat}
    (h : CleanBoth P nd np nc (x0, kd0, kp0) (x, kd, kp)) (hwf : RingWF x0) (hkd : kd0 < 36) (hkp : kp0 < 65536)
    (hnd : 15 ≤ nd) (hnp : 30 ≤ np) : kd < 36 ∧ kp < 65536 ∧ Aged P x kd 1 ∧ PAged P x kp 1 := by
  obtain ⟨h1, h2, h3, h4⟩ := h.renew hu hwf hkd hkp
  have := h.count
  exact ⟨h1, h2, h3.aged hnd (by omega), h4.paged hnp (by omega)⟩

/-- a slot whose ping memories ARE fresh keeps them fresh under data cycles (no ping is consumed): with it, 15 data cycles
suffice for both clauses -/
theorem CleanBoth.keepsP {P : Par} (hu : P.u < 16) {nd nc : Nat} {x0 x : Session} {kd0 kp0 kd kp : Nat} {sl : Nat}
    (h : CleanBoth P nd 0 nc (x0, kd0, kp0) (x, kd, kp)) (hp : PAged P x0 kp0 sl) : kp = kp0 ∧ PAged P x kp sl := by
  generalize hs : (x0, kd0, kp0) = s at h
  generalize ht : (x, kd, kp) = t at h
  generalize hz : 0 = z at h
  induction h generalizing x kd kp with
  | nil s => subst hs; cases ht; exact ⟨rfl, hp⟩
  | data h q ans hans h4 h5 h0 ih =>
    cases ht
    obtain ⟨h1, h2⟩ := ih hs rfl hz
    exact ⟨h1, h2.memo_data hu q ans hans h5 h0⟩
  | ping h q ans hans h0 cp hcp hl hq2 hq3 hsd ih => omega

end Iodine.C02L
