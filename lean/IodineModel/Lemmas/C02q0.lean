import IodineModel.Lemmas.C02L7
/-
C02, phase 2 — shared vocabulary.

DESYNCHRONISED quiescent states: as `QuietImm` / `QuietLazy`, but the SENDER's 3-bit packet sequence number of a direction
is `d` ahead of the receiver's (`du`: the client's `outpkt.seqno` against the server's `inpacket.seqno`; `dd`: the server's
`outpacket.seqno` against the client's `inpkt.seqno`).  `d = 0` is the synchronised state of the clean-path theorems.  Such a
state arises when `d` packets in a row were given up by the sender without the receiver having seen any fragment of them
(every datagram of one direction lost for a while).

The BLACKOUT schedules: the prompt schedule with every upstream (resp. downstream) datagram lost instead of delivered.
-/
namespace Iodine.C02L
open Iodine Iodine.World

/-- … with the freshness slacks of the server's duplicate memories as parameters: `sl` for the data-CMC counter (`Aged`),
`sp` for the ping seed (`PAged`) — how many queries the client may have sent that never reached the server (+1) -/
structure QuietImmDS (P : Par) (du dd sl sp : Nat) (w : W) : Prop where
  ph : w.cs.ph = .tunnel
  cst : CStat P w.cs.c
  idleC : Client.isSending w.cs.c = false
  up : w.up = []
  down : w.down = []
  srv : SStat P w.srv
  idle : IdleImm (Server.getUser w.srv P.u)
  oq : (Server.getUser w.srv P.u).oqFilled = 0
  syncu : w.cs.c.outpkt.seqno = ((Server.getUser w.srv P.u).inpacket.seqno + du) % 8
  syncd : (Server.getUser w.srv P.u).outpacket.seqno = (w.cs.c.inpkt.seqno + dd) % 8
  aged : Aged P (Server.getUser w.srv P.u) w.cs.c.datacmc sl
  paged : PAged P (Server.getUser w.srv P.u) w.cs.c.randSeed sp

theorem QuietImmDS.quiet {P : Par} {du dd sl sp : Nat} {w : W} (h : QuietImmDS P du dd sl sp w) : quiet P.u w = true := by
  unfold World.quiet
  simp [h.up, h.down, h.idleC, h.idle.out, h.oq, h.idle.qs, h.idle.lazy, h.idle.q]

/-- slack 1: the desynchronised version of the clean path's quiescent state -/
abbrev QuietImmD (P : Par) (du dd : Nat) (w : W) : Prop := QuietImmDS P du dd 1 1 w

theorem QuietImmD.quiet {P : Par} {du dd : Nat} {w : W} (h : QuietImmD P du dd w) : quiet P.u w = true := QuietImmDS.quiet h

/-- in sync: the quiescent state with slack of `C02v8.lean` -/
theorem quietImmDS_zero {P : Par} {sl sp : Nat} {w : W} : QuietImmDS P 0 0 sl sp w ↔ QuietImmS P sl sp w := by
  constructor
  · intro h
    have h1 := h.srv.x.iseq
    have h2 := h.cst.iseq
    exact ⟨h.ph, h.cst, h.idleC, h.up, h.down, h.srv, h.idle, h.oq, by have := h.syncu; omega, by have := h.syncd; omega,
      h.aged, h.paged⟩
  · intro h
    have h1 := h.srv.x.iseq
    have h2 := h.cst.iseq
    exact ⟨h.ph, h.cst, h.idleC, h.up, h.down, h.srv, h.idle, h.oq, by have := h.syncu; omega, by have := h.syncd; omega,
      h.aged, h.paged⟩

theorem quietImmD_zero {P : Par} {w : W} : QuietImmD P 0 0 w ↔ QuietImm P w := by
  constructor
  · intro h
    have h1 := h.srv.x.iseq
    have h2 := h.cst.iseq
    exact ⟨h.ph, h.cst, h.idleC, h.up, h.down, h.srv, h.idle, h.oq, by have := h.syncu; omega, by have := h.syncd; omega,
      h.aged, h.paged⟩
  · intro h
    have h1 := h.srv.x.iseq
    have h2 := h.cst.iseq
    exact ⟨h.ph, h.cst, h.idleC, h.up, h.down, h.srv, h.idle, h.oq, by have := h.syncu; omega, by have := h.syncd; omega,
      h.aged, h.paged⟩

structure QuietLazyD (P : Par) (du dd : Nat) (w : W) : Prop where
  ph : w.cs.ph = .tunnel
  cst : CStatL P w.cs.c
  cnt : CntOk w.cs.c 1
  idleC : Client.isSending w.cs.c = false
  up : w.up = []
  down : w.down = []
  srv : SStat P w.srv
  idle : IdleLazy (Server.getUser w.srv P.u)
  oq : (Server.getUser w.srv P.u).oqFilled = 0
  held : HeldBase P (Server.getUser w.srv P.u).q
  heldid : (Server.getUser w.srv P.u).q.id = w.cs.c.chunkid
  syncu : w.cs.c.outpkt.seqno = ((Server.getUser w.srv P.u).inpacket.seqno + du) % 8
  syncd : (Server.getUser w.srv P.u).outpacket.seqno = (w.cs.c.inpkt.seqno + dd) % 8
  mem : HeldMem P (Server.getUser w.srv P.u) (Server.getUser w.srv P.u).q w.cs.c.datacmc w.cs.c.randSeed

theorem QuietLazyD.quiet {P : Par} {du dd : Nat} {w : W} (h : QuietLazyD P du dd w) : quiet P.u w = true := by
  unfold World.quiet
  simp [h.up, h.down, h.idleC, h.idle.out, h.oq, h.idle.qs, h.idle.lazy, h.idle.q]

theorem quietLazyD_zero {P : Par} {w : W} : QuietLazyD P 0 0 w ↔ QuietLazy P w := by
  constructor
  · intro h
    have h1 := h.srv.x.iseq
    have h2 := h.cst.iseq
    exact ⟨h.ph, h.cst, h.cnt, h.idleC, h.up, h.down, h.srv, h.idle, h.oq, h.held, h.heldid, by have := h.syncu; omega,
      by have := h.syncd; omega, h.mem⟩
  · intro h
    have h1 := h.srv.x.iseq
    have h2 := h.cst.iseq
    exact ⟨h.ph, h.cst, h.cnt, h.idleC, h.up, h.down, h.srv, h.idle, h.oq, h.held, h.heldid, by have := h.syncu; omega,
      by have := h.syncd; omega, h.mem⟩

/-! ### blackout schedules -/

/-- the prompt schedule with every UPSTREAM datagram lost -/
def blackoutEvUp (w : W) : Ev :=
  if !w.up.isEmpty then .dropUp
  else if !w.down.isEmpty then .deliverDown
  else
    match timeoutC w with
    | some t => if (timeoutS w : Int) ≤ t then .tickS else .tickC
    | none => .tickS

/-- the prompt schedule with every DOWNSTREAM datagram lost -/
def blackoutEvDown (w : W) : Ev :=
  if !w.up.isEmpty then .deliverUp
  else if !w.down.isEmpty then .dropDown
  else
    match timeoutC w with
    | some t => if (timeoutS w : Int) ≤ t then .tickS else .tickC
    | none => .tickS

/-- `k` steps of a schedule given by its choice function -/
def runSched (ev : W → Ev) : Nat → W → W
  | 0, w => w
  | k + 1, w => runSched ev k (step w (ev w))

theorem runSched_add (ev : W → Ev) (a b : Nat) (w : W) : runSched ev (a + b) w = runSched ev b (runSched ev a w) := by
  induction a generalizing w with
  | zero => simp [runSched]
  | succ a ih => rw [Nat.add_right_comm, runSched, runSched, ih]

end Iodine.C02L
