import IodineModel.Lemmas.C02qA2
import IodineModel.Lemmas.BytesH
/-
C02 phase 3, sub-package "lift" (1): ring well-formedness (`RingWF`, C02qA2) of EVERY slot is an invariant of every function of
the server model, hence of one whole iteration of `tunnel()` for EVERY input (`srvWF_iteration`): all the null-request
handlers (V L I Z S O Y R N P data), NS / A requests, forwarding, raw login / data / ping, `tunnel_tun`, `tunnel_bind`, the
sweep, the top of the loop.  The walk follows `BytesF/G/H` (`DataInv`), with the much simpler slot predicate.
The World level (every `World.step`, every event of the scheduler's alphabet) is in `C02rA2`.
-/
namespace Iodine.C02L
open Iodine Iodine.Server Iodine.Gen
open Iodine.BytesL (mem_modify mem_modify' mem_clearNewFrom)

/-- the three duplicate memories of every slot of the table have their lengths and fill pointers in range -/
def SrvWF (s : Srv) : Prop := ∀ x ∈ s.users, RingWF x

/-- a `calloc`ed slot is well-formed -/
theorem ringWF_zero (t : Nat) : RingWF (Session.zero t) :=
  ⟨by simp [Session.zero], Nat.zero_lt_succ _, by simp [Session.zero], Nat.zero_lt_succ _, by simp [Session.zero],
    Nat.zero_lt_succ _⟩

/-- … so the invariant speaks about `users[v]` for every `v`, also outside the table -/
theorem SrvWF.get {s : Srv} (h : SrvWF s) (v : Nat) : RingWF (getUser s v) := by
  unfold getUser
  rw [List.getD_eq_getElem?_getD]
  cases hu : s.users[v]? with
  | none => exact ringWF_zero 0
  | some x => exact h x (List.mem_of_getElem? hu)

theorem srvWF_iff (s : Srv) : SrvWF s ↔ ∀ v, RingWF (getUser s v) := by
  refine ⟨fun h v => h.get v, fun h x hx => ?_⟩
  obtain ⟨v, hv, rfl⟩ := List.getElem_of_mem hx
  have := h v
  unfold getUser at this
  rwa [List.getD_eq_getElem?_getD, List.getElem?_eq_getElem hv] at this

/-- the server state right after configuration -/
theorem srvWF_init (cfg : Config) (nb : Nat) : SrvWF (Srv.init cfg nb) := by
  intro x hx
  simp only [Srv.init, List.mem_map] at hx
  obtain ⟨t, _, rfl⟩ := hx
  exact ringWF_zero t

theorem SrvWF.setUser {s : Srv} (h : SrvWF s) (u : Nat) (f : Session → Session) (hf : ∀ x, RingWF x → RingWF (f x)) :
    SrvWF (setUser s u f) := by
  intro y hy
  unfold Server.setUser at hy
  rcases mem_modify hy with hy | ⟨x, hx, rfl⟩
  · exact h y hy
  · exact hf x (h x hx)

theorem SrvWF.users {s s' : Srv} (h : SrvWF s) (hu : s'.users = s.users) : SrvWF s' := by
  unfold SrvWF; rw [hu]; exact h

/-- a slot write that leaves the six ring fields alone -/
theorem RingWF.same {x y : Session} (h : RingWF x) (h1 : y.qmemdata = x.qmemdata := by rfl)
    (h2 : y.qmemdataLast = x.qmemdataLast := by rfl) (h3 : y.qmemping = x.qmemping := by rfl)
    (h4 : y.qmempingLast = x.qmempingLast := by rfl) (h5 : y.dnscache = x.dnscache := by rfl)
    (h6 : y.dcLast = x.dcLast := by rfl) : RingWF y := h.congr h1 h2 h3 h4 h5 h6

/-- what a handler has to establish -/
def WFRes (r : Res) : Prop := SrvWF r.1

theorem wf_nil {s : Srv} (h : SrvWF s) {evs : List Event} : WFRes (s, evs) := h

theorem wf_ite {c : Prop} [Decidable c] {a b : Res} (ha : WFRes a) (hb : WFRes b) : WFRes (if c then a else b) := by
  split
  · exact ha
  · exact hb

/-! ### user.c and the small helpers -/

theorem wf_findAvailableUser {s : Srv} (h : SrvWF s) : SrvWF (findAvailableUser s).2 := by
  unfold findAvailableUser
  split
  · exact h.setUser _ _ fun x hx => hx.same
  · exact h

theorem wf_userSwitchCodec {s : Srv} (h : SrvWF s) (u : Nat) (e : Enc) : SrvWF (userSwitchCodec s u e) := by
  unfold userSwitchCodec
  split
  · exact h
  · exact h.setUser _ _ fun x hx => hx.same

theorem wf_userSetConnType {s : Srv} (h : SrvWF s) (u : Nat) (c : Conn) : SrvWF (userSetConnType s u c) := by
  unfold userSetConnType
  split
  · exact h
  · exact h.setUser _ _ fun x hx => hx.same

theorem wf_popRand {s : Srv} (h : SrvWF s) : SrvWF (popRand s).2 := by
  unfold popRand
  split
  · exact h
  · exact h.users rfl

theorem wf_startNewOutpacket {s : Srv} (h : SrvWF s) (u : Nat) (d : List Nat) (n : Nat) : SrvWF (startNewOutpacket s u d n) := by
  unfold startNewOutpacket
  exact h.setUser _ _ fun x hx => hx.same

theorem wf_saveToOutpacketq {s : Srv} (h : SrvWF s) (u : Nat) (d : List Nat) (n : Nat) : SrvWF (saveToOutpacketq s u d n).1 := by
  unfold saveToOutpacketq
  extract_lets x
  split
  · exact h
  · exact h.setUser _ _ fun y hy => hy.same

theorem wf_getFromOutpacketq {s : Srv} (h : SrvWF s) (u : Nat) : SrvWF (getFromOutpacketq s u).1 := by
  unfold getFromOutpacketq
  extract_lets x use p s1 use'
  split
  · exact h
  · exact (wf_startNewOutpacket h u _ _).setUser _ _ fun y hy => hy.same

/-- `save_to_dnscache` -/
theorem wf_saveToDnscache {s : Srv} (h : SrvWF s) (u : Nat) (q : Query) (a : List Nat) : SrvWF (saveToDnscache s u q a) := by
  rw [saveToDnscache_eq, putUser]
  exact h.setUser _ _ fun _ _ => (h.get u).cacheUpd q a

/-- `save_to_qmem_pingordata` -/
theorem wf_saveToQmemPingOrData {s : Srv} (h : SrvWF s) (u : Nat) (q : Query) : SrvWF (saveToQmemPingOrData s u q) := by
  rw [saveToQmemPingOrData_eq, putUser]
  exact h.setUser _ _ fun _ _ => (h.get u).qmemUpd q

theorem wf_scDropResent {s : Srv} (h : SrvWF s) (u : Nat) : SrvWF (scDropResent s u) := by
  unfold scDropResent
  extract_lets x
  split
  · exact wf_getFromOutpacketq (h.setUser _ _ fun x hx => hx.same) u
  · exact h

theorem wf_scPrepare {s : Srv} (h : SrvWF s) (u : Nat) : SrvWF (scPrepare s u) := by
  unfold scPrepare
  split
  · exact h.setUser _ _ fun x hx => hx.same
  · exact h

theorem wf_processDownstreamAck {s : Srv} (h : SrvWF s) (u : Nat) (a b : Int) : SrvWF (processDownstreamAck s u a b) := by
  unfold processDownstreamAck
  extract_lets x off s1
  split
  · exact h
  · split
    · exact h
    · split
      · exact h
      · have h1 : SrvWF s1 := h.setUser _ _ fun x hx => hx.same
        split
        · exact wf_getFromOutpacketq (h1.setUser _ _ fun x hx => hx.same) u
        · exact h1

theorem wf_saveQuery {s : Srv} (h : SrvWF s) (u : Nat) (q : Query) : SrvWF (saveQuery s u q) := by
  unfold saveQuery
  exact h.setUser _ _ fun x hx => hx.same

theorem wf_rememberDuplicate {s s' : Srv} (h : SrvWF s) (u : Nat) (q : Query) (hd : rememberDuplicate s u q = some s') :
    SrvWF s' := by
  unfold rememberDuplicate at hd
  extract_lets x at hd
  split at hd
  · cases hd; exact h.setUser _ _ fun x hx => hx.same
  · split at hd
    · cases hd; exact h.setUser _ _ fun x hx => hx.same
    · cases hd

/-! ### `send_chunk_or_dataless`, `tunnel_tun`, `handle_full_packet` -/

theorem wf_sc {s : Srv} (h : SrvWF s) (u : Nat) (w : QSel) : WFRes (sendChunkOrDataless s u w).1 := by
  unfold sendChunkOrDataless
  extract_lets s1 x datalen pkt a s2 s3 src s4 r
  have h1 : SrvWF s1 := wf_scPrepare (wf_scDropResent h u) u
  have h2 : SrvWF s2 := wf_saveToQmemPingOrData h1 u _
  have h3 : SrvWF s3 := wf_saveToDnscache h2 u _ pkt
  have h4 : SrvWF s4 := h3.setUser _ _ fun y hy => by cases w <;> exact hy.same
  split
  · exact wf_getFromOutpacketq (h4.setUser _ _ fun y hy => hy.same) u
  · exact h4

theorem wf_sendWaiting {s : Srv} (h : SrvWF s) (u : Nat) : WFRes (sendWaiting s u) := by
  unfold sendWaiting
  extract_lets x
  exact wf_ite (wf_sc h u .qs) (wf_ite (wf_sc h u .q) (wf_nil h))

theorem wf_tunnelTun {s : Srv} (h : SrvWF s) (frame : List Nat) : WFRes (tunnelTun s frame) := by
  unfold tunnelTun
  apply wf_ite (wf_nil h)
  apply wf_ite (wf_nil h)
  split
  · exact h
  · extract_lets out x
    apply wf_ite _ (wf_nil h)
    exact wf_ite (wf_saveToOutpacketq h _ _ _) (wf_sendWaiting (wf_startNewOutpacket h _ _ _) _)

theorem wf_deliverToUser {s : Srv} (h : SrvWF s) (t : Nat) (d : List Nat) (n : Nat) : WFRes (deliverToUser s t d n) := by
  unfold deliverToUser
  extract_lets y
  apply wf_ite _ (wf_nil h)
  exact wf_ite (wf_sendWaiting (wf_startNewOutpacket h _ _ _) _) (wf_saveToOutpacketq h _ _ _)

theorem wf_handleFullPacket {s : Srv} (h : SrvWF s) (u : Nat) : WFRes (handleFullPacket s u) := by
  unfold handleFullPacket
  extract_lets x r
  have hr : WFRes r := by
    simp only [r]
    split
    · apply wf_ite _ (wf_nil h)
      split
      · exact h
      · exact wf_deliverToUser h _ _ _
    · exact h
  exact SrvWF.setUser hr _ _ fun y hy => hy.same

/-! ### the null-request handlers -/

theorem wf_handleVersion {s : Srv} (h : SrvWF s) (q : Query) (inb : List Nat) : WFRes (handleVersion s q inb) := by
  unfold handleVersion
  extract_lets unpacked version
  apply wf_ite _ (wf_nil h)
  have hf := wf_findAvailableUser h
  split
  · rename_i u s1 he
    rw [he] at hf
    extract_lets r s2
    have h2 : SrvWF s2 := (wf_popRand hf).setUser _ _ fun x hx => hx.same
    exact h2.setUser _ _ fun x hx => hx.resetSession
  · rename_i s1 he
    rw [he] at hf
    exact hf

theorem wf_handleLogin {s : Srv} (h : SrvWF s) (q : Query) (inb : List Nat) : WFRes (handleLogin s q inb) := by
  unfold handleLogin
  extract_lets unpacked userid u s1 x logindata out
  apply wf_ite (wf_nil h)
  apply wf_ite (wf_nil h)
  have h1 : SrvWF s1 := h.setUser _ _ fun y hy => hy.same
  exact wf_ite (h1.setUser _ _ fun y hy => hy.same) (wf_nil h1)

theorem wf_handleIp {s : Srv} (h : SrvWF s) (q : Query) (inb : List Nat) : WFRes (handleIp s q inb) := by
  unfold handleIp
  extract_lets userid
  exact wf_ite (wf_nil h) (wf_nil h)

theorem wf_handleSwitchCodec {s : Srv} (h : SrvWF s) (q : Query) (dlen : Nat) (inb : List Nat) :
    WFRes (handleSwitchCodec s q dlen inb) := by
  unfold handleSwitchCodec
  apply wf_ite (wf_nil h)
  extract_lets userid u dn codec sw
  apply wf_ite (wf_nil h)
  have hsw : ∀ e, WFRes (sw e) := fun e => wf_userSwitchCodec h u e
  exact wf_ite (hsw _) (wf_ite (hsw _) (wf_ite (hsw _) (wf_ite (hsw _) (wf_nil h))))

theorem wf_handleOptions {s : Srv} (h : SrvWF s) (q : Query) (dlen : Nat) (inb : List Nat) :
    WFRes (handleOptions s q dlen inb) := by
  unfold handleOptions
  apply wf_ite (wf_nil h)
  extract_lets userid u c setDn setLazy
  apply wf_ite (wf_nil h)
  have h1 : ∀ d m, WFRes (setDn d m) := fun d m => h.setUser _ _ fun x hx => hx.same
  have h2 : ∀ l m, WFRes (setLazy l m) := fun l m => h.setUser _ _ fun x hx => hx.same
  exact wf_ite (h1 _ _) (wf_ite (h1 _ _) (wf_ite (h1 _ _) (wf_ite (h1 _ _) (wf_ite (h1 _ _)
    (wf_ite (h2 _ _) (wf_ite (h2 _ _) (wf_nil h)))))))

theorem wf_handleDownCodecCheck {s : Srv} (h : SrvWF s) (q : Query) (dlen : Nat) (inb : List Nat) :
    WFRes (handleDownCodecCheck s q dlen inb) := by
  unfold handleDownCodecCheck
  apply wf_ite (wf_nil h)
  apply wf_ite (wf_nil h)
  extract_lets c named rawOk dn
  clear_value dn
  cases dn <;> exact h

theorem wf_handleFragsizeProbe {s : Srv} (h : SrvWF s) (q : Query) (dlen : Nat) (inb : List Nat) :
    WFRes (handleFragsizeProbe s q dlen inb) := by
  unfold handleFragsizeProbe
  apply wf_ite (wf_nil h)
  extract_lets b1 userid u req r
  apply wf_ite (wf_nil h)
  apply wf_ite (wf_nil h)
  exact wf_popRand h

theorem wf_handleSetFragsize {s : Srv} (h : SrvWF s) (q : Query) (inb : List Nat) : WFRes (handleSetFragsize s q inb) := by
  unfold handleSetFragsize
  extract_lets unpacked userid u maxFrag
  apply wf_ite (wf_nil h)
  apply wf_ite (wf_nil h)
  apply wf_ite (wf_nil h)
  exact h.setUser _ _ fun x hx => hx.clearCache _ _

theorem wf_pingFresh {s : Srv} (h : SrvWF s) (u : Nat) (q : Query) (unpacked : List Nat) : WFRes (pingFresh s u q unpacked) := by
  unfold pingFresh
  extract_lets b s1 r1 t r2 didsend s3 x r3
  have h1 : SrvWF s1 := wf_processDownstreamAck h u _ _
  have g1 : WFRes r1 := wf_ite (wf_sc h1 u .qs) (wf_nil h1)
  have g2 : WFRes r2.1 := by
    simp only [r2, t]
    split
    · dsimp only
      exact wf_sc g1 u .q
    · exact g1
  have h3 : SrvWF s3 := wf_saveQuery g2 u q
  exact wf_ite (wf_sc h3 u .q) (wf_nil h3)

theorem wf_handlePing {s : Srv} (h : SrvWF s) (q : Query) (inb : List Nat) : WFRes (handlePing s q inb) := by
  unfold handlePing
  apply wf_ite (wf_nil h)
  extract_lets unpacked userid u
  apply wf_ite (wf_nil h)
  apply wf_ite (wf_nil h)
  split
  · exact h
  · split
    · exact h
    · split
      · rename_i s' hd; exact wf_rememberDuplicate h _ q hd
      · exact wf_pingFresh h _ q _

theorem wf_dataStepQs {s : Srv} (h : SrvWF s) (u : Nat) : WFRes (dataStepQs s u).1 := by
  unfold dataStepQs
  split
  · exact wf_sc h u .qs
  · exact h

theorem wf_dataStepQ {s : Srv} (h : SrvWF s) (u : Nat) (a b c : Bool) : WFRes (dataStepQ s u a b c).1 := by
  unfold dataStepQ
  extract_lets x
  split
  · split
    · exact wf_sc h u .q
    · exact h.setUser _ _ fun y hy => hy.same
  · exact h

theorem wf_dataStepFinal {s : Srv} (h : SrvWF s) (u : Nat) (a b c : Bool) : WFRes (dataStepFinal s u a b c) := by
  unfold dataStepFinal
  extract_lets x
  exact wf_ite (wf_sc h u .q) (wf_ite (wf_ite (h.setUser _ _ fun y hy => hy.same) (wf_sc h u .q)) (wf_nil h))

theorem ringWF_dataUpstream {x : Session} (h : RingWF x) (a b : Nat) : RingWF (dataUpstream x a b).1 := by
  unfold dataUpstream
  split
  · exact h
  · split
    · exact h
    · split
      · exact h.same
      · exact h.same

theorem ringWF_dataStore {x : Session} (h : RingWF x) (p : List Nat) : RingWF (dataStore x p) := by
  unfold dataStore
  exact h.same

theorem wf_dataFresh {s : Srv} (h : SrvWF s) (u : Nat) (q : Query) (inb : List Nat) : WFRes (dataFresh s u q inb) := by
  unfold dataFresh
  extract_lets b1 b2 b3 upSeq upFrag dnSeq dnFrag lastfrag s1 up upstreamOk s2 r3 r4 r5 s6 r7
  have h1 : SrvWF s1 := wf_processDownstreamAck h u _ _
  have hup : RingWF up.1 := ringWF_dataUpstream (h1.get u) _ _
  have h2 : SrvWF s2 := by
    apply h1.setUser
    intro _ _
    split
    · exact ringWF_dataStore hup _
    · exact hup
  have g3 : WFRes r3 := wf_ite (wf_handleFullPacket h2 u) (wf_nil h2)
  have g4 : WFRes r4.1 := wf_dataStepQs g3 u
  have g5 : WFRes r5.1 := wf_dataStepQ g4 u _ _ _
  have h6 : SrvWF s6 := wf_saveQuery g5 u q
  exact wf_dataStepFinal h6 u _ _ _

theorem wf_handleData {s : Srv} (h : SrvWF s) (q : Query) (dlen : Nat) (inb : List Nat) : WFRes (handleData s q dlen inb) := by
  unfold handleData
  apply wf_ite (wf_nil h)
  apply wf_ite (wf_nil h)
  extract_lets userid u
  apply wf_ite (wf_nil h)
  split
  · exact h
  · split
    · exact h
    · split
      · rename_i s' hd; exact wf_rememberDuplicate h _ q hd
      · exact wf_dataFresh h _ q _

theorem wf_handleNullRequest {s : Srv} (h : SrvWF s) (q : Query) (dlen : Nat) : WFRes (handleNullRequest s q dlen) := by
  unfold handleNullRequest
  apply wf_ite (wf_nil h)
  extract_lets inb c
  clear_value c inb
  apply wf_ite (wf_handleVersion h q inb)
  apply wf_ite (wf_handleLogin h q inb)
  apply wf_ite (wf_handleIp h q inb)
  apply wf_ite (show WFRes (handleZ s q inb) from h)
  apply wf_ite (wf_handleSwitchCodec h q dlen inb)
  apply wf_ite (wf_handleOptions h q dlen inb)
  apply wf_ite (wf_handleDownCodecCheck h q dlen inb)
  apply wf_ite (wf_handleFragsizeProbe h q dlen inb)
  apply wf_ite (wf_handleSetFragsize h q inb)
  apply wf_ite (wf_handlePing h q inb)
  apply wf_ite (wf_handleData h q dlen inb)
  exact h

/-! ### the other request kinds, raw mode -/

theorem wf_tunnelDns {s : Srv} (h : SrvWF s) (q : Query) : WFRes (tunnelDns s q) := by
  unfold tunnelDns
  apply wf_ite (wf_nil h)
  split
  · extract_lets n
    clear_value n
    apply wf_ite (show WFRes (handleARequest s q false) from by unfold handleARequest; extract_lets d; exact wf_ite (wf_nil h) (wf_nil h))
    apply wf_ite (show WFRes (handleARequest s q true) from by unfold handleARequest; extract_lets d; exact wf_ite (wf_nil h) (wf_nil h))
    apply wf_ite (wf_handleNullRequest h q _)
    apply wf_ite (show WFRes (handleNsRequest s q _) from by unfold handleNsRequest; exact wf_ite (wf_nil h) (wf_nil h))
    exact h
  · exact wf_ite (show WFRes (forwardQuery s q) from h.users rfl) (wf_nil h)

theorem wf_handleRawLogin {s : Srv} (h : SrvWF s) (packet : List Nat) (q : Query) (u : Nat) :
    WFRes (handleRawLogin s packet q u) := by
  unfold handleRawLogin
  apply wf_ite (wf_nil h)
  apply wf_ite (wf_nil h)
  extract_lets x s1 s2 myhash
  apply wf_ite (wf_nil h)
  apply wf_ite (wf_nil h)
  apply wf_ite (wf_nil h)
  apply wf_ite _ (wf_nil h)
  have h1 : SrvWF s1 := h.setUser _ _ fun y hy => hy.same
  have h2 : SrvWF s2 := wf_userSetConnType h1 u _
  exact h2.setUser _ _ fun y hy => hy.same

theorem wf_handleRawData {s : Srv} (h : SrvWF s) (packet : List Nat) (q : Query) (u : Nat) :
    WFRes (handleRawData s packet q u) := by
  unfold handleRawData
  apply wf_ite (wf_nil h)
  apply wf_ite (wf_nil h)
  extract_lets s1
  exact wf_handleFullPacket (h.setUser _ _ fun y hy => hy.same) u

theorem wf_handleRawPing {s : Srv} (h : SrvWF s) (q : Query) (u : Nat) : WFRes (handleRawPing s q u) := by
  unfold handleRawPing
  apply wf_ite (wf_nil h)
  apply wf_ite (wf_nil h)
  exact h.setUser _ _ fun y hy => hy.same

theorem wf_rawDecode {s : Srv} (h : SrvWF s) (packet : List Nat) (src : Addr) (r : Res)
    (hr : rawDecode s packet src = some r) : WFRes r := by
  unfold rawDecode at hr
  split at hr
  · cases hr
  · split at hr
    · cases hr
    · extract_lets b u cmd q body at hr
      split at hr
      · cases hr; exact wf_handleRawLogin h body q u
      · split at hr
        · cases hr; exact wf_handleRawData h body q u
        · split at hr
          · cases hr; exact wf_handleRawPing h q u
          · cases hr; exact h

theorem wf_tunnelBind {s : Srv} (h : SrvWF s) (d : List Nat) : WFRes (tunnelBind s d) := by
  unfold tunnelBind
  apply wf_ite (wf_nil h)
  split <;> exact h

/-! ### the sweep, the top of the loop, one iteration -/

theorem wf_andThen {r : Res} {f : Srv → Res} (hr : WFRes r) (hf : SrvWF r.1 → WFRes (f r.1)) : WFRes (andThen r f) := hf hr

theorem wf_sweepFrom : ∀ (n i : Nat) {s : Srv}, SrvWF s → WFRes (sweepFrom n i s)
  | 0, _, _, h => h
  | n + 1, i, s, h => by
    unfold sweepFrom
    extract_lets x r
    have hr : WFRes r := wf_ite (wf_sc h i .qs) (wf_nil h)
    clear_value r
    exact wf_andThen hr fun h' => wf_sweepFrom n (i + 1) h'

theorem wf_dispatch {s : Srv} (h : SrvWF s) (inp : Input) (tunsel : Bool) : WFRes (dispatch s inp tunsel) := by
  cases inp with
  | tick => exact h
  | tun frame =>
    unfold dispatch
    simp only []
    exact wf_ite (wf_tunnelTun h _) (wf_nil h)
  | q q => exact wf_tunnelDns h q
  | rawf src bytes =>
    unfold dispatch
    simp only []
    split
    · rename_i r hr; exact wf_rawDecode h _ src r hr
    · exact h
  | bind bytes =>
    unfold dispatch
    simp only []
    exact wf_ite (wf_tunnelBind h _) (wf_nil h)

theorem wf_body {s : Srv} (h : SrvWF s) (inp : Input) (tunsel : Bool) : WFRes (body s inp tunsel) := by
  have h1 : WFRes (andThen (andThen (dispatch s inp tunsel) (fun s => (s, [Event.sweep]))) sweep) := by
    apply wf_andThen
    · exact wf_andThen (wf_dispatch h inp tunsel) fun h' => h'
    · intro h'
      exact wf_sweepFrom _ 0 h'
  unfold body
  generalize andThen (andThen (dispatch s inp tunsel) (fun s => (s, [Event.sweep]))) sweep = r at h1
  cases inp with
  | tun frame =>
    simp only []
    split
    · exact h1
    · exact h1
  | _ => exact h1

theorem wf_topOfLoop {s : Srv} (h : SrvWF s) (now' : Nat) : SrvWF { (topOfLoop s).1 with now := now' } := by
  intro y hy
  obtain ⟨x, hx, hxy⟩ := mem_clearNewFrom _ _ _ _ y hy
  have := h x hx
  rcases hxy with rfl | rfl
  · exact this
  · exact this.same

/-- **`RingWF` of every slot is an invariant of one iteration of `tunnel()`, for EVERY input** (any DNS query — all handlers —,
any raw datagram, any tun frame, any datagram on the forward socket, a timeout) and any clock value. -/
theorem srvWF_iteration {s : Srv} (h : SrvWF s) (inp : Input) (now' : Nat) : SrvWF (iteration s inp now').1 :=
  wf_body (wf_topOfLoop h now') inp _

end Iodine.C02L
