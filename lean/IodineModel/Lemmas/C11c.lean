import IodineModel.Lemmas.C11b
/-
C11, part c — the explicit list of the 18 character maps of the relay family and the finite facts about
the regenerated constants (`cb32 … cb128`, `pat64 … pat128e`, `DOWNCODECCHECK1`), checked by kernel
evaluation over that list.  `Props/C11.lean` defines the family declaratively (`RelayMap`) and shows that every
member's map is in `familyFns`.

The reverse tables of the codecs are `mkRev` searches, slow in the kernel; `fast c` reads a 256-entry table
instead and is proved equal to `c` (`fast_b32 … fast_b128`), so the decoding checks below run on `fast`.
-/
namespace Iodine.C11L
open Iodine Iodine.Gen Iodine.Codec Iodine.Encoding

/-! ### the maps -/

def caseFns : List (Nat → Nat) := [fun c => c, toLowerC, toUpperC]
def bitFns : List (Nat → Nat) := [fun c => c, fun c => c % 128]
def punctFns : List (Nat → Nat) :=
  [fun c => c, fun c => if c = 43 then 32 else c, fun c => if c = 95 then 45 else c]

/-- {case: keep | lower | upper} ∘ {8-bit: keep | strip} ∘ {punctuation: keep | '+'↦' ' | '_'↦'-'},
index `6·case + 3·bits + punct` -/
def familyFns : List (Nat → Nat) :=
  caseFns.flatMap fun cf => bitFns.flatMap fun bf => punctFns.map fun pf => fun c => cf (bf (pf c))

def IdOn (f : Nat → Nat) (A : List Nat) : Prop := ∀ c ∈ A, f c = c
instance (f : Nat → Nat) (A : List Nat) : Decidable (IdOn f A) := by unfold IdOn; infer_instance
instance (c : Codec) (f : Nat → Nat) (s : List Nat) : Decidable (Transparent c f s) := by
  unfold Transparent; infer_instance
instance (f : Nat → Nat) (s : List Nat) : Decidable (DotPreserving f s) := by
  unfold DotPreserving; infer_instance

theorem idOn_iff_map {f : Nat → Nat} {A : List Nat} : IdOn f A ↔ A.map f = A := map_eq_self_iff.symm

/-! ### fast reverse tables -/

theorem mkRev_eq_zero {writes : List (Nat × Nat)} {c : Nat} (h : ∀ w ∈ writes, w.1 ≠ c) : mkRev writes c = 0 := by
  unfold mkRev
  have : writes.reverse.find? (fun w => w.1 == c) = none := by
    rw [List.find?_eq_none]
    intro w hw
    have := h w (List.mem_reverse.mp hw)
    simpa using this
  rw [this]

def revTab (c : Codec) : List Nat := (List.range 256).map c.rev

def fast (c : Codec) : Codec := { c with rev := fun ch => (revTab c).getD ch 0 }

theorem fast_eq (c : Codec) (h : ∀ ch, 256 ≤ ch → c.rev ch = 0) : fast c = c := by
  have : (fun ch => (revTab c).getD ch 0) = c.rev := by
    funext ch
    unfold revTab
    by_cases hch : ch < 256
    · simp [List.getD_eq_getElem?_getD, hch]
    · rw [h ch (by omega), List.getD_eq_getElem?_getD, List.getElem?_eq_none (by simp; omega)]
      rfl
  unfold fast
  rw [this]

theorem rev_big_of_keys {writes : List (Nat × Nat)} (hk : ∀ w ∈ writes, w.1 < 256) :
    ∀ ch, 256 ≤ ch → mkRev writes ch = 0 :=
  fun ch hch => mkRev_eq_zero fun w hw e => by have := hk w hw; omega

theorem fast_b32 : fast b32 = b32 :=
  fast_eq b32 (rev_big_of_keys (writes := rev32Writes) (by decide +kernel))
theorem fast_b64 : fast b64 = b64 :=
  fast_eq b64 (rev_big_of_keys (writes := revWrites cb64) (by decide +kernel))
theorem fast_b64u : fast b64u = b64u :=
  fast_eq b64u (rev_big_of_keys (writes := revWrites cb64u) (by decide +kernel))
theorem fast_b128 : fast b128 = b128 :=
  fast_eq b128 (rev_big_of_keys (writes := revWrites cb128) (by decide +kernel))

theorem namedec_fast : namedec = namedecG (fast b32) (fast b64) (fast b64u) (fast b128) := by
  rw [fast_b32, fast_b64, fast_b64u, fast_b128]; rfl

/-! ### upstream: the probe strings against the alphabets -/

/-- Base128: the five probe strings together contain the whole alphabet. -/
theorem cover_b128 : ∀ c ∈ cb128, ∃ p ∈ [pat128a, pat128b, pat128c, pat128d, pat128e], c ∈ p := by
  decide +kernel

/-- Base64: `pat64` contains the whole alphabet except the digits '3' … '8'. -/
theorem cover_b64 : ∀ c ∈ cb64, c ∈ pat64 ∨ (51 ≤ c ∧ c ≤ 56) := by decide +kernel
theorem cover_b64u : ∀ c ∈ cb64u, c ∈ pat64u ∨ (51 ≤ c ∧ c ≤ 56) := by decide +kernel

/-- no map of the family touches a digit, '-' or '.' -/
theorem family_fixes_digits : ∀ f ∈ familyFns, ∀ c, c < 65 → c ≠ 43 → f c = c := by
  decide +kernel

/-- all images stay bytes -/
theorem family_lt : ∀ f ∈ familyFns, ∀ c, c < 256 → f c < 256 := by decide +kernel

/-! ### Base32 survives every map of the family -/

theorem family_b32_transparent : ∀ f ∈ familyFns, Transparent b32 f cb32 := by
  rw [← fast_b32]; decide +kernel

/-- the family turns no byte except '.' (and, when stripping, 0xAE) into a dot and no byte except 0 (and
0x80) into NUL; in particular no alphabet character -/
theorem family_dots : ∀ f ∈ familyFns, f DOT = DOT ∧
    DotPreserving f (DOT :: (cb32 ++ cb64 ++ cb64u ++ cb128)) := by decide +kernel

/-- codec letters keep their meaning for `dns_namedec` (which accepts both cases) -/
theorem family_letters : ∀ f ∈ familyFns, ∀ l ∈ [104, 105, 106, 107, 116, 115, 117, 118, 114],
    f l = l ∨ f l + 32 = l := by decide +kernel

end Iodine.C11L
