import IodineModel.Lemmas.SrvC14d
/-
Helper lemmas for property C14, part e (for the (B)/(C) theorems): per-session inclusion.
`Inc X s r`: the tunnel-data answers (`.chunk v` / `.dupe v`) of a step go to keys that session `v` held
before the step (or to a key of `X`, the arriving query), and what a session holds afterwards it held before
(or is in `X`).
-/
namespace Iodine.C14L
open Iodine Iodine.Server Iodine.Gen

/-- keys of the tunnel-data answers for session `v` -/
def uKeys (v : Nat) : Event → List Key
  | .ans dst id type _ name _ tag => if tag = .chunk v ∨ tag = .dupe v then [(dst, id, name, type)] else []
  | _ => []

def ukeys (v : Nat) (evs : List Event) : List Key := evs.flatMap (uKeys v)

@[simp] theorem ukeys_nil (v : Nat) : ukeys v [] = [] := rfl
@[simp] theorem ukeys_cons (v : Nat) (e : Event) (evs : List Event) : ukeys v (e :: evs) = uKeys v e ++ ukeys v evs := rfl
@[simp] theorem ukeys_append (v : Nat) (a b : List Event) : ukeys v (a ++ b) = ukeys v a ++ ukeys v b := by
  simp [ukeys]

/-- no tunnel-data answer among the events -/
def NoChunk (evs : List Event) : Prop := ∀ v, ukeys v evs = []

theorem noChunk_nil : NoChunk [] := fun _ => rfl
theorem noChunk_one {e : Event} (h : ∀ v, uKeys v e = []) : NoChunk [e] := fun v => by simp [h v]

theorem uKeys_writeDns_ctrl (v : Nat) (q : Query) (d : List Nat) (e : Nat) : uKeys v (writeDns q d e .ctrl) = [] := by
  simp [uKeys, writeDns]
theorem uKeys_writeDns_cached (v u : Nat) (q : Query) (d : List Nat) (e : Nat) :
    uKeys v (writeDns q d e (.cached u)) = [] := by simp [uKeys, writeDns]
theorem uKeys_writeDns_qmem (v u : Nat) (q : Query) (d : List Nat) (e : Nat) :
    uKeys v (writeDns q d e (.qmem u)) = [] := by simp [uKeys, writeDns]
theorem uKeys_sendVersionResponse (v : Nat) (s : Srv) (kind : VersionAck) (p u : Nat) (q : Query) :
    uKeys v (sendVersionResponse s kind p u q) = [] := by simp [uKeys, sendVersionResponse, writeDns]

/-- the stored queries of slot `v` -/
def QV (s : Srv) (v : Nat) : QP := QQ (getUser s v)

theorem SameQ.qv {s s' : Srv} (h : SameQ s s') (v : Nat) : QV s' v = QV s v := h.qq v

theorem getD_set {α} (d p : α) (l : List α) (u v : Nat) :
    (l.set u p).getD v d = if v = u ∧ u < l.length then p else l.getD v d := by
  simp only [List.getD_eq_getElem?_getD, List.getElem?_set]
  by_cases h : u = v
  · subst h
    by_cases h2 : u < l.length
    · simp [h2]
    · simp [h2]
  · have : ¬ v = u := fun e => h e.symm
    simp [h, this]

theorem QV_setUser (s : Srv) (u : Nat) (f : Session → Session) (v : Nat) :
    QV (setUser s u f) v = if v = u ∧ u < s.users.length then QQ (f (getUser s u)) else QV s v := by
  unfold QV
  rw [QQ_getUser, qview_setUser, getD_set, QQ_getUser]
  simp [qview]

structure Inc (X : List Key) (s : Srv) (r : Res) : Prop where
  ev : ∀ v k, k ∈ ukeys v r.2 → k ∈ pairKeys (QV s v) ∨ k ∈ X
  st : ∀ v k, k ∈ pairKeys (QV r.1 v) → k ∈ pairKeys (QV s v) ∨ k ∈ X

theorem Inc.seq {X : List Key} {s : Srv} {r1 r2 : Res} (h1 : Inc X s r1) (h2 : Inc X r1.1 r2) :
    Inc X s (r2.1, r1.2 ++ r2.2) := by
  constructor
  · intro v k hk
    rw [ukeys_append] at hk
    rcases List.mem_append.1 hk with hk | hk
    · exact h1.ev v k hk
    · rcases h2.ev v k hk with h | h
      · exact h1.st v k h
      · exact Or.inr h
  · intro v k hk
    rcases h2.st v k hk with h | h
    · exact h1.st v k h
    · exact Or.inr h

theorem inc_keep {X : List Key} {s s' : Srv} {evs : List Event} (h : SameQ s s') (he : NoChunk evs) :
    Inc X s (s', evs) :=
  ⟨fun v k hk => by rw [he v] at hk; exact absurd hk List.not_mem_nil,
   fun v k hk => by rw [h.qv v] at hk; exact Or.inl hk⟩

theorem Inc.preSameQ {X : List Key} {s s' : Srv} {r : Res} (h : SameQ s s') (hb : Inc X s' r) : Inc X s r :=
  ⟨fun v k hk => by have := hb.ev v k hk; rwa [h.qv v] at this,
   fun v k hk => by have := hb.st v k hk; rwa [h.qv v] at this⟩

theorem Inc.postSameQ {X : List Key} {s s' : Srv} {r : Res} (h : SameQ r.1 s') (hb : Inc X s r) : Inc X s (s', r.2) :=
  ⟨hb.ev, fun v k hk => by rw [h.qv v] at hk; exact hb.st v k hk⟩

theorem inc_ite {X : List Key} {s : Srv} {c : Prop} [Decidable c] {a b : Res}
    (ha : Inc X s a) (hb : Inc X s b) : Inc X s (if c then a else b) := by
  split <;> assumption

/-- a write to slot `u` whose new stored queries were stored before (or are in `X`) -/
theorem inc_setUser {X : List Key} (s : Srv) (u : Nat) (f : Session → Session) {evs : List Event}
    (hsub : ∀ k, k ∈ pairKeys (QQ (f (getUser s u))) → k ∈ pairKeys (QV s u) ∨ k ∈ X) (he : NoChunk evs) :
    Inc X s (setUser s u f, evs) := by
  constructor
  · intro v k hk; rw [he v] at hk; cases hk
  · intro v k hk
    rw [QV_setUser] at hk
    split at hk
    · rename_i h; rw [h.1]; exact hsub k hk
    · exact Or.inl hk

theorem mem_of_count_le {A B : List Key} {k : Key} (h : A.count k ≤ B.count k) (hk : k ∈ A) : k ∈ B := by
  have := List.count_pos_iff.2 hk
  exact List.count_pos_iff.1 (by omega)

/-! ### send_chunk_or_dataless -/

theorem ukeys_scAnswer (v : Nat) (q : Query) (pkt : List Nat) (dn u : Nat) (h : q.id ≠ 0) :
    ukeys v (scAnswer q pkt dn u).2 = if v = u then qKeys q else [] := by
  unfold scAnswer qKeys
  by_cases h2 : q.id2 = 0
  · by_cases hv : v = u
    · subst hv; simp [h, h2, uKeys, writeDns, keyOf]
    · have : u ≠ v := fun e => hv e.symm
      simp [h2, uKeys, writeDns, hv, this]
  · by_cases hv : v = u
    · subst hv; simp [h, h2, uKeys, writeDns, keyOf, key2]
    · have : u ≠ v := fun e => hv e.symm
      simp [h2, uKeys, writeDns, hv, this]

theorem mem_pairKeys_of_get {w : QSel} {y : Session} {k : Key} (h : k ∈ qKeys (w.get y)) : k ∈ pairKeys (QQ y) := by
  cases w
  · exact List.mem_append_left _ h
  · exact List.mem_append_right _ h

theorem sc_inc (X : List Key) (s : Srv) (u : Nat) (w : QSel) (h : (w.get (getUser s u)).id ≠ 0) :
    Inc X s (sendChunkOrDataless s u w).1 := by
  obtain ⟨s3, pkt, dn, h3, h4, h5⟩ := sc_shape s u w
  constructor
  · intro v k hk
    rw [h5, ukeys_scAnswer _ _ _ _ _ h] at hk
    split at hk
    · rename_i hv; subst hv
      exact Or.inl (mem_pairKeys_of_get hk)
    · cases hk
  · intro v k hk
    rw [h4.qv v, QV_setUser] at hk
    split at hk
    · rename_i hv
      rw [hv.1]
      have c := QQ_set_get w (getUser s3 u) (scAnswer (w.get (getUser s u)) pkt dn u).1 k
      have := mem_of_count_le (B := pairKeys (QQ (getUser s3 u))) (by omega) hk
      rw [← h3.qv u]; exact Or.inl this
    · rw [h3.qv v] at hk; exact Or.inl hk

theorem sendWaiting_inc (X : List Key) (s : Srv) (u : Nat) : Inc X s (sendWaiting s u) := by
  unfold sendWaiting
  simp only []
  split
  · exact sc_inc X s u .qs (by assumption)
  · split
    · exact sc_inc X s u .q (by assumption)
    · exact inc_keep (SameQ.refl _) noChunk_nil

end Iodine.C14L
