import IodineModel.Lemmas.C02qM4
/-
C02 phase 2 / DOWNSTREAM, LAZY mode, desynchronised — part 5: ONE packet offered to the server in a quiescent state in which
the server's downstream sequence number is `d` ahead of the client's.
* `down_packet_lazy_desync_drop` (`4 ≤ d ≤ 6`, or `d = 7` and the client's fragment number is not 0): the packet is LOST;
  after `dropStepsL sps g` scheduler steps the state is `QuietLazyD P 0 ((d + 1) % 8)`.
* `down_packet_lazy_desync_ok` (`d ≤ 3`): the packet is delivered exactly once, as on the clean path; `QuietLazy` again.
-/
namespace Iodine.C02L
open Iodine Iodine.Gen Iodine.World

/-- Scheduler steps (after `offerS`) until a packet of `g` fragments that falls into the client's window is given up:
`g = 1`: the server forgot the packet when it sent it ("whole packet was sent in one chunk, don't wait for ack"), so there is
one cycle `deliverDown tickC deliverUp` (3 steps; 2 if a ping was due at the client: no `tickC`) and the ping is held;
`g > 1`: the server sends fragment 0 SIX times (the original and five resends, one cycle each), the 7th call of
`send_chunk_or_dataless` drops the packet and answers dataless, and one more cycle makes the server hold a ping: 7 cycles,
21 steps (20 if a ping was due at the client at the start). -/
def dropStepsL (sps g : Nat) : Nat := if g = 1 then cycleSteps sps else cycleSteps sps + 18

/-- the sequence number `d + 1` ahead of the client's falls into the client's window -/
theorem inWin_of_desync {c : Client.Cli} (hs : 0 ≤ c.inpkt.seqno ∧ c.inpkt.seqno < 8) {d : Nat}
    (hd : (4 ≤ d ∧ d ≤ 6) ∨ (d = 7 ∧ c.inpkt.fragment ≠ 0)) : InWinC c ((c.inpkt.seqno + d + 1) % 8) := by
  rcases hd with ⟨h4, h6⟩ | ⟨h7, hf⟩
  · left
    refine ⟨by omega, ?_⟩
    rw [recentSeqno_iff _ _ hs]
    exact ⟨7 - d, by omega, by omega⟩
  · right
    exact ⟨by subst h7; omega, hf⟩

/-- `g = 1` iff the first fragment is the whole packet -/
theorem downFrags_one_iff (F n : Nat) (hn : 0 < n) (hF : 0 < F) :
    downFrags F n n = 1 ↔ downLen F n = n := by
  obtain ⟨m, rfl⟩ : ∃ m, n = m + 1 := ⟨n - 1, by omega⟩
  have hu : downFrags F (m + 1) (m + 1) = 1 + downFrags F m (m + 1 - downLen F (m + 1)) := by
    show (if m + 1 = 0 then 0 else 1 + downFrags F m (m + 1 - downLen F (m + 1))) = _
    rw [if_neg (by omega)]
  have hle : downLen F (m + 1) ≤ m + 1 := by unfold downLen; omega
  have hpos : 0 < downLen F (m + 1) := by unfold downLen; omega
  rw [hu]
  constructor
  · intro h
    by_cases hR : m + 1 - downLen F (m + 1) = 0
    · omega
    · exfalso
      cases m with
      | zero => omega
      | succ k =>
        have : 1 ≤ downFrags F (k + 1) (k + 1 + 1 - downLen F (k + 1 + 1)) := by
          show 1 ≤ (if k + 1 + 1 - downLen F (k + 1 + 1) = 0 then 0 else _)
          rw [if_neg hR]; omega
        omega
  · intro h
    rw [h, Nat.sub_self, downFrags_zero]

/-- **One packet downstream, lazy mode, from a desynchronised state: the packet is LOST** (c02:seqno-window).  In a
quiescent joint state in which the server's downstream sequence number is `d` ahead of the client's — `4 ≤ d ≤ 6`, or
`d = 7` while the client's current fragment number is not 0 — a frame offered to the server (`g ≤ 16` fragments) is NOT
written to the client's tun device: its first fragment carries a sequence number of the client's window and is not taken;
the client pings with its own `(seqno, fragment)`, which `process_downstream_ack` does not match; the server answers each
ping with fragment 0 again until `outfragresent` exceeds 5, drops the packet and answers dataless; that number is not
adopted.  After exactly `dropStepsL sps g` steps of the prompt schedule the joint state is quiescent again with the server
`(d + 1) % 8` ahead; nothing was written to either tun device, the client's `inpkt` is untouched. -/
theorem down_packet_lazy_desync_drop {P : Par} (hP : P.Ok) {w : W} {d : Nat} (hq : QuietLazyD P 0 d w)
    (hd : (4 ≤ d ∧ d ≤ 6) ∨ (d = 7 ∧ w.cs.c.inpkt.fragment ≠ 0)) (frame : List Nat)
    (hF : 0 < (Server.getUser w.srv P.u).fragsize)
    (hok : DownFrameOk (Server.getUser w.srv P.u).tunIp (Server.getUser w.srv P.u).fragsize frame) :
    ∃ w', promptSteps P.u (dropStepsL w.cs.c.sendPingSoon
          (downFrags (Server.getUser w.srv P.u).fragsize (frame.length + 1) (frame.length + 1)))
        (step w (.offerS frame)) = some w' ∧
      QuietLazyD P 0 ((d + 1) % 8) w' ∧ w'.cs.c.sendPingSoon = 0 ∧ w'.tunC = w.tunC ∧ w'.tunS = w.tunS ∧
      (Server.getUser w'.srv P.u).fragsize = (Server.getUser w.srv P.u).fragsize ∧
      (Server.getUser w'.srv P.u).tunIp = (Server.getUser w.srv P.u).tunIp ∧ w'.cs.c.inpkt = w.cs.c.inpkt := by
  obtain ⟨w1, hw1, hfl, ht1, ht2, htip1, hfs1, hcs1⟩ := down_offer_lazyD hP hq frame hok.h24 hok.hl hok.dst hF
  have hciseq := hq.cst.iseq
  have hwin0 : InWinC w.cs.c ((w.cs.c.inpkt.seqno + d + 1) % 8) := inWin_of_desync hciseq hd
  have hwin : InWinC w1.cs.c ((w.cs.c.inpkt.seqno + d + 1) % 8) := by rw [hcs1]; exact hwin0
  have hdd : (w.cs.c.inpkt.seqno + d + 1) % 8 = (w1.cs.c.inpkt.seqno + ((d + 1) % 8 : Nat)) % 8 := by
    rw [hcs1]; omega
  generalize hFdef : (Server.getUser w.srv P.u).fragsize = F at hok hF hfl hfs1 ⊢
  generalize hsq : (w.cs.c.inpkt.seqno + d + 1) % 8 = sq at hfl hwin hdd
  rw [hw1]
  have hlen : (0x5a :: frame).length = frame.length + 1 := by simp
  generalize hD : downLen F (0x5a :: frame).length = D at hfl
  have hg1 := downFrags_one_iff F (frame.length + 1) (by omega) hF
  rw [← hlen, hD] at hg1
  obtain ⟨name, pkt, hdown, hnd, hfp⟩ := hfl.down
  have hsps1 : w1.cs.c.sendPingSoon = w.cs.c.sendPingSoon := by rw [hcs1]
  by_cases hone : D = (0x5a :: frame).length
  · -- ONE fragment: the server has forgotten the packet already
    have hgo : downFrags F (frame.length + 1) (frame.length + 1) = 1 := by rw [← hlen]; exact hg1.2 hone
    obtain ⟨name', w2, hs1, hpu, hsrv2, htc2, hts2⟩ := drop_recv hP hfl.ph hfl.cst hfl.cnt hfl.idleC hfl.up hdown hnd hfp hfl.hD
      hwin hfl.srv.noq hfl.syncu hfl.aged hfl.paged
    have hopx := hfl.opx
    rw [if_pos hone] at hopx
    obtain ⟨w', hs2, hq2, hQ, hsps, htc, hts, hfs, htip, hin⟩ := hold_stepD hP hpu (by rw [hsrv2, hopx]) (dd := (d + 1) % 8)
      (by rw [hsrv2, hopx]; exact hdd)
    refine ⟨w', ?_, hQ, hsps, by rw [htc, htc2, ht2], by rw [hts, hts2, ht1], by rw [hfs, hsrv2, hfs1], by rw [htip, hsrv2, htip1],
      by rw [hin]; show w1.cs.c.inpkt = _; rw [hcs1]⟩
    have h3 : promptSteps P.u 1 w2 = some w' := by rw [promptSteps_succ hq2, hs2]; rfl
    have := promptSteps_add P.u _ 1 w1 w2 hs1
    rw [h3] at this
    rw [← this, hgo, hsps1]
    unfold dropStepsL cycleSteps
    rw [if_pos rfl]
    split <;> rfl
  · -- several fragments: six copies of fragment 0, then the packet is dropped
    have hgn : downFrags F (frame.length + 1) (frame.length + 1) ≠ 1 := by
      intro h; rw [← hlen] at h; exact hone (hg1.1 h)
    have hlt : D < (0x5a :: frame).length := by have := hfl.hle; omega
    have hopx := hfl.opx
    rw [if_neg hone] at hopx
    have hresx := hfl.res
    rw [if_neg hone] at hresx
    have hdec : decide ((0x5a :: frame).length > 0 ∧ (0x5a :: frame).length = 0 + D) = false := by
      rw [decide_eq_false_iff_not]; omega
    rw [hdec] at hfp
    have hdf : DropFlightL P (0x5a :: frame) w1 sq D 1 :=
      ⟨hfl.ph, hfl.cst, hfl.cnt, hfl.idleC, hfl.up, ⟨name, pkt, hdown, hnd, hfp⟩, hwin, hfl.hsq, hfl.hD, hlt, hfl.srv.noq,
        hfl.frag, by rw [hfs1, hD], hopx, hresx, hfl.syncu, hfl.aged, hfl.paged⟩
    obtain ⟨wa, ha1, hfa, hsa, hka⟩ := drop_cycle hP hdf (by omega)
    obtain ⟨wb, hb1, hfb, hsb, hkb⟩ := drop_cycles hP 4 2 wa hfa hsa (by omega)
    obtain ⟨wc, hc1, hfc, hkc⟩ := kill_cycle hP hfb hsb
    have hk3 := (hka.trans hkb).trans hkc
    obtain ⟨w', he1, hQ, hsps, hke⟩ := final_cycle hP hfc (dd := (d + 1) % 8) (by rw [hk3.inpkt]; exact hdd)
    have hk := hk3.trans hke
    refine ⟨w', ?_, hQ, hsps, by rw [hk.tunC, ht2], by rw [hk.tunS, ht1], by rw [hk.fs, hfs1], by rw [hk.tip, htip1],
      by rw [hk.inpkt, hcs1]⟩
    have h12 := promptSteps_add P.u _ (3 * 4) w1 wa ha1
    rw [hb1] at h12
    have h13 := promptSteps_add P.u _ 3 w1 wb h12
    rw [hc1] at h13
    have h14 := promptSteps_add P.u _ 3 w1 wc h13
    rw [he1] at h14
    rw [← h14, hsps1]
    unfold dropStepsL
    rw [if_neg hgn]

/-- **One packet downstream, lazy mode, from a desynchronised state: the packet ARRIVES** when the server is at most 3
ahead (`d ≤ 3`): the new packet's number is 1..4 ahead of the client's, outside the window; the client takes it as a new
packet.  Conclusion as `down_packet_lazy_gen`; the state is synchronised (`QuietLazy`) afterwards. -/
theorem down_packet_lazy_desync_ok {P : Par} (hP : P.Ok) {w : W} {d : Nat} (hq : QuietLazyD P 0 d w) (hd : d ≤ 3)
    (frame : List Nat) (hF : 0 < (Server.getUser w.srv P.u).fragsize)
    (hok : DownFrameOk (Server.getUser w.srv P.u).tunIp (Server.getUser w.srv P.u).fragsize frame) :
    ∃ w', promptSteps P.u (downStepsL w.cs.c.sendPingSoon
          (downFrags (Server.getUser w.srv P.u).fragsize (frame.length + 1) (frame.length + 1)))
        (step w (.offerS frame)) = some w' ∧
      QuietLazy P w' ∧ w'.cs.c.sendPingSoon = 0 ∧ w'.tunC = w.tunC ++ [tunImage frame] ∧ w'.tunS = w.tunS ∧
      (Server.getUser w'.srv P.u).fragsize = (Server.getUser w.srv P.u).fragsize ∧
      (Server.getUser w'.srv P.u).tunIp = (Server.getUser w.srv P.u).tunIp := by
  obtain ⟨w1, hw1, hsent, ht1, ht2, htip1, hfs1, hcs1⟩ := down_offer_lazyD hP hq frame hok.h24 hok.hl hok.dst hF
  have hciseq := hq.cst.iseq
  have hfl : DownFlightL P (0x5a :: frame) w1 ((w.cs.c.inpkt.seqno + d + 1) % 8) 0
      (downLen (Server.getUser w.srv P.u).fragsize (0x5a :: frame).length) 0 := by
    refine hsent.toFlight (Or.inl ⟨rfl, rfl, d + 1, by omega, by omega, by rw [hcs1]; omega⟩) (Or.inr ?_)
    rw [hcs1]
    have := recentSeqno_far w.cs.c.inpkt.seqno hciseq (d + 1) ⟨by omega, by omega⟩
    rw [show (w.cs.c.inpkt.seqno + (d : Int) + 1) % 8 = (w.cs.c.inpkt.seqno + ((d + 1 : Nat) : Int)) % 8 by omega]
    exact this
  generalize hFdef : (Server.getUser w.srv P.u).fragsize = F at hok hF hfl hfs1 ⊢
  rw [hw1]
  have hlen : (0x5a :: frame).length = frame.length + 1 := by simp
  rw [hlen] at hfl
  generalize hD : downLen F (frame.length + 1) = D at hfl
  have hDpos := hfl.hD
  have hu : downFrags F (frame.length + 1) (frame.length + 1) = 1 + downFrags F frame.length (frame.length + 1 - D) := by
    show (if frame.length + 1 = 0 then 0 else 1 + downFrags F frame.length (frame.length + 1 - downLen F (frame.length + 1))) = _
    rw [if_neg (by omega), hD]
  have hfr := hok.frags
  rw [hu] at hfr ⊢
  obtain ⟨w', h1, h2, h3, h4, h5, h6, h7⟩ := down_flight_run_lazy hP (frame := frame) (by rw [hlen]; have := hok.hl; omega)
    (by have := hok.h24; omega) F frame.length w1 0 D 0 hfl hfs1 (by rw [hlen]; omega)
    (by rw [hlen]; simp only [Nat.zero_add]; omega)
  rw [hlen, hcs1] at h1
  simp only [Nat.zero_add] at h1
  refine ⟨w', ?_, h2, h3, by rw [h4, ht2], by rw [h5, ht1], h6, by rw [h7, htip1]⟩
  rw [← h1]
  congr 1
  unfold downStepsL lastStepsL
  by_cases hs0 : w.cs.c.sendPingSoon = 0
  · rw [if_neg (by intro hc; exact hc.1 hs0), if_neg (by intro hc; exact hc.1 hs0)]
    omega
  · by_cases hR : frame.length + 1 - D = 0
    · rw [hR, downFrags_zero, if_pos ⟨hs0, rfl⟩, if_pos ⟨hs0, rfl⟩]
    · have hg1 : 1 ≤ downFrags F frame.length (frame.length + 1 - D) := by
        cases hfl' : frame.length with
        | zero => have := hok.h24; omega
        | succ k =>
          rw [hfl'] at hR
          show 1 ≤ (if k + 1 + 1 - D = 0 then 0 else 1 + downFrags F k (k + 1 + 1 - D - downLen F (k + 1 + 1 - D)))
          rw [if_neg hR]; omega
      rw [if_neg (by intro hc; omega), if_neg (by intro hc; exact hR hc.2)]
      omega

end Iodine.C02L
