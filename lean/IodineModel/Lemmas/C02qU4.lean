import IodineModel.Lemmas.C02qU3
/-
C02, phase 2 — upstream, immediate mode, desynchronised: the client's 1 s timer while it waits in vain for the
acknowledgement — a resend (three times), then the give-up with its ping.
-/
namespace Iodine.C02L
open Iodine Iodine.Gen Iodine.World

theorem waiting_sending {P : Par} {sl sp : Nat} {out : List Nat} {w : W} {c0 : Client.Cli} (h : WaitingS P sl sp out w c0) :
    Client.isSending w.cs.c = true := by
  have hsf := sentFacts c0
  have hlen0 : out.length ≠ 0 := by have := h.ready.ho; omega
  have hl : w.cs.c.outpkt.len = out.length := by
    rw [h.cli]
    show ({ sentState c0 with sendPingSoon := 0 } : Client.Cli).outpkt.len = _
    rw [hsf.olen, h.ready.len]
  unfold Client.isSending
  rw [hl]
  simpa using hlen0

theorem waiting_sel {P : Par} {sl sp : Nat} {out : List Nat} {w : W} {c0 : Client.Cli} (h : WaitingS P sl sp out w c0) :
    (Client.selectOf w.cs.c).to = 1000000 := by
  have hs := waiting_sending h
  have hsps : w.cs.c.sendPingSoon = 0 := by rw [h.cli]; exact (sentFacts c0).sps
  simp [Client.selectOf, hsps, hs]

theorem waiting_prompt {P : Par} {sl sp : Nat} {out : List Nat} {w : W} {c0 : Client.Cli} (h : WaitingS P sl sp out w c0) :
    promptEv w = .tickC ∧ quiet P.u w = false := by
  constructor
  · unfold promptEv
    have htc : timeoutC w = some (Client.selectOf w.cs.c).to := by
      unfold timeoutC Client.pending
      rw [h.ph]
    have hts : timeoutS w = 10000000 := by
      unfold timeoutS
      rw [topOfLoop_timeout h.srv.solo, if_neg (by intro hc; exact hc.2 h.idle.qs)]
    simp only [h.up, h.down, List.isEmpty_nil, Bool.not_true, Bool.false_eq_true, if_false, htc, hts, waiting_sel h]
    rw [if_neg (by omega)]
  · unfold World.quiet
    simp [waiting_sending h]

/-- the client state whose chunk the next resend sends -/
def resendState (c0 : Client.Cli) : Client.Cli :=
  { Client.advanceClock (ackBook { sentState c0 with sendPingSoon := 0 })
      (Client.selectOf (ackBook { sentState c0 with sendPingSoon := 0 })) with
    outchunkresent := c0.outchunkresent + 1 }

/-- a timeout with fewer than three resends behind it: the same fragment goes out again, one second later -/
theorem stuck_resend {P : Par} (hP : P.Ok) {sl sp : Nat} {out : List Nat} {w : W} {c0 : Client.Cli} (h : WaitingS P sl sp out w c0)
    (hr : c0.outchunkresent < 3) :
    ∃ w', (∀ k, promptSteps P.u (k + 1) w = promptSteps P.u k w') ∧ UpStuckS P sl sp out w' (resendState c0) ∧
      w'.tunS = w.tunS ∧ w'.tunC = w.tunC ∧
      (Server.getUser w'.srv P.u).inpacket = (Server.getUser w.srv P.u).inpacket ∧
      (Server.getUser w'.srv P.u).tunIp = (Server.getUser w.srv P.u).tunIp ∧
      (Server.getUser w'.srv P.u).fragsize = (Server.getUser w.srv P.u).fragsize ∧ w'.srv.now = w.srv.now + 1 ∧
      (resendState c0).outpkt.seqno = c0.outpkt.seqno ∧ (resendState c0).outchunkresent = c0.outchunkresent + 1 ∧
      (resendState c0).selecttimeout = c0.selecttimeout := by
  have hsf := sentFacts c0
  obtain ⟨hpe, hq⟩ := waiting_prompt h
  have hsel := waiting_sel h
  have hsend := waiting_sending h
  generalize hc : ({ sentState c0 with sendPingSoon := 0 } : Client.Cli) = c at hsf
  have hcli : w.cs.c = ackBook c := by rw [h.cli, hc]
  have hwc : w.cs = ⟨ackBook c, .tunnel⟩ := by rw [cstate_eta w.cs h.ph, hcli]
  rw [hcli] at hsel hsend
  have hT : ((Client.selectOf (ackBook c)).to / 1000000).toNat = 1 := by rw [hsel]; rfl
  generalize hc1 : Client.advanceClock (ackBook c) (Client.selectOf (ackBook c)) = c1
  have hc1fr : c1 = { ackBook c with now := c1.now } := by rw [← hc1]; rfl
  have hc1now : c1.now = (ackBook c).now + 1 := by rw [← hc1, advanceClock_now, hT]
  have hres : c1.outchunkresent = c0.outchunkresent := by
    rw [hc1fr]; show c.outchunkresent = _; rw [← hc]; simp [sentState, Client.rotateChunkid]
  have hc0' : resendState c0 = { c1 with outchunkresent := c1.outchunkresent + 1 } := by
    unfold resendState; rw [hc, hc1, hres]
  generalize hcn : resendState c0 = cn at hc0'
  have hst := h.cst
  rw [hcli] at hst
  -- the ready state of the resend
  have hready' : CReady P cn out 0 0 := by
    rw [hc0', hc1fr]
    refine ⟨⟨hst.running, hst.conn, hst.imm, hst.uid, hst.uch, hst.td, hst.L, hst.enc, hst.ty, hst.cid, hst.cmc, ?_, hst.oseq, hst.iseq,
      hst.ifrag, hst.seed⟩, ?_, ?_, ?_, ?_, h.ready.ho, h.ready.hf, h.ready.bytes⟩
    · show ¬ (ackBook c).lastdownstreamtime + 60 < c1.now
      rw [hc1now]; show ¬ c.now + 60 < c.now + 1; omega
    · show c.outpkt.data = out; rw [hsf.odata]; exact h.ready.data
    · show c.outpkt.len = out.length; rw [hsf.olen]; exact h.ready.len
    · show c.outpkt.offset = 0; rw [hsf.ooff]; exact h.ready.off
    · show c.outpkt.fragment = ((0 : Nat) : Int); rw [hsf.ofrag]; exact h.ready.frag
  obtain ⟨name', hsend', _, _, _⟩ := send_ready hP hready'
  have hsf' := sentFacts cn
  have hstep : Client.cstep w.cs .tick =
      (⟨{ sentState cn with sendPingSoon := 0 }, .tunnel⟩, [] ++ (Client.sendChunk cn).evs,
       .sel (Client.selectOf { sentState cn with sendPingSoon := 0 })) := by
    rw [hwc]
    show Client.tunnelStep (ackBook c) .tick = _
    rw [tunnelStep_tick (ackBook c) hst.running (by rw [hc1, hc1now]; show ¬ c.now + 60 < c.now + 1; omega), hc1,
      Client.timeoutBranch_resend c1 (by rw [hc1fr]; exact hsend) (by rw [hres]; exact hr), ← hc0']
    rw [settle_afterSend _ _ _ (by rw [hsend']) (by rw [hsend']; have := hsf'.running; simpa using this.trans hready'.stat.running)]
    rw [hsend']
  have hnow' : ({ sentState cn with sendPingSoon := 0 } : Client.Cli).now - w.cs.c.now = 1 := by
    rw [hsf'.now, hcli, hc0']
    show c1.now - (ackBook c).now = 1
    rw [hc1now]; omega
  have hs : step w (promptEv w) =
      { w with cs := ⟨{ sentState cn with sendPingSoon := 0 }, .tunnel⟩, srv := { w.srv with now := w.srv.now + 1 },
               up := upOfEvents (Client.sendChunk cn).evs } := by
    rw [hpe, step_tickC, stepC_tick w _ _ _ hstep, h.up]
    simp only [hnow', List.nil_append]
    rw [hsend']
    simp [tunOfCEvents]
  have hseq : cn.outpkt.seqno = c0.outpkt.seqno := by
    rw [hc0', hc1fr]; show c.outpkt.seqno = _; exact hsf.oseq
  refine ⟨({ w with cs := ⟨{ sentState cn with sendPingSoon := 0 }, .tunnel⟩, srv := { w.srv with now := w.srv.now + 1 }, up := upOfEvents (Client.sendChunk cn).evs } : W),
    fun k => by rw [promptSteps_succ hq k, hs], ?_, rfl, rfl, rfl, rfl, rfl, rfl, hseq, ?_, ?_⟩
  · refine ⟨rfl, hready', rfl, rfl, h.down, h.srv.advance 1 (by rw [h.last]; omega), h.idle, h.oq, ?_, ?_, ?_, ?_, ?_⟩
    · show InWindow (Server.getUser w.srv P.u) cn.outpkt.seqno.toNat 0
      rw [hseq]; exact h.win
    · show ¬ ((Server.getUser w.srv P.u).inpacket.seqno = cn.outpkt.seqno ∧ _)
      rw [hseq]; exact h.nack
    · show (Server.getUser w.srv P.u).outpacket.seqno = cn.inpkt.seqno
      rw [hc0', hc1fr]; show _ = c.inpkt.seqno; rw [hsf.inpkt]; exact h.syncd
    · show Aged P (Server.getUser w.srv P.u) cn.datacmc sl
      have : cn.datacmc = (c0.datacmc + 1) % 36 := by
        rw [hc0', hc1fr]; show c.datacmc = _; rw [hsf.cmc]
        have := h.ready.stat.cmc
        split <;> omega
      rw [this]; exact h.aged
    · show PAged P (Server.getUser w.srv P.u) cn.randSeed sp
      have : cn.randSeed = c0.randSeed := by rw [hc0', hc1fr]; show c.randSeed = _; exact hsf.seed
      rw [this]; exact h.paged
  · rw [hc0', hres]
  · rw [hc0', hc1fr]; show c.selecttimeout = _; exact hsf.selto

end Iodine.C02L
