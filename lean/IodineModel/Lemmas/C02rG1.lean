import IodineModel.Lemmas.C02qD7
import IodineModel.Lemmas.C02qB2
/-
C02, phase 3, sub-package "gdown" (the give-up run DOWNSTREAM, immediate mode) — part 1.

* `srv_ping_immS`, `up_answerS`: the server's ping iteration with the freshness slacks of the two duplicate memories as
  PARAMETERS (`C02qD1.srv_ping_imm'` has them fixed to 1).  A ping that arrives is REMEMBERED: the ping invariant keeps its slack
  (`1 ≤ sp`), the data invariant is not touched.
* `black_roundG`: ONE ROUND of the downstream blackout schedule from a state with nothing in flight: `tickC` (the client's
  `select` times out, a ping goes out), `deliverUp` (the server answers), `dropDown` (the answer is lost).
-/
namespace Iodine.C02L
open Iodine Iodine.Gen Iodine.Server Iodine.World

/-- `srv_ping_imm'` (C02qD1) with the slacks as parameters -/
theorem srv_ping_immS {P : Par} (hP : P.Ok) {s : Srv} (hS : SStat P s)
    (hq : (getUser s P.u).q.id = 0) (hqs : (getUser s P.u).qs.id = 0) (hlz : (getUser s P.u).lazy = false)
    (hoq : (getUser s P.u).oqFilled = 0)
    {Q : Query} {a b : Int} {sd : Nat} (hQ : PingQ P Q a b sd)
    {k sl sp : Nat} (hsp1 : 1 ≤ sp) (hsp : sp ≤ 1000)
    (hA : Aged P (getUser s P.u) k sl) (hPA : PAged P (getUser s P.u) sd sp) :
    ∃ s' evs t pkt, iteration s (.q Q) s.now = (s', evs, t) ∧ downOfEvents evs = [.ans Q.id Q.type Q.name pkt] ∧
      tunOfSEvents evs = [] ∧ AfterPing P s s' Q a b pkt ∧
      Aged P (getUser s' P.u) k sl ∧ PAged P (getUser s' P.u) ((sd + 1) % 65536) sp := by
  obtain ⟨dlen, hdl, h2, h4, huid, ha, hb, hc2, hc3⟩ := hQ.parse
  obtain ⟨cp, hcp, hfl, hf2, hf3⟩ := hQ.fp
  have htop := topSess_live hS
  have hu := hS.solo.lt
  generalize hx0 : ({ getUser s P.u with qsNew := false } : Session) = x0 at htop
  have hx0q : x0.q.id = 0 := by subst hx0; exact hq
  have hx0qs : x0.qs.id = 0 := by subst hx0; exact hqs
  have hx0lz : x0.lazy = false := by subst hx0; exact hlz
  have hx0oq : x0.oqFilled = 0 := by subst hx0; exact hoq
  have hx0A : Aged P x0 k sl := by subst hx0; exact hA.congr rfl rfl rfl rfl
  have hx0P : PAged P x0 sd sp := by subst hx0; exact hPA.congr rfl rfl rfl rfl
  have hit := iteration_ping hS.solo Q s.now dlen (by rw [hS.td]; exact hdl) h2 hQ.c0 (hQ.ty ▸ hP.tty) hQ.id h4 huid
    (admitted_entry hS Q hQ.from_)
    (by rw [htop]; exact hx0P.cacheMiss hQ.sdlt hsp Q hQ.ty hQ.c0 hQ.seed)
    (by rw [htop]; exact hx0P.qmemMiss hQ.sdlt hsp Q hQ.ty _ hc2 hc3)
    (by rw [htop]; exact Or.inl hx0q) (by rw [htop]; exact Or.inl hx0qs)
  rw [htop, ha, hb, pingSess_imm x0 P.u Q a b s.now hx0q hx0qs hx0lz hx0oq] at hit
  have hac := ackSess_core x0 a b hx0oq
  generalize hy : saveQ (ackSess x0 a b) Q s.now = y at hit
  have hyq : y.q = Q := by subst hy; rfl
  have hsm := ackSess_sameMem x0 a b hx0oq
  have hyA : Aged P y k sl := by
    subst hy
    exact hx0A.congr hsm.1 hsm.2.1 hsm.2.2.2.2.1 hsm.2.2.2.2.2
  have hyP : PAged P y sd sp := by
    subst hy
    exact hx0P.congr hsm.2.2.1 hsm.2.2.2.1 hsm.2.2.2.2.1 hsm.2.2.2.2.2
  have hyid2 : y.q.id2 = 0 := by rw [hyq]; exact hQ.id2
  have hyoq : y.oqFilled = 0 := by
    subst hy
    show (ackSess x0 a b).oqFilled = 0
    have := core_oqFilled hac
    rw [this]; exact hx0oq
  obtain ⟨y1, pkt, hm1, hpl, hev, _, hm2, hqs2⟩ := scSess_q_shape' y P.u hyid2 hyoq
  rw [hyq] at hev hm2
  have hyqs : y.qs.id = 0 := by
    subst hy
    show (ackSess x0 a b).qs.id = 0
    have := core_qs hac
    rw [this]; exact hx0qs
  have hsw : sweepSess (scSess y P.u .q).1.1 P.u s.now = ((scSess y P.u .q).1.1, []) := by
    unfold sweepSess
    rw [if_neg (by intro hc; exact hc.2.1 (by rw [hqs2]; exact hyqs))]
  simp only at hit
  rw [hsw, hev] at hit
  have hdn : y.downenc = (getUser s P.u).downenc := by
    subst hy
    show (ackSess x0 a b).downenc = _
    have := core_downenc hac
    rw [this]; subst hx0; rfl
  have hg : getUser { putUser s P.u (scSess y P.u .q).1.1 with now := s.now } P.u = (scSess y P.u .q).1.1 := by
    rw [getUser_withNow, getUser_putUser_self _ _ _ hu]
  refine ⟨_, _, _, pkt, hit, ?_, ?_, ?_, ?_, ?_⟩
  · simp only [List.append_nil, downOfEvents_append, downOfEvents_sweep, downOfEvents_writeDns _ _ _ _ hQ.from_]
  · simp only [List.append_nil, tunOfSEvents_append, tunOfSEvents_writeDns, tunOfSEvents_sweep]
  · refine ⟨(hS.solo.putUser _).withNow _, hS.td, rfl, rfl, ?_, ?_⟩
    · rw [hg, hx0, hy]
    · rw [hx0, hy, hev, hdn]
  · rw [hg]
    have hy1A : Aged P y1 k sl := hyA.congr hm1.1 hm1.2.1 hm1.2.2.2.2.1 hm1.2.2.2.2.2
    have := hy1A.memo_ping hP.hu Q pkt hpl hQ.c0 cp hcp hfl
    exact this.congr hm2.1 hm2.2.1 hm2.2.2.2.2.1 hm2.2.2.2.2.2
  · rw [hg]
    have hy1P : PAged P y1 sd sp := hyP.congr hm1.2.2.1 hm1.2.2.2.1 hm1.2.2.2.2.1 hm1.2.2.2.2.2
    have := (hy1P.step hQ.sdlt hsp).memo Q pkt hpl sd 1 ⟨by omega, hsp1⟩ (behind_next16 sd hQ.sdlt) hQ.c0 cp hcp hfl hf2 hf3 hQ.seed
    exact this.congr hm2.2.2.1 hm2.2.2.2.1 hm2.2.2.2.2.1 hm2.2.2.2.2.2

/-- the ping travels up and is answered (`up_answer'` with the event named and the slacks as parameters) -/
theorem up_answerS {P : Par} (hP : P.Ok) {w : W} {name : List Nat} {id : Nat} {a b : Int} {sd k sl sp : Nat}
    (hup : w.up = [.query id P.ty name]) (hdown : w.down = []) (hS : PingSrvG P w.srv)
    (hQ : PingQ P (upQuery id P.ty name) a b sd) (hsp1 : 1 ≤ sp) (hsp : sp ≤ 1000)
    (hA : Aged P (getUser w.srv P.u) k sl) (hPA : PAged P (getUser w.srv P.u) sd sp) :
    ∃ s' pkt, step w .deliverUp = { w with up := [], srv := s', down := [.ans id P.ty name pkt] } ∧
      AfterPing P w.srv s' (upQuery id P.ty name) a b pkt ∧
      Aged P (getUser s' P.u) k sl ∧ PAged P (getUser s' P.u) ((sd + 1) % 65536) sp := by
  obtain ⟨s', evs, t, pkt, hit, hd, ht, hap, hA', hP'⟩ := srv_ping_immS hP hS.stat hS.q hS.qs hS.lz hS.oq hQ hsp1 hsp hA hPA
  refine ⟨s', pkt, ?_, hap, hA', hP'⟩
  rw [step_deliverUp w _ _ hup, srvInput_query, stepS_zero { w with up := [] } _ s' evs t hit, hd, ht]
  simp [hdown, upQuery]

/-! ### the blackout schedule's choices -/

theorem blackoutEvDown_quietG (w : W) (hdown : w.down = []) : blackoutEvDown w = promptEv w := by
  unfold blackoutEvDown promptEv
  simp only [hdown, List.isEmpty_nil, Bool.not_true, Bool.false_eq_true, if_false]
  cases timeoutC w <;> rfl

theorem blackoutEvDown_upG (w : W) (d : UpD) (rest : List UpD) (h : w.up = d :: rest) : blackoutEvDown w = .deliverUp := by
  unfold blackoutEvDown
  simp [h]

theorem blackoutEvDown_dropG (w : W) (d : DownD) (rest : List DownD) (hup : w.up = []) (h : w.down = d :: rest) :
    blackoutEvDown w = .dropDown := by
  unfold blackoutEvDown
  simp [hup, h]

theorem step_dropDown_oneG (w : W) (d : DownD) (h : w.down = [d]) : step w .dropDown = { w with down := [] } := by
  show { w with down := w.down.drop 1 } = _
  rw [h]; rfl

/-! ### one round of the downstream blackout -/

/-- what the poll, the server's answer and the loss of that answer (three scheduler steps) leave, whatever the answer was -/
structure PolledS (P : Par) (sl sp : Nat) (w w3 : W) (c1 : Client.Cli) (s1 s' : Srv) (name pkt : List Nat) : Prop where
  hc1 : c1 = Client.advanceClock w.cs.c (Client.selectOf w.cs.c)
  hs1 : s1 = { w.srv with now := w.srv.now + ((Client.selectOf w.cs.c).to / 1000000).toNat }
  hw3 : w3 = { w with cs := ⟨pingState c1, .tunnel⟩, srv := s', up := [], down := [] }
  c1st : CStat P c1
  ps1 : PingSrvG P s1
  ap : AfterPing P s1 s' (upQuery (pingState c1).chunkid P.ty name) w.cs.c.inpkt.seqno w.cs.c.inpkt.fragment pkt
  aged : Aged P (getUser s' P.u) w.cs.c.datacmc sl
  paged : PAged P (getUser s' P.u) ((w.cs.c.randSeed + 1) % 65536) sp

/-- ONE ROUND of the downstream blackout (`tickC`, `deliverUp`, `dropDown`) from a state with nothing in flight and the
client idle.  The three events are the schedule's own choices (`runSched blackoutEvDown 3`). -/
theorem black_roundG {P : Par} (hP : P.Ok) {w : W} {sl sp : Nat} (hph : w.cs.ph = .tunnel) (hc : CStat P w.cs.c)
    (hs : Client.isSending w.cs.c = false) (hup : w.up = []) (hdown : w.down = []) (hS : PingSrvG P w.srv)
    (hto : (Client.selectOf w.cs.c).to < 10000000)
    (hexp : ¬ w.cs.c.lastdownstreamtime + 60 < w.cs.c.now + ((Client.selectOf w.cs.c).to / 1000000).toNat)
    (hlive : w.srv.now + ((Client.selectOf w.cs.c).to / 1000000).toNat < (getUser w.srv P.u).lastPkt + 60)
    (hsp1 : 1 ≤ sp) (hsp : sp ≤ 1000)
    (hA : Aged P (getUser w.srv P.u) w.cs.c.datacmc sl) (hPA : PAged P (getUser w.srv P.u) w.cs.c.randSeed sp) :
    ∃ w3 c1 s1 s' name pkt, runSched blackoutEvDown 3 w = w3 ∧ PolledS P sl sp w w3 c1 s1 s' name pkt := by
  generalize hT : ((Client.selectOf w.cs.c).to / 1000000).toNat = T at hexp hlive
  obtain ⟨name, c1, hpe, hs0, hc1, hpq⟩ := poll_stepE hP hph hc hs hup hdown hto (timeoutS_idleG hS) (by rw [hT]; exact hexp)
  rw [hT] at hs0
  have hc1fr : c1 = { w.cs.c with now := c1.now } := by rw [hc1]; rfl
  have hc1now : c1.now = w.cs.c.now + T := by rw [hc1, advanceClock_now, hT]
  have hc1st : CStat P c1 := by
    rw [hc1fr]
    exact ⟨hc.running, hc.conn, hc.imm, hc.uid, hc.uch, hc.td, hc.L, hc.enc, hc.ty, hc.cid, hc.cmc,
      by show ¬ w.cs.c.lastdownstreamtime + 60 < c1.now; rw [hc1now]; exact hexp, hc.oseq, hc.iseq, hc.ifrag, hc.seed⟩
  generalize hs1def : ({ w.srv with now := w.srv.now + T } : Srv) = s1 at hs0
  have hs1u : getUser s1 P.u = getUser w.srv P.u := by subst hs1def; rfl
  have hS1 : SStat P s1 := by subst hs1def; exact hS.stat.advance T hlive
  have hps1 : PingSrvG P s1 := ⟨hS1, by rw [hs1u]; exact hS.q, by rw [hs1u]; exact hS.qs, by rw [hs1u]; exact hS.lz,
    by rw [hs1u]; exact hS.oq⟩
  generalize hw1 : ({ w with cs := ⟨pingState c1, .tunnel⟩, srv := s1, up := [.query (pingState c1).chunkid P.ty name] } : W) = w1 at hs0
  have hw1srv : w1.srv = s1 := by subst hw1; rfl
  have hw1up : w1.up = [.query (pingState c1).chunkid P.ty name] := by subst hw1; rfl
  have hw1down : w1.down = [] := by subst hw1; exact hdown
  obtain ⟨s', pkt, hs1, hap, hA', hPA'⟩ := up_answerS hP hw1up hw1down (by rw [hw1srv]; exact hps1) hpq hsp1 hsp
    (by rw [hw1srv, hs1u]; exact hA) (by rw [hw1srv, hs1u]; exact hPA)
  rw [hw1srv] at hap
  generalize hw2 : ({ w1 with up := [], srv := s', down := [.ans (pingState c1).chunkid P.ty name pkt] } : W) = w2 at hs1
  have hw2up : w2.up = [] := by subst hw2; rfl
  have hw2down : w2.down = [.ans (pingState c1).chunkid P.ty name pkt] := by subst hw2; rfl
  refine ⟨{ w2 with down := [] }, c1, s1, s', name, pkt, ?_, hc1, ?_, ?_, hc1st, hps1, hap, hA', hPA'⟩
  · rw [runSched_three, blackoutEvDown_quietG w hdown, hpe, hs0, blackoutEvDown_upG w1 _ _ hw1up, hs1,
      blackoutEvDown_dropG w2 _ _ hw2up hw2down, step_dropDown_oneG w2 _ hw2down]
  · rw [← hs1def, hT]
  · subst hw2; subst hw1; rfl

end Iodine.C02L
