import IodineModel.Lemmas.C02qB3
import IodineModel.Props.C02
/-
C02, phase 2, sub-package "blackout" — part 4: non-vacuity of the give-up theorems on the demo world `Iodine.C02.exW`
(user 0, "t.ab", Base32, NULL queries, immediate mode) and the first half of the COMPOSITION WITNESS: the states after
`k = 0 … 8` give-up runs written down (`bkW k`: only the client and the clocks differ from `exW`), and the kernel-evaluated
links `bkW k → bkW (k+1)` for `k = 0 … 2` (one frame offered, 9 steps of the blackout schedule).
-/
namespace Iodine.C02L
open Iodine Iodine.Gen Iodine.World Iodine.C02

/-- the frames given up (28 … 35 bytes: one fragment each) -/
def fA (i : Nat) : List Nat := demoFrame 9 (4 + i)

/-- the frames offered afterwards on the clean path -/
def fB (i : Nat) : List Nat := demoFrame 9 (20 + i)

/-- the client of `exW` after `k` give-up runs with the frames `fA 0 … fA (k-1)`: the packet buffer still holds the last
frame (length 0: nothing in flight), sequence number `k mod 8`, `5·k` queries sent (ids), data-CMC counter `4·k`,
ping counter `k`, clock `4·k` s on -/
def bkC (k : Nat) : Client.Cli :=
  { exW.cs.c with
      randSeed := k,
      outpkt := { len := 0, sentlen := 0, offset := 0, data := if k = 0 then [] else 0x5a :: fA (k - 1), seqno := ((k % 8 : Nat) : Int),
                  fragment := 0 },
      chunkid := (1000 + 5 * k * 7727) % 65536,
      chunkidPrev := if k = 0 then 0 else (1000 + (5 * k - 1) * 7727) % 65536,
      chunkidPrev2 := if k = 0 then 0 else (1000 + (5 * k - 2) * 7727) % 65536,
      datacmc := (4 * k) % 36,
      now := 1000 + 4 * k }

/-- the joint state after `k` give-up runs: the SERVER of `exW` with its clock `4·k` s on -/
def bkW (k : Nat) : W := ⟨⟨bkC k, .tunnel⟩, { exW.srv with now := 1000 + 4 * k }, [], [], [], []⟩

theorem bkW_zero : bkW 0 = exW := by decide +kernel

/-- TEST (kernel-evaluated): the links of the chain -/
theorem bk_link0 : runSched blackoutEvUp 9 (step (bkW 0) (.offerC (fA 0))) = bkW 1 := by decide +kernel
theorem bk_link1 : runSched blackoutEvUp 9 (step (bkW 1) (.offerC (fA 1))) = bkW 2 := by decide +kernel
theorem bk_link2 : runSched blackoutEvUp 9 (step (bkW 2) (.offerC (fA 2))) = bkW 3 := by decide +kernel

/-! ### non-vacuity of `giveup_run_up_imm` and `giveup_runs_up_imm` -/

theorem fA_ok (i : Nat) (hi : i < 8) : fA i ≠ [] ∧ (fA i).length < 65536 ∧ Codec.Bytes (fA i) := by
  have h : ∀ i, i < 8 → fA i ≠ [] ∧ (fA i).length < 65536 ∧ (∀ b ∈ fA i, b < 256) := by decide +kernel
  exact h i hi

theorem exW_quietDS : QuietImmDS exP 0 0 1 1 exW := quietImmDS_of_quietImm ex_quiescent

/-- `giveup_run_up_imm` applies to `exW` and the frame `fA 0`; the state it describes is `bkW 1`, which therefore is
quiescent, desynchronised by one, with slack 5 resp. 2 -/
example : GaveUp exP exW (bkW 1) ∧ QuietImmDS exP 1 0 5 2 (bkW 1) := by
  obtain ⟨h1, h2, h3⟩ := fA_ok 0 (by omega)
  have := giveup_run_up_imm exP_ok exW_quietDS (fA 0) h1 h2 h3 (by omega) (by omega) (by decide +kernel) (by decide +kernel)
  rw [← bkW_zero, bk_link0] at this
  rw [← bkW_zero]
  exact this

end Iodine.C02L
