import IodineModel.Lemmas.C02d3
/-
Server side of a downstream transfer in immediate mode: what the answer to a ping carries and what it leaves in the slot,
in the three situations of a clean transfer (first fragment; next fragment after an ack; completion).
-/
namespace Iodine.C02L
open Iodine Iodine.Gen Iodine.Server

/-- the slot after the ping handler (immediate mode, nothing waiting) -/
def pingZ (x0 : Session) (u : Nat) (Q : Query) (a b : Int) (now : Nat) : Session :=
  (scSess (saveQ (ackSess x0 a b) Q now) u .q).1.1

/-- the slot without its memories, outpacket, resend counter, stored query, `last_pkt` and the `qsNew` flag -/
def rest (x : Session) : Session :=
  { core x with outpacket := Packet.zero, outfragresent := 0, q := Query.zero, lastPkt := 0, qsNew := false }

theorem rest_of_core {a b : Session} (h : core a = core b) : rest a = rest b :=
  congrArg (fun y : Session => ({ y with outpacket := Packet.zero, outfragresent := 0, q := Query.zero, lastPkt := 0, qsNew := false } : Session)) h

theorem rest_active {a b : Session} (h : rest a = rest b) : a.active = b.active := show (rest a).active = (rest b).active from congrArg Session.active h
theorem rest_authenticated {a b : Session} (h : rest a = rest b) : a.authenticated = b.authenticated := show (rest a).authenticated = (rest b).authenticated from congrArg Session.authenticated h
theorem rest_authenticatedRaw {a b : Session} (h : rest a = rest b) : a.authenticatedRaw = b.authenticatedRaw := show (rest a).authenticatedRaw = (rest b).authenticatedRaw from congrArg Session.authenticatedRaw h
theorem rest_disabled {a b : Session} (h : rest a = rest b) : a.disabled = b.disabled := show (rest a).disabled = (rest b).disabled from congrArg Session.disabled h
theorem rest_conn {a b : Session} (h : rest a = rest b) : a.conn = b.conn := show (rest a).conn = (rest b).conn from congrArg Session.conn h
theorem rest_encoder {a b : Session} (h : rest a = rest b) : a.encoder = b.encoder := show (rest a).encoder = (rest b).encoder from congrArg Session.encoder h
theorem rest_inpacket {a b : Session} (h : rest a = rest b) : a.inpacket = b.inpacket := show (rest a).inpacket = (rest b).inpacket from congrArg Session.inpacket h
theorem rest_qs {a b : Session} (h : rest a = rest b) : a.qs = b.qs := show (rest a).qs = (rest b).qs from congrArg Session.qs h
theorem rest_lazy {a b : Session} (h : rest a = rest b) : a.lazy = b.lazy := show (rest a).lazy = (rest b).lazy from congrArg Session.lazy h
theorem rest_host {a b : Session} (h : rest a = rest b) : a.host = b.host := show (rest a).host = (rest b).host from congrArg Session.host h
theorem rest_downenc {a b : Session} (h : rest a = rest b) : a.downenc = b.downenc := show (rest a).downenc = (rest b).downenc from congrArg Session.downenc h
theorem rest_tunIp {a b : Session} (h : rest a = rest b) : a.tunIp = b.tunIp := show (rest a).tunIp = (rest b).tunIp from congrArg Session.tunIp h
theorem rest_oqFilled {a b : Session} (h : rest a = rest b) : a.oqFilled = b.oqFilled := show (rest a).oqFilled = (rest b).oqFilled from congrArg Session.oqFilled h
theorem rest_oqNext {a b : Session} (h : rest a = rest b) : a.oqNext = b.oqNext := show (rest a).oqNext = (rest b).oqNext from congrArg Session.oqNext h
theorem rest_fragsize {a b : Session} (h : rest a = rest b) : a.fragsize = b.fragsize := show (rest a).fragsize = (rest b).fragsize from congrArg Session.fragsize h
theorem rest_seed {a b : Session} (h : rest a = rest b) : a.seed = b.seed := show (rest a).seed = (rest b).seed from congrArg Session.seed h
theorem rest_optionsLocked {a b : Session} (h : rest a = rest b) : a.optionsLocked = b.optionsLocked := show (rest a).optionsLocked = (rest b).optionsLocked from congrArg Session.optionsLocked h

theorem rest_dropOut (z : Session) : rest (dropOut z) = rest z := rfl
theorem rest_qset (z : Session) (v : Query) : rest (QSel.q.set z v) = rest z := rfl
theorem rest_prepOut (z : Session) : rest (prepOut z) = rest z := rfl
theorem rest_saveQ (z : Session) (q : Query) (n : Nat) : rest (saveQ z q n) = rest z := rfl

theorem ackSess_stale (x : Session) (a b : Int) (h : x.outpacket.sentlen = 0) : ackSess x a b = x := by
  unfold ackSess
  split
  · rfl
  · split
    · rfl
    · simp [h]

theorem ackSess_advance (x : Session) (a b : Int) (h1 : x.outpacket.len ≠ 0) (h2 : x.outpacket.seqno = a)
    (h3 : x.outpacket.fragment = b) (h4 : x.outpacket.sentlen ≠ 0) (h5 : x.outpacket.offset + x.outpacket.sentlen < x.outpacket.len) :
    ackSess x a b =
      { x with outpacket := { x.outpacket with offset := x.outpacket.offset + x.outpacket.sentlen, sentlen := 0,
                                               fragment := sChar (x.outpacket.fragment + 1) },
               outfragresent := 0 } := by
  unfold ackSess
  rw [if_neg h1, if_neg (by intro h; rcases h with h | h; exact h h2; exact h h3), if_neg h4]
  simp only
  rw [if_neg (by omega)]

theorem ackSess_complete (x : Session) (a b : Int) (h1 : x.outpacket.len ≠ 0) (h2 : x.outpacket.seqno = a)
    (h3 : x.outpacket.fragment = b) (h4 : x.outpacket.sentlen ≠ 0) (h5 : x.outpacket.len ≤ x.outpacket.offset + x.outpacket.sentlen)
    (hoq : x.oqFilled = 0) :
    ackSess x a b =
      { x with outpacket := { x.outpacket with len := 0, offset := 0, sentlen := 0,
                                               fragment := sChar (sChar (x.outpacket.fragment + 1) - 1) },
               outfragresent := 0 } := by
  unfold ackSess
  rw [if_neg h1, if_neg (by intro h; rcases h with h | h; exact h h2; exact h h3), if_neg h4]
  simp only
  rw [if_pos (by omega), fromQueue_empty _ (by exact hoq)]

/-- the ping handler touches nothing but outpacket, resend counter, the stored query, `last_pkt` and the memories -/
theorem pingZ_rest (x0 : Session) (u : Nat) (Q : Query) (a b : Int) (now : Nat) (hid2 : Q.id2 = 0) (hoq : x0.oqFilled = 0)
    (hres : x0.outfragresent ≤ 5) : rest (pingZ x0 u Q a b now) = rest x0 := by
  have h1 : rest (ackSess x0 a b) = rest x0 := by have := rest_of_core (ackSess_core x0 a b hoq); exact this
  generalize hy : saveQ (ackSess x0 a b) Q now = y
  have h2 : rest y = rest x0 := by subst hy; exact h1
  have hyq : y.q = Q := by subst hy; rfl
  have hyoq : y.oqFilled = 0 := by have := rest_oqFilled h2; rw [this]; exact hoq
  have hyres : y.outfragresent ≤ 5 := by subst hy; exact ackSess_res x0 a b hoq hres
  unfold pingZ
  rw [hy]
  by_cases hlen : y.outpacket.len = 0
  · rw [scSess_dataless y u .q hlen (by show y.q.id2 = 0; rw [hyq]; exact hid2)]
    have h3 : rest (cacheUpd (qmemUpd y y.q) y.q (scPkt y 0)) = rest y := rest_of_core (core_memo y y.q (scPkt y 0))
    exact h3.trans h2
  · have hpos : y.outpacket.len > 0 := by omega
    rw [scSess_data y u .q hpos hyres (by show y.q.id2 = 0; rw [hyq]; exact hid2) hyoq]
    have h3 : rest (cacheUpd (qmemUpd (prepOut y) y.q) y.q (scPkt (prepOut y) (scDatalen y))) = rest (prepOut y) :=
      rest_of_core (core_memo (prepOut y) y.q (scPkt (prepOut y) (scDatalen y)))
    have h4 : rest (answered y .q) = rest y := by
      unfold answered
      rw [rest_qset]
      exact h3.trans (rest_prepOut y)
    by_cases hw : scDatalen y > 0 ∧ scDatalen y = y.outpacket.len
    · simp only [if_pos hw]
      rw [rest_dropOut]
      exact h4.trans h2
    · simp only [if_neg hw]
      exact h4.trans h2

theorem pingZ_q (x0 : Session) (u : Nat) (Q : Query) (a b : Int) (now : Nat) (hid2 : Q.id2 = 0) (hoq : x0.oqFilled = 0)
    (hres : x0.outfragresent ≤ 5) : (pingZ x0 u Q a b now).q = { Q with id := 0 } ∧ (pingZ x0 u Q a b now).lastPkt = now := by
  have h1 : rest (ackSess x0 a b) = rest x0 := by have := rest_of_core (ackSess_core x0 a b hoq); exact this
  generalize hy : saveQ (ackSess x0 a b) Q now = y
  have hyq : y.q = Q := by subst hy; rfl
  have hyl : y.lastPkt = now := by subst hy; rfl
  have hyoq : y.oqFilled = 0 := by subst hy; have := rest_oqFilled h1; exact this.trans hoq
  have hyres : y.outfragresent ≤ 5 := by subst hy; exact ackSess_res x0 a b hoq hres
  unfold pingZ
  rw [hy]
  by_cases hlen : y.outpacket.len = 0
  · rw [scSess_dataless y u .q hlen (by show y.q.id2 = 0; rw [hyq]; exact hid2)]
    refine ⟨by show ({ y.q with id := 0 } : Query) = _; rw [hyq], ?_⟩
    have := core_lastPkt (core_memo y y.q (scPkt y 0))
    exact this.trans hyl
  · have hpos : y.outpacket.len > 0 := by omega
    rw [scSess_data y u .q hpos hyres (by show y.q.id2 = 0; rw [hyq]; exact hid2) hyoq]
    have hl : (answered y .q).lastPkt = now := by
      have := core_lastPkt (core_memo (prepOut y) y.q (scPkt (prepOut y) (scDatalen y)))
      exact this.trans hyl
    have hq : (answered y .q).q = { Q with id := 0 } := by show ({ y.q with id := 0 } : Query) = _; rw [hyq]
    by_cases hw : scDatalen y > 0 ∧ scDatalen y = y.outpacket.len
    · simp only [if_pos hw]; exact ⟨hq, hl⟩
    · simp only [if_neg hw]; exact ⟨hq, hl⟩

/-- the fragment length the server chooses: `MIN(fragsize, rest)`, at most 4094 -/
def downLen (F rest : Nat) : Nat := min (min F rest) 4094

/-- FIRST fragment: nothing of the new outpacket was sent yet, so whatever the ping acknowledges is stale -/
theorem pingZ_first (x0 : Session) (u : Nat) (Q : Query) (a b : Int) (now : Nat) (out : List Nat) (sq : Int)
    (hid2 : Q.id2 = 0) (hoq : x0.oqFilled = 0) (hres : x0.outfragresent = 0)
    (hop : x0.outpacket = ⟨out.length, 0, 0, out, sq, 0⟩) (hL : 0 < out.length) (hF : 0 < x0.fragsize) :
    ∃ D, D = downLen x0.fragsize out.length ∧
    (pingZ x0 u Q a b now).outpacket = (if D = out.length then ⟨0, 0, 0, out, sq, 0⟩ else ⟨out.length, D, 0, out, sq, 0⟩) ∧
    (pingZ x0 u Q a b now).outfragresent = (if D = out.length then 0 else 1) ∧ 0 < D ∧ D ≤ out.length ∧
    ∃ yy : Session, (scSess (saveQ (ackSess x0 a b) Q now) u .q).1.2 = [writeDns Q (scPkt yy D) x0.downenc (.chunk u)] ∧
      yy.outpacket = ⟨out.length, D, 0, out, sq, 0⟩ ∧ yy.inpacket = x0.inpacket := by
  refine ⟨downLen x0.fragsize out.length, rfl, ?_⟩
  generalize hDdef : downLen x0.fragsize out.length = D
  have hack : ackSess x0 a b = x0 := ackSess_stale x0 a b (by rw [hop])
  have hD : scDatalen (saveQ x0 Q now) = D := by
    rw [← hDdef]
    unfold scDatalen saveQ downLen
    simp only [hop]
    rw [if_pos hL]
    rfl
  have hDpos : 0 < D := by rw [← hDdef]; unfold downLen; omega
  have hDle : D ≤ out.length := by rw [← hDdef]; unfold downLen; omega
  have hsd := scSess_data (saveQ x0 Q now) u .q (by show x0.outpacket.len > 0; rw [hop]; exact hL)
    (by show x0.outfragresent ≤ 5; omega) (by exact hid2) (by exact hoq)
  rw [hD] at hsd
  have hlen : (saveQ x0 Q now).outpacket.len = out.length := by show x0.outpacket.len = _; rw [hop]
  rw [hlen] at hsd
  unfold pingZ
  rw [hack, hsd]
  have hpo : (prepOut (saveQ x0 Q now)).outpacket = ⟨out.length, D, 0, out, sq, 0⟩ := by
    unfold prepOut
    simp only [hD]
    show ({ x0.outpacket with sentlen := D } : Packet) = _
    rw [hop]
  have hao : (answered (saveQ x0 Q now) .q).outpacket = ⟨out.length, D, 0, out, sq, 0⟩ := by
    have := core_outpacket (core_memo (prepOut (saveQ x0 Q now)) (saveQ x0 Q now).q (scPkt (prepOut (saveQ x0 Q now)) (scDatalen (saveQ x0 Q now))))
    exact this.trans hpo
  have har : (answered (saveQ x0 Q now) .q).outfragresent = 1 := by
    have := core_outfragresent (core_memo (prepOut (saveQ x0 Q now)) (saveQ x0 Q now).q (scPkt (prepOut (saveQ x0 Q now)) (scDatalen (saveQ x0 Q now))))
    refine this.trans ?_
    show x0.outfragresent + 1 = 1
    omega
  refine ⟨?_, ?_, hDpos, hDle, prepOut (saveQ x0 Q now), rfl, hpo, rfl⟩
  · by_cases hw : D = out.length
    · rw [if_pos hw, if_pos ⟨hDpos, hw⟩]
      show ({ (answered (saveQ x0 Q now) .q).outpacket with len := 0, offset := 0, sentlen := 0 } : Packet) = _
      rw [hao]
    · rw [if_neg hw, if_neg (by intro h; exact hw h.2)]
      exact hao
  · by_cases hw : D = out.length
    · rw [if_pos hw, if_pos ⟨hDpos, hw⟩]; rfl
    · rw [if_neg hw, if_neg (by intro h; exact hw h.2)]
      exact har

/-- NEXT fragment: the ping acknowledges the fragment in flight and more is left -/
theorem pingZ_next (x0 : Session) (u : Nat) (Q : Query) (now : Nat) (out : List Nat) (sq : Int) (o m f : Nat)
    (hid2 : Q.id2 = 0) (hoq : x0.oqFilled = 0) (hres : x0.outfragresent ≤ 5)
    (hop : x0.outpacket = ⟨out.length, m, o, out, sq, (f : Int)⟩) (hm : 0 < m) (hlt : o + m < out.length) (hF : 0 < x0.fragsize)
    (hf : f + 1 < 128) :
    ∃ D, D = downLen x0.fragsize (out.length - (o + m)) ∧
    (pingZ x0 u Q sq f now).outpacket = ⟨out.length, D, o + m, out, sq, ((f + 1 : Nat) : Int)⟩ ∧
    (pingZ x0 u Q sq f now).outfragresent = 1 ∧ 0 < D ∧ o + m + D ≤ out.length ∧
    ∃ yy : Session, (scSess (saveQ (ackSess x0 sq f) Q now) u .q).1.2 = [writeDns Q (scPkt yy D) x0.downenc (.chunk u)] ∧
      yy.outpacket = ⟨out.length, D, o + m, out, sq, ((f + 1 : Nat) : Int)⟩ ∧ yy.inpacket = x0.inpacket := by
  refine ⟨downLen x0.fragsize (out.length - (o + m)), rfl, ?_⟩
  generalize hDdef : downLen x0.fragsize (out.length - (o + m)) = D
  have hsf : sChar ((f : Int) + 1) = ((f + 1 : Nat) : Int) := by unfold sChar; omega
  have hack : ackSess x0 sq f =
      { x0 with outpacket := ⟨out.length, 0, o + m, out, sq, ((f + 1 : Nat) : Int)⟩, outfragresent := 0 } := by
    rw [ackSess_advance x0 sq f (by rw [hop]; show out.length ≠ 0; omega) (by rw [hop]) (by rw [hop]) (by rw [hop]; show m ≠ 0; omega)
      (by rw [hop]; exact hlt)]
    rw [hop]
    simp only [hsf]
  generalize hy : saveQ (ackSess x0 sq f) Q now = y
  have hyo : y.outpacket = ⟨out.length, 0, o + m, out, sq, ((f + 1 : Nat) : Int)⟩ := by subst hy; rw [hack]; rfl
  have hD : scDatalen y = D := by
    rw [← hDdef]
    unfold scDatalen downLen
    rw [hyo]
    simp only
    have : y.fragsize = x0.fragsize := by subst hy; rw [hack]; rfl
    rw [if_pos (by omega), this]
  have hDpos : 0 < D := by rw [← hDdef]; unfold downLen; omega
  have hDle : o + m + D ≤ out.length := by rw [← hDdef]; unfold downLen; omega
  have hsd := scSess_data y u .q (by rw [hyo]; show 0 < out.length; omega)
    (by subst hy; rw [hack]; show 0 ≤ 5; omega) (by subst hy; exact hid2) (by subst hy; rw [hack]; exact hoq)
  rw [hD] at hsd
  have hnw : ¬ (D > 0 ∧ D = y.outpacket.len) := by rw [hyo]; intro h; have := h.2; simp at this; omega
  rw [if_neg hnw] at hsd
  have hpo : (prepOut y).outpacket = ⟨out.length, D, o + m, out, sq, ((f + 1 : Nat) : Int)⟩ := by
    unfold prepOut
    simp only [hD]
    show ({ y.outpacket with sentlen := D } : Packet) = _
    rw [hyo]
  have hao : (answered y .q).outpacket = ⟨out.length, D, o + m, out, sq, ((f + 1 : Nat) : Int)⟩ := by
    have := core_outpacket (core_memo (prepOut y) y.q (scPkt (prepOut y) (scDatalen y)))
    exact this.trans hpo
  have har : (answered y .q).outfragresent = 1 := by
    have := core_outfragresent (core_memo (prepOut y) y.q (scPkt (prepOut y) (scDatalen y)))
    refine this.trans ?_
    show y.outfragresent + 1 = 1
    subst hy; rw [hack]; rfl
  unfold pingZ
  rw [hy, hsd]
  refine ⟨hao, har, hDpos, hDle, prepOut y, ?_, hpo, ?_⟩
  · show [writeDns y.q _ y.downenc _] = _
    subst hy; rw [hack]; rfl
  · subst hy; rw [hack]; rfl

/-- COMPLETION: the ping acknowledges the last fragment -/
theorem pingZ_done (x0 : Session) (u : Nat) (Q : Query) (now : Nat) (out : List Nat) (sq : Int) (o m f : Nat)
    (hid2 : Q.id2 = 0) (hoq : x0.oqFilled = 0)
    (hop : x0.outpacket = ⟨out.length, m, o, out, sq, (f : Int)⟩) (hm : 0 < m) (hge : o + m = out.length) (hf : f + 1 < 128) :
    (pingZ x0 u Q sq f now).outpacket = ⟨0, 0, 0, out, sq, (f : Int)⟩ ∧
    (pingZ x0 u Q sq f now).outfragresent = 0 ∧
    ∃ yy : Session, (scSess (saveQ (ackSess x0 sq f) Q now) u .q).1.2 = [writeDns Q (scPkt yy 0) x0.downenc (.chunk u)] ∧
      yy.outpacket = ⟨0, 0, 0, out, sq, (f : Int)⟩ ∧ yy.inpacket = x0.inpacket := by
  have hsf : sChar (sChar ((f : Int) + 1) - 1) = (f : Int) := by unfold sChar; omega
  have hack : ackSess x0 sq f = { x0 with outpacket := ⟨0, 0, 0, out, sq, (f : Int)⟩, outfragresent := 0 } := by
    rw [ackSess_complete x0 sq f (by rw [hop]; show out.length ≠ 0; omega) (by rw [hop]) (by rw [hop]) (by rw [hop]; show m ≠ 0; omega)
      (by rw [hop]; show out.length ≤ o + m; omega) hoq]
    rw [hop]
    simp only [hsf]
  generalize hy : saveQ (ackSess x0 sq f) Q now = y
  have hyo : y.outpacket = ⟨0, 0, 0, out, sq, (f : Int)⟩ := by subst hy; rw [hack]; rfl
  have hsd := scSess_dataless y u .q (by rw [hyo]) (by subst hy; exact hid2)
  have hao : (QSel.q.set (cacheUpd (qmemUpd y y.q) y.q (scPkt y 0)) { y.q with id := 0 }).outpacket = ⟨0, 0, 0, out, sq, (f : Int)⟩ := by
    have := core_outpacket (core_memo y y.q (scPkt y 0))
    exact this.trans hyo
  have har : (QSel.q.set (cacheUpd (qmemUpd y y.q) y.q (scPkt y 0)) { y.q with id := 0 }).outfragresent = 0 := by
    have := core_outfragresent (core_memo y y.q (scPkt y 0))
    refine this.trans ?_
    subst hy; rw [hack]; rfl
  unfold pingZ
  rw [hy, hsd]
  refine ⟨hao, har, y, ?_, hyo, ?_⟩
  · show [writeDns y.q _ y.downenc _] = _
    subst hy; rw [hack]; rfl
  · subst hy; rw [hack]; rfl

end Iodine.C02L
