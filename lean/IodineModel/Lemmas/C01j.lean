import IodineModel.Lemmas.C01e
import IodineModel.Lemmas.SrvC04f
/-
Helper lemmas for C01, part j: the SERVER's reassembly under ARBITRARY input.  Invariant (for every slot): the buffer
`inpacket.data[0..offset)` is the concatenation (cut at 64 KiB) of the payloads of a chain of data queries received so
far — same upstream seqno, fragment numbers strictly rising (the server accepts gaps), each decoded with the codec the
session had when the query arrived.
-/
namespace Iodine.C01L
open Iodine Iodine.Server Iodine.Gen

/-- a data query as the data handler took it: the query and the upstream codec of the session at that moment -/
structure UFrag where
  q : Query
  enc : Enc

/-- `in[]` of the data handler for the query, topdomain `td` -/
def UFrag.inb (td : List Nat) (f : UFrag) : List Nat :=
  f.q.name.take (min ((Common.queryDatalen f.q.name td).getD 0) 512)

def UFrag.seq (td : List Nat) (f : UFrag) : Nat := (upHdr (f.inb td)).1
def UFrag.frag (td : List Nat) (f : UFrag) : Nat := (upHdr (f.inb td)).2.1
def UFrag.payload (td : List Nat) (f : UFrag) : List Nat :=
  Encoding.unpackData f.enc.codec 65536 ((f.inb td).drop 5)

/-- one upstream seqno, fragment numbers strictly rising -/
def SChain (td : List Nat) : List UFrag → Prop
  | [] => True
  | [_] => True
  | r :: r' :: rest => r'.seq td = r.seq td ∧ r.frag td < r'.frag td ∧ SChain td (r' :: rest)

def sjoin (td : List Nat) (l : List UFrag) : List Nat := ((l.map (UFrag.payload td)).flatten).take PACKET_DATA_SIZE

theorem SChain.snoc (td : List Nat) : ∀ (l : List UFrag) (f : UFrag), SChain td l →
    (∀ r, l.getLast? = some r → f.seq td = r.seq td ∧ r.frag td < f.frag td) → SChain td (l ++ [f])
  | [], _, _, _ => trivial
  | [r], f, _, hl => ⟨(hl r rfl).1, (hl r rfl).2, trivial⟩
  | r :: r' :: rest, f, h1, hl => by
    obtain ⟨a, b, c⟩ := h1
    refine ⟨a, b, ?_⟩
    apply SChain.snoc td (r' :: rest) f c
    intro x hx
    apply hl x
    rw [List.getLast?_cons_cons]; exact hx

theorem sjoin_snoc (td : List Nat) (l : List UFrag) (f : UFrag) :
    sjoin td (l ++ [f]) = sjoin td l ++ (f.payload td).take (PACKET_DATA_SIZE - (sjoin td l).length) := by
  unfold sjoin
  rw [List.map_append, List.flatten_append, List.take_append]
  simp only [List.map_cons, List.map_nil, List.flatten_cons, List.flatten_nil, List.append_nil, List.length_take]
  congr 2
  omega

/-- the invariant of one slot's buffer: a chain of data queries naming slot `u`, a subsequence of the queries `seen` -/
def SInv (td : List Nat) (u : Nat) (p : Packet) (seen : List Query) : Prop :=
  ∃ l : List UFrag, (l.map (·.q)).Sublist seen ∧ SChain td l ∧ (∀ f ∈ l, hexCode ((f.inb td).getD 0 0) = (u : Int)) ∧
    p.data.take p.offset = sjoin td l ∧ p.offset = (sjoin td l).length ∧ p.len = p.offset ∧
    ∀ r, l.getLast? = some r → (r.seq td : Int) = p.seqno ∧ (r.frag td : Int) = p.fragment

theorem SInv.mono {td : List Nat} {u : Nat} {p : Packet} {seen : List Query} (h : SInv td u p seen) (more : List Query) :
    SInv td u p (seen ++ more) := by
  obtain ⟨l, a, b⟩ := h
  exact ⟨l, a.trans (List.sublist_append_left _ _), b⟩

theorem SInv.empty {td : List Nat} {u : Nat} {p : Packet} (h1 : p.len = 0) (h2 : p.offset = 0) (seen : List Query) :
    SInv td u p seen :=
  ⟨[], List.nil_sublist _, trivial, (fun _ h => nomatch h), by rw [h2]; rfl, by rw [h2]; rfl, by rw [h1, h2],
    (fun _ h => nomatch h)⟩

/-- where a completed buffer comes from -/
def SOriginB (td : List Nat) (u : Nat) (seen : List Query) (q : Query) (b : Option (List Nat)) : Prop :=
  b = none ∨ ∃ l : List UFrag, (l.map (·.q)).Sublist (seen ++ [q]) ∧ SChain td l ∧
    (∀ f ∈ l, hexCode ((f.inb td).getD 0 0) = (u : Int)) ∧ (l.getLast?.map (·.q)) = some q ∧ b = some (sjoin td l)

/-- **one data query under arbitrary input**: `f` is the query with the session's codec, `(f.seq, f.frag, last)` its
header -/
theorem sxStep_inv (td : List Nat) (u : Nat) (p : Packet) (f : UFrag) (last : Bool) (seen : List Query)
    (hu : hexCode ((f.inb td).getD 0 0) = (u : Int)) (h : SInv td u p seen) :
    SInv td u (sxStep p (f.seq td) (f.frag td) last (f.payload td)).1 (seen ++ [f.q]) ∧
    SOriginB td u seen f.q (sxStep p (f.seq td) (f.frag td) last (f.payload td)).2 := by
  -- the bookkeeping: refused, or a state holding a chain whose last element is below this fragment
  have hup : (sxUp p (f.seq td) (f.frag td)).2 = false ∧ (sxUp p (f.seq td) (f.frag td)).1 = p ∨
      (sxUp p (f.seq td) (f.frag td)).2 = true ∧
      (sxUp p (f.seq td) (f.frag td)).1.seqno = (f.seq td : Int) ∧
      (sxUp p (f.seq td) (f.frag td)).1.fragment = (f.frag td : Int) ∧
      ∃ l : List UFrag, (l.map (·.q)).Sublist seen ∧ SChain td l ∧
        (∀ g ∈ l, hexCode ((g.inb td).getD 0 0) = (u : Int)) ∧
        (sxUp p (f.seq td) (f.frag td)).1.data.take (sxUp p (f.seq td) (f.frag td)).1.offset = sjoin td l ∧
        (sxUp p (f.seq td) (f.frag td)).1.offset = (sjoin td l).length ∧
        (sxUp p (f.seq td) (f.frag td)).1.len = (sxUp p (f.seq td) (f.frag td)).1.offset ∧
        ∀ r, l.getLast? = some r → f.seq td = r.seq td ∧ r.frag td < f.frag td := by
    unfold sxUp
    split
    · exact Or.inl ⟨rfl, rfl⟩
    · next h1 =>
      split
      · exact Or.inl ⟨rfl, rfl⟩
      · split
        · right
          exact ⟨rfl, rfl, rfl, [], List.nil_sublist _, trivial, (fun _ h => nomatch h), rfl, rfl, rfl,
            (fun _ h => nomatch h)⟩
        · next h3 =>
          right
          have hs : (f.seq td : Int) = p.seqno := by
            apply Classical.byContradiction; intro hn; exact h3 hn
          obtain ⟨l, a, b, c, d, e, g, k⟩ := h
          refine ⟨rfl, hs.symm, rfl, l, a, b, c, d, e, g, ?_⟩
          intro r hr
          obtain ⟨k1, k2⟩ := k r hr
          constructor
          · have : (f.seq td : Int) = (r.seq td : Int) := by rw [k1, hs]
            exact Int.ofNat_inj.mp this
          · have : ¬ ((f.frag td : Int) ≤ p.fragment) := fun hle => h1 ⟨hs, hle⟩
            omega
  unfold sxStep sxTake
  rcases hup with ⟨h2, h1⟩ | ⟨h2, hseq, hfrag, l, a, b, c, d, e, g, k⟩
  · rw [h2, h1]
    simp only [Bool.false_eq_true, false_and, if_false]
    exact ⟨h.mono _, Or.inl rfl⟩
  · rw [h2]
    simp only [true_and, if_true]
    generalize sxUp p (f.seq td) (f.frag td) = up at hseq hfrag d e g
    have hsub : ((l ++ [f]).map (·.q)).Sublist (seen ++ [f.q]) := by
      rw [List.map_append]; exact List.Sublist.append a (List.Sublist.refl _)
    have hchain : SChain td (l ++ [f]) := SChain.snoc td l f b k
    have hall : ∀ x ∈ l ++ [f], hexCode ((x.inb td).getD 0 0) = (u : Int) := by
      intro x hx
      rcases List.mem_append.mp hx with hx | hx
      · exact c x hx
      · simp only [List.mem_singleton] at hx; rw [hx]; exact hu
    have hlast : (l ++ [f]).getLast? = some f := by simp
    have hdata : (sxStore up.1 (f.payload td)).data.take (sxStore up.1 (f.payload td)).offset = sjoin td (l ++ [f]) ∧
        (sxStore up.1 (f.payload td)).offset = (sjoin td (l ++ [f])).length ∧
        (sxStore up.1 (f.payload td)).len = (sxStore up.1 (f.payload td)).offset := by
      unfold sxStore
      dsimp only
      rw [sjoin_snoc, d, ← e]
      have hlen : (sjoin td l ++ List.take (PACKET_DATA_SIZE - up.1.offset) (f.payload td)).length
          = up.1.offset + (List.take (PACKET_DATA_SIZE - up.1.offset) (f.payload td)).length := by
        rw [List.length_append, ← e]
      refine ⟨?_, hlen.symm, by rw [g]⟩
      rw [← hlen]
      exact List.take_of_length_le (Nat.le_refl _)
    cases last with
    | true =>
      simp only [if_true]
      refine ⟨SInv.empty rfl rfl _, Or.inr ⟨l ++ [f], hsub, hchain, hall, by rw [hlast]; rfl, ?_⟩⟩
      rw [hdata.2.2, hdata.1]
    | false =>
      simp only [Bool.false_eq_true, if_false]
      refine ⟨⟨l ++ [f], hsub, hchain, hall, hdata.1, hdata.2.1, hdata.2.2, ?_⟩, Or.inl rfl⟩
      intro r hr
      rw [hlast] at hr
      cases hr
      exact ⟨hseq.symm, hfrag.symm⟩


/-! ### one iteration of the server loop under arbitrary input -/

/-- the frame written for a buffer that decompresses -/
def sframes (b : List Nat) : List (List Nat) :=
  match uncompress b 65536 with
  | some out => [[0, 0, 8, 0] ++ out.drop 4]
  | none => []

theorem fullTun_cases (s : Srv) (b : List Nat) : fullTun s b = [] ∨ fullTun s b = sframes b := by
  unfold fullTun sframes
  cases uncompress b 65536 with
  | none => exact Or.inl rfl
  | some out =>
    dsimp only
    split
    · cases findUserByIp s (ipDst out) with
      | none => exact Or.inr rfl
      | some t => exact Or.inl rfl
    · exact Or.inl rfl

/-- the query an input delivers, if any -/
def qOf : Input → List Query
  | .q q => [q]
  | _ => []

/-- all slots satisfy the buffer invariant -/
def GInv (td : List Nat) (s : Srv) (seen : List Query) : Prop :=
  s.cfg.topdomain = td ∧ ∀ u, SInv td u (getUser s u).inpacket seen

/-- where the tun writes of one iteration come from -/
def SOrigin (td : List Nat) (seen : List Query) (inp : Input) (evs : List Event) : Prop :=
  stunws evs = [] ∨
  (∃ (q : Query) (u : Nat) (l : List UFrag), inp = .q q ∧ (l.map (·.q)).Sublist (seen ++ [q]) ∧ SChain td l ∧
      (∀ f ∈ l, hexCode ((f.inb td).getD 0 0) = (u : Int)) ∧ l.getLast?.map (·.q) = some q ∧
      stunws evs = sframes (sjoin td l)) ∨
  (∃ src bytes, inp = .rawf src bytes ∧ stunws evs = sframes ((bytes.take 65536).drop RAW_HDR_LEN))

theorem handleVersion_in2 (s : Srv) (q : Query) (inb : List Nat) (v : Nat) :
    (getUser (handleVersion s q inb).1 v).inpacket = (getUser s v).inpacket ∨
    ((getUser (handleVersion s q inb).1 v).inpacket.len = 0 ∧ (getUser (handleVersion s q inb).1 v).inpacket.offset = 0) := by
  rcases C04L.handleVersion_cases s q inb with ⟨u, _, _, hs, _⟩ | ⟨hs, _⟩
  · rw [hs]
    by_cases hv : v = u ∧ u < s.users.length
    · right
      obtain ⟨rfl, hlt⟩ := hv
      rw [C04L.getUser_setUser_self _ _ _ (by simp [C04L.popRand_users]; exact hlt)]
      exact ⟨rfl, rfl⟩
    · left
      have e1 : ∀ (s' : Srv) (f : Session → Session), s'.users.length = s.users.length →
          getUser (setUser s' u f) v = getUser s' v := by
        intro s' f hl
        rw [C04L.getUser_setUser, hl, if_neg hv]
      rw [e1 _ _ (by simp [C04L.popRand_users]), e1 _ _ (by simp [C04L.popRand_users]), C04L.getUser_popRand,
        e1 _ _ rfl]
  · left; rw [hs]

theorem sinv_all_mono {td : List Nat} {s s' : Srv} {seen : List Query} (h : GInv td s seen) (more : List Query)
    (hc : s'.cfg = s.cfg) (hs : ∀ v, (getUser s' v).inpacket = (getUser s v).inpacket) : GInv td s' (seen ++ more) :=
  ⟨by rw [hc]; exact h.1, fun u => by rw [hs u]; exact (h.2 u).mono more⟩

theorem dispatch_cfg (s : Srv) (inp : Input) (ts : Bool) : (dispatch s inp ts).1.cfg = s.cfg :=
  (C04L.frame_dispatch s inp ts).cfg

/-- **one handler phase under arbitrary input** -/
theorem dispatch_inv (td : List Nat) (e : Srv) (inp : Input) (ts : Bool) (seen : List Query) (h : GInv td e seen) :
    GInv td (dispatch e inp ts).1 (seen ++ qOf inp) ∧ SOrigin td seen inp (dispatch e inp ts).2 := by
  have hcfg := dispatch_cfg e inp ts
  rcases dispatch_class e inp ts with hi | ⟨q, dlen, hq, hd, hv, he⟩ |
      ⟨q, u, dlen, hq, hd, _, _, hu, hlt, _, he⟩ | ⟨src, bytes, hq, hchk, he⟩
  · exact ⟨sinv_all_mono h _ hcfg hi.same.eq, Or.inl hi.quiet⟩
  · subst hq
    refine ⟨⟨by rw [hcfg]; exact h.1, fun v => ?_⟩, Or.inl (by rw [he]; exact (handleVersion_in e q _).2)⟩
    rw [he]
    rcases handleVersion_in2 e q (q.name.take (min dlen 512)) v with hs | ⟨h1, h2⟩
    · rw [hs]; exact (h.2 v).mono _
    · exact SInv.empty h1 h2 _
  · subst hq
    -- the data handler for slot `u`
    let f : UFrag := ⟨q, (getUser e u).encoder⟩
    have hinb : f.inb td = q.name.take (min dlen 512) := by
      show q.name.take (min ((Common.queryDatalen q.name td).getD 0) 512) = _
      rw [← h.1, hd]; rfl
    obtain ⟨a, b, c⟩ := dataFresh_sx e u q (q.name.take (min dlen 512)) hlt
    rw [← hinb] at a b c hu he
    obtain ⟨i1, i2⟩ := sxStep_inv td u (getUser e u).inpacket f (upHdr (f.inb td)).2.2 seen hu (h.2 u)
    refine ⟨⟨by rw [hcfg]; exact h.1, fun v => ?_⟩, ?_⟩
    · rw [he]
      by_cases hvu : v = u
      · subst hvu; rw [a]; exact i1
      · rw [b v hvu]; exact (h.2 v).mono _
    · unfold SOrigin
      rw [he, c]
      rcases i2 with hn | ⟨l, l1, l2, l3, l4, l5⟩
      · left
        show (match (sxStep (getUser e u).inpacket (f.seq td) (f.frag td) (upHdr (f.inb td)).2.2 (f.payload td)).2 with
          | some b => fullTun e b | none => []) = []
        rw [hn]
      · have hb : (match (sxStep (getUser e u).inpacket (f.seq td) (f.frag td) (upHdr (f.inb td)).2.2
            (f.payload td)).2 with | some b => fullTun e b | none => []) = fullTun e (sjoin td l) := by rw [l5]
        rcases fullTun_cases e (sjoin td l) with h0 | h1
        · left; exact hb.trans h0
        · right; left; exact ⟨q, u, l, rfl, l1, l2, l3, l4, hb.trans h1⟩
  · subst hq
    generalize hu' : (bytes.take 65536).getD 3 0 &&& RAW_HDR_USR_MASK = u' at he hchk
    have hlt : u' < e.users.length := by
      obtain ⟨hc, _⟩ := C04L.checkAuth_false e _ _ hchk
      obtain ⟨_, _, hact, _⟩ := C04L.checkUserAndIp_false e _ _ hc
      rw [Int.toNat_natCast] at hact
      exact lt_length_of_active hact
    have hst : (getUser (rawStored e u' src ((bytes.take 65536).drop RAW_HDR_LEN)) u').inpacket =
        { (getUser e u').inpacket with offset := 0, data := (bytes.take 65536).drop RAW_HDR_LEN,
                                       len := ((bytes.take 65536).drop RAW_HDR_LEN).length } := by
      unfold rawStored
      rw [C04L.getUser_setUser_self _ _ _ hlt]
    refine ⟨⟨by rw [hcfg]; exact h.1, fun v => ?_⟩, ?_⟩
    · rw [he, handleFullPacket_in]
      split
      · exact SInv.empty rfl rfl _
      · next hn =>
        have hvu : v ≠ u' := fun hv => hn ⟨hv, by unfold rawStored; rw [C04L.setUser_len]; exact hlt⟩
        unfold rawStored
        rw [C04L.getUser_setUser_ne _ _ _ _ hvu]
        exact (h.2 v).mono _
    · unfold SOrigin
      rw [he, handleFullPacket_tun, hst]
      dsimp only
      rw [List.take_of_length_le (Nat.le_refl _)]
      rcases fullTun_cases (rawStored e u' src ((bytes.take 65536).drop RAW_HDR_LEN))
          ((bytes.take 65536).drop RAW_HDR_LEN) with h0 | h1
      · exact Or.inl h0
      · exact Or.inr (Or.inr ⟨src, bytes, rfl, h1⟩)


/-! ### runs of the server under arbitrary input -/

def SOrigins (td : List Nat) : List Query → Srv → List Step → Prop
  | _, _, [] => True
  | seen, s, st :: rest => SOrigin td seen st.inp (out s st) ∧ SOrigins td (seen ++ qOf st.inp) (next s st) rest

theorem SOrigin.congr {td : List Nat} {seen : List Query} {inp : Input} {evs evs' : List Event}
    (h : SOrigin td seen inp evs) (e : stunws evs' = stunws evs) : SOrigin td seen inp evs' := by
  unfold SOrigin at h ⊢
  rw [e]; exact h

theorem iteration_inv (td : List Nat) (s : Srv) (st : Step) (seen : List Query) (h : GInv td s seen) :
    GInv td (next s st) (seen ++ qOf st.inp) ∧ SOrigin td seen st.inp (out s st) := by
  have he : GInv td (C03L.entry s st.now) seen :=
    ⟨h.1, fun u => by rw [entry_in]; exact h.2 u⟩
  obtain ⟨g, o⟩ := dispatch_inv td (C03L.entry s st.now) st.inp (topOfLoop s).2.2 seen he
  refine ⟨⟨?_, fun u => ?_⟩, o.congr (out_tunws s st)⟩
  · have : (next s st).cfg = s.cfg := C04L.iteration_cfg s st.inp st.now
    rw [this]; exact h.1
  · rw [next_in]; exact g.2 u

theorem sorigins_run (td : List Nat) : ∀ (steps : List Step) (s : Srv) (seen : List Query),
    GInv td s seen → SOrigins td seen s steps := by
  intro steps
  induction steps with
  | nil => intro _ _ _; trivial
  | cons st rest ih =>
    intro s seen h
    obtain ⟨g, o⟩ := iteration_inv td s st seen h
    exact ⟨o, ih _ _ g⟩

/-- all reassembly buffers are empty -/
theorem ginv_of_empty (s : Srv) (h : ∀ u, (getUser s u).inpacket.len = 0 ∧ (getUser s u).inpacket.offset = 0) :
    GInv s.cfg.topdomain s [] :=
  ⟨rfl, fun u => SInv.empty (h u).1 (h u).2 _⟩

theorem start_empty (cfg : Config) (rnd : List Nat) (u : Nat) :
    (getUser (start cfg rnd) u).inpacket.len = 0 ∧ (getUser (start cfg rnd) u).inpacket.offset = 0 := by
  unfold getUser start Srv.init
  simp only [List.getD_eq_getElem?_getD, List.getElem?_map]
  cases (Users.initUsers cfg.myIp cfg.netmask)[u]? <;> exact ⟨rfl, rfl⟩

end Iodine.C01L
