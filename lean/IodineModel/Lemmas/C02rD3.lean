import IodineModel.Lemmas.C02qM5
import IodineModel.Lemmas.C02rD1
/-
C02 phase 3 / d7down — part 3, LAZY mode.  `DownFlightLW` = `DownFlightL` (C02M3) with `CExpectW` for `CExpect`; the three
one-fragment theorems `down_mid_lazyW`, `down_last_lazyW`, `down_last_lazy_nowW` are those of C02M5/C02M6 with the `W`
reception lemmas (their conclusions are the ORIGINAL ones: after the first fragment the transfer is an ordinary one), so
`down_flight_run_lazyW` needs no induction of its own: first fragment, then `down_flight_run_lazy`.
`down_packet_lazy_desync7_ok`: `d = 7`, `inpkt.fragment = 0`, `inpkt.len = 0` → the packet is delivered exactly once in the
normal number of steps, `QuietLazy` afterwards.
-/
namespace Iodine.C02L
open Iodine Iodine.Gen Iodine.World

/-- `DownFlightL` with the weird situation allowed for the fragment in flight -/
structure DownFlightLW (P : Par) (out : List Nat) (w : W) (sq : Int) (o D f : Nat) : Prop where
  ph : w.cs.ph = .tunnel
  cst : CStatL P w.cs.c
  cnt : CntOk w.cs.c 1
  idleC : Client.isSending w.cs.c = false
  up : w.up = []
  down : ∃ name pkt, w.down = [.ans w.cs.c.chunkid P.ty name pkt] ∧ Client.notData w.cs.c (name.headD 0) = false ∧
    FragPkt pkt out sq o D f (decide (out.length > 0 ∧ out.length = o + D))
  exp : CExpectW w.cs.c out sq o f
  dup : sq = w.cs.c.inpkt.seqno ∨ Client.recentSeqno w.cs.c.inpkt.seqno sq = false
  hsq : 0 ≤ sq ∧ sq < 8
  hD : 0 < D
  hle : o + D ≤ out.length
  srv : PingSrvL P w.srv
  frag : 0 < (Server.getUser w.srv P.u).fragsize
  op : (Server.getUser w.srv P.u).outpacket = ⟨out.length, D, o, out, sq, (f : Int)⟩ ∨
    ((Server.getUser w.srv P.u).outpacket = ⟨0, 0, 0, out, sq, 0⟩ ∧ o = 0 ∧ f = 0 ∧ D = out.length)
  syncu : (Server.getUser w.srv P.u).inpacket.seqno = w.cs.c.outpkt.seqno
  aged : Aged P (Server.getUser w.srv P.u) w.cs.c.datacmc 1
  paged : PAged P (Server.getUser w.srv P.u) w.cs.c.randSeed 1

theorem DownFlightL.toW {P : Par} {out : List Nat} {w : W} {sq : Int} {o D f : Nat} (h : DownFlightL P out w sq o D f) :
    DownFlightLW P out w sq o D f :=
  ⟨h.ph, h.cst, h.cnt, h.idleC, h.up, h.down, h.exp.toW, h.dup, h.hsq, h.hD, h.hle, h.srv, h.frag, h.op, h.syncu, h.aged, h.paged⟩

theorem DownSentL.toFlightW {P : Par} {out : List Nat} {w : W} {sq : Int} {o D f : Nat} (h : DownSentL P out w sq o D f)
    (hexp : CExpectW w.cs.c out sq o f) (hdup : sq = w.cs.c.inpkt.seqno ∨ Client.recentSeqno w.cs.c.inpkt.seqno sq = false) :
    DownFlightLW P out w sq o D f :=
  ⟨h.ph, h.cst, h.cnt, h.idleC, h.up, h.down, hexp, hdup, h.hsq, h.hD, h.hle, h.srv, h.frag, h.op, h.syncu, h.aged, h.paged⟩

theorem down_mid_lazyW {P : Par} (hP : P.Ok) {out : List Nat} {w : W} {sq : Int} {o D f : Nat}
    (h : DownFlightLW P out w sq o D f) (h64 : out.length ≤ 65536) (hlt : o + D < out.length) (hf : f + 1 < 16) :
    ∃ D', D' = downLen (Server.getUser w.srv P.u).fragsize (out.length - (o + D)) ∧
      ∃ w', promptSteps P.u 2 w = some w' ∧ DownFlightL P out w' sq (o + D) D' (f + 1) ∧ w'.cs.c.sendPingSoon = 0 ∧
        w'.tunS = w.tunS ∧ w'.tunC = w.tunC ∧
        (Server.getUser w'.srv P.u).fragsize = (Server.getUser w.srv P.u).fragsize ∧
        (Server.getUser w'.srv P.u).tunIp = (Server.getUser w.srv P.u).tunIp := by
  obtain ⟨name, pkt, hdown, hnd, hfp⟩ := h.down
  have hsqr := h.hsq
  have hfl : FragPkt pkt out sq o D f false := by
    have : decide (out.length > 0 ∧ out.length = o + D) = false := by
      rw [decide_eq_false_iff_not]; omega
    rw [this] at hfp; exact hfp
  have hop : (Server.getUser w.srv P.u).outpacket = ⟨out.length, D, o, out, sq, (f : Int)⟩ := by
    rcases h.op with h1 | ⟨_, h2, _, h4⟩
    · exact h1
    · omega
  generalize hc : w.cs.c = c at hdown hnd
  have hwc : w.cs = ⟨c, .tunnel⟩ := by rw [cstate_eta w.cs h.ph, hc]
  have hcst : CStatL P c := by rw [← hc]; exact h.cst
  have hcnt : CntOk c 1 := by rw [← hc]; exact h.cnt
  -- step 1: the client receives the fragment, appends it and pings at once
  generalize hrq : (Client.Rq.mk (pkt.length : Int) c.chunkid (answerType P.ty) 0 (name.headD 0) pkt) = rq
  have hci : cliInput (.ans c.chunkid P.ty name pkt) = .rq rq := by subst hrq; rfl
  have hrok : RecvOkL P c rq pkt := by
    subst hrq
    exact ⟨hcst, by rw [← hc]; exact h.idleC, hnd, rfl, rfl, rfl⟩
  obtain ⟨name', hstep, hpq⟩ := recv_midLW hP hrok hcnt hfl h.hD (by rw [← hc]; exact h.dup) (by rw [← hc]; exact h.exp) hsqr (by omega)
    h.hle h64
  generalize hc3 : midStateL c out sq o D f = c3 at hstep hpq
  have hc3st : CStatL P c3 := by rw [← hc3]; exact cstatL_mid hcst out sq o D f hsqr (by omega)
  have hc3cnt : CntOk c3 0 := by rw [← hc3]; exact cntOk_mid out sq o D f 0 hcnt
  have hpf := pingFactsL c3
  have hq1 : quiet P.u w = false := quiet_false_of_down _ _ _ _ hdown
  have hs1 : step w (promptEv w) =
      { w with down := [], cs := ⟨pingStateL c3, .tunnel⟩, up := [.query (pingStateL c3).chunkid P.ty name'] } := by
    rw [promptEv_down w _ _ h.up hdown, step_deliverDown w _ _ hdown, hci,
      stepC_of { w with down := [] } (.rq rq) ⟨pingStateL c3, .tunnel⟩ [.query (pingStateL c3).chunkid P.ty name']
        (.sel (Client.selectOf (pingStateL c3)))
        (by show Client.cstep w.cs _ = _; rw [hwc]; exact hstep)
        (by show (pingStateL c3).now = w.cs.c.now; rw [hpf.now, hc, ← hc3]; rfl)]
    simp [upOfEvents, tunOfCEvents, h.up]
  generalize hw2 : ({ w with down := [], cs := ⟨pingStateL c3, .tunnel⟩, up := [.query (pingStateL c3).chunkid P.ty name'] } : W) = w2 at hs1
  have hw2srv : w2.srv = w.srv := by subst hw2; rfl
  have hw2up : w2.up = [.query (pingStateL c3).chunkid P.ty name'] := by subst hw2; rfl
  have hw2down : w2.down = [] := by subst hw2; rfl
  have hq2 : quiet P.u w2 = false := quiet_false_of_up _ _ _ _ hw2up
  -- step 2: the ping reaches the server; the acknowledged fragment is followed by the next one
  generalize hx0 : ({ Server.getUser w.srv P.u with qsNew := false } : Server.Session) = x0
  have hx0op : x0.outpacket = ⟨out.length, D, o, out, sq, (f : Int)⟩ := by subst hx0; exact hop
  have hack := ackSess_advance x0 sq f (by rw [hx0op]; show out.length ≠ 0; omega) (by rw [hx0op]) (by rw [hx0op])
    (by rw [hx0op]; show D ≠ 0; have := h.hD; omega) (by rw [hx0op]; exact hlt)
  obtain ⟨s', evs, t, pkt2, hit, hdown2, htun2, hap, hA', hPA'⟩ :=
    srv_ping_lazy_more hP h.srv.stat h.srv.q h.srv.qs h.srv.oq (by have := h.srv.res; omega) hpq
      (k := c.datacmc) (by rw [← hc]; exact h.aged) (by rw [← hc]; exact h.paged)
      (by rw [hx0, hack, hx0op]; show 0 < out.length; omega)
  generalize hQ : upQuery (pingStateL c3).chunkid P.ty name' = Q at hit hdown2 hap hpq
  have hQid2 : Q.id2 = 0 := by rw [← hQ]; rfl
  have hslot : Server.getUser s' P.u = pingZ x0 P.u Q sq f w.srv.now := by
    rw [afterPing_slot hap, hx0]
  obtain ⟨D', hDdef, hzo, hzr, hDpos, hDle, yy, hyev, hyo, hyi⟩ := pingZ_next x0 P.u Q w.srv.now out sq o D f hQid2
    (by subst hx0; exact h.srv.oq) (by subst hx0; have := h.srv.res; show (Server.getUser w.srv P.u).outfragresent ≤ 5; omega)
    hx0op h.hD hlt (by subst hx0; exact h.frag) (by omega)
  have hfs : x0.fragsize = (Server.getUser w.srv P.u).fragsize := by subst hx0; rfl
  rw [hfs] at hDdef
  rw [← hslot] at hzo hzr
  have hpkt : pkt2 = Server.scPkt yy D' := by
    have h1 := hap.pkt
    rw [hx0, hyev] at h1
    exact pkt_of_writeDns h1
  obtain ⟨hps, hfs', hin', htun', _⟩ := pingSrvL_after h.srv hQid2 hap (by rw [hzo]; exact hsqr)
    (by rw [hzo]; show (0 : Int) ≤ ((f + 1 : Nat) : Int) ∧ ((f + 1 : Nat) : Int) < 16; omega) (by rw [hzr]; omega)
  have hfp2 := fragPkt_of yy out sq (o + D) D' (f + 1) hyo hDle hsqr (by omega)
    (by rw [hyi]; subst hx0; exact h.srv.stat.x.iseq) (by rw [hyi]; subst hx0; exact h.srv.stat.x.ifrag)
  rw [← hpkt] at hfp2
  have hs2 : step w2 (promptEv w2) =
      { w2 with up := [], srv := s', down := [.ans (pingStateL c3).chunkid P.ty name' pkt2] } := by
    rw [promptEv_up w2 _ _ hw2up, step_deliverUp w2 _ _ hw2up, srvInput_query, hQ,
      stepS_zero { w2 with up := [] } _ s' evs t (by show Server.iteration w2.srv _ w2.srv.now = _; rw [hw2srv]; exact hit),
      hdown2, htun2]
    rw [← hQ]
    simp [hw2down, upQuery]
  refine ⟨D', hDdef, { w2 with up := [], srv := s', down := [.ans (pingStateL c3).chunkid P.ty name' pkt2] }, ?_, ?_, ?_, ?_, ?_, ?_, ?_⟩
  · rw [promptSteps_succ hq1, hs1, promptSteps_succ hq2, hs2]; rfl
  · subst hw2
    have hinp : (pingStateL c3).inpkt = inAfter c out sq o D f := by rw [hpf.inpkt, ← hc3]; rfl
    refine ⟨rfl, cstatL_pingStateL hc3st, (pingStateL_ids c3).2.2 0 hc3cnt, ?_, rfl,
      ⟨name', pkt2, rfl, ?_, hfp2⟩, ?_, ?_, hsqr, hDpos, hDle, hps, by rw [hfs']; exact h.frag, Or.inl hzo, ?_, ?_, ?_⟩
    · show Client.isSending (pingStateL c3) = false
      unfold Client.isSending
      rw [hpf.outpkt, ← hc3]
      have := h.idleC
      rw [hc] at this
      exact this
    · show Client.notData (pingStateL c3) (name'.headD 0) = false
      have h0 : name'.getD 0 0 = 112 := by have := hpq.c0; rw [← hQ] at this; exact this
      rw [headD_eq_getD, h0]; simp [Client.notData]
    · show CExpect (pingStateL c3) out sq (o + D) (f + 1)
      right
      rw [hinp]
      refine ⟨by omega, rfl, by show ((f : Nat) : Int) = ((f + 1 : Nat) : Int) - 1; omega, rfl, ?_⟩
      show (out.take (o + D)).take (o + D) = _
      rw [List.take_take, Nat.min_self]
    · left
      show sq = (pingStateL c3).inpkt.seqno
      rw [hinp]; rfl
    · show (Server.getUser s' P.u).inpacket.seqno = (pingStateL c3).outpkt.seqno
      rw [hin', h.syncu, hpf.outpkt, ← hc3, hc]; rfl
    · show Aged P (Server.getUser s' P.u) (pingStateL c3).datacmc 1
      have : (pingStateL c3).datacmc = c.datacmc := by rw [hpf.datacmc, ← hc3]; rfl
      rw [this]; exact hA'
    · show PAged P (Server.getUser s' P.u) (pingStateL c3).randSeed 1
      have : (pingStateL c3).randSeed = (c.randSeed + 1) % 65536 := by rw [hpf.seed, ← hc3]; rfl
      rw [this]; exact hPA'
  · subst hw2; exact hpf.sps
  · subst hw2; rfl
  · subst hw2; rfl
  · subst hw2; exact hfs'
  · subst hw2; exact htun'

theorem down_last_lazyW {P : Par} (hP : P.Ok) {frame : List Nat} {w : W} {sq : Int} {o D f : Nat}
    (h : DownFlightLW P (0x5a :: frame) w sq o D f) (hsps : w.cs.c.sendPingSoon = 0) (h64 : (0x5a :: frame).length ≤ 65536)
    (h4 : 4 ≤ frame.length) (heq : o + D = (0x5a :: frame).length) (hf : f < 16) :
    ∃ w', promptSteps P.u 3 w = some w' ∧ QuietLazy P w' ∧ w'.cs.c.sendPingSoon = 0 ∧
      w'.tunC = w.tunC ++ [tunImage frame] ∧ w'.tunS = w.tunS ∧
      (Server.getUser w'.srv P.u).fragsize = (Server.getUser w.srv P.u).fragsize ∧
      (Server.getUser w'.srv P.u).tunIp = (Server.getUser w.srv P.u).tunIp := by
  obtain ⟨name, pkt, hdown, hnd, hfp⟩ := h.down
  have hsqr := h.hsq
  have hfl : FragPkt pkt (0x5a :: frame) sq o D f true := by
    have : decide ((0x5a :: frame).length > 0 ∧ (0x5a :: frame).length = o + D) = true := by
      rw [decide_eq_true_iff]; simp only [List.length_cons] at heq ⊢; omega
    rw [this] at hfp; exact hfp
  generalize hc : w.cs.c = c at hdown hnd
  have hwc : w.cs = ⟨c, .tunnel⟩ := by rw [cstate_eta w.cs h.ph, hc]
  have hcst : CStatL P c := by rw [← hc]; exact h.cst
  have hcnt : CntOk c 1 := by rw [← hc]; exact h.cnt
  have hidle : Client.isSending c = false := by rw [← hc]; exact h.idleC
  -- step 1: the client receives the last fragment and writes the packet to its tun device
  generalize hrq : (Client.Rq.mk (pkt.length : Int) c.chunkid (answerType P.ty) 0 (name.headD 0) pkt) = rq
  have hci : cliInput (.ans c.chunkid P.ty name pkt) = .rq rq := by subst hrq; rfl
  have hrok : RecvOkL P c rq pkt := by
    subst hrq
    exact ⟨hcst, hidle, hnd, rfl, rfl, rfl⟩
  have hstep := recv_lastLW hrok (by rw [← hc]; exact hsps) hfl h.hD (by rw [← hc]; exact h.dup) (by rw [← hc]; exact h.exp) hsqr hf heq h64
  generalize hc2 : lastStateL c (0x5a :: frame) sq o D f = c2 at hstep
  have hc2st : CStatL P c2 := by rw [← hc2]; exact cstatL_last hcst _ sq o D f hsqr hf
  have hc2cnt : CntOk c2 0 := by rw [← hc2]; exact cntOk_last _ sq o D f 0 hcnt
  have hc2idle : Client.isSending c2 = false := by rw [← hc2]; exact hidle
  have hc2sps : c2.sendPingSoon = 5 := by rw [← hc2]; rfl
  have hq1 : quiet P.u w = false := quiet_false_of_down _ _ _ _ hdown
  have hs1 : step w (promptEv w) = { w with down := [], cs := ⟨c2, .tunnel⟩, tunC := w.tunC ++ [tunImage frame] } := by
    rw [promptEv_down w _ _ h.up hdown, step_deliverDown w _ _ hdown, hci,
      stepC_of { w with down := [] } (.rq rq) ⟨c2, .tunnel⟩ [Client.writeTun frame] (.sel (Client.selectOf c2))
        (by show Client.cstep w.cs _ = _; rw [hwc]; exact hstep)
        (by show c2.now = w.cs.c.now; rw [hc, ← hc2]; rfl)]
    rw [tunOfC_writeTun frame h4]
    have hno : upOfEvents [Client.writeTun frame] = [] := rfl
    rw [hno]
    simp [h.up]
  generalize hw2 : ({ w with down := [], cs := ⟨c2, .tunnel⟩, tunC := w.tunC ++ [tunImage frame] } : W) = w2 at hs1
  have hw2srv : w2.srv = w.srv := by subst hw2; rfl
  have hw2c : w2.cs.c = c2 := by subst hw2; rfl
  have hw2up : w2.up = [] := by subst hw2; exact h.up
  have hw2down : w2.down = [] := by subst hw2; rfl
  have hq2 : quiet P.u w2 = false := quiet_false_of_noq (by rw [hw2srv]; exact h.srv)
  -- step 2: the client's 5 ms timer: the ping that acknowledges the last fragment
  have hsel : (Client.selectOf c2).to = 5000 := by
    simp [Client.selectOf, hc2sps]
  obtain ⟨name', hs2, hpq⟩ := poll_stepL hP (w := w2) (by subst hw2; rfl) (by rw [hw2c]; exact hc2st)
    (by rw [hw2c]; exact hc2cnt.mono (by omega)) (by rw [hw2c]; exact hc2idle) hw2up hw2down
    (by rw [hw2c, hsel]; omega) (timeoutS_idleL (by rw [hw2srv]; exact h.srv))
  rw [hw2c] at hs2 hpq
  have e3 : c2.inpkt.seqno = sq := by rw [← hc2]; rfl
  have e4 : c2.inpkt.fragment = (f : Int) := by rw [← hc2]; rfl
  have e5 : c2.randSeed = c.randSeed := by rw [← hc2]; rfl
  have e6 : c2.datacmc = c.datacmc := by rw [← hc2]; rfl
  have e7 : c2.outpkt = c.outpkt := by rw [← hc2]; rfl
  rw [e3, e4] at hpq
  generalize hw3 : ({ w2 with cs := ⟨pingStateL c2, .tunnel⟩, up := [.query (pingStateL c2).chunkid P.ty name'] } : W) = w3 at hs2
  have hw3srv : w3.srv = w.srv := by subst hw3; exact hw2srv
  -- step 3: the server completes the packet and holds the ping
  obtain ⟨w', hs3, hq3, hQL, hsps', htc, hts, hfs, htip⟩ := down_hold_lazy hP (out := 0x5a :: frame) (w3 := w3) (c2 := c2) (sq := sq)
    (o := o) (D := D) (f := f) (name' := name') (by subst hw3; rfl) hc2st hc2cnt hc2idle e3 (by subst hw3; rfl)
    (by subst hw3; exact hw2down) hpq (by rw [hw3srv]; exact h.srv) hsqr h.hD heq hf (by rw [hw3srv]; exact h.op)
    (by rw [hw3srv, h.syncu, e7, hc]) (by rw [hw3srv, e6, ← hc]; exact h.aged) (by rw [hw3srv, e5, ← hc]; exact h.paged)
  refine ⟨w', ?_, hQL, hsps', ?_, ?_, ?_, ?_⟩
  · rw [promptSteps_succ hq1, hs1, promptSteps_succ hq2, hs2, promptSteps_succ hq3, hs3]; rfl
  · rw [htc]; subst hw3; subst hw2; rfl
  · rw [hts]; subst hw3; subst hw2; rfl
  · rw [hfs, hw3srv]
  · rw [htip, hw3srv]

theorem down_last_lazy_nowW {P : Par} (hP : P.Ok) {frame : List Nat} {w : W} {sq : Int} {o D f : Nat}
    (h : DownFlightLW P (0x5a :: frame) w sq o D f) (hsps : w.cs.c.sendPingSoon ≠ 0) (h64 : (0x5a :: frame).length ≤ 65536)
    (h4 : 4 ≤ frame.length) (heq : o + D = (0x5a :: frame).length) (hf : f < 16) :
    ∃ w', promptSteps P.u 2 w = some w' ∧ QuietLazy P w' ∧ w'.cs.c.sendPingSoon = 0 ∧
      w'.tunC = w.tunC ++ [tunImage frame] ∧ w'.tunS = w.tunS ∧
      (Server.getUser w'.srv P.u).fragsize = (Server.getUser w.srv P.u).fragsize ∧
      (Server.getUser w'.srv P.u).tunIp = (Server.getUser w.srv P.u).tunIp := by
  obtain ⟨name, pkt, hdown, hnd, hfp⟩ := h.down
  have hsqr := h.hsq
  have hfl : FragPkt pkt (0x5a :: frame) sq o D f true := by
    have : decide ((0x5a :: frame).length > 0 ∧ (0x5a :: frame).length = o + D) = true := by
      rw [decide_eq_true_iff]; simp only [List.length_cons] at heq ⊢; omega
    rw [this] at hfp; exact hfp
  generalize hc : w.cs.c = c at hdown hnd
  have hwc : w.cs = ⟨c, .tunnel⟩ := by rw [cstate_eta w.cs h.ph, hc]
  have hcst : CStatL P c := by rw [← hc]; exact h.cst
  have hcnt : CntOk c 1 := by rw [← hc]; exact h.cnt
  have hidle : Client.isSending c = false := by rw [← hc]; exact h.idleC
  -- step 1: the client receives the last fragment, writes the packet to its tun device and pings at once
  generalize hrq : (Client.Rq.mk (pkt.length : Int) c.chunkid (answerType P.ty) 0 (name.headD 0) pkt) = rq
  have hci : cliInput (.ans c.chunkid P.ty name pkt) = .rq rq := by subst hrq; rfl
  have hrok : RecvOkL P c rq pkt := by
    subst hrq
    exact ⟨hcst, hidle, hnd, rfl, rfl, rfl⟩
  obtain ⟨name', hstep, hpq⟩ := recv_lastL_nowW hP hrok hcnt (by rw [← hc]; exact hsps) hfl h.hD (by rw [← hc]; exact h.dup)
    (by rw [← hc]; exact h.exp) hsqr hf heq h64
  generalize hc2 : lastStateL c (0x5a :: frame) sq o D f = c2 at hstep hpq
  have hc2st : CStatL P c2 := by rw [← hc2]; exact cstatL_last hcst _ sq o D f hsqr hf
  have hc2cnt : CntOk c2 0 := by rw [← hc2]; exact cntOk_last _ sq o D f 0 hcnt
  have hc2idle : Client.isSending c2 = false := by rw [← hc2]; exact hidle
  have hpf := pingFactsL c2
  have hq1 : quiet P.u w = false := quiet_false_of_down _ _ _ _ hdown
  have hs1 : step w (promptEv w) =
      { w with down := [], cs := ⟨pingStateL c2, .tunnel⟩, up := [.query (pingStateL c2).chunkid P.ty name'],
               tunC := w.tunC ++ [tunImage frame] } := by
    rw [promptEv_down w _ _ h.up hdown, step_deliverDown w _ _ hdown, hci,
      stepC_of { w with down := [] } (.rq rq) ⟨pingStateL c2, .tunnel⟩
        [Client.writeTun frame, .query (pingStateL c2).chunkid P.ty name'] (.sel (Client.selectOf (pingStateL c2)))
        (by show Client.cstep w.cs _ = _; rw [hwc]; exact hstep)
        (by show (pingStateL c2).now = w.cs.c.now; rw [hpf.now, hc, ← hc2]; rfl)]
    have htn : tunOfCEvents [Client.writeTun frame, .query (pingStateL c2).chunkid P.ty name'] = [tunImage frame] := by
      have h1 : tunOfCEvents [Client.writeTun frame, .query (pingStateL c2).chunkid P.ty name'] =
          tunOfCEvents [Client.writeTun frame] := rfl
      rw [h1]
      exact tunOfC_writeTun frame h4
    have hno : upOfEvents [Client.writeTun frame, .query (pingStateL c2).chunkid P.ty name'] =
        [.query (pingStateL c2).chunkid P.ty name'] := rfl
    rw [htn, hno]
    simp [h.up]
  have e3 : c2.inpkt.seqno = sq := by rw [← hc2]; rfl
  have e4 : c2.inpkt.fragment = (f : Int) := by rw [← hc2]; rfl
  have e5 : c2.randSeed = c.randSeed := by rw [← hc2]; rfl
  have e6 : c2.datacmc = c.datacmc := by rw [← hc2]; rfl
  have e7 : c2.outpkt = c.outpkt := by rw [← hc2]; rfl
  rw [← e5] at hpq
  generalize hw3 : ({ w with down := [], cs := ⟨pingStateL c2, .tunnel⟩, up := [.query (pingStateL c2).chunkid P.ty name'], tunC := w.tunC ++ [tunImage frame] } : W) = w3 at hs1
  have hw3srv : w3.srv = w.srv := by subst hw3; rfl
  -- step 2: the server completes the packet and holds the ping
  obtain ⟨w', hs3, hq3, hQL, hsps', htc, hts, hfs, htip⟩ := down_hold_lazy hP (out := 0x5a :: frame) (w3 := w3) (c2 := c2) (sq := sq)
    (o := o) (D := D) (f := f) (name' := name') (by subst hw3; rfl) hc2st hc2cnt hc2idle e3 (by subst hw3; rfl)
    (by subst hw3; rfl) hpq (by rw [hw3srv]; exact h.srv) hsqr h.hD heq hf (by rw [hw3srv]; exact h.op)
    (by rw [hw3srv, h.syncu, e7, hc]) (by rw [hw3srv, e6, ← hc]; exact h.aged) (by rw [hw3srv, e5, ← hc]; exact h.paged)
  refine ⟨w', ?_, hQL, hsps', ?_, ?_, ?_, ?_⟩
  · rw [promptSteps_succ hq1, hs1, promptSteps_succ hq3, hs3]; rfl
  · rw [htc]; subst hw3; rfl
  · rw [hts]; subst hw3; rfl
  · rw [hfs, hw3srv]
  · rw [htip, hw3srv]

theorem down_flight_run_lazyW {P : Par} (hP : P.Ok) {frame : List Nat} (h64 : (0x5a :: frame).length ≤ 65536) (h4 : 4 ≤ frame.length)
    {sq : Int} (F : Nat) :
    ∀ (fuel : Nat) (w : W) (o D f : Nat), DownFlightLW P (0x5a :: frame) w sq o D f →
      (Server.getUser w.srv P.u).fragsize = F → (0x5a :: frame).length - (o + D) ≤ fuel →
      f + downFrags F fuel ((0x5a :: frame).length - (o + D)) < 16 →
      ∃ w', promptSteps P.u (2 * downFrags F fuel ((0x5a :: frame).length - (o + D)) +
            lastStepsL w.cs.c.sendPingSoon ((0x5a :: frame).length - (o + D))) w = some w' ∧ QuietLazy P w' ∧
        w'.cs.c.sendPingSoon = 0 ∧ w'.tunC = w.tunC ++ [tunImage frame] ∧ w'.tunS = w.tunS ∧
        (Server.getUser w'.srv P.u).fragsize = F ∧ (Server.getUser w'.srv P.u).tunIp = (Server.getUser w.srv P.u).tunIp := by
  -- the last fragment, in both variants
  have hlast : ∀ (w : W) (o D f : Nat), DownFlightLW P (0x5a :: frame) w sq o D f → (Server.getUser w.srv P.u).fragsize = F →
      o + D = (0x5a :: frame).length → f < 16 →
      ∃ w', promptSteps P.u (lastStepsL w.cs.c.sendPingSoon 0) w = some w' ∧ QuietLazy P w' ∧
        w'.cs.c.sendPingSoon = 0 ∧ w'.tunC = w.tunC ++ [tunImage frame] ∧ w'.tunS = w.tunS ∧
        (Server.getUser w'.srv P.u).fragsize = F ∧ (Server.getUser w'.srv P.u).tunIp = (Server.getUser w.srv P.u).tunIp := by
    intro w o D f h hF heq hf
    by_cases hsps : w.cs.c.sendPingSoon = 0
    · obtain ⟨w', h1, h2, h3, h4', h5, h6, h7⟩ := down_last_lazyW hP h hsps h64 h4 heq hf
      refine ⟨w', ?_, h2, h3, h4', h5, by rw [h6, hF], h7⟩
      unfold lastStepsL
      rw [if_neg (by intro hc; exact hc.1 hsps)]
      exact h1
    · obtain ⟨w', h1, h2, h3, h4', h5, h6, h7⟩ := down_last_lazy_nowW hP h hsps h64 h4 heq hf
      refine ⟨w', ?_, h2, h3, h4', h5, by rw [h6, hF], h7⟩
      unfold lastStepsL
      rw [if_pos ⟨hsps, rfl⟩]
      exact h1
  intro fuel
  have ih := down_flight_run_lazy hP h64 h4 (sq := sq) F
  cases fuel with
  | zero =>
    intro w o D f h hF hl hf
    have hle := h.hle
    have heq : o + D = (0x5a :: frame).length := by omega
    have hz : (0x5a :: frame).length - (o + D) = 0 := by omega
    rw [hz, downFrags_zero] at hf ⊢
    obtain ⟨w', h1, h2⟩ := hlast w o D f h hF heq (by omega)
    exact ⟨w', by simpa using h1, h2⟩
  | succ fuel =>
    intro w o D f h hF hl hf
    have hle := h.hle
    by_cases heq : o + D = (0x5a :: frame).length
    · have hz : (0x5a :: frame).length - (o + D) = 0 := by omega
      rw [hz, downFrags_zero] at hf ⊢
      obtain ⟨w', h1, h2⟩ := hlast w o D f h hF heq (by omega)
      exact ⟨w', by simpa using h1, h2⟩
    · have hlt : o + D < (0x5a :: frame).length := by omega
      have hr0 : (0x5a :: frame).length - (o + D) ≠ 0 := by omega
      have hu : downFrags F (fuel + 1) ((0x5a :: frame).length - (o + D)) =
          1 + downFrags F fuel ((0x5a :: frame).length - (o + D) - downLen F ((0x5a :: frame).length - (o + D))) := by
        show (if (0x5a :: frame).length - (o + D) = 0 then 0 else
          1 + downFrags F fuel ((0x5a :: frame).length - (o + D) - downLen F ((0x5a :: frame).length - (o + D)))) = _
        rw [if_neg hr0]
      have hls : lastStepsL w.cs.c.sendPingSoon ((0x5a :: frame).length - (o + D)) = 3 := by
        unfold lastStepsL
        rw [if_neg (by intro hc; exact hr0 hc.2)]
      rw [hu] at hf
      rw [hu, hls]
      obtain ⟨D', hD', w1, hs, hfl, hsps1, hts, htc, hfs, htip⟩ := down_mid_lazyW hP h h64 hlt (by omega)
      rw [hF] at hD'
      rw [← hD'] at hf ⊢
      have hDpos := hfl.hD
      have hrest : (0x5a :: frame).length - (o + D + D') = (0x5a :: frame).length - (o + D) - D' := by omega
      obtain ⟨w', h1, h2, h3, h4', h5, h6, h7⟩ := ih fuel w1 (o + D) D' (f + 1) hfl (by rw [hfs, hF])
        (by rw [hrest]; omega) (by rw [hrest]; omega)
      have hls1 : lastStepsL w1.cs.c.sendPingSoon ((0x5a :: frame).length - (o + D + D')) = 3 := by
        unfold lastStepsL
        rw [if_neg (by intro hc; exact hc.1 hsps1)]
      rw [hls1, hrest] at h1
      refine ⟨w', ?_, h2, h3, by rw [h4', htc], by rw [h5, hts], h6, by rw [h7, htip]⟩
      have := promptSteps_add P.u 2 (2 * downFrags F fuel ((0x5a :: frame).length - (o + D) - D') + 3) w w1 hs
      rw [h1] at this
      rw [← this]
      congr 1
      omega

/-- **down_packet_lazy_desync7_ok** (`d = 7`, the "weird situation").  In a quiescent joint state in lazy mode in which the
server's downstream sequence number is 7 ahead of the client's — the NEW packet carries the client's CURRENT number —, the
client's last fragment number being 0 and its reassembly buffer empty: the packet is delivered exactly once, in the step
count of the clean path; the state is synchronised (`QuietLazy`) afterwards. -/
theorem down_packet_lazy_desync7_ok {P : Par} (hP : P.Ok) {w : W} (hq : QuietLazyD P 0 7 w)
    (hfr0 : w.cs.c.inpkt.fragment = 0) (hlen0 : w.cs.c.inpkt.len = 0) (frame : List Nat) (hF : 0 < (Server.getUser w.srv P.u).fragsize)
    (hok : DownFrameOk (Server.getUser w.srv P.u).tunIp (Server.getUser w.srv P.u).fragsize frame) :
    ∃ w', promptSteps P.u (downStepsL w.cs.c.sendPingSoon
          (downFrags (Server.getUser w.srv P.u).fragsize (frame.length + 1) (frame.length + 1)))
        (step w (.offerS frame)) = some w' ∧
      QuietLazy P w' ∧ w'.cs.c.sendPingSoon = 0 ∧ w'.tunC = w.tunC ++ [tunImage frame] ∧ w'.tunS = w.tunS ∧
      (Server.getUser w'.srv P.u).fragsize = (Server.getUser w.srv P.u).fragsize ∧
      (Server.getUser w'.srv P.u).tunIp = (Server.getUser w.srv P.u).tunIp := by
  obtain ⟨w1, hw1, hsent, ht1, ht2, htip1, hfs1, hcs1⟩ := down_offer_lazyD hP hq frame hok.h24 hok.hl hok.dst hF
  have hciseq := hq.cst.iseq
  have hsqe : (w.cs.c.inpkt.seqno + ((7 : Nat) : Int) + 1) % 8 = w.cs.c.inpkt.seqno := by omega
  have hfl : DownFlightLW P (0x5a :: frame) w1 ((w.cs.c.inpkt.seqno + ((7 : Nat) : Int) + 1) % 8) 0
      (downLen (Server.getUser w.srv P.u).fragsize (0x5a :: frame).length) 0 := by
    refine hsent.toFlightW (CWeird.toW ⟨by rw [hcs1, hsqe], by rw [hcs1]; exact hfr0, by rw [hcs1]; exact hlen0⟩ _) (Or.inl ?_)
    rw [hcs1, hsqe]
  generalize hFdef : (Server.getUser w.srv P.u).fragsize = F at hok hF hfl hfs1 ⊢
  rw [hw1]
  have hlen : (0x5a :: frame).length = frame.length + 1 := by simp
  rw [hlen] at hfl
  generalize hD : downLen F (frame.length + 1) = D at hfl
  have hDpos := hfl.hD
  have hu : downFrags F (frame.length + 1) (frame.length + 1) = 1 + downFrags F frame.length (frame.length + 1 - D) := by
    show (if frame.length + 1 = 0 then 0 else 1 + downFrags F frame.length (frame.length + 1 - downLen F (frame.length + 1))) = _
    rw [if_neg (by omega), hD]
  have hfr := hok.frags
  rw [hu] at hfr ⊢
  obtain ⟨w', h1, h2, h3, h4, h5, h6, h7⟩ := down_flight_run_lazyW hP (frame := frame) (by rw [hlen]; have := hok.hl; omega)
    (by have := hok.h24; omega) F frame.length w1 0 D 0 hfl hfs1 (by rw [hlen]; omega)
    (by rw [hlen]; simp only [Nat.zero_add]; omega)
  rw [hlen, hcs1] at h1
  simp only [Nat.zero_add] at h1
  refine ⟨w', ?_, h2, h3, by rw [h4, ht2], by rw [h5, ht1], h6, by rw [h7, htip1]⟩
  rw [← h1]
  congr 1
  unfold downStepsL lastStepsL
  by_cases hs0 : w.cs.c.sendPingSoon = 0
  · rw [if_neg (by intro hc; exact hc.1 hs0), if_neg (by intro hc; exact hc.1 hs0)]
    omega
  · by_cases hR : frame.length + 1 - D = 0
    · rw [hR, downFrags_zero, if_pos ⟨hs0, rfl⟩, if_pos ⟨hs0, rfl⟩]
    · have hg1 : 1 ≤ downFrags F frame.length (frame.length + 1 - D) := by
        cases hfl' : frame.length with
        | zero => have := hok.h24; omega
        | succ k =>
          rw [hfl'] at hR
          show 1 ≤ (if k + 1 + 1 - D = 0 then 0 else 1 + downFrags F k (k + 1 + 1 - D - downLen F (k + 1 + 1 - D)))
          rw [if_neg hR]; omega
      rw [if_neg (by intro hc; omega), if_neg (by intro hc; exact hR hc.2)]
      omega

end Iodine.C02L
