import IodineModel.Client.Loop
import IodineModel.Lemmas.C01d
import IodineModel.Props.C08
/-
Helper lemmas for C01, part g: the upstream hop.  The header characters `send_chunk` writes are read back by the
server's `b32_8to5` arithmetic as the numbers the client put in.
-/
namespace Iodine.C01L
open Iodine

/-- `b32_8to5(b32_5to8(n)) = n` for the 32 digit values -/
theorem b32_roundtrip : ∀ n : Nat, n < 32 → Server.b32_8to5 (Client.b32_5to8 (n : Int)) = n := by decide +kernel

theorem b32_5to8_ne_dot : ∀ n : Nat, n < 32 → Client.b32_5to8 (n : Int) ≠ 46 := by decide +kernel

theorem b32_5to8_mask' (x : Int) : ∃ n : Nat, n < 32 ∧ Client.b32_5to8 x = Client.b32_5to8 (n : Int) := by
  refine ⟨Client.maskI x 32, ?_, ?_⟩
  · unfold Client.maskI; omega
  · unfold Client.b32_5to8
    congr 1
    unfold Client.maskI
    omega

theorem maskI_lt8 (x : Int) : Client.maskI x 8 < 8 := by unfold Client.maskI; omega
theorem maskI_lt16 (x : Int) : Client.maskI x 16 < 16 := by unfold Client.maskI; omega
theorem maskI_lt4 (x : Int) : Client.maskI x 4 < 4 := by unfold Client.maskI; omega

theorem maskI_4_16 (x : Int) : Client.maskI x 4 = Client.maskI x 16 % 4 := by unfold Client.maskI; omega

/-- the bit arithmetic of the three header digits, all field values -/
theorem hdr_bits1 : ∀ sq : Nat, sq < 8 → ∀ fr : Nat, fr < 16 →
    (sq * 4 ||| fr / 4) < 32 ∧ ((sq * 4 ||| fr / 4) >>> 2) &&& 7 = sq ∧ (sq * 4 ||| fr / 4) &&& 3 = fr / 4 := by
  decide +kernel

theorem hdr_bits2 : ∀ fr : Nat, fr < 16 → ∀ isq : Nat, isq < 8 →
    (fr % 4 * 8 ||| isq) < 32 ∧ (fr % 4 * 8 ||| isq) &&& 7 = isq ∧
    ((fr / 4) <<< 2 ||| (((fr % 4 * 8 ||| isq) >>> 3) &&& 3)) = fr := by
  decide +kernel

theorem hdr_bits3 : ∀ ifr : Nat, ifr < 16 → ∀ l : Nat, l < 2 →
    (ifr * 2 ||| l) < 32 ∧ (ifr * 2 ||| l) >>> 1 = ifr ∧ (ifr * 2 ||| l) &&& 1 = l := by
  decide +kernel


/-- **the header round trip**: what the server's `b32_8to5` arithmetic reads from the five characters `send_chunk` puts
in front of the encoded data -/
theorem chunkHeader_read (c : Client.Cli) (last : Bool) (rest : List Nat) :
    upHdr (Client.chunkHeader c last ++ rest) =
      (Client.maskI c.outpkt.seqno 8, Client.maskI c.outpkt.fragment 16, last) ∧
    Server.b32_8to5 ((Client.chunkHeader c last ++ rest).getD 2 0) &&& 7 = Client.maskI c.inpkt.seqno 8 ∧
    Server.b32_8to5 ((Client.chunkHeader c last ++ rest).getD 3 0) >>> 1 = Client.maskI c.inpkt.fragment 16 ∧
    (Client.chunkHeader c last ++ rest).getD 0 0 = c.useridChar := by
  have hsq := maskI_lt8 c.outpkt.seqno
  have hfr := maskI_lt16 c.outpkt.fragment
  have hisq := maskI_lt8 c.inpkt.seqno
  have hifr := maskI_lt16 c.inpkt.fragment
  generalize hl : (if last then 1 else 0 : Nat) = l
  have hl2 : l < 2 := by rw [← hl]; split <;> omega
  obtain ⟨a1, a2, a3⟩ := hdr_bits1 _ hsq _ hfr
  obtain ⟨b1, b2, b3⟩ := hdr_bits2 _ hfr _ hisq
  obtain ⟨c1, c2, c3⟩ := hdr_bits3 _ hifr _ hl2
  unfold upHdr Client.chunkHeader
  simp only [List.cons_append, List.getD_cons_zero, List.getD_cons_succ]
  rw [maskI_4_16, hl, b32_roundtrip _ a1, b32_roundtrip _ b1, b32_roundtrip _ c1, a2, a3, b2, b3, c2, c3]
  refine ⟨?_, rfl, rfl, trivial⟩
  rw [← hl]; cases last <;> rfl

theorem chunkHeader_length (c : Client.Cli) (last : Bool) : (Client.chunkHeader c last).length = 5 := rfl

theorem cmc_ne_dot : ∀ n : Nat, n < 37 → (Client.ascii "abcdefghijklmnopqrstuvwxyz0123456789").getD n 0 ≠ 46 := by
  decide +kernel

theorem chunkHeader_nodot (c : Client.Cli) (last : Bool) (hu : c.useridChar ≠ 46) :
    Encoding.NoDot (Client.chunkHeader c last) := by
  intro ch hch
  unfold Client.chunkHeader at hch
  simp only [List.mem_cons, List.not_mem_nil, or_false] at hch
  rcases hch with h | h | h | h | h
  · rw [h]; exact hu
  · rw [h]; obtain ⟨n, hn, e⟩ := b32_5to8_mask' _; rw [e]; exact b32_5to8_ne_dot n hn
  · rw [h]; obtain ⟨n, hn, e⟩ := b32_5to8_mask' _; rw [e]; exact b32_5to8_ne_dot n hn
  · rw [h]; obtain ⟨n, hn, e⟩ := b32_5to8_mask' _; rw [e]; exact b32_5to8_ne_dot n hn
  · rw [h]
    by_cases hd : c.datacmc < 37
    · exact cmc_ne_dot _ hd
    · have : (Client.ascii "abcdefghijklmnopqrstuvwxyz0123456789").length = 36 := by decide
      rw [List.getD_eq_getElem?_getD, List.getElem?_eq_none (by omega)]; decide


/-! ### the name `send_chunk` builds, and what the server extracts from it -/

/-- what `build_hostname` returns inside `send_chunk` -/
def chunkBuilt (c : Client.Cli) : Encoding.Built :=
  Client.buildHostname c.dataenc.codec c.hostnameMaxlen 4091 0 c.topdomain (Client.outRest c.outpkt)

/-- the last-fragment flag `send_chunk` computes -/
def chunkLast (c : Client.Cli) : Bool := (chunkBuilt c).used == c.outpkt.len - c.outpkt.offset

/-- the host name `send_chunk` hands to `send_query` -/
def chunkName (c : Client.Cli) : List Nat := Client.chunkHeader c (chunkLast c) ++ (chunkBuilt c).name

theorem sendChunk_eq (c : Client.Cli) :
    Client.sendChunk c =
      Client.sendQuery { c with outpkt := { c.outpkt with sentlen := (chunkBuilt c).used },
                                datacmc := if c.datacmc + 1 ≥ 36 then 0 else c.datacmc + 1 } (chunkName c) := rfl

theorem sizeT_nat (L : Nat) (h : L ≤ 255) : Client.sizeT (L : Int) = L := by
  unfold Client.sizeT; omega

theorem getD_take_lt (l : List Nat) (m i : Nat) (h : i < m) : (l.take m).getD i 0 = l.getD i 0 := by
  simp only [List.getD_eq_getElem?_getD, List.getElem?_take, h, if_true]

theorem upHdr_take (l : List Nat) (m : Nat) (h : 4 ≤ m) : upHdr (l.take m) = upHdr l := by
  unfold upHdr
  rw [getD_take_lt l m 1 (by omega), getD_take_lt l m 2 (by omega), getD_take_lt l m 3 (by omega)]

end Iodine.C01L
