import IodineModel.Lemmas.C02rO7
/-
C02 / OVERLAPPING transfers, lazy mode — the GENERAL theorem `overlap_lazy`: a frame offered on each side of a quiescent
joint state before anything is delivered (either order); the prompt schedule delivers each exactly once and ends quiescent.
-/
namespace Iodine.C02L
open Iodine Iodine.Gen Iodine.World

/-- **overlap_lazy.**  Lazy mode, from a quiescent joint state: a frame `fu` offered to the client and a frame `fd` offered to
the server — in either order, BEFORE anything is delivered — lead to the same joint state; from it the prompt schedule reaches
after finitely many (`n`) steps a quiescent state again; `fu` was written to the server's tun device exactly once, `fd` to the
client's exactly once, nothing else.  Every pair of acceptable frames (`≤ 16` fragments each way). -/
theorem overlap_lazy {P : Par} (hP : P.Ok) {w : W} (hq : QuietLazy P w) (fu fd : List Nat)
    (hu : UpFrameOk P (Server.getUser w.srv P.u).tunIp fu)
    (hd : DownFrameOk (Server.getUser w.srv P.u).tunIp (Server.getUser w.srv P.u).fragsize fd)
    (hF : 0 < (Server.getUser w.srv P.u).fragsize) :
    step (step w (.offerS fd)) (.offerC fu) = step (step w (.offerC fu)) (.offerS fd) ∧
    ∃ n w', promptSteps P.u n (step (step w (.offerC fu)) (.offerS fd)) = some w' ∧ QuietLazy P w' ∧
      w'.tunS = w.tunS ++ [tunImage fu] ∧ w'.tunC = w.tunC ++ [tunImage fd] ∧
      (Server.getUser w'.srv P.u).tunIp = (Server.getUser w.srv P.u).tunIp ∧
      (Server.getUser w'.srv P.u).fragsize = (Server.getUser w.srv P.u).fragsize := by
  obtain ⟨w2, hcs, hsc, hB, htS, htC, htip, hfr⟩ := both_offer_lazy hP hq fu fd hu hd hF
  have h64u : (0x5a :: fu).length ≤ 65536 := by have := hu.hl; simp; omega
  have h64d : (0x5a :: fd).length ≤ 65536 := by have := hd.hl; simp; omega
  have h4 : 4 ≤ fd.length := by have := hd.h24; omega
  refine ⟨by rw [hsc, hcs], ?_⟩
  rw [hcs]
  obtain ⟨_, _, hm1, hm2, _⟩ := send_readyL hP hB.ready
  have hufr := hu.frags
  have hne : (0x5a :: fu) ≠ [] := by simp
  have hu1 : upFrags P (fu.length + 1) (0x5a :: fu) = 1 + upFrags P fu.length ((0x5a :: fu).drop (fragLen P (0x5a :: fu))) := by
    simp [upFrags]
  rw [hu1] at hufr
  simp only [List.drop_zero, Nat.zero_add] at hm1 hm2
  by_cases hD1 : downLen (Server.getUser w.srv P.u).fragsize (0x5a :: fd).length = (0x5a :: fd).length
  · by_cases hU1 : fragLen P (0x5a :: fu) = (0x5a :: fu).length
    · -- one fragment each way
      obtain ⟨_, w', h1, h2, h3, h4', h5, h6⟩ := overlap_single_lazy hP hq fu fd hu hd hF hU1 hD1
      rw [hcs] at h1
      exact ⟨5, w', h1, h2, h3, h4', h5, h6⟩
    · -- (E1) with a one-fragment downstream packet
      have hlt : 0 + fragLen P ((0x5a :: fu).drop 0) < (0x5a :: fu).length := by
        simp only [List.drop_zero, Nat.zero_add]; omega
      obtain ⟨w3, c1, hs, hNQ, htS1, htC1, _, htip1, hfr1⟩ := e1_step_dropped hP hB hD1 h64u h64d h4 hlt (by omega)
      simp only [List.drop_zero, Nat.zero_add] at hNQ
      have hg1 : 1 ≤ upFrags P fu.length ((0x5a :: fu).drop (fragLen P (0x5a :: fu))) := by
        have h24 := hu.h24
        obtain ⟨k, hk⟩ : ∃ k, fu.length = k + 1 := ⟨fu.length - 1, by omega⟩
        rw [hk]
        have : (0x5a :: fu).drop (fragLen P (0x5a :: fu)) ≠ [] := by
          intro hc
          have := congrArg List.length hc
          simp only [List.length_drop, List.length_nil] at this
          omega
        simp [upFrags, this]
      obtain ⟨w', h1, h2, h3, h4', h6, h7⟩ := upnq_run hP h64u hu.h24 fu.length w3 c1 _ _ hNQ
        (by simp only [List.length_drop, List.length_cons]; omega) (by omega) (by rw [htip1, htip]; exact hu.dst)
      refine ⟨3 + (2 * upFrags P fu.length ((0x5a :: fu).drop (fragLen P (0x5a :: fu))) + 3), w', ?_, h2, ?_, ?_, ?_, ?_⟩
      · rw [promptSteps_add P.u 3 _ w2 w3 hs]; exact h1
      · rw [h3, htS1, htS]; rfl
      · rw [h4', htC1, htC]
      · rw [h6, htip1, htip]
      · rw [h7, hfr1, hfr]
  · -- at least two downstream fragments: the rounds
    have hlt : downLen (Server.getUser w.srv P.u).fragsize (0x5a :: fd).length < (0x5a :: fd).length := by
      have := downLen_lerO (Server.getUser w.srv P.u).fragsize (0x5a :: fd).length
      omega
    obtain ⟨n, w', h1, h2, h3, h4', h6, h7⟩ := both_run_lazy hP h64u h64d hu.h24 h4 (Server.getUser w.srv P.u).fragsize
      (fu.length + 1) (fd.length + 1) w2 _ 0 0 0 _ 0 hB hlt hfr (by simp) (by simp)
      (by simp only [List.drop_zero, Nat.zero_add]; exact hu.frags)
      (by simp only [Nat.zero_add, Nat.sub_zero, List.length_cons]; exact hd.frags)
      (by rw [htip]; exact hu.dst)
    exact ⟨n, w', h1, h2, by rw [h3, htS]; rfl, by rw [h4', htC], by rw [h6, htip], by rw [h7, hfr]⟩

/-- … in terms of the executable prompt run: with enough fuel the run ends in that state (the same for both orders of the
offers), having made exactly `n` scheduler steps -/
theorem overlap_lazy_run {P : Par} (hP : P.Ok) {w : W} (hq : QuietLazy P w) (fu fd : List Nat)
    (hu : UpFrameOk P (Server.getUser w.srv P.u).tunIp fu)
    (hd : DownFrameOk (Server.getUser w.srv P.u).tunIp (Server.getUser w.srv P.u).fragsize fd)
    (hF : 0 < (Server.getUser w.srv P.u).fragsize) :
    ∃ n w', (∀ fuel, n ≤ fuel → runPromptCount P.u fuel (step (step w (.offerC fu)) (.offerS fd)) 0 = (w', n)) ∧
      (∀ fuel, n ≤ fuel → runPromptCount P.u fuel (step (step w (.offerS fd)) (.offerC fu)) 0 = (w', n)) ∧
      (∀ fuel, n ≤ fuel → runPrompt P.u fuel (step (step w (.offerC fu)) (.offerS fd)) = w') ∧
      (∀ fuel, n ≤ fuel → runPrompt P.u fuel (step (step w (.offerS fd)) (.offerC fu)) = w') ∧
      QuietLazy P w' ∧ w'.tunS = w.tunS ++ [tunImage fu] ∧ w'.tunC = w.tunC ++ [tunImage fd] := by
  obtain ⟨hcomm, n, w', h1, h2, h3, h4, _⟩ := overlap_lazy hP hq fu fd hu hd hF
  have hr : ∀ fuel, n ≤ fuel → runPromptCount P.u fuel (step (step w (.offerC fu)) (.offerS fd)) 0 = (w', n) := by
    intro fuel hf
    have := runPromptCount_of_steps P.u _ _ _ h1 h2.quiet fuel 0 hf
    simpa using this
  have hr2 : ∀ fuel, n ≤ fuel → runPrompt P.u fuel (step (step w (.offerC fu)) (.offerS fd)) = w' :=
    fun fuel hf => runPrompt_of_steps P.u _ _ _ h1 h2.quiet fuel hf
  exact ⟨n, w', hr, fun fuel hf => by rw [hcomm]; exact hr fuel hf, hr2, fun fuel hf => by rw [hcomm]; exact hr2 fuel hf, h2, h3, h4⟩

#print axioms overlap_lazy
#print axioms overlap_lazy_run

end Iodine.C02L
