import IodineModel.Lemmas.C02d4
import IodineModel.Lemmas.C02d5
import IodineModel.Lemmas.C02v7
/-
The client's ping as the server reads it (`PingQ`), for a client in the standing conditions `CStat`.
-/
namespace Iodine.C02L
open Iodine Iodine.Gen Iodine.World

theorem sendPing_ready {P : Par} (hP : P.Ok) {c : Client.Cli} (hc : CStat P c) :
    ∃ name, Client.sendPing c =
        ⟨Client.rotateChunkid { c with randSeed := (c.randSeed + 1) % 65536 },
         [.query (Client.rotateChunkid { c with randSeed := (c.randSeed + 1) % 65536 }).chunkid P.ty name], false⟩ ∧
      PingQ P (upQuery (Client.rotateChunkid { c with randSeed := (c.randSeed + 1) % 65536 }).chunkid P.ty name)
        c.inpkt.seqno c.inpkt.fragment c.randSeed := by
  have hqt : c.doQtype < 65536 := by rw [hc.ty]; exact tunnelType_lt hP.tty
  have hur : 0 ≤ c.userid ∧ c.userid < 16 := by rw [hc.uid]; have := hP.hu; omega
  obtain ⟨name, hsend, h0, _, dlen, hq, h2, hun, hu0, hu1, hu2, cp, hcp, hfp, hfl⟩ :=
    sendPing_facts c P.ec.codec P.L P.td hc.imm hc.L hc.td hP.set hqt hc.conn hur hc.seed hc.iseq hc.ifrag
  have hpd := pingData_eq c hur hc.seed hc.iseq hc.ifrag
  have hlen4 : (pingData c).length = 4 := pingData_length c
  have hun' := hun P.ty (Client.rotateChunkid { c with randSeed := (c.randSeed + 1) % 65536 }).chunkid clientAddr Server.Addr.zero serverAddr
  have hd2 : ((pingData c).take 4).getD 2 0 = c.randSeed / 256 := by rw [hpd]; rfl
  have hd3 : ((pingData c).take 4).getD 3 0 = c.randSeed % 256 := by rw [hpd]; rfl
  refine ⟨name, ?_, ?_⟩
  · rw [hsend, hc.ty]
  · refine ⟨rfl, rfl, ?_, rfl, h0, hc.seed, ⟨dlen, hq, h2, ?_, ?_, ?_, ?_, ?_, ?_⟩, ?_, ⟨cp, hcp, hfl, ?_, ?_⟩⟩
    · rw [upQuery_id]; exact Client.rotateChunkid_ne_zero _
    · show 4 ≤ (pingUnpacked (upQuery _ P.ty name) dlen).length
      unfold upQuery; rw [hun', hlen4]; omega
    · show Server.charVal ((pingUnpacked (upQuery _ P.ty name) dlen).getD 0 0) = _
      unfold upQuery; rw [hun', hu0, hc.uid]
    · show Server.charVal ((pingUnpacked (upQuery _ P.ty name) dlen).getD 1 0) / 16 = _
      unfold upQuery; rw [hun', hu1]
    · show Server.charVal ((pingUnpacked (upQuery _ P.ty name) dlen).getD 1 0) % 16 = _
      unfold upQuery; rw [hun', hu2]
    · show ((pingUnpacked (upQuery _ P.ty name) dlen).take 4).getD 2 0 = _
      unfold upQuery; rw [hun', hd2]
    · show ((pingUnpacked (upQuery _ P.ty name) dlen).take 4).getD 3 0 = _
      unfold upQuery; rw [hun', hd3]
    · show seedOfName P.td name = c.randSeed
      unfold seedOfName
      rw [hq]
      simp only
      have hun2 : Encoding.unpackData Codec.b32 65536 ((name.take (min dlen 512)).drop 1) = pingData c := hun'
      rw [hun2, hpd]
      show c.randSeed / 256 * 256 + c.randSeed % 256 = c.randSeed
      omega
    · show ((Codec.dec Codec.b32 8 (cp - 1) (name.drop 1)).take 4).getD 2 0 = _
      rw [hfp, hpd]; rfl
    · show ((Codec.dec Codec.b32 8 (cp - 1) (name.drop 1)).take 4).getD 3 0 = _
      rw [hfp, hpd]; rfl

end Iodine.C02L
