import IodineModel.Lemmas.C05N1
/-
Helper lemmas for C05 "established sessions continue", part 2: the per-iteration machinery around the handler.
The top of the loop (`clearNewFrom`), the clock update and the "send real soon" sweep act on slot `u` in a way that
depends on slot `u`, the clock and `created_users` only; so if two states `Agree u` before an iteration and the two
handler phases (`dispatch`) lead to states that `Agree u` again, producing the same tunnel-data answers for `u`, then
the same holds for the whole iteration — whatever the two inputs are.
-/
namespace Iodine.C05N
open Iodine Iodine.Server Iodine.Gen Iodine.C04L

/-- the state the handlers of an iteration run in: top of loop done, clock advanced to `n` -/
def pre (s : Srv) (n : Nat) : Srv := { (topOfLoop s).1 with now := n }

/-- `tun_fd` is in the read set of the iteration that starts in `s` -/
def tunsel (s : Srv) : Bool := (topOfLoop s).2.2

theorem next_eq (s : Srv) (st : Step) : next s st = (body (pre s st.now) st.inp (tunsel s)).1 := rfl
theorem out_eq (s : Srv) (st : Step) : out s st = (body (pre s st.now) st.inp (tunsel s)).2 := rfl

@[simp] theorem pre_now (s : Srv) (n : Nat) : (pre s n).now = n := rfl
@[simp] theorem pre_cfg (s : Srv) (n : Nat) : (pre s n).cfg = s.cfg := rfl
theorem pre_len (s : Srv) (n : Nat) : (pre s n).users.length = s.users.length := C02L.topOfLoop_length s

theorem getUser_pre (s : Srv) (n k : Nat) :
    getUser (pre s n) k =
      if k < s.cfg.createdUsers ∧ live (getUser s k) s.now ∧ k < s.users.length then { getUser s k with qsNew := false }
      else getUser s k := C02L.getUser_topOfLoop s k

/-- the top of the loop and the clock update preserve agreement on slot `u` -/
theorem agree_pre {u : Nat} {s t : Srv} (h : Agree u s t) (n : Nat) : Agree u (pre s n) (pre t n) := by
  refine ⟨?_, rfl, h.cfg, by rw [pre_len]; exact h.l1, by rw [pre_len]; exact h.l2⟩
  rw [getUser_pre, getUser_pre, h.user, h.now, h.cfg]
  simp only [h.l1, h.l2, and_true]

/-! ### the sweep -/

/-- the `i`-th step of the sweep -/
def sweepStep (s : Srv) (i : Nat) : Res :=
  if live (getUser s i) s.now ∧ (getUser s i).qs.id ≠ 0 ∧ (getUser s i).conn = .dnsNull ∧ !(getUser s i).qsNew then
    (sendChunkOrDataless s i .qs).1
  else (s, [])

theorem sweepFrom_succ (n i : Nat) (s : Srv) :
    sweepFrom (n + 1) i s = andThen (sweepStep s i) (sweepFrom n (i + 1)) := rfl

theorem frame_sweepStep (s : Srv) (i : Nat) : Frame erData (· = i) s (sweepStep s i).1 := by
  unfold sweepStep
  split
  · exact frame_sendChunkOrDataless s i .qs
  · exact Frame.refl _ _ _

theorem tg_sweepStep (s : Srv) (i : Nat) : Tg (· = i) (sweepStep s i).2 := by
  unfold sweepStep
  split
  · exact tg_sendChunkOrDataless s i .qs
  · exact Tg.nil _

theorem agree_sweepStep {u : Nat} {s t : Srv} (h : Agree u s t) (i : Nat) :
    Agree u (sweepStep s i).1 (sweepStep t i).1 ∧ dataOf u (sweepStep s i).2 = dataOf u (sweepStep t i).2 := by
  by_cases hi : i = u
  · subst hi
    unfold sweepStep
    rw [h.user, h.now]
    by_cases hc : live (getUser t i) t.now = true ∧ (getUser t i).qs.id ≠ 0 ∧ (getUser t i).conn = Conn.dnsNull ∧
        (!(getUser t i).qsNew) = true
    · rw [if_pos hc, if_pos hc]
      have k := agree_sendChunkOrDataless h .qs
      exact ⟨k.1, by rw [k.2.1]⟩
    · rw [if_neg hc, if_neg hc]
      exact ⟨h, rfl⟩
  · have hu : ¬ (u = i) := fun e => hi e.symm
    refine ⟨h.frames (frame_sweepStep s i) (frame_sweepStep t i) hu hu, ?_⟩
    rw [(tg_sweepStep s i).dataOf_nil u hu, (tg_sweepStep t i).dataOf_nil u hu]

/-- **the sweep is slot-local**: on states that agree on slot `u` it leaves states that agree on slot `u` and sends
the same tunnel-data answers for `u` -/
theorem agree_sweepFrom {u : Nat} : ∀ (n i : Nat) (s t : Srv), Agree u s t →
    Agree u (sweepFrom n i s).1 (sweepFrom n i t).1 ∧ dataOf u (sweepFrom n i s).2 = dataOf u (sweepFrom n i t).2 := by
  intro n
  induction n with
  | zero => intro i s t h; exact ⟨h, rfl⟩
  | succ n ih =>
    intro i s t h
    rw [sweepFrom_succ, sweepFrom_succ, andThen_fst, andThen_fst, andThen_snd, andThen_snd, dataOf_append, dataOf_append]
    have k := agree_sweepStep h i
    have k2 := ih (i + 1) _ _ k.1
    exact ⟨k2.1, by rw [k.2, k2.2]⟩

theorem agree_sweep {u : Nat} {s t : Srv} (h : Agree u s t) :
    Agree u (sweep s).1 (sweep t).1 ∧ dataOf u (sweep s).2 = dataOf u (sweep t).2 := by
  unfold sweep
  rw [h.cfg]
  exact agree_sweepFrom _ _ _ _ h

/-! ### body, iteration -/

theorem dataOf_body (u : Nat) (s : Srv) (inp : Input) (ts : Bool) :
    dataOf u (body s inp ts).2 = dataOf u (dispatch s inp ts).2 ++ dataOf u (sweep (dispatch s inp ts).1).2 := by
  unfold body
  cases inp <;> dsimp only
  case tun f =>
    cases ts
    · simp only [andThen_snd, andThen_fst, dataOf_append, Bool.false_eq_true, if_false]
      simp [dataOf, isFor]
    · simp only [andThen_snd, andThen_fst, dataOf_append, if_true]
      simp [dataOf, isFor]
  all_goals
    simp only [andThen_snd, andThen_fst, dataOf_append]
    simp [dataOf, isFor]

/-- **one iteration, any two inputs**: handler phases that end in states agreeing on slot `u` and produce the
same tunnel-data answers for `u`, give agreement after the iteration and the same tunnel-data answers for `u` -/
theorem agree_iteration {u : Nat} {s t : Srv} (inp inp' : Input) (n : Nat)
    (hd : Agree u (dispatch (pre s n) inp (tunsel s)).1 (dispatch (pre t n) inp' (tunsel t)).1 ∧
      dataOf u (dispatch (pre s n) inp (tunsel s)).2 = dataOf u (dispatch (pre t n) inp' (tunsel t)).2) :
    Agree u (next s ⟨inp, n⟩) (next t ⟨inp', n⟩) ∧ dataOf u (out s ⟨inp, n⟩) = dataOf u (out t ⟨inp', n⟩) := by
  rw [next_eq, next_eq, out_eq, out_eq, body_fst, body_fst, dataOf_body, dataOf_body]
  have k := agree_sweep hd.1
  exact ⟨k.1, by rw [hd.2, k.2]⟩

/-- the table size never changes -/
theorem next_len (s : Srv) (st : Step) : (next s st).users.length = s.users.length := by
  rw [next_eq, (frame_body _ _ _).len, pre_len]

theorem next_cfg (s : Srv) (st : Step) : (next s st).cfg = s.cfg := by
  rw [next_eq, (frame_body _ _ _).cfg, pre_cfg]

theorem next_now (s : Srv) (st : Step) : (next s st).now = st.now := by
  rw [next_eq, (frame_body _ _ _).now, pre_now]

end Iodine.C05N
