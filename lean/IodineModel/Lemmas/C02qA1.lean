import IodineModel.Lemmas.C02f2
/-
C02 phase 2, sub-package "aged" (1): the RENEWAL of the freshness invariant, at the level of one ring memory.

`RingAged L … sl` (C02f) constrains EVERY position of the ring, and its slack is only ever consumed by `push` and produced by
`step`: a lost query (a `step` without `push`) leaves one unit of slack behind for good, as far as the lemmas of C02f go.
Here the invariant is generalised by the number `n` of ring positions it speaks about — the `n` most recently written ones
(`RingAgedTo n`; `n = 0`: nothing is claimed, `n ≥ L`: `RingAged`).  A push makes one more position known, whatever was
overwritten.  Hence RENEWAL: after `L` pushes of entries that are at most `s` sends old the ring is aged with slack `s`, no
matter what it held before — in particular after `L` clean query/answer cycles `RingAged … 1` holds again.
-/
namespace Iodine.C02L
open Iodine Iodine.Gen Iodine.Server
open Iodine.C16L (ringPos ringFill ringFill_lt ring_push_zero ring_push_succ ringPos_lt ringPos_surj)

/-- as `RingAged`, for the `n` most recently written positions only -/
def RingAgedTo {α : Type} (n L : Nat) (mem : List α) (last : Nat) (d : α) (Rel : α → Nat → Prop) (k M sl : Nat) : Prop :=
  ∀ i, i < n → i < L → ∀ c, Rel (mem.getD (ringPos L last i) d) c → ∃ a, 1 ≤ a ∧ a ≤ i + sl ∧ Behind M k c a

/-- nothing is claimed about a ring of which no position is known -/
theorem RingAgedTo.zero {α : Type} (L : Nat) (mem : List α) (last : Nat) (d : α) (Rel : α → Nat → Prop) (k M sl : Nat) :
    RingAgedTo 0 L mem last d Rel k M sl := fun i hi => absurd hi (Nat.not_lt_zero i)

/-- all positions known: the invariant of C02f -/
theorem ringAged_iff_to {α : Type} {L : Nat} {mem : List α} {last : Nat} {d : α} {Rel : α → Nat → Prop} {k M sl : Nat} :
    RingAged L mem last d Rel k M sl ↔ RingAgedTo L L mem last d Rel k M sl :=
  ⟨fun h i _ hi => h i hi, fun h i hi => h i hi hi⟩

theorem RingAgedTo.full {α : Type} {n L : Nat} {mem : List α} {last : Nat} {d : α} {Rel : α → Nat → Prop} {k M sl : Nat}
    (h : RingAgedTo n L mem last d Rel k M sl) (hn : L ≤ n) : RingAged L mem last d Rel k M sl :=
  fun i hi => h i (by omega) hi

theorem RingAged.to {α : Type} {L : Nat} {mem : List α} {last : Nat} {d : α} {Rel : α → Nat → Prop} {k M sl : Nat}
    (h : RingAged L mem last d Rel k M sl) (n : Nat) : RingAgedTo n L mem last d Rel k M sl :=
  fun i _ hi => h i hi

/-- fewer positions, more slack: weaker -/
theorem RingAgedTo.mono {α : Type} {n n' L : Nat} {mem : List α} {last : Nat} {d : α} {Rel : α → Nat → Prop} {k M sl sl' : Nat}
    (h : RingAgedTo n L mem last d Rel k M sl) (hn : n' ≤ n) (hs : sl ≤ sl') : RingAgedTo n' L mem last d Rel k M sl' := by
  intro i hi hiL c hc
  obtain ⟨a, h1, h2, h3⟩ := h i (by omega) hiL c hc
  exact ⟨a, h1, by omega, h3⟩

/-- the counter advances: one more step of slack -/
theorem RingAgedTo.step {α : Type} {n L : Nat} {mem : List α} {last : Nat} {d : α} {Rel : α → Nat → Prop} {k M sl : Nat}
    (h : RingAgedTo n L mem last d Rel k M sl) (hk : k < M) (hM : L + sl ≤ M) :
    RingAgedTo n L mem last d Rel (nxt M k) M (sl + 1) := by
  intro i hi hiL c hc
  obtain ⟨a, h1, h2, h3, h4⟩ := h i hi hiL c hc
  refine ⟨a + 1, by omega, by omega, h3, ?_⟩
  unfold nxt
  split <;> omega

/-- an entry that is within the slack is pushed: one more position is known, one step of slack is gained.  NOTHING is
required of the entry that is overwritten. -/
theorem RingAgedTo.push {α : Type} {n L : Nat} {mem : List α} {last : Nat} {d : α} {Rel : α → Nat → Prop} {k M sl : Nat}
    (h : RingAgedTo n L mem last d Rel k M (sl + 1)) (hlen : mem.length = L) (hlast : last < L) (v : α)
    (hv : ∀ c, Rel v c → ∃ a, 1 ≤ a ∧ a ≤ sl ∧ Behind M k c a) :
    RingAgedTo (n + 1) L (mem.set (ringFill L last) v) (ringFill L last) d Rel k M sl := by
  have hL : 0 < L := by omega
  intro i hi hiL c hc
  cases i with
  | zero =>
    rw [ring_push_zero mem L last hlen hL] at hc
    obtain ⟨a, h1, h2, h3⟩ := hv c hc
    exact ⟨a, h1, by omega, h3⟩
  | succ j =>
    rw [ring_push_succ mem L last j hlast hiL] at hc
    obtain ⟨a, h1, h2, h3⟩ := h j (by omega) (by omega) c hc
    exact ⟨a, h1, by omega, h3⟩

/-- an irrelevant entry is pushed: one more position is known, the slack is kept -/
theorem RingAgedTo.push_irrel {α : Type} {n L : Nat} {mem : List α} {last : Nat} {d : α} {Rel : α → Nat → Prop} {k M sl : Nat}
    (h : RingAgedTo n L mem last d Rel k M sl) (hlen : mem.length = L) (hlast : last < L) (v : α) (hv : ∀ c, ¬ Rel v c) :
    RingAgedTo (n + 1) L (mem.set (ringFill L last) v) (ringFill L last) d Rel k M sl := by
  have hL : 0 < L := by omega
  intro i hi hiL c hc
  cases i with
  | zero =>
    rw [ring_push_zero mem L last hlen hL] at hc
    exact absurd hc (hv c)
  | succ j =>
    rw [ring_push_succ mem L last j hlast hiL] at hc
    obtain ⟨a, h1, h2, h3⟩ := h j (by omega) (by omega) c hc
    exact ⟨a, h1, by omega, h3⟩

/-- an entry of ANY age `≤ s` is pushed (a late, duplicated or reordered query is remembered): the slack rises to `s`, it is
never destroyed — as long as `s` stays below the period -/
theorem RingAgedTo.push_old {α : Type} {n L : Nat} {mem : List α} {last : Nat} {d : α} {Rel : α → Nat → Prop} {k M sl s : Nat}
    (h : RingAgedTo n L mem last d Rel k M sl) (hlen : mem.length = L) (hlast : last < L) (v : α)
    (hv : ∀ c, Rel v c → ∃ a, 1 ≤ a ∧ a ≤ s ∧ Behind M k c a) :
    RingAgedTo (n + 1) L (mem.set (ringFill L last) v) (ringFill L last) d Rel k M (max sl s) :=
  RingAgedTo.push (sl := max sl s) (h.mono (Nat.le_refl n) (by omega)) hlen hlast v
    (fun c hc => by obtain ⟨a, h1, h2, h3⟩ := hv c hc; exact ⟨a, h1, by omega, h3⟩)

/-! ### clean cycles and the renewal theorem -/

/-- `n` operations on a ring memory `(mem, last)` with the client's counter `k`, each of them either
* `data`: the client sends the query that carries the counter value `k` (its counter advances) and the server remembers it
  — one query/answer cycle of the clean path —, or
* `other`: the server remembers something irrelevant (for `dnscache`: a query of the other kind). -/
inductive CleanRun {α : Type} (L M : Nat) (Rel : α → Nat → Prop) : Nat → List α × Nat × Nat → List α × Nat × Nat → Prop
  | nil (s : List α × Nat × Nat) : CleanRun L M Rel 0 s s
  | data {n : Nat} {s : List α × Nat × Nat} {mem : List α} {last k : Nat} (v : α) (h : CleanRun L M Rel n s (mem, last, k))
      (hv : ∀ c, Rel v c → c = k) :
      CleanRun L M Rel (n + 1) s (mem.set (ringFill L last) v, ringFill L last, nxt M k)
  | other {n : Nat} {s : List α × Nat × Nat} {mem : List α} {last k : Nat} (v : α) (h : CleanRun L M Rel n s (mem, last, k))
      (hv : ∀ c, ¬ Rel v c) :
      CleanRun L M Rel (n + 1) s (mem.set (ringFill L last) v, ringFill L last, k)

theorem nxt_lt {M k : Nat} (hM : 0 < M) : nxt M k < M := by
  unfold nxt; split <;> omega

theorem behind_nxt {M k : Nat} (hk : k < M) : Behind M (nxt M k) k 1 := by
  unfold Behind nxt; split <;> omega

/-- **RENEWAL, ring level.**  Start from ANY ring memory (only well-formed: `length = L`, `last < L`) and any counter value.
After `n` clean operations the `n` newest positions are aged with slack 1, -/
theorem CleanRun.renew {α : Type} {L M : Nat} {Rel : α → Nat → Prop} {n : Nat} {mem0 mem : List α} {last0 last k0 k : Nat}
    (d : α) (h : CleanRun L M Rel n (mem0, last0, k0) (mem, last, k)) (hlen : mem0.length = L) (hlast : last0 < L) (hk : k0 < M)
    (hM : L + 1 ≤ M) :
    mem.length = L ∧ last < L ∧ k < M ∧ RingAgedTo n L mem last d Rel k M 1 := by
  generalize hs : (mem0, last0, k0) = s at h
  generalize ht : (mem, last, k) = t at h
  induction h generalizing mem last k with
  | nil s =>
    subst hs
    cases ht
    exact ⟨hlen, hlast, hk, RingAgedTo.zero _ _ _ _ _ _ _ _⟩
  | data v h hv ih =>
    cases ht
    obtain ⟨h1, h2, h3, h4⟩ := ih hs rfl
    refine ⟨by simp [h1], ringFill_lt _ _ (by omega), nxt_lt (by omega), ?_⟩
    apply (h4.step h3 hM).push h1 h2
    intro c hc
    rw [hv c hc]
    exact ⟨1, Nat.le_refl 1, Nat.le_refl 1, behind_nxt h3⟩
  | other v h hv ih =>
    cases ht
    obtain ⟨h1, h2, h3, h4⟩ := ih hs rfl
    exact ⟨by simp [h1], ringFill_lt _ _ (by omega), h3, h4.push_irrel h1 h2 v hv⟩

/-- … hence after `L` or more of them the whole ring is: `RingAged … 1`, whatever it held before. -/
theorem CleanRun.renewed {α : Type} {L M : Nat} {Rel : α → Nat → Prop} {n : Nat} {mem0 mem : List α} {last0 last k0 k : Nat}
    (d : α) (h : CleanRun L M Rel n (mem0, last0, k0) (mem, last, k)) (hlen : mem0.length = L) (hlast : last0 < L) (hk : k0 < M)
    (hM : L + 1 ≤ M) (hn : L ≤ n) : RingAged L mem last d Rel k M 1 :=
  (h.renew d hlen hlast hk hM).2.2.2.full hn

/-- the old slack is not lost meanwhile (needed as long as fewer than `L` cycles have passed): a ring that is aged with slack
`sl` stays so under clean operations -/
theorem CleanRun.keeps {α : Type} {L M : Nat} {Rel : α → Nat → Prop} {n : Nat} {mem0 mem : List α} {last0 last k0 k sl : Nat}
    (d : α) (h : CleanRun L M Rel n (mem0, last0, k0) (mem, last, k)) (hlen : mem0.length = L) (hlast : last0 < L) (hk : k0 < M)
    (hsl : 1 ≤ sl) (hM : L + sl ≤ M) (h0 : RingAged L mem0 last0 d Rel k0 M sl) : RingAged L mem last d Rel k M sl := by
  generalize hs : (mem0, last0, k0) = s at h
  generalize ht : (mem, last, k) = t at h
  induction h generalizing mem last k with
  | nil s =>
    subst hs
    cases ht
    exact h0
  | data v h hv ih =>
    cases ht
    subst hs
    obtain ⟨h1, h2, h3, _⟩ := h.renew d hlen hlast hk (by omega)
    apply ((ih rfl rfl).step h3 hM).push h1 h2
    intro c hc
    rw [hv c hc]
    exact ⟨1, Nat.le_refl 1, hsl, behind_nxt h3⟩
  | other v h hv ih =>
    cases ht
    subst hs
    obtain ⟨h1, h2, h3, _⟩ := h.renew d hlen hlast hk (by omega)
    exact (ih rfl rfl).push_irrel h1 h2 v hv

/-- non-vacuity of the renewal theorem: a ring of three numbers (relevant: the non-zero ones; counter value = the number), period
10; three clean cycles from a ring full of garbage (9 is even the counter value the client reaches later) -/
example : RingAged 3 [7, 5, 6] 0 0 (fun e c => e ≠ 0 ∧ e = c) 8 10 1 := by
  have h0 := CleanRun.nil (L := 3) (M := 10) (Rel := fun (e c : Nat) => e ≠ 0 ∧ e = c) ([9, 9, 9], 0, 5)
  have h1 := CleanRun.data 5 h0 (fun c hc => hc.2.symm)
  have h2 := CleanRun.data 6 h1 (fun c hc => hc.2.symm)
  have h3 := CleanRun.data 7 h2 (fun c hc => hc.2.symm)
  exact h3.renewed 0 rfl (by decide) (by decide) (by decide) (by decide)

/-! ### what a fault does to the slack (the positive half of the answer) -/

theorem nxt_eq_mod {M k : Nat} (hk : k < M) : nxt M k = (k + 1) % M := by
  unfold nxt
  split
  · have : k + 1 = M := by omega
    rw [this, Nat.mod_self]
  · rw [Nat.mod_eq_of_lt (by omega)]

/-- a LOST query: the counter advances and nothing is remembered: `sl ↦ sl + 1` (that is `RingAged.step`); `m` of them in a
row: `sl ↦ sl + m`, as long as the period is not exhausted (`L + sl + m ≤ M + 1`: the last of them may use the period up) -/
theorem RingAged.steps {α : Type} {L : Nat} {mem : List α} {last : Nat} {d : α} {Rel : α → Nat → Prop} {M sl k : Nat} (m : Nat)
    (h : RingAged L mem last d Rel k M sl) (hk : k < M) (hM : L + sl + m ≤ M + 1) :
    RingAged L mem last d Rel ((k + m) % M) M (sl + m) := by
  induction m with
  | zero => rw [Nat.add_zero, Nat.mod_eq_of_lt hk]; exact h
  | succ m ih =>
    have h1 := (ih (by omega)).step (Nat.mod_lt _ (by omega)) (by omega)
    rw [nxt_eq_mod (Nat.mod_lt _ (by omega)), Nat.mod_add_mod] at h1
    exact h1

end Iodine.C02L
