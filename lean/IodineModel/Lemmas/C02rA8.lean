import IodineModel.Lemmas.C02rA7
/-
C02 phase 3, sub-package "lift" (8): NON-VACUITY of the bridge, on the counterexample of `C02qA3–6`.
`qaWC` (after the 104-event drop prefix) is `QuietBut` and `RingWF`, but NOT `FreshNext … 1` (the next data-CMC value 0 is
remembered 10 saves ago: that is the counterexample).  Its next packet is mishandled (`qa_dropC_mishandled`) and delivered by the
client's resend: `qaSchedD`, the offer and the 6 prompt events, lead to `qaWD` (literal generated from the executable model, checked by
the kernel: `qa_stageD`).  `qaWD` is `QuietBut`, `RingWF`, `PAged … 1` — and `FreshNext … 36`: the two stale entries (`a` = 0, `o` = 14)
are overwritten before the counter reaches them again.  (The static `Fresh … n` holds only for `n ≤ 12`: `qaWD_not_fresh13`.)
So the bridge applies: the NEXT 15 (or up to 36) one-fragment packets are delivered on the clean path and the state is `QuietImm` again —
without evaluating that run.
-/
namespace Iodine.C02L
open Iodine Iodine.World

/-- the offer of the mishandled packet and the six events of the prompt schedule that deliver it -/
def qaSchedD : List Ev := [.offerC qaF1, .deliverUp, .deliverDown, .tickC, .deliverUp, .tickS, .deliverDown]

def qaWD : W :=
  { cs := { c := { topdomain := [116, 46, 97, 98], randSeed := 6, outpkt := { len := 0, sentlen := 0, offset := 0, data := [90, 0, 0, 8, 0, 69, 0, 0, 24, 0, 0, 0, 0, 64, 17, 0, 0, 10, 0, 0, 2, 10, 0, 0, 9, 3, 10, 17, 24], seqno := 1, fragment := 0 }, inpkt := { len := 0, sentlen := 0, offset := 0, data := [], seqno := 0, fragment := 0 }, outchunkresent := 0, userid := 0, useridChar := 48, useridChar2 := 48, chunkid := 13308, chunkidPrev := 5581, chunkidPrev2 := 63390, dataenc := Iodine.Client.Enc.b32, downenc := 32, doQtype := 10, conn := Iodine.Client.Conn.dnsNull, selecttimeout := 1, lazymode := false, sendPingSoon := 20, lastdownstreamtime := 1026, lastrawping := 1000, sendcnt := 0, recvcnt := 11, hostnameMaxlen := 100, packrecv := 11, packrecvOos := 0, packrecvServfail := 0, datacmc := 2, running := true, edns0 := false, now := 1026 }, ph := Iodine.Client.Phase.tunnel },
    srv := { Iodine.C02.exW.srv with users := Iodine.C02.exW.srv.users.set 0 ({ active := true, authenticated := true, authenticatedRaw := false, optionsLocked := false, disabled := false, lastPkt := 1026, seed := 0, tunIp := 167772162, host := { fam := 4, ip := 167774722, port := 40000 }, q := { name := [48, 101, 97, 98, 98, 108, 105, 97, 97, 97, 99, 97, 97, 105, 117, 97, 97, 97, 103, 97, 97, 97, 97, 97, 97, 97, 113, 97, 114, 97, 97, 97, 97, 117, 97, 97, 97, 97, 105, 102, 97, 97, 97, 97, 106, 97, 109, 102, 98, 99, 103, 97, 46, 116, 46, 97, 98], type := 10, id := 0, from_ := { fam := 4, ip := 167774722, port := 40000 }, id2 := 0, from2 := { fam := 0, ip := 0, port := 0 }, dest := { fam := 4, ip := 167774721, port := 53 } }, qs := { name := [48, 101, 97, 98, 98, 108, 105, 97, 97, 97, 99, 97, 97, 105, 117, 97, 97, 97, 103, 97, 97, 97, 97, 97, 97, 97, 113, 97, 114, 97, 97, 97, 97, 117, 97, 97, 97, 97, 105, 102, 97, 97, 97, 97, 106, 97, 109, 102, 98, 99, 103, 97, 46, 116, 46, 97, 98], type := 10, id := 0, from_ := { fam := 4, ip := 167774722, port := 40000 }, id2 := 0, from2 := { fam := 0, ip := 0, port := 0 }, dest := { fam := 4, ip := 167774721, port := 53 } }, qsNew := false, inpacket := { len := 0, sentlen := 0, offset := 0, data := [90, 0, 0, 8, 0, 69, 0, 0, 24, 0, 0, 0, 0, 64, 17, 0, 0, 10, 0, 0, 2, 10, 0, 0, 9, 3, 10, 17, 24], seqno := 1, fragment := 0 }, outpacket := { len := 0, sentlen := 0, offset := 0, data := [], seqno := 0, fragment := 0 }, outfragresent := 0, encoder := Iodine.Server.Enc.b32, downenc := 84, fragsize := 30, conn := Iodine.Server.Conn.dnsNull, lazy := false, qmemping := [{ cmc := [0, 0, 0, 0], type := 0 }, { cmc := [0, 0, 0, 0], type := 0 }, { cmc := [0, 0, 0, 0], type := 0 }, { cmc := [0, 0, 0, 0], type := 0 }, { cmc := [0, 0, 0, 0], type := 0 }, { cmc := [0, 0, 0, 0], type := 0 }, { cmc := [0, 0, 0, 0], type := 0 }, { cmc := [0, 0, 0, 0], type := 0 }, { cmc := [0, 0, 0, 0], type := 0 }, { cmc := [0, 0, 0, 0], type := 0 }, { cmc := [0, 0, 0, 0], type := 0 }, { cmc := [0, 0, 0, 0], type := 0 }, { cmc := [0, 0, 0, 0], type := 0 }, { cmc := [0, 0, 0, 0], type := 0 }, { cmc := [0, 0, 0, 0], type := 0 }, { cmc := [0, 0, 0, 0], type := 0 }, { cmc := [0, 0, 0, 0], type := 0 }, { cmc := [0, 0, 0, 0], type := 0 }, { cmc := [0, 0, 0, 0], type := 0 }, { cmc := [0, 0, 0, 0], type := 0 }, { cmc := [0, 0, 0, 0], type := 0 }, { cmc := [0, 0, 0, 0], type := 0 }, { cmc := [0, 0, 0, 0], type := 0 }, { cmc := [0, 0, 0, 0], type := 0 }, { cmc := [0, 0, 0, 0], type := 0 }, { cmc := [0, 0, 0, 0], type := 0 }, { cmc := [0, 0, 0, 0], type := 0 }, { cmc := [0, 0, 0, 0], type := 0 }, { cmc := [0, 0, 0, 0], type := 0 }, { cmc := [0, 0, 0, 0], type := 0 }], qmempingLast := 0, qmemdata := [{ cmc := [0, 0, 0, 0], type := 0 }, { cmc := [101, 97, 98, 97], type := 10 }, { cmc := [117, 97, 98, 111], type := 10 }, { cmc := [101, 97, 98, 50], type := 10 }, { cmc := [105, 97, 98, 51], type := 10 }, { cmc := [109, 97, 98, 52], type := 10 }, { cmc := [113, 97, 98, 53], type := 10 }, { cmc := [117, 97, 98, 54], type := 10 }, { cmc := [121, 97, 98, 55], type := 10 }, { cmc := [50, 97, 98, 56], type := 10 }, { cmc := [97, 97, 98, 57], type := 10 }, { cmc := [101, 97, 98, 98], type := 10 }, { cmc := [0, 0, 0, 0], type := 0 }, { cmc := [0, 0, 0, 0], type := 0 }, { cmc := [0, 0, 0, 0], type := 0 }], qmemdataLast := 11, outpacketq := [{ len := 0, sentlen := 0, offset := 0, data := [], seqno := 0, fragment := 0 }, { len := 0, sentlen := 0, offset := 0, data := [], seqno := 0, fragment := 0 }, { len := 0, sentlen := 0, offset := 0, data := [], seqno := 0, fragment := 0 }, { len := 0, sentlen := 0, offset := 0, data := [], seqno := 0, fragment := 0 }], oqNext := 0, oqFilled := 0, dnscache := [{ q := { name := [48, 121, 97, 98, 55, 108, 105, 97, 97, 97, 99, 97, 97, 105, 117, 97, 97, 97, 103, 97, 97, 97, 97, 97, 97, 97, 113, 97, 114, 97, 97, 97, 97, 117, 97, 97, 97, 97, 105, 102, 97, 97, 97, 97, 106, 97, 109, 102, 98, 99, 103, 97, 46, 116, 46, 97, 98], type := 10, id := 47936, from_ := { fam := 4, ip := 167774722, port := 40000 }, id2 := 0, from2 := { fam := 0, ip := 0, port := 0 }, dest := { fam := 4, ip := 167774721, port := 53 } }, answer := [224, 0], answerlen := 2 }, { q := { name := [48, 50, 97, 98, 56, 108, 105, 97, 97, 97, 99, 97, 97, 105, 117, 97, 97, 97, 103, 97, 97, 97, 97, 97, 97, 97, 113, 97, 114, 97, 97, 97, 97, 117, 97, 97, 97, 97, 105, 102, 97, 97, 97, 97, 106, 97, 109, 102, 98, 99, 103, 97, 46, 116, 46, 97, 98], type := 10, id := 55663, from_ := { fam := 4, ip := 167774722, port := 40000 }, id2 := 0, from2 := { fam := 0, ip := 0, port := 0 }, dest := { fam := 4, ip := 167774721, port := 53 } }, answer := [240, 0], answerlen := 2 }, { q := { name := [48, 97, 97, 98, 57, 108, 105, 97, 97, 97, 99, 97, 97, 105, 117, 97, 97, 97, 103, 97, 97, 97, 97, 97, 97, 97, 113, 97, 114, 97, 97, 97, 97, 117, 97, 97, 97, 97, 105, 102, 97, 97, 97, 97, 106, 97, 109, 102, 98, 99, 103, 97, 46, 116, 46, 97, 98], type := 10, id := 63390, from_ := { fam := 4, ip := 167774722, port := 40000 }, id2 := 0, from2 := { fam := 0, ip := 0, port := 0 }, dest := { fam := 4, ip := 167774721, port := 53 } }, answer := [128, 0], answerlen := 2 }, { q := { name := [48, 101, 97, 98, 98, 108, 105, 97, 97, 97, 99, 97, 97, 105, 117, 97, 97, 97, 103, 97, 97, 97, 97, 97, 97, 97, 113, 97, 114, 97, 97, 97, 97, 117, 97, 97, 97, 97, 105, 102, 97, 97, 97, 97, 106, 97, 109, 102, 98, 99, 103, 97, 46, 116, 46, 97, 98], type := 10, id := 13308, from_ := { fam := 4, ip := 167774722, port := 40000 }, id2 := 0, from2 := { fam := 0, ip := 0, port := 0 }, dest := { fam := 4, ip := 167774721, port := 53 } }, answer := [144, 0], answerlen := 2 }], dcLast := 3 }), now := 1026 },
    up := [], down := [], tunC := [], tunS := [[0, 0, 8, 0, 69, 0, 0, 24, 0, 0, 0, 0, 64, 17, 0, 0, 10, 0, 0, 2, 10, 0, 0, 9, 3, 10, 17, 24], [0, 0, 8, 0, 69, 0, 0, 24, 0, 0, 0, 0, 64, 17, 0, 0, 10, 0, 0, 2, 10, 0, 0, 9, 3, 10, 17, 24], [0, 0, 8, 0, 69, 0, 0, 24, 0, 0, 0, 0, 64, 17, 0, 0, 10, 0, 0, 2, 10, 0, 0, 9, 3, 10, 17, 24], [0, 0, 8, 0, 69, 0, 0, 24, 0, 0, 0, 0, 64, 17, 0, 0, 10, 0, 0, 2, 10, 0, 0, 9, 3, 10, 17, 24], [0, 0, 8, 0, 69, 0, 0, 24, 0, 0, 0, 0, 64, 17, 0, 0, 10, 0, 0, 2, 10, 0, 0, 9, 3, 10, 17, 24], [0, 0, 8, 0, 69, 0, 0, 24, 0, 0, 0, 0, 64, 17, 0, 0, 10, 0, 0, 2, 10, 0, 0, 9, 3, 10, 17, 24], [0, 0, 8, 0, 69, 0, 0, 24, 0, 0, 0, 0, 64, 17, 0, 0, 10, 0, 0, 2, 10, 0, 0, 9, 3, 10, 17, 24], [0, 0, 8, 0, 69, 0, 0, 24, 0, 0, 0, 0, 64, 17, 0, 0, 10, 0, 0, 2, 10, 0, 0, 9, 3, 10, 17, 24], [0, 0, 8, 0, 69, 0, 0, 24, 0, 0, 0, 0, 64, 17, 0, 0, 10, 0, 0, 2, 10, 0, 0, 9, 3, 10, 17, 24], [0, 0, 8, 0, 69, 0, 0, 24, 0, 0, 0, 0, 64, 17, 0, 0, 10, 0, 0, 2, 10, 0, 0, 9, 3, 10, 17, 24], [0, 0, 8, 0, 69, 0, 0, 24, 0, 0, 0, 0, 64, 17, 0, 0, 10, 0, 0, 2, 10, 0, 0, 9, 3, 10, 17, 24]] }

set_option maxRecDepth 100000 in
theorem qa_stageD : run qaWC qaSchedD = qaWD := by decide +kernel

/-- `qaWD` is reached from the demo state by the 104 + 7 events, so all its slots are well-formed — no evaluation needed -/
theorem qaWD_srvWF : SrvWF qaWD.srv := by
  rw [← qa_stageD, ← qa_runC]
  exact srvWF_run _ (srvWF_run _ (srvWF_demoServer _ _ _))

theorem qaWD_but : QuietBut Iodine.C02.exP qaWD :=
  quietBut_exP qaWD (by decide +kernel) (by decide +kernel) (by decide +kernel) (by decide +kernel)

/-- no ping reached the server in the whole run: the ping memories are as fresh as at the start -/
theorem qaWD_paged : PAged Iodine.C02.exP (Server.getUser qaWD.srv 0) qaWD.cs.c.randSeed 1 := by
  have hw := qaWD_srvWF.get 0
  refine ⟨hw.plen, hw.plast, hw.clen, hw.clast, ?_, ?_⟩
  · intro i hi c ⟨h1, _⟩
    have : ∀ i, i < 30 → ((Server.getUser qaWD.srv 0).qmemping.getD
        (C16L.ringPos Gen.QMEMPING_LEN (Server.getUser qaWD.srv 0).qmempingLast i) Server.QmemEntry.zero).type = 0 := by
      decide +kernel
    rw [this i hi] at h1
    exact absurd h1 (by decide)
  · intro i hi c ⟨_, h1, _⟩
    have : ∀ i, i < 4 → ((Server.getUser qaWD.srv 0).dnscache.getD
        (C16L.ringPos Gen.DNSCACHE_LEN (Server.getUser qaWD.srv 0).dcLast i) Server.DnsCacheEntry.zero).q.name.getD 0 0 ≠ 112 := by
      decide +kernel
    exact absurd h1 (this i hi)

/-- the counterexample state itself fails `FreshNext` for a single value: the bridge rightly does not apply to it -/
theorem qaWC_not_freshNext : ¬ FreshNext Iodine.C02.exP (Server.getUser qaWC.srv 0) qaWC.cs.c.datacmc 1 := by
  intro h
  have hw : RingWF (Server.getUser qaWC.srv 0) := by
    have : SrvWF qaWC.srv := by rw [← qa_runC]; exact srvWF_run _ (srvWF_demoServer _ _ _)
    exact this.get 0
  exact qa_dropC_not_fresh (h.fresh (n := 0) hw (by decide +kernel))

/-- after the mishandled packet: `FreshNext` for a whole period of the counter -/
theorem qaWD_freshNext : FreshNext Iodine.C02.exP (Server.getUser qaWD.srv 0) qaWD.cs.c.datacmc 36 := by
  have hk : qaWD.cs.c.datacmc = 2 := by decide +kernel
  rw [hk]
  refine ⟨?_, ?_⟩
  · intro i hi j _ hij ⟨h1, _, h3⟩
    have : ∀ i, i < 15 → ∀ j, j < 15 → i + j < 15 →
        ((Server.getUser qaWD.srv 0).qmemdata.getD
          (C16L.ringPos Gen.QMEMDATA_LEN (Server.getUser qaWD.srv 0).qmemdataLast i) Server.QmemEntry.zero).type = 10 →
        ((Server.getUser qaWD.srv 0).qmemdata.getD
          (C16L.ringPos Gen.QMEMDATA_LEN (Server.getUser qaWD.srv 0).qmemdataLast i) Server.QmemEntry.zero).cmc.getD 3 0 ≠
          cmcChar ((2 + j) % 36) := by decide +kernel
    have hij' : i + j < 15 := hij
    exact this i hi j (by omega) hij' h1 h3
  · intro i hi j _ hij ⟨h1, _, _, h4⟩
    have : ∀ i, i < 4 → ∀ j, j < 4 → i + j < 4 →
        ((Server.getUser qaWD.srv 0).dnscache.getD
          (C16L.ringPos Gen.DNSCACHE_LEN (Server.getUser qaWD.srv 0).dcLast i) Server.DnsCacheEntry.zero).q.type = 10 →
        ((Server.getUser qaWD.srv 0).dnscache.getD
          (C16L.ringPos Gen.DNSCACHE_LEN (Server.getUser qaWD.srv 0).dcLast i) Server.DnsCacheEntry.zero).q.name.getD 4 0 ≠
          cmcChar ((2 + j) % 36) := by decide +kernel
    have hij' : i + j < 4 := hij
    exact this i hi j (by omega) hij' h1 h4

/-- … whereas the static condition of C02v3 holds for 12 values only (the entry `o` = 14 is still remembered) -/
theorem qaWD_not_fresh13 : ¬ Fresh Iodine.C02.exP (Server.getUser qaWD.srv 0) qaWD.cs.c.datacmc 13 := by
  intro h
  have hk : qaWD.cs.c.datacmc = 2 := by decide +kernel
  rw [hk] at h
  have hm : (⟨[117, 97, 98, 111], 10⟩ : Server.QmemEntry) ∈ (Server.getUser qaWD.srv 0).qmemdata := by decide +kernel
  exact h.qmem _ hm rfl ⟨12, by decide, by decide⟩

/-- the demo frame travels as one fragment -/
theorem qaF1_one : UpFrame1 Iodine.C02.exP (Server.getUser qaWD.srv 0).tunIp qaF1 :=
  ⟨by decide, by decide, by unfold Codec.Bytes; decide, by decide +kernel, by decide +kernel⟩

/-- **the bridge applied to the counterexample**: after the prefix of 32 lost datagrams and the one mishandled packet, fifteen more
packets are delivered exactly once and in order by the prompt schedule and the joint state is `QuietImm` — the invariant of all
the clean-path theorems — again.  (The run of `15 · 4` scheduler events is NOT evaluated.) -/
theorem qa_bridge :
    QuietImm Iodine.C02.exP (offerAllC 0 3 qaWD (List.replicate 15 qaF1)) ∧
    (offerAllC 0 3 qaWD (List.replicate 15 qaF1)).tunS = qaWD.tunS ++ (List.replicate 15 qaF1).map tunImage ∧
    (offerAllC 0 3 qaWD (List.replicate 15 qaF1)).tunC = qaWD.tunC :=
  renewed_quietImm_rA Iodine.C02.exP_ok 3 (Nat.le_refl 3) (List.replicate 15 qaF1) qaWD qaWD_but (qaWD_srvWF.get 0)
    (qaWD_freshNext.mono (by simp)) (by simp) (fun f hf => by rw [(List.mem_replicate.1 hf).2]; exact qaF1_one) qaWD_paged

/-- non-vacuity of `renew_packet_rA`, `renew_sequence_rA`, `renewed_aged_rA` (which `qa_bridge` uses, with the ping clause added) -/
example :
    QuietBut Iodine.C02.exP (offerAllC Iodine.C02.exP.u 3 qaWD (List.replicate 15 qaF1)) ∧
    Aged Iodine.C02.exP (Server.getUser (offerAllC Iodine.C02.exP.u 3 qaWD (List.replicate 15 qaF1)).srv Iodine.C02.exP.u)
      (offerAllC Iodine.C02.exP.u 3 qaWD (List.replicate 15 qaF1)).cs.c.datacmc 1 ∧
    (offerAllC Iodine.C02.exP.u 3 qaWD (List.replicate 15 qaF1)).tunS = qaWD.tunS ++ (List.replicate 15 qaF1).map tunImage ∧
    (offerAllC Iodine.C02.exP.u 3 qaWD (List.replicate 15 qaF1)).tunC = qaWD.tunC :=
  renewed_aged_rA Iodine.C02.exP_ok 3 (Nat.le_refl 3) (List.replicate 15 qaF1) qaWD qaWD_but (qaWD_srvWF.get 0)
    (qaWD_freshNext.mono (by simp)) (by simp) (fun f hf => by rw [(List.mem_replicate.1 hf).2]; exact qaF1_one)

/-- non-vacuity of `renewed_after_run_rA`: its hypotheses hold for the run of 111 events from the demo state (the only faults are 32
lost upstream datagrams) -/
example : SrvWF Iodine.C02.exW.srv ∧ QuietBut Iodine.C02.exP (run Iodine.C02.exW (qaSchedC ++ qaSchedD)) ∧
    FreshNext Iodine.C02.exP (Server.getUser (run Iodine.C02.exW (qaSchedC ++ qaSchedD)).srv 0)
      (run Iodine.C02.exW (qaSchedC ++ qaSchedD)).cs.c.datacmc 36 := by
  have hr : run Iodine.C02.exW (qaSchedC ++ qaSchedD) = qaWD := by rw [run_append, qa_runC, qa_stageD]
  rw [hr]
  exact ⟨srvWF_demoServer _ _ _, qaWD_but, qaWD_freshNext⟩

/-- non-vacuity of `QuietImm.recoverable`: the demo state -/
example : Recoverable Iodine.C02.exP 15 4 21 Iodine.C02.exW := Iodine.C02.ex_quiescent.recoverable

/-- non-vacuity of `CleanBoth` / `CleanBoth.renew` (C02rA3): on the slot of `qaWD` (data-CMC counter 2, ping counter 6) one data cycle
(a query name with `c` = `cmcChar 2` in position 4) and one ping cycle (the name the client's `send_ping` builds for seed 6:
`paaaaabq.t.ab`) -/
example : ∃ x, CleanBoth Iodine.C02.exP 1 1 2 (Server.getUser qaWD.srv 0, 2, 6) (x, 3, 7) ∧
    AgedTo Iodine.C02.exP x 3 1 2 1 ∧ PAgedTo Iodine.C02.exP x 7 1 2 1 := by
  have h0 := CleanBoth.nil (P := Iodine.C02.exP) (Server.getUser qaWD.srv 0, 2, 6)
  have h1 := CleanBoth.data h0 { Server.Query.zero with name := [48, 97, 97, 97, 99, 97], type := 10, id := 1 } [192, 0]
    (by decide) (by decide) (by decide) (by decide)
  have h2 := CleanBoth.ping h1
    { Server.Query.zero with name := [112, 97, 97, 97, 97, 97, 98, 113, 46, 116, 46, 97, 98], type := 10, id := 2 } [192, 0]
    (by decide) (by decide) 8 (by decide) (by decide +kernel) (by decide +kernel) (by decide +kernel) (by decide +kernel)
  obtain ⟨_, _, a, p⟩ := h2.renew (by decide) (qaWD_srvWF.get 0) (by decide) (by decide)
  exact ⟨_, h2, a, p⟩

end Iodine.C02L
