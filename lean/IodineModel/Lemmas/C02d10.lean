import IodineModel.Lemmas.C02d9
/-
Downstream transfer in immediate mode: the client receives an answer that carries an expected fragment.
-/
namespace Iodine.C02L
open Iodine Iodine.Gen Iodine.World

theorem scPkt_head (y : Server.Session) (n : Nat) : 128 ≤ (Server.scPkt y n).getD 0 0 := by
  unfold Server.scPkt
  simp only [List.cons_append, List.getD_cons_zero]
  have : 128 ≤ 128 ||| ((y.inpacket.seqno % 8).toNat <<< 4) := Nat.left_le_or
  exact Nat.le_trans this Nat.left_le_or

theorem not_badip (y : Server.Session) (n : Nat) : (Server.scPkt y n).take 5 ≠ Client.ascii "BADIP" := by
  intro h
  have h1 := scPkt_head y n
  have h2 : ((Server.scPkt y n).take 5).getD 0 0 = 66 := by rw [h]; rfl
  have h3 : ((Server.scPkt y n).take 5).getD 0 0 = (Server.scPkt y n).getD 0 0 := by
    simp only [List.getD_eq_getElem?_getD, List.getElem?_take]
    simp
  omega

/-- the facts about a downstream fragment `pkt = scPkt yy D` the client needs -/
structure FragPkt (pkt out : List Nat) (sq : Int) (o D f : Nat) (last : Bool) : Prop where
  len : pkt.length = 2 + D
  body : pkt.drop 2 = (out.drop o).take D
  hdr : (Client.decodeHdr pkt).dnSeq = sq ∧ (Client.decodeHdr pkt).dnFrag = (f : Int) ∧ (Client.decodeHdr pkt).last = last
  notbad : pkt.take 5 ≠ Client.ascii "BADIP"

theorem fragPkt_of (yy : Server.Session) (out : List Nat) (sq : Int) (o D f : Nat)
    (hop : yy.outpacket = ⟨out.length, D, o, out, sq, (f : Int)⟩) (hle : o + D ≤ out.length) (hsq : 0 ≤ sq ∧ sq < 8) (hf : f < 16)
    (h1 : 0 ≤ yy.inpacket.seqno ∧ yy.inpacket.seqno < 8) (h2 : 0 ≤ yy.inpacket.fragment ∧ yy.inpacket.fragment < 16) :
    FragPkt (Server.scPkt yy D) out sq o D f (decide (out.length > 0 ∧ out.length = o + D)) := by
  have hd := decodeHdr_scPkt yy D h1 h2 (by rw [hop]; exact hsq) (by rw [hop]; show (0 : Int) ≤ f ∧ (f : Int) < 16; omega)
  refine ⟨?_, ?_, ?_, not_badip yy D⟩
  · rw [scPkt_length, hop]
    show 2 + min D (out.length - o) = 2 + D
    omega
  · rw [scPkt_drop2, hop]
  · rw [hd, hop]
    exact ⟨rfl, rfl, rfl⟩

/-- the client state after an expected fragment that is not the last was appended -/
def midState (c : Client.Cli) (out : List Nat) (sq : Int) (o D f : Nat) : Client.Cli :=
  { ackBook c with inpkt := inAfter (ackBook c) out sq o D f }

/-- … and after the last one was delivered -/
def lastState (c : Client.Cli) (out : List Nat) (sq : Int) (o D f : Nat) : Client.Cli :=
  { ackBook c with inpkt := { inAfter (ackBook c) out sq o D f with len := 0 }, sendPingSoon := 5 }

theorem cstat_mid {P : Par} {c : Client.Cli} (hc : CStat P c) (out : List Nat) (sq : Int) (o D f : Nat) (hsq : 0 ≤ sq ∧ sq < 8)
    (hf : f < 16) : CStat P (midState c out sq o D f) :=
  ⟨hc.running, hc.conn, hc.imm, hc.uid, hc.uch, hc.td, hc.L, hc.enc, hc.ty, hc.cid, hc.cmc,
    by show ¬ c.now + 60 < c.now; omega, hc.oseq, hsq, by show (0 : Int) ≤ f ∧ (f : Int) < 16; omega, hc.seed⟩

theorem cstat_last {P : Par} {c : Client.Cli} (hc : CStat P c) (out : List Nat) (sq : Int) (o D f : Nat) (hsq : 0 ≤ sq ∧ sq < 8)
    (hf : f < 16) : CStat P (lastState c out sq o D f) :=
  ⟨hc.running, hc.conn, hc.imm, hc.uid, hc.uch, hc.td, hc.L, hc.enc, hc.ty, hc.cid, hc.cmc,
    by show ¬ c.now + 60 < c.now; omega, hc.oseq, hsq, by show (0 : Int) ≤ f ∧ (f : Int) < 16; omega, hc.seed⟩

/-- the conditions under which the client processes the answer `rq` as a downstream fragment -/
structure RecvOk (P : Par) (c : Client.Cli) (rq : Client.Rq) (pkt : List Nat) : Prop where
  cst : CStat P c
  idle : Client.isSending c = false
  sps : c.sendPingSoon = 0
  name0 : rq.name0 = 112
  rv : rq.rv = (pkt.length : Int)
  buf : rq.buf = pkt
  id : rq.id = c.chunkid

theorem recv_common {P : Par} {c : Client.Cli} {rq : Client.Rq} {pkt out : List Nat} {sq : Int} {o D f : Nat} {last : Bool}
    (h : RecvOk P c rq pkt) (hp : FragPkt pkt out sq o D f last) (hD : 0 < D)
    (hdup : sq = c.inpkt.seqno ∨ Client.recentSeqno c.inpkt.seqno sq = false) :
    Client.cstep ⟨c, .tunnel⟩ (.rq rq) =
      Client.settle (Client.finalPing (Client.downstream (ackBook c) (Client.decodeHdr pkt) pkt ((2 + D : Nat) : Int) false).1
        (Client.downstream (ackBook c) (Client.decodeHdr pkt) pkt ((2 + D : Nat) : Int) false).2.1
        (Client.downstream (ackBook c) (Client.decodeHdr pkt) pkt ((2 + D : Nat) : Int) false).2.2 ((2 + D : Nat) : Int)) := by
  have hrv : rq.rv = ((2 + D : Nat) : Int) := by rw [h.rv, hp.len]
  rw [cstep_rq c rq h.cst.running h.cst.alive h.cst.conn]
  rw [tunnelDns_payload c rq (by simp [Client.notData, h.name0]) (by rw [hrv]; omega)
    (by rw [h.buf]; intro hc; exact hp.notbad hc.2)
    (by unfold Client.recentId; rw [h.id]; simp) h.sps h.cst.imm h.idle
    (by rw [h.buf, hp.hdr.1]; exact hdup)]
  rw [h.buf, hrv]


theorem cexpect_ackBook {c : Client.Cli} {out : List Nat} {sq : Int} {o f : Nat} (h : CExpect c out sq o f) :
    CExpect (ackBook c) out sq o f := h

/-- a fragment that is not the last one: appended, and the acknowledging ping goes out at once -/
theorem recv_mid {P : Par} (hP : P.Ok) {c : Client.Cli} {rq : Client.Rq} {pkt out : List Nat} {sq : Int} {o D f : Nat}
    (h : RecvOk P c rq pkt) (hp : FragPkt pkt out sq o D f false) (hD : 0 < D)
    (hdup : sq = c.inpkt.seqno ∨ Client.recentSeqno c.inpkt.seqno sq = false)
    (hE : CExpect c out sq o f) (hsq : 0 ≤ sq ∧ sq < 8) (hf : f < 16) (hle : o + D ≤ out.length) (h64 : out.length ≤ 65536) :
    ∃ name, Client.cstep ⟨c, .tunnel⟩ (.rq rq) =
        (⟨pingState (midState c out sq o D f), .tunnel⟩, [.query (pingState (midState c out sq o D f)).chunkid P.ty name],
         .sel (Client.selectOf (pingState (midState c out sq o D f)))) ∧
      Client.sendPing (midState c out sq o D f) =
        ⟨Client.rotateChunkid { midState c out sq o D f with randSeed := ((midState c out sq o D f).randSeed + 1) % 65536 },
         [.query (pingState (midState c out sq o D f)).chunkid P.ty name], false⟩ ∧
      PingQ P (upQuery (pingState (midState c out sq o D f)).chunkid P.ty name) sq (f : Int) c.randSeed := by
  have hds := downstream_mid (ackBook c) (Client.decodeHdr pkt) pkt out sq o D f (cexpect_ackBook hE) h.cst.iseq hsq hf
    ⟨hp.hdr.1, hp.hdr.2.1⟩ hp.hdr.2.2 hp.len hp.body hD hle h64
  generalize hc3 : midState c out sq o D f = c3
  have hds' : Client.downstream (ackBook c) (Client.decodeHdr pkt) pkt ((2 + D : Nat) : Int) false = (c3, [], true) := by
    rw [hds, ← hc3]; rfl
  have hc3st : CStat P c3 := by rw [← hc3]; exact cstat_mid h.cst out sq o D f hsq hf
  obtain ⟨name, hsend, hpq⟩ := sendPing_ready hP hc3st
  have e : ({ Client.rotateChunkid { c3 with randSeed := (c3.randSeed + 1) % 65536 } with sendPingSoon := 0 } : Client.Cli) =
      pingState c3 := by unfold pingState; rfl
  have e2 : (Client.rotateChunkid { c3 with randSeed := (c3.randSeed + 1) % 65536 }).chunkid = (pingState c3).chunkid := by
    rw [← e]
  refine ⟨name, ?_, ?_, ?_⟩
  · rw [recv_common h hp hD hdup, hds']
    simp only
    have hfp : Client.finalPing c3 [] true ((2 + D : Nat) : Int) =
        Client.afterSend (Client.sendPing c3) [] (.dnsPing ((2 + D : Nat) : Int)) := by simp [Client.finalPing]
    have hrun : (Client.rotateChunkid { c3 with randSeed := (c3.randSeed + 1) % 65536 }).running = true := by
      have : (Client.rotateChunkid { c3 with randSeed := (c3.randSeed + 1) % 65536 }).running = c3.running := by
        simp [Client.rotateChunkid]
      rw [this]; exact hc3st.running
    rw [hfp, settle_afterSend _ _ _ (by rw [hsend]) (by rw [hsend]; exact hrun), hsend]
    simp only [List.nil_append]
    rw [e, e2]
  · rw [hsend, e2]
  · have e3 : c3.inpkt.seqno = sq := by rw [← hc3]; rfl
    have e4 : c3.inpkt.fragment = (f : Int) := by rw [← hc3]; rfl
    have e5 : c3.randSeed = c.randSeed := by rw [← hc3]; rfl
    rw [← e2, ← e3, ← e4, ← e5]
    exact hpq

/-- the last fragment: the packet is written to the client's tun device; a ping is due in 5 ms -/
theorem recv_last {P : Par} {c : Client.Cli} {rq : Client.Rq} {pkt frame : List Nat} {sq : Int} {o D f : Nat}
    (h : RecvOk P c rq pkt) (hp : FragPkt pkt (0x5a :: frame) sq o D f true) (hD : 0 < D)
    (hdup : sq = c.inpkt.seqno ∨ Client.recentSeqno c.inpkt.seqno sq = false)
    (hE : CExpect c (0x5a :: frame) sq o f) (hsq : 0 ≤ sq ∧ sq < 8) (hf : f < 16) (heq : o + D = (0x5a :: frame).length)
    (h64 : (0x5a :: frame).length ≤ 65536) :
    Client.cstep ⟨c, .tunnel⟩ (.rq rq) =
      (⟨lastState c (0x5a :: frame) sq o D f, .tunnel⟩, [Client.writeTun frame],
       .sel (Client.selectOf (lastState c (0x5a :: frame) sq o D f))) := by
  have hds := downstream_last (ackBook c) (Client.decodeHdr pkt) pkt frame sq o D f (cexpect_ackBook hE) h.cst.iseq hsq hf
    ⟨hp.hdr.1, hp.hdr.2.1⟩ hp.hdr.2.2 hp.len hp.body hD heq h64
  have hst := cstat_last h.cst (0x5a :: frame) sq o D f hsq hf
  rw [recv_common h hp hD hdup, hds]
  simp only
  have hfp : Client.finalPing (lastState c (0x5a :: frame) sq o D f) [Client.writeTun frame] false ((2 + D : Nat) : Int) =
      (lastState c (0x5a :: frame) sq o D f, [Client.writeTun frame], .ret ((2 + D : Nat) : Int)) := by simp [Client.finalPing]
  have hls : ({ ackBook c with inpkt := { inAfter (ackBook c) (0x5a :: frame) sq o D f with len := 0 }, sendPingSoon := 5 } : Client.Cli) =
      lastState c (0x5a :: frame) sq o D f := rfl
  rw [hls, hfp]
  simp [Client.settle, Client.loopTop, hst.running]

end Iodine.C02L
