import IodineModel.Lemmas.C02s4
/-
From a decoded query to the data handler: the dispatch of `tunnel_dns` / `handle_null_request` / the duplicate filters
for an upstream data query of user `u`.
-/
namespace Iodine.C02L
open Iodine Iodine.Gen Iodine.Server

/-- the lower-case hex digit of a user id (what the client puts in front of its data queries) -/
def hexLower (u : Nat) : Nat := (ascii "0123456789abcdef").getD u 0

/-- the record types the server treats as tunnel traffic -/
def TunnelType (ty : Nat) : Prop :=
  ty = T_NULL ∨ ty = T_PRIVATE ∨ ty = T_CNAME ∨ ty = T_A ∨ ty = T_MX ∨ ty = T_SRV ∨ ty = T_TXT

theorem hexLower_facts : ∀ u, u < 16 →
    hexCode (hexLower u) = (u : Int) ∧ isHexDigit (hexLower u) = true ∧
    hexLower u ∉ [86, 118, 76, 108, 73, 105, 90, 122, 83, 115, 79, 111, 89, 121, 82, 114, 78, 110, 80, 112, 119, 87] := by
  decide

theorem tunnelDns_data (s : Srv) (Q : Query) (u dlen : Nat) (hu : u < 16)
    (hdl : Common.queryDatalen Q.name s.cfg.topdomain = some dlen) (h6 : 6 ≤ dlen)
    (hc : Q.name.getD 0 0 = hexLower u) (hty : TunnelType Q.type) (hid : Q.id ≠ 0)
    (hchk : checkAuthenticatedUserAndIp s (u : Int) Q = false)
    (hcache : answerFromDnscache s u Q = none) (hqmem : answerFromQmemData s u Q = none)
    (hdup : rememberDuplicate s u Q = none) :
    tunnelDns s Q = dataFresh s u Q (Q.name.take (min dlen 512)) := by
  obtain ⟨h1, h2, h3⟩ := hexLower_facts u hu
  have hne : Q.name.length ≠ 0 := by
    intro h0
    have : Q.name = [] := List.eq_nil_of_length_eq_zero h0
    rw [this] at hc
    have : hexLower u = 0 := hc.symm
    rw [this] at h2
    exact absurd h2 (by decide)
  have hmem : ∀ c, c ∈ [86, 118, 76, 108, 73, 105, 90, 122, 83, 115, 79, 111, 89, 121, 82, 114, 78, 110, 80, 112, 119, 87] →
      Q.name.getD 0 0 ≠ c := by
    intro c hcm heq
    rw [hc] at heq
    exact h3 (heq ▸ hcm)
  unfold tunnelDns
  rw [if_neg hne]
  simp only [hdl]
  have hA1 : ¬ (dlen = 3 ∧ Q.type = T_A ∧ (Q.name.getD 0 0 = 110 ∨ Q.name.getD 0 0 = 78) ∧
      (Q.name.getD 1 0 = 115 ∨ Q.name.getD 1 0 = 83) ∧ Q.name.getD 2 0 = 46) := by
    intro h; omega
  have hA2 : ¬ (dlen = 4 ∧ Q.type = T_A ∧ (Q.name.getD 0 0 = 119 ∨ Q.name.getD 0 0 = 87) ∧
      (Q.name.getD 1 0 = 119 ∨ Q.name.getD 1 0 = 87) ∧ (Q.name.getD 2 0 = 119 ∨ Q.name.getD 2 0 = 87) ∧ Q.name.getD 3 0 = 46) := by
    intro h; omega
  unfold TunnelType at hty
  rw [if_neg hA1, if_neg hA2, if_pos hty]
  unfold handleNullRequest
  rw [if_neg (by omega)]
  simp only
  have hg0 : (Q.name.take (min dlen 512)).getD 0 0 = Q.name.getD 0 0 := by
    simp only [List.getD_eq_getElem?_getD, List.getElem?_take]
    rw [if_pos (by omega)]
  rw [hg0]
  have n := hmem
  rw [if_neg (by intro h; rcases h with h | h <;> exact n _ (by simp) h),
      if_neg (by intro h; rcases h with h | h <;> exact n _ (by simp) h),
      if_neg (by intro h; rcases h with h | h <;> exact n _ (by simp) h),
      if_neg (by intro h; rcases h with h | h <;> exact n _ (by simp) h),
      if_neg (by intro h; rcases h with h | h <;> exact n _ (by simp) h),
      if_neg (by intro h; rcases h with h | h <;> exact n _ (by simp) h),
      if_neg (by intro h; rcases h with h | h <;> exact n _ (by simp) h),
      if_neg (by intro h; rcases h with h | h <;> exact n _ (by simp) h),
      if_neg (by intro h; rcases h with h | h <;> exact n _ (by simp) h),
      if_neg (by intro h; rcases h with h | h <;> exact n _ (by simp) h)]
  rw [hc, if_pos h2]
  unfold handleData
  rw [if_neg (by omega), if_neg hid]
  simp only [hg0, hc, h1, hchk, Int.toNat_natCast, hcache, hqmem, hdup]
  simp

end Iodine.C02L
