import IodineModel.Lemmas.C05Sa
import IodineModel.Lemmas.C05Sb
import IodineModel.Lemmas.C05Sn
import IodineModel.Lemmas.SrvC15h
/-
Helper lemmas for C05 (whole sessions), part C: the invariant of the server PROCESS under ARBITRARY byte-valued inputs, and
what one byte-level iteration guarantees from it:

* the static counters of `write_dns_nameenc` stay in range; every held query has a name that fits `name[256]`
  (from the multiset balance of C14, `BytesL.iteration_keys`);
* the data invariant of Lemmas/BytesF–H (bytes, cache entries ≤ 4096) — here WITHOUT any legality hypothesis on the
  question names (Lemmas/C05Sn: what `dns_decode` extracts from bytes are at most 253 bytes);
* the size invariant of Lemmas/C05Sb; the packet bookkeeping invariant of C15 (`SessW`);
* `created_users = usercount ≤ 16`;
* every encoder call made for an event of the iteration is no fault (Lemmas/C05Sa).
-/
namespace Iodine.C05L
open Iodine Iodine.Server Iodine.Gen Iodine.C10 Iodine.Wire.Put Iodine.Wire.DnsEncode Iodine.Downstream

/-! ### the encoder calls behind the events -/

/-- the encoder `handle_ns_request` / `handle_a_request` run for `q` (mirror of `Server.nsaBytes` without the `sendto`) -/
def nsaCall (cfg : Config) (q : Query) : Option (R (List Nat)) :=
  match Common.queryDatalen q.name cfg.topdomain with
  | none => none
  | some dlen =>
    let n (i : Nat) := q.name.getD i 0
    if dlen = 3 ∧ q.type = Gen.T_A ∧ (n 0 = 110 ∨ n 0 = 78) ∧ (n 1 = 115 ∨ n 1 = 83) ∧ n 2 = 46 then
      some (dnsEncodeAResponse 65536 q.id q.type q.name (nsDest cfg q))
    else if dlen = 4 ∧ q.type = Gen.T_A ∧ (n 0 = 119 ∨ n 0 = 87) ∧ (n 1 = 119 ∨ n 1 = 87)
              ∧ (n 2 = 119 ∨ n 2 = 87) ∧ n 3 = 46 then
      some (dnsEncodeAResponse 65536 q.id q.type q.name (some [127, 0, 0, 1]))
    else if q.type = Gen.T_NS then some (dnsEncodeNsResponse 65536 q.id q.type q.name (q.name.drop dlen) (nsDest cfg q))
    else none

theorem nsaBytes_eq (cfg : Config) (q : Query) : nsaBytes cfg q = (nsaCall cfg q).bind sent := by
  unfold nsaBytes nsaCall
  cases Common.queryDatalen q.name cfg.topdomain with
  | none => rfl
  | some dlen =>
    simp only []
    by_cases h1 : dlen = 3 ∧ q.type = Gen.T_A ∧ (q.name.getD 0 0 = 110 ∨ q.name.getD 0 0 = 78) ∧
        (q.name.getD 1 0 = 115 ∨ q.name.getD 1 0 = 83) ∧ q.name.getD 2 0 = 46
    · rw [if_pos h1, if_pos h1]; rfl
    · rw [if_neg h1, if_neg h1]
      by_cases h2 : dlen = 4 ∧ q.type = Gen.T_A ∧ (q.name.getD 0 0 = 119 ∨ q.name.getD 0 0 = 87) ∧
          (q.name.getD 1 0 = 119 ∨ q.name.getD 1 0 = 87) ∧ (q.name.getD 2 0 = 119 ∨ q.name.getD 2 0 = 87) ∧
          q.name.getD 3 0 = 46
      · rw [if_pos h2, if_pos h2]; rfl
      · rw [if_neg h2, if_neg h2]
        by_cases h3 : q.type = Gen.T_NS
        · rw [if_pos h3, if_pos h3]; rfl
        · rw [if_neg h3, if_neg h3]; rfl

/-- the encoder call behind one event and the static counters after it -/
def encCall (cfg : Config) (q? : Option Query) (td : WriteDns.Td) : Event → WriteDns.Td × Option (R (List Nat))
  | .ans _ id ty dn name data _ => ((WriteDns.writeDnsR td id ty name data dn).1, some (WriteDns.writeDnsR td id ty name data dn).2)
  | .fwd _ => (td, q?.map fun q => dnsEncodeQuery 65536 q.id q.type true q.name)
  | .nsa _ => (td, q?.bind (nsaCall cfg))
  | _ => (td, none)

/-- all encoder calls for the events of an iteration, in order, the counters threaded through -/
def encCalls (cfg : Config) (q? : Option Query) : WriteDns.Td → List Event → List (R (List Nat))
  | _, [] => []
  | td, e :: rest =>
    match (encCall cfg q? td e).2 with
    | some r => r :: encCalls cfg q? (encCall cfg q? td e).1 rest
    | none => encCalls cfg q? (encCall cfg q? td e).1 rest

/-- the datagrams a call result stands for -/
def sentAs (mk : List Nat → BEvent) (r : Option (R (List Nat))) : List BEvent :=
  match r.bind sent with
  | some pkt => [mk pkt]
  | none => []

/-- `encodeEvent` IS the encoder call followed by `sendto` when the encoder returned `len ≥ 1` -/
theorem encodeEvent_eq (cfg : Config) (q? : Option Query) (td : WriteDns.Td) (e : Event) :
    encodeEvent cfg q? td e =
      ((encCall cfg q? td e).1,
        match e with
        | .ans dst _ _ _ _ _ _ => sentAs (BEvent.tx dst) (encCall cfg q? td e).2
        | .fwd dst => sentAs (BEvent.fwd dst) (encCall cfg q? td e).2
        | .nsa dst => sentAs (BEvent.nsa dst) (encCall cfg q? td e).2
        | .raw dst b => [BEvent.raw dst b]
        | .tunw f => [BEvent.tunw f]
        | .rly dst b => [BEvent.rly dst b]
        | .sweep => []
        | .tunskip => []) := by
  cases e with
  | ans dst id ty dn name data tag =>
    simp only [encodeEvent, encCall, sentAs, WriteDns.writeDns, Option.bind_some]
    generalize WriteDns.writeDnsR td id ty name data dn = r
    obtain ⟨td', x⟩ := r
    cases x with
    | ok pkt =>
      simp only [sent]
      by_cases hl : pkt.length < 1
      · simp only [if_pos hl]
      · simp only [if_neg hl]
    | ret rv => simp [sent]
    | fault f => simp [sent]
  | fwd dst =>
    simp only [encodeEvent, encCall, sentAs]
    cases q? with
    | none => rfl
    | some q => rfl
  | nsa dst =>
    simp only [encodeEvent, encCall, sentAs]
    cases q? with
    | none => rfl
    | some q => simp only [Option.bind_some, nsaBytes_eq]; rfl
  | raw dst b => rfl
  | tunw f => rfl
  | rly dst b => rfl
  | sweep => rfl
  | tunskip => rfl

/-! ### no encoder call faults -/

theorem nsaCall_nf (cfg : Config) (q : Query) (hq : q.name.length ≤ 255) : ∀ r, nsaCall cfg q = some r → NoFault r := by
  intro r hr
  unfold nsaCall at hr
  split at hr
  · cases hr
  · extract_lets n at hr
    split at hr
    · cases hr; exact dnsEncodeAResponse_nf _ _ _ _ hq
    · split at hr
      · cases hr; exact dnsEncodeAResponse_nf _ _ _ _ hq
      · split at hr
        · cases hr; exact dnsEncodeNsResponse_nf _ _ _ _ _ hq
        · cases hr

/-- what an `ans` event must satisfy for `write_dns` to be safe -/
def AnsFits (evs : List Event) : Prop :=
  ∀ dst id ty dn name data tag, Event.ans dst id ty dn name data tag ∈ evs →
    name.length ≤ 255 ∧ IsBytes data ∧ 1 ≤ data.length ∧ data.length ≤ 4096

theorem encCalls_nf (cfg : Config) (q? : Option Query) (hq : ∀ q, q? = some q → q.name.length ≤ 255) :
    ∀ (evs : List Event) (td : WriteDns.Td), TdOk td → AnsFits evs → ∀ r ∈ encCalls cfg q? td evs, NoFault r
  | [], _, _, _, r, hr => by simp [encCalls] at hr
  | e :: rest, td, htd, hfit, r, hr => by
    have htd' : TdOk (encCall cfg q? td e).1 := by
      cases e <;> simp only [encCall] <;> first | exact htd | exact BytesL.writeDnsR_tdOk td htd _ _ _ _ _
    have hrest : AnsFits rest := fun dst id ty dn name data tag h => hfit dst id ty dn name data tag (List.mem_cons_of_mem _ h)
    have ih := encCalls_nf cfg q? hq rest (encCall cfg q? td e).1 htd' hrest
    unfold encCalls at hr
    split at hr
    · rename_i r0 hr0
      simp only [List.mem_cons] at hr
      rcases hr with rfl | hr
      · cases e with
        | ans dst id ty dn name data tag =>
          simp only [encCall, Option.some.injEq] at hr0
          subst hr0
          obtain ⟨h1, h2, h3, h4⟩ := hfit dst id ty dn name data tag List.mem_cons_self
          exact writeDnsR_nf td htd id ty name data dn h1 h2 h3 h4
        | fwd dst =>
          simp only [encCall] at hr0
          cases q? with
          | none => simp at hr0
          | some q =>
            simp only [Option.map_some, Option.some.injEq] at hr0
            subst hr0
            exact dnsEncodeQuery_nf _ _ _ _ (hq q rfl)
        | nsa dst =>
          simp only [encCall] at hr0
          cases q? with
          | none => simp at hr0
          | some q =>
            simp only [Option.bind_some] at hr0
            exact nsaCall_nf cfg q (hq q rfl) _ hr0
        | raw _ _ => simp [encCall] at hr0
        | tunw _ => simp [encCall] at hr0
        | rly _ _ => simp [encCall] at hr0
        | sweep => simp [encCall] at hr0
        | tunskip => simp [encCall] at hr0
      · exact ih r hr
    · exact ih r hr

/-! ### the invariant of the process -/

/-- a held query's name fits `name[256]` -/
def NameFits (k : C14L.Key) : Prop := k.2.2.1.length ≤ 255

structure RunInv (b : BSrv) : Prop where
  td : TdOk b.td
  keys : BytesL.KeyInv NameFits b.srv
  data : BytesL.DataInv b.srv
  cfg : BytesL.CfgBound b.srv.cfg
  size : SzInv b.srv
  c15 : C15L.Inv b.srv
  sessw : ∃ m, C15L.G C15L.W0 m b.srv
  cnt : b.srv.cfg.createdUsers = b.srv.users.length ∧ b.srv.users.length ≤ 16

theorem runInv_start (cfg : Config) (hc : BytesL.CfgBound cfg) (rnd : List Nat) : RunInv (bstart cfg rnd) where
  td := by unfold TdOk bstart; simp
  keys := BytesL.keyInv_start _ cfg rnd
  data := BytesL.dataInv_start cfg rnd
  cfg := hc
  size := szInv_start cfg rnd
  c15 := C15L.inv_start cfg rnd
  sessw := ⟨_, C15L.g_start cfg rnd⟩
  cnt := ⟨rfl, C15L.start_length cfg rnd⟩

theorem inputFits_of_bytes {inp : Input} (h : BytesL.InputBytes inp) : InputFits inp := by
  cases inp <;> first | exact h.2 | trivial

/-- **one byte-level iteration on ANY byte-valued input**: the invariant is kept, every `write_dns` of the iteration has a name
that fits and a payload of 1..4096 bytes, the events fit the local buffers they are sent from, and no encoder call faults -/
theorem runInv_step {b : BSrv} (hb : RunInv b) (inp : BInput) (hby : BytesL.ByteInput inp) (now' : Nat) :
    RunInv (biteration b inp now').1 ∧
    AnsFits (out b.srv ⟨toInput b.srv inp, now'⟩) ∧
    EvOK (out b.srv ⟨toInput b.srv inp, now'⟩) ∧
    ∀ r ∈ encCalls b.srv.cfg (queryOf (toInput b.srv inp)) b.td (out b.srv ⟨toInput b.srv inp, now'⟩), NoFault r := by
  have hib := inputBytes_toInput_any b.srv inp hby
  have hq : ∀ q, toInput b.srv inp = .q q → q.name.length ≤ 255 ∧ q.id2 = 0 := fun q h => by
    have := toInput_q_bytes hby h; exact ⟨by omega, this.2.2.1⟩
  have hk := BytesL.iteration_keys NameFits b.srv (toInput b.srv inp) now'
    (fun q h => (hq q h).2) (fun q h _ => (hq q h).1) hb.keys
  have hd := BytesL.iteration_data hb.data hb.cfg (toInput b.srv inp) hib now'
  have hs := iteration_size hb.size (toInput b.srv inp) (inputFits_of_bytes hib) now'
  have hcfg : (biteration b inp now').1.srv.cfg = b.srv.cfg := C04L.iteration_cfg b.srv (toInput b.srv inp) now'
  have hlen : (biteration b inp now').1.srv.users.length = b.srv.users.length :=
    C15L.next_length b.srv ⟨toInput b.srv inp, now'⟩ hb.c15
  obtain ⟨m, hG⟩ := hb.sessw
  obtain ⟨m1, _, hG1, _⟩ := C15L.sim_iteration b.srv (toInput b.srv inp) now' (by have := hb.cnt.2; omega) m hG
  have hfit : AnsFits (out b.srv ⟨toInput b.srv inp, now'⟩) := by
    intro dst id ty dn name data tag he
    have h1 := hk.1 dst id ty dn name data tag he
    obtain ⟨h2, h3, h4⟩ := hd.2 dst id ty dn name data tag he
    refine ⟨h1, h2, ?_, h4⟩
    rcases h3 with h3 | h3
    · omega
    · rw [h3]; decide
  refine ⟨⟨?_, hk.2, hd.1, by rw [hcfg]; exact hb.cfg, hs.1, (C15L.iteration_spec b.srv _ now' hb.c15).1, ⟨m1, hG1⟩, ?_⟩,
    hfit, hs.2, ?_⟩
  · exact (BytesL.encodeEventsL_spec _ _ _ _ hb.td).1
  · rw [hcfg, hlen]; exact hb.cnt
  · apply encCalls_nf _ _ _ _ _ hb.td hfit
    intro q hq'
    cases hti : toInput b.srv inp with
    | q q0 =>
      rw [hti] at hq'
      simp only [queryOf, Option.some.injEq] at hq'
      subst hq'
      exact (hq q0 hti).1
    | rawf _ _ => rw [hti] at hq'; simp [queryOf] at hq'
    | tun _ => rw [hti] at hq'; simp [queryOf] at hq'
    | bind _ => rw [hti] at hq'; simp [queryOf] at hq'
    | tick => rw [hti] at hq'; simp [queryOf] at hq'

/-- the packet bookkeeping of C15 for every slot -/
theorem RunInv.sessW {b : BSrv} (h : RunInv b) (u : Nat) : C15L.SessW (getUser b.srv u) := by
  obtain ⟨m, hG⟩ := h.sessw
  exact (hG u).wf

theorem RunInv.szOK {b : BSrv} (h : RunInv b) (u : Nat) : SzOK (getUser b.srv u) := by
  unfold getUser
  rw [List.getD_eq_getElem?_getD]
  cases hu : b.srv.users[u]? with
  | none =>
    exact szOK_zero 0
  | some x => exact h.size x (List.mem_of_getElem? hu)

end Iodine.C05L
