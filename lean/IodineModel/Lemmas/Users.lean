import IodineModel.Users
/-
Helper lemmas for C18 (tunnel address pool).
-/
namespace Iodine.Users
open Iodine

/-! ### The subnet sizes `2^(32-n)`, 8 ≤ n ≤ 30, as literals (omega-friendly) -/

/-- `h` is one of the 23 subnet sizes 2^2 .. 2^24 -/
def SubnetSize (h : Nat) : Prop :=
  h = 4 ∨ h = 8 ∨ h = 16 ∨ h = 32 ∨ h = 64 ∨ h = 128 ∨ h = 256 ∨ h = 512 ∨ h = 1024 ∨
  h = 2048 ∨ h = 4096 ∨ h = 8192 ∨ h = 16384 ∨ h = 32768 ∨ h = 65536 ∨ h = 131072 ∨
  h = 262144 ∨ h = 524288 ∨ h = 1048576 ∨ h = 2097152 ∨ h = 4194304 ∨ h = 8388608 ∨
  h = 16777216

theorem subnetSize_pow (n : Nat) (h8 : 8 ≤ n) (h30 : n ≤ 30) : SubnetSize (2 ^ (32 - n)) := by
  have hn : n = 8 ∨ n = 9 ∨ n = 10 ∨ n = 11 ∨ n = 12 ∨ n = 13 ∨ n = 14 ∨ n = 15 ∨ n = 16 ∨
      n = 17 ∨ n = 18 ∨ n = 19 ∨ n = 20 ∨ n = 21 ∨ n = 22 ∨ n = 23 ∨ n = 24 ∨ n = 25 ∨
      n = 26 ∨ n = 27 ∨ n = 28 ∨ n = 29 ∨ n = 30 := by omega
  unfold SubnetSize
  rcases hn with rfl | rfl | rfl | rfl | rfl | rfl | rfl | rfl | rfl | rfl | rfl | rfl | rfl | rfl |
    rfl | rfl | rfl | rfl | rfl | rfl | rfl | rfl | rfl <;> decide

set_option hygiene false in
/-- split a `SubnetSize` hypothesis into its 23 literal cases -/
macro "subnet_cases " h:ident : tactic =>
  `(tactic| (unfold SubnetSize at $h:ident
             rcases $h:ident with rfl | rfl | rfl | rfl | rfl | rfl | rfl | rfl | rfl | rfl | rfl | rfl |
               rfl | rfl | rfl | rfl | rfl | rfl | rfl | rfl | rfl | rfl | rfl))

/-! ### Netmask and network address -/

/-- the uint32 loop-and-shift of `init_users` produces the ordinary netmask -/
theorem netmask_eq (n : Nat) (hn : n ≤ 32) : netmask n = 2 ^ 32 - 2 ^ (32 - n) := by
  unfold netmask
  have hp : 2 ^ n * 2 ^ (32 - n) = 2 ^ 32 := by rw [← Nat.pow_add]; congr 1; omega
  have h1 : 0 < 2 ^ n := Nat.two_pow_pos n
  have h2 : 0 < 2 ^ (32 - n) := Nat.two_pow_pos _
  have h3 : 2 ^ n ≤ 2 ^ 32 := Nat.pow_le_pow_right (by omega) hn
  rw [Nat.mod_eq_of_lt (a := 2 ^ n - 1) (by omega), Nat.sub_mul, hp, Nat.one_mul,
    Nat.mod_eq_of_lt (by omega)]

/-- `a & mask` clears the host part: in arithmetic terms it subtracts `a % 2^(32-n)` -/
theorem and_mask (a n : Nat) (hn : n ≤ 32) (ha : a < 2 ^ 32) :
    a &&& (2 ^ 32 - 2 ^ (32 - n)) = a - a % 2 ^ (32 - n) := by
  have hp : 2 ^ n * 2 ^ (32 - n) = 2 ^ 32 := by rw [← Nat.pow_add]; congr 1; omega
  have hm : 2 ^ 32 - 2 ^ (32 - n) = (2 ^ n - 1) * 2 ^ (32 - n) := by
    rw [Nat.sub_mul, hp, Nat.one_mul]
  have hr : a - a % 2 ^ (32 - n) = a / 2 ^ (32 - n) * 2 ^ (32 - n) := by
    have := Nat.div_add_mod a (2 ^ (32 - n))
    rw [Nat.mul_comm] at this; omega
  rw [hm, hr]
  apply Nat.eq_of_testBit_eq
  intro i
  rw [Nat.testBit_and, Nat.testBit_mul_two_pow, Nat.testBit_mul_two_pow,
    Nat.testBit_two_pow_sub_one, Nat.testBit_div_two_pow]
  by_cases hi : 32 - n ≤ i
  · have e : i - (32 - n) + (32 - n) = i := by omega
    rw [e]
    by_cases hi2 : i - (32 - n) < n
    · simp [hi, hi2]
    · have : a.testBit i = false := by
        apply Nat.testBit_lt_two_pow
        exact Nat.lt_of_lt_of_le ha (Nat.pow_le_pow_right (by omega) (by omega))
      simp [this]
  · simp [hi]

/-! ### The assignment loop -/

/-- Specification of one run of the loop, under the hypothesis that the last-octet additions
it performs do not wrap: length, every entry is `s + j` for an in-range `j` and differs from
the server address, and the entries are strictly increasing. -/
theorem initLoop_spec (my s : Nat) : ∀ (cnt i skip : Nat), skip ≤ 1 →
    (skip = 1 → my < s + i + 2) →
    (∀ k, k ≤ i + cnt + 1 → addLastOctet s k = s + k) →
    (initLoop my s cnt i skip).length = cnt ∧
    (∀ ip ∈ initLoop my s cnt i skip,
        ∃ j, i + skip + 1 ≤ j ∧ j ≤ i + cnt + 1 ∧ ip = s + j ∧ ip ≠ my) ∧
    (initLoop my s cnt i skip).Pairwise (· < ·) := by
  intro cnt
  induction cnt with
  | zero => intro i skip _ _ _; simp [initLoop]
  | succ cnt ih =>
    intro i skip hs hmy hadd
    have a1 : addLastOctet s (i + skip + 1) = s + (i + skip + 1) := hadd _ (by omega)
    simp only [initLoop]
    split
    · -- the server's own address is met: skip it
      next hc =>
      obtain ⟨hc1, hc2⟩ := hc
      subst hc2
      rw [a1] at hc1
      have a2 : addLastOctet s (i + (0 + 1) + 1) = s + (i + (0 + 1) + 1) := hadd _ (by omega)
      obtain ⟨il, im, ip⟩ := ih (i + 1) 1 (by omega) (by intro _; omega)
        (by intro k hk; exact hadd k (by omega))
      refine ⟨by simp [il], ?_, ?_⟩
      · intro x hx
        rcases List.mem_cons.1 hx with rfl | hx
        · exact ⟨i + (0 + 1) + 1, by omega, by omega, a2, by rw [a2]; omega⟩
        · obtain ⟨j, h1, h2, h3, h4⟩ := im x hx
          exact ⟨j, by omega, by omega, h3, h4⟩
      · refine List.pairwise_cons.2 ⟨?_, ip⟩
        intro y hy
        obtain ⟨j, h1, _, h3, _⟩ := im y hy
        omega
    · next hc =>
      obtain ⟨il, im, ip⟩ := ih (i + 1) skip hs (by intro h; have := hmy h; omega)
        (by intro k hk; exact hadd k (by omega))
      refine ⟨by simp [il], ?_, ?_⟩
      · intro x hx
        rcases List.mem_cons.1 hx with rfl | hx
        · refine ⟨i + skip + 1, by omega, by omega, a1, ?_⟩
          intro he
          by_cases h0 : skip = 0
          · exact hc ⟨he, h0⟩
          · have := hmy (by omega); omega
        · obtain ⟨j, h1, h2, h3, h4⟩ := im x hx
          exact ⟨j, by omega, by omega, h3, h4⟩
      · refine List.pairwise_cons.2 ⟨?_, ip⟩
        intro y hy
        obtain ⟨j, h1, _, h3, _⟩ := im y hy
        omega

/-- `USERS + 1` still fits in an octet, so `inet_addr("0.0.0.k")` is well formed and the
addition cannot wrap in the subnets whose host part is wider than the last octet. -/
theorem users_small : Gen.USERS ≤ 253 := by decide

/-- The last-octet addition of the C agrees with ordinary addition for every offset the loop
can use (`k ≤ usercount + 1 ≤ h - 2`), whatever the server address. -/
theorem addLastOctet_net (my h k U : Nat) (hh : SubnetSize h) (hU : U ≤ 253)
    (hk : k ≤ min (h - 3) U + 1) :
    addLastOctet (my - my % h) k = (my - my % h) + k := by
  unfold addLastOctet
  subnet_cases hh <;> omega

/-- Subnet arithmetic for an address `s + j` with `s` the network address of `my` and `j` an
offset the loop can produce: same network, a valid 32-bit address, neither the network nor the
broadcast address. -/
theorem subnet_arith (my h j U : Nat) (hh : SubnetSize h) (hmy : my < 2 ^ 32)
    (hj1 : 1 ≤ j) (hj : j ≤ min (h - 3) U + 1) :
    ((my - my % h) + j) - ((my - my % h) + j) % h = my - my % h ∧
    (my - my % h) + j < 2 ^ 32 ∧
    (my - my % h) + j ≠ my - my % h ∧
    (my - my % h) + j ≠ (my - my % h) + h - 1 := by
  subnet_cases hh <;> omega

/-- `initUsers` with the bit-level mask replaced by arithmetic -/
theorem initUsers_eq (my n : Nat) (hn : n ≤ 32) (hmy : my < 2 ^ 32) :
    initUsers my n =
      initLoop my (my - my % 2 ^ (32 - n)) (min (2 ^ (32 - n) - 3) Gen.USERS) 0 0 := by
  simp only [initUsers, userCount, maxUsers]
  rw [netmask_eq n hn, and_mask my n hn hmy]

/-- Everything about the pool in one statement, in terms of the subnet size. -/
theorem initUsers_spec (my n : Nat) (h8 : 8 ≤ n) (h30 : n ≤ 30) (hmy : my < 2 ^ 32) :
    (initUsers my n).length = min (2 ^ (32 - n) - 3) Gen.USERS ∧
    (∀ ip ∈ initUsers my n, ∃ j, 1 ≤ j ∧ j ≤ min (2 ^ (32 - n) - 3) Gen.USERS + 1 ∧
        ip = (my - my % 2 ^ (32 - n)) + j ∧ ip ≠ my) ∧
    (initUsers my n).Pairwise (· < ·) := by
  rw [initUsers_eq my n (by omega) hmy]
  have hh := subnetSize_pow n h8 h30
  obtain ⟨l, m, p⟩ := initLoop_spec my (my - my % 2 ^ (32 - n))
    (min (2 ^ (32 - n) - 3) Gen.USERS) 0 0 (by omega) (by omega)
    (by intro k hk
        exact addLastOctet_net my _ k Gen.USERS hh users_small (by omega))
  refine ⟨l, ?_, p⟩
  intro ip hip
  obtain ⟨j, h1, h2, h3, h4⟩ := m ip hip
  exact ⟨j, by omega, by omega, h3, h4⟩

/-! ### Slot lookup -/

theorem findUserByIpFrom_some (now ip : Nat) : ∀ (slots : List Slot) (i u : Nat),
    findUserByIpFrom now ip slots i = some u ↔
      ∃ k, u = i + k ∧ ∃ hk : k < slots.length,
        (slots[k].active = true ∧ slots[k].authenticated = true ∧ slots[k].disabled = false ∧
          now < slots[k].lastPkt + 60 ∧ slots[k].tunIp = ip) ∧
        ∀ j (hj : j < k),
          ¬ (slots[j].active = true ∧ slots[j].authenticated = true ∧
             slots[j].disabled = false ∧ now < slots[j].lastPkt + 60 ∧ slots[j].tunIp = ip) := by
  intro slots
  induction slots with
  | nil => intro i u; simp [findUserByIpFrom]
  | cons s rest ih =>
    intro i u
    simp only [findUserByIpFrom]
    split
    · next hc =>
      have hc' : s.active = true ∧ s.authenticated = true ∧ s.disabled = false ∧
          now < s.lastPkt + 60 ∧ s.tunIp = ip := by
        obtain ⟨a, b, c, d, e⟩ := hc
        exact ⟨a, b, by simpa using c, d, e.symm⟩
      constructor
      · intro h
        refine ⟨0, by simp at h; omega, by simp, by simpa using hc', ?_⟩
        intro j hj; omega
      · rintro ⟨k, rfl, hk, _, hmin⟩
        cases k with
        | zero => rfl
        | succ k => exact absurd (by simpa using hc') (hmin 0 (by omega))
    · next hc =>
      have hc' : ¬ (s.active = true ∧ s.authenticated = true ∧ s.disabled = false ∧
          now < s.lastPkt + 60 ∧ s.tunIp = ip) := by
        rintro ⟨a, b, c, d, e⟩
        exact hc ⟨a, b, by simp [c], d, e.symm⟩
      rw [ih (i + 1) u]
      constructor
      · rintro ⟨k, rfl, hk, hp, hmin⟩
        refine ⟨k + 1, by omega, by simpa using hk, by simpa using hp, ?_⟩
        intro j hj
        cases j with
        | zero => simpa using hc'
        | succ j => simpa using hmin j (by omega)
      · rintro ⟨k, rfl, hk, hp, hmin⟩
        cases k with
        | zero => exact absurd (by simpa using hp) hc'
        | succ k =>
          refine ⟨k, by omega, by simpa using hk, by simpa using hp, ?_⟩
          intro j hj
          simpa using hmin (j + 1) (by omega)

theorem findAvailableFrom_some (now : Nat) : ∀ (slots : List Slot) (i u : Nat) (slots' : List Slot),
    findAvailableFrom now slots i = (some u, slots') →
      ∃ k, u = i + k ∧ ∃ hk : k < slots.length,
        ((slots[k].active = false ∨ slots[k].lastPkt + 60 < now) ∧ slots[k].disabled = false) ∧
        (∀ j (hj : j < k),
          ¬ ((slots[j].active = false ∨ slots[j].lastPkt + 60 < now) ∧
              slots[j].disabled = false)) ∧
        slots' = slots.set k (slots[k].claim now) := by
  intro slots
  induction slots with
  | nil => intro i u slots' h; simp [findAvailableFrom] at h
  | cons s rest ih =>
    intro i u slots' h
    simp only [findAvailableFrom] at h
    split at h
    · next hc =>
      have hc' : (s.active = false ∨ s.lastPkt + 60 < now) ∧ s.disabled = false := by
        simpa using hc
      simp only [Prod.mk.injEq, Option.some.injEq] at h
      refine ⟨0, by omega, by simp, by simpa using hc', by intro j hj; omega, ?_⟩
      simp [h.2.symm]
    · next hc =>
      have hc' : ¬ ((s.active = false ∨ s.lastPkt + 60 < now) ∧ s.disabled = false) := by
        simpa using hc
      simp only [Prod.mk.injEq] at h
      obtain ⟨h1, h2⟩ := h
      obtain ⟨k, hu, hk, hp, hmin, hset⟩ :=
        ih (i + 1) u (findAvailableFrom now rest (i + 1)).2 (by rw [← h1])
      refine ⟨k + 1, by omega, by simpa using hk, by simpa using hp, ?_, ?_⟩
      · intro j hj
        cases j with
        | zero => simpa using hc'
        | succ j => simpa using hmin j (by omega)
      · rw [← h2, hset]; simp

end Iodine.Users
