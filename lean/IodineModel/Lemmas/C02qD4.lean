import IodineModel.Lemmas.C02qD3
/-
C02 phase 2, downstream / immediate mode, desynchronised start — THE FINDING (c02:seqno-window, downstream side).

`down_packet_imm_desync_drop`: when the server's downstream sequence number is 4, 5 or 6 ahead of the client's, the next
packet offered to the server is LOST: its number falls into the client's window of "recent" numbers.
-/
namespace Iodine.C02L
open Iodine Iodine.Gen Iodine.World

/-- while the client's 500 ms timer runs the next poll costs no whole second: the timing hypotheses of a round hold -/
theorem timing_sps {P : Par} {w : W} (hc : CStat P w.cs.c) (hS : SStat P w.srv) (hsps : w.cs.c.sendPingSoon = 500) :
    (Client.selectOf w.cs.c).to < 10000000 ∧
    ¬ w.cs.c.lastdownstreamtime + 60 < w.cs.c.now + ((Client.selectOf w.cs.c).to / 1000000).toNat ∧
    w.srv.now + ((Client.selectOf w.cs.c).to / 1000000).toNat < (Server.getUser w.srv P.u).lastPkt + 60 := by
  have hto : (Client.selectOf w.cs.c).to = 500000 := by simp [Client.selectOf, hsps]
  rw [hto]
  exact ⟨by omega, hc.alive, hS.live⟩

/-- the resends of a multi-fragment packet the client does not take: `k` more resends, then the drop -/
theorem stuck_rounds {P : Par} (hP : P.Ok) {out : List Nat} {sq : Int} {dd F : Nat} (hL : 0 < out.length)
    (hmulti : downLen F out.length < out.length) :
    ∀ (k r m : Nat) (w : W), r + k = 6 → DownStuck P out w sq m r → w.cs.c.sendPingSoon = 500 →
      (Server.getUser w.srv P.u).fragsize = F →
      ((sq ≠ w.cs.c.inpkt.seqno ∧ Client.recentSeqno w.cs.c.inpkt.seqno sq = true) ∨
        (sq = w.cs.c.inpkt.seqno ∧ w.cs.c.inpkt.fragment ≠ 0)) →
      sq = (w.cs.c.inpkt.seqno + dd) % 8 →
      ∃ w', promptSteps P.u (3 * k + 3) w = some w' ∧ w'.tunC = w.tunC ∧ w'.tunS = w.tunS ∧
        (Server.getUser w'.srv P.u).fragsize = F ∧
        (Server.getUser w'.srv P.u).tunIp = (Server.getUser w.srv P.u).tunIp ∧
        (Server.getUser w'.srv P.u).lastPkt = w'.srv.now ∧ w'.cs.c.lastdownstreamtime = w'.cs.c.now ∧
        w'.cs.c.selecttimeout = w.cs.c.selecttimeout ∧ w'.cs.c.sendPingSoon = 0 ∧ w'.cs.c.inpkt = w.cs.c.inpkt ∧
        QuietImmD P 0 dd w' := by
  intro k
  induction k with
  | zero =>
    intro r m w hrk h hsps hF hwin hdd
    obtain ⟨t1, t2, t3⟩ := timing_sps h.cst h.srv.stat hsps
    have hrec : sq = w.cs.c.inpkt.seqno ∨ Client.recentSeqno w.cs.c.inpkt.seqno sq = true := by
      rcases hwin with h1 | h1
      · exact Or.inr h1.2
      · exact Or.inl h1.1
    obtain ⟨w', h1, h2, h3, h4, h5, h6, h7, h8, h9, h10, h11⟩ := stuck_drop hP h (by omega) hL hrec hdd t1 t2 t3
    exact ⟨w', h1, h2, h3, by rw [h4, hF], h5, h6, h7, h8, h9, h10, h11⟩
  | succ k ih =>
    intro r m w hrk h hsps hF hwin hdd
    obtain ⟨t1, t2, t3⟩ := timing_sps h.cst h.srv.stat hsps
    obtain ⟨D, hD, w1, h1, h2, h3, h4, h5, h6, h7, h8, h9, h10, hmid, _⟩ :=
      stuck_resendD hP h (by omega) hL hwin hdd t1 t2 t3
    rw [hF] at hD
    have hst := hmid (by rw [hD]; exact hmulti)
    obtain ⟨w', g1, g2, g3, g4, g5, g6, g7, g8, g9, g10, g11⟩ := ih (r + 1) D w1 (by omega) hst h9 (by rw [h4, hF])
      (by rw [h10]; exact hwin) (by rw [h10]; exact hdd)
    refine ⟨w', ?_, by rw [g2, h2], by rw [g3, h3], g4, by rw [g5, h5], g6, g7, by rw [g8, h8], g9, by rw [g10, h10], g11⟩
    have := promptSteps_add P.u 3 (3 * k + 3) w w1 h1
    rw [g1] at this
    rw [← this]
    congr 1
    omega

/-- scheduler steps until the joint state is quiescent again when a downstream packet of `g` fragments is NOT taken by the
client: one poll round (`tickC deliverUp deliverDown`) for a one-fragment packet — the server forgets such a packet the moment
it is sent —, else seven rounds: the fragment is sent six times, the seventh ping makes the server drop the packet -/
def dropSteps (g : Nat) : Nat := if g = 1 then 3 else 21

theorem downFrags_first (F n : Nat) : downFrags F (n + 1) (n + 1) = 1 + downFrags F n (n + 1 - downLen F (n + 1)) := by
  show (if n + 1 = 0 then 0 else 1 + downFrags F n (n + 1 - downLen F (n + 1))) = _
  rw [if_neg (by omega)]

theorem downFrags_pos (F n r : Nat) (hn : 0 < n) (hr : 0 < r) : 1 ≤ downFrags F n r := by
  cases n with
  | zero => omega
  | succ k =>
    show 1 ≤ (if r = 0 then 0 else 1 + downFrags F k (r - downLen F r))
    rw [if_neg (by omega)]; omega

/-- the window: a number 5, 6 or 7 ahead is one of the three before the current one -/
theorem recentSeqno_behind (a : Int) (ha : 0 ≤ a ∧ a < 8) (j : Nat) (hj : 5 ≤ j ∧ j ≤ 7) :
    (a + j) % 8 ≠ a ∧ Client.recentSeqno a ((a + j) % 8) = true := by
  refine ⟨by omega, ?_⟩
  rw [recentSeqno_iff a _ ha]
  exact ⟨8 - j, by omega, by omega⟩

/-- the common part of the two drop theorems: the new number `d + 1` ahead is in the client's window (`hwin`: it differs
from the client's and is "recent", or it IS the client's and the client's last fragment number is not 0) -/
theorem drop_core {P : Par} (hP : P.Ok) {w : W} {d dd : Nat} (hq : QuietImmD P 0 d w)
    (frame : List Nat) (hF : 0 < (Server.getUser w.srv P.u).fragsize)
    (h24 : 24 ≤ frame.length) (hl : frame.length < 65536) (hdst : Server.ipDst frame = (Server.getUser w.srv P.u).tunIp)
    (hwin : ((w.cs.c.inpkt.seqno + (d + 1 : Nat)) % 8 ≠ w.cs.c.inpkt.seqno ∧
        Client.recentSeqno w.cs.c.inpkt.seqno ((w.cs.c.inpkt.seqno + (d + 1 : Nat)) % 8) = true) ∨
      ((w.cs.c.inpkt.seqno + (d + 1 : Nat)) % 8 = w.cs.c.inpkt.seqno ∧ w.cs.c.inpkt.fragment ≠ 0))
    (hdd : (w.cs.c.inpkt.seqno + (d + 1 : Nat)) % 8 = (w.cs.c.inpkt.seqno + dd) % 8)
    (hto : (Client.selectOf w.cs.c).to < 10000000)
    (hexp : ¬ w.cs.c.lastdownstreamtime + 60 < w.cs.c.now + ((Client.selectOf w.cs.c).to / 1000000).toNat)
    (hlive : w.srv.now + ((Client.selectOf w.cs.c).to / 1000000).toNat < (Server.getUser w.srv P.u).lastPkt + 60) :
    ∃ w', promptSteps P.u (dropSteps (downFrags (Server.getUser w.srv P.u).fragsize (frame.length + 1) (frame.length + 1)))
        (step w (.offerS frame)) = some w' ∧
      QuietImmD P 0 dd w' ∧ w'.tunC = w.tunC ∧ w'.tunS = w.tunS ∧
      (Server.getUser w'.srv P.u).fragsize = (Server.getUser w.srv P.u).fragsize ∧
      (Server.getUser w'.srv P.u).tunIp = (Server.getUser w.srv P.u).tunIp ∧
      (Server.getUser w'.srv P.u).lastPkt = w'.srv.now ∧ w'.cs.c.lastdownstreamtime = w'.cs.c.now ∧
      w'.cs.c.selecttimeout = w.cs.c.selecttimeout ∧ w'.cs.c.sendPingSoon ≤ 500 ∧ w'.cs.c.inpkt = w.cs.c.inpkt := by
  generalize hFdef : (Server.getUser w.srv P.u).fragsize = F at hF ⊢
  obtain ⟨w1, hw1, hidle, ht1, ht2, htip1, hfs1, hnow1, hlp1, hcs1⟩ := down_offerD hP hq frame h24 hl hdst (by rw [hFdef]; exact hF)
  rw [hw1]
  have hlen : (0x5a :: frame).length = frame.length + 1 := by simp
  have hcin : w1.cs.c.inpkt = w.cs.c.inpkt := by rw [hcs1]
  have hne0 : (w.cs.c.inpkt.seqno + (d + 1 : Nat)) % 8 ≠ w.cs.c.inpkt.seqno ∨ (0 : Int) ≠ w.cs.c.inpkt.fragment := by
    rcases hwin with h1 | h1
    · exact Or.inl h1.1
    · exact Or.inr (fun h => h1.2 h.symm)
  have hst : DownStuck P (0x5a :: frame) w1 ((w.cs.c.inpkt.seqno + (d + 1 : Nat)) % 8) 0 0 :=
    hidle.stuck (by rw [hcin]; exact hne0)
  obtain ⟨D, hD, w2, h1, h2, h3, h4, h5, h6, h7, h8, h9, h10, hmid, hone⟩ :=
    stuck_resendD (dd := dd) hP hst (by omega) (by rw [hlen]; omega) (by rw [hcin]; exact hwin)
      (by rw [hcin]; exact hdd) (by rw [hcs1]; exact hto) (by rw [hcs1]; exact hexp)
      (by rw [hcs1, hnow1, hlp1]; exact hlive)
  rw [hfs1, hFdef, hlen] at hD
  rw [hlen] at hmid hone
  rw [downFrags_first]
  by_cases he : D = frame.length + 1
  · have hz : frame.length + 1 - downLen F (frame.length + 1) = 0 := by omega
    rw [hz, downFrags_zero]
    refine ⟨w2, by simpa [dropSteps] using h1, hone he, by rw [h2, ht2], by rw [h3, ht1], by rw [h4, hfs1, hFdef], by rw [h5, htip1], h6, h7,
      by rw [h8, hcs1], by rw [h9]; omega, by rw [h10, hcin]⟩
  · have hlt : D < frame.length + 1 := by
      have : D ≤ frame.length + 1 := by rw [hD]; unfold downLen; omega
      omega
    have hg1 := downFrags_pos F frame.length (frame.length + 1 - downLen F (frame.length + 1)) (by omega) (by omega)
    obtain ⟨w', g1, g2, g3, g4, g5, g6, g7, g8, g9, g10, g11⟩ := stuck_rounds (dd := dd) (F := F) hP (out := 0x5a :: frame)
      (by rw [hlen]; omega) (by rw [hlen, ← hD]; exact hlt) 5 1 D w2 (by omega) (hmid hlt) h9 (by rw [h4, hfs1, hFdef])
      (by rw [h10, hcin]; exact hwin) (by rw [h10, hcin]; exact hdd)
    refine ⟨w', ?_, g11, by rw [g2, h2, ht2], by rw [g3, h3, ht1], g4, by rw [g5, h5, htip1], g6, g7, by rw [g8, h8, hcs1],
      by rw [g9]; omega, by rw [g10, h10, hcin]⟩
    have := promptSteps_add P.u 3 (3 * 5 + 3) w1 w2 h1
    rw [g1] at this
    rw [← this]
    congr 1
    unfold dropSteps
    rw [if_neg (by omega)]

/-- **down_packet_imm_desync_drop** (the finding, downstream, immediate mode; every payload, every fragment size).
From a quiescent joint state in which the server's downstream sequence number is `d ∈ {4, 5, 6}` ahead of the client's
(`QuietImmD P 0 d`), with the timer room of `down_packet_imm`: a frame offered to the server is NOT delivered.  The server
numbers it `d + 1` ahead; the client takes every copy of fragment 0 for a duplicate of a recent packet (`read := 2`,
`send_ping_soon := 500`) and keeps pinging with its own `(seqno, fragment)`, which `process_downstream_ack` does not match.
After `dropSteps g` prompt steps (3 for a one-fragment packet, else 21: six sends, then the drop) the joint state is
quiescent again, now `d + 1` apart; nothing was written to either tun device; the client's reassembly state is untouched. -/
theorem down_packet_imm_desync_drop {P : Par} (hP : P.Ok) {w : W} {d : Nat} (hq : QuietImmD P 0 d w) (hd : 4 ≤ d ∧ d ≤ 6)
    (frame : List Nat) (hF : 0 < (Server.getUser w.srv P.u).fragsize)
    (h24 : 24 ≤ frame.length) (hl : frame.length < 65536) (hdst : Server.ipDst frame = (Server.getUser w.srv P.u).tunIp)
    (hto : (Client.selectOf w.cs.c).to < 10000000)
    (hexp : ¬ w.cs.c.lastdownstreamtime + 60 < w.cs.c.now + ((Client.selectOf w.cs.c).to / 1000000).toNat)
    (hlive : w.srv.now + ((Client.selectOf w.cs.c).to / 1000000).toNat < (Server.getUser w.srv P.u).lastPkt + 60) :
    ∃ w', promptSteps P.u (dropSteps (downFrags (Server.getUser w.srv P.u).fragsize (frame.length + 1) (frame.length + 1)))
        (step w (.offerS frame)) = some w' ∧
      QuietImmD P 0 (d + 1) w' ∧ w'.tunC = w.tunC ∧ w'.tunS = w.tunS ∧
      (Server.getUser w'.srv P.u).fragsize = (Server.getUser w.srv P.u).fragsize ∧
      (Server.getUser w'.srv P.u).tunIp = (Server.getUser w.srv P.u).tunIp ∧
      (Server.getUser w'.srv P.u).lastPkt = w'.srv.now ∧ w'.cs.c.lastdownstreamtime = w'.cs.c.now ∧
      w'.cs.c.selecttimeout = w.cs.c.selecttimeout ∧ w'.cs.c.sendPingSoon ≤ 500 ∧ w'.cs.c.inpkt = w.cs.c.inpkt :=
  drop_core hP hq frame hF h24 hl hdst (Or.inl (recentSeqno_behind w.cs.c.inpkt.seqno hq.cst.iseq (d + 1) (by omega))) rfl
    hto hexp hlive

/-- **down_packet_imm_desync_drop7** (`d = 7`: the new packet carries the client's CURRENT number).  If the client's last
fragment number is not 0 (the last packet it took had two or more fragments), fragment 0 of the new packet is a "duplicate
fragment" for it: the packet is lost exactly as in `down_packet_imm_desync_drop` — and the joint state is SYNCHRONISED
afterwards (`QuietImm`), because the numbers are equal again.  (With `inpkt.fragment = 0` and `inpkt.len = 0` the packet is
TAKEN through the "weird situation" clause of `tunnel_dns`: see `C02qD5`, `desync7_both_outcomes`.) -/
theorem down_packet_imm_desync_drop7 {P : Par} (hP : P.Ok) {w : W} (hq : QuietImmD P 0 7 w)
    (hfr : w.cs.c.inpkt.fragment ≠ 0)
    (frame : List Nat) (hF : 0 < (Server.getUser w.srv P.u).fragsize)
    (h24 : 24 ≤ frame.length) (hl : frame.length < 65536) (hdst : Server.ipDst frame = (Server.getUser w.srv P.u).tunIp)
    (hto : (Client.selectOf w.cs.c).to < 10000000)
    (hexp : ¬ w.cs.c.lastdownstreamtime + 60 < w.cs.c.now + ((Client.selectOf w.cs.c).to / 1000000).toNat)
    (hlive : w.srv.now + ((Client.selectOf w.cs.c).to / 1000000).toNat < (Server.getUser w.srv P.u).lastPkt + 60) :
    ∃ w', promptSteps P.u (dropSteps (downFrags (Server.getUser w.srv P.u).fragsize (frame.length + 1) (frame.length + 1)))
        (step w (.offerS frame)) = some w' ∧
      QuietImm P w' ∧ w'.tunC = w.tunC ∧ w'.tunS = w.tunS ∧
      (Server.getUser w'.srv P.u).fragsize = (Server.getUser w.srv P.u).fragsize ∧
      (Server.getUser w'.srv P.u).tunIp = (Server.getUser w.srv P.u).tunIp ∧
      (Server.getUser w'.srv P.u).lastPkt = w'.srv.now ∧ w'.cs.c.lastdownstreamtime = w'.cs.c.now ∧
      w'.cs.c.selecttimeout = w.cs.c.selecttimeout ∧ w'.cs.c.sendPingSoon ≤ 500 ∧ w'.cs.c.inpkt = w.cs.c.inpkt := by
  have hi := hq.cst.iseq
  obtain ⟨w', h1, h2, h3⟩ := drop_core (dd := 0) hP hq frame hF h24 hl hdst (Or.inr ⟨by omega, hfr⟩) (by omega) hto hexp hlive
  exact ⟨w', h1, quietImmD_zero.1 h2, h3⟩

/-- after the lost packet there is timer room again (for the next packet, or the next poll) -/
theorem roomy_afterD {P : Par} {w : W} {d : Nat} (hq : QuietImmD P 0 d w) (h1 : (Server.getUser w.srv P.u).lastPkt = w.srv.now)
    (h2 : w.cs.c.lastdownstreamtime = w.cs.c.now) (h3 : w.cs.c.selecttimeout ≤ 9) (h4 : w.cs.c.sendPingSoon ≤ 500) : Roomy P w := by
  have hto : (Client.selectOf w.cs.c).to ≤ 9000000 := by
    unfold Client.selectOf
    simp only [hq.idleC, Bool.false_eq_true, if_false]
    split <;> omega
  refine ⟨by omega, ?_, ?_⟩
  · rw [h2]; omega
  · rw [h1]; omega

end Iodine.C02L
