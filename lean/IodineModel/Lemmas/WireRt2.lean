import IodineModel.Lemmas.WireRt
import IodineModel.Lemmas.WirePut
/-
Round trip through the wire: `dnsDecodeAnswer` applied to the closed forms of `dnsEncodeAnswer`
(Lemmas/WirePut.lean).  First the part every answer shares (header, question), then one lemma per answer
format.
-/
namespace Iodine.Wire
open Iodine.Wire.Strict Iodine.Wire.DnsEncode

/-- header of an answer with one question and `an` answer records, as `dnsEncodeAnswer_of` spells it -/
def ansHeader (id an : Nat) : List Nat := be16 id ++ [0x84, 0] ++ be16 1 ++ be16 an ++ be16 0 ++ be16 0

@[simp] theorem ansHeader_length (id an : Nat) : (ansHeader id an).length = 12 := rfl

theorem sshort_small (x : Nat) (h : x < 32768) : sshort x = x := by
  unfold sshort
  rw [if_neg (by omega)]

theorem ansHeader_eq (id an : Nat) :
    ansHeader id an = [id / 256 % 256, id % 256, 0x84, 0, 0, 1, an / 256 % 256, an % 256, 0, 0, 0, 0] := rfl

theorem readHeader_ans {id an : Nat} (hid : id < 65536) (han : an < 32768) (pkt body : List Nat)
    (hpk : pkt = ansHeader id an ++ body) (hl : pkt.length ≤ 65536) :
    readHeader (rx pkt) = .ok { id := id, qr := 1, rcode := 0, qdcount := 1, ancount := an } := by
  have hg : ∀ i x, (ansHeader id an ++ body)[i]? = some x → (rx pkt).get i = .ok x :=
    fun i x h => rx_get hl (by rw [hpk]; exact h)
  simp only [readHeader]
  rw [hg 0 (id / 256 % 256) (by simp [ansHeader_eq]), hg 1 (id % 256) (by simp [ansHeader_eq]),
    hg 2 0x84 (by simp [ansHeader_eq]), hg 3 0 (by simp [ansHeader_eq]),
    hg 4 0 (by simp [ansHeader_eq]), hg 5 1 (by simp [ansHeader_eq]),
    hg 6 (an / 256 % 256) (by simp [ansHeader_eq]), hg 7 (an % 256) (by simp [ansHeader_eq])]
  simp only [bind_ok]
  rw [shl8_or _ _ (Nat.mod_lt _ (by decide)), shl8_or _ _ (by decide), shl8_or _ _ (Nat.mod_lt _ (by decide))]
  have h1 : id / 256 % 256 * 256 + id % 256 = id := be16_val id hid
  have h2 : an / 256 % 256 * 256 + an % 256 = an := be16_val an (by omega)
  have h3 : id &&& 0xffff = id := by
    have := Nat.and_two_pow_sub_one_eq_mod id 16
    simp only [show (2 : Nat) ^ 16 - 1 = 0xffff by decide] at this
    rw [this]; exact Nat.mod_eq_of_lt hid
  rw [h1, h2, h3, sshort_small an han]
  rfl

/-- The common front part of `dns_decode(QR_ANSWER)` on a message that consists of `ansHeader`, the question
`qBytes toks ty` and records `rrs`: the decoder arrives at the answer branch with `data` behind the question. -/
theorem dnsDecodeAnswer_front (B id ty an : Nat) (toks : List (List Nat)) (pkt rrs : List Nat)
    (hid : id < 65536) (hty : ty < 65536) (han1 : 1 ≤ an) (han : an < 32768)
    (hok : LabelsOK toks) (hne : toks ≠ []) (hlen : labLen toks ≤ 254)
    (hpk : pkt = ansHeader id an ++ (qBytes toks ty ++ rrs)) (hl : pkt.length ≤ 65536) :
    dnsDecodeAnswer B (rx pkt) =
      (let q : Decoded := { rv := 0, id := id, rcode := 0, name := cstr [(joinDots toks ++ [0]).headD 0] }
       let data := 12 + labLen toks + 5
       if ty = 10 ∨ ty = 65399 then answerNull (rx pkt) B q data
       else if ty = 1 ∨ ty = 5 then answerCname (rx pkt) B q data
       else if ty = 15 ∨ ty = 33 then answerMx (rx pkt) B q data an
       else if ty = 16 then answerTxt (rx pkt) B q data
       else .ok { q with type := ty }) := by
  have hjl := joinDots_length toks hne
  have hat0 : At pkt 12 (encName toks ++ (be16 ty ++ (be16 1 ++ rrs))) := by
    have := at_append' (ansHeader id an) (qBytes toks ty ++ rrs) [] 12 (by simp)
    rw [hpk]
    simpa [qBytes, List.append_assoc] using this
  have hname := readname_labels hl 256 12 toks _ hok hat0 (by omega) (by omega)
  have hat1 : At pkt (12 + labLen toks + 1) (be16 ty ++ (be16 1 ++ rrs)) := by
    have := hat0.right
    simpa [encName, encLabels_length, Nat.add_assoc] using this
  have hle := hat1.le (by simp [be16])
  simp only [List.length_append, Iodine.Wire.Put.be16_length] at hle
  have hty' := readshort_at hl hty hat1
  have hcl := readshort_at hl (show 1 < 65536 by omega) hat1.right
  simp only [Iodine.Wire.Put.be16_length] at hcl
  have h12 : ¬ (rx pkt).plen < 12 := by rw [rx_plen]; omega
  unfold dnsDecodeAnswer
  rw [if_neg h12]
  simp only [readHeader_ans hid han pkt _ hpk hl, bind_ok, hname]
  have hck : checklenFails (rx pkt) 4 (12 + labLen toks + 1) = false := by
    simp only [checklenFails, rx_plen, decide_eq_false_iff_not]; omega
  have han' : ¬ ((an : Int) < 1) := by omega
  have e5 : 12 + labLen toks + 1 + 2 + 2 = 12 + labLen toks + 5 := by omega
  simp only [ne_eq, not_true_eq_false, if_false, Int.lt_irrefl, hck, Bool.false_eq_true, hty', bind_ok, hcl, han',
    Int.toNat_natCast, e5]

/-! ### the record every answer starts with: owner = pointer to the question, fixed part -/

theorem be16_namePtr' : be16 namePtr = [0xc0, 0x0c] := by decide

/-- reading owner and fixed part of a record `rrBytes namePtr ty 0 rd` at `p` -/
theorem rr_front {pkt : List Nat} (hl : pkt.length ≤ 65536) (h12 : 12 < pkt.length) {p ty : Nat} {rd Y : List Nat}
    (hty : ty < 65536) (hrd : rd.length < 65536) (h : At pkt p (rrBytes namePtr ty 0 rd ++ Y)) :
    (∃ w, readname (rx pkt) p 256 = .ok (p + 2, w)) ∧ checklenFails (rx pkt) 10 (p + 2) = false ∧
      readRRHeader (rx pkt) (p + 2) = .ok (ty, rd.length, p + 12) ∧ At pkt (p + 12) (rd ++ Y) ∧
      p + 12 + rd.length ≤ pkt.length := by
  have h' : At pkt p (0xc0 :: 0x0c :: (rrFixed ty 1 0 rd.length ++ (rd ++ Y))) := by
    simpa [rrBytes, be16_namePtr', List.append_assoc] using h
  have h2 : At pkt (p + 2) (rrFixed ty 1 0 rd.length ++ (rd ++ Y)) := h'.tail.tail
  have h3 : At pkt (p + 12) (rd ++ Y) := by
    have := h2.right
    simpa [rrFixed, Nat.add_assoc] using this
  have hle := h2.le (by simp [rrFixed, be16])
  simp only [List.length_append, rrFixed_length] at hle
  refine ⟨readname_ptr hl p _ h12 h', ?_, ?_, h3, by omega⟩
  · simp only [checklenFails, rx_plen, decide_eq_false_iff_not]; omega
  · have := readRRHeader_at hl hty (by omega) hrd h2
    rw [this]

/-! ### NULL / PRIVATE -/

theorem answerNull_rt {pkt : List Nat} (hl : pkt.length ≤ 65536) (h12 : 12 < pkt.length) (B : Nat) (q : Decoded)
    {p ty : Nat} {d Y : List Nat} (hty : ty < 65536) (hd2 : 2 ≤ d.length) (hd : d.length ≤ 4096)
    (h : At pkt p (rrBytes namePtr ty 0 d ++ Y)) :
    answerNull (rx pkt) B q p =
      .ok { q with rv := (min d.length B : Nat), buf := d.take (min d.length B), type := ty } := by
  obtain ⟨⟨w, hw⟩, hck, hrr, hat, hle⟩ := rr_front hl h12 hty (by omega) h
  have hck2 : checklenFails (rx pkt) d.length (p + 12) = false := by
    simp only [checklenFails, rx_plen, decide_eq_false_iff_not]; omega
  have hmin : min d.length rdataSize = d.length := by simp only [rdataSize]; omega
  have hrb := readBytes_at hl d hat
  unfold answerNull
  simp only [hw, bind_ok, hck, Bool.false_eq_true, if_false, hrr, rawRdata, hck2, hmin, readdata,
    show ¬ rdataSize < d.length by simp only [rdataSize]; omega, hrb]
  rw [if_pos (by omega)]
  rfl

/-! ### TXT -/

/-- `readtxtbin` over the character strings `cs`: everything when it fits `dstremain`, else the return value 0 -/
theorem readtxtbinGo_chunks {pkt : List Nat} (hl : pkt.length ≤ 65536) (dstcap : Nat) (cs : List (List Nat)) :
    ∀ (fuel src dstremain : Nat) (out Y : List Nat), (∀ c ∈ cs, c.length ≤ 255) →
      At pkt src (encLabels cs ++ Y) → cs.length ≤ fuel → out.length + dstremain ≤ dstcap →
      ∃ r, readtxtbinGo (rx pkt) dstcap fuel src (labLen cs) dstremain out = .ok r ∧
        (if cs.flatten.length ≤ dstremain then r = ((out ++ cs.flatten).length, src + labLen cs, out ++ cs.flatten)
         else r.1 = 0) := by
  induction cs with
  | nil =>
    intro fuel src dstremain out Y _ _ _ _
    unfold readtxtbinGo
    simp
  | cons c r ih =>
    intro fuel src dstremain out Y hc h hfuel hinv
    have hc0 := hc c (by simp)
    have h0 : At pkt src (c.length :: (c ++ (encLabels r ++ Y))) := by
      simpa [encLabels_cons, List.append_assoc] using h
    cases fuel with
    | zero => simp at hfuel
    | succ fuel =>
      unfold readtxtbinGo
      rw [if_neg (by simp [labLen_cons])]
      simp only [rx_get_at hl h0, bind_ok, labLen_cons]
      rw [if_neg (by omega)]
      by_cases hfit : c.length > dstremain
      · rw [if_pos hfit]
        refine ⟨_, rfl, ?_⟩
        rw [if_neg (by simp only [List.flatten_cons, List.length_append]; omega)]
      · rw [if_neg hfit]
        have h1 : At pkt (src + 1) (c ++ (encLabels r ++ Y)) := h0.tail
        simp only [readBytes_at hl c h1, bind_ok]
        rw [if_neg (by omega)]
        have h2 : At pkt (src + 1 + c.length) (encLabels r ++ Y) := h1.right
        obtain ⟨res, hres, hspec⟩ := ih fuel (src + 1 + c.length) (dstremain - c.length) (out ++ c) Y
          (fun x hx => hc x (by simp [hx])) h2 (by simp only [List.length_cons] at hfuel; omega)
          (by simp; omega)
        have e : c.length + 1 + labLen r - 1 - c.length = labLen r := by omega
        rw [e, hres]
        refine ⟨_, rfl, ?_⟩
        by_cases hf2 : r.flatten.length ≤ dstremain - c.length
        · rw [if_pos hf2] at hspec
          rw [if_pos (by simp only [List.flatten_cons, List.length_append]; omega), hspec]
          simp only [List.flatten_cons, List.append_assoc, Prod.mk.injEq, and_true, true_and]
          omega
        · rw [if_neg hf2] at hspec
          rw [if_neg (by simp only [List.flatten_cons, List.length_append]; omega)]
          exact hspec

theorem answerTxt_rt {pkt : List Nat} (hl : pkt.length ≤ 65536) (h12 : 12 < pkt.length) (B : Nat) (q : Decoded)
    {p ty : Nat} {cs : List (List Nat)} {Y : List Nat} (hty : ty < 65536) (hcs : ∀ c ∈ cs, c.length ≤ 255)
    (hrl : (encLabels cs).length < 65536) (hne : 1 ≤ cs.flatten.length)
    (h : At pkt p (rrBytes namePtr ty 0 (encLabels cs) ++ Y)) :
    answerTxt (rx pkt) B q p =
      .ok (if cs.flatten.length ≤ 4096 then
            { q with rv := (min cs.flatten.length B : Nat), buf := cs.flatten.take (min cs.flatten.length B), type := ty }
          else { q with rv := 0, type := ty }) := by
  obtain ⟨⟨w, hw⟩, hck, hrr, hat, hle⟩ := rr_front hl h12 hty hrl h
  have hlen : (encLabels cs).length = labLen cs := encLabels_length cs
  have hck2 : checklenFails (rx pkt) (encLabels cs).length (p + 12) = false := by
    simp only [checklenFails, rx_plen, decide_eq_false_iff_not]; omega
  obtain ⟨res, hres, hspec⟩ := readtxtbinGo_chunks hl rdataSize cs (labLen cs) (p + 12) rdataSize [] Y hcs hat
    (length_le_labLen' cs) (by simp)
  unfold answerTxt
  simp only [hw, bind_ok, hck, Bool.false_eq_true, if_false, hrr, hck2, readtxtbin]
  rw [hlen, hres]
  simp only [bind_ok]
  by_cases hfit : cs.flatten.length ≤ 4096
  · rw [if_pos (by simpa [rdataSize] using hfit)] at hspec
    rw [if_pos hfit, hspec]
    simp only [List.nil_append]
    rw [if_pos (by omega)]
  · rw [if_neg (by simpa [rdataSize] using hfit)] at hspec
    rw [if_neg hfit]
    obtain ⟨r1, r2, r3⟩ := res
    simp only at hspec
    subst hspec
    rfl

/-! ### CNAME (also the answer to an A question) -/

theorem cstr_append_nul (nm t : List Nat) (h : ∀ c ∈ nm, c ≠ 0) : cstr (nm ++ 0 :: t) = nm := by
  unfold cstr
  induction nm with
  | nil => simp
  | cons a r ih =>
    have ha : a ≠ 0 := h a (by simp)
    simp only [List.cons_append, List.takeWhile_cons, ha, ne_eq, not_false_eq_true, decide_true, if_true]
    rw [ih (fun c hc => h c (by simp [hc]))]

theorem cstr_self (nm : List Nat) (h : ∀ c ∈ nm, c ≠ 0) : cstr nm = nm := by
  unfold cstr
  induction nm with
  | nil => rfl
  | cons a r ih =>
    have ha : a ≠ 0 := h a (by simp)
    simp only [List.takeWhile_cons, ha, ne_eq, not_false_eq_true, decide_true, if_true]
    rw [ih (fun c hc => h c (by simp [hc]))]

theorem answerCname_rt {pkt : List Nat} (hl : pkt.length ≤ 65536) (h12 : 12 < pkt.length) (B : Nat) (q : Decoded)
    {p : Nat} {toks : List (List Nat)} {Y : List Nat} (hB : 255 ≤ B) (hok : LabelsOK toks)
    (hnz : ∀ c ∈ joinDots toks, c ≠ 0) (hlen : (joinDots toks).length ≤ 253) (hlab : labLen toks ≤ 254)
    (h : At pkt p (rrBytes namePtr 5 0 (encName toks) ++ Y)) :
    answerCname (rx pkt) B q p =
      .ok { q with rv := ((joinDots toks).length : Nat), buf := joinDots toks, type := 5 } := by
  have hel : (encName toks).length = labLen toks + 1 := by simp [encName, encLabels_length]
  obtain ⟨⟨w, hw⟩, hck, hrr, hat, hle⟩ := rr_front hl h12 (by omega) (by omega) h
  have hname := readname_labels hl 255 (p + 12) toks Y hok hat (by omega) (by omega)
  have h1 : (joinDots toks ++ [0]).take 255 = joinDots toks ++ [0] := List.take_of_length_le (by simp; omega)
  have h2 : cstr (joinDots toks ++ [0]) = joinDots toks := cstr_append_nul _ [] hnz
  have h3 : (joinDots toks).take B = joinDots toks := List.take_of_length_le (by omega)
  have h4 : (joinDots toks).take (B - 1) = joinDots toks := List.take_of_length_le (by omega)
  unfold answerCname
  simp only [hw, bind_ok, hck, Bool.false_eq_true, if_false, hrr, if_true, hname, h1, h2, h3, h4,
    cstr_self _ hnz]
  rw [if_neg (by omega)]

end Iodine.Wire
