import IodineModel.Props.C10
import IodineModel.Client.Tunnel
import IodineModel.Lemmas.WireRead
import IodineModel.Encoding
/-
C02 / wire — the client's query survives its own DNS encoding.

`Client.wireQuery id ty edns host` is `dns_encode(QR_QUERY)` of the client followed by the repository's own
`dns_decode(QR_QUERY)`.  The encoder side is characterised in Lemmas/WirePut.lean (`dnsEncodeQuery_ok`: exact
bytes); this file characterises the DECODER on those bytes: `readname` over the label encoding of a legal name
returns the dotted name again, the `readshort`s return type and class, the header gives the id.

Main results: `wireQuery_legal`, `legalName_of_legalAux`.
-/
namespace Iodine.C02L
open Iodine.Wire

/-! ### reads at a known position of the datagram -/

theorem plen_eq (b : RxBuf) : b.plen = b.pkt.toList.length := by
  simp [RxBuf.plen]

/-- the byte at index `i` of the datagram -/
theorem get_idx (b : RxBuf) (hcap : b.plen ≤ b.cap) (i x : Nat) (h : b.pkt.toList[i]? = some x) :
    b.get i = .ok x := by
  have hi : i < b.pkt.toList.length := by
    rcases Nat.lt_or_ge i b.pkt.toList.length with hlt | hge
    · exact hlt
    · rw [List.getElem?_eq_none hge] at h; cases h
  have hi' : i < b.plen := by rw [plen_eq]; exact hi
  rw [get_ok b hcap i hi', Array.getD_eq_getD_getElem?, ← Array.getElem?_toList, h]
  rfl

/-- the byte right behind the prefix `pre` -/
theorem get_at (b : RxBuf) (hcap : b.plen ≤ b.cap) (pre : List Nat) (x : Nat) (post : List Nat)
    (hL : b.pkt.toList = pre ++ x :: post) : b.get pre.length = .ok x := by
  apply get_idx b hcap
  rw [hL, List.getElem?_append_right (Nat.le_refl _)]
  simp

theorem lt_plen_at (b : RxBuf) (pre : List Nat) (x : Nat) (post : List Nat)
    (hL : b.pkt.toList = pre ++ x :: post) : pre.length < b.plen := by
  rw [plen_eq, hL]; simp

/-! ### the dotted text of a label list -/

/-- labels joined with dots -/
def joinDots : List (List Nat) → List Nat
  | [] => []
  | [l] => l
  | l :: l' :: ls => l ++ 46 :: joinDots (l' :: ls)

theorem joinDots_cons_cons (c : Nat) (l : List Nat) (ls : List (List Nat)) :
    joinDots ((c :: l) :: ls) = c :: joinDots (l :: ls) := by
  cases ls with
  | nil => rfl
  | cons l' ls => rfl

theorem joinDots_labels (s : List Nat) : joinDots (C10.labels s) = s := by
  induction s with
  | nil => rfl
  | cons c cs ih =>
    simp only [C10.labels]
    split
    · rename_i hc
      cases h : C10.labels cs with
      | nil => exact absurd h (C10.labels_ne_nil cs)
      | cons l ls =>
        rw [h] at ih
        simp only [joinDots, List.nil_append, ih, hc]
    · cases h : C10.labels cs with
      | nil => exact absurd h (C10.labels_ne_nil cs)
      | cons l ls =>
        rw [h] at ih
        simp only [joinDots_cons_cons, ih]

theorem joinDots_length (ls : List (List Nat)) (hne : ls ≠ []) : (joinDots ls).length + 2 = labLen ls + 1 := by
  induction ls with
  | nil => exact absurd rfl hne
  | cons l ls ih =>
    cases ls with
    | nil => simp [joinDots]
    | cons l' ls =>
      have := ih (by simp)
      simp only [joinDots, List.length_append, List.length_cons, labLen_cons] at this ⊢
      omega

/-! ### readname over an uncompressed name -/

theorem copyLabel_spec (b : RxBuf) (hcap : b.plen ≤ b.cap) (length : Nat) (l : List Nat) :
    ∀ (pre post out : List Nat), b.pkt.toList = pre ++ l ++ post → out.length + l.length < length →
      copyLabel b length l.length pre.length out = .ok (pre.length + l.length, out ++ l) := by
  induction l with
  | nil => intro pre post out _ _; simp [copyLabel]
  | cons x l ih =>
    intro pre post out hL hlen
    simp only [List.length_cons] at hlen
    have hL' : b.pkt.toList = pre ++ x :: (l ++ post) := by simpa using hL
    have hlt := lt_plen_at b pre x _ hL'
    have hget := get_at b hcap pre x _ hL'
    simp only [List.length_cons, copyLabel]
    rw [if_pos ⟨by omega, hlt⟩, hget]
    simp only [bind_ok]
    rw [push_ok x (by omega)]
    simp only [bind_ok]
    have := ih (pre ++ [x]) post (out ++ [x]) (by simpa using hL) (by simp; omega)
    simp only [List.length_append, List.length_cons, List.length_nil] at this
    rw [this]
    simp
    omega

theorem and_c0_of_le63 (c : Nat) (h : c ≤ 63) : c &&& 0xc0 = 0 := by
  have : ∀ c : Fin 64, c.val &&& 0xc0 = 0 := by decide
  exact this ⟨c, by omega⟩

theorem nameFinish_at (b : RxBuf) (length s : Nat) (out : List Nat) (hs : s < b.plen) (ho : out.length < length) :
    nameFinish b length s out = .ok (s + 1, out ++ [0]) := by
  simp only [nameFinish]
  rw [push_ok 0 ho]
  simp only [bind_ok, if_pos hs]

/-- `readname_loop` over explicit labels followed by the root byte: the dotted name, NUL-terminated; the new
`*src` is behind the root byte.  One unit of fuel per label. -/
theorem nameLoop_labels (b : RxBuf) (hcap : b.plen ≤ b.cap) (length : Nat)
    (rec : Nat → Nat → Except Fault (List Nat)) (src0 : Nat) (ls : List (List Nat)) :
    ∀ (pre post out : List Nat) (fuel : Nat), b.pkt.toList = pre ++ encLabels ls ++ 0 :: post →
      LabelsOK ls → ls.length ≤ fuel → out.length + (joinDots ls).length + 1 < length →
      nameLoop b length rec src0 fuel pre.length out =
        .ok (pre.length + labLen ls + 1, out ++ joinDots ls ++ [0]) := by
  induction ls with
  | nil =>
    intro pre post out fuel hL _ _ hlen
    have hL' : b.pkt.toList = pre ++ 0 :: post := by simpa using hL
    have hlt := lt_plen_at b pre 0 _ hL'
    have hget := get_at b hcap pre 0 _ hL'
    rw [nameLoop, if_neg (by omega), hget]
    simp only [bind_ok]
    rw [if_pos (Or.inl trivial), nameFinish_at b length _ out hlt (by omega)]
    simp [joinDots]
  | cons l ls ih =>
    intro pre post out fuel hL hok hfuel hlen
    have hl := hok l (by simp)
    obtain ⟨f, rfl⟩ : ∃ f, fuel = f + 1 := ⟨fuel - 1, by simp at hfuel; omega⟩
    have hL' : b.pkt.toList = pre ++ l.length :: (l ++ encLabels ls ++ 0 :: post) := by
      simpa using hL
    have hlt := lt_plen_at b pre l.length _ hL'
    have hget := get_at b hcap pre l.length _ hL'
    have hjl : l.length ≤ (joinDots (l :: ls)).length := by
      cases ls with
      | nil => simp [joinDots]
      | cons l' ls' => simp [joinDots]
    rw [nameLoop, if_neg (by omega), hget]
    simp only [bind_ok]
    rw [if_neg (by omega)]
    rw [if_neg (by rw [and_c0_of_le63 _ hl.2]; decide), if_neg (by rw [and_c0_of_le63 _ hl.2]; simp)]
    have hcopy := copyLabel_spec b hcap length l (pre ++ [l.length]) (encLabels ls ++ 0 :: post) out
      (by simpa using hL) (by omega)
    simp only [List.length_append, List.length_cons, List.length_nil, Nat.zero_add] at hcopy
    rw [hcopy]
    simp only [bind_ok]
    cases ls with
    | nil =>
      have hL2 : b.pkt.toList = (pre ++ l.length :: l) ++ 0 :: post := by simpa using hL
      have hlt2 := lt_plen_at b _ 0 _ hL2
      have hget2 := get_at b hcap _ 0 _ hL2
      simp only [List.length_append, List.length_cons] at hlt2 hget2
      simp only [joinDots] at hlen
      rw [if_neg (by simp; omega), if_pos (by omega), show pre.length + 1 + l.length = pre.length + (l.length + 1) by omega, hget2]
      simp only [bind_ok]
      rw [if_neg (by simp)]
      have := ih (pre ++ l.length :: l) post (out ++ l) f (by simpa using hL2) hok.tail (by simp)
        (by simp [joinDots]; omega)
      simp only [List.length_append, List.length_cons] at this
      rw [this]
      simp [joinDots] <;> omega
    | cons l' ls' =>
      have hl' := hok l' (by simp)
      have hL2 : b.pkt.toList = (pre ++ l.length :: l) ++ l'.length :: (l' ++ encLabels ls' ++ 0 :: post) := by
        simpa using hL
      have hlt2 := lt_plen_at b _ _ _ hL2
      have hget2 := get_at b hcap _ _ _ hL2
      simp only [List.length_append, List.length_cons] at hlt2 hget2
      simp only [joinDots, List.length_append, List.length_cons] at hlen
      rw [if_neg (by simp; omega), if_pos (by omega), show pre.length + 1 + l.length = pre.length + (l.length + 1) by omega, hget2]
      simp only [bind_ok]
      rw [if_pos (by omega), push_ok 46 (by simp; omega)]
      simp only [bind_ok]
      have := ih (pre ++ l.length :: l) post (out ++ l ++ [46]) f (by simpa using hL) hok.tail
        (by simp at hfuel ⊢; omega) (by simp; omega)
      simp only [List.length_append, List.length_cons] at this
      rw [this]
      simp [joinDots] <;> omega

/-- `readname` at the start of an uncompressed name whose dotted text fits the destination -/
theorem readname_enc (b : RxBuf) (hcap : b.plen ≤ b.cap) (length : Nat) (ls : List (List Nat))
    (pre post : List Nat) (hL : b.pkt.toList = pre ++ encName ls ++ post) (hok : LabelsOK ls)
    (hlen : (joinDots ls).length + 1 < length) (hl3 : 3 ≤ length) :
    readname b pre.length length = .ok (pre.length + labLen ls + 1, joinDots ls ++ [0]) := by
  have hL' : b.pkt.toList = pre ++ encLabels ls ++ 0 :: post := by simpa [encName] using hL
  have hfuel : ls.length ≤ b.plen := by
    have := length_le_labLen ls hok
    rw [plen_eq, hL']; simp; omega
  simp only [readname]
  rw [if_neg (by omega)]
  simp only [readnameLoop]
  rw [nameLoop_labels b hcap length _ _ ls pre post [] b.plen hL' hok hfuel (by simpa using hlen)]
  simp

/-! ### 16-bit values -/

theorem or_shift8 (a c : Nat) (hc : c < 256) : (a <<< 8) ||| c = a * 256 + c := by
  rw [← Nat.shiftLeft_add_eq_or_of_lt (by omega), Nat.shiftLeft_eq]

theorem be16_or (v : Nat) (hv : v < 65536) : ((v / 256 % 256) <<< 8) ||| (v % 256) = v := by
  rw [or_shift8 _ _ (by omega)]; omega

theorem readshort_at (b : RxBuf) (hcap : b.plen ≤ b.cap) (pre : List Nat) (v : Nat) (post : List Nat)
    (hv : v < 65536) (hL : b.pkt.toList = pre ++ be16 v ++ post) :
    readshort b pre.length = .ok (v, pre.length + 2) := by
  have h0 : b.pkt.toList = pre ++ (v / 256 % 256) :: (v % 256 :: post) := by simpa [be16] using hL
  have h1 : b.pkt.toList = (pre ++ [v / 256 % 256]) ++ (v % 256) :: post := by simpa [be16] using hL
  have g0 := get_at b hcap _ _ _ h0
  have g1 := get_at b hcap _ _ _ h1
  simp only [List.length_append, List.length_cons, List.length_nil, Nat.zero_add] at g1
  simp only [readshort, g0, g1, bind_ok, be16_or v hv, Nat.mod_eq_of_lt hv]

/-! ### dns_decode(QR_QUERY) on an encoded query -/

theorem cstr_append_nul (w : List Nat) (h : ∀ c ∈ w, c ≠ 0) : cstr (w ++ [0]) = w := by
  unfold cstr
  induction w with
  | nil => simp
  | cons a d ih =>
    have ha := h a (by simp)
    simp only [List.cons_append, List.takeWhile_cons, ne_eq, ha, not_false_eq_true, decide_true, if_true]
    rw [ih (fun c hc => h c (by simp [hc]))]

theorem readHeader_query (b : RxBuf) (hcap : b.plen ≤ b.cap) (id : Nat) (hid : id < 65536)
    (h6 h7 : Nat) (rest : List Nat)
    (hL : b.pkt.toList = id / 256 % 256 :: id % 256 :: 1 :: 0 :: 0 :: 1 :: h6 :: h7 :: rest) :
    ∃ an, readHeader b = .ok { id := id, qr := 0, rcode := 0, qdcount := 1, ancount := an } := by
  have g0 : b.get 0 = .ok (id / 256 % 256) := get_idx b hcap _ _ (by rw [hL]; rfl)
  have g1 : b.get 1 = .ok (id % 256) := get_idx b hcap _ _ (by rw [hL]; rfl)
  have g2 : b.get 2 = .ok 1 := get_idx b hcap _ _ (by rw [hL]; rfl)
  have g3 : b.get 3 = .ok 0 := get_idx b hcap _ _ (by rw [hL]; rfl)
  have g4 : b.get 4 = .ok 0 := get_idx b hcap _ _ (by rw [hL]; rfl)
  have g5 : b.get 5 = .ok 1 := get_idx b hcap _ _ (by rw [hL]; rfl)
  have g6 : b.get 6 = .ok h6 := get_idx b hcap _ _ (by rw [hL]; rfl)
  have g7 : b.get 7 = .ok h7 := get_idx b hcap _ _ (by rw [hL]; rfl)
  refine ⟨sshort ((h6 <<< 8) ||| h7), ?_⟩
  simp only [readHeader, g0, g1, g2, g3, g4, g5, g6, g7, bind_ok, be16_or id hid]
  have hm : id &&& 0xffff = id := by
    have := Nat.and_two_pow_sub_one_eq_mod id 16
    simp only [show (2 : Nat) ^ 16 - 1 = 0xffff by decide, show (2 : Nat) ^ 16 = 65536 by decide] at this
    rw [this, Nat.mod_eq_of_lt hid]
  rw [hm]
  rfl

/-- The decoder on "header (query, one question), uncompressed name, type, class, anything": the id, the
type and the dotted name. -/
theorem dnsDecodeQuery_enc (b : RxBuf) (hcap : b.plen ≤ b.cap) (id ty : Nat) (hid : id < 65536) (hty : ty < 65536)
    (h6 h7 h8 h9 h10 h11 cls : Nat) (ls : List (List Nat)) (post : List Nat)
    (hL : b.pkt.toList = [id / 256 % 256, id % 256, 1, 0, 0, 1, h6, h7, h8, h9, h10, h11] ++
      (encName ls ++ (be16 ty ++ (be16 cls ++ post))))
    (hcls : cls < 65536) (hok : LabelsOK ls) (hlen : (joinDots ls).length ≤ 253) (hnz : ∀ c ∈ joinDots ls, c ≠ 0) :
    ∃ d, dnsDecodeQuery b = .ok d ∧ d.id = id ∧ d.type = ty ∧ d.name = joinDots ls := by
  obtain ⟨an, hh⟩ := readHeader_query b hcap id hid h6 h7
    (h8 :: h9 :: h10 :: h11 :: (encName ls ++ (be16 ty ++ (be16 cls ++ post)))) (by simpa using hL)
  have hplen : b.plen = 12 + (labLen ls + 1) + 4 + post.length := by
    rw [plen_eq, hL]; simp; omega
  have hname := readname_enc b hcap 255 ls [id / 256 % 256, id % 256, 1, 0, 0, 1, h6, h7, h8, h9, h10, h11]
    (be16 ty ++ (be16 cls ++ post)) (by simpa using hL) hok (by omega) (by omega)
  have hty' := readshort_at b hcap
    ([id / 256 % 256, id % 256, 1, 0, 0, 1, h6, h7, h8, h9, h10, h11] ++ encName ls) ty (be16 cls ++ post) hty
    (by simpa using hL)
  have hcl' := readshort_at b hcap
    ([id / 256 % 256, id % 256, 1, 0, 0, 1, h6, h7, h8, h9, h10, h11] ++ encName ls ++ be16 ty) cls post hcls
    (by simpa using hL)
  simp only [List.length_cons, List.length_nil, List.length_append, encName_length, Iodine.Wire.Put.be16_length] at hname hty' hcl'
  simp only [Nat.zero_add, Nat.reduceAdd] at hname hty' hcl'
  refine ⟨{ rv := ((((cstr ((joinDots ls ++ [0]).take 255)).take 256).take 255).length : Nat), id := id, type := ty, rcode := 0,
            name := ((cstr ((joinDots ls ++ [0]).take 255)).take 256).take 255, buf := [] }, ?_, rfl, rfl, ?_⟩
  · unfold dnsDecodeQuery
    rw [if_neg (by omega), hh]
    simp only [bind_ok]
    rw [if_neg (by simp), if_neg (by simp), hname]
    simp only [bind_ok]
    rw [if_neg (by
      have h1 : (joinDots ls ++ [0]).take 255 = joinDots ls ++ [0] := List.take_of_length_le (by simp; omega)
      rw [h1, cstr_append_nul _ hnz]; omega)]
    rw [show checklenFails b 4 (12 + labLen ls + 1) = false by simp [checklenFails]; omega]
    simp only [Bool.false_eq_true, if_false]
    rw [show 12 + labLen ls + 1 = 12 + (labLen ls + 1) by omega, hty']
    simp only [bind_ok]
    rw [hcl']
    simp only [bind_ok]
  · have h1 : (joinDots ls ++ [0]).take 255 = joinDots ls ++ [0] :=
      List.take_of_length_le (by simp; omega)
    simp only [h1, cstr_append_nul _ hnz]
    rw [List.take_of_length_le (l := joinDots ls) (by omega), List.take_of_length_le (by omega)]

/-! ### the client's query -/

/-- **wireQuery_legal.**  For every legal host name the client's `dns_encode(QR_QUERY)` (4096-byte buffer, with or
without the EDNS0 record) followed by the repository's own `dns_decode(QR_QUERY)` gives back exactly the id, the
type and the name. -/
theorem wireQuery_legal (id ty : Nat) (edns : Bool) (host : List Nat)
    (hid : id < 65536) (hty : ty < 65536) (hn : C10.LegalName host) :
    Client.wireQuery id ty edns host = some (.query id ty host) := by
  have nf := C10.nameFacts hn
  have h253 := nf.le253
  have henc := Wire.DnsEncode.dnsEncodeQuery_ok 4096 id ty edns host nf.le63 (by split <;> omega)
  rw [nf.tok] at henc
  have hjoin := joinDots_labels host
  -- the decoder on these bytes
  obtain ⟨d, hd, hdid, hdty, hdname⟩ := dnsDecodeQuery_enc
    { pkt := (be16 id ++ [0x01, 0] ++ be16 1 ++ be16 0 ++ be16 0 ++ be16 (if edns then 1 else 0) ++
        (Wire.DnsEncode.qBytes (C10.labels host) ty ++ (if edns then Wire.DnsEncode.optBytes else []))).toArray }
    (by
      show List.length _ ≤ 65536
      cases edns <;> simp [nf.len, Wire.DnsEncode.optBytes] <;> omega)
    id ty hid hty 0 0 0 0 ((if edns then 1 else 0) / 256 % 256) ((if edns then 1 else 0) % 256) 1
    (C10.labels host) (if edns then Wire.DnsEncode.optBytes else [])
    (by simp [be16, Wire.DnsEncode.qBytes])
    (by omega) nf.ok (by rw [hjoin]; exact h253) (by rw [hjoin]; exact fun c hc => (hn.2.1 c hc).1)
  unfold Client.wireQuery
  rw [henc]
  simp only []
  rw [if_neg (by simp [be16]), hd]
  simp only [hdid, hdty, hdname, hjoin]

/-- non-vacuity: a concrete run (EDNS0 on and off) -/
example : Client.wireQuery 7727 10 true [48, 97, 98, 46, 116, 46, 97, 98] =
    some (.query 7727 10 [48, 97, 98, 46, 116, 46, 97, 98]) := by decide +kernel
example : C10.LegalName [48, 97, 98, 46, 116, 46, 97, 98] := by decide
example := wireQuery_legal 65535 65399 false [48, 97, 98, 46, 116, 46, 97, 98] (by decide) (by decide) (by decide)

/-- the boundary: a name of the maximal length 253 (labels 63.63.63.61) still comes back unchanged — `readname`
is called with `length = 255`, its loop test `len < length - 2` lets a label start up to `len = 252`. -/
def maxName : List Nat :=
  List.replicate 63 97 ++ 46 :: (List.replicate 63 98 ++ 46 :: (List.replicate 63 99 ++ 46 :: List.replicate 61 100))
example : maxName.length = 253 ∧ C10.LegalName maxName := by decide +kernel
example : Client.wireQuery 7727 10 true maxName = some (.query 7727 10 maxName) :=
  wireQuery_legal 7727 10 true maxName (by decide) (by decide) (by decide +kernel)

/-! ### the bridge from `Encoding.legalAux` -/

theorem legalAux_split (n : List Nat) : ∀ k, Encoding.legalAux k n = true →
    1 ≤ k + (Wire.Put.splitDot n).1.length ∧ k + (Wire.Put.splitDot n).1.length ≤ 63 ∧
      ∀ l ∈ (Wire.Put.splitDot n).2, 1 ≤ l.length ∧ l.length ≤ 63 := by
  induction n with
  | nil =>
    intro k h
    simp only [Encoding.legalAux, decide_eq_true_eq] at h
    simp [Wire.Put.splitDot, h]
  | cons c cs ih =>
    intro k h
    simp only [Encoding.legalAux] at h
    simp only [Wire.Put.splitDot]
    by_cases hc : c = 46
    · rw [if_pos (show c = Encoding.DOT from hc)] at h
      simp only [Bool.and_eq_true, decide_eq_true_eq] at h
      have := ih 0 h.2
      rw [if_pos hc]
      refine ⟨by simp; omega, by simp; omega, ?_⟩
      intro l hl
      simp only [List.mem_cons] at hl
      rcases hl with rfl | hl
      · omega
      · exact this.2.2 l hl
    · rw [if_neg (show ¬ c = Encoding.DOT from hc)] at h
      have := ih (k + 1) h
      rw [if_neg hc]
      simp only [List.length_cons]
      exact ⟨by omega, by omega, this.2.2⟩

/-- **legalName_of_legalAux.**  The predicate the name builders are specified with (every piece between dots
has 1..63 characters), together with the length and character-set bounds, is `C10.LegalName`. -/
theorem legalName_of_legalAux (n : List Nat) (h1 : Encoding.legalAux 0 n = true) (h2 : n.length ≤ 253)
    (h3 : ∀ c ∈ n, c ≠ 0 ∧ c < 256) : C10.LegalName n := by
  refine ⟨h2, h3, ?_⟩
  have := legalAux_split n 0 h1
  rw [C10.labels_eq_split]
  intro l hl
  simp only [List.mem_cons] at hl
  rcases hl with rfl | hl
  · omega
  · exact this.2.2 l hl

example : C10.LegalName [97, 98, 46, 116] :=
  legalName_of_legalAux [97, 98, 46, 116] (by decide) (by decide) (by decide)

end Iodine.C02L
