import IodineModel.Lemmas.C02d8
/-
Downstream transfer in immediate mode, world level: the joint invariants and the first step (`offerS`).
-/
namespace Iodine.C02L
open Iodine Iodine.Gen Iodine.World

/-- a downstream packet `out` (seqno `sq`) was handed to the server, nothing of it was sent yet, nothing is in flight -/
structure DownIdle (P : Par) (out : List Nat) (w : W) (sq : Int) : Prop where
  ph : w.cs.ph = .tunnel
  cst : CStat P w.cs.c
  idleC : Client.isSending w.cs.c = false
  up : w.up = []
  down : w.down = []
  srv : DownSrv P w.srv out sq 0 0 0
  res0 : (Server.getUser w.srv P.u).outfragresent = 0
  exp : sq = (w.cs.c.inpkt.seqno + 1) % 8
  syncu : (Server.getUser w.srv P.u).inpacket.seqno = w.cs.c.outpkt.seqno
  aged : Aged P (Server.getUser w.srv P.u) w.cs.c.datacmc 1
  paged : PAged P (Server.getUser w.srv P.u) w.cs.c.randSeed 1

/-- the client (`c0` = its state before the ping) has `o + m` bytes (fragments `0..f`) and its ping acknowledging
fragment `f` is on its way; the server still has fragment `f` (`m` bytes at offset `o`) in flight -/
structure DownPing (P : Par) (out : List Nat) (w : W) (c0 : Client.Cli) (sq : Int) (o m f : Nat) : Prop where
  ph : w.cs.ph = .tunnel
  c0st : CStat P c0
  c0idle : Client.isSending c0 = false
  cli : w.cs.c = pingState c0
  up : w.up = upOfEvents (Client.sendPing c0).evs
  down : w.down = []
  have_ : c0.inpkt.seqno = sq ∧ c0.inpkt.fragment = (f : Int) ∧ c0.inpkt.len = o + m ∧ c0.inpkt.data.take (o + m) = out.take (o + m)
  srv : DownSrv P w.srv out sq o m f
  hm : 0 < m
  hlt : o + m < out.length
  syncu : (Server.getUser w.srv P.u).inpacket.seqno = c0.outpkt.seqno
  aged : Aged P (Server.getUser w.srv P.u) c0.datacmc 1
  paged : PAged P (Server.getUser w.srv P.u) c0.randSeed 1

/-- the client has delivered the packet (last fragment `f`); the server does not know yet; nothing is in flight -/
structure DownDelivered (P : Par) (out : List Nat) (w : W) (sq : Int) (o m f : Nat) : Prop where
  ph : w.cs.ph = .tunnel
  cst : CStat P w.cs.c
  idleC : Client.isSending w.cs.c = false
  sps : w.cs.c.sendPingSoon = 5
  up : w.up = []
  down : w.down = []
  have_ : w.cs.c.inpkt.seqno = sq ∧ w.cs.c.inpkt.fragment = (f : Int)
  srv : DownSrv P w.srv out sq o m f
  hm : 0 < m
  heq : o + m = out.length
  syncu : (Server.getUser w.srv P.u).inpacket.seqno = w.cs.c.outpkt.seqno
  aged : Aged P (Server.getUser w.srv P.u) w.cs.c.datacmc 1
  paged : PAged P (Server.getUser w.srv P.u) w.cs.c.randSeed 1

theorem tunSelS_idle {P : Par} {s : Server.Srv} (hS : SStat P s) (hoq : (Server.getUser s P.u).oqFilled = 0) :
    (Server.topOfLoop s).2.2 = true := by
  have hst := topOfLoop_state hS.solo
  have htop := topSess_live hS
  have e : topSess (Server.getUser s P.u) s.now =
      (if Server.live (Server.getUser s P.u) s.now then { Server.getUser s P.u with qsNew := false } else Server.getUser s P.u) := rfl
  rw [← e, htop] at hst
  show (!Server.allUsersWaitingToSend (Server.topOfLoop s).1) = true
  rw [hst, allWaiting_solo (hS.solo.putUser _), getUser_putUser_self _ _ _ hS.solo.lt]
  have hl : Server.live ({ Server.getUser s P.u with qsNew := false } : Server.Session) (putUser s P.u { Server.getUser s P.u with qsNew := false }).now = true := by
    show Server.live _ s.now = true
    simp [Server.live, hS.x.active, hS.x.enabled, hS.live]
  rw [hl]
  simp [hS.x.conn, hoq]

theorem step_offerS (w : W) (f : List Nat) (h : tunSelS w = true) : step w (.offerS f) = stepS w (.tun f) 0 := by
  simp [step, h]

/-- `offerS`: the frame is read from the server's tun device and becomes the outpacket -/
theorem down_offer {P : Par} (hP : P.Ok) {w : W} (hq : QuietImm P w) (frame : List Nat) (h24 : 24 ≤ frame.length)
    (hl : frame.length < 65536) (hdst : Server.ipDst frame = (Server.getUser w.srv P.u).tunIp)
    (hF : 0 < (Server.getUser w.srv P.u).fragsize) :
    ∃ w1, step w (.offerS frame) = w1 ∧ DownIdle P (0x5a :: frame) w1 ((w.cs.c.inpkt.seqno + 1) % 8) ∧
      w1.tunS = w.tunS ∧ w1.tunC = w.tunC ∧ (Server.getUser w1.srv P.u).tunIp = (Server.getUser w.srv P.u).tunIp ∧
      (Server.getUser w1.srv P.u).fragsize = (Server.getUser w.srv P.u).fragsize ∧ w1.srv.now = w.srv.now ∧
      (Server.getUser w1.srv P.u).lastPkt = (Server.getUser w.srv P.u).lastPkt ∧ w1.cs = w.cs := by
  have hS := hq.srv
  have hu := hS.solo.lt
  have hsel : tunSelS w = true := tunSelS_idle hS hq.oq
  have htop := topSess_live hS
  generalize hx0 : ({ Server.getUser w.srv P.u with qsNew := false } : Server.Session) = x0 at htop
  have ht : frame.take 65536 = frame := List.take_of_length_le (by omega)
  have hs1 : Solo P.u { putUser w.srv P.u x0 with now := w.srv.now } := (hS.solo.putUser x0).withNow _
  have hg1 : Server.getUser { putUser w.srv P.u x0 with now := w.srv.now } P.u = x0 := by
    rw [getUser_withNow, getUser_putUser_self _ _ _ hu]
  have htt : Server.tunnelTun { putUser w.srv P.u x0 with now := w.srv.now } (frame.take 65536) =
      ({ putUser w.srv P.u (startOut x0 (Server.compress frame) (Server.compress frame).length) with now := w.srv.now }, []) := by
    rw [ht, tunnelTun_start hs1 frame h24 (by
        rw [hg1]; subst hx0
        exact ⟨hS.x.active, hS.x.auth, hS.x.enabled, by show (Server.getUser w.srv P.u).lastPkt + 60 > w.srv.now; have := hS.live; omega, hdst⟩)
      (by rw [hg1]; subst hx0; exact hS.x.conn) (by rw [hg1]; subst hx0; exact hq.idle.out)
      (by rw [hg1]; subst hx0; exact hq.idle.q) (by rw [hg1]; subst hx0; exact hq.idle.qs), hg1]
    rw [putUser_withNow, putUser_putUser]
  generalize hy : startOut x0 (Server.compress frame) (Server.compress frame).length = y at htt
  have hit := iteration_tun hS.solo frame w.srv.now y [] (by exact hsel) (by rw [htop]; exact htt)
  have hyqs : y.qs.id = 0 := by subst hy; subst hx0; exact hq.idle.qs
  have hsw : sweepSess y P.u w.srv.now = (y, []) := by
    unfold sweepSess
    rw [if_neg (by intro hc; exact hc.2.1 hyqs)]
  rw [hsw] at hit
  dsimp only at hit
  have hclen : (Server.compress frame).length = frame.length + 1 := by simp [Server.compress]
  have hyop : y.outpacket = ⟨(0x5a :: frame).length, 0, 0, 0x5a :: frame, ((w.cs.c.inpkt.seqno + 1) % 8), 0⟩ := by
    subst hy
    unfold startOut
    simp only [hclen, PACKET_DATA_SIZE]
    have h1 : min (frame.length + 1) 65536 = frame.length + 1 := by omega
    rw [h1]
    have h2 : (Server.compress frame).take (frame.length + 1) = 0x5a :: frame := by
      unfold Server.compress
      exact List.take_of_length_le (by simp)
    rw [h2]
    subst hx0
    simp only [List.length_cons]
    congr 1
    show ((Server.getUser w.srv P.u).outpacket.seqno + 1) % 8 = _
    rw [hq.syncd]
  have hg : Server.getUser { putUser w.srv P.u y with now := w.srv.now } P.u = y := by
    rw [getUser_withNow, getUser_putUser_self _ _ _ hu]
  refine ⟨_, rfl, ?_, ?_, ?_, ?_, ?_, ?_, ?_, ?_⟩
  · rw [step_offerS w frame hsel, stepS_zero w _ _ _ _ hit]
    refine ⟨hq.ph, hq.cst, hq.idleC, by simp [hq.up], by simp [hq.down, downOfEvents], ?_, ?_, rfl, ?_, ?_, ?_⟩
    · refine ⟨⟨(hS.solo.putUser y).withNow _, hS.td, ?_, ?_, ?_⟩, ?_, ?_, ?_, ?_, ?_, ?_, ?_⟩
      · show XStat P (Server.getUser { putUser w.srv P.u y with now := w.srv.now } P.u)
        rw [hg]
        refine ⟨?_, ?_, ?_, ?_, ?_, ?_, ?_, ?_, ?_⟩
        · subst hy; subst hx0; exact hS.x.active
        · subst hy; subst hx0; exact hS.x.auth
        · subst hy; subst hx0; exact hS.x.enabled
        · subst hy; subst hx0; exact hS.x.conn
        · subst hy; subst hx0; exact hS.x.enc
        · rw [hyop]; show 0 ≤ (w.cs.c.inpkt.seqno + 1) % 8 ∧ (w.cs.c.inpkt.seqno + 1) % 8 < 8; omega
        · rw [hyop]; show (0 : Int) ≤ 0 ∧ (0 : Int) < 16; omega
        · subst hy; subst hx0; exact hS.x.iseq
        · subst hy; subst hx0; exact hS.x.ifrag
      · show _ ∨ ((Server.getUser { putUser w.srv P.u y with now := w.srv.now } P.u).host.fam = 4 ∧ _)
        rw [hg]; subst hy; subst hx0; exact hS.host
      · show w.srv.now < (Server.getUser { putUser w.srv P.u y with now := w.srv.now } P.u).lastPkt + 60
        rw [hg]; subst hy; subst hx0; exact hS.live
      · show (Server.getUser { putUser w.srv P.u y with now := w.srv.now } P.u).q.id = 0
        rw [hg]; subst hy; subst hx0; exact hq.idle.q
      · show (Server.getUser { putUser w.srv P.u y with now := w.srv.now } P.u).qs.id = 0
        rw [hg]; exact hyqs
      · show (Server.getUser { putUser w.srv P.u y with now := w.srv.now } P.u).lazy = false
        rw [hg]; subst hy; subst hx0; exact hq.idle.lazy
      · show (Server.getUser { putUser w.srv P.u y with now := w.srv.now } P.u).oqFilled = 0
        rw [hg]; subst hy; subst hx0; exact hq.oq
      · show (Server.getUser { putUser w.srv P.u y with now := w.srv.now } P.u).outpacket = _
        rw [hg, hyop]
        rfl
      · show (Server.getUser { putUser w.srv P.u y with now := w.srv.now } P.u).outfragresent ≤ 1
        rw [hg]; subst hy; show 0 ≤ 1; omega
      · show 0 < (Server.getUser { putUser w.srv P.u y with now := w.srv.now } P.u).fragsize
        rw [hg]; subst hy; subst hx0; exact hF
    · show (Server.getUser { putUser w.srv P.u y with now := w.srv.now } P.u).outfragresent = 0
      rw [hg]; subst hy; rfl
    · show (Server.getUser { putUser w.srv P.u y with now := w.srv.now } P.u).inpacket.seqno = _
      rw [hg]; subst hy; subst hx0; exact hq.syncu
    · show Aged P (Server.getUser { putUser w.srv P.u y with now := w.srv.now } P.u) _ 1
      rw [hg]; subst hy; subst hx0; exact hq.aged.congr rfl rfl rfl rfl
    · show PAged P (Server.getUser { putUser w.srv P.u y with now := w.srv.now } P.u) _ 1
      rw [hg]; subst hy; subst hx0; exact hq.paged.congr rfl rfl rfl rfl
  · rw [step_offerS w frame hsel, stepS_zero w _ _ _ _ hit]; simp [tunOfSEvents]
  · rw [step_offerS w frame hsel, stepS_zero w _ _ _ _ hit]
  · rw [step_offerS w frame hsel, stepS_zero w _ _ _ _ hit]
    show (Server.getUser { putUser w.srv P.u y with now := w.srv.now } P.u).tunIp = _
    rw [hg]; subst hy; subst hx0; rfl
  · rw [step_offerS w frame hsel, stepS_zero w _ _ _ _ hit]
    show (Server.getUser { putUser w.srv P.u y with now := w.srv.now } P.u).fragsize = _
    rw [hg]; subst hy; subst hx0; rfl
  · rw [step_offerS w frame hsel, stepS_zero w _ _ _ _ hit]
  · rw [step_offerS w frame hsel, stepS_zero w _ _ _ _ hit]
    show (Server.getUser { putUser w.srv P.u y with now := w.srv.now } P.u).lastPkt = _
    rw [hg]; subst hy; subst hx0; rfl
  · rw [step_offerS w frame hsel, stepS_zero w _ _ _ _ hit]

end Iodine.C02L
