import IodineModel.Lemmas.C02qU1
import IodineModel.Lemmas.C02d15
/-
C02, phase 2 — a ping reaches the IDLE server in immediate mode (nothing being sent downstream): answered at once with a
dataless packet; nothing moves but `last_pkt` and the memories.  (The version of `srv_ping_imm` that needs no bound on the
resend counter.)
-/
namespace Iodine.C02L
open Iodine Iodine.Gen Iodine.Server Iodine.World

theorem ackSess_idle (x : Session) (a b : Int) (h : x.outpacket.len = 0) : ackSess x a b = x := by
  simp [ackSess, h]

theorem srv_ping_idle {P : Par} (hP : P.Ok) {s : Srv} (hS : SStat P s) (hi : IdleImm (getUser s P.u))
    (hoq : (getUser s P.u).oqFilled = 0)
    {Q : Query} {a b : Int} {sd : Nat} (hQ : PingQ P Q a b sd)
    {k sl sp : Nat} (hA : Aged P (getUser s P.u) k sl) (hPA : PAged P (getUser s P.u) sd sp)
    (hsp : 1 ≤ sp ∧ sp ≤ 999 := by omega) :
    ∃ s' evs t pkt, iteration s (.q Q) s.now = (s', evs, t) ∧ downOfEvents evs = [.ans Q.id Q.type Q.name pkt] ∧
      tunOfSEvents evs = [] ∧ AfterDup P s s' pkt ∧
      Aged P (getUser s' P.u) k sl ∧ PAged P (getUser s' P.u) ((sd + 1) % 65536) sp := by
  obtain ⟨dlen, hdl, h2, h4, huid, ha, hb, hc2, hc3⟩ := hQ.parse
  obtain ⟨cp, hcp, hfl, hf2, hf3⟩ := hQ.fp
  have htop := topSess_live hS
  have hu := hS.solo.lt
  generalize hx0 : ({ getUser s P.u with qsNew := false } : Session) = x0 at htop
  have hx0s : XStat P x0 := by subst hx0; exact ⟨hS.x.active, hS.x.auth, hS.x.enabled, hS.x.conn, hS.x.enc, hS.x.oseq, hS.x.ofrag, hS.x.iseq, hS.x.ifrag⟩
  have hx0i : IdleImm x0 := by subst hx0; exact ⟨hi.out, hi.q, hi.qs, hi.lazy⟩
  have hx0oq : x0.oqFilled = 0 := by subst hx0; exact hoq
  have hx0A : Aged P x0 k sl := by subst hx0; exact hA.congr rfl rfl rfl rfl
  have hx0P : PAged P x0 sd sp := by subst hx0; exact hPA.congr rfl rfl rfl rfl
  have hx0n : x0.inpacket = (getUser s P.u).inpacket := by subst hx0; rfl
  have hx0o : x0.outpacket = (getUser s P.u).outpacket := by subst hx0; rfl
  have hx0h : x0.host = (getUser s P.u).host := by subst hx0; rfl
  have hx0q : x0.oqFilled = (getUser s P.u).oqFilled := by subst hx0; rfl
  have hx0t : x0.tunIp = (getUser s P.u).tunIp := by subst hx0; rfl
  have hx0g : x0.fragsize = (getUser s P.u).fragsize := by subst hx0; rfl
  have hit := iteration_ping hS.solo Q s.now dlen (by rw [hS.td]; exact hdl) h2 hQ.c0 (hQ.ty ▸ hP.tty) hQ.id h4 huid
    (admitted_entry hS Q hQ.from_)
    (by rw [htop]; exact hx0P.cacheMiss hQ.sdlt (by omega) Q hQ.ty hQ.c0 hQ.seed)
    (by rw [htop]; exact hx0P.qmemMiss hQ.sdlt (by omega) Q hQ.ty _ hc2 hc3)
    (by rw [htop]; exact Or.inl hx0i.q) (by rw [htop]; exact Or.inl hx0i.qs)
  rw [htop, ha, hb, pingSess_imm x0 P.u Q a b s.now hx0i.q hx0i.qs hx0i.lazy hx0oq, ackSess_idle x0 a b hx0i.out] at hit
  rw [scSess_dataless _ _ _ (by simp [saveQ, hx0i.out]) (by simp [QSel.get, saveQ, hQ.id2])] at hit
  simp only [QSel.get, QSel.set] at hit
  generalize hy : saveQ x0 Q s.now = y at hit
  have hyq : y.q = Q := by subst hy; rfl
  have hyc : core y = core { x0 with q := Q, lastPkt := s.now } := by
    subst hy; unfold saveQ; rfl
  rw [hyq] at hit
  generalize hY : ({ cacheUpd (qmemUpd y Q) Q (scPkt y 0) with q := { Q with id := 0 } } : Session) = Y at hit
  have hYc : core Y = core { y with q := { Q with id := 0 } } := by
    subst hY
    have := core_memo y Q (scPkt y 0)
    unfold core at this ⊢
    simp only [Session.mk.injEq] at this ⊢
    simp [this]
  have hqs : Y.qs.id = 0 := by
    have h1 : Y.qs = y.qs := by have := core_qs hYc; exact this
    have h2 : y.qs = x0.qs := by have := core_qs hyc; exact this
    rw [h1, h2]; exact hx0i.qs
  have hsw : sweepSess Y P.u s.now = (Y, []) := by
    unfold sweepSess
    rw [if_neg (by intro hc; exact hc.2.1 hqs)]
  rw [hsw] at hit
  have hg : getUser { putUser s P.u Y with now := s.now } P.u = Y := by
    rw [getUser_withNow, getUser_putUser_self _ _ _ hu]
  have hdn : y.downenc = x0.downenc := by subst hy; rfl
  refine ⟨_, _, _, scPkt y 0, hit, ?_, ?_, ?_, ?_, ?_⟩
  · simp only [List.append_nil, downOfEvents_append, downOfEvents_sweep, downOfEvents_writeDns _ _ _ _ hQ.from_]
  · simp only [List.append_nil, tunOfSEvents_append, tunOfSEvents_writeDns, tunOfSEvents_sweep]
  · have c1 : core Y = core { x0 with q := { Q with id := 0 }, lastPkt := s.now } := by
      rw [hYc]
      have := hyc
      unfold core at this ⊢
      simp only [Session.mk.injEq] at this ⊢
      simp [this]
    have fA : Y.active = x0.active := by have := core_active c1; exact this
    have fB : Y.authenticated = x0.authenticated := by have := core_authenticated c1; exact this
    have fC : Y.disabled = x0.disabled := by have := core_disabled c1; exact this
    have fD : Y.conn = x0.conn := by have := core_conn c1; exact this
    have fE : Y.encoder = x0.encoder := by have := core_encoder c1; exact this
    have fF : Y.outpacket = x0.outpacket := by have := core_outpacket c1; exact this
    have fG : Y.inpacket = x0.inpacket := by have := core_inpacket c1; exact this
    have fH : Y.q = { Q with id := 0 } := by have := core_q c1; exact this
    have fI : Y.qs = x0.qs := by have := core_qs c1; exact this
    have fJ : Y.lazy = x0.lazy := by have := core_lazy c1; exact this
    have fK : Y.host = x0.host := by have := core_host c1; exact this
    have fL : Y.lastPkt = s.now := by have := core_lastPkt c1; exact this
    have fQ : Y.oqFilled = x0.oqFilled := by have := core_oqFilled c1; exact this
    have fT : Y.tunIp = x0.tunIp := by have := core_tunIp c1; exact this
    have fGz : Y.fragsize = x0.fragsize := by have := core_fragsize c1; exact this
    refine ⟨?_, ?_, ?_, ?_, ?_, ?_, ?_, rfl, ?_, ?_⟩
    · refine ⟨(hS.solo.putUser Y).withNow _, hS.td, ?_, ?_, ?_⟩
      · rw [hg]
        exact ⟨fA ▸ hx0s.active, fB ▸ hx0s.auth, fC ▸ hx0s.enabled, fD ▸ hx0s.conn, fE ▸ hx0s.enc, fF ▸ hx0s.oseq, fF ▸ hx0s.ofrag,
          fG ▸ hx0s.iseq, fG ▸ hx0s.ifrag⟩
      · rw [hg, fK, hx0h]; exact hS.host
      · rw [hg, fL]; show s.now < s.now + 60; omega
    · rw [hg]
      exact ⟨fF ▸ hx0i.out, by rw [fH], fI ▸ hx0i.qs, fJ ▸ hx0i.lazy⟩
    · rw [hg, fG, hx0n]
    · rw [hg, fF, hx0o]
    · rw [hg, fQ, hx0q]
    · rw [hg, fT, hx0t]
    · rw [hg, fGz, hx0g]
    · rw [hg, fL]
    · refine ⟨y, rfl, ?_, ?_⟩
      · have : y.outpacket = x0.outpacket := by have h9 := core_outpacket hyc; exact h9
        rw [this, hx0o]
      · have : y.inpacket = x0.inpacket := by have h9 := core_inpacket hyc; exact h9
        rw [this, hx0n]
  · rw [hg]
    subst hY
    have hyA : Aged P y k sl := by subst hy; exact hx0A.congr rfl rfl rfl rfl
    have := hyA.memo_ping hP.hu Q (scPkt y 0) (scPkt0_len y) hQ.c0 cp hcp hfl
    exact this.congr rfl rfl rfl rfl
  · rw [hg]
    subst hY
    have hyP : PAged P y sd sp := by subst hy; exact hx0P.congr rfl rfl rfl rfl
    have := (hyP.step hQ.sdlt (by omega)).memo Q (scPkt y 0) (scPkt0_len y) sd 1 ⟨by omega, by omega⟩ (behind_next16 sd hQ.sdlt) hQ.c0 cp hcp hfl hf2 hf3 hQ.seed
    exact this.congr rfl rfl rfl rfl

end Iodine.C02L
