import IodineModel.Lemmas.C02t
import IodineModel.Lemmas.C02qU7
/-
TESTS, part 5 — the sequence-number window after give-ups (finding c02:seqno-window), evaluated by the kernel on the
executable joined model.  `giveUps k w`: `k` frames offered to the client one after the other while every UPSTREAM datagram
is lost (`blackoutEvUp`; each run goes on until the client is idle again: 3 resends, give-up, ping — all lost).  Then the
clean prompt path: six more frames.
-/
namespace Iodine.C02L
open Iodine Iodine.World

/-- the blackout schedule until nothing is in flight and the client is idle (at most `fuel` steps) -/
def runBlackoutUp : Nat → W → W
  | 0, w => w
  | n + 1, w =>
    if w.up.isEmpty && w.down.isEmpty && !Client.isSending w.cs.c then w else runBlackoutUp n (step w (blackoutEvUp w))

/-- `k` packets offered and given up during an upstream blackout -/
def giveUps : Nat → W → W
  | 0, w => w
  | k + 1, w => giveUps k (runBlackoutUp 40 (step w (.offerC (demoFrame 9 (4 + k)))))

/-- TEST (immediate mode): one packet offered while every upstream datagram is lost: after `dropUp`, `tickC` ×4 (three resends,
then the give-up with its ping — all lost; 9 events) the client is idle again, its sequence number one ahead of the server's,
nothing was delivered, and the joint state counts as quiescent -/
theorem test_giveup_up_1 :
    (let w := giveUps 1 (demoImmediate .b32 .b32)
     (w.cs.c.outpkt.seqno, (Server.getUser w.srv 0).inpacket.seqno, quiet 0 w, w.tunS, w.cs.c.now)) = (1, 0, true, [], 1004) := by
  decide +kernel

end Iodine.C02L
