import IodineModel.Server.Run
/-
Helper lemmas for C16, part a: frame lemmas for `getUser`/`setUser`, the ring-buffer lemma shared by the
answer cache and the query memories, and the scan lemma for `dnscacheFind`.
-/
namespace Iodine.C16L
open Iodine Iodine.Server Iodine.Gen

/-! ### getUser / setUser -/

@[simp] theorem setUser_cfg (s : Srv) (u : Nat) (f : Session → Session) : (setUser s u f).cfg = s.cfg := rfl
@[simp] theorem setUser_now (s : Srv) (u : Nat) (f : Session → Session) : (setUser s u f).now = s.now := rfl
@[simp] theorem setUser_fw (s : Srv) (u : Nat) (f : Session → Session) : (setUser s u f).fw = s.fw := rfl
@[simp] theorem setUser_rand (s : Srv) (u : Nat) (f : Session → Session) : (setUser s u f).rand = s.rand := rfl
@[simp] theorem setUser_length (s : Srv) (u : Nat) (f : Session → Session) :
    (setUser s u f).users.length = s.users.length := by
  simp [setUser]

theorem getUser_setUser (s : Srv) (u v : Nat) (f : Session → Session) :
    getUser (setUser s u f) v = if v = u ∧ u < s.users.length then f (getUser s u) else getUser s v := by
  unfold getUser setUser
  simp only [List.getD_eq_getElem?_getD, List.getElem?_modify]
  by_cases h : u = v
  · subst h
    by_cases hl : u < s.users.length
    · simp [hl]
    · simp [hl]
  · have h' : ¬ (v = u) := fun e => h e.symm
    simp [h, h']

theorem getUser_setUser_same (s : Srv) (u : Nat) (f : Session → Session) (h : u < s.users.length) :
    getUser (setUser s u f) u = f (getUser s u) := by
  simp [getUser_setUser, h]

theorem getUser_setUser_ne (s : Srv) (u v : Nat) (f : Session → Session) (h : v ≠ u) :
    getUser (setUser s u f) v = getUser s v := by
  simp [getUser_setUser, h]

/-- a write to a slot outside the table does nothing -/
theorem setUser_oob (s : Srv) (u : Nat) (f : Session → Session) (h : s.users.length ≤ u) :
    setUser s u f = s := by
  unfold setUser
  have : s.users.modify u f = s.users := by
    apply List.ext_getElem?
    intro i
    simp only [List.getElem?_modify]
    by_cases hi : u = i
    · subst hi; simp [List.getElem?_eq_none h]
    · simp [hi]
  rw [this]

/-- a slot that passes the `active` test is inside the table -/
theorem lt_length_of_active (s : Srv) (u : Nat) (h : (getUser s u).active = true) : u < s.users.length := by
  by_cases hl : u < s.users.length
  · exact hl
  · exfalso
    unfold getUser at h
    rw [List.getD_eq_getElem?_getD, List.getElem?_eq_none (Nat.le_of_not_lt hl)] at h
    simp [Session.zero] at h

/-! ### ring buffers (`dnscache`, `qmemping`, `qmemdata`) -/

/-- the slot that was filled `i` saves ago, when `last` is the slot filled most recently
(`answer_from_dnscache`: `use = lastfilled - i; if (use < 0) use += LEN`) -/
def ringPos (L last i : Nat) : Nat := if last < i then last + L - i else last - i

/-- the slot the next save goes to -/
def ringFill (L last : Nat) : Nat := if last + 1 ≥ L then 0 else last + 1

theorem ringFill_lt (L last : Nat) (hL : 0 < L) : ringFill L last < L := by
  unfold ringFill; split <;> omega

theorem ring_push_zero {α : Type} (mem : List α) (L last : Nat) (hL : mem.length = L) (h0 : 0 < L)
    (v d : α) : (mem.set (ringFill L last) v).getD (ringPos L (ringFill L last) 0) d = v := by
  have hf := ringFill_lt L last h0
  have : ringPos L (ringFill L last) 0 = ringFill L last := by simp [ringPos]
  rw [this, List.getD_eq_getElem?_getD, List.getElem?_set_self (by omega)]
  rfl

theorem ring_push_succ {α : Type} (mem : List α) (L last i : Nat) (hlast : last < L)
    (hi : i + 1 < L) (v d : α) :
    (mem.set (ringFill L last) v).getD (ringPos L (ringFill L last) (i + 1)) d
      = mem.getD (ringPos L last i) d := by
  have hne : ringFill L last ≠ ringPos L (ringFill L last) (i + 1) := by
    unfold ringFill ringPos; split <;> split <;> omega
  have heq : ringPos L (ringFill L last) (i + 1) = ringPos L last i := by
    unfold ringFill ringPos; split <;> split <;> split <;> omega
  rw [List.getD_eq_getElem?_getD, List.getElem?_set_ne hne, heq, List.getD_eq_getElem?_getD]

theorem ringPos_lt (L last i : Nat) (hlast : last < L) (hi : i < L) : ringPos L last i < L := by
  unfold ringPos; split <;> omega

/-- every slot is `ringPos … i` for some `i < L` -/
theorem ringPos_surj (L last k : Nat) (hlast : last < L) (hk : k < L) :
    ∃ i, i < L ∧ ringPos L last i = k := by
  by_cases h : k ≤ last
  · exact ⟨last - k, by omega, by unfold ringPos; split <;> omega⟩
  · exact ⟨last + L - k, by omega, by unfold ringPos; split <;> omega⟩

/-! ### the answer cache -/

/-- the cache entry written `i` saves ago -/
def cacheAt (x : Session) (i : Nat) : DnsCacheEntry :=
  x.dnscache.getD (ringPos DNSCACHE_LEN x.dcLast i) DnsCacheEntry.zero

/-- the entry is passed over by the loop of `answer_from_dnscache` -/
def Skips (e : DnsCacheEntry) (q : Query) : Prop :=
  e.q.id = 0 ∨ e.answerlen = 0 ∨ e.q.type ≠ q.type ∨ e.q.name ≠ q.name

/-- the entry is the one the loop returns -/
def Hits (e : DnsCacheEntry) (q : Query) : Prop :=
  e.q.id ≠ 0 ∧ e.answerlen ≠ 0 ∧ e.q.type = q.type ∧ e.q.name = q.name

theorem dnscacheFind_succ (x : Session) (q : Query) (n k : Nat) :
    dnscacheFind x q (n + 1) k =
      if (cacheAt x k).q.id = 0 then dnscacheFind x q n (k + 1)
      else if (cacheAt x k).answerlen = 0 then dnscacheFind x q n (k + 1)
      else if (cacheAt x k).q.type ≠ q.type ∨ (cacheAt x k).q.name ≠ q.name then dnscacheFind x q n (k + 1)
      else some (cacheAt x k) := rfl

theorem dnscacheFind_step_skip (x : Session) (q : Query) (n k : Nat) (h : Skips (cacheAt x k) q) :
    dnscacheFind x q (n + 1) k = dnscacheFind x q n (k + 1) := by
  rw [dnscacheFind_succ]
  generalize cacheAt x k = e at h ⊢
  unfold Skips at h
  split
  · rfl
  · split
    · rfl
    · split
      · rfl
      · exfalso
        rename_i h1 h2 h3
        rcases h with h | h | h | h
        · exact h1 h
        · exact h2 h
        · exact h3 (Or.inl h)
        · exact h3 (Or.inr h)

theorem dnscacheFind_step_hit (x : Session) (q : Query) (n k : Nat) (h : Hits (cacheAt x k) q) :
    dnscacheFind x q (n + 1) k = some (cacheAt x k) := by
  rw [dnscacheFind_succ]
  generalize cacheAt x k = e at h ⊢
  obtain ⟨h1, h2, h3, h4⟩ := h
  rw [if_neg h1, if_neg h2, if_neg (by rw [h3, h4]; simp)]

/-- the loop returns the most recent matching valid entry -/
theorem dnscacheFind_at (x : Session) (q : Query) (i : Nat)
    (hskip : ∀ j, j < i → Skips (cacheAt x j) q) (hit : Hits (cacheAt x i) q) :
    ∀ n k, k ≤ i → i < k + n → dnscacheFind x q n k = some (cacheAt x i) := by
  intro n
  induction n with
  | zero => intro k h1 h2; omega
  | succ n ih =>
    intro k h1 h2
    by_cases hk : k = i
    · subst hk; exact dnscacheFind_step_hit x q n k hit
    · rw [dnscacheFind_step_skip x q n k (hskip k (by omega))]
      exact ih (k + 1) (by omega) (by omega)

/-- whatever the loop returns is a valid entry with the name and type of the query -/
theorem dnscacheFind_some (x : Session) (q : Query) (e : DnsCacheEntry) :
    ∀ n k, dnscacheFind x q n k = some e → Hits e q ∧ ∃ i, k ≤ i ∧ i < k + n ∧ e = cacheAt x i := by
  intro n
  induction n with
  | zero => intro k h; simp [dnscacheFind] at h
  | succ n ih =>
    intro k h
    rw [dnscacheFind_succ] at h
    split at h
    · obtain ⟨a, i, h1, h2, h3⟩ := ih (k + 1) h; exact ⟨a, i, by omega, by omega, h3⟩
    · split at h
      · obtain ⟨a, i, h1, h2, h3⟩ := ih (k + 1) h; exact ⟨a, i, by omega, by omega, h3⟩
      · split at h
        · obtain ⟨a, i, h1, h2, h3⟩ := ih (k + 1) h; exact ⟨a, i, by omega, by omega, h3⟩
        · rename_i h1 h2 h3
          injection h with h
          subst h
          refine ⟨⟨h1, h2, ?_, ?_⟩, k, Nat.le_refl k, by omega, rfl⟩
          · exact Classical.byContradiction fun hc => h3 (Or.inl hc)
          · exact Classical.byContradiction fun hc => h3 (Or.inr hc)

/-- the lookup depends on the query's name and type only (not on id, source address, id2, …) -/
theorem dnscacheFind_congr (x : Session) (q q' : Query) (hn : q'.name = q.name) (ht : q'.type = q.type) :
    ∀ n k, dnscacheFind x q' n k = dnscacheFind x q n k := by
  intro n
  induction n with
  | zero => intro k; rfl
  | succ n ih =>
    intro k
    rw [dnscacheFind, dnscacheFind]
    simp only [hn, ht, ih]

end Iodine.C16L
