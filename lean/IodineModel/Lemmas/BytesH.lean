import IodineModel.Lemmas.BytesG
import IodineModel.Lemmas.BytesC
import IodineModel.Server.Run
/-
Helper lemmas for the byte-level server, part H: the DATA invariant through `tunnel_dns`, raw mode, the sweep and one whole
iteration of `tunnel()`.
-/
namespace Iodine.BytesL
open Iodine Iodine.Server Iodine.Gen Iodine.C10

theorem ansOK_one_noans {e : Event} (h : ∀ dst id ty dn name data tag, e ≠ Event.ans dst id ty dn name data tag) : AnsOK [e] :=
  ansOK_noans fun e' he => by simp only [List.mem_singleton] at he; subst he; exact h

theorem good_handleNsRequest {s : Srv} (h : DataInv s) (q : Query) (dlen : Nat) : Good (handleNsRequest s q dlen) := by
  unfold handleNsRequest
  exact good_ite (good_nil h) ⟨h, ansOK_one_noans (by intros; simp)⟩

theorem good_handleARequest {s : Srv} (h : DataInv s) (q : Query) (f : Bool) : Good (handleARequest s q f) := by
  unfold handleARequest
  extract_lets dest
  exact good_ite (good_nil h) ⟨h, ansOK_one_noans (by intros; simp)⟩

theorem good_forwardQuery {s : Srv} (h : DataInv s) (q : Query) : Good (forwardQuery s q) := by
  unfold forwardQuery
  exact ⟨dataInv_users h rfl, ansOK_one_noans (by intros; simp)⟩

theorem good_tunnelDns {s : Srv} (h : DataInv s) (hc : CfgBound s.cfg) (q : Query)
    (hq : IsBytes q.name) (hl : q.name.length ≤ 255) : Good (tunnelDns s q) := by
  unfold tunnelDns
  apply good_ite' (fun _ => good_nil h)
  intro hne
  split
  · rename_i dlen hd
    obtain ⟨_, _, _, hle, _⟩ := queryDatalen_split hd
    extract_lets n
    clear_value n
    apply good_ite (good_handleARequest h q false)
    apply good_ite (good_handleARequest h q true)
    apply good_ite (good_handleNullRequest h hc q _ hq hle hl)
    apply good_ite (good_handleNsRequest h q _)
    exact good_nil h
  · exact good_ite (good_forwardQuery h q) (good_nil h)

/-! ### raw mode -/

theorem good_handleRawLogin {s : Srv} (h : DataInv s) (packet : List Nat) (q : Query) (u : Nat) :
    Good (handleRawLogin s packet q u) := by
  unfold handleRawLogin
  apply good_ite (good_nil h)
  apply good_ite (good_nil h)
  extract_lets x s1 s2 myhash
  apply good_ite (good_nil h)
  apply good_ite (good_nil h)
  apply good_ite (good_nil h)
  apply good_ite _ (good_nil h)
  have h1 : DataInv s1 := dataInv_setUser h _ _ fun y hy => ⟨hy.out, hy.inp, hy.oq, hy.dc⟩
  have h2 : DataInv s2 := inv_userSetConnType h1 u _
  exact ⟨dataInv_setUser h2 _ _ fun y hy => ⟨hy.out, hy.inp, hy.oq, hy.dc⟩, ansOK_sendRaw _ _ _ _ _⟩

theorem good_handleRawData {s : Srv} (h : DataInv s) (packet : List Nat) (hp : IsBytes packet) (q : Query) (u : Nat) :
    Good (handleRawData s packet q u) := by
  unfold handleRawData
  apply good_ite (good_nil h)
  apply good_ite (good_nil h)
  extract_lets s1
  apply good_handleFullPacket
  apply dataInv_setUser h
  intro y hy
  exact ⟨hy.out, hp, hy.oq, hy.dc⟩

theorem good_handleRawPing {s : Srv} (h : DataInv s) (q : Query) (u : Nat) : Good (handleRawPing s q u) := by
  unfold handleRawPing
  apply good_ite (good_nil h)
  apply good_ite (good_nil h)
  exact ⟨dataInv_setUser h _ _ fun y hy => ⟨hy.out, hy.inp, hy.oq, hy.dc⟩, ansOK_sendRaw _ _ _ _ _⟩

theorem good_rawDecode {s : Srv} (h : DataInv s) (packet : List Nat) (hp : IsBytes packet) (src : Addr) (r : Res)
    (hr : rawDecode s packet src = some r) : Good r := by
  unfold rawDecode at hr
  split at hr
  · cases hr
  · split at hr
    · cases hr
    · extract_lets b u cmd q body at hr
      have hb : IsBytes body := isBytes_drop _ hp
      split at hr
      · cases hr; exact good_handleRawLogin h body q u
      · split at hr
        · cases hr; exact good_handleRawData h body hb q u
        · split at hr
          · cases hr; exact good_handleRawPing h q u
          · cases hr; exact good_nil h

theorem good_tunnelBind {s : Srv} (h : DataInv s) (d : List Nat) : Good (tunnelBind s d) := by
  unfold tunnelBind
  apply good_ite (good_nil h)
  split
  · exact good_nil h
  · exact ⟨h, ansOK_one_noans (by intros; simp)⟩

/-! ### the sweep, one iteration -/

theorem good_andThen {r : Res} {f : Srv → Res} (hr : Good r) (hf : DataInv r.1 → Good (f r.1)) : Good (andThen r f) := by
  unfold andThen
  exact ⟨(hf hr.1).1, ansOK_append hr.2 (hf hr.1).2⟩

theorem good_sweepFrom : ∀ (n i : Nat) {s : Srv}, DataInv s → Good (sweepFrom n i s)
  | 0, _, _, h => good_nil h
  | n + 1, i, s, h => by
    unfold sweepFrom
    extract_lets x r
    have hr : Good r := good_ite (good_sc h i .qs) (good_nil h)
    clear_value r
    exact good_andThen hr fun h' => good_sweepFrom n (i + 1) h'

/-- what the session machine is given, as byte strings: a decoded question name (at most 255 characters), a raw frame, a tun
frame; replies on the forward socket are relayed but never answered with `write_dns` -/
def InputBytes : Input → Prop
  | .q q => IsBytes q.name ∧ q.name.length ≤ 255
  | .rawf _ b => IsBytes b
  | .tun f => IsBytes f
  | .bind _ => True
  | .tick => True

theorem good_dispatch {s : Srv} (h : DataInv s) (hc : CfgBound s.cfg) (inp : Input) (hi : InputBytes inp) (tunsel : Bool) :
    Good (dispatch s inp tunsel) := by
  cases inp with
  | tick => exact good_nil h
  | tun frame =>
    unfold dispatch
    simp only []
    exact good_ite (good_tunnelTun h _ (isBytes_take _ hi)) (good_nil h)
  | q q => exact good_tunnelDns h hc q hi.1 hi.2
  | rawf src bytes =>
    unfold dispatch
    simp only []
    split
    · rename_i r hr; exact good_rawDecode h _ (isBytes_take _ hi) src r hr
    · exact good_nil h
  | bind bytes =>
    unfold dispatch
    simp only []
    exact good_ite (good_tunnelBind h _) (good_nil h)

theorem good_body {s : Srv} (h : DataInv s) (hc : CfgBound s.cfg) (inp : Input) (hi : InputBytes inp) (tunsel : Bool) :
    Good (body s inp tunsel) := by
  have h1 : Good (andThen (andThen (dispatch s inp tunsel) (fun s => (s, [Event.sweep]))) sweep) := by
    apply good_andThen
    · apply good_andThen (good_dispatch h hc inp hi tunsel)
      intro h'
      exact ⟨h', ansOK_one_noans (by intros; simp)⟩
    · intro h'
      exact good_sweepFrom _ 0 h'
  unfold body
  generalize andThen (andThen (dispatch s inp tunsel) (fun s => (s, [Event.sweep]))) sweep = r at h1
  cases inp with
  | tun frame =>
    simp only []
    split
    · exact h1
    · exact ⟨h1.1, ansOK_append h1.2 (ansOK_one_noans (by intros; simp))⟩
  | _ => exact h1

theorem mem_clearNewFrom (now created : Nat) : ∀ (l : List Session) (i : Nat), ∀ y ∈ clearNewFrom now created l i,
    ∃ x ∈ l, y = x ∨ y = { x with qsNew := false }
  | [], _, y, hy => by simp [clearNewFrom] at hy
  | a :: l, i, y, hy => by
    unfold clearNewFrom at hy
    simp only [List.mem_cons] at hy
    rcases hy with rfl | hy
    · refine ⟨a, List.mem_cons_self, ?_⟩
      split
      · exact Or.inr rfl
      · exact Or.inl rfl
    · obtain ⟨x, hx, hxy⟩ := mem_clearNewFrom now created l (i + 1) y hy
      exact ⟨x, List.mem_cons_of_mem _ hx, hxy⟩

theorem inv_topOfLoop {s : Srv} (h : DataInv s) (now' : Nat) : DataInv { (topOfLoop s).1 with now := now' } := by
  intro y hy
  obtain ⟨x, hx, hxy⟩ := mem_clearNewFrom _ _ _ _ y hy
  have := h x hx
  rcases hxy with rfl | rfl
  · exact this
  · exact ⟨this.out, this.inp, this.oq, this.dc⟩

/-- **The data invariant through one iteration** of the session machine, for every input made of bytes. -/
theorem iteration_data {s : Srv} (h : DataInv s) (hc : CfgBound s.cfg) (inp : Input) (hi : InputBytes inp) (now' : Nat) :
    DataInv (next s ⟨inp, now'⟩) ∧ AnsOK (out s ⟨inp, now'⟩) :=
  good_body (inv_topOfLoop h now') hc inp hi _

theorem dataInv_start (cfg : Config) (rnd : List Nat) : DataInv (start cfg rnd) := by
  intro x hx
  simp only [start, Srv.init, List.mem_map] at hx
  obtain ⟨t, _, rfl⟩ := hx
  exact sessOK_zero t

end Iodine.BytesL
