import IodineModel.Lemmas.SrvC03d
/-
Helper lemmas for property C03, part e: the classification of one whole loop iteration (`next`, `out`) in terms
of the state BEFORE the iteration.
-/
namespace Iodine.C03L
open Iodine Iodine.Server Iodine.Gen

/-- what a passed `check_user_and_ip` for user id `i` and source `src` says about the state before the iteration
whose `select` returned at time `now` -/
structure UserOkAt (s : Srv) (now : Nat) (i : Int) (src : Addr) : Prop where
  nonneg : 0 ≤ i
  lt : i < (s.cfg.createdUsers : Int)
  active : (getUser s i.toNat).active = true
  enabled : (getUser s i.toNat).disabled = false
  fresh : ¬ (getUser s i.toNat).lastPkt + 60 < now
  src : s.cfg.checkIp = true →
    src.fam = (getUser s i.toNat).host.fam ∧ src.ip = (getUser s i.toNat).host.ip ∧ (src.fam = 4 ∨ src.fam = 6)

theorem field_entry (s : Srv) (now' v : Nat) :
    (getUser (entry s now') v).active = (getUser s v).active ∧
    (getUser (entry s now') v).authenticated = (getUser s v).authenticated ∧
    (getUser (entry s now') v).authenticatedRaw = (getUser s v).authenticatedRaw ∧
    (getUser (entry s now') v).disabled = (getUser s v).disabled ∧
    (getUser (entry s now') v).seed = (getUser s v).seed ∧
    (getUser (entry s now') v).host = (getUser s v).host ∧
    (getUser (entry s now') v).lastPkt = (getUser s v).lastPkt := by
  obtain ⟨b, hb⟩ := getUser_entry s now' v
  rw [hb]
  exact ⟨rfl, rfl, rfl, rfl, rfl, rfl, rfl⟩

theorem UserOkAt.of_entry {s : Srv} {now : Nat} {i : Int} {q : Query} (h : UserOk (entry s now) i q) :
    UserOkAt s now i q.from_ := by
  obtain ⟨h1, h2, h3, h4, h5, h6⟩ := h
  obtain ⟨f1, f2, f3, f4, f5, f6, f7⟩ := field_entry s now i.toNat
  rw [f1] at h3; rw [f4] at h4; rw [f7] at h5; rw [f6] at h6
  exact ⟨h1, h2, h3, h4, h5, h6⟩

/-- one loop iteration, seen from the state before it -/
inductive StepOutcome (s : Srv) (st : Step) : Prop where
  | quiet
      (hp : ∀ v, prot (getUser (next s st) v) = prot (getUser s v))
      (hb : ∀ v, backlog (getUser (next s st) v) ≤ backlog (getUser s v))
      (he : ∀ e ∈ out s st, Harmless e)
      (hh : ∀ e ∈ (out s st).takeWhile (fun e => e != Event.sweep), NoChunk e)
  | tunIn (f : List Nat) (hi : st.inp = .tun f)
      (hp : ∀ v, prot (getUser (next s st) v) = prot (getUser s v))
      (he : ∀ e ∈ out s st, Harmless e ∨ ∃ d b, e = .raw d b)
  | alloc (q : Query) (u sd : Nat) (hi : st.inp = .q q)
      (cmd : CmdChar s.cfg q 86 ∨ CmdChar s.cfg q 118)
      (lt : u < s.users.length)
      (free : ((getUser s u).active = false ∨ (getUser s u).lastPkt + 60 < st.now) ∧ (getUser s u).disabled = false)
      (hp : ∀ v, v ≠ u → prot (getUser (next s st) v) = prot (getUser s v))
      (hb : ∀ v, backlog (getUser (next s st) v) ≤ backlog (getUser s v))
      (auth : (getUser (next s st) u).authenticated = false)
      (authRaw : (getUser (next s st) u).authenticatedRaw = false)
      (seed : (getUser (next s st) u).seed = sd)
      (active : (getUser (next s st) u).active = true)
      (conn : (getUser (next s st) u).conn = .dnsNull)
      (vack : ∃ dn, Event.ans q.from_ q.id q.type dn q.name (ascii "VACK" ++ beBytes 4 sd ++ [u % 256]) .ctrl ∈ out s st)
      (he : ∀ e ∈ out s st, Harmless e ∨
        ∃ dn, e = Event.ans q.from_ q.id q.type dn q.name (ascii "VACK" ++ beBytes 4 sd ++ [u % 256]) .ctrl)
      (hh : ∀ e ∈ (out s st).takeWhile (fun e => e != Event.sweep), NoChunk e)
  | login (q : Query) (dlen u : Nat) (hi : st.inp = .q q)
      (hd : Common.queryDatalen q.name s.cfg.topdomain = some dlen) (h2 : 2 ≤ dlen)
      (cmd : q.name.getD 0 0 = 76 ∨ q.name.getD 0 0 = 108)
      (len : 18 ≤ (Encoding.unpackData Codec.b32 65536 ((q.name.take (min dlen 512)).drop 1)).length)
      (uid : charVal ((Encoding.unpackData Codec.b32 65536 ((q.name.take (min dlen 512)).drop 1)).getD 0 0) = (u : Int))
      (hash : ((Encoding.unpackData Codec.b32 65536 ((q.name.take (min dlen 512)).drop 1)).drop 1).take 16
          = Login.loginCalcC s.cfg.password (getUser s u).seed)
      (ok : UserOkAt s st.now u q.from_)
      (hp : ∀ v, v ≠ u → prot (getUser (next s st) v) = prot (getUser s v))
      (hself : prot (getUser (next s st) u) = { prot (getUser s u) with authenticated := true })
      (hb : ∀ v, backlog (getUser (next s st) v) ≤ backlog (getUser s v))
      (he : ∀ e ∈ out s st, Harmless e)
      (hh : ∀ e ∈ (out s st).takeWhile (fun e => e != Event.sweep), NoChunk e)
  | authedQ (q : Query) (i : Int) (hi : st.inp = .q q) (hreq : reqSlot s.cfg st.inp = some i)
      (ok : UserOkAt s st.now i q.from_) (hauth : (getUser s i.toNat).authenticated = true)
      (hcore : ∀ v, core (getUser (next s st) v) = core (getUser s v))
      (hoth : ∀ v, v ≠ i.toNat → prot (getUser (next s st) v) = prot (getUser s v))
  | rawLogin (src : Addr) (bytes : List Nat) (u : Nat) (hi : st.inp = .rawf src bytes)
      (uid : u = bytes.getD 3 0 &&& RAW_HDR_USR_MASK)
      (hash : (((bytes.take 65536).drop RAW_HDR_LEN).take 16) = Login.loginCalcC s.cfg.password ((getUser s u).seed + 1))
      (lt : u < s.cfg.createdUsers)
      (active : (getUser s u).active = true)
      (enabled : (getUser s u).disabled = false)
      (auth : (getUser s u).authenticated = true)
      (fresh : ¬ (getUser s u).lastPkt + 60 < st.now)
      (hp : ∀ v, v ≠ u → prot (getUser (next s st) v) = prot (getUser s v))
      (hself : prot (getUser (next s st) u) =
        { prot (getUser s u) with host := src, conn := .rawUdp, authenticatedRaw := true })
      (hb : ∀ v, backlog (getUser (next s st) v) ≤ backlog (getUser s v))
      (he : ∀ e ∈ out s st, Harmless e)
      (hh : ∀ e ∈ (out s st).takeWhile (fun e => e != Event.sweep), NoChunk e)
  | authedRaw (src : Addr) (bytes : List Nat) (u : Nat) (hi : st.inp = .rawf src bytes)
      (hreq : reqSlot s.cfg st.inp = some (u : Int))
      (ok : UserOkAt s st.now u src) (hauth : (getUser s u).authenticated = true)
      (hraw : (getUser s u).authenticatedRaw = true)
      (hp : ∀ v, prot (getUser (next s st) v) = prot (getUser s v))

theorem harmless_marker : Harmless .sweep ∧ Harmless .tunskip := by
  constructor <;> (unfold Harmless; trivial)

theorem mem_body_of_dispatch (s : Srv) (inp : Input) (t : Bool) (e : Event) (h : e ∈ (dispatch s inp t).2) :
    e ∈ (body s inp t).2 := by
  unfold body
  simp only [andThen]
  cases inp with
  | tun f =>
    simp only []
    split <;> simp [h]
  | q q => simp [h]
  | rawf a b => simp [h]
  | bind b => simp [h]
  | tick => simp [h]

theorem mem_out_of_dispatch (s : Srv) (st : Step) (e : Event)
    (h : e ∈ (dispatch (entry s st.now) st.inp (topOfLoop s).2.2).2) : e ∈ out s st :=
  mem_body_of_dispatch _ _ _ e h

theorem mem_takeWhile_prefix (a b : List Event) (e : Event)
    (h : e ∈ (a ++ Event.sweep :: b).takeWhile (fun e => e != Event.sweep)) : e ∈ a := by
  induction a with
  | nil => simp at h
  | cons x a ih =>
    simp only [List.cons_append, List.takeWhile_cons] at h
    split at h
    · rcases List.mem_cons.mp h with rfl | h
      · exact List.mem_cons_self
      · exact List.mem_cons_of_mem _ (ih h)
    · cases h

theorem body_events_eq (s : Srv) (inp : Input) (t : Bool) :
    ∃ l, (body s inp t).2 = (dispatch s inp t).2 ++ Event.sweep :: l := by
  unfold body
  simp only [andThen]
  cases inp with
  | tun f =>
    simp only []
    split
    · exact ⟨(sweep (dispatch s (Input.tun f) t).1).2, by simp⟩
    · exact ⟨(sweep (dispatch s (Input.tun f) t).1).2 ++ [Event.tunskip], by simp⟩
  | q q => exact ⟨(sweep (dispatch s (Input.q q) t).1).2, by simp⟩
  | rawf a b => exact ⟨(sweep (dispatch s (Input.rawf a b) t).1).2, by simp⟩
  | bind b => exact ⟨(sweep (dispatch s (Input.bind b) t).1).2, by simp⟩
  | tick => exact ⟨(sweep (dispatch s Input.tick t).1).2, by simp⟩

/-- the events before the `sweep` marker are events of the handler -/
theorem mem_dispatch_of_handlerEvents (s : Srv) (st : Step) (e : Event)
    (h : e ∈ (out s st).takeWhile (fun e => e != Event.sweep)) :
    e ∈ (dispatch (entry s st.now) st.inp (topOfLoop s).2.2).2 := by
  obtain ⟨l, hl⟩ := body_events_eq (entry s st.now) st.inp (topOfLoop s).2.2
  have : out s st = (body (entry s st.now) st.inp (topOfLoop s).2.2).2 := rfl
  rw [this, hl] at h
  exact mem_takeWhile_prefix _ _ e h

theorem stepOutcome (s : Srv) (st : Step) : StepOutcome s st := by
  have hn := next_eq s st
  have ho := mem_out s st
  have ho2 := mem_out_of_dispatch s st
  have ho3 := mem_dispatch_of_handlerEvents s st
  generalize hr : dispatch (entry s st.now) st.inp (topOfLoop s).2.2 = r at hn ho ho2 ho3
  have hd : Outcome (entry s st.now) st.inp r := hr ▸ outcome_dispatch _ _ _
  have hq : Quiet r.1 (sweep r.1) := quiet_sweep r.1
  -- post-state versus the state after the handler
  have hpp : ∀ v, prot (getUser (next s st) v) = prot (getUser r.1 v) := by
    intro v; rw [hn]; exact prot_getUser_of_view hq.view v
  have hpb : ∀ v, backlog (getUser (next s st) v) ≤ backlog (getUser r.1 v) := by
    intro v; rw [hn]; exact hq.mle v
  -- events: handler events, markers, sweep events
  have hev : ∀ (P : Event → Prop), (∀ e, Harmless e → P e) → (∀ e ∈ r.2, P e) → ∀ e ∈ out s st, P e := by
    intro P hP hr2 e he
    rcases ho e he with h | h | h | h
    · exact hr2 e h
    · subst h; exact hP _ harmless_marker.1
    · exact hP e (hq.evs e h)
    · subst h; exact hP _ harmless_marker.2
  cases hd with
  | quiet h =>
    refine StepOutcome.quiet ?_ ?_ ?_ ?_
    · intro v; rw [hpp, prot_getUser_of_view h.view, prot_entry]
    · intro v
      exact Nat.le_trans (hpb v) (Nat.le_trans (h.mle v) (Nat.le_of_eq (backlog_entry s st.now v)))
    · exact hev Harmless (fun e he => he) h.evs
    · exact fun e he => h.nochunk e (ho3 e he)
  | tunIn f hi hv he =>
    refine StepOutcome.tunIn f hi ?_ ?_
    · intro v; rw [hpp, prot_getUser_of_view hv, prot_entry]
    · exact hev _ (fun e he => Or.inl he) he
  | alloc q u sd hi h =>
    obtain ⟨f1, f2, f3, f4, f5, f6, f7⟩ := field_entry s st.now u
    have hpu := hpp u
    unfold prot at hpu
    simp only [Prot.mk.injEq] at hpu
    obtain ⟨dn, hdn⟩ := h.evs
    refine StepOutcome.alloc q u sd hi h.cmd (by simpa using h.lt) ?_ ?_ ?_ ?_ ?_ ?_ ?_ ?_ ?_ ?_ ?_
    · have := h.free
      rw [f1, f7, f4] at this
      exact this
    · intro v hv; rw [hpp, h.others v hv, prot_entry]
    · intro v
      by_cases hv : v = u
      · subst hv
        have := hpb v
        rw [h.backlog] at this
        omega
      · have := hpb v
        rw [h.others v hv, backlog_entry] at this
        exact this
    · rw [hpu.2.1]; exact h.auth
    · rw [hpu.2.2.1]; exact h.authRaw
    · rw [hpu.2.2.2.2.1]; exact h.seed
    · rw [hpu.1]; exact h.active
    · rw [hpu.2.2.2.2.2.2.2.2.2.2.2]; exact h.conn
    · refine ⟨dn, ho2 _ ?_⟩
      rw [hdn]; exact List.mem_singleton.mpr rfl
    · apply hev _ (fun e he => Or.inl he)
      intro e he
      rw [hdn] at he
      simp only [List.mem_cons, List.not_mem_nil, or_false] at he
      exact Or.inr ⟨dn, he⟩
    · intro e he
      have := ho3 e he
      rw [hdn] at this
      simp only [List.mem_cons, List.not_mem_nil, or_false] at this
      subst this
      rfl
  | login q dlen u hi h =>
    obtain ⟨f1, f2, f3, f4, f5, f6, f7⟩ := field_entry s st.now u
    refine StepOutcome.login q dlen u hi h.hd h.h2 h.cmd h.len h.uid ?_ ?_ ?_ ?_ ?_ ?_ ?_
    · have := h.hash; rw [f5] at this; exact this
    · have := UserOkAt.of_entry h.ok
      simpa using this
    · intro v hv; rw [hpp, h.others v hv, prot_entry]
    · rw [hpp, h.self]
      obtain ⟨b, hb⟩ := getUser_entry s st.now u
      rw [hb]; rfl
    · intro v
      by_cases hv : v = u
      · subst hv
        have := hpb v
        rw [h.self] at this
        obtain ⟨b, hb⟩ := getUser_entry s st.now v
        rw [hb] at this
        exact this
      · have := hpb v
        rw [h.others v hv, backlog_entry] at this
        exact this
    · exact hev Harmless (fun e he => he) h.evs
    · exact fun e he => h.nochunk e (ho3 e he)
  | authedQ q i hi hreq hchk hbase hcore hoth =>
    obtain ⟨hok, hau⟩ := auth_of_check hchk
    obtain ⟨f1, f2, f3, f4, f5, f6, f7⟩ := field_entry s st.now i.toNat
    refine StepOutcome.authedQ q i hi hreq (UserOkAt.of_entry hok) (by rw [← f2]; exact hau) ?_ ?_
    · intro v
      rw [core_of_prot (hpp v), hcore v, core_of_prot (prot_entry s st.now v)]
    · intro v hv
      rw [hpp, hoth v hv, prot_entry]
  | rawLogin src bytes u hi h =>
    obtain ⟨f1, f2, f3, f4, f5, f6, f7⟩ := field_entry s st.now u
    refine StepOutcome.rawLogin src bytes u hi h.uid ?_ h.lt ?_ ?_ ?_ ?_ ?_ ?_ ?_ ?_ ?_
    · have := h.hash; rw [f5] at this; exact this
    · rw [← f1]; exact h.active
    · rw [← f4]; exact h.enabled
    · rw [← f2]; exact h.auth
    · have := h.fresh; rw [f7] at this; simpa using this
    · intro v hv; rw [hpp, h.others v hv, prot_entry]
    · rw [hpp, h.self]
      obtain ⟨b, hb⟩ := getUser_entry s st.now u
      rw [hb]; rfl
    · intro v
      by_cases hv : v = u
      · subst hv
        have := hpb v
        rw [h.self] at this
        obtain ⟨b, hb⟩ := getUser_entry s st.now v
        rw [hb] at this
        exact this
      · have := hpb v
        rw [h.others v hv, backlog_entry] at this
        exact this
    · exact hev Harmless (fun e he => he) h.evs
    · exact fun e he => h.nochunk e (ho3 e he)
  | authedRaw src bytes u hi hreq hchk hraw hv =>
    obtain ⟨hok, hau⟩ := auth_of_check hchk
    obtain ⟨f1, f2, f3, f4, f5, f6, f7⟩ := field_entry s st.now u
    have hok' := UserOkAt.of_entry hok
    simp only [Int.toNat_natCast] at hau
    refine StepOutcome.authedRaw src bytes u hi hreq hok' (by rw [← f2]; exact hau) (by rw [← f3]; exact hraw) ?_
    intro v; rw [hpp, prot_getUser_of_view hv, prot_entry]

theorem Outcome.base {s : Srv} {inp : Input} {r : Res} (h : Outcome s inp r) : Base s r := by
  cases h with
  | quiet h => exact Base.of_view h.view
  | tunIn f hi hv he => exact Base.of_view hv
  | alloc q u sd hi h => exact h.base
  | login q dlen u hi h => exact h.base
  | authedQ q i hi hreq hchk hbase hcore hoth => exact hbase
  | rawLogin src bytes u hi h => exact h.base
  | authedRaw src bytes u hi hreq hchk hraw hv => exact Base.of_view hv

theorem next_base (s : Srv) (st : Step) :
    (next s st).cfg = s.cfg ∧ (next s st).now = st.now ∧ (next s st).users.length = s.users.length := by
  rw [next_eq]
  have h1 := (outcome_dispatch (entry s st.now) st.inp (topOfLoop s).2.2).base
  have h2 := Base.of_view (quiet_sweep (dispatch (entry s st.now) st.inp (topOfLoop s).2.2).1).view
  obtain ⟨a1, a2, a3⟩ := h1
  obtain ⟨b1, b2, b3⟩ := h2
  refine ⟨?_, ?_, ?_⟩
  · rw [b1, a1]; rfl
  · rw [b2, a2]; rfl
  · rw [b3, a3]; simp

end Iodine.C03L
