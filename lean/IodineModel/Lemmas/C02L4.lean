import IodineModel.Lemmas.C02L3
/-
C02 / lazy mode, upstream — the query the server HOLDS and the freshness of the duplicate memories.

In lazy mode the client's most recent query `H` sits in `users[u].q` and is remembered (fingerprint memory, answer cache)
only when it is answered, i.e. after the client has sent the NEXT query.  `HeldMem P x H k sd` says what `H` is (a data
query carrying the data-CMC counter value just before `k`, or a ping carrying the ping counter value just before `sd`)
and that the memories of the slot `x` are aged with the slack that goes with it (`k` / `sd` = the client's current counters).
-/
namespace Iodine.C02L
open Iodine Iodine.Gen Iodine.Server Iodine.World

/-- what every held query of the session satisfies -/
structure HeldBase (P : Par) (H : Query) : Prop where
  from_ : H.from_ = clientAddr
  id2 : H.id2 = 0
  id : H.id ≠ 0
  ty : H.type = P.ty

/-- `H` is a data query of the session carrying data-CMC counter value `k0` -/
structure HeldData (P : Par) (H : Query) (k0 : Nat) : Prop where
  hk0 : k0 < 36
  c0 : H.name.getD 0 0 = hexLower P.u
  c4 : H.name.getD 4 0 = cmcChar k0
  len5 : 5 ≤ H.name.length

/-- `H` is a ping carrying ping counter value `s0` (as `save_to_qmem_pingordata` fingerprints it and as `handle_ping`
unpacks it) -/
structure HeldPing (P : Par) (H : Query) (s0 : Nat) : Prop where
  hs0 : s0 < 65536
  c0 : H.name.getD 0 0 = 112
  fp : ∃ cp, H.name.idxOf? 46 = some cp ∧ 4 ≤ (Codec.dec Codec.b32 8 (cp - 1) (H.name.drop 1)).length ∧
    ((Codec.dec Codec.b32 8 (cp - 1) (H.name.drop 1)).take 4).getD 2 0 = s0 / 256 ∧
    ((Codec.dec Codec.b32 8 (cp - 1) (H.name.drop 1)).take 4).getD 3 0 = s0 % 256
  seed : seedOfName P.td H.name = s0

/-- the held query and the memories: `k` = the client's data-CMC counter, `sd` = its ping counter -/
def HeldMem (P : Par) (x : Session) (H : Query) (k sd : Nat) : Prop :=
  (∃ k0, HeldData P H k0 ∧ Behind 36 k k0 1 ∧ Aged P x k 2 ∧ PAged P x sd 1) ∨
  (∃ s0, HeldPing P H s0 ∧ Behind 65536 sd s0 1 ∧ Aged P x k 1 ∧ PAged P x sd 2)

theorem HeldMem.aged {P : Par} {x : Session} {H : Query} {k sd : Nat} (h : HeldMem P x H k sd) : Aged P x k 2 := by
  rcases h with ⟨_, _, _, h, _⟩ | ⟨_, _, _, h, _⟩
  · exact h
  · exact h.mono (by omega)

theorem HeldMem.fresh {P : Par} {x : Session} {H : Query} {k sd : Nat} (h : HeldMem P x H k sd) (hk : k < 36) :
    Fresh P x k (0 + 1) := h.aged.fresh hk (by omega)

/-- only the memories matter -/
theorem HeldMem.congr {P : Par} {x y : Session} {H : Query} {k sd : Nat} (h : HeldMem P x H k sd)
    (h1 : y.qmemdata = x.qmemdata) (h2 : y.qmemdataLast = x.qmemdataLast) (h3 : y.dnscache = x.dnscache)
    (h4 : y.dcLast = x.dcLast) (h5 : y.qmemping = x.qmemping) (h6 : y.qmempingLast = x.qmempingLast) :
    HeldMem P y H k sd := by
  rcases h with ⟨k0, a, b, c, d⟩ | ⟨s0, a, b, c, d⟩
  · exact Or.inl ⟨k0, a, b, c.congr h1 h2 h3 h4, d.congr h5 h6 h3 h4⟩
  · exact Or.inr ⟨s0, a, b, c.congr h1 h2 h3 h4, d.congr h5 h6 h3 h4⟩

theorem hexLower_ne_p {u : Nat} (hu : u < 16) : hexLower u ≠ 80 ∧ hexLower u ≠ 112 := by
  have := (hexLower_facts u hu).2.2
  constructor <;> (intro hc; apply this; rw [hc]; simp)

/-- the first character of the held query is one `tunnel_dns` of the client accepts -/
theorem HeldMem.c0 {P : Par} {x : Session} {H : Query} {k sd : Nat} (h : HeldMem P x H k sd) :
    H.name.getD 0 0 = hexLower P.u ∨ H.name.getD 0 0 = 112 := by
  rcases h with ⟨_, a, _⟩ | ⟨_, a, _⟩
  · exact Or.inl a.c0
  · exact Or.inr a.c0

/-- the held query is not the data query that carries the current data-CMC counter value: `rememberDuplicate` does not
take the new query for a duplicate of the held one -/
theorem HeldMem.name_ne {P : Par} (hu : P.u < 16) {x : Session} {H : Query} {k sd : Nat} (h : HeldMem P x H k sd) (hk : k < 36)
    (Q : Query) (h0 : Q.name.getD 0 0 = hexLower P.u) (h4 : Q.name.getD 4 0 = cmcChar k) : H.name ≠ Q.name := by
  intro he
  rcases h with ⟨k0, a, b, _⟩ | ⟨_, a, _⟩
  · have h1 := a.c4
    rw [he, h4] at h1
    have := cmcChar_inj k k0 hk a.hk0 h1
    unfold Behind at b
    omega
  · have h1 := a.c0
    rw [he, h0] at h1
    exact (hexLower_ne_p hu).2 h1

theorem behind_step36 {k k0 : Nat} (hk : k < 36) (h : Behind 36 k k0 1) : Behind 36 ((k + 1) % 36) k0 2 := by
  unfold Behind at *
  omega

/-- The client has sent the data query `Q` (counter value `k`), and now the answer to the held query `H` is remembered:
the memories are as they must be for `Q` held. -/
theorem HeldMem.memo {P : Par} (hu : P.u < 16) {x : Session} {H : Query} {k sd : Nat} (h : HeldMem P x H k sd) (hk : k < 36)
    (ans : List Nat) (hans : ans.length ≤ DNSCACHE_ANSWER_SIZE) (Q : Query) (hQ : HeldData P Q k) :
    HeldMem P (cacheUpd (qmemUpd x H) H ans) Q ((k + 1) % 36) sd := by
  left
  rcases h with ⟨k0, a, b, c, d⟩ | ⟨s0, a, b, c, d⟩
  · refine ⟨k, hQ, behind_next k hk, ?_, ?_⟩
    · exact (c.step hk (by omega)).memo H ans hans k0 2 ⟨by omega, by omega⟩ (behind_step36 hk b) a.hk0 a.c4 a.len5
        (by rw [a.c0]; exact hexLower_ne_p hu)
    · exact d.memo_data hu H ans hans a.len5 a.c0
  · obtain ⟨cp, hcp, hl, hq2, hq3⟩ := a.fp
    refine ⟨k, hQ, behind_next k hk, ?_, ?_⟩
    · exact (c.step hk (by omega)).memo_ping hu H ans hans a.c0 cp hcp hl
    · exact d.memo H ans hans s0 1 ⟨by omega, by omega⟩ b a.c0 cp hcp hl hq2 hq3 a.seed

/-- what the hop lemmas say about the query `send_chunk` emitted: it can be held -/
theorem UpQ.heldBase {P : Par} {Q : Query} {h : UpHdr} {k : Nat} {chunk : List Nat} (hQ : UpQ P Q h k chunk) : HeldBase P Q :=
  ⟨hQ.from_, hQ.id2, hQ.id, hQ.ty⟩

theorem UpQ.heldData {P : Par} {Q : Query} {h : UpHdr} {k : Nat} {chunk : List Nat} (hQ : UpQ P Q h k chunk) (hk : k < 36) :
    HeldData P Q k :=
  ⟨hk, hQ.c0, hQ.c4, hQ.len5⟩

end Iodine.C02L
