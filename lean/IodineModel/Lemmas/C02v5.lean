import IodineModel.Lemmas.C02v4
/-
Server side of an upstream transfer in immediate mode: the iteration that receives an expected fragment.
-/
namespace Iodine.C02L
open Iodine Iodine.Gen Iodine.Server Iodine.World

/-- what the server can read out of an upstream data query (supplied by the hop lemmas from the client's side) -/
structure UpQ (P : Par) (Q : Query) (h : UpHdr) (k : Nat) (chunk : List Nat) : Prop where
  from_ : Q.from_ = clientAddr
  id2 : Q.id2 = 0
  id : Q.id ≠ 0
  ty : Q.type = P.ty
  c0 : Q.name.getD 0 0 = hexLower P.u
  c4 : Q.name.getD 4 0 = cmcChar k
  len5 : 5 ≤ Q.name.length
  parse : ∃ dlen, Common.queryDatalen Q.name P.td = some dlen ∧ 6 ≤ dlen ∧
      parseUpHdr (Q.name.take (min dlen 512)) = h ∧
      Encoding.unpackData P.ec.codec 65536 ((Q.name.take (min dlen 512)).drop 5) = chunk

/-- the slot expects fragment `f` of the upstream packet `out` with seqno `sq`: its first `o` bytes are there -/
def Expect (x : Session) (out : List Nat) (sq o f : Nat) : Prop :=
  (f = 0 ∧ o = 0 ∧ (sq : Int) = (x.inpacket.seqno + 1) % 8) ∨
  (f ≠ 0 ∧ x.inpacket.seqno = (sq : Int) ∧ x.inpacket.fragment = (f : Int) - 1 ∧ x.inpacket.offset = o ∧ x.inpacket.len = o ∧
    x.inpacket.data.take o = out.take o)

theorem accept_of_expect {x : Session} {out : List Nat} {sq o f : Nat} (h : Expect x out sq o f)
    (hs : 0 ≤ x.inpacket.seqno ∧ x.inpacket.seqno < 8) :
    ∃ I : Packet, dataUpstream x sq f = ({ x with inpacket := I }, true) ∧ I.seqno = (sq : Int) ∧ I.fragment = (f : Int) ∧
      I.offset = o ∧ I.len = o ∧ I.data.take o = out.take o := by
  rcases h with ⟨h1, h2, h3⟩ | ⟨h1, h2, h3, h4, h5, h6⟩
  · subst h1; subst h2
    have hsq : sq = ((x.inpacket.seqno + 1) % 8).toNat := by omega
    have := dataUpstream_next x x.inpacket.seqno hs rfl 0
    rw [← hsq] at this
    refine ⟨_, Prod.ext this.2 this.1, ?_, rfl, rfl, rfl, by simp⟩
    simp only
    omega
  · refine ⟨{ x.inpacket with fragment := (f : Int) }, ?_, h2, rfl, h4, h5, h6⟩
    unfold dataUpstream
    rw [if_neg (by rw [h3]; intro hc; omega), if_neg (by intro hc; exact hc.1 h2.symm), if_neg (by intro hc; exact hc h2.symm)]

/-- after the chunk `(out.drop o).take m` was stored, the slot expects the next fragment -/
theorem expect_stored {P : Par} (hP : P.Ok) {x : Session} {out : List Nat} {sq o f m : Nat} {I : Packet}
    (henc : x.encoder = P.es) (payload : List Nat)
    (hpl : Encoding.unpackData P.ec.codec 65536 payload = (out.drop o).take m)
    (hI : I.seqno = (sq : Int) ∧ I.fragment = (f : Int) ∧ I.offset = o ∧ I.len = o ∧ I.data.take o = out.take o)
    (hm : o + m ≤ out.length) (h64 : out.length ≤ 65536) :
    (stored x I payload).inpacket.seqno = (sq : Int) ∧ (stored x I payload).inpacket.fragment = (f : Int) ∧
    (stored x I payload).inpacket.offset = o + m ∧ (stored x I payload).inpacket.len = o + m ∧
    (stored x I payload).inpacket.data = out.take (o + m) ∧ core (stored x I payload) = core { x with inpacket := (stored x I payload).inpacket } := by
  obtain ⟨h1, h2, h3, h4, h5⟩ := hI
  have hc : x.encoder.codec = P.ec.codec := by rw [henc]; exact codec_of_encMatch hP.enc
  have hlen : ((out.drop o).take m).length = m := by
    rw [List.length_take, List.length_drop]; omega
  unfold stored dataStore
  simp only [hc, hpl, h3, h4, h1, h2, PACKET_DATA_SIZE]
  have ht : ((out.drop o).take m).take (65536 - o) = (out.drop o).take m := by
    apply List.take_of_length_le
    rw [hlen]; omega
  rw [ht, hlen, h5]
  refine ⟨trivial, trivial, rfl, rfl, ?_, trivial⟩
  rw [List.take_add]

end Iodine.C02L
