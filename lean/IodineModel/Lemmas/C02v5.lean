import IodineModel.Lemmas.C02v4
/-
Server side of an upstream transfer in immediate mode: the iteration that receives an expected fragment.
-/
namespace Iodine.C02L
open Iodine Iodine.Gen Iodine.Server Iodine.World

/-- what the server can read out of an upstream data query (supplied by the hop lemmas from the client's side) -/
structure UpQ (P : Par) (Q : Query) (h : UpHdr) (k : Nat) (chunk : List Nat) : Prop where
  from_ : Q.from_ = clientAddr
  id2 : Q.id2 = 0
  id : Q.id ≠ 0
  ty : Q.type = P.ty
  c0 : Q.name.getD 0 0 = hexLower P.u
  c4 : Q.name.getD 4 0 = cmcChar k
  len5 : 5 ≤ Q.name.length
  parse : ∃ dlen, Common.queryDatalen Q.name P.td = some dlen ∧ 6 ≤ dlen ∧
      parseUpHdr (Q.name.take (min dlen 512)) = h ∧
      Encoding.unpackData P.ec.codec 65536 ((Q.name.take (min dlen 512)).drop 5) = chunk

/-- the slot expects fragment `f` of the upstream packet `out` with seqno `sq`: its first `o` bytes are there -/
def Expect (x : Session) (out : List Nat) (sq o f : Nat) : Prop :=
  (f = 0 ∧ o = 0 ∧ ∃ j : Nat, 1 ≤ j ∧ j ≤ 4 ∧ (sq : Int) = (x.inpacket.seqno + j) % 8) ∨
  (f ≠ 0 ∧ x.inpacket.seqno = (sq : Int) ∧ x.inpacket.fragment = (f : Int) - 1 ∧ x.inpacket.offset = o ∧ x.inpacket.len = o ∧
    x.inpacket.data.take o = out.take o)

/-- server: the first fragment of a packet whose sequence number is 1..4 AHEAD of the slot's is taken as a new packet
(the window of "recent duplicates" is the current number and the three before it) -/
theorem dataUpstream_far (x : Server.Session) (a : Int) (ha : 0 ≤ a ∧ a < 8) (hx : x.inpacket.seqno = a) (j : Nat)
    (hj : 1 ≤ j ∧ j ≤ 4) (frag : Nat) :
    (Server.dataUpstream x ((a + j) % 8).toNat frag).2 = true ∧
    (Server.dataUpstream x ((a + j) % 8).toNat frag).1 =
      { x with inpacket := { x.inpacket with seqno := (a + j) % 8, fragment := frag, len := 0, offset := 0 } } := by
  have hcast : (((a + j) % 8).toNat : Int) = (a + j) % 8 := by omega
  have hne : ¬ (a + j) % 8 = a := by omega
  have hfar : Server.recentSeqno a ((a + j) % 8) = false := by
    rw [← recentSeqno_eq]; exact recentSeqno_far a ha j hj
  unfold Server.dataUpstream
  simp only [hcast, hx, hne, false_and, if_false, hfar, Bool.false_eq_true, and_false,
    ne_eq, not_false_eq_true, if_true, and_self]

theorem accept_of_expect {x : Session} {out : List Nat} {sq o f : Nat} (h : Expect x out sq o f)
    (hs : 0 ≤ x.inpacket.seqno ∧ x.inpacket.seqno < 8) :
    ∃ I : Packet, dataUpstream x sq f = ({ x with inpacket := I }, true) ∧ I.seqno = (sq : Int) ∧ I.fragment = (f : Int) ∧
      I.offset = o ∧ I.len = o ∧ I.data.take o = out.take o := by
  rcases h with ⟨h1, h2, j, hj1, hj4, h3⟩ | ⟨h1, h2, h3, h4, h5, h6⟩
  · subst h1; subst h2
    have hsq : sq = ((x.inpacket.seqno + j) % 8).toNat := by omega
    have := dataUpstream_far x x.inpacket.seqno hs rfl j ⟨hj1, hj4⟩ 0
    rw [← hsq] at this
    refine ⟨_, Prod.ext this.2 this.1, ?_, rfl, rfl, rfl, by simp⟩
    simp only
    omega
  · refine ⟨{ x.inpacket with fragment := (f : Int) }, ?_, h2, rfl, h4, h5, h6⟩
    unfold dataUpstream
    rw [if_neg (by rw [h3]; intro hc; omega), if_neg (by intro hc; exact hc.1 h2.symm), if_neg (by intro hc; exact hc h2.symm)]

/-- after the chunk `(out.drop o).take m` was stored, the slot expects the next fragment -/
theorem expect_stored {P : Par} (hP : P.Ok) {x : Session} {out : List Nat} {sq o f m : Nat} {I : Packet}
    (henc : x.encoder = P.es) (payload : List Nat)
    (hpl : Encoding.unpackData P.ec.codec 65536 payload = (out.drop o).take m)
    (hI : I.seqno = (sq : Int) ∧ I.fragment = (f : Int) ∧ I.offset = o ∧ I.len = o ∧ I.data.take o = out.take o)
    (hm : o + m ≤ out.length) (h64 : out.length ≤ 65536) :
    (stored x I payload).inpacket.seqno = (sq : Int) ∧ (stored x I payload).inpacket.fragment = (f : Int) ∧
    (stored x I payload).inpacket.offset = o + m ∧ (stored x I payload).inpacket.len = o + m ∧
    (stored x I payload).inpacket.data = out.take (o + m) ∧ core (stored x I payload) = core { x with inpacket := (stored x I payload).inpacket } := by
  obtain ⟨h1, h2, h3, h4, h5⟩ := hI
  have hc : x.encoder.codec = P.ec.codec := by rw [henc]; exact codec_of_encMatch hP.enc
  have hlen : ((out.drop o).take m).length = m := by
    rw [List.length_take, List.length_drop]; omega
  unfold stored dataStore
  simp only [hc, hpl, h3, h4, h1, h2, PACKET_DATA_SIZE]
  have ht : ((out.drop o).take m).take (65536 - o) = (out.drop o).take m := by
    apply List.take_of_length_le
    rw [hlen]; omega
  rw [ht, hlen, h5]
  refine ⟨trivial, trivial, rfl, rfl, ?_, trivial⟩
  rw [List.take_add]

end Iodine.C02L
