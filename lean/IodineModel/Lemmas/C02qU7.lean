import IodineModel.Lemmas.C02qU6
/-
C02, phase 2 — upstream, immediate mode: BOUNDED RECOVERY from desynchronised sequence numbers.  From `QuietImmD P d 0 w` the
first `lostUp d` offered packets are lost (none if `d ≤ 3`, else `8 − d`: at most 4), every later one is delivered, in
order, and after the first delivered packet the state is the synchronised `QuietImm` of the clean-path theorems.
-/
namespace Iodine.C02L
open Iodine Iodine.Gen Iodine.World

/-- how many of the next packets are lost when the sender is `d` ahead -/
def lostUp (d : Nat) : Nat := if d ≤ 3 then 0 else 8 - d

theorem recovery_after_giveups_up_imm_aux {P : Par} (hP : P.Ok) (fuel : Nat) (hfuel : 33 ≤ fuel) {sl sp : Nat}
    (hsl : 1 ≤ sl ∧ sl ≤ 21) (hsp : 1 ≤ sp ∧ sp ≤ 999) :
    ∀ (frames : List (List Nat)) (d : Nat) (w : W), QuietImmDS P d 0 sl sp w → d < 8 →
      (d ≤ 3 ∨ 1 ≤ (Server.getUser w.srv P.u).inpacket.fragment) →
      (∀ f ∈ frames, UpFrameOk P (Server.getUser w.srv P.u).tunIp f) →
      (offerAllC P.u fuel w frames).tunS = w.tunS ++ (frames.drop (lostUp d)).map tunImage ∧
      (offerAllC P.u fuel w frames).tunC = w.tunC ∧
      (lostUp d < frames.length → QuietImmS P sl sp (offerAllC P.u fuel w frames)) := by
  intro frames
  induction frames with
  | nil => intro d w _ _ _ _; exact ⟨by simp [offerAllC], rfl, fun h => by simp at h⟩
  | cons f fs ih =>
    intro d w hq hd8 hfr hok
    have hf := hok f List.mem_cons_self
    by_cases hd : d ≤ 3
    · obtain ⟨w', h1, h2, h3, h4, h5, _⟩ := up_packet_imm_desync_ok hP hq hd f hf.h24 hf.hl hf.bytes hf.dst hf.frags
      have hrun : runPrompt P.u fuel (step w (.offerC f)) = w' :=
        runPrompt_of_steps P.u _ _ _ h1 h2.quiet fuel (by have := hf.frags; omega)
      have := up_sequence_imm hP fuel hfuel fs w' h2 (fun g hg => by rw [h5]; exact hok g (List.mem_cons_of_mem _ hg)) hsl
      have hl : lostUp d = 0 := by simp [lostUp, hd]
      unfold offerAllC
      rw [hrun, hl]
      refine ⟨?_, ?_, fun _ => this.1⟩
      · rw [this.2.1, h3]; simp
      · rw [this.2.2, h4]
    · have hfr' : 1 ≤ (Server.getUser w.srv P.u).inpacket.fragment := by
        rcases hfr with h | h
        · exact absurd h hd
        · exact h
      have hdrop : DropsUp (Server.getUser w.srv P.u) d := by
        by_cases h7 : d = 7
        · exact Or.inr ⟨h7, hfr'⟩
        · exact Or.inl ⟨by omega, by omega⟩
      have hne : f ≠ [] := by intro hc; have := hf.h24; rw [hc] at this; simp at this
      obtain ⟨w', h1, h2, h3, h4, h5, h6, _, _, _⟩ := up_packet_imm_desync_drop hP hq hdrop f hne hf.hl hf.bytes
      have hrun : runPrompt P.u fuel (step w (.offerC f)) = w' :=
        runPrompt_of_steps P.u _ _ _ h1 h2.quiet fuel (by omega)
      have := ih ((d + 1) % 8) w' h2 (Nat.mod_lt _ (by omega)) (Or.inr (by rw [h5]; exact hfr'))
        (fun g hg => by rw [h6]; exact hok g (List.mem_cons_of_mem _ hg))
      have hl : lostUp d = lostUp ((d + 1) % 8) + 1 := by
        unfold lostUp
        by_cases h7 : d = 7
        · subst h7; decide
        · have : (d + 1) % 8 = d + 1 := by omega
          rw [this, if_neg hd, if_neg (by omega)]
          omega
      unfold offerAllC
      rw [hrun, hl]
      refine ⟨?_, ?_, fun hlt => this.2.2 (by simp only [List.length_cons] at hlt; omega)⟩
      · rw [this.1, h3]; simp
      · rw [this.2.1, h4]

/-- **Bounded recovery, upstream, immediate mode** (any freshness slack within the counters' periods). -/
theorem recovery_after_giveups_up_imm {P : Par} (hP : P.Ok) (fuel : Nat) (hfuel : 33 ≤ fuel) {sl sp : Nat}
    (frames : List (List Nat)) (d : Nat) (w : W) (hq : QuietImmDS P d 0 sl sp w) (hd : d < 8)
    (hfr : d ≤ 3 ∨ 1 ≤ (Server.getUser w.srv P.u).inpacket.fragment)
    (hok : ∀ f ∈ frames, UpFrameOk P (Server.getUser w.srv P.u).tunIp f)
    (hsl : 1 ≤ sl ∧ sl ≤ 21 := by omega) (hsp : 1 ≤ sp ∧ sp ≤ 999 := by omega) :
    (offerAllC P.u fuel w frames).tunS = w.tunS ++ (frames.drop (lostUp d)).map tunImage ∧
    (offerAllC P.u fuel w frames).tunC = w.tunC ∧
    (lostUp d < frames.length → QuietImmS P sl sp (offerAllC P.u fuel w frames)) :=
  recovery_after_giveups_up_imm_aux hP fuel hfuel hsl hsp frames d w hq hd hfr hok

/-! ### desynchronised states exist: shift the client's number -/

/-- the joint state with the client's upstream sequence number moved `d` on (what `d` give-ups during an upstream blackout
do to it) -/
def shiftUp (w : W) (d : Nat) : W :=
  { w with cs := { w.cs with c := { w.cs.c with outpkt := { w.cs.c.outpkt with seqno := (w.cs.c.outpkt.seqno + d) % 8 } } } }

theorem quietImmD_shiftUp {P : Par} {sl sp : Nat} {w : W} (h : QuietImmS P sl sp w) (d : Nat) : QuietImmDS P d 0 sl sp (shiftUp w d) := by
  have hc := h.cst
  have h1 := h.syncu
  have h2 := h.syncd
  have h3 := hc.iseq
  refine ⟨h.ph, ⟨hc.running, hc.conn, hc.imm, hc.uid, hc.uch, hc.td, hc.L, hc.enc, hc.ty, hc.cid, hc.cmc, hc.alive, ?_, hc.iseq,
    hc.ifrag, hc.seed⟩, h.idleC, h.up, h.down, h.srv, h.idle, h.oq, ?_, ?_, h.aged, h.paged⟩
  · show 0 ≤ (w.cs.c.outpkt.seqno + d) % 8 ∧ (w.cs.c.outpkt.seqno + d) % 8 < 8
    omega
  · show (w.cs.c.outpkt.seqno + d) % 8 = _
    rw [← h1]; rfl
  · show (Server.getUser w.srv P.u).outpacket.seqno = (w.cs.c.inpkt.seqno + 0) % 8
    omega

end Iodine.C02L
