import IodineModel.Lemmas.SrvC14a
/-
Helper lemmas for property C14, part b: keys of events, the balance predicate, the small functions that do
not touch the stored queries, `send_chunk_or_dataless`.
-/
namespace Iodine.C14L
open Iodine Iodine.Server Iodine.Gen

/-- keys consumed by an event; `arr` is the query that arrived in this iteration (an NS/A response is a DNS
answer to that query, sent to `dst`) -/
def evKeys (arr : Query) : Event → List Key
  | .ans dst id type _ name _ _ => [(dst, id, name, type)]
  | .nsa dst => [(dst, arr.id, arr.name, arr.type)]
  | _ => []

def keysOf (arr : Query) (evs : List Event) : List Key := evs.flatMap (evKeys arr)

@[simp] theorem keysOf_nil (arr : Query) : keysOf arr [] = [] := rfl
@[simp] theorem keysOf_cons (arr : Query) (e : Event) (evs : List Event) :
    keysOf arr (e :: evs) = evKeys arr e ++ keysOf arr evs := rfl
@[simp] theorem keysOf_append (arr : Query) (a b : List Event) :
    keysOf arr (a ++ b) = keysOf arr a ++ keysOf arr b := by simp [keysOf]
@[simp] theorem evKeys_writeDns (arr q : Query) (d : List Nat) (e : Nat) (t : Tag) :
    evKeys arr (writeDns q d e t) = [keyOf q] := rfl
@[simp] theorem evKeys_sendRaw (arr q : Query) (b : List Nat) (l u c : Nat) :
    evKeys arr (sendRaw b l u c q) = [] := rfl

/-- Balance of a step from `s` to `r.1` with events `r.2`: the answers plus what is held afterwards (plus `xout`)
come out of what was held before plus `xin` -/
structure Bal (arr : Query) (s : Srv) (xin : List Key) (r : Res) (xout : List Key := []) : Prop where
  le : Le (keysOf arr r.2 ++ held r.1 ++ xout) (held s ++ xin)

theorem Bal.mk' {arr : Query} {s : Srv} {xin : List Key} {r : Res} {xout : List Key}
    (h : ∀ k, (keysOf arr r.2).count k + (held r.1).count k + xout.count k ≤ (held s).count k + xin.count k) :
    Bal arr s xin r xout := by
  constructor; intro k; have := h k; simp only [List.count_append]; omega

theorem Bal.cnt {arr : Query} {s : Srv} {xin : List Key} {r : Res} {xout : List Key} (h : Bal arr s xin r xout) (k : Key) :
    (keysOf arr r.2).count k + (held r.1).count k + xout.count k ≤ (held s).count k + xin.count k := by
  have := h.le k; simp only [List.count_append] at this; omega

/-- sequencing -/
theorem Bal.seq {arr : Query} {s : Srv} {xin xmid xout : List Key} {r1 r2 : Res}
    (h1 : Bal arr s xin r1 xmid) (h2 : Bal arr r1.1 xmid r2 xout) : Bal arr s xin (r2.1, r1.2 ++ r2.2) xout := by
  apply Bal.mk'; intro k
  have a := h1.cnt k; have b := h2.cnt k
  simp only [keysOf_append, List.count_append]; omega

/-- a step without events that keeps the stored queries -/
theorem Bal.ofSameQ {arr : Query} {s s' : Srv} {x : List Key} (h : SameQ s s') : Bal arr s x (s', []) x := by
  apply Bal.mk'; intro k; simp [h.held_eq]

/-- change of the start state by a step that keeps the stored queries -/
theorem Bal.preSameQ {arr : Query} {s s' : Srv} {xin xout : List Key} {r : Res} (h : SameQ s s')
    (hb : Bal arr s' xin r xout) : Bal arr s xin r xout := by
  apply Bal.mk'; intro k; have := hb.cnt k; rw [h.held_eq] at this; exact this

theorem Bal.postSameQ {arr : Query} {s s' : Srv} {xin xout : List Key} {r : Res} (h : SameQ r.1 s')
    (hb : Bal arr s xin r xout) : Bal arr s xin (s', r.2) xout := by
  apply Bal.mk'; intro k; have := hb.cnt k; simp only [h.held_eq]; exact this

theorem Bal.weaken {arr : Query} {s : Srv} {xin xout : List Key} {r : Res}
    (hb : Bal arr s xin r xout) : Bal arr s xin r [] := by
  apply Bal.mk'; intro k; have := hb.cnt k; simp; omega

/-! ### functions that keep `q` and `q_sendrealsoon` of every slot -/

theorem sameQ_startNewOutpacket (s : Srv) (u : Nat) (d : List Nat) (n : Nat) : SameQ s (startNewOutpacket s u d n) :=
  sameQ_setUser _ _ _ (fun _ => rfl)

theorem sameQ_saveToOutpacketq (s : Srv) (u : Nat) (d : List Nat) (n : Nat) : SameQ s (saveToOutpacketq s u d n).1 := by
  unfold saveToOutpacketq
  simp only []
  split
  · exact SameQ.refl _
  · exact sameQ_setUser _ _ _ (fun _ => rfl)

theorem sameQ_getFromOutpacketq (s : Srv) (u : Nat) : SameQ s (getFromOutpacketq s u).1 := by
  unfold getFromOutpacketq
  simp only []
  split
  · exact SameQ.refl _
  · exact (sameQ_startNewOutpacket _ _ _ _).trans (sameQ_setUser _ _ _ (fun _ => rfl))

theorem SameQ.set {s s' : Srv} (h : SameQ s s') (u : Nat) (f : Session → Session) (hf : ∀ x, QQ (f x) = QQ x) :
    SameQ s (setUser s' u f) := h.trans (sameQ_setUser _ _ _ hf)

theorem SameQ.gfo {s s' : Srv} (h : SameQ s s') (u : Nat) : SameQ s (getFromOutpacketq s' u).1 :=
  h.trans (sameQ_getFromOutpacketq _ _)

theorem sameQ_saveToDnscache (s : Srv) (u : Nat) (q : Query) (a : List Nat) : SameQ s (saveToDnscache s u q a) := by
  unfold saveToDnscache
  split
  · exact SameQ.refl _
  · exact sameQ_setUser _ _ _ (fun _ => rfl)

theorem sameQ_saveToQmemPingOrData (s : Srv) (u : Nat) (q : Query) : SameQ s (saveToQmemPingOrData s u q) := by
  unfold saveToQmemPingOrData
  simp only []
  split
  · split
    · exact SameQ.refl _
    · split
      · exact SameQ.refl _
      · exact sameQ_setUser _ _ _ (fun _ => rfl)
  · split
    · exact SameQ.refl _
    · exact sameQ_setUser _ _ _ (fun _ => rfl)

theorem sameQ_dropOut (s : Srv) (u : Nat) : SameQ s (setUser s u dropOut) :=
  sameQ_setUser _ _ _ (fun _ => rfl)

theorem sameQ_scDropResent (s : Srv) (u : Nat) : SameQ s (scDropResent s u) := by
  unfold scDropResent
  simp only []
  split
  · exact (sameQ_dropOut _ _).trans (sameQ_getFromOutpacketq _ _)
  · exact SameQ.refl _

theorem sameQ_scPrepare (s : Srv) (u : Nat) : SameQ s (scPrepare s u) := by
  unfold scPrepare
  split
  · exact sameQ_setUser _ _ _ (fun _ => rfl)
  · exact SameQ.refl _

theorem sameQ_processDownstreamAck (s : Srv) (u : Nat) (a b : Int) : SameQ s (processDownstreamAck s u a b) := by
  unfold processDownstreamAck
  simp only []
  split
  · exact SameQ.refl _
  · split
    · exact SameQ.refl _
    · split
      · exact SameQ.refl _
      · split
        · apply SameQ.gfo; apply SameQ.set; apply SameQ.set; exact SameQ.refl _
          · intro _; rfl
          · intro _; rfl
        · exact sameQ_setUser _ _ _ (fun _ => rfl)

theorem sameQ_userSwitchCodec (s : Srv) (u : Nat) (e : Enc) : SameQ s (userSwitchCodec s u e) := by
  unfold userSwitchCodec
  split
  · exact SameQ.refl _
  · exact sameQ_setUser _ _ _ (fun _ => rfl)

theorem sameQ_userSetConnType (s : Srv) (u : Nat) (c : Conn) : SameQ s (userSetConnType s u c) := by
  unfold userSetConnType
  split
  · exact SameQ.refl _
  · exact sameQ_setUser _ _ _ (fun _ => rfl)

theorem sameQ_findAvailableUser (s : Srv) : SameQ s (findAvailableUser s).2 := by
  unfold findAvailableUser
  split
  · exact sameQ_setUser _ _ _ (fun _ => rfl)
  · exact SameQ.refl _

theorem sameQ_popRand (s : Srv) : SameQ s (popRand s).2 := by
  unfold popRand
  split
  · exact SameQ.refl _
  · exact sameQ_of_users rfl

/-! ### send_chunk_or_dataless -/

theorem keysOf_scAnswer (arr q : Query) (pkt : List Nat) (dn u : Nat) (h : q.id ≠ 0) :
    keysOf arr (scAnswer q pkt dn u).2 = qKeys q := by
  unfold scAnswer qKeys
  by_cases h2 : q.id2 = 0
  · simp [h, h2]
  · simp [h, h2, keyOf, key2]

/-- the shape of `send_chunk_or_dataless`: bookkeeping that keeps the stored queries, the answers of `scAnswer`
to the selected query, the selected query marked answered (`id := 0`), more bookkeeping -/
theorem sc_shape (s : Srv) (u : Nat) (w : QSel) :
    ∃ (s3 : Srv) (pkt : List Nat) (dn : Nat), SameQ s s3 ∧
      SameQ (setUser s3 u fun y => w.set y (clearId (scAnswer (w.get (getUser s u)) pkt dn u).1))
        (sendChunkOrDataless s u w).1.1 ∧
      (sendChunkOrDataless s u w).1.2 = (scAnswer (w.get (getUser s u)) pkt dn u).2 := by
  have h1 : SameQ s (scPrepare (scDropResent s u) u) := (sameQ_scDropResent s u).trans (sameQ_scPrepare _ u)
  have hw : w.get (getUser (scPrepare (scDropResent s u) u) u) = w.get (getUser s u) := by
    cases w
    · exact h1.q u
    · exact h1.qs u
  refine ⟨saveToDnscache (saveToQmemPingOrData (scPrepare (scDropResent s u) u) u
            (scAnswer (w.get (getUser s u)) (scPkt (getUser (scPrepare (scDropResent s u) u) u)
              (scDatalen (getUser (scPrepare (scDropResent s u) u) u)))
              (getUser (scPrepare (scDropResent s u) u) u).downenc u).1) u
            (scAnswer (w.get (getUser s u)) (scPkt (getUser (scPrepare (scDropResent s u) u) u)
              (scDatalen (getUser (scPrepare (scDropResent s u) u) u)))
              (getUser (scPrepare (scDropResent s u) u) u).downenc u).1
            (scPkt (getUser (scPrepare (scDropResent s u) u) u) (scDatalen (getUser (scPrepare (scDropResent s u) u) u))),
          scPkt (getUser (scPrepare (scDropResent s u) u) u) (scDatalen (getUser (scPrepare (scDropResent s u) u) u)),
          (getUser (scPrepare (scDropResent s u) u) u).downenc, ?_, ?_⟩
  · exact (h1.trans (sameQ_saveToQmemPingOrData _ u _)).trans (sameQ_saveToDnscache _ u _ _)
  · unfold sendChunkOrDataless
    simp only []
    rw [hw]
    split
    · exact ⟨(sameQ_dropOut _ _).trans (sameQ_getFromOutpacketq _ _), rfl⟩
    · exact ⟨SameQ.refl _, rfl⟩

theorem QQ_set_get (w : QSel) (y : Session) (q : Query) :
    ∀ k, (pairKeys (QQ (w.set y (clearId q)))).count k + (qKeys (w.get y)).count k = (pairKeys (QQ y)).count k := by
  intro k
  cases w <;> simp [QSel.set, QSel.get, QQ, pairKeys, List.count_append] <;> omega

/-- `send_chunk_or_dataless` on a held query answers exactly the keys that query stands for and un-holds it -/
theorem sc_cnt (arr : Query) (s : Srv) (u : Nat) (w : QSel) (h : (w.get (getUser s u)).id ≠ 0) (k : Key) :
    (keysOf arr (sendChunkOrDataless s u w).1.2).count k + (held (sendChunkOrDataless s u w).1.1).count k
      ≤ (held s).count k := by
  obtain ⟨s3, pkt, dn, h3, h4, h5⟩ := sc_shape s u w
  rw [h5, keysOf_scAnswer _ _ _ _ _ h, h4.held_eq]
  have a := count_held_setUser_le k s3 u (fun y => w.set y (clearId (scAnswer (w.get (getUser s u)) pkt dn u).1))
  have b := QQ_set_get w (getUser s3 u) (scAnswer (w.get (getUser s u)) pkt dn u).1 k
  have hw : w.get (getUser s3 u) = w.get (getUser s u) := by
    cases w
    · exact h3.q u
    · exact h3.qs u
  rw [hw] at b
  rw [h3.held_eq] at a
  omega

theorem sc_bal (arr : Query) (s : Srv) (u : Nat) (w : QSel) (x : List Key) (h : (w.get (getUser s u)).id ≠ 0) :
    Bal arr s x (sendChunkOrDataless s u w).1 x := by
  apply Bal.mk'; intro k; have := sc_cnt arr s u w h k; omega

theorem sc_len (s : Srv) (u : Nat) (w : QSel) : (sendChunkOrDataless s u w).1.1.users.length = s.users.length := by
  obtain ⟨s3, pkt, dn, h3, h4, _⟩ := sc_shape s u w
  rw [h4.len, length_setUser, h3.len]

theorem sendWaiting_bal (arr : Query) (s : Srv) (u : Nat) (x : List Key) : Bal arr s x (sendWaiting s u) x := by
  unfold sendWaiting
  simp only []
  split
  · exact sc_bal arr s u .qs x (by assumption)
  · split
    · exact sc_bal arr s u .q x (by assumption)
    · exact Bal.ofSameQ (SameQ.refl _)

theorem sendWaiting_len (s : Srv) (u : Nat) : (sendWaiting s u).1.users.length = s.users.length := by
  unfold sendWaiting
  simp only []
  split
  · exact sc_len _ _ _
  · split
    · exact sc_len _ _ _
    · rfl

end Iodine.C14L
