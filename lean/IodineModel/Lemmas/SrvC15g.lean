import IodineModel.Lemmas.SrvC15f
/-
Helper lemmas for property C15, part g: ping, data, version handlers, `handle_null_request`, `tunnel_dns`,
raw mode and the loop, simulated by the fragment-numbering monitor (part (B)).
-/
namespace Iodine.C15L
open Iodine Iodine.Server Iodine.Gen

/-! ### ping and data -/

theorem sim_pingFresh (isV : Bool) (W : Nat → Prop) (s : Srv) (u : Nat) (q : Query) (unpacked : List Nat) :
    Sim isV W s (pingFresh s u q unpacked) := by
  unfold pingFresh
  extract_lets b s1 r1 t r2 didsend s3 x r3
  have h1 : Stay W s s1 := stay_processDownstreamAck W s u _ _
  have hr1 : Sim isV W s1 r1 := by
    unfold r1
    apply ite_ind
    · intro _; exact sim_sendChunk isV W s1 u .qs
    · intro _; exact sim_refl isV W s1
  have ht : Sim isV W r1.1 t.1 := sim_sendChunk isV W r1.1 u .q
  clear_value t
  have hr2 : Sim isV W r1.1 r2.1 := by
    unfold r2
    refine ite_ind (P := fun r : Res × Bool => Sim isV W r1.1 r.1) ?_ ?_
    · intro _; exact ht
    · intro _; exact sim_refl isV W r1.1
  have hr3 : Sim isV W r2.1.1 r3 := by
    apply Sim.pre (stay_saveQuery W r2.1.1 u q)
    unfold r3
    apply ite_ind
    · intro _; exact sim_sendChunk isV W s3 u .q
    · intro _; exact sim_refl isV W s3
  clear_value r3 r2 r1 s1
  exact (sim_seq3 hr1 hr2 hr3).pre h1

theorem quiet_answerFromDnscache (isV : Bool) (s : Srv) (u : Nat) (q : Query) (e : Event)
    (h : answerFromDnscache s u q = some e) : Quiet isV [e] := by
  unfold answerFromDnscache at h
  dsimp only at h
  split at h
  · cases h; exact quiet_cached isV _ _ _ _
  · cases h

theorem quiet_answerFromQmem (isV : Bool) (q : Query) (mem : List QmemEntry) (cmc : List Nat) (u : Nat) (e : Event)
    (h : answerFromQmem q mem cmc u = some e) : Quiet isV [e] := by
  unfold answerFromQmem at h
  split at h
  · cases h; exact quiet_qmem isV _ _ _ _
  · cases h

theorem sim_handlePing (W : Nat → Prop) (s : Srv) (q : Query) (inb : List Nat) :
    Sim false W s (handlePing s q inb) := by
  unfold handlePing
  apply ite_ind
  · intro _; exact sim_refl false W s
  · intro _
    extract_lets unpacked userid u
    apply ite_ind
    · intro _; exact sim_refl false W s
    intro _; apply ite_ind
    · intro _; exact sim_ctrl W s _ _ _
    · intro _
      split
      · rename_i e he
        exact sim_quiet (Stay.refl W s) (quiet_answerFromDnscache false s u q e he)
      · split
        · rename_i e he
          exact sim_quiet (Stay.refl W s) (quiet_answerFromQmem false _ _ _ _ e he)
        · split
          · rename_i s' hs
            exact sim_quiet (stay_rememberDuplicate W s s' u q hs) (quiet_nil false)
          · exact sim_pingFresh false W s u q unpacked

theorem sim_dataStepQs (isV : Bool) (W : Nat → Prop) (s : Srv) (u : Nat) : Sim isV W s (dataStepQs s u).1 := by
  unfold dataStepQs
  refine ite_ind (P := fun r : Res × Bool => Sim isV W s r.1) ?_ ?_
  · intro _; exact sim_sendChunk isV W s u .qs
  · intro _; exact sim_refl isV W s

theorem sim_dataStepQ (isV : Bool) (W : Nat → Prop) (s : Srv) (u : Nat) (a b c : Bool) :
    Sim isV W s (dataStepQ s u a b c).1 := by
  unfold dataStepQ
  extract_lets x
  refine ite_ind (P := fun r : Res × Bool => Sim isV W s r.1) ?_ ?_
  · intro _
    refine ite_ind (P := fun r : Res × Bool => Sim isV W s r.1) ?_ ?_
    · intro _; exact sim_sendChunk isV W s u .q
    · intro _; exact sim_quiet (by stay_same) (quiet_nil isV)
  · intro _; exact sim_refl isV W s

theorem sim_dataStepFinal (isV : Bool) (W : Nat → Prop) (s : Srv) (u : Nat) (a b c : Bool) :
    Sim isV W s (dataStepFinal s u a b c) := by
  unfold dataStepFinal
  extract_lets x
  apply ite_ind
  · intro _; exact sim_sendChunk isV W s u .q
  intro _; apply ite_ind
  · intro _; apply ite_ind
    · intro _; exact sim_quiet (by stay_same) (quiet_nil isV)
    · intro _; exact sim_sendChunk isV W s u .q
  · intro _; exact sim_refl isV W s

theorem sm_dataUpstream {w : Prop} {mo : MSt} {x : Session} (h : SM w mo x) (a b : Nat) :
    SM w mo (dataUpstream x a b).1 := by
  obtain ⟨⟨a1, a2, a3, a4, a5, a6, a7, a8, a9, a10, a11, a12, a13⟩, hb, ⟨c1, c2, c3⟩⟩ := h
  unfold dataUpstream
  refine ite_ind (P := fun r : Session × Bool => SM w mo r.1) ?_ ?_
  · intro _; exact ⟨⟨a1, a2, a3, a4, a5, a6, a7, a8, a9, a10, a11, a12, a13⟩, hb, ⟨c1, c2, c3⟩⟩
  intro _; refine ite_ind (P := fun r : Session × Bool => SM w mo r.1) ?_ ?_
  · intro _; exact ⟨⟨a1, a2, a3, a4, a5, a6, a7, a8, a9, a10, a11, a12, a13⟩, hb, ⟨c1, c2, c3⟩⟩
  intro _; refine ite_ind (P := fun r : Session × Bool => SM w mo r.1) ?_ ?_
  · intro _
    exact ⟨⟨a1, a2, a3, a4, a5, a6, Nat.zero_le _, a8, a9, a10, a11, a12, a13⟩, Or.inr (Nat.le_refl 0), ⟨c1, c2, c3⟩⟩
  · intro _
    exact ⟨⟨a1, a2, a3, a4, a5, a6, a7, a8, a9, a10, a11, a12, a13⟩, hb, ⟨c1, c2, c3⟩⟩

theorem sm_dataStore {mo : MSt} {x : Session} (h : SM False mo x) (p : List Nat) : SM False mo (dataStore x p) := by
  obtain ⟨⟨a1, a2, a3, a4, a5, a6, a7, a8, a9, a10, a11, a12, a13⟩, hb, ⟨c1, c2, c3⟩⟩ := h
  have hin : x.inpacket.len ≤ x.inpacket.offset := hb.resolve_left id
  refine ⟨⟨a1, a2, a3, a4, a5, a6, ?_, a8, a9, a10, a11, a12, a13⟩, Or.inr ?_, ⟨c1, c2, c3⟩⟩
  · simp only [dataStore, List.length_append, List.length_take]
    omega
  · simp only [In2, dataStore]
    omega

theorem sim_handleFullPacket0 (isV : Bool) (s : Srv) (u : Nat) : Sim isV W0 s (handleFullPacket s u) := by
  intro m hG
  obtain ⟨m', h1, h2, h3⟩ := sim_handleFullPacket isV W0 s u m hG
  exact ⟨m', h1, g_mono h2 (fun _ h => h.1), h3⟩

theorem sim_dataFresh (isV : Bool) (s : Srv) (u : Nat) (q : Query) (inb : List Nat) :
    Sim isV W0 s (dataFresh s u q inb) := by
  unfold dataFresh
  extract_lets b1 b2 b3 upSeq upFrag dnSeq dnFrag lastfrag s1 up upstreamOk s2 r3 r4 r5 s6 r7
  have h1 : Stay W0 s s1 := stay_processDownstreamAck W0 s u _ _
  have h2 : Stay W0 s1 s2 := by
    intro m hG
    refine g_setUser hG u _ (fun h => ?_)
    have hup : SM False (m u) up.1 := sm_dataUpstream h _ _
    show SM False (m u) (if upstreamOk = true then dataStore up.1 (List.drop 5 inb) else up.1)
    apply ite_ind
    · intro _; exact sm_dataStore hup _
    · intro _; exact hup
  have hr3 : Sim isV W0 s2 r3 := by
    unfold r3
    apply ite_ind
    · intro _; exact sim_handleFullPacket0 isV s2 u
    · intro _; exact sim_refl isV W0 s2
  have hr4 : Sim isV W0 r3.1 r4.1 := sim_dataStepQs isV W0 r3.1 u
  have hr5 : Sim isV W0 r4.1.1 r5.1 := sim_dataStepQ isV W0 r4.1.1 u _ _ _
  have hr7 : Sim isV W0 r5.1.1 r7 := (sim_dataStepFinal isV W0 s6 u _ _ _).pre (stay_saveQuery W0 r5.1.1 u q)
  clear_value r7 r5 r4 r3 s2 s1
  exact (sim_seq4 hr3 hr4 hr5 hr7).pre (h1.trans h2)

theorem sim_handleData (s : Srv) (q : Query) (dlen : Nat) (inb : List Nat) :
    Sim false W0 s (handleData s q dlen inb) := by
  unfold handleData
  apply ite_ind
  · intro _; exact sim_refl false W0 s
  intro _; apply ite_ind
  · intro _; exact sim_refl false W0 s
  · intro _
    extract_lets userid u
    apply ite_ind
    · intro _; exact sim_ctrl W0 s _ _ _
    · intro _
      split
      · rename_i e he
        exact sim_quiet (Stay.refl W0 s) (quiet_answerFromDnscache false s u q e he)
      · split
        · rename_i e he
          exact sim_quiet (Stay.refl W0 s) (quiet_answerFromQmem false _ _ _ _ e he)
        · split
          · rename_i s' hs
            exact sim_quiet (stay_rememberDuplicate W0 s s' u q hs) (quiet_nil false)
          · exact sim_dataFresh false s u q inb


/-! ### the version handler (`isV = true`) -/

theorem ascii_VACK : ascii "VACK" = [86, 65, 67, 75] := by decide
theorem ascii_VNAK : ascii "VNAK" = [86, 78, 65, 75] := by decide
theorem ascii_VFUL : ascii "VFUL" = [86, 70, 85, 76] := by decide

theorem vackSlot_ack (seed u : Nat) : vackSlot (ascii "VACK" ++ beBytes 4 seed ++ [u % 256]) = some (u % 256) := by
  rw [ascii_VACK]
  simp [vackSlot, beBytes]

theorem vackSlot_nak (p u : Nat) : vackSlot (ascii "VNAK" ++ beBytes 4 p ++ [u % 256]) = none := by
  rw [ascii_VNAK]
  simp [vackSlot, beBytes]

theorem vackSlot_ful (p u : Nat) : vackSlot (ascii "VFUL" ++ beBytes 4 p ++ [u % 256]) = none := by
  rw [ascii_VFUL]
  simp [vackSlot, beBytes]

theorem findAvailableUser_lt (s s1 : Srv) (u : Nat) (h : findAvailableUser s = (some u, s1)) :
    u < s.users.length := by
  unfold findAvailableUser at h
  split at h
  · rename_i u' hu'
    injection h with h1 h2
    injection h1 with h1
    subst h1
    unfold Users.findAvailableUser at hu'
    obtain ⟨k, hk, hlt, _⟩ := Users.findAvailableFrom_some s.now (s.users.map toSlot) 0 u'
      (Users.findAvailableFrom s.now (s.users.map toSlot) 0).2 (by rw [← hu'])
    simp only [List.length_map] at hlt
    omega
  · injection h with h1 h2
    cases h1

theorem sm_reset {w : Prop} {mo : MSt} {x : Session} (h : SM w mo x) (now seed : Nat) (q : Query) :
    SM w none (resetSession ({ claim now x with seed := seed, host := q.from_, q := q, encoder := .b32, downenc := chT })) := by
  obtain ⟨⟨a1, a2, a3, a4, a5, a6, a7, a8, a9, a10, a11, a12, a13⟩, hb, ⟨c1, c2, c3⟩⟩ := h
  refine ⟨⟨?_, ?_, ?_, ?_, ?_, ?_, ?_, a8, a9, ?_, ?_, ?_, ?_⟩, Or.inr ?_, ⟨?_, ?_, ?_⟩⟩
  · exact Nat.le_refl 0
  · intro h; exact absurd rfl h
  · exact Nat.zero_le _
  · intro h; exact absurd rfl h
  · intro _; show 2 ≤ 100; omega
  · intro h; exact absurd rfl h
  · exact Nat.zero_le _
  · exact Nat.zero_lt_succ 3
  · exact Nat.zero_le 4
  · intro h; exact absurd rfl h
  · intro i hi; exact absurd hi (Nat.not_lt_zero _)
  · exact Nat.le_refl 0
  · intro _; left; rfl
  · intro h; exact absurd rfl h
  · intro h; exact absurd rfl h

theorem sim_handleVersion (W : Nat → Prop) (s : Srv) (q : Query) (inb : List Nat) (hlen : s.users.length ≤ 256) :
    Sim true W s (handleVersion s q inb) := by
  unfold handleVersion
  extract_lets unpacked version
  apply ite_ind
  · intro _
    split
    · rename_i u s1 hfa
      have hlt := findAvailableUser_lt s s1 u hfa
      have hs1 := findAvailableUser_some s s1 u hfa
      subst hs1
      have hst := handleVersion_state s u (popRand (setUser s u (claim s.now))).1 q
      dsimp only at hst ⊢
      intro m hG
      refine ⟨upd m u none, ?_, ?_, ?_⟩
      rotate_left 2
      · exact (quiet_single (isV := false) (fun _ => rfl)
          (by unfold sendVersionResponse writeDns; not_chunk)).chunkOK
      · have hu : u % 256 = u := Nat.mod_eq_of_lt (by omega)
        have hv := vackSlot_ack (popRand (setUser s u (claim s.now))).1 u
        rw [hu] at hv
        simp only [runMon, sendVersionResponse, writeDns, monEvent, if_true, hu, hv, Option.bind_some]
      · intro v
        rw [hst v]
        unfold upd
        by_cases hv : v = u
        · subst hv
          rw [if_pos rfl, if_pos ⟨rfl, hlt⟩]
          exact sm_reset (hG v) _ _ _
        · rw [if_neg hv, if_neg (fun h => hv h.1)]
          exact hG v
    · rename_i s1 hfa
      have hs1 := findAvailableUser_none s s1 hfa
      subst hs1
      refine sim_quiet (Stay.refl W _) (quiet_single (fun m => ?_) (by unfold sendVersionResponse writeDns; not_chunk))
      simp only [sendVersionResponse, writeDns, monEvent, if_true, vackSlot_ful]
  · intro _
    refine sim_quiet (Stay.refl W _) (quiet_single (fun m => ?_) (by unfold sendVersionResponse writeDns; not_chunk))
    simp only [sendVersionResponse, writeDns, monEvent, if_true, vackSlot_nak]

end Iodine.C15L
