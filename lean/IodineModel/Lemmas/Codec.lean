import IodineModel.Codec.Generic
/-
Helper lemmas for the codec theorems (Props/C07.lean).  `k` ranges over {5,6,7}; the
arithmetic side goals are closed by splitting on `k` and `omega`.
-/
namespace Iodine.Codec
open Iodine

theorem flatMap_congr' {l : List α} {f g : α → List β} (h : ∀ x ∈ l, f x = g x) :
    l.flatMap f = l.flatMap g := by
  induction l with
  | nil => rfl
  | cons x xs ih =>
    simp only [List.flatMap_cons]
    rw [h x (by simp), ih (fun y hy => h y (by simp [hy]))]

theorem flatMap_id_eq_flatten (l : List (List α)) : l.flatMap (fun g => g) = l.flatten := by
  induction l with
  | nil => rfl
  | cons x xs ih => simp

@[simp] theorem toBits_length (d : List Nat) : (toBits d).length = 8 * d.length := by
  induction d with
  | nil => rfl
  | cons b d ih => simp only [toBits, List.flatMap_cons, List.length_append, bitsBE_length] at *; simp only [List.length_cons]; omega

def K567 (k : Nat) : Prop := k = 5 ∨ k = 6 ∨ k = 7

theorem nchars_lo (hk : K567 k) (n : Nat) : 8 * n ≤ k * nchars k n := by
  unfold nchars; rcases hk with rfl | rfl | rfl <;> omega

theorem nchars_hi (hk : K567 k) (n : Nat) : k * nchars k n < 8 * n + k := by
  unfold nchars; rcases hk with rfl | rfl | rfl <;> omega

theorem padded_length (hk : K567 k) (d : List Nat) : (padded k d).length = k * nchars k d.length := by
  have := nchars_lo hk d.length
  simp [padded]; omega

theorem encVals_length (k : Nat) (d : List Nat) : (encVals k d).length = nchars k d.length := by
  simp [encVals]

theorem encFull_length (c : Codec) (d : List Nat) : (encFull c d).length = nchars c.k d.length := by
  simp [encFull, encVals_length]

theorem chunks_padded_len (hk : K567 k) (d : List Nat) (j : Nat) (hj : j ≤ nchars k d.length) :
    ∀ g ∈ chunksN k j (padded k d), g.length = k := by
  apply chunksN_elem_length
  rw [padded_length hk]
  exact Nat.mul_le_mul_left k hj

theorem encVals_lt (hk : K567 k) (d : List Nat) : ∀ v ∈ encVals k d, v < 2 ^ k := by
  intro v hv
  simp only [encVals, List.mem_map] at hv
  obtain ⟨g, hg, rfl⟩ := hv
  have := chunks_padded_len hk d _ (Nat.le_refl _) g hg
  have h2 := ofBitsBE_lt g
  rwa [this] at h2

theorem encVals_take (k : Nat) (d : List Nat) (j : Nat) (hj : j ≤ nchars k d.length) :
    (encVals k d).take j = (chunksN k j (padded k d)).map ofBitsBE := by
  simp only [encVals, ← List.map_take]
  rw [chunksN_take _ _ _ _ hj]

/-- The k-bit groups of the first `j` characters are the first `k*j` bits of the padded stream. -/
theorem bits_encVals_take (hk : K567 k) (d : List Nat) (j : Nat) (hj : j ≤ nchars k d.length) :
    ((encVals k d).take j).flatMap (bitsBE k) = (padded k d).take (k * j) := by
  rw [encVals_take k d j hj, List.flatMap_map]
  rw [flatMap_congr' (g := fun g => g)]
  · rw [flatMap_id_eq_flatten, chunksN_flatten]
  · intro g hg
    have hl := chunks_padded_len hk d j hj g hg
    have := bitsBE_ofBitsBE g
    rw [hl] at this
    simpa using this

theorem decBits_encFull_take {c : Codec} (wf : WF c) (d : List Nat) (j : Nat)
    (hj : j ≤ nchars c.k d.length) :
    decBits c ((encFull c d).take j) = (padded c.k d).take (c.k * j) := by
  have hk : K567 c.k := wf.k_ok
  rw [← bits_encVals_take hk d j hj]
  simp only [decBits, encFull, ← List.map_take, List.flatMap_map]
  apply flatMap_congr'
  intro v hv
  have hlt := encVals_lt hk d v (List.mem_of_mem_take hv)
  simp [wf.rev_tbl v hlt]

theorem bytes_of_bits (d : List Nat) (hd : Bytes d) (r : List Bool) (u : Nat) (hu : u ≤ d.length) :
    (chunksN 8 u (toBits d ++ r)).map ofBitsBE = d.take u := by
  rw [chunksN_append_left _ _ _ _ (by simp; omega)]
  rw [← chunksN_take 8 d.length u _ hu]
  have : chunksN 8 d.length (toBits d) = d.map (bitsBE 8) := by
    unfold toBits
    exact chunksN_flatMap 8 d (bitsBE 8) (fun x _ => bitsBE_length 8 x)
  rw [this, ← List.map_take, List.map_map]
  have h2 : ∀ x ∈ d.take u, (ofBitsBE ∘ bitsBE 8) x = x := by
    intro x hx
    exact ofBitsBE_bitsBE 8 x (hd x (List.mem_of_mem_take hx))
  rw [List.map_congr_left h2]; simp

/-- Decoding the first `j` characters of an encoding yields the first ⌊k·j/8⌋ input bytes. -/
theorem decAll_encFull_take {c : Codec} (wf : WF c) (d : List Nat) (hd : Bytes d) (j : Nat)
    (hj : j ≤ nchars c.k d.length) :
    decAll c ((encFull c d).take j) = d.take (c.k * j / 8) := by
  have hk : K567 c.k := wf.k_ok
  unfold decAll
  simp only []
  rw [decBits_encFull_take wf d j hj]
  have hlen : ((padded c.k d).take (c.k * j)).length = c.k * j := by
    rw [List.length_take, padded_length hk]
    exact Nat.min_eq_left (Nat.mul_le_mul_left _ hj)
  rw [hlen]
  have hsplit : padded c.k d = (padded c.k d).take (c.k * j) ++ (padded c.k d).drop (c.k * j) :=
    (List.take_append_drop _ _).symm
  have h8 : 8 * (c.k * j / 8) ≤ ((padded c.k d).take (c.k * j)).length := by
    rw [hlen]; exact Nat.mul_div_le _ _
  rw [← chunksN_append_left 8 _ _ ((padded c.k d).drop (c.k * j)) h8, ← hsplit]
  unfold padded
  apply bytes_of_bits d hd
  have h1 := nchars_hi hk d.length
  have h2 : c.k * j ≤ c.k * nchars c.k d.length := Nat.mul_le_mul_left _ hj
  rcases hk with h | h | h <;> rw [h] at h1 h2 ⊢ <;> omega

theorem full_div (hk : K567 k) (n : Nat) : k * nchars k n / 8 = n := by
  have h1 := nchars_lo hk n
  have h2 := nchars_hi hk n
  rcases hk with rfl | rfl | rfl <;> omega

theorem decAll_encFull {c : Codec} (wf : WF c) (d : List Nat) (hd : Bytes d) :
    decAll c (encFull c d) = d := by
  have h := decAll_encFull_take wf d hd (nchars c.k d.length) (Nat.le_refl _)
  rw [full_div wf.k_ok] at h
  have : (encFull c d).take (nchars c.k d.length) = encFull c d := by
    rw [List.take_of_length_le]; rw [encFull_length]; exact Nat.le_refl _
  rw [this] at h
  simpa using h

theorem encFull_mem_tbl {c : Codec} (wf : WF c) (d : List Nat) : ∀ ch ∈ encFull c d, ch ∈ c.tbl := by
  intro ch hch
  simp only [encFull, List.mem_map] at hch
  obtain ⟨v, hv, rfl⟩ := hch
  have hlt := encVals_lt wf.k_ok d v hv
  unfold lookup
  rw [← wf.len] at hlt
  have : c.tbl.getD v 0 = c.tbl[v] := by simp [List.getD, List.getElem?_eq_getElem hlt]
  rw [this]
  exact List.getElem_mem hlt

theorem encFull_nonzero {c : Codec} (wf : WF c) (d : List Nat) : ∀ ch ∈ encFull c d, ch ≠ 0 := by
  intro ch hch
  simp only [encFull, List.mem_map] at hch
  obtain ⟨v, hv, rfl⟩ := hch
  exact wf.nonzero v (encVals_lt wf.k_ok d v hv)

/-- a NUL-free string is looked at in full -/
theorem cstr_of_nonzero (s : List Nat) (h : ∀ ch ∈ s, ch ≠ 0) : cstr s.length s = s := by
  unfold cstr
  rw [List.take_of_length_le (Nat.le_refl _)]
  induction s with
  | nil => rfl
  | cons x xs ih =>
    have hx : x ≠ 0 := h x (by simp)
    simp [hx, ih (fun y hy => h y (by simp [hy]))]

end Iodine.Codec
