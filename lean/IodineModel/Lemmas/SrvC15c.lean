import IodineModel.Lemmas.SrvC15b
/-
Helper lemmas for property C15, part c: `handle_null_request`, `tunnel_dns`, raw mode, the loop
(`topOfLoop`, `dispatch`, `sweep`, `body`, `iteration`) for the fragment-size invariant of part (A).
-/
namespace Iodine.C15L
open Iodine Iodine.Server Iodine.Gen

/-! ### handle_null_request, tunnel_dns -/

/-- the fragment size of slot `v` changed because of query `q` whose data part is `inb` -/
def ChgQ (s : Srv) (q : Query) (inb : List Nat) (r : Res) (v : Nat) : Prop :=
  ((inb.getD 0 0 = 78 ∨ inb.getD 0 0 = 110) ∧ NCase s q inb r v) ∨
  ((inb.getD 0 0 = 86 ∨ inb.getD 0 0 = 118) ∧ VCase q r v)

theorem Ok.noChg {s : Srv} {r : Res} (h : Ok s r) (v : Nat) : ¬ F r.1 v ≠ F s v :=
  fun hv => hv (h.1.F v)

/-- case distinction on an `if` without running `simp` over the branches -/
theorem ite_ind {α : Sort _} {P : α → Prop} {c : Prop} [Decidable c] {a b : α} (ha : c → P a) (hb : ¬ c → P b) :
    P (if c then a else b) := by
  by_cases h : c
  · rw [if_pos h]; exact ha h
  · rw [if_neg h]; exact hb h

def HSpec (s : Srv) (q : Query) (dlen : Nat) (inb : List Nat) (r : Res) : Prop :=
  Ok2 s r ∧ ∀ v, F r.1 v ≠ F s v → 2 ≤ dlen ∧ ChgQ s q inb r v ∧ NoData r.2

theorem hspec_ok {s : Srv} {q : Query} {dlen : Nat} {inb : List Nat} {r : Res} (h : Ok s r) :
    HSpec s q dlen inb r :=
  ⟨h.ok2, fun v hv => absurd hv (h.noChg v)⟩

theorem handleNullRequest_spec (s : Srv) (q : Query) (dlen : Nat) (hi : Inv s) :
    HSpec s q dlen (q.name.take (min dlen 512)) (handleNullRequest s q dlen) := by
  unfold handleNullRequest
  apply ite_ind
  · intro _; exact hspec_ok (ok_refl s)
  · intro hd
    extract_lets inb c
    apply ite_ind
    · intro hc
      have := handleVersion_spec s q inb
      exact ⟨this.1, fun v hv => ⟨Nat.le_of_not_lt hd, Or.inr ⟨hc, this.2.2 v hv⟩, this.2.1⟩⟩
    intro _; apply ite_ind
    · intro _; exact hspec_ok (ok_handleLogin _ _ _)
    intro _; apply ite_ind
    · intro _; exact hspec_ok (ok_handleIp _ _ _)
    intro _; apply ite_ind
    · intro _; exact hspec_ok (ok_handleZ _ _ _)
    intro _; apply ite_ind
    · intro _; exact hspec_ok (ok_handleSwitchCodec _ _ _ _)
    intro _; apply ite_ind
    · intro _; exact hspec_ok (ok_handleOptions _ _ _ _)
    intro _; apply ite_ind
    · intro _; exact hspec_ok (ok_handleDownCodecCheck _ _ _ _)
    intro _; apply ite_ind
    · intro _; exact hspec_ok (ok_handleFragsizeProbe _ _ _ _)
    intro _; apply ite_ind
    · intro hc
      have := handleSetFragsize_spec s q inb
      exact ⟨this.1, fun v hv => ⟨Nat.le_of_not_lt hd, Or.inl ⟨hc, this.2.2 v hv⟩, this.2.1⟩⟩
    intro _; apply ite_ind
    · intro _; exact hspec_ok (ok_handlePing _ _ _ hi)
    intro _; apply ite_ind
    · intro _; exact hspec_ok (ok_handleData _ _ _ _ hi)
    · intro _; exact hspec_ok (ok_refl s)

theorem ok_handleNsRequest (s : Srv) (q : Query) (dlen : Nat) : Ok s (handleNsRequest s q dlen) := by
  unfold handleNsRequest
  split
  · exact ok_refl s
  · exact ok_noData (Pres.refl s) (noData_single_of (fun _ => rfl))

theorem ok_handleARequest (s : Srv) (q : Query) (b : Bool) : Ok s (handleARequest s q b) := by
  unfold handleARequest
  extract_lets dest
  split
  · exact ok_refl s
  · exact ok_noData (Pres.refl s) (noData_single_of (fun _ => rfl))

theorem ok_forwardQuery (s : Srv) (q : Query) : Ok s (forwardQuery s q) :=
  ok_noData (pres_of_users rfl rfl) (noData_single_of (fun _ => rfl))

theorem ok_tunnelBind (s : Srv) (d : List Nat) : Ok s (tunnelBind s d) := by
  unfold tunnelBind
  split
  · exact ok_refl s
  · split
    · exact ok_refl s
    · exact ok_noData (Pres.refl s) (noData_single_of (fun _ => rfl))

/-- the fragment size of slot `v` changed because of the query `q` -/
def QChange (s : Srv) (q : Query) (r : Res) (v : Nat) : Prop :=
  ∃ dlen, Common.queryDatalen q.name s.cfg.topdomain = some dlen ∧ 2 ≤ dlen ∧
    ChgQ s q (q.name.take (min dlen 512)) r v

theorem tunnelDns_spec (s : Srv) (q : Query) (hi : Inv s) :
    Ok2 s (tunnelDns s q) ∧ ∀ v, F (tunnelDns s q).1 v ≠ F s v →
      QChange s q (tunnelDns s q) v ∧ NoData (tunnelDns s q).2 := by
  have fin : ∀ r : Res, Ok s r → Ok2 s r ∧ ∀ v, F r.1 v ≠ F s v → QChange s q r v ∧ NoData r.2 :=
    fun r h => ⟨h.ok2, fun v hv => absurd hv (h.noChg v)⟩
  unfold tunnelDns
  split
  · exact fin _ (ok_refl s)
  · split
    · rename_i dlen hq
      extract_lets n
      split
      · exact fin _ (ok_handleARequest _ _ _)
      · split
        · exact fin _ (ok_handleARequest _ _ _)
        · split
          · have := handleNullRequest_spec s q dlen hi
            unfold HSpec at this
            exact ⟨this.1, fun v hv => ⟨⟨dlen, hq, (this.2 v hv).1, (this.2 v hv).2.1⟩, (this.2 v hv).2.2⟩⟩
          · split
            · exact fin _ (ok_handleNsRequest _ _ _)
            · exact fin _ (ok_refl s)
    · split
      · exact fin _ (ok_forwardQuery _ _)
      · exact fin _ (ok_refl s)

/-! ### raw mode -/

theorem ok_handleRawLogin (s : Srv) (p : List Nat) (q : Query) (u : Nat) : Ok s (handleRawLogin s p q u) := by
  unfold handleRawLogin
  extract_lets x s1 s2 myhash
  have h2 : Pres s s2 := by
    apply Pres.trans ?_ (pres_userSetConnType s1 u .rawUdp)
    exact pres_setUser_same _ _ _ (fun _ => rfl) (fun _ => rfl)
  clear_value s2
  apply ite_ind
  · intro _; exact ok_refl s
  intro _; apply ite_ind
  · intro _; exact ok_refl s
  intro _; apply ite_ind
  · intro _; exact ok_refl s
  intro _; apply ite_ind
  · intro _; exact ok_refl s
  intro _; apply ite_ind
  · intro _; exact ok_refl s
  intro _; apply ite_ind
  · intro _
    exact ok_noData (h2.trans (pres_setUser_same _ _ _ (fun _ => rfl) (fun _ => rfl))) (noData_sendRaw _ _ _ _ _)
  · intro _; exact ok_refl s

theorem ok_handleRawData (s : Srv) (p : List Nat) (q : Query) (u : Nat) : Ok s (handleRawData s p q u) := by
  unfold handleRawData
  extract_lets s1
  have h1 : Pres s s1 := pres_setUser_same _ _ _ (fun _ => rfl) (fun _ => rfl)
  clear_value s1
  apply ite_ind
  · intro _; exact ok_refl s
  intro _; apply ite_ind
  · intro _; exact ok_refl s
  · intro _; exact (ok_handleFullPacket s1 u).pre h1

theorem ok_handleRawPing (s : Srv) (q : Query) (u : Nat) : Ok s (handleRawPing s q u) := by
  unfold handleRawPing
  split
  · exact ok_refl s
  · split
    · exact ok_refl s
    · exact ok_noData (pres_setUser_same _ _ _ (fun _ => rfl) (fun _ => rfl)) (noData_sendRaw _ _ _ _ _)

theorem ok_rawDecode (s : Srv) (p : List Nat) (src : Addr) (r : Res) (h : rawDecode s p src = some r) : Ok s r := by
  unfold rawDecode at h
  split at h
  · cases h
  · split at h
    · cases h
    · extract_lets b u cmd q body at h
      split at h
      · cases h; exact ok_handleRawLogin _ _ _ _
      · split at h
        · cases h; exact ok_handleRawData _ _ _ _
        · split at h
          · cases h; exact ok_handleRawPing _ _ _
          · cases h; exact ok_refl s


/-! ### the loop -/

theorem clearNewFrom_length (now c : Nat) : ∀ (xs : List Session) (i : Nat),
    (clearNewFrom now c xs i).length = xs.length := by
  intro xs
  induction xs with
  | nil => intro i; rfl
  | cons x xs ih => intro i; simp [clearNewFrom, ih]

/-- the top of the loop changes at most `qsNew` (to `false`) in each slot -/
theorem clearNewFrom_getD (now c : Nat) (d : Session) : ∀ (xs : List Session) (i v : Nat),
    (clearNewFrom now c xs i).getD v d = xs.getD v d ∨
    (clearNewFrom now c xs i).getD v d = { xs.getD v d with qsNew := false } := by
  intro xs
  induction xs with
  | nil => intro i v; left; rfl
  | cons x xs ih =>
    intro i v
    cases v with
    | zero =>
      simp only [clearNewFrom, List.getD_cons_zero]
      split
      · right; rfl
      · left; rfl
    | succ v =>
      simp only [clearNewFrom, List.getD_cons_succ]
      exact ih (i + 1) v

theorem getUser_topOfLoop (s : Srv) (v : Nat) :
    getUser (topOfLoop s).1 v = getUser s v ∨ getUser (topOfLoop s).1 v = { getUser s v with qsNew := false } := by
  unfold topOfLoop getUser
  exact clearNewFrom_getD _ _ _ _ _ _

theorem pres_topOfLoop (s : Srv) : Pres s (topOfLoop s).1 := by
  refine ⟨rfl, ?_, fun v => ?_⟩
  · unfold topOfLoop
    exact clearNewFrom_length _ _ _ _
  · rcases getUser_topOfLoop s v with h | h
    · rw [h]; exact Keep.refl _
    · rw [h]; exact keep_of_same rfl rfl

theorem pres_setNow (s : Srv) (n : Nat) : Pres s { s with now := n } := pres_of_users rfl rfl

theorem ok_sweepFrom : ∀ (n i : Nat) (s : Srv), Ok s (sweepFrom n i s) := by
  intro n
  induction n with
  | zero => intro i s; exact ok_refl s
  | succ n ih =>
    intro i s
    unfold sweepFrom
    extract_lets x r
    have hr : Ok s r := by
      unfold r
      apply ite_ind
      · intro _; exact ok_sendChunk s i .qs
      · intro _; exact ok_refl s
    clear_value r
    exact hr.andThen (fun s' => ih (i + 1) s')

theorem ok_sweep (s : Srv) : Ok s (sweep s) := ok_sweepFrom _ _ _

/-- the handler phase -/
def DSpec (s : Srv) (inp : Input) (r : Res) : Prop :=
  Ok2 s r ∧ ∀ v, F r.1 v ≠ F s v → ∃ q, inp = .q q ∧ QChange s q r v ∧ NoData r.2

theorem dspec_ok {s : Srv} {inp : Input} {r : Res} (h : Ok s r) : DSpec s inp r :=
  ⟨h.ok2, fun v hv => absurd hv (h.noChg v)⟩

theorem dispatch_spec (s : Srv) (inp : Input) (tunsel : Bool) (hi : Inv s) : DSpec s inp (dispatch s inp tunsel) := by
  unfold dispatch
  cases inp with
  | tick => exact dspec_ok (ok_refl s)
  | tun frame =>
    dsimp only
    apply ite_ind
    · intro _; exact dspec_ok (ok_tunnelTun _ _)
    · intro _; exact dspec_ok (ok_refl s)
  | q q =>
    have := tunnelDns_spec s q hi
    exact ⟨this.1, fun v hv => ⟨q, rfl, this.2 v hv⟩⟩
  | rawf src bytes =>
    dsimp only
    split
    · rename_i r hr
      exact dspec_ok (ok_rawDecode _ _ _ _ hr)
    · exact dspec_ok (ok_refl s)
  | bind bytes =>
    dsimp only
    apply ite_ind
    · intro _; exact dspec_ok (ok_tunnelBind _ _)
    · intro _; exact dspec_ok (ok_refl s)

theorem mem_subset_append_left {α} {a b : List α} {x : α} (h : x ∈ a) : x ∈ a ++ b := List.mem_append_left b h

theorem ChgQ.mono {s : Srv} {q : Query} {inb : List Nat} {r r' : Res} {v : Nat} (h : ChgQ s q inb r v)
    (hf : F r'.1 v = F r.1 v) (he : ∀ e ∈ r.2, e ∈ r'.2) : ChgQ s q inb r' v := by
  rcases h with ⟨hc, h⟩ | ⟨hc, h⟩
  · exact Or.inl ⟨hc, h.1, h.2.1, h.2.2.1, h.2.2.2.1, hf.trans h.2.2.2.2.1, he _ h.2.2.2.2.2⟩
  · obtain ⟨h1, seed, dn, h2⟩ := h
    exact Or.inr ⟨hc, hf.trans h1, seed, dn, he _ h2⟩

theorem QChange.mono {s : Srv} {q : Query} {r r' : Res} {v : Nat} (h : QChange s q r v)
    (hf : F r'.1 v = F r.1 v) (he : ∀ e ∈ r.2, e ∈ r'.2) : QChange s q r' v := by
  obtain ⟨dlen, h1, h2, h3⟩ := h
  exact ⟨dlen, h1, h2, h3.mono hf he⟩

/-- handlers, marker, sweep -/
def BSpec (s : Srv) (inp : Input) (r : Res) : Prop :=
  Ok2 s r ∧ ∀ v, F r.1 v ≠ F s v → ∃ q, inp = .q q ∧ QChange s q r v ∧
    ∃ pre post, r.2 = pre ++ Event.sweep :: post ∧ NoData pre

theorem body_spec (s : Srv) (inp : Input) (tunsel : Bool) (hi : Inv s) : BSpec s inp (body s inp tunsel) := by
  have hd := dispatch_spec s inp tunsel hi
  have hsw := ok_sweep (dispatch s inp tunsel).1
  have key : BSpec s inp (andThen (andThen (dispatch s inp tunsel) (fun s => (s, [Event.sweep]))) sweep) := by
    refine ⟨⟨?_, ?_, ?_, ?_⟩, ?_⟩
    · exact hsw.1.1.trans hd.1.cfg
    · exact hsw.1.2.1.trans hd.1.len
    · intro h; exact hsw.1.inv (hd.1.inv h)
    · refine bnd_append (bnd_append ?_ ?_) ?_
      · exact hd.1.bnd.of_F (fun v => hsw.1.F v)
      · exact (noData_single_of (fun _ => rfl)).bnd _
      · exact hsw.2.of_F (fun v => hsw.1.F v)
    · intro v hv
      have hv' : F (dispatch s inp tunsel).1 v ≠ F s v := by
        intro h; apply hv
        exact (hsw.1.F v).trans h
      obtain ⟨q, hq, hc, hn⟩ := hd.2 v hv'
      refine ⟨q, hq, hc.mono (hsw.1.F v) (fun e he => ?_), (dispatch s inp tunsel).2,
        (sweep (dispatch s inp tunsel).1).2, ?_, hn⟩
      · exact List.mem_append_left _ (List.mem_append_left _ he)
      · simp [andThen]
  unfold body
  extract_lets r
  cases inp with
  | tun frame =>
    dsimp only
    apply ite_ind
    · intro _; exact key
    · intro _
      refine ⟨⟨key.1.cfg, key.1.len, key.1.inv, bnd_append key.1.bnd ((noData_single_of (fun _ => rfl)).bnd _)⟩, ?_⟩
      intro v hv
      obtain ⟨q, hq, _⟩ := key.2 v hv
      cases hq
  | tick => exact key
  | q q => exact key
  | rawf a b => exact key
  | bind b => exact key

/-- one iteration -/
theorem iteration_spec (s : Srv) (inp : Input) (now' : Nat) (hi : Inv s) :
    Inv (iteration s inp now').1 ∧ Bnd (iteration s inp now').1 (iteration s inp now').2.1 ∧
    (iteration s inp now').1.cfg = s.cfg ∧
    ∀ v, F (iteration s inp now').1 v ≠ F s v →
      ∃ q, inp = .q q ∧ QChange { (topOfLoop s).1 with now := now' } q
        ((iteration s inp now').1, (iteration s inp now').2.1) v ∧
        ∃ pre post, (iteration s inp now').2.1 = pre ++ Event.sweep :: post ∧ NoData pre := by
  have h0 : Pres s { (topOfLoop s).1 with now := now' } := (pres_topOfLoop s).trans (pres_setNow _ _)
  have hb := body_spec { (topOfLoop s).1 with now := now' } inp (topOfLoop s).2.2 (h0.inv hi)
  refine ⟨hb.1.inv (h0.inv hi), hb.1.bnd, hb.1.cfg.trans h0.1, fun v hv => ?_⟩
  apply hb.2 v
  intro h
  apply hv
  exact h.trans (h0.F v)


/-! ### a rejected `N` request (forward direction) -/

theorem decAll_length (c : Codec.Codec) (s : List Nat) : (Codec.decAll c s).length = c.k * s.length / 8 := by
  unfold Codec.decAll Codec.decBits
  simp only [List.length_map, chunksN_length]
  congr 1
  induction s with
  | nil => simp
  | cons a s ih => simp only [List.flatMap_cons, List.length_append, bitsBE_length, ih, List.length_cons]; rw [Nat.mul_succ]; omega

theorem cstr_length_le (n : Nat) (s : List Nat) : (Codec.cstr n s).length ≤ s.length := by
  unfold Codec.cstr
  have h1 : ∀ (p : Nat → Bool) (l : List Nat), (l.takeWhile p).length ≤ l.length := by
    intro p l
    induction l with
    | nil => simp
    | cons a l ih => simp only [List.takeWhile_cons]; split <;> simp <;> omega
  exact Nat.le_trans (h1 _ _) (List.length_take_le' _ _)

theorem unpackData_b32_length_le (cap : Nat) (d : List Nat) :
    (Encoding.unpackData Codec.b32 cap d).length ≤ 5 * d.length / 8 := by
  unfold Encoding.unpackData Codec.dec
  dsimp only
  have h1 : (Encoding.undotify d).length ≤ d.length := by
    unfold Encoding.undotify
    exact List.length_filter_le _ _
  have h2 := cstr_length_le (Encoding.undotify d).length (Encoding.undotify d)
  have h3 := decAll_length Codec.b32 (Codec.cstr (Encoding.undotify d).length (Encoding.undotify d))
  have h4 : Codec.b32.k = 5 := rfl
  rw [h4] at h3
  have h5 := List.length_take_le' cap (Codec.decAll Codec.b32 (Codec.cstr (Encoding.undotify d).length (Encoding.undotify d)))
  have h6 : 5 * (Codec.cstr (Encoding.undotify d).length (Encoding.undotify d)).length / 8 ≤ 5 * d.length / 8 :=
    Nat.div_le_div_right (Nat.mul_le_mul_left 5 (Nat.le_trans h2 h1))
  omega

theorem getD_take_zero (l : List Nat) (m : Nat) (hm : 0 < m) : (l.take m).getD 0 0 = l.getD 0 0 := by
  cases l with
  | nil => simp
  | cons a l =>
    cases m with
    | zero => omega
    | succ m => simp

theorem handleSetFragsize_badfrag (s : Srv) (q : Query) (inb : List Nat) (u : Nat)
    (hlen : 3 ≤ (nUnpacked inb).length) (hu : charVal ((nUnpacked inb).getD 0 0) = (u : Int))
    (hchk : checkAuthenticatedUserAndIpAndOptions s u q = false) (hn : nSize inb < 2) :
    handleSetFragsize s q inb = (s, [writeDns q (ascii "BADFRAG") (getUser s u).downenc]) := by
  unfold handleSetFragsize
  unfold nUnpacked at hlen hu
  unfold nSize nUnpacked at hn
  dsimp only
  rw [if_neg (by omega), hu, if_neg (by rw [hchk]; simp), if_pos hn]
  simp

theorem tunnelDns_badfrag (s : Srv) (q : Query) (dlen u : Nat)
    (hq : Common.queryDatalen q.name s.cfg.topdomain = some dlen) (hd : 2 ≤ dlen)
    (hty : q.type = T_NULL ∨ q.type = T_PRIVATE ∨ q.type = T_CNAME ∨ q.type = T_A ∨ q.type = T_MX
                ∨ q.type = T_SRV ∨ q.type = T_TXT)
    (hc : (q.name.take (min dlen 512)).getD 0 0 = 78 ∨ (q.name.take (min dlen 512)).getD 0 0 = 110)
    (hlen : 3 ≤ (nUnpacked (q.name.take (min dlen 512))).length)
    (hu : charVal ((nUnpacked (q.name.take (min dlen 512))).getD 0 0) = (u : Int))
    (hchk : checkAuthenticatedUserAndIpAndOptions s u q = false) (hn : nSize (q.name.take (min dlen 512)) < 2) :
    tunnelDns s q = (s, [writeDns q (ascii "BADFRAG") (getUser s u).downenc]) := by
  have hc0 : q.name.getD 0 0 = 78 ∨ q.name.getD 0 0 = 110 := by
    rw [getD_take_zero _ _ (by omega)] at hc; exact hc
  have hne : ¬ q.name.length = 0 := by
    intro h
    have : q.name = [] := List.eq_nil_of_length_eq_zero h
    rw [this] at hc0
    simp at hc0
  have h3 : dlen ≠ 3 := by
    intro h
    subst h
    have := unpackData_b32_length_le 65536 ((q.name.take (min 3 512)).drop 1)
    unfold nUnpacked at hlen
    simp only [List.length_drop, List.length_take] at this
    omega
  unfold tunnelDns
  rw [if_neg hne]
  simp only [hq]
  rw [if_neg (fun h => h3 h.1), if_neg (by intro h; rcases h.2.2.1 with h | h <;> omega), if_pos hty]
  unfold handleNullRequest
  rw [if_neg (by omega)]
  dsimp only
  have hv : ¬ ((q.name.take (min dlen 512)).getD 0 0 = 86 ∨ (q.name.take (min dlen 512)).getD 0 0 = 118) := by omega
  rw [if_neg (by omega), if_neg (by omega), if_neg (by omega), if_neg (by omega), if_neg (by omega), if_neg (by omega),
    if_neg (by omega), if_neg (by omega), if_pos hc]
  exact handleSetFragsize_badfrag s q _ u hlen hu hchk hn


/-- the state the handlers of an iteration run in -/
def handlerState (s : Srv) (now' : Nat) : Srv := { (topOfLoop s).1 with now := now' }

theorem out_q (s : Srv) (q : Query) (now' : Nat) :
    out s ⟨.q q, now'⟩ = (tunnelDns (handlerState s now') q).2 ++ [Event.sweep] ++
      (sweep (tunnelDns (handlerState s now') q).1).2 := rfl

theorem getUser_handlerState (s : Srv) (now' v : Nat) :
    getUser (handlerState s now') v = getUser s v ∨ getUser (handlerState s now') v = { getUser s v with qsNew := false } :=
  getUser_topOfLoop s v

theorem handlerState_cfg (s : Srv) (now' : Nat) : (handlerState s now').cfg = s.cfg := rfl
theorem handlerState_now (s : Srv) (now' : Nat) : (handlerState s now').now = now' := rfl

/-- the session checks do not look at what the top of the loop changes -/
theorem check_handlerState (s : Srv) (now' : Nat) (uid : Int) (q : Query) :
    checkAuthenticatedUserAndIpAndOptions (handlerState s now') uid q =
    checkAuthenticatedUserAndIpAndOptions { s with now := now' } uid q := by
  have hg : ∀ v, getUser { s with now := now' } v = getUser s v := fun v => rfl
  have hf : ∀ v, (getUser (handlerState s now') v).active = (getUser s v).active ∧
      (getUser (handlerState s now') v).disabled = (getUser s v).disabled ∧
      (getUser (handlerState s now') v).lastPkt = (getUser s v).lastPkt ∧
      (getUser (handlerState s now') v).host = (getUser s v).host ∧
      (getUser (handlerState s now') v).authenticated = (getUser s v).authenticated ∧
      (getUser (handlerState s now') v).optionsLocked = (getUser s v).optionsLocked := by
    intro v
    rcases getUser_handlerState s now' v with h | h <;> rw [h] <;> exact ⟨rfl, rfl, rfl, rfl, rfl, rfl⟩
  unfold checkAuthenticatedUserAndIpAndOptions checkAuthenticatedUserAndIp checkUserAndIp
  simp only [hg, handlerState_cfg, handlerState_now, (hf _).1, (hf _).2.1, (hf _).2.2.1, (hf _).2.2.2.1,
    (hf _).2.2.2.2.1, (hf _).2.2.2.2.2]

theorem downenc_handlerState (s : Srv) (now' v : Nat) :
    (getUser (handlerState s now') v).downenc = (getUser s v).downenc := by
  rcases getUser_handlerState s now' v with h | h <;> rw [h]


/-! ### reachable states -/

theorem cacheOK_zero (ip : Nat) : CacheOK (Session.zero ip) := by
  intro e he
  simp only [Session.zero, List.mem_replicate] at he
  rw [he.2]
  exact ⟨Nat.zero_le _, Nat.zero_le _, fun h => absurd rfl h⟩

/-- every slot of the start state is a zeroed slot -/
theorem getUser_start (cfg : Config) (rnd : List Nat) (u : Nat) : ∃ ip, getUser (start cfg rnd) u = Session.zero ip := by
  unfold getUser start Srv.init
  dsimp only
  rcases getD_mem_or ((Users.initUsers cfg.myIp cfg.netmask).map Session.zero) u (Session.zero 0) with h | h
  · obtain ⟨ip, _, hip⟩ := List.mem_map.1 h
    exact ⟨ip, hip.symm⟩
  · exact ⟨0, h⟩

theorem inv_start (cfg : Config) (rnd : List Nat) : Inv (start cfg rnd) := by
  intro u
  obtain ⟨ip, h⟩ := getUser_start cfg rnd u
  rw [h]
  exact cacheOK_zero ip

theorem reachable_inv {cfg : Config} {s : Srv} (h : Reachable cfg s) : Inv s ∧ s.cfg.topdomain = cfg.topdomain := by
  induction h with
  | init rnd => exact ⟨inv_start cfg rnd, rfl⟩
  | step st _ _ ih =>
    have := iteration_spec _ st.inp st.now ih.1
    refine ⟨this.1, ?_⟩
    unfold next
    rw [this.2.2.1]
    exact ih.2

end Iodine.C15L
