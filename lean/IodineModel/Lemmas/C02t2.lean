import IodineModel.Lemmas.C02t
/-
TESTS, part 2 (see `C02t.lean`): lazy mode; both directions at once.
-/
namespace Iodine.C02L
open Iodine Iodine.World

/-- TEST lazy mode, upstream -/
theorem test_lazy_up_1 : deliversOnce (demoLazy .b32 .b32) true (demoFrame 9 4) 3 = true := by decide +kernel
theorem test_lazy_up_2 : deliversOnce (demoLazy .b32 .b32) true (demoFrame 9 30) 5 = true := by decide +kernel
theorem test_lazy_up_5 : deliversOnce (demoLazy .b32 .b32) true (demoFrame 9 100) 11 = true := by decide +kernel

/-- TEST lazy mode, downstream -/
theorem test_lazy_down_1 : deliversOnce (demoLazy .b32 .b32) false (demoFrame 2 4) 3 = true := by decide +kernel
theorem test_lazy_down_2 : deliversOnce (demoLazy .b32 .b32) false (demoFrame 2 30) 5 = true := by decide +kernel
theorem test_lazy_down_5 : deliversOnce (demoLazy .b32 .b32) false (demoFrame 2 100) 11 = true := by decide +kernel

/-- TEST both directions at once in lazy mode: a packet is offered on each side before anything is delivered -/
theorem test_lazy_both :
    (let w := runPrompt 0 60 (step (step (demoLazy .b32 .b32) (.offerC (demoFrame 9 30))) (.offerS (demoFrame 2 30)))
     quiet 0 w && w.tunS == [demoFrame 9 30] && w.tunC == [demoFrame 2 30]) = true := by decide +kernel

end Iodine.C02L
