import IodineModel.Lemmas.SrvC04b
import IodineModel.Lemmas.SrvC04c
import IodineModel.Lemmas.Users
/-
Helper lemmas for C04, part d: slot lookup / allocation on the server state, and the frame of every DNS-mode handler.
-/
namespace Iodine.C04L
open Iodine Iodine.Server Iodine.Gen

/-! ### the slot table seen through `getUser` -/

theorem toSlot_getElem (s : Srv) (k : Nat) (hk : k < (s.users.map toSlot).length) :
    (s.users.map toSlot)[k] = toSlot (getUser s k) := by
  simp only [List.length_map] at hk
  unfold getUser
  simp [hk]

/-- slot `x` is a live logged-in session with tunnel address `ip` -/
def OwnsM (x : Session) (now ip : Nat) : Prop :=
  x.active = true ∧ x.authenticated = true ∧ x.disabled = false ∧ now < x.lastPkt + 60 ∧ x.tunIp = ip

/-- slot `x` may be handed out -/
def ReusableM (x : Session) (now : Nat) : Prop :=
  (x.active = false ∨ x.lastPkt + 60 < now) ∧ x.disabled = false

/-- `find_user_by_ip` returns the first live logged-in slot with that tunnel address -/
theorem findUserByIp_some_iff (s : Srv) (ip u : Nat) :
    findUserByIp s ip = some u ↔
      u < s.users.length ∧ OwnsM (getUser s u) s.now ip ∧ ∀ j, j < u → ¬ OwnsM (getUser s j) s.now ip := by
  unfold findUserByIp Users.findUserByIp
  rw [Users.findUserByIpFrom_some]
  constructor
  · rintro ⟨k, hk, hlt, hp, hmin⟩
    obtain rfl : u = k := by omega
    refine ⟨by simpa using hlt, ?_, ?_⟩
    · rw [toSlot_getElem s u hlt] at hp; exact hp
    · intro j hj
      have := hmin j hj
      rw [toSlot_getElem s j (by omega)] at this; exact this
  · rintro ⟨hlt, hp, hmin⟩
    have hlt' : u < (s.users.map toSlot).length := by simpa using hlt
    refine ⟨u, by omega, hlt', ?_, ?_⟩
    · rw [toSlot_getElem s u hlt']; exact hp
    · intro j hj
      rw [toSlot_getElem s j (by omega)]; exact hmin j hj

theorem findUserByIp_none_iff (s : Srv) (ip : Nat) :
    findUserByIp s ip = none ↔ ∀ j, j < s.users.length → ¬ OwnsM (getUser s j) s.now ip := by
  constructor
  · intro h j hj hown
    -- take the first owner
    have : ∃ u, u < s.users.length ∧ OwnsM (getUser s u) s.now ip ∧ ∀ j, j < u → ¬ OwnsM (getUser s j) s.now ip := by
      induction j using Nat.strongRecOn with
      | _ j ih =>
        by_cases hex : ∃ i, i < j ∧ OwnsM (getUser s i) s.now ip
        · obtain ⟨i, hi, hio⟩ := hex
          exact ih i hi (by omega) hio
        · exact ⟨j, hj, hown, fun i hi hio => hex ⟨i, hi, hio⟩⟩
    obtain ⟨u, hu⟩ := this
    rw [(findUserByIp_some_iff s ip u).2 hu] at h
    cases h
  · intro h
    cases hf : findUserByIp s ip with
    | none => rfl
    | some u =>
      obtain ⟨hlt, hp, _⟩ := (findUserByIp_some_iff s ip u).1 hf
      exact absurd hp (h u hlt)

/-! ### find_available_user -/

theorem findAvailableFrom_fst (now : Nat) : ∀ (slots : List Users.Slot) (i u : Nat),
    (Users.findAvailableFrom now slots i).1 = some u ↔
      ∃ k, u = i + k ∧ ∃ hk : k < slots.length,
        ((slots[k].active = false ∨ slots[k].lastPkt + 60 < now) ∧ slots[k].disabled = false) ∧
        ∀ j (hj : j < k), ¬ ((slots[j].active = false ∨ slots[j].lastPkt + 60 < now) ∧ slots[j].disabled = false) := by
  intro slots
  induction slots with
  | nil => intro i u; simp [Users.findAvailableFrom]
  | cons x rest ih =>
    intro i u
    simp only [Users.findAvailableFrom]
    split
    · next hc =>
      have hc' : (x.active = false ∨ x.lastPkt + 60 < now) ∧ x.disabled = false := by simpa using hc
      constructor
      · intro h
        simp only [Option.some.injEq] at h
        exact ⟨0, by omega, by simp, by simpa using hc', by intro j hj; omega⟩
      · rintro ⟨k, rfl, hk, _, hmin⟩
        cases k with
        | zero => rfl
        | succ k => exact absurd (by simpa using hc') (hmin 0 (by omega))
    · next hc =>
      have hc' : ¬ ((x.active = false ∨ x.lastPkt + 60 < now) ∧ x.disabled = false) := by simpa using hc
      dsimp only
      rw [ih (i + 1) u]
      constructor
      · rintro ⟨k, rfl, hk, hp, hmin⟩
        refine ⟨k + 1, by omega, by simpa using hk, by simpa using hp, ?_⟩
        intro j hj
        cases j with
        | zero => simpa using hc'
        | succ j => simpa using hmin j (by omega)
      · rintro ⟨k, rfl, hk, hp, hmin⟩
        cases k with
        | zero => exact absurd (by simpa using hp) hc'
        | succ k =>
          refine ⟨k, by omega, by simpa using hk, by simpa using hp, ?_⟩
          intro j hj
          simpa using hmin (j + 1) (by omega)

theorem findAvailableUser_fst (s : Srv) :
    (findAvailableUser s).1 = (Users.findAvailableUser (s.users.map toSlot) s.now).1 := by
  unfold findAvailableUser
  split <;> next h => rw [h]

theorem findAvailableUser_snd (s : Srv) (u : Nat) (h : (findAvailableUser s).1 = some u) :
    (findAvailableUser s).2 = setUser s u (claim s.now) := by
  rw [findAvailableUser_fst] at h
  unfold findAvailableUser
  rw [h]

theorem findAvailableUser_snd_none (s : Srv) (h : (findAvailableUser s).1 = none) :
    (findAvailableUser s).2 = s := by
  rw [findAvailableUser_fst] at h
  unfold findAvailableUser
  rw [h]

/-- `find_available_user` returns the first reusable slot -/
theorem findAvailableUser_some_iff (s : Srv) (u : Nat) :
    (findAvailableUser s).1 = some u ↔
      u < s.users.length ∧ ReusableM (getUser s u) s.now ∧ ∀ j, j < u → ¬ ReusableM (getUser s j) s.now := by
  rw [findAvailableUser_fst]
  unfold Users.findAvailableUser
  rw [findAvailableFrom_fst]
  constructor
  · rintro ⟨k, hk, hlt, hp, hmin⟩
    obtain rfl : u = k := by omega
    refine ⟨by simpa using hlt, ?_, ?_⟩
    · rw [toSlot_getElem s u hlt] at hp; exact hp
    · intro j hj
      have := hmin j hj
      rw [toSlot_getElem s j (by omega)] at this; exact this
  · rintro ⟨hlt, hp, hmin⟩
    have hlt' : u < (s.users.map toSlot).length := by simpa using hlt
    refine ⟨u, by omega, hlt', ?_, ?_⟩
    · rw [toSlot_getElem s u hlt']; exact hp
    · intro j hj
      rw [toSlot_getElem s j (by omega)]; exact hmin j hj

theorem findAvailableUser_none_iff (s : Srv) :
    (findAvailableUser s).1 = none ↔ ∀ j, j < s.users.length → ¬ ReusableM (getUser s j) s.now := by
  constructor
  · intro h j hj hown
    have : ∃ u, u < s.users.length ∧ ReusableM (getUser s u) s.now ∧ ∀ j, j < u → ¬ ReusableM (getUser s j) s.now := by
      induction j using Nat.strongRecOn with
      | _ j ih =>
        by_cases hex : ∃ i, i < j ∧ ReusableM (getUser s i) s.now
        · obtain ⟨i, hi, hio⟩ := hex
          exact ih i hi (by omega) hio
        · exact ⟨j, hj, hown, fun i hi hio => hex ⟨i, hi, hio⟩⟩
    obtain ⟨u, hu⟩ := this
    rw [(findAvailableUser_some_iff s u).2 hu] at h
    cases h
  · intro h
    cases hf : (findAvailableUser s).1 with
    | none => rfl
    | some u =>
      obtain ⟨hlt, hp, _⟩ := (findAvailableUser_some_iff s u).1 hf
      exact absurd hp (h u hlt)

/-! ### the V handler -/

/-- `version` of the V handler -/
def versionOf (inb : List Nat) : Nat :=
  if (Encoding.unpackData Codec.b32 65536 (inb.drop 1)).length > 4 then
    beVal ((Encoding.unpackData Codec.b32 65536 (inb.drop 1)).take 4) else 0

theorem handleVersion_eq (s : Srv) (q : Query) (inb : List Nat) :
    handleVersion s q inb =
      if versionOf inb = PROTOCOL_VERSION then
        match findAvailableUser s with
        | (some u, s1) =>
          (setUser (setUser (popRand s1).2 u fun x =>
              { x with seed := (popRand s1).1, host := q.from_, q := q, encoder := .b32, downenc := chT }) u resetSession,
            [sendVersionResponse (setUser (popRand s1).2 u fun x =>
              { x with seed := (popRand s1).1, host := q.from_, q := q, encoder := .b32, downenc := chT })
              .ack (popRand s1).1 u q])
        | (none, s1) => (s1, [sendVersionResponse s1 .full s1.cfg.createdUsers 0 q])
      else (s, [sendVersionResponse s .nack PROTOCOL_VERSION 0 q]) := rfl

/-- which branch `handle_version` takes -/
theorem handleVersion_cases (s : Srv) (q : Query) (inb : List Nat) :
    (∃ u, versionOf inb = PROTOCOL_VERSION ∧ (findAvailableUser s).1 = some u ∧
        (handleVersion s q inb).1 = setUser (setUser (popRand (setUser s u (claim s.now))).2 u fun x =>
          { x with seed := (popRand (setUser s u (claim s.now))).1, host := q.from_, q := q, encoder := .b32,
                   downenc := chT }) u resetSession ∧
        (handleVersion s q inb).2 = [sendVersionResponse (setUser (popRand (setUser s u (claim s.now))).2 u fun x =>
          { x with seed := (popRand (setUser s u (claim s.now))).1, host := q.from_, q := q, encoder := .b32,
                   downenc := chT }) .ack (popRand (setUser s u (claim s.now))).1 u q]) ∨
    ((handleVersion s q inb).1 = s ∧
      ((handleVersion s q inb).2 = [sendVersionResponse s .full s.cfg.createdUsers 0 q] ∨
       (handleVersion s q inb).2 = [sendVersionResponse s .nack PROTOCOL_VERSION 0 q])) := by
  rw [handleVersion_eq]
  by_cases hv : versionOf inb = PROTOCOL_VERSION
  · rw [if_pos hv]
    cases h : (findAvailableUser s).1 with
    | some u =>
      left
      refine ⟨u, hv, rfl, ?_⟩
      have e : findAvailableUser s = (some u, setUser s u (claim s.now)) :=
        Prod.ext h (findAvailableUser_snd s u h)
      rw [e]
      exact ⟨rfl, rfl⟩
    | none =>
      right
      have e : findAvailableUser s = (none, s) := Prod.ext h (findAvailableUser_snd_none s h)
      rw [e]
      exact ⟨rfl, Or.inl rfl⟩
  · rw [if_neg hv]
    right; exact ⟨rfl, Or.inr rfl⟩

theorem frame_handleVersion (s : Srv) (q : Query) (inb : List Nat) :
    Frame erTun (fun v => (findAvailableUser s).1 = some v) s (handleVersion s q inb).1 := by
  rcases handleVersion_cases s q inb with ⟨u, _, hu, hs, _⟩ | ⟨hs, _⟩
  · rw [hs]
    have : Frame erTun (· = u) s (setUser (setUser (popRand (setUser s u (claim s.now))).2 u fun x =>
          { x with seed := (popRand (setUser s u (claim s.now))).1, host := q.from_, q := q, encoder := .b32,
                   downenc := chT }) u resetSession) := by
      refine Frame.trans ?_ (Frame.set erTun _ u _ (fun _ => rfl))
      refine Frame.trans ?_ (Frame.set erTun _ u _ (fun _ => rfl))
      refine Frame.trans ?_ (Frame.popRand erTun _ _)
      exact Frame.set erTun _ u _ (fun _ => rfl)
    exact this.mono (fun v hv => by rw [hv]; exact hu)
  · rw [hs]; exact Frame.refl _ _ _

/-! ### the control handlers -/

theorem frame_handleLogin (s : Srv) (q : Query) (dlen : Nat) :
    Frame erLogin (fun v => rejected s q (uidOf q dlen .login) .login = false ∧ v = (uidOf q dlen .login).toNat) s
      (handleLogin s q (inbOf q dlen)).1 := by
  unfold handleLogin
  dsimp only
  split
  · exact Frame.refl _ _ _
  have hu : charVal ((Encoding.unpackData Codec.b32 65536 (List.drop 1 (inbOf q dlen))).getD 0 0) =
      uidOf q dlen .login := rfl
  rw [hu]
  cases hr : checkUserAndIp s (uidOf q dlen .login) q with
  | true => rw [if_pos rfl]; exact Frame.refl _ _ _
  | false =>
    rw [if_neg (by simp)]
    have hm : ∀ v, v = (uidOf q dlen .login).toNat →
        rejected s q (uidOf q dlen .login) .login = false ∧ v = (uidOf q dlen .login).toNat :=
      fun v hv => ⟨hr, hv⟩
    split
    · refine Frame.mono ?_ hm
      refine Frame.trans ?_ (Frame.set erLogin _ _ _ (fun _ => rfl))
      exact Frame.set erLogin _ _ _ (fun _ => rfl)
    · refine Frame.mono ?_ hm
      exact Frame.set erLogin _ _ _ (fun _ => rfl)

theorem frame_userSwitchCodec (s : Srv) (u : Nat) (e : Enc) : Frame erId (· = u) s (userSwitchCodec s u e) := by
  unfold userSwitchCodec
  split
  · exact Frame.refl _ _ _
  · exact Frame.set erId _ _ _ (fun _ => rfl)

theorem frame_handleSwitchCodec (s : Srv) (q : Query) (dlen : Nat) :
    Frame erId (fun v => rejected s q (uidOf q dlen .switch) .switch = false ∧ v = (uidOf q dlen .switch).toNat) s
      (handleSwitchCodec s q dlen (inbOf q dlen)).1 := by
  unfold handleSwitchCodec
  dsimp only
  split
  · exact Frame.refl _ _ _
  have hu : ((b32_8to5 ((inbOf q dlen).getD 1 0) : Nat) : Int) = uidOf q dlen .switch := rfl
  rw [hu]
  cases hr : checkAuthenticatedUserAndIpAndOptions s (uidOf q dlen .switch) q with
  | true => rw [if_pos rfl]; exact Frame.refl _ _ _
  | false =>
    rw [if_neg (by simp)]
    have hm : ∀ v, v = (uidOf q dlen .switch).toNat →
        rejected s q (uidOf q dlen .switch) .switch = false ∧ v = (uidOf q dlen .switch).toNat :=
      fun v hv => ⟨hr, hv⟩
    split
    · exact (frame_userSwitchCodec s _ _).mono hm
    split
    · exact (frame_userSwitchCodec s _ _).mono hm
    split
    · exact (frame_userSwitchCodec s _ _).mono hm
    split
    · exact (frame_userSwitchCodec s _ _).mono hm
    exact Frame.refl _ _ _

theorem frame_handleOptions (s : Srv) (q : Query) (dlen : Nat) :
    Frame erId (fun v => rejected s q (uidOf q dlen .options) .options = false ∧ v = (uidOf q dlen .options).toNat) s
      (handleOptions s q dlen (inbOf q dlen)).1 := by
  unfold handleOptions
  dsimp only
  by_cases hlen : dlen < 3
  · rw [if_pos hlen]; exact Frame.refl _ _ _
  rw [if_neg hlen]
  have hu : ((b32_8to5 ((inbOf q dlen).getD 1 0) : Nat) : Int) = uidOf q dlen .options := rfl
  rw [hu]
  cases hr : checkAuthenticatedUserAndIpAndOptions s (uidOf q dlen .options) q with
  | true => rw [if_pos rfl]; exact Frame.refl _ _ _
  | false =>
    rw [if_neg (by simp)]
    have hm : ∀ v, v = (uidOf q dlen .options).toNat →
        rejected s q (uidOf q dlen .options) .options = false ∧ v = (uidOf q dlen .options).toNat :=
      fun v hv => ⟨hr, hv⟩
    generalize (inbOf q dlen).getD 2 0 = c
    by_cases h0 : c = 84 ∨ c = 116
    · rw [if_pos h0]
      refine Frame.mono ?_ hm
      exact Frame.set erId _ _ _ (fun _ => rfl)
    rw [if_neg h0]
    by_cases h1 : c = 83 ∨ c = 115
    · rw [if_pos h1]
      refine Frame.mono ?_ hm
      exact Frame.set erId _ _ _ (fun _ => rfl)
    rw [if_neg h1]
    by_cases h2 : c = 85 ∨ c = 117
    · rw [if_pos h2]
      refine Frame.mono ?_ hm
      exact Frame.set erId _ _ _ (fun _ => rfl)
    rw [if_neg h2]
    by_cases h3 : c = 86 ∨ c = 118
    · rw [if_pos h3]
      refine Frame.mono ?_ hm
      exact Frame.set erId _ _ _ (fun _ => rfl)
    rw [if_neg h3]
    by_cases h4 : c = 82 ∨ c = 114
    · rw [if_pos h4]
      refine Frame.mono ?_ hm
      exact Frame.set erId _ _ _ (fun _ => rfl)
    rw [if_neg h4]
    by_cases h5 : c = 76 ∨ c = 108
    · rw [if_pos h5]
      refine Frame.mono ?_ hm
      exact Frame.set erId _ _ _ (fun _ => rfl)
    rw [if_neg h5]
    by_cases h6 : c = 73 ∨ c = 105
    · rw [if_pos h6]
      refine Frame.mono ?_ hm
      exact Frame.set erId _ _ _ (fun _ => rfl)
    rw [if_neg h6]
    exact Frame.refl _ _ _

theorem frame_handleFragsizeProbe (s : Srv) (q : Query) (dlen : Nat) (U : Nat → Prop) :
    Frame erOut U s (handleFragsizeProbe s q dlen (inbOf q dlen)).1 := by
  unfold handleFragsizeProbe
  dsimp only
  repeat' split
  all_goals first
    | exact Frame.refl _ _ _
    | exact Frame.popRand _ _ _

theorem frame_handleSetFragsize (s : Srv) (q : Query) (dlen : Nat) :
    Frame erId (fun v => rejected s q (uidOf q dlen .setfrag) .setfrag = false ∧ v = (uidOf q dlen .setfrag).toNat) s
      (handleSetFragsize s q (inbOf q dlen)).1 := by
  unfold handleSetFragsize
  dsimp only
  split
  · exact Frame.refl _ _ _
  have hu : charVal ((Encoding.unpackData Codec.b32 65536 (List.drop 1 (inbOf q dlen))).getD 0 0) =
      uidOf q dlen .setfrag := rfl
  rw [hu]
  cases hr : checkAuthenticatedUserAndIpAndOptions s (uidOf q dlen .setfrag) q with
  | true => rw [if_pos rfl]; exact Frame.refl _ _ _
  | false =>
    rw [if_neg (by simp)]
    have hm : ∀ v, v = (uidOf q dlen .setfrag).toNat →
        rejected s q (uidOf q dlen .setfrag) .setfrag = false ∧ v = (uidOf q dlen .setfrag).toNat :=
      fun v hv => ⟨hr, hv⟩
    split
    · exact Frame.refl _ _ _
    · refine Frame.mono ?_ hm
      exact Frame.set erId _ _ _ (fun _ => rfl)

end Iodine.C04L
