import IodineModel.Lemmas.C02rD6
/-
C02 phase 3 / d7down — part 7: the corner `inpkt.fragment = 0 ∧ inpkt.len ≠ 0` at `d = 7` is REACHABLE from the demo session
(a run of the joined model, evaluated by the kernel): a five-fragment frame is offered to the server, the client takes its
fragment 0 (prompt schedule, 3 steps), then every downstream datagram is lost (`blackoutEvDown`): the server gives the packet
up (20 steps); seven one-fragment frames offered during the blackout are given up too (3 steps each).  The joint state is
quiescent, the server's downstream number is 7 ahead, the client still holds the 30 bytes of the old fragment 0.  The
blackout is over: the next frame offered is delivered CORRUPTED (`stale_fragment0_corrupts_imm`, here on the reached state).
-/
namespace Iodine.C02L
open Iodine Iodine.Gen Iodine.World

/-- the client has taken fragment 0 of `demoFrame 2 100`; its acknowledging ping is in flight -/
def exMid : W := run (step C02.exW (.offerS (demoFrame 2 100))) [.tickC, .deliverUp, .deliverDown]

/-- … the downstream blackout: the server gives the packet up -/
def exMidLost : W := runSched blackoutEvDown 20 exMid

/-- `k` one-fragment frames offered and given up during the blackout -/
def giveupsRD : Nat → W → W
  | 0, w => w
  | k + 1, w => giveupsRD k (runSched blackoutEvDown 3 (step w (.offerS (demoFrame 2 4))))

def exReach : W := giveupsRD 7 exMidLost

theorem exMidLost_facts : quiet 0 exMidLost = true ∧ exMidLost.tunC = [] ∧ exMidLost.cs.c.inpkt.len = 30 ∧
    (Server.getUser exMidLost.srv 0).outpacket.seqno = exMidLost.cs.c.inpkt.seqno := by decide +kernel

/-- **stale_fragment0_reachable.**  The reached state is quiescent, nothing has been written to either tun device, the server
is 7 ahead (`0 = (1 + 7) % 8`), the client's fragment number is 0 and it holds the first 30 bytes of the OLD packet; the
frame offered next (prompt schedule) arrives corrupted: old fragment 0 + new fragment 1. -/
theorem stale_fragment0_reachable :
    quiet 0 exReach = true ∧ exReach.tunC = [] ∧ exReach.tunS = [] ∧
    exReach.cs.c.inpkt.seqno = 1 ∧ exReach.cs.c.inpkt.fragment = 0 ∧ exReach.cs.c.inpkt.len = 30 ∧
    exReach.cs.c.inpkt.data.take 30 = (0x5a :: demoFrame 2 100).take 30 ∧
    (Server.getUser exReach.srv 0).outpacket.seqno = 0 ∧
    (runPrompt 0 40 (step exReach (.offerS (demoFrame 2 31)))).tunC = [(demoFrame 2 100).take 29 ++ (demoFrame 2 31).drop 29] ∧
    quiet 0 (runPrompt 0 40 (step exReach (.offerS (demoFrame 2 31)))) = true := by decide +kernel

end Iodine.C02L
