import IodineModel.Lemmas.C01h
/-
Helper lemmas for C01, part i: what one `cstep` of the client thread does to `inpkt` and the tun device: nothing, one
`tunnel_dns` (DNS mode, an `rq` input, thread parked in `client_tunnel`), or one raw-mode datagram.
-/
namespace Iodine.C01L
open Iodine Iodine.Client

theorem tunnelTun_rx (c : Cli) (frame : List Nat) :
    (tunnelTun c frame).1.inpkt = c.inpkt ∧ tunws (tunnelTun c frame).2.1 = [] := by
  unfold tunnelTun
  dsimp only
  split
  · exact ⟨rfl, rfl⟩
  · split
    · exact ⟨rfl, rfl⟩
    · split
      · generalize hc' : ({ c with outpkt := _, outchunkresent := 0 } : Cli) = c'
        have hi : c'.inpkt = c.inpkt := by rw [← hc']
        have a1 := afterSend_rx (sendChunk c') [] (.tunChunk ((frame.take 65536).length : Int))
        have a2 := sendChunk_rx c'
        exact ⟨a1.1.trans (a2.1.trans hi), by rw [a1.2, a2.2]; rfl⟩
      · exact ⟨rfl, rfl⟩

theorem afterSend_ping_rx (c : Cli) (k : Resume) :
    (afterSend (sendPing c) [] k).1.inpkt = c.inpkt ∧ tunws (afterSend (sendPing c) [] k).2.1 = [] := by
  have a1 := afterSend_rx (sendPing c) [] k
  have a2 := sendPing_rx c
  exact ⟨a1.1.trans a2.1, by rw [a1.2, a2.2]; rfl⟩

theorem afterSend_chunk_rx (c : Cli) (k : Resume) :
    (afterSend (sendChunk c) [] k).1.inpkt = c.inpkt ∧ tunws (afterSend (sendChunk c) [] k).2.1 = [] := by
  have a1 := afterSend_rx (sendChunk c) [] k
  have a2 := sendChunk_rx c
  exact ⟨a1.1.trans a2.1, by rw [a1.2, a2.2]; rfl⟩

theorem timeoutBranch_rx (c : Cli) : (timeoutBranch c).1.inpkt = c.inpkt ∧ tunws (timeoutBranch c).2.1 = [] := by
  unfold timeoutBranch
  split
  · split
    · exact afterSend_chunk_rx _ _
    · exact afterSend_ping_rx _ _
  · exact afterSend_ping_rx _ _

theorem settle_rx (r : Cli × List CEvent × Stop) : (settle r).1.c = r.1 ∧ (settle r).2.1 = r.2.1 := by
  unfold settle
  split
  · unfold loopTop; split <;> exact ⟨rfl, rfl⟩
  · exact ⟨rfl, rfl⟩

theorem loopTop_rx (c : Cli) (evs : List CEvent) : (loopTop c evs).1.c = c ∧ (loopTop c evs).2.1 = evs := by
  unfold loopTop; split <;> exact ⟨rfl, rfl⟩

theorem fire_inpkt (c : Cli) (sel : Sel) (inp : CInput) : (fire c sel inp).1.inpkt = c.inpkt := by
  unfold fire
  cases inp with
  | tick => rfl
  | tun f => dsimp only; split <;> rfl
  | rq q => rfl
  | rawans b => rfl

theorem fire_conn (c : Cli) (sel : Sel) (inp : CInput) : (fire c sel inp).1.conn = c.conn := by
  unfold fire
  cases inp with
  | tick => rfl
  | tun f => dsimp only; split <;> rfl
  | rq q => rfl
  | rawans b => rfl

theorem afterSelect_inpkt (c : Cli) : (afterSelect c).inpkt = c.inpkt := by
  unfold afterSelect; split <;> rfl

theorem afterSelect_conn (c : Cli) : (afterSelect c).conn = c.conn := by
  unfold afterSelect; split <;> rfl

theorem accepted_zero (c : Cli) : accepted c Rq.zero = false := by
  unfold accepted Rq.zero
  simp

theorem readRaw_inpkt (c : Cli) (d : List Nat) : (readRaw c d).1.inpkt = c.inpkt := by
  unfold readRaw
  dsimp only
  split
  · rfl
  · split
    · rfl
    · split
      · rfl
      · split
        · split <;> rfl
        · split <;> (split <;> rfl)


theorem rawKeepalive_rx (c : Cli) :
    (rawKeepalive c).1.inpkt = c.inpkt ∧ (rawKeepalive c).1.conn = c.conn ∧ tunws (rawKeepalive c).2 = [] := by
  unfold rawKeepalive; split
  · exact ⟨rfl, rfl, rfl⟩
  · exact ⟨rfl, rfl, rfl⟩

theorem after_rx (evs : List CEvent) (r : CState × List CEvent × Next) (h : tunws evs = []) :
    (after evs r).1 = r.1 ∧ tunws (after evs r).2.1 = tunws r.2.1 := by
  unfold after; exact ⟨rfl, by dsimp only; rw [tunws_append, h]; rfl⟩

/-- what one step of the client thread is, as far as `inpkt` and the tun device are concerned -/
inductive CEff (st : CState) (inp : CInput) : Prop where
  /-- neither `inpkt` nor the tun device touched -/
  | quiet : (cstep st inp).1.c.inpkt = st.c.inpkt → tunws (cstep st inp).2.1 = [] → CEff st inp
  /-- one `tunnel_dns` in DNS mode on the answer `q`, from a state with the same `inpkt` -/
  | dns (c' : Cli) (q : Rq) : inp = .rq q → c'.inpkt = st.c.inpkt →
      (cstep st inp).1.c.inpkt = (tunnelDns c' q).1.inpkt →
      tunws (cstep st inp).2.1 = tunws (tunnelDns c' q).2.1 → CEff st inp
  /-- one raw-mode datagram `b` -/
  | raw (c' : Cli) (b : List Nat) : inp = .rawans b → (cstep st inp).1.c.inpkt = st.c.inpkt →
      tunws (cstep st inp).2.1 = tunws (readRaw c' b).2 → CEff st inp

theorem tunnelStep_eff (c : Cli) (ph : Phase) (inp : CInput) (hph : ph = .tunnel) : CEff ⟨c, ph⟩ inp := by
  subst hph
  have hcs : cstep ⟨c, .tunnel⟩ inp = tunnelStep c inp := rfl
  generalize hc' : afterSelect (fire c (selectOf c) inp).1 = c'
  have hi : c'.inpkt = c.inpkt := by rw [← hc', afterSelect_inpkt, fire_inpkt]
  have hts : tunnelStep c inp =
      if !c'.running then (⟨c', .idle⟩, [], .finished 0)
      else match (fire c (selectOf c) inp).2 with
        | .timeout => settle (timeoutBranch c')
        | .tun frame => after (rawKeepalive c').2 (settle (tunnelTun (rawKeepalive c').1 frame))
        | .dns inp => after (rawKeepalive c').2 (settle (tunnelDnsInput (rawKeepalive c').1 inp)) := by
    rw [← hc']; rfl
  obtain ⟨hk1, hk2, hk3⟩ := rawKeepalive_rx c'
  generalize hc'' : (rawKeepalive c').1 = c'' at hts hk1 hk2
  generalize hkev : (rawKeepalive c').2 = kev at hts hk3
  have hi2 : c''.inpkt = c.inpkt := hk1.trans hi
  by_cases hr : (!c'.running) = true
  · refine CEff.quiet ?_ ?_ <;> rw [hcs, hts, if_pos hr]
    · exact hi
    · rfl
  rw [if_neg hr] at hts
  have quiet_of : ∀ r : Cli × List CEvent × Stop, r.1.inpkt = c.inpkt → tunws r.2.1 = [] →
      tunnelStep c inp = settle r → CEff ⟨c, .tunnel⟩ inp := by
    intro r h1 h2 he
    refine CEff.quiet ?_ ?_ <;> rw [hcs, he]
    · rw [(settle_rx r).1]; exact h1
    · rw [(settle_rx r).2]; exact h2
  have quiet_of2 : ∀ r : Cli × List CEvent × Stop, r.1.inpkt = c.inpkt → tunws r.2.1 = [] →
      tunnelStep c inp = after kev (settle r) → CEff ⟨c, .tunnel⟩ inp := by
    intro r h1 h2 he
    refine CEff.quiet ?_ ?_ <;> rw [hcs, he]
    · rw [(after_rx kev _ hk3).1, (settle_rx r).1]; exact h1
    · rw [(after_rx kev _ hk3).2, (settle_rx r).2]; exact h2
  cases inp with
  | tick =>
    have : (fire c (selectOf c) .tick).2 = .timeout := rfl
    rw [this] at hts
    exact quiet_of _ ((timeoutBranch_rx c').1.trans hi) (timeoutBranch_rx c').2 hts
  | tun f =>
    by_cases hs : (selectOf c).tun = true
    · have : (fire c (selectOf c) (.tun f)).2 = .tun f := by unfold fire; dsimp only; rw [if_pos hs]
      rw [this] at hts
      exact quiet_of2 _ ((tunnelTun_rx c'' f).1.trans hi2) (tunnelTun_rx c'' f).2 hts
    · have : (fire c (selectOf c) (.tun f)).2 = .timeout := by unfold fire; dsimp only; rw [if_neg hs]
      rw [this] at hts
      exact quiet_of _ ((timeoutBranch_rx c').1.trans hi) (timeoutBranch_rx c').2 hts
  | rq q =>
    have : (fire c (selectOf c) (.rq q)).2 = .dns (.rq q) := rfl
    rw [this] at hts
    dsimp only at hts
    unfold tunnelDnsInput at hts
    by_cases hconn : c''.conn = .dnsNull
    · rw [if_pos hconn] at hts
      dsimp only at hts
      refine CEff.dns c'' q rfl hi2 ?_ ?_ <;> rw [hcs, hts]
      · rw [(after_rx kev _ hk3).1, (settle_rx _).1]
      · rw [(after_rx kev _ hk3).2, (settle_rx _).2]
    · rw [if_neg hconn] at hts
      dsimp only at hts
      exact quiet_of2 _ ((readRaw_inpkt c'' []).trans hi2) rfl hts
  | rawans b =>
    have : (fire c (selectOf c) (.rawans b)).2 = .dns (.rawans b) := rfl
    rw [this] at hts
    dsimp only at hts
    unfold tunnelDnsInput at hts
    by_cases hconn : c''.conn = .dnsNull
    · rw [if_pos hconn] at hts
      dsimp only at hts
      obtain ⟨z1, z2⟩ := tunnelDns_rx c'' Rq.zero
      rw [accepted_zero] at z1 z2
      exact quiet_of2 _ (z1.trans hi2) z2 hts
    · rw [if_neg hconn] at hts
      dsimp only at hts
      refine CEff.raw c'' b rfl ?_ ?_ <;> rw [hcs, hts]
      · rw [(after_rx kev _ hk3).1, (settle_rx _).1]; exact (readRaw_inpkt c'' b).trans hi2
      · rw [(after_rx kev _ hk3).2, (settle_rx _).2]; rfl


theorem waitdnsRound_inpkt {c c2 : Cli} {w : WaitIn} {rd : Int} (h : waitdnsRound c w = some (c2, rd)) :
    c2.inpkt = c.inpkt := by
  unfold waitdnsRound at h
  cases w with
  | timeout => cases h; rfl
  | ans rq =>
    dsimp only at h
    split at h
    · cases h
    · split at h
      · cases h; split <;> rfl
      · cases h; split <;> rfl

theorem lazyoffGot_inpkt (c : Cli) (rd : Int) (buf : List Nat) : (lazyoffGot c rd buf).1.inpkt = c.inpkt := by
  unfold lazyoffGot; split <;> rfl

theorem lazyoffReturn_rx (c : Cli) (k : Resume) (evs : List CEvent) :
    (lazyoffReturn c k evs).1.c.inpkt = c.inpkt ∧ (lazyoffReturn c k evs).2.1 = evs := by
  unfold lazyoffReturn
  exact ⟨by rw [(loopTop_rx _ _).1]; exact resume_inpkt c k, (loopTop_rx _ _).2⟩

theorem lazyoffNext_rx (c : Cli) (i : Nat) (k : Resume) :
    (lazyoffNext c i k).1.c.inpkt = c.inpkt ∧ tunws (lazyoffNext c i k).2.1 = [] := by
  unfold lazyoffNext
  dsimp only
  have hit := lazyoffIter_rx c (i + 1)
  split
  · exact hit
  · have := lazyoffReturn_rx (lazyoffIter c (i + 1)).c k (lazyoffIter c (i + 1)).evs
    exact ⟨this.1.trans hit.1, by rw [this.2]; exact hit.2⟩

theorem lazyoffPost_rx (c2 : Cli) (rd : Int) (buf : List Nat) (i : Nat) (k : Resume) :
    (if (lazyoffGot c2 rd buf).2 then lazyoffReturn (lazyoffGot c2 rd buf).1 k [] else
      lazyoffNext (lazyoffGot c2 rd buf).1 i k).1.c.inpkt = c2.inpkt ∧
    tunws (if (lazyoffGot c2 rd buf).2 then lazyoffReturn (lazyoffGot c2 rd buf).1 k [] else
      lazyoffNext (lazyoffGot c2 rd buf).1 i k).2.1 = [] := by
  split
  · have := lazyoffReturn_rx (lazyoffGot c2 rd buf).1 k []
    exact ⟨this.1.trans (lazyoffGot_inpkt _ _ _), by rw [this.2]; rfl⟩
  · have := lazyoffNext_rx (lazyoffGot c2 rd buf).1 i k
    exact ⟨this.1.trans (lazyoffGot_inpkt _ _ _), this.2⟩

theorem lazyoffStep_rx (c : Cli) (i : Nat) (k : Resume) (inp : CInput) :
    (lazyoffStep c i k inp).1.c.inpkt = c.inpkt ∧ tunws (lazyoffStep c i k inp).2.1 = [] := by
  unfold lazyoffStep
  dsimp only
  have hf := fire_inpkt c waitSel inp
  cases hw : waitdnsRound (fire c waitSel inp).1 (match (fire c waitSel inp).2 with
      | .dns (.rq q) => .ans q
      | .dns _ => .ans Rq.zero
      | _ => .timeout) with
  | none => exact ⟨hf, rfl⟩
  | some x =>
    obtain ⟨c2, rd⟩ := x
    have h2 := (waitdnsRound_inpkt hw).trans hf
    dsimp only
    refine ⟨Eq.trans ?_ h2, ?_⟩
    · exact (lazyoffPost_rx c2 rd _ i k).1
    · exact (lazyoffPost_rx c2 rd _ i k).2

/-- **every step of the client thread** is quiet, one `tunnel_dns` on an `rq` input, or one raw datagram -/
theorem cstep_eff (st : CState) (inp : CInput) : CEff st inp := by
  obtain ⟨c, ph⟩ := st
  cases ph with
  | idle => exact CEff.quiet rfl rfl
  | tunnel => exact tunnelStep_eff c _ inp rfl
  | lazyoff i k =>
    have := lazyoffStep_rx c i k inp
    exact CEff.quiet this.1 this.2


/-! ### runs of the client thread under arbitrary input -/

/-- the answer an input delivers to `tunnel_dns`, if any -/
def rqOf : CInput → List Rq
  | .rq q => [q]
  | _ => []

theorem readRaw_tunws (c : Cli) (d : List Nat) :
    tunws (readRaw c d).2 = [] ∨ tunws (readRaw c d).2 = tunws (frames ((d.take 65536).drop Gen.RAW_HDR_LEN)) := by
  unfold readRaw frames
  dsimp only
  split
  · exact Or.inl rfl
  · split
    · exact Or.inl rfl
    · split
      · exact Or.inl rfl
      · split
        · exact Or.inl rfl
        · right
          cases uncompress (List.drop Gen.RAW_HDR_LEN (List.take 65536 d)) 65536 <;> rfl

/-- where the tun writes of one step come from: nothing; the join of a chain of answers received so far that ends in
the answer of this step; or the body of the raw datagram of this step -/
def COrigin (seen : List Rq) (inp : CInput) (evs : List CEvent) : Prop :=
  tunws evs = [] ∨
  (∃ q l, inp = .rq q ∧ l.Sublist (seen ++ [q]) ∧ RChain l ∧ l.getLast? = some q ∧
      tunws evs = tunws (frames (rjoin l))) ∨
  (∃ b, inp = .rawans b ∧ tunws evs = tunws (frames ((b.take 65536).drop Gen.RAW_HDR_LEN)))

def COrigins : List Rq → CState → List CInput → Prop
  | _, _, [] => True
  | seen, st, inp :: rest =>
    COrigin seen inp (cstep st inp).2.1 ∧ COrigins (seen ++ rqOf inp) (cstep st inp).1 rest

theorem RInv.mono' {p : Packet} {seen : List Rq} (h : RInv p seen) (more : List Rq) : RInv p (seen ++ more) := by
  obtain ⟨l, a, b⟩ := h
  exact ⟨l, a.trans (List.sublist_append_left _ _), b⟩

/-- **every tun write of every run** of the client thread, from a state whose `inpkt` satisfies the invariant (e.g. is
empty), has its origin in received data -/
theorem corigins_run : ∀ (inputs : List CInput) (st : CState) (seen : List Rq),
    RInv st.c.inpkt seen → COrigins seen st inputs := by
  intro inputs
  induction inputs with
  | nil => intro _ _ _; trivial
  | cons inp rest ih =>
    intro st seen hinv
    unfold COrigins
    rcases cstep_eff st inp with ⟨h1, h2⟩ | ⟨c', q, hq, hi, h1, h2⟩ | ⟨c', b, hb, h1, h2⟩
    · refine ⟨Or.inl h2, ih _ _ ?_⟩
      rw [h1]; exact hinv.mono' _
    · subst hq
      obtain ⟨r1, r2⟩ := tunnelDns_rx c' q
      obtain ⟨i1, i2⟩ := rxStep_inv st.c.inpkt (accepted c' q) q seen hinv
      rw [hi] at r1 r2
      refine ⟨?_, ih _ _ ?_⟩
      · unfold COrigin
        rw [h2, r2]
        rcases i2 with e | ⟨l, a, b, c, d⟩
        · left; rw [e]; rfl
        · right; left; exact ⟨q, l, rfl, a, b, c, by rw [d]⟩
      · rw [h1, r1]; exact i1
    · subst hb
      refine ⟨?_, ih _ _ ?_⟩
      · unfold COrigin
        rw [h2]
        rcases readRaw_tunws c' b with e | e
        · exact Or.inl e
        · exact Or.inr (Or.inr ⟨b, rfl, e⟩)
      · rw [h1]; exact hinv.mono' _

end Iodine.C01L
