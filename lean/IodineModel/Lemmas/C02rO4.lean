import IodineModel.Lemmas.C02rO3
import IodineModel.Lemmas.C02qO8
/-
C02 / OVERLAPPING transfers, lazy mode, ENDINGS — (E3): BOTH last fragments are in flight (the downstream packet has at least
two fragments, so the server still has it unacknowledged).  Four steps of the prompt scheduler
(`deliverUp, deliverDown, deliverDown, deliverUp`) finish both packets:
1. the server writes the upstream packet to tun and answers the data query at once with a DUPLICATE of the last downstream
   fragment whose header acknowledges the last upstream fragment (`srv_recv_last_noq_out`);
2. the client takes the first copy (stale upstream ack): downstream packet to tun, `send_ping_soon = 5` (`tunnelDns_last_prev`);
3. the client drops the duplicate (an answer to its MOST RECENT query: the lazy-mode hint fires), takes its upstream ack:
   packet completed; a ping was due, so the ping goes out at once;
4. the ping acknowledges the last downstream fragment; the server drops the packet and holds the ping (`down_hold_lazy`).
-/
namespace Iodine.C02L
open Iodine Iodine.Gen Iodine.World

/-- `tunnel_dns` on an answer WITH payload to the MOST RECENT query in lazy mode (whatever is being sent upstream): the
lazy-mode hint, the downstream code, then the upstream code; `send_something_now` starts as "a ping was due" -/
theorem tunnelDns_payload_curS (c : Client.Cli) (rq : Client.Rq) (pkt : List Nat)
    (hn : Client.notData c rq.name0 = false) (hrv' : rq.rv = (pkt.length : Int)) (hbuf : rq.buf = pkt)
    (hid : rq.id = c.chunkid) (hlz : c.lazymode = true)
    (hrv : 2 < pkt.length) (hbad : pkt.take 5 ≠ Client.ascii "BADIP")
    (hdup : (Client.decodeHdr pkt).dnSeq = c.inpkt.seqno ∨ Client.recentSeqno c.inpkt.seqno (Client.decodeHdr pkt).dnSeq = false) :
    Client.tunnelDns c rq =
      Client.upstream (Client.downstream (hintBook c) (Client.decodeHdr pkt) pkt (pkt.length : Int) (c.sendPingSoon != 0)).1
        (Client.decodeHdr pkt)
        (Client.downstream (hintBook c) (Client.decodeHdr pkt) pkt (pkt.length : Int) (c.sendPingSoon != 0)).2.1
        (Client.downstream (hintBook c) (Client.decodeHdr pkt) pkt (pkt.length : Int) (c.sendPingSoon != 0)).2.2 (pkt.length : Int) := by
  have hrid : Client.recentId (Client.countRecv { c with sendPingSoon := 0 }) rq.id = true := by
    unfold Client.recentId
    rw [hid]
    show (c.chunkid == c.chunkid || _ || _) = true
    simp
  unfold Client.tunnelDns
  simp only [hn, Bool.false_eq_true, if_false, hrv', hbuf]
  rw [if_neg (by omega), if_neg (by intro hh; exact hbad hh.2)]
  have hd : Client.dupeSeqno { c with sendPingSoon := 0 } (Client.decodeHdr pkt) (pkt.length : Int) =
      ({ c with sendPingSoon := 0 }, (pkt.length : Int)) := by
    unfold Client.dupeSeqno
    rw [if_neg]
    intro ⟨_, h2, h3⟩
    rcases hdup with h | h
    · exact h2 h
    · have h3' : Client.recentSeqno c.inpkt.seqno (Client.decodeHdr pkt).dnSeq = true := h3
      rw [h] at h3'; exact absurd h3' (by decide)
  simp only [hd, hrid, Bool.not_true, Bool.false_eq_true, if_false]
  have hl : Client.lazyHint { Client.countRecv { c with sendPingSoon := 0 } with
      lastdownstreamtime := (Client.countRecv { c with sendPingSoon := 0 }).now } rq.id = hintBook c := by
    unfold Client.lazyHint
    rw [if_pos ⟨hid, hlz⟩, if_pos (Or.inl (by rfl))]
    rfl
  rw [hl]
  have hda : Client.datalessAdopt (hintBook c) (Client.decodeHdr pkt) (pkt.length : Int) = hintBook c := by
    unfold Client.datalessAdopt
    rw [if_neg (by omega)]
  rw [hda]

/-- the downstream code on a DUPLICATE of the LAST fragment of a packet that was delivered already (reassembly buffer empty
again): refused as long as it is not fragment 0 (`send_ping_soon = 500`) -/
theorem downstream_dup_frag (c : Client.Cli) (h : Client.Hdr) (buf : List Nat) (read : Int) (sn : Bool) (hr : 2 < read)
    (hdn : h.dnSeq = c.inpkt.seqno) (hdf : h.dnFrag ≤ c.inpkt.fragment) (hf0 : c.inpkt.fragment ≠ 0) :
    Client.downstream c h buf read sn = ({ c with sendPingSoon := 500 }, [], sn) := by
  have ha : Client.acceptFragment c h = none := by
    unfold Client.acceptFragment
    rw [if_neg (by rw [hdn]; simp), if_neg (by intro hh; exact hf0 hh.1), if_pos hdf]
  unfold Client.downstream
  rw [if_pos (by omega), ha]

/-- a DUPLICATE of the last fragment of the downstream packet just delivered, as the answer to the MOST RECENT query, whose
header acknowledges the LAST upstream fragment: "packet completed"; then the final ping if one was due -/
theorem tunnelDns_dup_done_cur (c : Client.Cli) (rq : Client.Rq) (pkt : List Nat)
    (hn : Client.notData c rq.name0 = false) (hrv' : rq.rv = (pkt.length : Int)) (hbuf : rq.buf = pkt)
    (hid : rq.id = c.chunkid) (hlz : c.lazymode = true)
    (hrv : 2 < pkt.length) (hbad : pkt.take 5 ≠ Client.ascii "BADIP")
    (hdn : (Client.decodeHdr pkt).dnSeq = c.inpkt.seqno) (hdf : (Client.decodeHdr pkt).dnFrag ≤ c.inpkt.fragment)
    (hf0 : c.inpkt.fragment ≠ 0)
    (hs : Client.isSending c = true) (hus : (Client.decodeHdr pkt).upSeq = c.outpkt.seqno)
    (huf : (Client.decodeHdr pkt).upFrag = c.outpkt.fragment)
    (hge : ¬ c.outpkt.offset + c.outpkt.sentlen < c.outpkt.len) :
    Client.tunnelDns c rq =
      Client.finalPing (ackDone { hintBook c with sendPingSoon := 500 }) [] (c.sendPingSoon != 0) (pkt.length : Int) := by
  rw [tunnelDns_payload_curS c rq pkt hn hrv' hbuf hid hlz hrv hbad (Or.inl hdn),
    downstream_dup_frag (hintBook c) (Client.decodeHdr pkt) pkt (pkt.length : Int) _ (by omega) hdn hdf hf0]
  exact upstream_ack_done { hintBook c with sendPingSoon := 500 } (Client.decodeHdr pkt) [] _ (pkt.length : Int) hs hus huf hge

/-- `down_hold_lazy` (C02M6) without the bound on `outfragresent` (the last fragment may just have been sent a second time) -/
theorem down_hold_lazy_resrO {P : Par} (hP : P.Ok) {out : List Nat} {w3 : W} {c2 : Client.Cli} {sq : Int} {o D f : Nat} {name' : List Nat}
    (hcs : w3.cs = ⟨pingStateL c2, .tunnel⟩) (hc2st : CStatL P c2) (hc2cnt : CntOk c2 0) (hc2idle : Client.isSending c2 = false)
    (e3 : c2.inpkt.seqno = sq)
    (hup : w3.up = [.query (pingStateL c2).chunkid P.ty name']) (hdown : w3.down = [])
    (hpq : PingQ P (upQuery (pingStateL c2).chunkid P.ty name') sq (f : Int) c2.randSeed)
    (hstat : SStat P w3.srv) (hsq0 : (Server.getUser w3.srv P.u).q.id = 0) (hsqs0 : (Server.getUser w3.srv P.u).qs.id = 0)
    (hslz : (Server.getUser w3.srv P.u).lazy = true) (hsoq : (Server.getUser w3.srv P.u).oqFilled = 0) (hsqr : 0 ≤ sq ∧ sq < 8) (hD : 0 < D) (heq : o + D = out.length) (hf : f < 16)
    (hop : (Server.getUser w3.srv P.u).outpacket = ⟨out.length, D, o, out, sq, (f : Int)⟩ ∨
      ((Server.getUser w3.srv P.u).outpacket = ⟨0, 0, 0, out, sq, 0⟩ ∧ o = 0 ∧ f = 0 ∧ D = out.length))
    (hsyncu : (Server.getUser w3.srv P.u).inpacket.seqno = c2.outpkt.seqno)
    (haged : Aged P (Server.getUser w3.srv P.u) c2.datacmc 1) (hpaged : PAged P (Server.getUser w3.srv P.u) c2.randSeed 1) :
    ∃ w', step w3 (promptEv w3) = w' ∧ quiet P.u w3 = false ∧ QuietLazy P w' ∧ w'.cs.c.sendPingSoon = 0 ∧
      w'.tunC = w3.tunC ∧ w'.tunS = w3.tunS ∧
      (Server.getUser w'.srv P.u).fragsize = (Server.getUser w3.srv P.u).fragsize ∧
      (Server.getUser w'.srv P.u).tunIp = (Server.getUser w3.srv P.u).tunIp := by
  have hpf := pingFactsL c2
  have hq3 : quiet P.u w3 = false := quiet_false_of_up _ _ _ _ hup
  generalize hx0 : ({ Server.getUser w3.srv P.u with qsNew := false } : Server.Session) = x0
  have hfin : (ackSess x0 sq f).outpacket = ⟨0, 0, 0, out, sq, (f : Int)⟩ :=
    ackSess_fin x0 _ sq o D f (by subst hx0; exact hsoq) hD heq (by omega) (by subst hx0; exact hop)
  obtain ⟨s', evs, t, hit, hdown3, htun3, hah, hsame⟩ :=
    srv_ping_lazy_hold hP hstat hsq0 hsqs0 hslz hsoq hpq hpaged (by rw [hx0, hfin])
  generalize hQ : upQuery (pingStateL c2).chunkid P.ty name' = Q at hit hah hpq
  obtain ⟨hS', hq', hqs', hlz', hoq', hfs', hin', htun', hop'⟩ := afterHold_stat hstat hsoq hah
    (by rw [hx0, hfin]; exact hsqr) (by rw [hx0, hfin]; show (0 : Int) ≤ (f : Int) ∧ (f : Int) < 16; omega)
  rw [hx0, hfin] at hop'
  have hs3 : step w3 (promptEv w3) = { w3 with up := [], srv := s' } := by
    rw [promptEv_up w3 _ _ hup, step_deliverUp w3 _ _ hup, srvInput_query, hQ,
      stepS_zero { w3 with up := [] } _ s' evs t (by exact hit), hdown3, htun3]
    simp [hdown]
  have hQid : Q.id = (pingStateL c2).chunkid := by rw [← hQ]; rfl
  refine ⟨_, hs3, hq3, ?_, ?_, rfl, rfl, hfs', htun'⟩
  · refine ⟨by show w3.cs.ph = _; rw [hcs], ?_, ?_, ?_, rfl, hdown, hS', ?_, hoq', ?_, ?_, ?_, ?_, ?_⟩
    · show CStatL P w3.cs.c
      rw [hcs]; exact cstatL_pingStateL hc2st
    · show CntOk w3.cs.c 1
      rw [hcs]; exact (pingStateL_ids c2).2.2 0 hc2cnt
    · show Client.isSending w3.cs.c = false
      rw [hcs]
      unfold Client.isSending
      rw [hpf.outpkt]
      exact hc2idle
    · exact ⟨by rw [hop'], by rw [hq']; exact hpq.id, by rw [hq']; exact hpq.id2, by rw [hqs']; exact hsqs0,
        by rw [hlz']; exact hslz⟩
    · show HeldBase P (Server.getUser s' P.u).q
      rw [hq']; exact ⟨hpq.from_, hpq.id2, hpq.id, hpq.ty⟩
    · show (Server.getUser s' P.u).q.id = w3.cs.c.chunkid
      rw [hq', hQid, hcs]
    · show (Server.getUser s' P.u).inpacket.seqno = w3.cs.c.outpkt.seqno
      rw [hin', hsyncu, hcs, hpf.outpkt]
    · show (Server.getUser s' P.u).outpacket.seqno = w3.cs.c.inpkt.seqno
      rw [hop', hcs, hpf.inpkt, e3]
    · show HeldMem P (Server.getUser s' P.u) (Server.getUser s' P.u).q w3.cs.c.datacmc w3.cs.c.randSeed
      rw [hq', hcs, hpf.datacmc, hpf.seed]
      right
      refine ⟨c2.randSeed, ⟨hpq.sdlt, hpq.c0, hpq.fp, hpq.seed⟩, behind_next16 _ hpq.sdlt, ?_, ?_⟩
      · exact haged.congr hsame.1 hsame.2.1 hsame.2.2.2.2.1 hsame.2.2.2.2.2
      · exact (hpaged.step hpq.sdlt (by omega)).congr hsame.2.2.1 hsame.2.2.2.1 hsame.2.2.2.2.1 hsame.2.2.2.2.2
  · show w3.cs.c.sendPingSoon = 0
    rw [hcs]; exact hpf.sps


end Iodine.C02L
