import IodineModel.Lemmas.C02rU1
/-
C02 phase 3 / d7up — the CLIENT's side of an upstream exchange in immediate mode, cut out of `mid_step` / `last_step`
(`C02v9`, `C02v10`): the dataless answer whose upstream-ack fields equal the fragment in flight arrives.  Nothing here
looks at the server: the lemmas serve the clean path, the FALSE acknowledgement and the continuation after it alike.
-/
namespace Iodine.C02L
open Iodine Iodine.Gen Iodine.World

/-- the acknowledgement of a fragment that is not the last one: the client sends the next fragment (one scheduler step) -/
theorem cli_ack_moreU {P : Par} (hP : P.Ok) {out : List Nat} {w2 : W} {c0 : Client.Cli} {o f : Nat} {name pkt : List Nat}
    (hph : w2.cs.ph = .tunnel) (hready : CReady P c0 out o f)
    (hcli : w2.cs.c = { sentState c0 with sendPingSoon := 0 })
    (hn0 : name.getD 0 0 = hexLower P.u)
    (hw2up : w2.up = []) (hw2down : w2.down = [.ans (sentState c0).chunkid P.ty name pkt])
    (hlen2 : (pkt.length : Int) = 2) (hdn : (Client.decodeHdr pkt).dnSeq = c0.inpkt.seqno)
    (hus : (Client.decodeHdr pkt).upSeq = c0.outpkt.seqno) (huf : (Client.decodeHdr pkt).upFrag = (f : Int))
    (hlt : o + fragLen P (out.drop o) < out.length) (hf1 : f + 1 < 16) :
    ∃ c0', quiet P.u w2 = false ∧
      step w2 (promptEv w2) = { w2 with down := [], cs := ⟨{ sentState c0' with sendPingSoon := 0 }, .tunnel⟩,
                                        up := upOfEvents (Client.sendChunk c0').evs } ∧
      CReady P c0' out (o + fragLen P (out.drop o)) (f + 1) ∧ c0'.outpkt.seqno = c0.outpkt.seqno ∧
      c0'.inpkt = c0.inpkt ∧ c0'.datacmc = (c0.datacmc + 1) % 36 ∧ c0'.randSeed = c0.randSeed ∧
      c0'.selecttimeout = c0.selecttimeout := by
  generalize hm : fragLen P (out.drop o) = m at *
  have hsf := sentFacts c0
  have hcst := cstat_sent hready
  have hq2 : quiet P.u w2 = false := quiet_false_of_down _ _ _ _ hw2down
  generalize hc : ({ sentState c0 with sendPingSoon := 0 } : Client.Cli) = c at hsf hcst hcli
  have hwc : w2.cs = ⟨c, .tunnel⟩ := by rw [cstate_eta w2.cs hph, hcli]
  generalize hrq : (Client.Rq.mk (pkt.length : Int) (sentState c0).chunkid (answerType P.ty) 0 (name.headD 0) pkt) = rq
  have hcid : c.chunkid = (sentState c0).chunkid := by rw [← hc]
  have hdl : Client.tunnelDns c rq = Client.upstream (ackBook c) (Client.decodeHdr pkt) [] false 2 := by
    have := tunnelDns_dataless c rq (by subst hrq; show name.headD 0 = c.useridChar; rw [headD_eq_getD, hsf.useridChar, hready.stat.uch]; exact hn0)
      (by subst hrq; exact hlen2)
      (by subst hrq; unfold Client.recentId; rw [hcid]; simp)
      hsf.sps hcst.imm (by subst hrq; show (Client.decodeHdr pkt).dnSeq = c.inpkt.seqno; rw [hdn, hsf.inpkt])
    subst hrq
    exact this
  have hbk : (ackBook c).outpkt = c.outpkt := rfl
  have hmore := upstream_ack_more (ackBook c) (Client.decodeHdr pkt) [] false 2
    (by
      have hlen0 : out.length ≠ 0 := by have := hready.ho; omega
      unfold Client.isSending
      rw [hbk, hsf.olen, hready.len]
      simpa using hlen0)
    (by rw [hus, hbk, hsf.oseq])
    (by rw [huf, hbk, hsf.ofrag, hready.frag])
    (by rw [hbk, hsf.ooff, hsf.osent, hsf.olen, cFragLen_ready hready, hm, hready.off, hready.len]; exact hlt)
  generalize hc0' : ackNext (ackBook c) = c0' at hmore
  have hready' : CReady P c0' out (o + m) (f + 1) := by
    subst hc0'
    have hb := cstat_ackBook hcst
    refine ⟨⟨hb.running, hb.conn, hb.imm, hb.uid, hb.uch, hb.td, hb.L, hb.enc, hb.ty, hb.cid, hb.cmc, hb.alive, hb.oseq, hb.iseq, hb.ifrag, hb.seed⟩,
      ?_, ?_, ?_, ?_, hlt, hf1, hready.bytes⟩
    · show c.outpkt.data = out; rw [hsf.odata]; exact hready.data
    · show c.outpkt.len = out.length; rw [hsf.olen]; exact hready.len
    · show c.outpkt.offset + c.outpkt.sentlen = o + m
      rw [hsf.ooff, hsf.osent, cFragLen_ready hready, hm, hready.off]
    · show Client.sChar (c.outpkt.fragment + 1) = ((f + 1 : Nat) : Int)
      rw [hsf.ofrag, hready.frag, sChar_small _ (by omega)]
      omega
  obtain ⟨name', hsend', _, _, _⟩ := send_ready hP hready'
  have hsf' := sentFacts c0'
  have hstep2 : Client.cstep w2.cs (.rq rq) =
      (⟨{ sentState c0' with sendPingSoon := 0 }, .tunnel⟩, [] ++ (Client.sendChunk c0').evs,
       .sel (Client.selectOf { sentState c0' with sendPingSoon := 0 })) := by
    rw [hwc, cstep_rq c rq hcst.running hcst.alive hcst.conn, hdl, hmore]
    rw [settle_afterSend _ _ _ (by rw [hsend']) (by rw [hsend']; have := hsf'.running; simpa using this.trans hready'.stat.running)]
    rw [hsend']
  have hnow' : ({ sentState c0' with sendPingSoon := 0 } : Client.Cli).now = w2.cs.c.now := by
    rw [hsf'.now, hwc]
    subst hc0'; rfl
  have hs2 : step w2 (promptEv w2) =
      { w2 with down := [], cs := ⟨{ sentState c0' with sendPingSoon := 0 }, .tunnel⟩,
                up := upOfEvents (Client.sendChunk c0').evs } := by
    rw [promptEv_down w2 _ _ hw2up hw2down, step_deliverDown w2 _ _ hw2down]
    have hci : cliInput (.ans (sentState c0).chunkid P.ty name pkt) = .rq rq := by subst hrq; rfl
    rw [hci, stepC_of _ _ _ _ _ (by exact hstep2) (by exact hnow')]
    simp [hsend', tunOfCEvents, hw2up]
  refine ⟨c0', hq2, hs2, hready', ?_, ?_, ?_, ?_, ?_⟩
  · subst hc0'; show c.outpkt.seqno = _; exact hsf.oseq
  · subst hc0'; show c.inpkt = _; exact hsf.inpkt
  · subst hc0'; show c.datacmc = _; rw [hsf.cmc]
    have := hready.stat.cmc
    split <;> omega
  · subst hc0'; show c.randSeed = _; exact hsf.seed
  · subst hc0'; show c.selecttimeout = _; exact hsf.selto

/-- the acknowledgement of the LAST fragment: the client is idle again (one scheduler step) -/
theorem cli_ack_doneU {P : Par} (hP : P.Ok) {out : List Nat} {w3 : W} {c0 : Client.Cli} {o f : Nat} {name pkt : List Nat}
    (hph : w3.cs.ph = .tunnel) (hready : CReady P c0 out o f)
    (hcli : w3.cs.c = { sentState c0 with sendPingSoon := 0 })
    (hn0 : name.getD 0 0 = hexLower P.u)
    (hw3up : w3.up = []) (hw3down : w3.down = [.ans (sentState c0).chunkid P.ty name pkt])
    (hlen2 : (pkt.length : Int) = 2) (hdn : (Client.decodeHdr pkt).dnSeq = c0.inpkt.seqno)
    (hus : (Client.decodeHdr pkt).upSeq = c0.outpkt.seqno) (huf : (Client.decodeHdr pkt).upFrag = (f : Int))
    (heq : o + fragLen P (out.drop o) = out.length) :
    ∃ cd, quiet P.u w3 = false ∧ step w3 (promptEv w3) = { w3 with down := [], cs := ⟨cd, .tunnel⟩ } ∧
      CStat P cd ∧ Client.isSending cd = false ∧ cd.outpkt.seqno = c0.outpkt.seqno ∧ cd.inpkt = c0.inpkt ∧
      cd.datacmc = (c0.datacmc + 1) % 36 ∧ cd.randSeed = c0.randSeed ∧ cd.sendPingSoon = 20 ∧
      cd.selecttimeout = c0.selecttimeout := by
  generalize hm : fragLen P (out.drop o) = m at *
  have hsf := sentFacts c0
  have hcst := cstat_sent hready
  have hq3 : quiet P.u w3 = false := quiet_false_of_down _ _ _ _ hw3down
  generalize hc : ({ sentState c0 with sendPingSoon := 0 } : Client.Cli) = c at hsf hcst hcli
  have hwc : w3.cs = ⟨c, .tunnel⟩ := by rw [cstate_eta w3.cs hph, hcli]
  have hlen0 : out.length ≠ 0 := by have := hready.ho; omega
  have hsending : Client.isSending c = true := by
    unfold Client.isSending
    rw [hsf.olen, hready.len]
    simpa using hlen0
  generalize hrq : (Client.Rq.mk (pkt.length : Int) (sentState c0).chunkid (answerType P.ty) 0 (name.headD 0) pkt) = rq
  have hcid : c.chunkid = (sentState c0).chunkid := by rw [← hc]
  have hdl : Client.tunnelDns c rq = Client.upstream (ackBook c) (Client.decodeHdr pkt) [] false 2 := by
    have := tunnelDns_dataless c rq (by subst hrq; show name.headD 0 = c.useridChar; rw [headD_eq_getD, hsf.useridChar, hready.stat.uch]; exact hn0)
      (by subst hrq; exact hlen2)
      (by subst hrq; unfold Client.recentId; rw [hcid]; simp)
      hsf.sps hcst.imm (by subst hrq; show (Client.decodeHdr pkt).dnSeq = c.inpkt.seqno; rw [hdn, hsf.inpkt])
    subst hrq
    exact this
  have hbk : (ackBook c).outpkt = c.outpkt := rfl
  have hdone := upstream_ack_done (ackBook c) (Client.decodeHdr pkt) [] false 2
    (by unfold Client.isSending; rw [hbk]; exact hsending)
    (by rw [hus, hbk, hsf.oseq])
    (by rw [huf, hbk, hsf.ofrag, hready.frag])
    (by rw [hbk, hsf.ooff, hsf.osent, hsf.olen, cFragLen_ready hready, hm, hready.off, hready.len]; omega)
  generalize hcd : ackDone (ackBook c) = cd at hdone
  have hfp : Client.finalPing cd [] false 2 = (cd, [], .ret 2) := by simp [Client.finalPing]
  have hb := cstat_ackBook hcst
  have hcdstat : CStat P cd := by
    subst hcd
    exact ⟨hb.running, hb.conn, hb.imm, hb.uid, hb.uch, hb.td, hb.L, hb.enc, hb.ty, hb.cid, hb.cmc, hb.alive, hb.oseq, hb.iseq, hb.ifrag, hb.seed⟩
  have hstep3 : Client.cstep w3.cs (.rq rq) = (⟨cd, .tunnel⟩, [], .sel (Client.selectOf cd)) := by
    rw [hwc, cstep_rq c rq hcst.running hcst.alive hcst.conn, hdl, hdone, hfp]
    simp [Client.settle, Client.loopTop, hcdstat.running]
  have hnow3 : cd.now = w3.cs.c.now := by
    rw [hwc]; subst hcd; rfl
  have hs3 : step w3 (promptEv w3) = { w3 with down := [], cs := ⟨cd, .tunnel⟩ } := by
    rw [promptEv_down w3 _ _ hw3up hw3down, step_deliverDown w3 _ _ hw3down]
    have hci : cliInput (.ans (sentState c0).chunkid P.ty name pkt) = .rq rq := by subst hrq; rfl
    rw [hci, stepC_of _ _ _ _ _ (by exact hstep3) (by exact hnow3)]
    simp [upOfEvents, tunOfCEvents, hw3up]
  refine ⟨cd, hq3, hs3, hcdstat, ?_, ?_, ?_, ?_, ?_, ?_, ?_⟩
  · subst hcd; rfl
  · subst hcd; show c.outpkt.seqno = _; exact hsf.oseq
  · subst hcd; show c.inpkt = _; exact hsf.inpkt
  · subst hcd; show c.datacmc = _; rw [hsf.cmc]
    have := hready.stat.cmc
    split <;> omega
  · subst hcd; show c.randSeed = _; exact hsf.seed
  · rw [← hcd]
    show (if c.sendPingSoon = 0 ∨ c.sendPingSoon > 20 then 20 else c.sendPingSoon) = 20
    rw [if_pos (Or.inl hsf.sps)]
  · rw [← hcd]; show c.selecttimeout = _; exact hsf.selto

end Iodine.C02L
