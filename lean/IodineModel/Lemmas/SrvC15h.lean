import IodineModel.Lemmas.SrvC15g
/-
Helper lemmas for property C15, part h: `handle_null_request`, `tunnel_dns`, raw mode, the loop and whole runs
are simulated by the fragment-numbering monitor (part (B)).
-/
namespace Iodine.C15L
open Iodine Iodine.Server Iodine.Gen

/-- is the query a version request (first character `V`/`v`)? -/
def qIsV (q : Query) : Bool := decide (q.name.getD 0 0 = 86 ∨ q.name.getD 0 0 = 118)

def inpIsV : Input → Bool
  | .q q => qIsV q
  | _ => false

theorem sim_handleNullRequest (s : Srv) (q : Query) (dlen : Nat) (hlen : s.users.length ≤ 256) :
    Sim (qIsV q) W0 s (handleNullRequest s q dlen) := by
  unfold handleNullRequest
  apply ite_ind
  · intro _; exact sim_refl _ W0 s
  · intro hd
    extract_lets inb c
    have hc0 : c = q.name.getD 0 0 := getD_take_zero _ _ (by omega)
    apply ite_ind
    · intro hc
      have : qIsV q = true := by unfold qIsV; rw [← hc0]; exact decide_eq_true hc
      rw [this]
      exact sim_handleVersion W0 s q inb hlen
    intro hc
    have : qIsV q = false := by unfold qIsV; rw [← hc0]; exact decide_eq_false hc
    rw [this]
    apply ite_ind
    · intro _; exact sim_handleLogin W0 s q inb
    intro _; apply ite_ind
    · intro _; exact sim_handleIp W0 s q inb
    intro _; apply ite_ind
    · intro _; exact sim_handleZ W0 s q inb
    intro _; apply ite_ind
    · intro _; exact sim_handleSwitchCodec W0 s q dlen inb
    intro _; apply ite_ind
    · intro _; exact sim_handleOptions W0 s q dlen inb
    intro _; apply ite_ind
    · intro _; exact sim_handleDownCodecCheck W0 s q dlen inb
    intro _; apply ite_ind
    · intro _; exact sim_handleFragsizeProbe W0 s q dlen inb
    intro _; apply ite_ind
    · intro _; exact sim_handleSetFragsize W0 s q inb
    intro _; apply ite_ind
    · intro _; exact sim_handlePing W0 s q inb
    intro _; apply ite_ind
    · intro _; exact sim_handleData s q dlen inb
    · intro _; exact sim_refl false W0 s

theorem sim_handleNsRequest (isV : Bool) (W : Nat → Prop) (s : Srv) (q : Query) (dlen : Nat) :
    Sim isV W s (handleNsRequest s q dlen) := by
  unfold handleNsRequest
  apply ite_ind
  · intro _; exact sim_refl isV W s
  · intro _; exact sim_quiet (Stay.refl W s) (quiet_single (fun _ => rfl) (by not_chunk))

theorem sim_handleARequest (isV : Bool) (W : Nat → Prop) (s : Srv) (q : Query) (b : Bool) :
    Sim isV W s (handleARequest s q b) := by
  unfold handleARequest
  extract_lets dest
  apply ite_ind
  · intro _; exact sim_refl isV W s
  · intro _; exact sim_quiet (Stay.refl W s) (quiet_single (fun _ => rfl) (by not_chunk))

theorem sim_forwardQuery (isV : Bool) (W : Nat → Prop) (s : Srv) (q : Query) : Sim isV W s (forwardQuery s q) :=
  sim_quiet (stay_of_users rfl) (quiet_single (fun _ => rfl) (by not_chunk))

theorem sim_tunnelBind (isV : Bool) (W : Nat → Prop) (s : Srv) (d : List Nat) : Sim isV W s (tunnelBind s d) := by
  unfold tunnelBind
  apply ite_ind
  · intro _; exact sim_refl isV W s
  · intro _
    split
    · exact sim_refl isV W s
    · exact sim_quiet (Stay.refl W s) (quiet_single (fun _ => rfl) (by not_chunk))

theorem sim_tunnelDns (s : Srv) (q : Query) (hlen : s.users.length ≤ 256) : Sim (qIsV q) W0 s (tunnelDns s q) := by
  unfold tunnelDns
  apply ite_ind
  · intro _; exact sim_refl _ W0 s
  · intro _
    split
    · rename_i dlen hq
      extract_lets n
      apply ite_ind
      · intro _; exact sim_handleARequest _ W0 s q false
      intro _; apply ite_ind
      · intro _; exact sim_handleARequest _ W0 s q true
      intro _; apply ite_ind
      · intro _; exact sim_handleNullRequest s q dlen hlen
      intro _; apply ite_ind
      · intro _; exact sim_handleNsRequest _ W0 s q dlen
      · intro _; exact sim_refl _ W0 s
    · apply ite_ind
      · intro _; exact sim_forwardQuery _ W0 s q
      · intro _; exact sim_refl _ W0 s

/-! ### raw mode -/

theorem sim_handleRawLogin (isV : Bool) (W : Nat → Prop) (s : Srv) (p : List Nat) (q : Query) (u : Nat) :
    Sim isV W s (handleRawLogin s p q u) := by
  unfold handleRawLogin
  extract_lets x s1 s2 myhash
  have h2 : Stay W s s2 := by
    refine Stay.trans ?_ (stay_userSetConnType W s1 u .rawUdp)
    unfold s1; stay_same
  clear_value s2
  apply ite_ind
  · intro _; exact sim_refl isV W s
  intro _; apply ite_ind
  · intro _; exact sim_refl isV W s
  intro _; apply ite_ind
  · intro _; exact sim_refl isV W s
  intro _; apply ite_ind
  · intro _; exact sim_refl isV W s
  intro _; apply ite_ind
  · intro _; exact sim_refl isV W s
  intro _; apply ite_ind
  · intro _
    refine sim_quiet (h2.trans ?_) (quiet_sendRaw isV _ _ _ _ _)
    stay_same
  · intro _; exact sim_refl isV W s

theorem sim_handleRawData (isV : Bool) (s : Srv) (p : List Nat) (q : Query) (u : Nat) :
    Sim isV W0 s (handleRawData s p q u) := by
  unfold handleRawData
  extract_lets s1
  apply ite_ind
  · intro _; exact sim_refl isV W0 s
  intro _; apply ite_ind
  · intro _; exact sim_refl isV W0 s
  · intro _ m hG
    have h1 : G (fun v => v = u) m s1 := by
      intro v
      rcases getUser_setUser_cases s u v
        (fun x => { x with lastPkt := s.now, q := q,
                           inpacket := { x.inpacket with offset := 0, data := p, len := p.length } })
        with h | ⟨hv, h⟩
      · show SM (v = u) (m v) (getUser (setUser s u _) v)
        rw [h]
        obtain ⟨a, b, c⟩ := hG v
        exact ⟨a, b.imp (fun f => f.elim) id, c⟩
      · show SM (v = u) (m v) (getUser (setUser s u _) v)
        rw [h]
        subst hv
        obtain ⟨⟨a1, a2, a3, a4, a5, a6, a7, a8, a9, a10, a11, a12, a13⟩, b, ⟨c1, c2, c3⟩⟩ := hG v
        exact ⟨⟨a1, a2, a3, a4, a5, a6, Nat.le_refl _, a8, a9, a10, a11, a12, a13⟩, Or.inl rfl, ⟨c1, c2, c3⟩⟩
    obtain ⟨m', hr, hG', hck⟩ := sim_handleFullPacket isV (fun v => v = u) s1 u m h1
    exact ⟨m', hr, g_mono hG' (fun v h => h.2 h.1), hck⟩

theorem sim_handleRawPing (isV : Bool) (W : Nat → Prop) (s : Srv) (q : Query) (u : Nat) :
    Sim isV W s (handleRawPing s q u) := by
  unfold handleRawPing
  apply ite_ind
  · intro _; exact sim_refl isV W s
  intro _; apply ite_ind
  · intro _; exact sim_refl isV W s
  · intro _
    refine sim_quiet ?_ (quiet_sendRaw isV _ _ _ _ _)
    stay_same

theorem sim_rawDecode (isV : Bool) (s : Srv) (p : List Nat) (src : Addr) (r : Res)
    (h : rawDecode s p src = some r) : Sim isV W0 s r := by
  unfold rawDecode at h
  split at h
  · cases h
  · split at h
    · cases h
    · extract_lets b u cmd q body at h
      split at h
      · cases h; exact sim_handleRawLogin isV W0 s _ _ _
      · split at h
        · cases h; exact sim_handleRawData isV s _ _ _
        · split at h
          · cases h; exact sim_handleRawPing isV W0 s _ _
          · cases h; exact sim_refl isV W0 s


/-! ### the loop -/

theorem stay_topOfLoop (W : Nat → Prop) (s : Srv) : Stay W s (topOfLoop s).1 := by
  intro m hG v
  rcases getUser_topOfLoop s v with h | h
  · rw [h]; exact hG v
  · rw [h]; exact sm_same (hG v) rfl rfl rfl rfl rfl rfl rfl rfl

theorem stay_setNow (W : Nat → Prop) (s : Srv) (n : Nat) : Stay W s { s with now := n } := stay_of_users rfl

theorem sim_sweepFrom (isV : Bool) (W : Nat → Prop) : ∀ (n i : Nat) (s : Srv), Sim isV W s (sweepFrom n i s) := by
  intro n
  induction n with
  | zero => intro i s; exact sim_refl isV W s
  | succ n ih =>
    intro i s
    unfold sweepFrom
    extract_lets x r
    have hr : Sim isV W s r := by
      unfold r
      apply ite_ind
      · intro _; exact sim_sendChunk isV W s i .qs
      · intro _; exact sim_refl isV W s
    clear_value r
    exact hr.andThen (fun s' => ih (i + 1) s')

theorem sim_sweep (isV : Bool) (W : Nat → Prop) (s : Srv) : Sim isV W s (sweep s) := sim_sweepFrom isV W _ _ _

theorem sim_dispatch (s : Srv) (inp : Input) (tunsel : Bool) (hlen : s.users.length ≤ 256) :
    Sim (inpIsV inp) W0 s (dispatch s inp tunsel) := by
  unfold dispatch
  cases inp with
  | tick => exact sim_refl _ W0 s
  | tun frame =>
    dsimp only
    apply ite_ind
    · intro _; exact sim_tunnelTun _ W0 s _
    · intro _; exact sim_refl _ W0 s
  | q q => exact sim_tunnelDns s q hlen
  | rawf src bytes =>
    dsimp only
    split
    · rename_i r hr
      exact sim_rawDecode _ s _ _ r hr
    · exact sim_refl _ W0 s
  | bind bytes =>
    dsimp only
    apply ite_ind
    · intro _; exact sim_tunnelBind _ W0 s _
    · intro _; exact sim_refl _ W0 s

theorem sim_body (s : Srv) (inp : Input) (tunsel : Bool) (hlen : s.users.length ≤ 256) :
    Sim (inpIsV inp) W0 s (body s inp tunsel) := by
  have key : Sim (inpIsV inp) W0 s (andThen (andThen (dispatch s inp tunsel) (fun s => (s, [Event.sweep]))) sweep) := by
    refine Sim.andThen (Sim.andThen (sim_dispatch s inp tunsel hlen) (fun s' => ?_)) (fun s' => sim_sweep _ W0 s')
    exact sim_quiet (Stay.refl W0 s') (quiet_single (fun _ => rfl) (by not_chunk))
  unfold body
  extract_lets r
  cases inp with
  | tun frame =>
    dsimp only
    apply ite_ind
    · intro _; exact key
    · intro _
      have := key.seq (r2 := (r.1, [Event.tunskip])) (sim_quiet (Stay.refl W0 _) (quiet_single (fun _ => rfl) (by not_chunk)))
      exact this
  | tick => exact key
  | q q => exact key
  | rawf a b => exact key
  | bind b => exact key

theorem sim_iteration (s : Srv) (inp : Input) (now' : Nat) (hlen : s.users.length ≤ 256) (m : Nat → MSt)
    (hG : G W0 m s) :
    ∃ m', runMon (inpIsV inp) m (iteration s inp now').2.1 = some m' ∧ G W0 m' (iteration s inp now').1 ∧
      AllChunkOK (iteration s inp now').2.1 := by
  have h0 : G W0 m (handlerState s now') := stay_setNow W0 _ _ m (stay_topOfLoop W0 s m hG)
  have hl : (handlerState s now').users.length ≤ 256 := by
    have : (handlerState s now').users.length = s.users.length := (pres_topOfLoop s).2.1
    omega
  exact sim_body (handlerState s now') inp (topOfLoop s).2.2 hl m h0

/-! ### runs -/

/-- the monitor over a trace (lemma-side copy) -/
def monTrace (m : Nat → MSt) : List TraceStep → Option (Nat → MSt)
  | [] => some m
  | t :: ts => (runMon (inpIsV t.step.inp) m t.events).bind (fun m' => monTrace m' ts)

theorem initLoop_length (my st : Nat) : ∀ cnt i skip, (Users.initLoop my st cnt i skip).length = cnt := by
  intro cnt
  induction cnt with
  | zero => intro i skip; rfl
  | succ n ih =>
    intro i skip
    unfold Users.initLoop
    dsimp only
    split <;> simp [ih]

theorem start_length (cfg : Config) (rnd : List Nat) : (start cfg rnd).users.length ≤ 16 := by
  unfold start Srv.init Users.initUsers
  simp only [List.length_map, initLoop_length, Users.userCount, USERS]
  omega

theorem g_start (cfg : Config) (rnd : List Nat) : G W0 (fun _ => none) (start cfg rnd) := by
  intro v
  obtain ⟨ip, h⟩ := getUser_start cfg rnd v
  rw [h]
  exact sm_zero _ ip

theorem next_length (s : Srv) (st : Step) (hi : Inv s) : (next s st).users.length = s.users.length := by
  have h0 : Pres s (handlerState s st.now) := (pres_topOfLoop s).trans (pres_setNow _ _)
  have hb := body_spec (handlerState s st.now) st.inp (topOfLoop s).2.2 (h0.inv hi)
  exact hb.1.len.trans h0.2.1

theorem monTrace_run : ∀ (steps : List Step) (s : Srv) (m : Nat → MSt), Inv s → s.users.length ≤ 256 → G W0 m s →
    ∃ m', monTrace m (traceFrom s steps) = some m' := by
  intro steps
  induction steps with
  | nil => intro s m _ _ _; exact ⟨m, rfl⟩
  | cons st rest ih =>
    intro s m hi hlen hG
    obtain ⟨m1, h1, hG1, _⟩ := sim_iteration s st.inp st.now hlen m hG
    have hi1 : Inv (next s st) := (iteration_spec s st.inp st.now hi).1
    have hl1 : (next s st).users.length ≤ 256 := by rw [next_length s st hi]; exact hlen
    obtain ⟨m', h'⟩ := ih (next s st) m1 hi1 hl1 hG1
    refine ⟨m', ?_⟩
    simp only [traceFrom, monTrace]
    have : runMon (inpIsV st.inp) m (out s st) = some m1 := h1
    rw [this]
    exact h'


/-- in every reachable state the invariant of part (B) holds for some monitor state -/
theorem reachable_g {cfg : Config} {s : Srv} (h : Reachable cfg s) :
    Inv s ∧ s.users.length ≤ 256 ∧ ∃ m, G W0 m s := by
  induction h with
  | init rnd =>
    exact ⟨inv_start cfg rnd, by have := start_length cfg rnd; omega, _, g_start cfg rnd⟩
  | step st _ _ ih =>
    obtain ⟨hi, hl, m, hG⟩ := ih
    obtain ⟨m1, _, hG1, _⟩ := sim_iteration _ st.inp st.now hl m hG
    exact ⟨(iteration_spec _ st.inp st.now hi).1, by rw [next_length _ st hi]; exact hl, m1, hG1⟩

/-- every fresh data answer of an iteration from a reachable state is cut from a well-formed session state -/
theorem chunk_ok_of_reachable {cfg : Config} {s : Srv} (h : Reachable cfg s) (st : Step) :
    AllChunkOK (out s st) := by
  obtain ⟨_, hl, m, hG⟩ := reachable_g h
  obtain ⟨_, _, _, hck⟩ := sim_iteration s st.inp st.now hl m hG
  exact hck


/-- what a packet cut by `send_chunk_or_dataless` from a well-formed session state looks like -/
theorem scPkt_shape {x : Session} (hw : SessW x) :
    (scPkt x (scDatalen x)).length = scDatalen x + 2 ∧
    (scPkt x (scDatalen x)).drop 2 = (x.outpacket.data.drop x.outpacket.offset).take (scDatalen x) ∧
    (scPkt x (scDatalen x)).getD 1 0 / 32 = hSeq x ∧ (scPkt x (scDatalen x)).getD 1 0 / 2 % 16 = hFrag x ∧
    ((scPkt x (scDatalen x)).getD 1 0 % 2 = 1 ↔
      x.outpacket.len > 0 ∧ x.outpacket.offset + scDatalen x = x.outpacket.len) ∧
    (x.outpacket.len ≠ 0 → 1 ≤ scDatalen x) := by
  have hd := hw.data
  have hdl : x.outpacket.offset + scDatalen x ≤ x.outpacket.data.length := by
    by_cases hl : x.outpacket.len = 0
    · have : scDatalen x = 0 := by unfold scDatalen; rw [if_neg (by omega)]
      have := hw.sent
      omega
    · have := (scDatalen_pos hw hl).2
      omega
  have hb : (scPkt x (scDatalen x)).getD 1 0 = hSeq x <<< 5 ||| hFrag x <<< 1 |||
      (if x.outpacket.len > 0 ∧ x.outpacket.len = x.outpacket.offset + scDatalen x then 1 else 0) := by
    unfold scPkt; rfl
  have ha : hSeq x < 8 := by unfold hSeq; omega
  have hf : hFrag x < 16 := by unfold hFrag; omega
  have hl2 : (if x.outpacket.len > 0 ∧ x.outpacket.len = x.outpacket.offset + scDatalen x then 1 else 0) < 2 := by
    split <;> omega
  obtain ⟨e1, e2, e3⟩ := hdr_decode _ ha _ hf _ hl2
  refine ⟨?_, ?_, ?_, ?_, ?_, fun hl => (scDatalen_pos hw hl).1⟩
  · unfold scPkt
    simp only [List.length_append, List.length_cons, List.length_nil, List.length_take, List.length_drop]
    omega
  · unfold scPkt; rfl
  · rw [hb, e1]
  · rw [hb, e2]
  · rw [hb, e3]
    constructor
    · intro h
      split at h
      · rename_i hc; exact ⟨hc.1, hc.2.symm⟩
      · cases h
    · intro h
      rw [if_pos ⟨h.1, h.2.symm⟩]


/-- a prefix of a run with non-decreasing clock has a non-decreasing clock -/
theorem monotone_take : ∀ (steps : List Step) (s : Srv) (n : Nat), Monotone s steps → Monotone s (steps.take n) := by
  intro steps
  induction steps with
  | nil => intro s n h; simp [Monotone]
  | cons st rest ih =>
    intro s n h
    cases n with
    | zero => simp [Monotone]
    | succ n => exact ⟨h.1, ih _ n h.2⟩

end Iodine.C15L
