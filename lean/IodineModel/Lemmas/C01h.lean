import IodineModel.Lemmas.C01a
/-
Helper lemmas for C01, part h: the CLIENT's reassembly machine under ARBITRARY input (the hostile network).
Invariant: `inpkt.data[0..len)` is the concatenation (cut at 64 KiB) of the payloads of a CHAIN of answers received so
far — same downstream seqno, fragment numbers rising by exactly one.
-/
namespace Iodine.C01L
open Iodine Iodine.Client

/-- header fields and payload of an answer as `tunnel_dns` reads them -/
def rqSeq (rq : Rq) : Nat := rq.buf.getD 1 0 / 32 % 8
def rqFrag (rq : Rq) : Nat := rq.buf.getD 1 0 / 2 % 16
def rqPayload (rq : Rq) : List Nat := (rq.buf.take rq.rv.toNat).drop 2

/-- data answers (more than the two header bytes) of one downstream seqno with consecutive fragment numbers -/
def RChain : List Rq → Prop
  | [] => True
  | [r] => r.rv > 2
  | r :: r' :: rest => r.rv > 2 ∧ rqSeq r' = rqSeq r ∧ rqFrag r' = rqFrag r + 1 ∧ RChain (r' :: rest)

/-- the buffer a chain fills: the payloads in order, cut at the size of `inpkt.data` -/
def rjoin (l : List Rq) : List Nat := ((l.map rqPayload).flatten).take Gen.PACKET_DATA_SIZE

theorem RChain.snoc : ∀ (l : List Rq) (rq : Rq), RChain l → rq.rv > 2 →
    (∀ r, l.getLast? = some r → rqSeq rq = rqSeq r ∧ rqFrag rq = rqFrag r + 1) → RChain (l ++ [rq])
  | [], rq, _, h, _ => h
  | [r], rq, h1, h, hl => ⟨h1, (hl r rfl).1, (hl r rfl).2, h⟩
  | r :: r' :: rest, rq, h1, h, hl => by
    obtain ⟨a, b, c, d⟩ := h1
    refine ⟨a, b, c, ?_⟩
    apply RChain.snoc (r' :: rest) rq d h
    intro x hx
    apply hl x
    rw [List.getLast?_cons_cons]; exact hx

theorem rjoin_snoc (l : List Rq) (rq : Rq) :
    rjoin (l ++ [rq]) = rjoin l ++ (rqPayload rq).take (Gen.PACKET_DATA_SIZE - (rjoin l).length) := by
  unfold rjoin
  rw [List.map_append, List.flatten_append, List.take_append]
  simp only [List.map_cons, List.map_nil, List.flatten_cons, List.flatten_nil, List.append_nil, List.length_take]
  congr 2
  omega

/-- the invariant: `p` holds the join of a chain that is a subsequence of the answers `seen` so far, and the chain's
last answer is the one whose seqno/fragment `p` remembers -/
def RInv (p : Packet) (seen : List Rq) : Prop :=
  ∃ l, l.Sublist seen ∧ RChain l ∧ p.data.take p.len = rjoin l ∧ p.len = (rjoin l).length ∧
    ∀ r, l.getLast? = some r → (rqSeq r : Int) = p.seqno ∧ (rqFrag r : Int) = p.fragment

theorem RInv.mono {p : Packet} {seen : List Rq} (h : RInv p seen) (rq : Rq) : RInv p (seen ++ [rq]) := by
  obtain ⟨l, a, b⟩ := h
  exact ⟨l, a.trans (List.sublist_append_left _ _), b⟩

/-- an empty buffer satisfies the invariant whatever it remembers -/
theorem RInv.empty {p : Packet} (h : p.len = 0) (seen : List Rq) : RInv p seen :=
  ⟨[], List.nil_sublist _, trivial, by rw [h]; rfl, by rw [h]; rfl, fun _ h => by cases h⟩


theorem decodeHdr_seq (rq : Rq) : (decodeHdr rq.buf).dnSeq = (rqSeq rq : Int) := rfl
theorem decodeHdr_frag (rq : Rq) : (decodeHdr rq.buf).dnFrag = (rqFrag rq : Int) := rfl

theorem sChar_nat_small (n : Nat) (h : n < 128) : sChar (n : Int) = (n : Int) := by
  unfold sChar; omega

theorem rqSeq_lt (rq : Rq) : rqSeq rq < 8 := by unfold rqSeq; omega
theorem rqFrag_lt (rq : Rq) : rqFrag rq < 16 := by unfold rqFrag; omega

/-- the accepting branches of the `if … else if …` chain: the state with which the fragment is taken holds a chain whose
last element (if any) is the fragment just before this one -/
theorem rxAccept_inv {p p1 : Packet} {seen : List Rq} (rq : Rq) (h : RInv p seen)
    (ha : rxAccept p (decodeHdr rq.buf) = some p1) :
    p1.seqno = (rqSeq rq : Int) ∧
    ∃ l, l.Sublist seen ∧ RChain l ∧ p1.data.take p1.len = rjoin l ∧ p1.len = (rjoin l).length ∧
      ∀ r, l.getLast? = some r → rqSeq rq = rqSeq r ∧ rqFrag rq = rqFrag r + 1 := by
  have empty : ∀ q : Packet, q.len = 0 → ∃ l, l.Sublist seen ∧ RChain l ∧ q.data.take q.len = rjoin l ∧
      q.len = (rjoin l).length ∧ ∀ r, l.getLast? = some r → rqSeq rq = rqSeq r ∧ rqFrag rq = rqFrag r + 1 :=
    fun q hq => ⟨[], List.nil_sublist _, trivial, by rw [hq]; rfl, by rw [hq]; rfl, fun _ h => by cases h⟩
  unfold rxAccept at ha
  rw [decodeHdr_seq, decodeHdr_frag] at ha
  split at ha
  · cases ha
    exact ⟨sChar_nat_small _ (by have := rqSeq_lt rq; omega), empty _ rfl⟩
  · next hs =>
    have hseq : p.seqno = (rqSeq rq : Int) := by
      apply Classical.byContradiction; intro hn; exact hs (fun e => hn e.symm)
    split at ha
    · next hw => cases ha; exact ⟨hseq, empty _ hw.2.2⟩
    · split at ha
      · cases ha
      · next hle =>
        split at ha
        · cases ha
        · next hgt =>
          cases ha
          refine ⟨hseq, ?_⟩
          obtain ⟨l, a, b, c, d, e⟩ := h
          refine ⟨l, a, b, c, d, ?_⟩
          intro r hr
          obtain ⟨e1, e2⟩ := e r hr
          constructor
          · have : (rqSeq rq : Int) = (rqSeq r : Int) := by rw [e1, hseq]
            exact Int.ofNat_inj.mp this
          · have : (rqFrag rq : Int) = (rqFrag r : Int) + 1 := by rw [e2]; omega
            omega

theorem frames_tunws_cases (b : List Nat) : frames b = [] ∨ ∃ out, uncompress b 65536 = some out ∧ frames b = [writeTun out] := by
  unfold frames
  cases uncompress b 65536 with
  | none => exact Or.inl rfl
  | some out => exact Or.inr ⟨out, rfl, rfl⟩

/-- where the tun writes of one answer come from: nothing, or the join of a chain of received answers ending in this
one, handed to `uncompress` -/
def ROrigin (seen : List Rq) (rq : Rq) (evs : List CEvent) : Prop :=
  evs = [] ∨ ∃ l, l.Sublist (seen ++ [rq]) ∧ RChain l ∧ l.getLast? = some rq ∧ evs = frames (rjoin l)

/-- **one step of the reassembly machine under arbitrary input** -/
theorem rxStep_inv (p : Packet) (acc : Bool) (rq : Rq) (seen : List Rq) (h : RInv p seen) :
    RInv (rxStep p acc rq).1 (seen ++ [rq]) ∧ ROrigin seen rq (rxStep p acc rq).2 := by
  unfold rxStep
  cases acc with
  | false => exact ⟨h.mono rq, Or.inl rfl⟩
  | true =>
    simp only [if_true]
    -- the header-only adoption of a new seqno empties the buffer
    have h0 : RInv (rxAdopt p (decodeHdr rq.buf) (rxRead p (decodeHdr rq.buf) rq.rv)) seen := by
      unfold rxAdopt
      split
      · exact RInv.empty rfl seen
      · exact h
    generalize rxAdopt p (decodeHdr rq.buf) (rxRead p (decodeHdr rq.buf) rq.rv) = p0 at h0
    have hread : rxRead p (decodeHdr rq.buf) rq.rv > 2 → rxRead p (decodeHdr rq.buf) rq.rv = rq.rv ∧ rq.rv > 2 := by
      unfold rxRead
      split
      · intro h2; omega
      · intro h2; exact ⟨rfl, h2⟩
    generalize rxRead p (decodeHdr rq.buf) rq.rv = read at hread
    unfold rxDown
    split
    · next hgt =>
      obtain ⟨hrd, hrv⟩ := hread hgt
      subst hrd
      cases ha : rxAccept p0 (decodeHdr rq.buf) with
      | none => exact ⟨h0.mono rq, Or.inl rfl⟩
      | some p1 =>
        obtain ⟨hseq, l, a, b, c, d, e⟩ := rxAccept_inv rq h0 ha
        dsimp only
        -- the buffer after the copy
        have hsub : (l ++ [rq]).Sublist (seen ++ [rq]) := List.Sublist.append a (List.Sublist.refl _)
        have hchain : RChain (l ++ [rq]) := RChain.snoc l rq b hrv e
        have hlast : (l ++ [rq]).getLast? = some rq := by simp
        have hdata : (rxAppend p1 (decodeHdr rq.buf) rq.buf rq.rv).data.take
            (rxAppend p1 (decodeHdr rq.buf) rq.buf rq.rv).len = rjoin (l ++ [rq]) ∧
            (rxAppend p1 (decodeHdr rq.buf) rq.buf rq.rv).len = (rjoin (l ++ [rq])).length := by
          unfold rxAppend
          dsimp only
          rw [rjoin_snoc, c, ← d]
          have hlen : (rjoin l ++ List.take (Gen.PACKET_DATA_SIZE - p1.len) (rqPayload rq)).length
              = p1.len + (List.take (Gen.PACKET_DATA_SIZE - p1.len) (List.drop 2 (List.take rq.rv.toNat rq.buf))).length := by
            rw [List.length_append, ← d]; rfl
          refine ⟨?_, hlen.symm⟩
          rw [← hlen]
          exact List.take_of_length_le (Nat.le_refl _)
        by_cases hl : (decodeHdr rq.buf).last = true
        · rw [if_pos hl]
          unfold rxDeliver
          dsimp only
          refine ⟨RInv.empty rfl _, Or.inr ⟨l ++ [rq], hsub, hchain, hlast, ?_⟩⟩
          rw [hdata.1]
        · rw [if_neg hl]
          refine ⟨⟨l ++ [rq], hsub, hchain, hdata.1, hdata.2, ?_⟩, Or.inl rfl⟩
          intro r hr
          rw [hlast] at hr
          cases hr
          refine ⟨?_, ?_⟩
          · show _ = p1.seqno; exact hseq.symm
          · show _ = sChar (decodeHdr rq.buf).dnFrag
            rw [decodeHdr_frag, sChar_nat_small _ (by have := rqFrag_lt rq; omega)]
    · exact ⟨h0.mono rq, Or.inl rfl⟩

end Iodine.C01L
