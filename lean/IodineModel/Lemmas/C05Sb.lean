import IodineModel.Lemmas.BytesH
/-
Helper lemmas for C05: the SIZE invariant of the session machine.  `SzInv s`: the lists the model keeps for the C arrays of
`struct tun_user` never exceed the array sizes and the ring indices stay in range; `EvOK evs`: the `raw`/`tunw`/`rly` events fit
the local buffers they are sent from.  Same traversal as `BytesF`/`BytesG`/`BytesH` (`DataInv`/`Good`).
-/
namespace Iodine.C05L
open Iodine Iodine.Server Iodine.Gen Iodine.BytesL

/-- array sizes of `struct tun_user` (user.h, common.h): `name[256]`, `data[64*1024]`, the 4-entry answer cache, the 30/15-entry query memories -/
structure SzOK (x : Session) : Prop where
  qn : x.q.name.length ≤ 255
  qsn : x.qs.name.length ≤ 255
  dcn : ∀ e ∈ x.dnscache, e.q.name.length ≤ 255
  dcl : x.dnscache.length = 4
  dci : x.dcLast < 4
  inp : x.inpacket.data.length ≤ 65536
  inoff : x.inpacket.offset ≤ 65536
  out : x.outpacket.data.length ≤ 65536
  oq : ∀ p ∈ x.outpacketq, p.data.length ≤ 65536
  qpl : x.qmemping.length = 30
  qpc : ∀ e ∈ x.qmemping, e.cmc.length = 4
  qpi : x.qmempingLast < 30
  qdl : x.qmemdata.length = 15
  qdc : ∀ e ∈ x.qmemdata, e.cmc.length = 4
  qdi : x.qmemdataLast < 15

def SzInv (s : Srv) : Prop := ∀ x ∈ s.users, SzOK x

/-- the local buffers events are sent from: `send_raw`'s `packet[4096]`, `write_tun`'s `out[64K]`, `tunnel_bind`'s `packet[64K]` -/
def evOK : Event → Prop
  | .raw _ b => b.length ≤ 4096
  | .tunw f => f.length ≤ 65536
  | .rly _ b => b.length ≤ 65536
  | _ => True

def EvOK (evs : List Event) : Prop := ∀ e ∈ evs, evOK e

def SzGood (r : Res) : Prop := SzInv r.1 ∧ EvOK r.2

/-- what the session machine is given: a decoded question name fits `name[256]` -/
def InputFits : Input → Prop
  | .q q => q.name.length ≤ 255
  | _ => True

/-! ### the invariant: basics -/

theorem szOK_zero (t : Nat) : SzOK (Session.zero t) where
  qn := Nat.zero_le _
  qsn := Nat.zero_le _
  dcn := by
    intro e he
    simp only [Session.zero, List.mem_replicate] at he
    rw [he.2]; exact Nat.zero_le _
  dcl := by simp only [Session.zero, List.length_replicate, DNSCACHE_LEN]
  dci := (by decide : (0:Nat) < 4)
  inp := Nat.zero_le _
  inoff := Nat.zero_le _
  out := Nat.zero_le _
  oq := by
    intro p hp
    simp only [Session.zero, List.mem_replicate] at hp
    rw [hp.2]; exact Nat.zero_le _
  qpl := by simp only [Session.zero, List.length_replicate, QMEMPING_LEN]
  qpc := by
    intro e he
    simp only [Session.zero, List.mem_replicate] at he
    rw [he.2]; rfl
  qpi := (by decide : (0:Nat) < 30)
  qdl := by simp only [Session.zero, List.length_replicate, QMEMDATA_LEN]
  qdc := by
    intro e he
    simp only [Session.zero, List.mem_replicate] at he
    rw [he.2]; rfl
  qdi := (by decide : (0:Nat) < 15)

theorem szOK_getUser {s : Srv} (h : SzInv s) (u : Nat) : SzOK (getUser s u) := by
  unfold getUser
  rw [List.getD_eq_getElem?_getD]
  cases hu : s.users[u]? with
  | none => exact szOK_zero 0
  | some x => exact h x (List.mem_of_getElem? hu)

theorem szInv_setUser {s : Srv} (h : SzInv s) (u : Nat) (f : Session → Session)
    (hf : ∀ x, SzOK x → SzOK (f x)) : SzInv (setUser s u f) := by
  intro y hy
  unfold setUser at hy
  rcases mem_modify hy with hy | ⟨x, hx, rfl⟩
  · exact h y hy
  · exact hf x (h x hx)

theorem szInv_users {s s' : Srv} (h : SzInv s) (hu : s'.users = s.users) : SzInv s' := by
  unfold SzInv; rw [hu]; exact h

/-- all the fields the invariant looks at are unchanged -/
theorem SzOK.congr {x y : Session} (hx : SzOK x)
    (h1 : y.q.name = x.q.name := by rfl) (h2 : y.qs.name = x.qs.name := by rfl)
    (h3 : y.dnscache = x.dnscache := by rfl) (h4 : y.dcLast = x.dcLast := by rfl)
    (h5 : y.inpacket.data = x.inpacket.data := by rfl) (h6 : y.inpacket.offset = x.inpacket.offset := by rfl)
    (h7 : y.outpacket.data = x.outpacket.data := by rfl) (h8 : y.outpacketq = x.outpacketq := by rfl)
    (h9 : y.qmemping = x.qmemping := by rfl) (h10 : y.qmempingLast = x.qmempingLast := by rfl)
    (h11 : y.qmemdata = x.qmemdata := by rfl) (h12 : y.qmemdataLast = x.qmemdataLast := by rfl) : SzOK y := by
  refine ⟨?_, ?_, ?_, ?_, ?_, ?_, ?_, ?_, ?_, ?_, ?_, ?_, ?_, ?_, ?_⟩
  · rw [h1]; exact hx.qn
  · rw [h2]; exact hx.qsn
  · rw [h3]; exact hx.dcn
  · rw [h3]; exact hx.dcl
  · rw [h4]; exact hx.dci
  · rw [h5]; exact hx.inp
  · rw [h6]; exact hx.inoff
  · rw [h7]; exact hx.out
  · rw [h8]; exact hx.oq
  · rw [h9]; exact hx.qpl
  · rw [h9]; exact hx.qpc
  · rw [h10]; exact hx.qpi
  · rw [h11]; exact hx.qdl
  · rw [h11]; exact hx.qdc
  · rw [h12]; exact hx.qdi

/-! ### events -/

theorem evOK_nil : EvOK [] := fun _ h => by cases h
theorem evOK_append {a b : List Event} (ha : EvOK a) (hb : EvOK b) : EvOK (a ++ b) := by
  intro e h
  rcases List.mem_append.1 h with h | h
  · exact ha _ h
  · exact hb _ h
theorem evOK_one {e : Event} (h : evOK e) : EvOK [e] := by
  intro e' he; simp only [List.mem_singleton] at he; subst he; exact h
theorem evOK_writeDns (q : Query) (d : List Nat) (dn : Nat) (tag : Tag) : EvOK [writeDns q d dn tag] :=
  evOK_one trivial
theorem evOK_sendRaw (b : List Nat) (l u c : Nat) (q : Query) : EvOK [sendRaw b l u c q] := by
  apply evOK_one
  have h3 : (rawHeader.take 3).length ≤ 3 := by decide
  simp only [sendRaw, evOK, List.length_append, List.length_cons, List.length_nil, RAW_HDR_LEN] at h3 ⊢
  have : (List.take (min (4096 - 4) l) b).length ≤ 4092 := by
    rw [List.length_take]; omega
  omega

theorem good_nil {s : Srv} (h : SzInv s) : SzGood (s, []) := ⟨h, evOK_nil⟩

theorem good_ite {c : Prop} [Decidable c] {a b : Res} (ha : SzGood a) (hb : SzGood b) : SzGood (if c then a else b) := by
  split <;> assumption

theorem good_ite' {c : Prop} [Decidable c] {a b : Res} (ha : c → SzGood a) (hb : ¬ c → SzGood b) :
    SzGood (if c then a else b) := by
  split
  · exact ha ‹_›
  · exact hb ‹_›

/-! ### user.c and the small helpers -/

theorem inv_findAvailableUser {s : Srv} (h : SzInv s) : SzInv (findAvailableUser s).2 := by
  unfold findAvailableUser
  split
  · exact szInv_setUser h _ _ fun x hx => hx.congr
  · exact h

theorem inv_userSwitchCodec {s : Srv} (h : SzInv s) (u : Nat) (e : Enc) : SzInv (userSwitchCodec s u e) := by
  unfold userSwitchCodec
  split
  · exact h
  · exact szInv_setUser h _ _ fun x hx => hx.congr

theorem inv_userSetConnType {s : Srv} (h : SzInv s) (u : Nat) (c : Conn) : SzInv (userSetConnType s u c) := by
  unfold userSetConnType
  split
  · exact h
  · exact szInv_setUser h _ _ fun x hx => hx.congr

theorem inv_popRand {s : Srv} (h : SzInv s) : SzInv (popRand s).2 := by
  unfold popRand
  split
  · exact h
  · exact szInv_users h rfl

theorem take_min_le (d : List Nat) (n : Nat) : (d.take (min n PACKET_DATA_SIZE)).length ≤ 65536 := by
  rw [List.length_take]; simp only [PACKET_DATA_SIZE]; omega

theorem inv_startNewOutpacket {s : Srv} (h : SzInv s) (u : Nat) (d : List Nat) (n : Nat) :
    SzInv (startNewOutpacket s u d n) := by
  unfold startNewOutpacket
  exact szInv_setUser h _ _ fun x hx => { hx.congr (h7 := rfl) with out := take_min_le d n }

theorem inv_saveToOutpacketq {s : Srv} (h : SzInv s) (u : Nat) (d : List Nat) (n : Nat) :
    SzInv (saveToOutpacketq s u d n).1 := by
  unfold saveToOutpacketq
  extract_lets x
  split
  · exact h
  · refine szInv_setUser h _ _ fun y hy => { hy.congr (h8 := rfl) with oq := ?_ }
    intro p hp
    rcases mem_modify hp with hp | ⟨p0, _, rfl⟩
    · exact hy.oq p hp
    · exact take_min_le d n

theorem inv_getFromOutpacketq {s : Srv} (h : SzInv s) (u : Nat) : SzInv (getFromOutpacketq s u).1 := by
  unfold getFromOutpacketq
  extract_lets x use p s1 use'
  split
  · exact h
  · exact szInv_setUser (inv_startNewOutpacket h u _ _) _ _ fun y hy => hy.congr

theorem inv_saveToDnscache {s : Srv} (h : SzInv s) (u : Nat) (q : Query) (a : List Nat) (hq : q.name.length ≤ 255) :
    SzInv (saveToDnscache s u q a) := by
  unfold saveToDnscache
  split
  · exact h
  · refine szInv_setUser h _ _ fun y hy => ?_
    have hfill : (if y.dcLast + 1 ≥ DNSCACHE_LEN then 0 else y.dcLast + 1) < 4 := by
      by_cases hc : y.dcLast + 1 ≥ DNSCACHE_LEN
      · rw [if_pos hc]; decide
      · rw [if_neg hc]; simp only [DNSCACHE_LEN] at hc; omega
    refine { hy.congr (h3 := rfl) (h4 := rfl) with dcn := ?_, dcl := ?_, dci := hfill }
    · intro e he
      rcases List.mem_or_eq_of_mem_set he with he | rfl
      · exact hy.dcn e he
      · exact hq
    · show (y.dnscache.set _ _).length = 4
      rw [List.length_set]; exact hy.dcl

theorem dataCmc_length (name : List Nat) : (dataCmc name).length = 4 := by
  simp only [dataCmc, List.length_map, List.length_range]

theorem saveToQmem_ok {mem : List QmemEntry} {last len : Nat} (cmc : List Nat) (ty : Nat) (hl : mem.length = len)
    (hc : ∀ e ∈ mem, e.cmc.length = 4) (hlen : 0 < len) (h4 : cmc.length = 4) :
    (saveToQmem mem last len cmc ty).1.length = len ∧ (∀ e ∈ (saveToQmem mem last len cmc ty).1, e.cmc.length = 4) ∧
      (saveToQmem mem last len cmc ty).2 < len := by
  unfold saveToQmem
  refine ⟨?_, ?_, ?_⟩
  · simp only [List.length_set]; exact hl
  · intro e he
    rcases List.mem_or_eq_of_mem_set he with he | rfl
    · exact hc e he
    · exact h4
  · show (if last + 1 ≥ len then 0 else last + 1) < len
    split <;> omega

theorem inv_saveToQmemPingOrData {s : Srv} (h : SzInv s) (u : Nat) (q : Query) : SzInv (saveToQmemPingOrData s u q) := by
  unfold saveToQmemPingOrData
  extract_lets c0
  split
  · split
    · exact h
    · extract_lets cmc
      split
      · exact h
      · rename_i hc
        refine szInv_setUser h _ _ fun x hx => ?_
        have h4 : (cmc.take 4).length = 4 := by rw [List.length_take]; omega
        have := saveToQmem_ok (last := x.qmempingLast) (cmc.take 4) q.type hx.qpl hx.qpc (by decide) h4
        exact { hx.congr (h9 := rfl) (h10 := rfl) with qpl := this.1, qpc := this.2.1, qpi := this.2.2 }
  · split
    · exact h
    · refine szInv_setUser h _ _ fun x hx => ?_
      have := saveToQmem_ok (last := x.qmemdataLast) (dataCmc q.name) q.type hx.qdl hx.qdc (by decide) (dataCmc_length _)
      exact { hx.congr (h11 := rfl) (h12 := rfl) with qdl := this.1, qdc := this.2.1, qdi := this.2.2 }

theorem szOK_dropOut {x : Session} (hx : SzOK x) : SzOK (dropOut x) := hx.congr

theorem inv_scDropResent {s : Srv} (h : SzInv s) (u : Nat) : SzInv (scDropResent s u) := by
  unfold scDropResent
  extract_lets x
  split
  · apply inv_getFromOutpacketq
    apply szInv_setUser h
    intro x hx
    exact szOK_dropOut hx
  · exact h

theorem inv_scPrepare {s : Srv} (h : SzInv s) (u : Nat) : SzInv (scPrepare s u) := by
  unfold scPrepare
  split
  · exact szInv_setUser h _ _ fun x hx => hx.congr
  · exact h

theorem inv_processDownstreamAck {s : Srv} (h : SzInv s) (u : Nat) (a b : Int) : SzInv (processDownstreamAck s u a b) := by
  unfold processDownstreamAck
  extract_lets x off s1
  split
  · exact h
  · split
    · exact h
    · split
      · exact h
      · have h1 : SzInv s1 := szInv_setUser h _ _ fun x hx => hx.congr
        split
        · apply inv_getFromOutpacketq
          apply szInv_setUser h1
          intro x hx
          exact hx.congr
        · exact h1

theorem inv_saveQuery {s : Srv} (h : SzInv s) (u : Nat) (q : Query) (hq : q.name.length ≤ 255) : SzInv (saveQuery s u q) := by
  unfold saveQuery
  exact szInv_setUser h _ _ fun x hx => { hx.congr (h1 := rfl) with qn := hq }

theorem inv_rememberDuplicate {s s' : Srv} (h : SzInv s) (u : Nat) (q : Query) (hd : rememberDuplicate s u q = some s') :
    SzInv s' := by
  unfold rememberDuplicate at hd
  extract_lets x at hd
  split at hd
  · cases hd; exact szInv_setUser h _ _ fun x hx => hx.congr
  · split at hd
    · cases hd; exact szInv_setUser h _ _ fun x hx => hx.congr
    · cases hd

theorem dc_clear {c : List DnsCacheEntry} (h : ∀ e ∈ c, e.q.name.length ≤ 255) :
    ∀ e ∈ clearDnscache c, e.q.name.length ≤ 255 := by
  intro e he
  simp only [clearDnscache, List.mem_map] at he
  obtain ⟨e0, he0, rfl⟩ := he
  exact h e0 he0

theorem dc_clear_length (c : List DnsCacheEntry) : (clearDnscache c).length = c.length := by
  simp only [clearDnscache, List.length_map]

theorem qmem_unset {m : List QmemEntry} (h : ∀ e ∈ m, e.cmc.length = 4) :
    ∀ e ∈ m.map (fun e => { e with type := T_UNSET }), e.cmc.length = 4 := by
  intro e he
  simp only [List.mem_map] at he
  obtain ⟨e0, he0, rfl⟩ := he
  exact h e0 he0

theorem szOK_resetSession {x : Session} (hx : SzOK x) : SzOK (resetSession x) where
  qn := hx.qn
  qsn := hx.qsn
  dcn := dc_clear hx.dcn
  dcl := by show (clearDnscache x.dnscache).length = 4; rw [dc_clear_length]; exact hx.dcl
  dci := (by decide : (0:Nat) < 4)
  inp := hx.inp
  inoff := Nat.zero_le _
  out := hx.out
  oq := hx.oq
  qpl := by show (x.qmemping.map _).length = 30; rw [List.length_map]; exact hx.qpl
  qpc := qmem_unset hx.qpc
  qpi := (by decide : (0:Nat) < 30)
  qdl := by show (x.qmemdata.map _).length = 15; rw [List.length_map]; exact hx.qdl
  qdc := qmem_unset hx.qdc
  qdi := (by decide : (0:Nat) < 15)

theorem unpackData_le (c : Codec.Codec) (cap : Nat) (d : List Nat) : (Encoding.unpackData c cap d).length ≤ cap := by
  unfold Encoding.unpackData Codec.dec
  simp only [List.length_take]; omega

theorem szOK_dataUpstream {x : Session} (hx : SzOK x) (a b : Nat) : SzOK (dataUpstream x a b).1 := by
  unfold dataUpstream
  split
  · exact hx
  · split
    · exact hx
    · split
      · exact { hx.congr (h6 := rfl) with inoff := Nat.zero_le _ }
      · exact hx.congr

theorem szOK_dataStore {x : Session} (hx : SzOK x) (p : List Nat) : SzOK (dataStore x p) := by
  unfold dataStore
  extract_lets unpacked chunk
  have hc : chunk.length ≤ 65536 - x.inpacket.offset := by
    simp only [chunk, List.length_take, PACKET_DATA_SIZE]; omega
  have ho := hx.inoff
  refine { hx.congr (h5 := rfl) (h6 := rfl) with inp := ?_, inoff := ?_ }
  · show (x.inpacket.data.take x.inpacket.offset ++ chunk).length ≤ 65536
    rw [List.length_append, List.length_take]; omega
  · show x.inpacket.offset + chunk.length ≤ 65536
    omega

/-! ### send_chunk_or_dataless -/

theorem scAnswer_name (q : Query) (pkt : List Nat) (dn u : Nat) : (scAnswer q pkt dn u).1.name = q.name := by
  unfold scAnswer
  split <;> rfl

theorem evOK_scAnswer (q : Query) (pkt : List Nat) (dn u : Nat) : EvOK (scAnswer q pkt dn u).2 := by
  unfold scAnswer
  split
  · exact evOK_append (a := [_]) (evOK_writeDns _ _ _ _) (evOK_writeDns _ _ _ _)
  · exact evOK_writeDns _ _ _ _

theorem qsel_name {x : Session} (hx : SzOK x) (w : QSel) : (w.get x).name.length ≤ 255 := by
  cases w
  · exact hx.qn
  · exact hx.qsn

theorem szOK_qset {x : Session} (hx : SzOK x) (w : QSel) (q : Query) (hq : q.name.length ≤ 255) : SzOK (w.set x q) := by
  cases w
  · exact { hx.congr (h1 := rfl) with qn := hq }
  · exact { hx.congr (h2 := rfl) with qsn := hq }

theorem good_sc {s : Srv} (h : SzInv s) (u : Nat) (w : QSel) : SzGood (sendChunkOrDataless s u w).1 := by
  unfold sendChunkOrDataless
  extract_lets s1 x datalen pkt a s2 s3 src s4 r
  have h1 : SzInv s1 := inv_scPrepare (inv_scDropResent h u) u
  have hx : SzOK x := szOK_getUser h1 u
  have hn : a.1.name.length ≤ 255 := by
    simp only [a]; rw [scAnswer_name]; exact qsel_name hx w
  have h2 : SzInv s2 := inv_saveToQmemPingOrData h1 u _
  have h3 : SzInv s3 := inv_saveToDnscache h2 u _ pkt hn
  have h4 : SzInv s4 := szInv_setUser h3 _ _ fun y hy => szOK_qset hy w _ hn
  have ha : EvOK a.2 := evOK_scAnswer _ pkt _ u
  split
  · refine ⟨?_, ha⟩
    show SzInv r.1
    apply inv_getFromOutpacketq
    apply szInv_setUser h4
    intro y hy
    exact szOK_dropOut hy
  · exact ⟨h4, ha⟩

theorem good_sendWaiting {s : Srv} (h : SzInv s) (u : Nat) : SzGood (sendWaiting s u) := by
  unfold sendWaiting
  extract_lets x
  split
  · exact good_sc h u .qs
  · split
    · exact good_sc h u .q
    · exact good_nil h

/-! ### tun and forwarding -/

theorem good_tunnelTun {s : Srv} (h : SzInv s) (frame : List Nat) : SzGood (tunnelTun s frame) := by
  unfold tunnelTun
  split
  · exact good_nil h
  · split
    · exact good_nil h
    · split
      · exact good_nil h
      · rename_i u _
        extract_lets out x
        split
        · split
          · exact ⟨inv_saveToOutpacketq h u out _, evOK_nil⟩
          · exact good_sendWaiting (inv_startNewOutpacket h u out _) u
        · exact ⟨h, evOK_sendRaw _ _ _ _ _⟩

theorem good_deliverToUser {s : Srv} (h : SzInv s) (t : Nat) (d : List Nat) (n : Nat) :
    SzGood (deliverToUser s t d n) := by
  unfold deliverToUser
  extract_lets y
  split
  · split
    · exact good_sendWaiting (inv_startNewOutpacket h t d n) t
    · exact ⟨inv_saveToOutpacketq h t d n, evOK_nil⟩
  · exact ⟨h, evOK_sendRaw _ _ _ _ _⟩

theorem uncompress_le {d o : List Nat} {cap : Nat} (h : uncompress d cap = some o) : o.length ≤ cap := by
  unfold uncompress at h
  split at h
  · cases h
  · split at h
    · rename_i hc; cases h; exact hc.2
    · cases h

theorem evOK_writeTun (o : List Nat) (h1 : 4 ≤ o.length) (h2 : o.length ≤ 65536) : EvOK [writeTun o] := by
  apply evOK_one
  simp only [writeTun, evOK, List.length_append, List.length_cons, List.length_nil, List.length_drop]
  omega

theorem good_handleFullPacket {s : Srv} (h : SzInv s) (u : Nat) : SzGood (handleFullPacket s u) := by
  unfold handleFullPacket
  extract_lets x r
  have hr : SzGood r := by
    simp only [r]
    split
    · rename_i o ho
      have hle := uncompress_le ho
      split
      · rename_i h24
        split
        · exact ⟨h, evOK_writeTun _ (by omega) hle⟩
        · exact good_deliverToUser h _ _ _
      · exact good_nil h
    · exact good_nil h
  refine ⟨?_, hr.2⟩
  exact szInv_setUser hr.1 _ _ fun y hy => { hy.congr (h6 := rfl) with inoff := Nat.zero_le _ }

/-! ### control requests -/

theorem evOK_version (s : Srv) (k : VersionAck) (p u : Nat) (q : Query) : EvOK [sendVersionResponse s k p u q] := by
  unfold sendVersionResponse
  exact evOK_writeDns _ _ _ _

theorem good_handleVersion {s : Srv} (h : SzInv s) (q : Query) (hq : q.name.length ≤ 255) (inb : List Nat) :
    SzGood (handleVersion s q inb) := by
  unfold handleVersion
  extract_lets unpacked version
  split
  · split
    · rename_i u s1 hf
      extract_lets r s2
      have h1 : SzInv s1 := by
        have := inv_findAvailableUser h
        rw [hf] at this; exact this
      have h2 : SzInv s2 := szInv_setUser (inv_popRand h1) _ _ fun x hx => { hx.congr (h1 := rfl) with qn := hq }
      exact ⟨szInv_setUser h2 _ _ fun x hx => szOK_resetSession hx, evOK_version _ _ _ _ _⟩
    · rename_i s1 hf
      have h1 : SzInv s1 := by
        have := inv_findAvailableUser h
        rw [hf] at this; exact this
      exact ⟨h1, evOK_version _ _ _ _ _⟩
  · exact ⟨h, evOK_version _ _ _ _ _⟩

theorem good_handleLogin {s : Srv} (h : SzInv s) (q : Query) (inb : List Nat) : SzGood (handleLogin s q inb) := by
  unfold handleLogin
  extract_lets unpacked userid u s1 x logindata out
  split
  · exact ⟨h, evOK_writeDns _ _ _ _⟩
  · split
    · exact ⟨h, evOK_writeDns _ _ _ _⟩
    · have h1 : SzInv s1 := szInv_setUser h _ _ fun y hy => hy.congr
      split
      · exact ⟨szInv_setUser h1 _ _ fun y hy => hy.congr, evOK_writeDns _ _ _ _⟩
      · exact ⟨h1, evOK_writeDns _ _ _ _⟩

theorem good_handleIp {s : Srv} (h : SzInv s) (q : Query) (inb : List Nat) : SzGood (handleIp s q inb) := by
  unfold handleIp
  extract_lets userid addr
  split
  · exact ⟨h, evOK_writeDns _ _ _ _⟩
  · exact ⟨h, evOK_writeDns _ _ _ _⟩

theorem good_handleZ {s : Srv} (h : SzInv s) (q : Query) (inb : List Nat) : SzGood (handleZ s q inb) :=
  ⟨h, evOK_writeDns _ _ _ _⟩

theorem good_handleSwitchCodec {s : Srv} (h : SzInv s) (q : Query) (dlen : Nat) (inb : List Nat) :
    SzGood (handleSwitchCodec s q dlen inb) := by
  unfold handleSwitchCodec
  split
  · exact ⟨h, evOK_writeDns _ _ _ _⟩
  · extract_lets userid u dn codec sw
    split
    · exact ⟨h, evOK_writeDns _ _ _ _⟩
    · have hsw : ∀ e, SzGood (sw e) := fun e => ⟨inv_userSwitchCodec h u e, evOK_writeDns _ _ _ _⟩
      split
      · exact hsw _
      · split
        · exact hsw _
        · split
          · exact hsw _
          · split
            · exact hsw _
            · exact ⟨h, evOK_writeDns _ _ _ _⟩

theorem good_handleOptions {s : Srv} (h : SzInv s) (q : Query) (dlen : Nat) (inb : List Nat) :
    SzGood (handleOptions s q dlen inb) := by
  unfold handleOptions
  split
  · exact ⟨h, evOK_writeDns _ _ _ _⟩
  · extract_lets userid u c setDn setLazy
    split
    · exact ⟨h, evOK_writeDns _ _ _ _⟩
    · have hs : ∀ d msg, SzGood (setDn d msg) := fun d msg =>
        ⟨szInv_setUser h _ _ fun y hy => hy.congr, evOK_writeDns _ _ _ _⟩
      have hl : ∀ d msg, SzGood (setLazy d msg) := fun d msg =>
        ⟨szInv_setUser h _ _ fun y hy => hy.congr, evOK_writeDns _ _ _ _⟩
      split
      · exact hs _ _
      · split
        · exact hs _ _
        · split
          · exact hs _ _
          · split
            · exact hs _ _
            · split
              · exact hs _ _
              · split
                · exact hl _ _
                · split
                  · exact hl _ _
                  · exact ⟨h, evOK_writeDns _ _ _ _⟩

theorem good_handleDownCodecCheck {s : Srv} (h : SzInv s) (q : Query) (dlen : Nat) (inb : List Nat) :
    SzGood (handleDownCodecCheck s q dlen inb) := by
  unfold handleDownCodecCheck
  split
  · exact ⟨h, evOK_writeDns _ _ _ _⟩
  · split
    · exact ⟨h, evOK_writeDns _ _ _ _⟩
    · extract_lets c named rawOk dn
      clear_value dn
      cases dn
      · exact ⟨h, evOK_writeDns _ _ _ _⟩
      · exact ⟨h, evOK_writeDns _ _ _ _⟩

theorem good_handleFragsizeProbe {s : Srv} (h : SzInv s) (q : Query) (dlen : Nat) (inb : List Nat) :
    SzGood (handleFragsizeProbe s q dlen inb) := by
  unfold handleFragsizeProbe
  split
  · exact ⟨h, evOK_writeDns _ _ _ _⟩
  · extract_lets b1 userid u req r
    split
    · exact ⟨h, evOK_writeDns _ _ _ _⟩
    · split
      · exact ⟨h, evOK_writeDns _ _ _ _⟩
      · exact ⟨inv_popRand h, evOK_writeDns _ _ _ _⟩

theorem good_handleSetFragsize {s : Srv} (h : SzInv s) (q : Query) (inb : List Nat) :
    SzGood (handleSetFragsize s q inb) := by
  unfold handleSetFragsize
  extract_lets unpacked userid u maxFrag
  split
  · exact ⟨h, evOK_writeDns _ _ _ _⟩
  · split
    · exact ⟨h, evOK_writeDns _ _ _ _⟩
    · split
      · exact ⟨h, evOK_writeDns _ _ _ _⟩
      · refine ⟨szInv_setUser h _ _ fun y hy => ?_, evOK_writeDns _ _ _ _⟩
        refine { hy.congr (h3 := rfl) with dcn := dc_clear hy.dcn, dcl := ?_ }
        show (clearDnscache y.dnscache).length = 4
        rw [dc_clear_length]; exact hy.dcl

/-! ### ping and data -/

theorem evOK_cached {s : Srv} (u : Nat) (q : Query) (e : Event) (he : answerFromDnscache s u q = some e) :
    EvOK [e] := by
  unfold answerFromDnscache at he
  extract_lets x at he
  split at he
  · cases he; exact evOK_writeDns _ _ _ _
  · cases he

theorem evOK_qmem (q : Query) (mem : List QmemEntry) (cmc : List Nat) (u : Nat) (e : Event)
    (he : answerFromQmem q mem cmc u = some e) : EvOK [e] := by
  unfold answerFromQmem at he
  split at he
  · cases he; exact evOK_writeDns _ _ _ _
  · cases he

theorem good_pingFresh {s : Srv} (h : SzInv s) (u : Nat) (q : Query) (hq : q.name.length ≤ 255) (unpacked : List Nat) :
    SzGood (pingFresh s u q unpacked) := by
  unfold pingFresh
  extract_lets b s1 r1 t r2 didsend s3 x r3
  have h1 : SzInv s1 := inv_processDownstreamAck h u _ _
  clear_value s1
  have g1 : SzGood r1 := by
    simp only [r1]
    split
    · exact good_sc h1 u .qs
    · exact good_nil h1
  clear_value r1
  have g2 : SzGood r2.1 := by
    simp only [r2, t]
    split
    · dsimp only
      exact good_sc g1.1 u .q
    · exact good_nil g1.1
  clear_value r2 t
  have h3 : SzInv s3 := inv_saveQuery g2.1 u q hq
  clear_value s3
  have g3 : SzGood r3 := by
    simp only [r3]
    split
    · exact good_sc h3 u .q
    · exact good_nil h3
  clear_value r3
  exact ⟨g3.1, evOK_append (evOK_append g1.2 g2.2) g3.2⟩

theorem good_handlePing {s : Srv} (h : SzInv s) (q : Query) (hq : q.name.length ≤ 255) (inb : List Nat) :
    SzGood (handlePing s q inb) := by
  unfold handlePing
  split
  · exact good_nil h
  · extract_lets unpacked userid u
    split
    · exact good_nil h
    · split
      · exact ⟨h, evOK_writeDns _ _ _ _⟩
      · split
        · rename_i e he; exact ⟨h, evOK_cached _ q e he⟩
        · split
          · rename_i e he; exact ⟨h, evOK_qmem _ _ _ _ e he⟩
          · split
            · rename_i s' hd; exact good_nil (inv_rememberDuplicate h _ q hd)
            · exact good_pingFresh h _ q hq _

theorem good_dataStepQs {s : Srv} (h : SzInv s) (u : Nat) : SzGood (dataStepQs s u).1 := by
  unfold dataStepQs
  split
  · exact good_sc h u .qs
  · exact good_nil h

theorem szOK_moveQ {y : Session} (hy : SzOK y) : SzOK { y with qs := y.q, qsNew := true, q := { y.q with id := 0 } } :=
  { hy.congr (h2 := rfl) with qsn := hy.qn }

theorem good_dataStepQ {s : Srv} (h : SzInv s) (u : Nat) (a b c : Bool) : SzGood (dataStepQ s u a b c).1 := by
  unfold dataStepQ
  extract_lets x
  split
  · split
    · exact good_sc h u .q
    · exact good_nil (szInv_setUser h _ _ fun y hy => szOK_moveQ hy)
  · exact good_nil h

theorem good_dataStepFinal {s : Srv} (h : SzInv s) (u : Nat) (a b c : Bool) : SzGood (dataStepFinal s u a b c) := by
  unfold dataStepFinal
  extract_lets x
  split
  · exact good_sc h u .q
  · split
    · split
      · exact good_nil (szInv_setUser h _ _ fun y hy => szOK_moveQ hy)
      · exact good_sc h u .q
    · exact good_nil h

theorem good_dataFresh {s : Srv} (h : SzInv s) (u : Nat) (q : Query) (hq : q.name.length ≤ 255) (inb : List Nat) :
    SzGood (dataFresh s u q inb) := by
  unfold dataFresh
  extract_lets b1 b2 b3 upSeq upFrag dnSeq dnFrag lastfrag s1 up upstreamOk s2 r3 r4 r5 s6 r7
  have h1 : SzInv s1 := inv_processDownstreamAck h u _ _
  have hup : SzOK up.1 := szOK_dataUpstream (szOK_getUser h1 u) _ _
  have h2 : SzInv s2 := by
    apply szInv_setUser h1
    intro _ _
    split
    · exact szOK_dataStore hup _
    · exact hup
  have g3 : SzGood r3 := good_ite (good_handleFullPacket h2 u) (good_nil h2)
  have g4 : SzGood r4.1 := good_dataStepQs g3.1 u
  have g5 : SzGood r5.1 := good_dataStepQ g4.1 u _ _ _
  have h6 : SzInv s6 := inv_saveQuery g5.1 u q hq
  have g7 : SzGood r7 := good_dataStepFinal h6 u _ _ _
  exact ⟨g7.1, evOK_append (evOK_append (evOK_append g3.2 g4.2) g5.2) g7.2⟩

theorem good_handleData {s : Srv} (h : SzInv s) (q : Query) (hq : q.name.length ≤ 255) (dlen : Nat) (inb : List Nat) :
    SzGood (handleData s q dlen inb) := by
  unfold handleData
  split
  · exact good_nil h
  · split
    · exact good_nil h
    · extract_lets userid u
      split
      · exact ⟨h, evOK_writeDns _ _ _ _⟩
      · split
        · rename_i e he; exact ⟨h, evOK_cached _ q e he⟩
        · split
          · rename_i e he; exact ⟨h, evOK_qmem _ _ _ _ e he⟩
          · split
            · rename_i s' hd; exact good_nil (inv_rememberDuplicate h _ q hd)
            · exact good_dataFresh h _ q hq _

theorem good_handleNullRequest {s : Srv} (h : SzInv s) (q : Query) (dlen : Nat) (hl : q.name.length ≤ 255) :
    SzGood (handleNullRequest s q dlen) := by
  unfold handleNullRequest
  extract_lets inb c
  apply good_ite (good_nil h)
  clear_value c inb
  apply good_ite (good_handleVersion h q hl inb)
  apply good_ite (good_handleLogin h q inb)
  apply good_ite (good_handleIp h q inb)
  apply good_ite (good_handleZ h q inb)
  apply good_ite (good_handleSwitchCodec h q dlen inb)
  apply good_ite (good_handleOptions h q dlen inb)
  apply good_ite (good_handleDownCodecCheck h q dlen inb)
  apply good_ite (good_handleFragsizeProbe h q dlen inb)
  apply good_ite (good_handleSetFragsize h q inb)
  apply good_ite (good_handlePing h q hl inb)
  apply good_ite (good_handleData h q hl dlen inb)
  exact good_nil h

/-! ### tunnel_dns, raw mode -/

theorem good_handleNsRequest {s : Srv} (h : SzInv s) (q : Query) (dlen : Nat) : SzGood (handleNsRequest s q dlen) := by
  unfold handleNsRequest
  exact good_ite (good_nil h) ⟨h, evOK_one trivial⟩

theorem good_handleARequest {s : Srv} (h : SzInv s) (q : Query) (f : Bool) : SzGood (handleARequest s q f) := by
  unfold handleARequest
  extract_lets dest
  exact good_ite (good_nil h) ⟨h, evOK_one trivial⟩

theorem good_forwardQuery {s : Srv} (h : SzInv s) (q : Query) : SzGood (forwardQuery s q) := by
  unfold forwardQuery
  exact ⟨szInv_users h rfl, evOK_one trivial⟩

theorem good_tunnelDns {s : Srv} (h : SzInv s) (q : Query) (hl : q.name.length ≤ 255) : SzGood (tunnelDns s q) := by
  unfold tunnelDns
  apply good_ite (good_nil h)
  split
  · rename_i dlen hd
    extract_lets n
    clear_value n
    apply good_ite (good_handleARequest h q false)
    apply good_ite (good_handleARequest h q true)
    apply good_ite (good_handleNullRequest h q _ hl)
    apply good_ite (good_handleNsRequest h q _)
    exact good_nil h
  · exact good_ite (good_forwardQuery h q) (good_nil h)

theorem rawQuery_name (src : Addr) : (rawQuery src).name.length ≤ 255 := Nat.zero_le _

theorem good_handleRawLogin {s : Srv} (h : SzInv s) (packet : List Nat) (q : Query) (hq : q.name.length ≤ 255) (u : Nat) :
    SzGood (handleRawLogin s packet q u) := by
  unfold handleRawLogin
  apply good_ite (good_nil h)
  apply good_ite (good_nil h)
  extract_lets x s1 s2 myhash
  apply good_ite (good_nil h)
  apply good_ite (good_nil h)
  apply good_ite (good_nil h)
  apply good_ite _ (good_nil h)
  have h1 : SzInv s1 := szInv_setUser h _ _ fun y hy => { hy.congr (h1 := rfl) with qn := hq }
  have h2 : SzInv s2 := inv_userSetConnType h1 u _
  exact ⟨szInv_setUser h2 _ _ fun y hy => hy.congr, evOK_sendRaw _ _ _ _ _⟩

theorem good_handleRawData {s : Srv} (h : SzInv s) (packet : List Nat) (hp : packet.length ≤ 65536) (q : Query)
    (hq : q.name.length ≤ 255) (u : Nat) : SzGood (handleRawData s packet q u) := by
  unfold handleRawData
  apply good_ite (good_nil h)
  apply good_ite (good_nil h)
  extract_lets s1
  apply good_handleFullPacket
  apply szInv_setUser h
  intro y hy
  exact { hy.congr (h1 := rfl) (h5 := rfl) (h6 := rfl) with qn := hq, inp := hp, inoff := Nat.zero_le _ }

theorem good_handleRawPing {s : Srv} (h : SzInv s) (q : Query) (hq : q.name.length ≤ 255) (u : Nat) :
    SzGood (handleRawPing s q u) := by
  unfold handleRawPing
  apply good_ite (good_nil h)
  apply good_ite (good_nil h)
  exact ⟨szInv_setUser h _ _ fun y hy => { hy.congr (h1 := rfl) with qn := hq }, evOK_sendRaw _ _ _ _ _⟩

theorem good_rawDecode {s : Srv} (h : SzInv s) (packet : List Nat) (hp : packet.length ≤ 65536) (src : Addr) (r : Res)
    (hr : rawDecode s packet src = some r) : SzGood r := by
  unfold rawDecode at hr
  split at hr
  · cases hr
  · split at hr
    · cases hr
    · extract_lets b u cmd q body at hr
      have hb : body.length ≤ 65536 := by simp only [body, List.length_drop]; omega
      have hq : q.name.length ≤ 255 := rawQuery_name src
      split at hr
      · cases hr; exact good_handleRawLogin h body q hq u
      · split at hr
        · cases hr; exact good_handleRawData h body hb q hq u
        · split at hr
          · cases hr; exact good_handleRawPing h q hq u
          · cases hr; exact good_nil h

theorem good_tunnelBind {s : Srv} (h : SzInv s) (d : List Nat) (hd : d.length ≤ 65536) : SzGood (tunnelBind s d) := by
  unfold tunnelBind
  apply good_ite (good_nil h)
  split
  · exact good_nil h
  · exact ⟨h, evOK_one hd⟩

/-! ### the sweep, one iteration -/

theorem good_andThen {r : Res} {f : Srv → Res} (hr : SzGood r) (hf : SzInv r.1 → SzGood (f r.1)) : SzGood (andThen r f) := by
  unfold andThen
  exact ⟨(hf hr.1).1, evOK_append hr.2 (hf hr.1).2⟩

theorem good_sweepFrom : ∀ (n i : Nat) {s : Srv}, SzInv s → SzGood (sweepFrom n i s)
  | 0, _, _, h => good_nil h
  | n + 1, i, s, h => by
    unfold sweepFrom
    extract_lets x r
    have hr : SzGood r := good_ite (good_sc h i .qs) (good_nil h)
    clear_value r
    exact good_andThen hr fun h' => good_sweepFrom n (i + 1) h'

theorem take_le (b : List Nat) (n : Nat) : (b.take n).length ≤ n := by
  rw [List.length_take]; omega

theorem good_dispatch {s : Srv} (h : SzInv s) (inp : Input) (hi : InputFits inp) (tunsel : Bool) :
    SzGood (dispatch s inp tunsel) := by
  cases inp with
  | tick => exact good_nil h
  | tun frame =>
    unfold dispatch
    simp only []
    exact good_ite (good_tunnelTun h _) (good_nil h)
  | q q => exact good_tunnelDns h q hi
  | rawf src bytes =>
    unfold dispatch
    simp only []
    split
    · rename_i r hr; exact good_rawDecode h _ (take_le _ _) src r hr
    · exact good_nil h
  | bind bytes =>
    unfold dispatch
    simp only []
    exact good_ite (good_tunnelBind h _ (take_le _ _)) (good_nil h)

theorem good_body {s : Srv} (h : SzInv s) (inp : Input) (hi : InputFits inp) (tunsel : Bool) :
    SzGood (body s inp tunsel) := by
  have h1 : SzGood (andThen (andThen (dispatch s inp tunsel) (fun s => (s, [Event.sweep]))) sweep) := by
    apply good_andThen
    · apply good_andThen (good_dispatch h inp hi tunsel)
      intro h'
      exact ⟨h', evOK_one trivial⟩
    · intro h'
      exact good_sweepFrom _ 0 h'
  unfold body
  generalize andThen (andThen (dispatch s inp tunsel) (fun s => (s, [Event.sweep]))) sweep = r at h1
  cases inp with
  | tun frame =>
    simp only []
    split
    · exact h1
    · exact ⟨h1.1, evOK_append h1.2 (evOK_one trivial)⟩
  | _ => exact h1

theorem inv_topOfLoop {s : Srv} (h : SzInv s) (now' : Nat) : SzInv { (topOfLoop s).1 with now := now' } := by
  intro y hy
  obtain ⟨x, hx, hxy⟩ := mem_clearNewFrom _ _ _ _ y hy
  have := h x hx
  rcases hxy with rfl | rfl
  · exact this
  · exact this.congr

/-- the size invariant holds right after start-up -/
theorem szInv_start (cfg : Config) (rnd : List Nat) : SzInv (start cfg rnd) := by
  intro x hx
  simp only [start, Srv.init, List.mem_map] at hx
  obtain ⟨t, _, rfl⟩ := hx
  exact szOK_zero t

/-- **The size invariant through one iteration** of the session machine, for every input whose question name fits. -/
theorem iteration_size {s : Srv} (h : SzInv s) (inp : Input) (hi : InputFits inp) (now' : Nat) :
    SzInv (next s ⟨inp, now'⟩) ∧ EvOK (out s ⟨inp, now'⟩) :=
  good_body (inv_topOfLoop h now') inp hi _

end Iodine.C05L
