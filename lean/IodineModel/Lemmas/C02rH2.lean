import IodineModel.Lemmas.C02N1
/-
C02 / lazy mode, overlapping transfers — server side, "last step 2": the server's loop times out (`.tick`) while a data
query `H` is PARKED in `q_sendrealsoon` (put there by the previous iteration, `srv_recv_last_noq`), NO query is held in
`q` and there is nothing to send downstream: the sweep answers `H` with a dataless packet and remembers it; afterwards
no query at all is held (`PingSrvL`).
-/
namespace Iodine.C02L
open Iodine Iodine.Gen Iodine.Server Iodine.World

/-- a query parked in `q_sendrealsoon`: the server's `select` waits 20 ms -/
theorem timeoutS_parkedrO {P : Par} {w : W} (hS : SStat P w.srv) (hqs : (Server.getUser w.srv P.u).qs.id ≠ 0) :
    timeoutS w = 20000 := by
  unfold timeoutS
  rw [topOfLoop_timeout hS.solo]
  have : Server.live (Server.getUser w.srv P.u) w.srv.now = true := by
    simp [Server.live, hS.x.active, hS.x.enabled, hS.live]
  rw [if_pos ⟨this, hqs⟩]

/-- the sweep of the 20 ms timeout iteration answers the parked data query `H` (data-CMC counter value `k`) with a
dataless packet and remembers it; no query is held in `q`, so afterwards the server holds no query at all -/
theorem srv_tick_parked_noq {P : Par} (hP : P.Ok) {s : Srv} (hS : SStat P s) {H : Query} {k sd : Nat} (hk : k < 36)
    (hA : Aged P (getUser s P.u) k 1) (hPA : PAged P (getUser s P.u) sd 1)
    (hB : HeldBase P H) (hHD : HeldData P H k)
    (hq : (getUser s P.u).q.id = 0) (hqs : (getUser s P.u).qs = H) (hlz : (getUser s P.u).lazy = true)
    (hout : (getUser s P.u).outpacket.len = 0) (hoq : (getUser s P.u).oqFilled = 0)
    (hres : (getUser s P.u).outfragresent ≤ 1) :
    ∃ s' evs tunsel, iteration s .tick s.now = (s', evs, (20000, tunsel)) ∧
      downOfEvents evs = [.ans H.id H.type H.name (scPkt (getUser s P.u) 0)] ∧ tunOfSEvents evs = [] ∧
      PingSrvL P s' ∧
      (getUser s' P.u).inpacket = (getUser s P.u).inpacket ∧ (getUser s' P.u).outpacket = (getUser s P.u).outpacket ∧
      (getUser s' P.u).tunIp = (getUser s P.u).tunIp ∧ s'.now = s.now ∧
      (getUser s' P.u).fragsize = (getUser s P.u).fragsize ∧
      Aged P (getUser s' P.u) ((k + 1) % 36) 1 ∧ PAged P (getUser s' P.u) sd 1 := by
  have htop := topSess_live hS
  have hu := hS.solo.lt
  have hit := iteration_tick hS.solo s.now
  have hto : (topOfLoop s).2.1 = 20000 := by
    rw [topOfLoop_timeout hS.solo]
    have : live (getUser s P.u) s.now = true := by simp [live, hS.x.active, hS.x.enabled, hS.live]
    rw [if_pos ⟨this, by rw [hqs]; exact hB.id⟩]
  rw [hto, htop] at hit
  generalize hx0 : ({ getUser s P.u with qsNew := false } : Session) = x0 at hit
  have hlive : live x0 s.now = true := by subst hx0; simp [live, hS.x.active, hS.x.enabled, hS.live]
  have hx0qs : x0.qs = H := by subst hx0; exact hqs
  have hx0out : x0.outpacket = (getUser s P.u).outpacket := by subst hx0; rfl
  have hx0in : x0.inpacket = (getUser s P.u).inpacket := by subst hx0; rfl
  have hx0A : Aged P x0 ((k + 1) % 36) 2 := by subst hx0; exact (hA.step hk (by omega)).congr rfl rfl rfl rfl
  have hx0PA : PAged P x0 sd 1 := by subst hx0; exact hPA.congr rfl rfl rfl rfl
  have hsw : sweepSess x0 P.u s.now =
      ({ cacheUpd (qmemUpd x0 H) H (scPkt x0 0) with qs := { H with id := 0 } }, [writeDns H (scPkt x0 0) x0.downenc (.chunk P.u)]) := by
    unfold sweepSess
    rw [if_pos ⟨hlive, by rw [hx0qs]; exact hB.id, by subst hx0; exact hS.x.conn, by subst hx0; rfl⟩]
    rw [scSess_dataless x0 P.u .qs (by rw [hx0out]; exact hout) (by show x0.qs.id2 = 0; rw [hx0qs]; exact hB.id2)]
    simp only [QSel.get, QSel.set, hx0qs]
  rw [hsw] at hit
  dsimp only at hit
  have hAm := hx0A.memo H (scPkt x0 0) (scPkt0_len x0) k 1 ⟨by omega, by omega⟩ (behind_next k hk) hk hHD.c4 hHD.len5
    (by rw [hHD.c0]; exact hexLower_ne_p hP.hu)
  have hPm := hx0PA.memo_data hP.hu H (scPkt x0 0) (scPkt0_len x0) hHD.len5 hHD.c0
  generalize hY : ({ cacheUpd (qmemUpd x0 H) H (scPkt x0 0) with qs := { H with id := 0 } } : Session) = Y at hit
  have hYA : Aged P Y ((k + 1) % 36) 1 := by subst hY; exact hAm.congr rfl rfl rfl rfl
  have hYPA : PAged P Y sd 1 := by subst hY; exact hPm.congr rfl rfl rfl rfl
  have hYc : core Y = core { x0 with qs := { H with id := 0 } } := by
    subst hY
    have := core_memo x0 H (scPkt x0 0)
    unfold core at this ⊢
    simp only [Session.mk.injEq] at this ⊢
    simp [this]
  have hg : getUser { putUser s P.u Y with now := s.now } P.u = Y := by
    rw [getUser_withNow, getUser_putUser_self _ _ _ hu]
  have hpk : scPkt x0 0 = scPkt (getUser s P.u) 0 := by subst hx0; rfl
  have fA : Y.active = x0.active := by have h9 := core_active hYc; exact h9
  have fB : Y.authenticated = x0.authenticated := by have h9 := core_authenticated hYc; exact h9
  have fC : Y.disabled = x0.disabled := by have h9 := core_disabled hYc; exact h9
  have fD : Y.conn = x0.conn := by have h9 := core_conn hYc; exact h9
  have fE : Y.encoder = x0.encoder := by have h9 := core_encoder hYc; exact h9
  have fF : Y.outpacket = x0.outpacket := by have h9 := core_outpacket hYc; exact h9
  have fG : Y.inpacket = x0.inpacket := by have h9 := core_inpacket hYc; exact h9
  have fH : Y.q = x0.q := by have h9 := core_q hYc; exact h9
  have fI : Y.qs = { H with id := 0 } := by have h9 := core_qs hYc; exact h9
  have fJ : Y.lazy = x0.lazy := by have h9 := core_lazy hYc; exact h9
  have fK : Y.host = x0.host := by have h9 := core_host hYc; exact h9
  have fL : Y.lastPkt = x0.lastPkt := by have h9 := core_lastPkt hYc; exact h9
  have fQ : Y.oqFilled = x0.oqFilled := by have h9 := core_oqFilled hYc; exact h9
  have fR : Y.outfragresent = x0.outfragresent := by have h9 := core_outfragresent hYc; exact h9
  have fT : Y.tunIp = x0.tunIp := by have h9 := core_tunIp hYc; exact h9
  have fS : Y.fragsize = x0.fragsize := by have h9 := core_fragsize hYc; exact h9
  refine ⟨_, _, _, hit, ?_, ?_, ⟨?_, ?_, ?_, ?_, ?_, ?_⟩, ?_, ?_, ?_, rfl, ?_, ?_, ?_⟩
  · simp only [downOfEvents_append, downOfEvents_sweep, downOfEvents_writeDns _ _ _ _ hB.from_, List.nil_append, hpk]
  · simp only [tunOfSEvents_append, tunOfSEvents_writeDns, tunOfSEvents_sweep, List.append_nil]
  · refine ⟨(hS.solo.putUser Y).withNow _, hS.td, ?_, ?_, ?_⟩
    · rw [hg]
      subst hx0
      exact ⟨fA ▸ hS.x.active, fB ▸ hS.x.auth, fC ▸ hS.x.enabled, fD ▸ hS.x.conn, fE ▸ hS.x.enc, fF ▸ hS.x.oseq, fF ▸ hS.x.ofrag,
        fG ▸ hS.x.iseq, fG ▸ hS.x.ifrag⟩
    · rw [hg, fK]; subst hx0; exact hS.host
    · rw [hg, fL]; subst hx0; exact hS.live
  · rw [hg, fH]; subst hx0; exact hq
  · rw [hg, fI]
  · rw [hg, fJ]; subst hx0; exact hlz
  · rw [hg, fQ]; subst hx0; exact hoq
  · rw [hg, fR]; subst hx0; exact hres
  · rw [hg, fG, hx0in]
  · rw [hg, fF, hx0out]
  · rw [hg, fT]; subst hx0; rfl
  · rw [hg, fS]; subst hx0; rfl
  · rw [hg]; exact hYA
  · rw [hg]; exact hYPA

#print axioms timeoutS_parkedrO
#print axioms srv_tick_parked_noq

end Iodine.C02L
