import IodineModel.Lemmas.SrvC14b
/-
Helper lemmas for property C14, part c: the handshake / option handlers, the duplicate filter, the ping handler.
Every handler `h s q …` of a received query `q` satisfies `Bal arr s [keyOf q] (h s q …) []`: its answers plus
what is held afterwards come out of what was held before plus the arriving query.
-/
namespace Iodine.C14L
open Iodine Iodine.Server Iodine.Gen

/-! ### generic one-answer steps -/

theorem bal_ev1 {arr : Query} {s s' : Srv} {q : Query} {e : Event} (h : SameQ s s') (he : evKeys arr e = [keyOf q]) :
    Bal arr s [keyOf q] (s', [e]) [] := by
  apply Bal.mk'; intro k; simp [h.held_eq, he]; omega

theorem bal_ans {arr : Query} {s s' : Srv} {q : Query} {d : List Nat} {e : Nat} {t : Tag} (h : SameQ s s') :
    Bal arr s [keyOf q] (s', [writeDns q d e t]) [] := bal_ev1 h rfl

theorem bal_nil {arr : Query} {s s' : Srv} {x : List Key} (h : SameQ s s') : Bal arr s x (s', []) [] :=
  (Bal.ofSameQ h).weaken

theorem bal_noans {arr : Query} {s s' : Srv} {x : List Key} {evs : List Event} (h : SameQ s s')
    (he : keysOf arr evs = []) : Bal arr s x (s', evs) [] := by
  apply Bal.mk'; intro k; simp [h.held_eq, he]

theorem bal_ite {arr : Query} {s : Srv} {xin xout : List Key} {c : Prop} [Decidable c] {a b : Res}
    (ha : Bal arr s xin a xout) (hb : Bal arr s xin b xout) : Bal arr s xin (if c then a else b) xout := by
  split <;> assumption

@[simp] theorem evKeys_sendVersionResponse (arr : Query) (s : Srv) (kind : VersionAck) (p u : Nat) (q : Query) :
    evKeys arr (sendVersionResponse s kind p u q) = [keyOf q] := rfl

/-- proves `SameQ s (… (setUser s u f) …)` for writes that keep the stored queries -/
macro "sameq" : tactic =>
  `(tactic| (repeat' (first | exact SameQ.refl _ | apply SameQ.set | apply SameQ.gfo | exact sameQ_userSwitchCodec _ _ _ | exact sameQ_popRand _ | (intro _; rfl))))

/-- tries the shapes a handshake / option handler ends in -/
macro "balctl" : tactic =>
  `(tactic| first
    | (refine bal_ans ?_; sameq)
    | (refine bal_nil ?_; sameq))

/-! ### range of the user id after the checks -/

theorem lt_of_checkUserAndIp {s : Srv} {uid : Int} {q : Query} (h : ¬ checkUserAndIp s uid q = true) :
    uid.toNat < s.users.length := by
  apply Nat.lt_of_not_le; intro hge
  apply h
  unfold checkUserAndIp
  split
  · rfl
  · simp only [getUser_of_ge s _ hge]
    simp [Session.zero]

theorem lt_of_checkAuth {s : Srv} {uid : Int} {q : Query} (h : ¬ checkAuthenticatedUserAndIp s uid q = true) :
    uid.toNat < s.users.length := by
  apply lt_of_checkUserAndIp (q := q)
  intro hc; apply h
  unfold checkAuthenticatedUserAndIp
  simp [hc]

/-! ### handshake and option handlers -/

theorem setUser_setUser (s : Srv) (u : Nat) (g f : Session → Session) :
    setUser (setUser s u g) u f = setUser s u (fun x => f (g x)) := by
  unfold setUser
  simp only [Srv.mk.injEq, true_and, and_true]
  generalize s.users = l
  induction l generalizing u with
  | nil => simp
  | cons a l ih => cases u <;> simp [ih]

theorem le_held_setUser_nil (s : Srv) (u : Nat) (f : Session → Session)
    (h : pairKeys (QQ (f (getUser s u))) = []) : Le (held (setUser s u f)) (held s) := by
  intro k
  have := count_held_setUser_le k s u f
  rw [h] at this
  simp at this; omega

theorem handleVersion_bal (arr : Query) (s : Srv) (q : Query) (inb : List Nat) :
    Bal arr s [keyOf q] (handleVersion s q inb) [] := by
  unfold handleVersion
  extract_lets unpacked version
  clear_value version
  split
  · split
    · rename_i u s1 heq
      have h1 : SameQ s s1 := by have := sameQ_findAvailableUser s; rw [heq] at this; exact this
      have h2 : SameQ s (popRand s1).2 := h1.trans (sameQ_popRand s1)
      simp only []
      rw [setUser_setUser]
      apply Bal.mk'; intro k
      have := le_held_setUser_nil (popRand s1).2 u
        (fun x => resetSession { x with seed := (popRand s1).1, host := q.from_, q := q, encoder := .b32, downenc := chT })
        (by simp [resetSession, QQ, pairKeys, qKeys]) k
      rw [h2.held_eq] at this
      simp; omega
    · rename_i s1 heq
      have h1 : SameQ s s1 := by have := sameQ_findAvailableUser s; rw [heq] at this; exact this
      exact bal_ev1 h1 rfl
  · exact bal_ev1 (SameQ.refl _) rfl

theorem handleLogin_bal (arr : Query) (s : Srv) (q : Query) (inb : List Nat) :
    Bal arr s [keyOf q] (handleLogin s q inb) [] := by
  unfold handleLogin
  simp only []
  split
  · balctl
  · split
    · balctl
    · split
      · balctl
      · balctl

theorem handleIp_bal (arr : Query) (s : Srv) (q : Query) (inb : List Nat) :
    Bal arr s [keyOf q] (handleIp s q inb) [] := by
  unfold handleIp
  simp only []
  split <;> balctl

theorem handleZ_bal (arr : Query) (s : Srv) (q : Query) (inb : List Nat) :
    Bal arr s [keyOf q] (handleZ s q inb) [] := by
  unfold handleZ
  balctl

theorem handleSwitchCodec_bal (arr : Query) (s : Srv) (q : Query) (dlen : Nat) (inb : List Nat) :
    Bal arr s [keyOf q] (handleSwitchCodec s q dlen inb) [] := by
  unfold handleSwitchCodec
  simp only []
  repeat' split
  all_goals balctl

theorem handleOptions_bal (arr : Query) (s : Srv) (q : Query) (dlen : Nat) (inb : List Nat) :
    Bal arr s [keyOf q] (handleOptions s q dlen inb) [] := by
  unfold handleOptions
  simp only []
  repeat' apply bal_ite
  all_goals balctl

theorem handleDownCodecCheck_bal (arr : Query) (s : Srv) (q : Query) (dlen : Nat) (inb : List Nat) :
    Bal arr s [keyOf q] (handleDownCodecCheck s q dlen inb) [] := by
  unfold handleDownCodecCheck
  extract_lets c named rawOk dn
  clear_value dn
  repeat' apply bal_ite
  · balctl
  · balctl
  · split <;> balctl

theorem handleFragsizeProbe_bal (arr : Query) (s : Srv) (q : Query) (dlen : Nat) (inb : List Nat) :
    Bal arr s [keyOf q] (handleFragsizeProbe s q dlen inb) [] := by
  unfold handleFragsizeProbe
  simp only []
  repeat' apply bal_ite
  all_goals balctl

theorem handleSetFragsize_bal (arr : Query) (s : Srv) (q : Query) (inb : List Nat) :
    Bal arr s [keyOf q] (handleSetFragsize s q inb) [] := by
  unfold handleSetFragsize
  simp only []
  repeat' apply bal_ite
  all_goals balctl

/-! ### the duplicate filter -/

theorem qKeys_dup (a q : Query) (ht : q.type = a.type) (hn : q.name = a.name) (k : Key) :
    (qKeys { a with id2 := q.id, from2 := q.from_ }).count k ≤ (qKeys a).count k + [keyOf q].count k := by
  have hk : key2 { a with id2 := q.id, from2 := q.from_ } = keyOf q := by simp [key2, keyOf, ht, hn]
  have hk1 : keyOf { a with id2 := q.id, from2 := q.from_ } = keyOf a := rfl
  unfold qKeys
  rw [hk, hk1]
  simp only []
  repeat' split
  all_goals simp only [List.count_cons, List.count_nil]; omega

theorem rememberDuplicate_bal (arr : Query) (s : Srv) (u : Nat) (q : Query) (s' : Srv)
    (h : rememberDuplicate s u q = some s') : Bal arr s [keyOf q] (s', []) [] := by
  unfold rememberDuplicate at h
  simp only [] at h
  split at h
  · rename_i hc
    injection h with h; subst h
    apply Bal.mk'; intro k
    have a := count_held_setUser_le k s u (fun x => { x with q := { x.q with id2 := q.id, from2 := q.from_ } })
    have b := qKeys_dup (getUser s u).q q hc.2.1 hc.2.2.1 k
    simp only [QQ, pairKeys, List.count_append] at a
    simp; omega
  · split at h
    · rename_i hc
      injection h with h; subst h
      apply Bal.mk'; intro k
      have a := count_held_setUser_le k s u (fun x => { x with qs := { x.qs with id2 := q.id, from2 := q.from_ } })
      have b := qKeys_dup (getUser s u).qs q hc.2.1 hc.2.2 k
      simp only [QQ, pairKeys, List.count_append] at a
      simp; omega
    · cases h

/-! ### storing the arriving query -/

theorem qKeys_le_keyOf (q : Query) (h2 : q.id2 = 0) (k : Key) : (qKeys q).count k ≤ [keyOf q].count k := by
  unfold qKeys
  split
  · simp
  · simp

/-- `memcpy(&users[u].q, q)`: the arriving query becomes a held one (whatever `q` held before is dropped) -/
theorem saveQuery_bal (arr : Query) (s : Srv) (u : Nat) (q : Query) (h2 : q.id2 = 0) :
    Bal arr s [keyOf q] (saveQuery s u q, []) [] := by
  apply Bal.mk'; intro k
  unfold saveQuery
  have a := count_held_setUser_le k s u (fun x => { x with q := q, lastPkt := s.now })
  have b := qKeys_le_keyOf q h2 k
  simp only [QQ, pairKeys, List.count_append] at a
  simp; omega

theorem saveQuery_len (s : Srv) (u : Nat) (q : Query) : (saveQuery s u q).users.length = s.users.length :=
  length_setUser _ _ _

theorem saveQuery_q (s : Srv) (u : Nat) (q : Query) (h : u < s.users.length) : (getUser (saveQuery s u q) u).q = q := by
  unfold saveQuery
  rw [getUser_setUser_self _ _ _ h]

/-! ### ping -/

theorem pingFresh_bal (arr : Query) (s : Srv) (u : Nat) (q : Query) (unpacked : List Nat)
    (hu : u < s.users.length) (hid : q.id ≠ 0) (h2 : q.id2 = 0) :
    Bal arr s [keyOf q] (pingFresh s u q unpacked) [] := by
  unfold pingFresh
  extract_lets b s1 r1 t r2 didsend s3 x r3
  have hs1 : SameQ s s1 := sameQ_processDownstreamAck _ _ _ _
  clear_value s1
  have hr1 : Bal arr s1 [keyOf q] r1 [keyOf q] ∧ r1.1.users.length = s1.users.length := by
    simp only [r1]
    split
    · exact ⟨sc_bal arr s1 u .qs _ (by assumption), sc_len _ _ _⟩
    · exact ⟨Bal.ofSameQ (SameQ.refl _), rfl⟩
  clear_value r1
  have hr2 : Bal arr r1.1 [keyOf q] r2.1 [keyOf q] ∧ r2.1.1.users.length = r1.1.users.length := by
    simp only [r2, t]
    split
    · dsimp only
      exact ⟨sc_bal arr r1.1 u .q _ (by assumption), sc_len _ _ _⟩
    · exact ⟨Bal.ofSameQ (SameQ.refl _), rfl⟩
  clear_value r2 t
  have hs3 : Bal arr r2.1.1 [keyOf q] (s3, []) [] := saveQuery_bal arr _ u q h2
  have hlen : u < r2.1.1.users.length := by rw [hr2.2, hr1.2, hs1.len]; exact hu
  have hq3 : (getUser s3 u).q = q := saveQuery_q _ _ _ hlen
  clear_value s3
  have hr3 : Bal arr s3 [] r3 [] := by
    simp only [r3]
    split
    · exact sc_bal arr s3 u .q _ (by show (getUser s3 u).q.id ≠ 0; rw [hq3]; exact hid)
    · exact Bal.ofSameQ (SameQ.refl _)
  clear_value r3
  apply Bal.mk'; intro k
  have a := hr1.1.cnt k; have b := hr2.1.cnt k; have c := hs3.cnt k; have d := hr3.cnt k
  rw [hs1.held_eq] at a
  simp only [keysOf_append, List.count_append, keysOf_nil, List.count_nil] at *
  omega

theorem answerFromDnscache_ev (arr : Query) (s : Srv) (u : Nat) (q : Query) (e : Event)
    (h : answerFromDnscache s u q = some e) : evKeys arr e = [keyOf q] := by
  unfold answerFromDnscache at h
  simp only [] at h
  split at h
  · injection h with h; subst h; rfl
  · cases h

theorem answerFromQmem_ev (arr : Query) (q : Query) (mem : List QmemEntry) (cmc : List Nat) (u : Nat) (e : Event)
    (h : answerFromQmem q mem cmc u = some e) : evKeys arr e = [keyOf q] := by
  unfold answerFromQmem at h
  split at h
  · injection h with h; subst h; rfl
  · cases h

theorem handlePing_bal (arr : Query) (s : Srv) (q : Query) (inb : List Nat) (h2 : q.id2 = 0) :
    Bal arr s [keyOf q] (handlePing s q inb) [] := by
  unfold handlePing
  extract_lets unpacked userid u
  clear_value unpacked
  by_cases hid : q.id = 0
  · rw [if_pos hid]; balctl
  · rw [if_neg hid]
    apply bal_ite
    · balctl
    · by_cases hchk : checkAuthenticatedUserAndIp s userid q = true
      · rw [if_pos hchk]; balctl
      · rw [if_neg hchk]
        have hu : u < s.users.length := lt_of_checkAuth hchk
        clear_value userid u
        split
        · rename_i e he
          exact bal_ev1 (SameQ.refl _) (answerFromDnscache_ev arr s u q e he)
        · split
          · rename_i e he
            exact bal_ev1 (SameQ.refl _) (answerFromQmem_ev arr q _ _ u e he)
          · split
            · rename_i s' hd
              exact rememberDuplicate_bal arr s _ q s' hd
            · exact pingFresh_bal arr s _ q _ hu hid h2

end Iodine.C14L
