import IodineModel.Lemmas.C02g
import IodineModel.Lemmas.C02u2
import IodineModel.Lemmas.C02v4
/-
Server side of a DOWNSTREAM transfer, on the slot: a tun frame starts an outpacket; a ping is answered with the next
fragment (immediate mode).
-/
namespace Iodine.C02L
open Iodine Iodine.Gen Iodine.Server

/-! ### an iteration whose input is a tun frame, tun selected -/

theorem iteration_tun {u : Nat} {s : Srv} (hs : Solo u s) (f : List Nat) (now' : Nat) (y : Session) (evs : List Event)
    (hsel : (topOfLoop s).2.2 = true)
    (hd : tunnelTun { putUser s u (topSess (getUser s u) s.now) with now := now' } (f.take 65536) =
      ({ putUser s u y with now := now' }, evs)) :
    iteration s (.tun f) now' =
      ({ putUser s u (sweepSess y u now').1 with now := now' }, evs ++ [Event.sweep] ++ (sweepSess y u now').2,
       ((topOfLoop s).2.1, (topOfLoop s).2.2)) := by
  have hl := hs.lt
  unfold iteration body
  simp only [hsel, if_true]
  have hst := topOfLoop_state hs
  have : topSess (getUser s u) s.now = (if live (getUser s u) s.now then { getUser s u with qsNew := false } else getUser s u) := rfl
  rw [← this] at hst
  have hdisp : dispatch { (topOfLoop s).1 with now := now' } (.tun f) true =
      ({ putUser s u y with now := now' }, evs) := by
    rw [hst]
    exact hd
  rw [hdisp]
  have hsolo : Solo u { putUser s u y with now := now' } := (hs.putUser y).withNow now'
  simp only [andThen]
  rw [sweep_solo hsolo, sweepOne_eq _ _ (by simpa using hl)]
  have hg : getUser { putUser s u y with now := now' } u = y := by
    rw [getUser_withNow, getUser_putUser_self _ _ _ hl]
  rw [hg]
  have hp : ∀ z, putUser { putUser s u y with now := now' } u z = { putUser s u z with now := now' } := by
    intro z; rw [putUser_withNow, putUser_putUser]
  rw [hp]

/-- `tunnel_tun` for a frame addressed to the (only) client, which has nothing in flight and no query waiting:
a new outpacket is started, nothing is sent -/
theorem tunnelTun_start {u : Nat} {s : Srv} (hs : Solo u s) (frame : List Nat) (h24 : 24 ≤ frame.length)
    (hx : (getUser s u).active = true ∧ (getUser s u).authenticated = true ∧ (getUser s u).disabled = false ∧
      (getUser s u).lastPkt + 60 > s.now ∧ ipDst frame = (getUser s u).tunIp)
    (hconn : (getUser s u).conn = .dnsNull) (hout : (getUser s u).outpacket.len = 0)
    (hq : (getUser s u).q.id = 0) (hqs : (getUser s u).qs.id = 0) :
    tunnelTun s frame = (putUser s u (startOut (getUser s u) (compress frame) (compress frame).length), []) := by
  unfold tunnelTun
  rw [if_neg (by omega), if_neg (by omega), findUserByIp_solo hs]
  simp only
  rw [if_pos ⟨hx.1, hx.2.1, by simp [hx.2.2.1], hx.2.2.2.1, hx.2.2.2.2⟩]
  simp only [hconn, if_true, hout, Nat.lt_irrefl, if_false]
  rw [startNewOutpacket_eq]
  unfold sendWaiting
  simp only [getUser_putUser_self _ _ _ hs.lt]
  have h1 : (startOut (getUser s u) (compress frame) (compress frame).length).qs.id = 0 := hqs
  have h2 : (startOut (getUser s u) (compress frame) (compress frame).length).q.id = 0 := hq
  simp [h1, h2]

/-! ### the ping handler in immediate mode with no query waiting -/

theorem ackSess_core (x : Session) (a b : Int) (h : x.oqFilled = 0) :
    core (ackSess x a b) = core { x with outpacket := (ackSess x a b).outpacket, outfragresent := (ackSess x a b).outfragresent } := by
  unfold ackSess
  split
  · rfl
  · split
    · rfl
    · split
      · rfl
      · simp only
        split
        · simp [fromQueue, h]
        · rfl

/-- in immediate mode, with no query waiting, a ping is: ack, store the query, answer it at once -/
theorem pingSess_imm (x : Session) (u : Nat) (Q : Query) (a b : Int) (now : Nat)
    (hq : x.q.id = 0) (hqs : x.qs.id = 0) (hlz : x.lazy = false) (hoq : x.oqFilled = 0) :
    pingSess x u Q a b now = (scSess (saveQ (ackSess x a b) Q now) u .q).1 := by
  have hc := ackSess_core x a b hoq
  have e1 : (ackSess x a b).qs = x.qs := by have := core_qs hc; exact this
  have e2 : (ackSess x a b).q = x.q := by have := core_q hc; exact this
  have e3 : (ackSess x a b).lazy = x.lazy := by have := core_lazy hc; exact this
  unfold pingSess pingASess pingBSess pingCSess
  simp only [e1, hqs, ne_eq, not_true_eq_false, if_false, e2, hq]
  have : (saveQ (ackSess x a b) Q now).lazy = false := by show (ackSess x a b).lazy = false; rw [e3, hlz]
  simp [this]

/-- the slot with the fragment length noted and the send counted -/
def prepOut (y : Session) : Session :=
  { y with outpacket := { y.outpacket with sentlen := scDatalen y }, outfragresent := y.outfragresent + 1 }

/-- the slot after the fragment was answered to the query `w` points to -/
def answered (y : Session) (w : QSel) : Session :=
  w.set (cacheUpd (qmemUpd (prepOut y) (w.get y)) (w.get y) (scPkt (prepOut y) (scDatalen y))) { w.get y with id := 0 }

/-- `send_chunk_or_dataless` with a packet in flight that was not resent too often: the next fragment goes out -/
theorem scSess_data (y : Session) (u : Nat) (w : QSel) (hlen : y.outpacket.len > 0) (hres : y.outfragresent ≤ 5)
    (hid2 : (w.get y).id2 = 0) (hoq : y.oqFilled = 0) :
    scSess y u w =
      ((if scDatalen y > 0 ∧ scDatalen y = y.outpacket.len then dropOut (answered y w) else answered y w,
        [writeDns (w.get y) (scPkt (prepOut y) (scDatalen y)) y.downenc (.chunk u)]), false) := by
  have hd : dropResent y = y := by
    unfold dropResent
    rw [if_neg (by omega)]
  have hp : prepare y = prepOut y := by
    unfold prepare prepOut
    rw [if_pos hlen]
  have hdl : scDatalen (prepOut y) = scDatalen y := rfl
  have hget : w.get (prepOut y) = w.get y := by cases w <;> rfl
  have hdn : (prepOut y).downenc = y.downenc := rfl
  have hol : (prepOut y).outpacket.len = y.outpacket.len := rfl
  have hans : scAnswer (w.get y) (scPkt (prepOut y) (scDatalen y)) y.downenc u =
      (w.get y, [writeDns (w.get y) (scPkt (prepOut y) (scDatalen y)) y.downenc (.chunk u)]) := by
    unfold scAnswer
    rw [if_neg (by rw [hid2]; simp)]
  have hoqY : (answered y w).oqFilled = 0 := by
    have h1 : (answered y w).oqFilled = (prepOut y).oqFilled := by
      have := core_oqFilled (core_memo (prepOut y) (w.get y) (scPkt (prepOut y) (scDatalen y)))
      cases w <;> exact this
    rw [h1]; exact hoq
  have hfq : fromQueue (dropOut (answered y w)) = (dropOut (answered y w), false) := by
    unfold fromQueue
    rw [if_pos (show (dropOut (answered y w)).oqFilled = 0 from hoqY)]
  unfold scSess
  simp only [hd, hp, hdl, hget, hdn, hol, hans]
  show (if scDatalen y > 0 ∧ scDatalen y = y.outpacket.len then
      (((fromQueue (dropOut (answered y w))).1, _), (fromQueue (dropOut (answered y w))).2) else ((answered y w, _), false)) = _
  rw [hfq]
  split <;> rfl

end Iodine.C02L
