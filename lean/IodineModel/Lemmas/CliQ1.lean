import IodineModel.Lemmas.C02h
import IodineModel.Client.Handshake
import IodineModel.Props.C17
/-
C08 lifted to client sessions, part 1: the names of the queries the client's senders build.

`Env L td` is what `main()` of iodine.c guarantees about `hostname_maxlen` and `topdomain` (in the range C08 is stated
for).  `NameOk L td name` is the per-query guarantee (legal host name, ends in `.topdomain`, within the limit);
`EvOk`/`EvsOk` lift it to events.  One lemma per sender of client.c says which query it emits and that its name is
`NameOk`:

  send_query (plain)            `sendQueryPlain_ok`
  send_handshake_query          `sendHandshakeQuery_ok`   (lazy switch, codec switch, downstream codec switch/test, ip request)
  send_upenctest                `sendUpenctest_ok`        (NOT within `hostname_maxlen`: the `z` disjunct of `NameOk.within`)
  send_packet                   `hsSendPacket_ok`         (version, login, set fragsize, ping)
  send_fragsize_probe           `sendFragsizeProbe_ok`
  send_chunk                    `chunkName_ok`            (any payload, the empty one included)
-/
namespace Iodine.CliQ
open Iodine Iodine.Client Iodine.Gen

/-! ### configuration -/

/-- `hostname_maxlen` and `topdomain` as C08 needs them -/
structure Env (L : Nat) (td : List Nat) : Prop where
  hL : 100 ≤ L ∧ L ≤ 255
  td_len : 3 ≤ td.length ∧ td.length ≤ 128 ∧ td.length + 24 ≤ L
  td_legal : Encoding.legalAux 0 td = true
  td_plain : 42 ∉ td
  td_bytes : ∀ c ∈ td, c ≠ 0 ∧ c < 256

theorem Env.up {L : Nat} {td : List Nat} (E : Env L td) (e : Enc) : C02L.UpSetting e.codec L td :=
  C02L.upSetting_of_enc e L td E.hL E.td_len E.td_legal E.td_plain E.td_bytes

theorem splitOn_eq_labels (s : List Nat) : C17.splitOn 46 s = C10.labels s := by
  induction s with
  | nil => rfl
  | cons c r ih =>
    simp only [C17.splitOn, C10.labels, ih]
    by_cases hc : c = 46
    · simp only [hc, if_true]
    · simp only [hc, if_false]
      cases C10.labels r <;> rfl

theorem legalAux_of_labels (s : List Nat) : ∀ k,
    ((1 ≤ k + (Wire.Put.splitDot s).1.length ∧ k + (Wire.Put.splitDot s).1.length ≤ 63) ∧
      ∀ l ∈ (Wire.Put.splitDot s).2, 1 ≤ l.length ∧ l.length ≤ 63) → Encoding.legalAux k s = true := by
  induction s with
  | nil => intro k h; simpa [Encoding.legalAux, Wire.Put.splitDot] using h.1
  | cons c r ih =>
    intro k h
    simp only [Encoding.legalAux, Encoding.DOT]
    simp only [Wire.Put.splitDot] at h
    by_cases hc : c = 46
    · simp only [hc, if_true, List.length_nil, Nat.add_zero, List.mem_cons, forall_eq_or_imp] at h ⊢
      simp only [Bool.and_eq_true, decide_eq_true_eq]
      exact ⟨h.1, ih 0 ⟨by omega, h.2.2⟩⟩
    · simp only [hc, if_false, List.length_cons] at h ⊢
      exact ih (k + 1) ⟨by omega, h.2⟩

/-- a domain `check_topdomain(…, 0, …)` accepts, with 24 characters left below a limit of 100..255 -/
theorem env_of_valid (L : Nat) (td : List Nat) (hL : 100 ≤ L ∧ L ≤ 255) (hv : C17.ValidDomain false td)
    (h24 : td.length + 24 ≤ L) : Env L td := by
  obtain ⟨h3, h128, hch, _, hlab⟩ := hv
  have hdom : ∀ c ∈ td, C17.DomChar c := by
    rcases hch with h | ⟨h, _⟩
    · exact h
    · cases h
  refine ⟨hL, ⟨h3, h128, h24⟩, ?_, ?_, ?_⟩
  · apply legalAux_of_labels td 0
    rw [splitOn_eq_labels, C10.labels_eq_split] at hlab
    refine ⟨?_, fun l hl => hlab l (List.mem_cons_of_mem _ hl)⟩
    have := hlab _ List.mem_cons_self
    omega
  · intro h
    have := hdom 42 h
    unfold C17.DomChar C17.Letter C17.Digit at this
    omega
  · intro c hc
    have := hdom c hc
    unfold C17.DomChar C17.Letter C17.Digit at this
    omega

/-! ### what is guaranteed about one query -/

/-- the seven record types of the tunnel: NULL, PRIVATE, TXT, SRV, MX, CNAME, A -/
def TType (ty : Nat) : Prop := ty = 10 ∨ ty = 65399 ∨ ty = 16 ∨ ty = 33 ∨ ty = 15 ∨ ty = 5 ∨ ty = 1

theorem TType.lt {ty : Nat} (h : TType ty) : ty < 65536 := by unfold TType at h; omega

structure NameOk (L : Nat) (td name : List Nat) : Prop where
  legal : C10.LegalName name
  suffix : ∃ pre, name = pre ++ [46] ++ td
  within : name.length + 2 ≤ L ∨ (name.head? = some 122 ∧ name.length ≤ td.length + 63)

def EvOk (L : Nat) (td : List Nat) : CEvent → Prop
  | .query id ty name => id < 65536 ∧ TType ty ∧ NameOk L td name
  | _ => True

def EvsOk (L : Nat) (td : List Nat) (l : List CEvent) : Prop := ∀ e ∈ l, EvOk L td e

theorem evsOk_nil {L : Nat} {td : List Nat} : EvsOk L td [] := by intro e h; cases h

theorem evsOk_append {L : Nat} {td : List Nat} {a b : List CEvent} (ha : EvsOk L td a) (hb : EvsOk L td b) :
    EvsOk L td (a ++ b) := by
  intro e h
  rcases List.mem_append.mp h with h | h
  · exact ha e h
  · exact hb e h

theorem evsOk_one {L : Nat} {td : List Nat} {e : CEvent} (h : EvOk L td e) : EvsOk L td [e] := by
  intro x hx
  simp only [List.mem_singleton] at hx
  subst hx; exact h

/-! ### send_query -/

theorem rotateChunkid_doQtype (c : Cli) : (rotateChunkid c).doQtype = c.doQtype := by
  simp [rotateChunkid]

/-- `send_query` (without its answer counting) of a name that is `NameOk`: one query with the next id -/
theorem sendQueryPlain_eq (c : Cli) (host : List Nat) (hty : TType c.doQtype) (hn : C10.LegalName host) :
    sendQueryPlain c host = ((rotateChunkid c, [.query (rotateChunkid c).chunkid c.doQtype host]), true) := by
  have hw : wireQuery (rotateChunkid c).chunkid (rotateChunkid c).doQtype (rotateChunkid c).edns0 host =
      some (.query (rotateChunkid c).chunkid c.doQtype host) := by
    rw [rotateChunkid_doQtype]
    exact C02L.wireQuery_legal _ _ _ _ (rotateChunkid_lt c) hty.lt hn
  unfold sendQueryPlain
  simp only [hw]

theorem sendQueryPlain_ok {L : Nat} {td : List Nat} (c : Cli) (host : List Nat) (hty : TType c.doQtype)
    (hn : NameOk L td host) :
    sendQueryPlain c host = ((rotateChunkid c, [.query (rotateChunkid c).chunkid c.doQtype host]), true) ∧
      EvsOk L td (sendQueryPlain c host).1.2 := by
  have h := sendQueryPlain_eq c host hty hn.legal
  refine ⟨h, ?_⟩
  rw [h]
  exact evsOk_one ⟨rotateChunkid_lt c, hty, hn⟩

/-! ### names with a one-label data part written by hand -/

/-- `label.topdomain` -/
theorem label_name {L : Nat} {td : List Nat} (E : Env L td) (lab : List Nat) (h1 : 1 ≤ lab.length) (h2 : lab.length ≤ 63)
    (hch : ∀ ch ∈ lab, ch ≠ 46 ∧ ch ≠ 0 ∧ ch < 256) :
    C10.LegalName (lab ++ 46 :: td) ∧ ∃ pre, lab ++ 46 :: td = pre ++ [46] ++ td := by
  refine ⟨?_, lab, by simp⟩
  have hlen := E.td_len
  apply C02L.legalName_of_legalAux
  · rw [Encoding.legalAux_append, Encoding.scan_nodot 0 lab (fun c hc => (hch c hc).1)]
    simp only [Nat.zero_add, Encoding.legalAux, Encoding.DOT, if_true, Bool.and_eq_true, decide_eq_true_eq]
    exact ⟨⟨h1, h2⟩, E.td_legal⟩
  · simp only [List.length_append, List.length_cons]; omega
  · intro ch h
    rcases List.mem_append.mp h with h | h
    · exact ⟨(hch ch h).2.1, (hch ch h).2.2⟩
    · rcases List.mem_cons.mp h with rfl | h
      · omega
      · exact E.td_bytes ch h

theorem label_nameOk {L : Nat} {td : List Nat} (E : Env L td) (lab : List Nat) (h1 : 1 ≤ lab.length) (h2 : lab.length ≤ 21)
    (hch : ∀ ch ∈ lab, ch ≠ 46 ∧ ch ≠ 0 ∧ ch < 256) : NameOk L td (lab ++ 46 :: td) := by
  obtain ⟨hl, hs⟩ := label_name E lab h1 (by omega) hch
  refine ⟨hl, hs, Or.inl ?_⟩
  have := E.td_len
  simp only [List.length_append, List.length_cons]; omega

/-! ### send_handshake_query -/

/-- the three CMC characters of the hand-written handshake queries -/
def cmc3 (seed : Nat) : List Nat :=
  [b32_5to8 ((seed / 1024 % 32 : Nat) : Int), b32_5to8 ((seed / 32 % 32 : Nat) : Int), b32_5to8 ((seed % 32 : Nat) : Int)]

theorem cmc3_chars (seed : Nat) : ∀ ch ∈ cmc3 seed, ch ≠ 46 ∧ ch ≠ 0 ∧ ch < 256 := by
  intro ch h
  simp only [cmc3, List.mem_cons, List.not_mem_nil, or_false] at h
  rcases h with rfl | rfl | rfl <;> exact C02L.b32_5to8_char _

/-- `send_handshake_query(fd, prefix)` for a prefix of 1..14 ordinary characters: the query `prefix CMC . topdomain` -/
theorem sendHandshakeQuery_ok {L : Nat} {td : List Nat} (E : Env L td) (c : Cli) (p : List Nat) (htd : c.topdomain = td)
    (hty : TType c.doQtype) (h1 : 1 ≤ p.length) (h2 : p.length ≤ 14) (hch : ∀ ch ∈ p, ch ≠ 46 ∧ ch ≠ 0 ∧ ch < 256) :
    sendHandshakeQuery c p =
      (rotateChunkid { c with randSeed := (c.randSeed + 1) % 65536 },
       [.query (rotateChunkid { c with randSeed := (c.randSeed + 1) % 65536 }).chunkid c.doQtype
          ((p ++ cmc3 c.randSeed) ++ 46 :: td)]) ∧
    EvsOk L td (sendHandshakeQuery c p).2 := by
  have hlen := E.td_len
  have hname : NameOk L td ((p ++ cmc3 c.randSeed) ++ 46 :: td) := by
    apply label_nameOk E
    · simp only [List.length_append]; omega
    · simp only [List.length_append, cmc3, List.length_cons, List.length_nil]; omega
    · intro ch h
      rcases List.mem_append.mp h with h | h
      · exact hch ch h
      · exact cmc3_chars _ ch h
  have hhost : (p.take 60 ++ [b32_5to8 ((c.randSeed / 1024 % 32 : Nat) : Int), b32_5to8 ((c.randSeed / 32 % 32 : Nat) : Int),
        b32_5to8 ((c.randSeed % 32 : Nat) : Int), 46]) ++
      c.topdomain.take (300 - (p.take 60 ++ [b32_5to8 ((c.randSeed / 1024 % 32 : Nat) : Int),
        b32_5to8 ((c.randSeed / 32 % 32 : Nat) : Int), b32_5to8 ((c.randSeed % 32 : Nat) : Int), 46]).length - 1)
      = (p ++ cmc3 c.randSeed) ++ 46 :: td := by
    rw [List.take_of_length_le (show p.length ≤ 60 by omega), htd]
    rw [List.take_of_length_le (by simp only [List.length_append, List.length_cons, List.length_nil]; omega)]
    simp [cmc3]
  have hq := sendQueryPlain_ok (L := L) (td := td) { c with randSeed := (c.randSeed + 1) % 65536 } _ hty hname
  have hsend : sendHandshakeQuery c p =
      (sendQueryPlain { c with randSeed := (c.randSeed + 1) % 65536 } ((p ++ cmc3 c.randSeed) ++ 46 :: td)).1 := by
    unfold sendHandshakeQuery
    simp only [hhost]
  rw [hsend]
  exact ⟨by rw [hq.1], hq.2⟩

/-! ### send_upenctest -/

theorem upPattern_cases (p : Nat) : upPattern p = pat128a ∨ upPattern p = pat128b ∨ upPattern p = pat128c ∨
    upPattern p = pat128d ∨ upPattern p = pat128e ∨ upPattern p = pat64 ∨ upPattern p = pat64u := by
  unfold upPattern
  split <;> simp

theorem upPattern_chars (p : Nat) : (upPattern p).length ≤ 58 ∧ ∀ ch ∈ upPattern p, ch ≠ 46 ∧ ch ≠ 0 ∧ ch < 256 := by
  have h : ∀ s ∈ [pat128a, pat128b, pat128c, pat128d, pat128e, pat64, pat64u],
      s.length ≤ 58 ∧ ∀ ch ∈ s, ch ≠ 46 ∧ ch ≠ 0 ∧ ch < 256 := by decide +kernel
  apply h
  have := upPattern_cases p
  simp only [List.mem_cons, List.not_mem_nil, or_false]
  exact this

/-- `send_upenctest(fd, pattern)`: the query `z CMC pattern . topdomain` — a legal name, but NOT bounded by
`hostname_maxlen` (up to 63 characters in front of the domain, whatever `-M` says) -/
theorem sendUpenctest_ok {L : Nat} {td : List Nat} (E : Env L td) (c : Cli) (p : Nat) (htd : c.topdomain = td)
    (hty : TType c.doQtype) :
    sendUpenctest c (upPattern p) =
      (rotateChunkid (bumpSeed c),
       [.query (rotateChunkid (bumpSeed c)).chunkid c.doQtype (((122 :: cmc3 c.randSeed) ++ upPattern p) ++ 46 :: td)]) ∧
    EvsOk L td (sendUpenctest c (upPattern p)).2 := by
  have hlen := E.td_len
  obtain ⟨hp58, hpch⟩ := upPattern_chars p
  have hlab : ((122 :: cmc3 c.randSeed) ++ upPattern p).length = 4 + (upPattern p).length := by
    simp only [List.length_append, List.length_cons, cmc3, List.length_nil]
  obtain ⟨hl, hs⟩ := label_name E ((122 :: cmc3 c.randSeed) ++ upPattern p) (by omega) (by omega) (by
    intro ch h
    rcases List.mem_append.mp h with h | h
    · rcases List.mem_cons.mp h with rfl | h
      · omega
      · exact cmc3_chars _ ch h
    · exact hpch ch h)
  have hname : NameOk L td (((122 :: cmc3 c.randSeed) ++ upPattern p) ++ 46 :: td) := by
    refine ⟨hl, hs, Or.inr ⟨rfl, ?_⟩⟩
    simp only [List.length_append, List.length_cons] at hlab ⊢
    omega
  have hhost : ([122, b32_5to8 ((c.randSeed / 1024 % 32 : Nat) : Int), b32_5to8 ((c.randSeed / 32 % 32 : Nat) : Int),
        b32_5to8 ((c.randSeed % 32 : Nat) : Int)] ++ (upPattern p).take 128 ++ [46]) ++
      c.topdomain.take (512 - ([122, b32_5to8 ((c.randSeed / 1024 % 32 : Nat) : Int),
        b32_5to8 ((c.randSeed / 32 % 32 : Nat) : Int), b32_5to8 ((c.randSeed % 32 : Nat) : Int)] ++
        (upPattern p).take 128 ++ [46]).length)
      = ((122 :: cmc3 c.randSeed) ++ upPattern p) ++ 46 :: td := by
    rw [List.take_of_length_le (show (upPattern p).length ≤ 128 by omega), htd]
    rw [List.take_of_length_le (by simp only [List.length_append, List.length_cons, List.length_nil]; omega)]
    simp [cmc3]
  have hq := sendQueryPlain_ok (L := L) (td := td) (bumpSeed c) _ hty hname
  have hsend : sendUpenctest c (upPattern p) =
      (sendQueryPlain (bumpSeed c) (((122 :: cmc3 c.randSeed) ++ upPattern p) ++ 46 :: td)).1 := by
    unfold sendUpenctest
    simp only [hhost]
  rw [hsend]
  exact ⟨by rw [hq.1]; rfl, hq.2⟩

/-! ### names built by build_hostname -/

/-- C08 for the client's `build_hostname`: header of 1 or 5 ordinary characters, non-empty payload of bytes -/
theorem built_nameOk {cd : Codec.Codec} {L : Nat} {td : List Nat} (S : C02L.UpSetting cd L td) (h : Nat) (hh : h = 1 ∨ h = 5)
    (hdr d : List Nat) (prev : Nat) (hlen : hdr.length = h) (hhd : ∀ ch ∈ hdr, ch ≠ 46 ∧ ch ≠ 0 ∧ ch < 256)
    (hd : d ≠ []) (hb : Codec.Bytes d) :
    NameOk L td (hdr ++ (Client.buildHostname cd (L : Int) (4096 - h) prev td d).name) ∧
      1 ≤ (Client.buildHostname cd (L : Int) (4096 - h) prev td d).used ∧
      (Client.buildHostname cd (L : Int) (4096 - h) prev td d).used ≤ d.length := by
  have hS : C08.Setting cd L h hdr td d :=
    ⟨S.wf, S.nodot, S.hL, ⟨hlen, hh⟩, fun ch hch => (hhd ch hch).1, S.td_len, S.td_legal, hd, hb⟩
  obtain ⟨b, hb', G⟩ := C08.hostname_ok hS prev
  have hb'' : Encoding.buildHostname cd L (4096 - h) prev td d = some b := hb'
  rw [C02L.clientBuild_eq cd L _ prev td d b S.hL.2 hb'']
  refine ⟨⟨?_, G.suffix, Or.inl G.within_L⟩, G.used.1, G.used.2⟩
  refine C02L.legalName_of_legalAux _ G.legal (by have := G.wire; omega) ?_
  intro ch hch
  rcases List.mem_append.mp hch with hch | hch
  · exact ⟨(hhd ch hch).2.1, (hhd ch hch).2.2⟩
  · exact C02L.built_chars S _ prev d b hb'' ch hch

theorem enc_nil (e : Enc) (space : Nat) : Codec.enc e.codec space [] = ⟨[], 0, 1⟩ := by
  have h : ∀ e : Enc, Codec.nchars e.codec.k 0 = 0 ∧ Codec.encFull e.codec [] = [] := by
    intro e; cases e <;> decide
  unfold Codec.enc
  simp only [List.length_nil, (h e).1, Nat.zero_le, if_true, (h e).2]

/-- `build_hostname` of NO data behind a header whose last byte is not a dot: just `.topdomain` -/
theorem build_nil (e : Enc) (L : Nat) (td : List Nat) (hL : td.length + 8 ≤ L ∧ L ≤ 255) (buflen : Nat) (hbl : 255 ≤ buflen) :
    Client.buildHostname e.codec (L : Int) buflen 0 td [] = ⟨46 :: td, 0⟩ := by
  have hb : Encoding.buildHostname e.codec L buflen 0 td [] = some ⟨46 :: td, 0⟩ := by
    unfold Encoding.buildHostname
    rw [if_neg (by omega)]
    simp only [enc_nil]
    simp [Encoding.dotify, Encoding.dotifyAux, Encoding.DOT]
  exact C02L.clientBuild_eq _ L buflen 0 td [] _ hL.2 hb

/-- the name of a data query or fragment-size probe: 5 header characters, any byte payload -/
theorem chunkName_ok {L : Nat} {td : List Nat} (E : Env L td) (e : Enc) (hdr d : List Nat) (hlen : hdr.length = 5)
    (hhd : ∀ ch ∈ hdr, ch ≠ 46 ∧ ch ≠ 0 ∧ ch < 256) (hb : Codec.Bytes d) :
    NameOk L td (hdr ++ (Client.buildHostname e.codec (L : Int) 4091 0 td d).name) := by
  by_cases hd : d = []
  · subst hd
    have hlen' := E.td_len
    rw [build_nil e L td ⟨by omega, E.hL.2⟩ 4091 (by omega)]
    exact label_nameOk E hdr (by omega) (by omega) hhd
  · exact (built_nameOk (E.up e) 5 (Or.inr rfl) hdr d 0 hlen hhd hd hb).1

/-! ### send_packet -/

/-- `send_packet(fd, cmd, data, datalen)` (handshake flavour: no answer counting) -/
theorem hsSendPacket_ok {L : Nat} {td : List Nat} (E : Env L td) (c : Cli) (cmd : Nat) (d : List Nat) (htd : c.topdomain = td)
    (hml : c.hostnameMaxlen = (L : Int)) (hty : TType c.doQtype) (hc : cmd ≠ 46 ∧ cmd ≠ 0 ∧ cmd < 256) (hd : d ≠ [])
    (hb : Codec.Bytes d) :
    hsSendPacket c cmd d =
      (rotateChunkid c, [.query (rotateChunkid c).chunkid c.doQtype
          (cmd :: (Client.buildHostname Codec.b32 (L : Int) 4095 cmd td d).name)]) ∧
    NameOk L td (cmd :: (Client.buildHostname Codec.b32 (L : Int) 4095 cmd td d).name) ∧
    EvsOk L td (hsSendPacket c cmd d).2 := by
  have hn := (built_nameOk (E.up .b32) 1 (Or.inl rfl) [cmd] d cmd rfl
    (by intro ch h; simp only [List.mem_singleton] at h; subst h; exact hc) hd hb).1
  have hn' : NameOk L td (cmd :: (Client.buildHostname Codec.b32 (L : Int) 4095 cmd td d).name) := hn
  have hq := sendQueryPlain_ok (L := L) (td := td) c _ hty hn'
  unfold hsSendPacket
  rw [htd, hml]
  exact ⟨by rw [hq.1], hn', hq.2⟩

/-! ### send_fragsize_probe -/

theorem sendFragsizeProbe_ok {L : Nat} {td : List Nat} (E : Env L td) (c : Cli) (f : Nat) (htd : c.topdomain = td)
    (hml : c.hostnameMaxlen = (L : Int)) (hty : TType c.doQtype) :
    (sendFragsizeProbe c f).1 = rotateChunkid (bumpSeed c) ∧ EvsOk L td (sendFragsizeProbe c f).2 := by
  unfold sendFragsizeProbe
  simp only
  rw [htd, hml]
  have hn := chunkName_ok E c.dataenc
    [114, b32_5to8 ((maskI c.userid 16 * 2 + f % 2048 / 1024 % 2 : Nat) : Int), b32_5to8 ((f % 2048 / 32 % 32 : Nat) : Int),
      b32_5to8 ((f % 2048 % 32 : Nat) : Int), 100]
    (max 1 (c.randSeed % 256) :: max 1 (c.randSeed / 256 % 256) :: List.replicate 254 (max 1 (c.randSeed % 256))) rfl
    (by
      intro ch h
      simp only [List.mem_cons, List.not_mem_nil, or_false] at h
      rcases h with rfl | rfl | rfl | rfl | rfl
      · omega
      · exact C02L.b32_5to8_char _
      · exact C02L.b32_5to8_char _
      · exact C02L.b32_5to8_char _
      · omega)
    (by
      intro x hx
      simp only [List.mem_cons, List.mem_replicate] at hx
      rcases hx with rfl | rfl | ⟨_, rfl⟩ <;> omega)
  have hq := sendQueryPlain_ok (L := L) (td := td) (bumpSeed c) _ hty hn
  exact ⟨by rw [hq.1], hq.2⟩

end Iodine.CliQ
