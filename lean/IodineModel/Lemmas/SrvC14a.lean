import IodineModel.Server.Run
/-
Helper lemmas for property C14 (no unsolicited / surplus DNS answers), part a:
keys, the multiset of held queries, the "query view" of a server state and frame lemmas for `setUser`.
-/
namespace Iodine.C14L
open Iodine Iodine.Server

/-- `(from, id, name, type)` -/
abbrev Key := Addr × Nat × List Nat × Nat

/-- key of a stored / arriving query -/
def keyOf (q : Query) : Key := (q.from_, q.id, q.name, q.type)

/-- key of the remembered duplicate of a stored query -/
def key2 (q : Query) : Key := (q.from2, q.id2, q.name, q.type)

/-- the keys a stored query stands for: nothing if `id = 0`, itself, and the remembered duplicate if `id2 ≠ 0` -/
def qKeys (q : Query) : List Key :=
  if q.id = 0 then [] else if q.id2 = 0 then [keyOf q] else [keyOf q, key2 q]

/-- the two stored queries of a slot -/
abbrev QP := Query × Query

def pairKeys (p : QP) : List Key := qKeys p.1 ++ qKeys p.2

def QQ (x : Session) : QP := (x.q, x.qs)

/-- all that matters of a state for C14: `(q, q_sendrealsoon)` of every slot -/
def qview (s : Srv) : List QP := s.users.map QQ

def heldV (v : List QP) : List Key := v.flatMap pairKeys

/-- the multiset of keys of all held queries -/
def held (s : Srv) : List Key := heldV (qview s)

def zeroP : QP := (Query.zero, Query.zero)

@[simp] theorem qKeys_zero : qKeys Query.zero = [] := rfl
@[simp] theorem pairKeys_zeroP : pairKeys zeroP = [] := rfl
@[simp] theorem QQ_zero (t : Nat) : QQ (Session.zero t) = zeroP := rfl

theorem qKeys_id0 {q : Query} (h : q.id = 0) : qKeys q = [] := by simp [qKeys, h]

@[simp] theorem qKeys_with_id0 (q : Query) : qKeys { q with id := 0 } = [] := by simp [qKeys]

/-- `q->id = 0` -/
def clearId (q : Query) : Query := { q with id := 0 }

@[simp] theorem qKeys_clearId (q : Query) : qKeys (clearId q) = [] := by simp [qKeys, clearId]

/-! ### list facts -/

theorem map_modify {α β} (g : α → β) (f : α → α) (d : α) :
    ∀ (l : List α) (u : Nat), (l.modify u f).map g = (l.map g).set u (g (f (l.getD u d)))
  | [], _ => by simp
  | a :: l, 0 => by simp
  | a :: l, u + 1 => by simp [map_modify g f d l u]

theorem getD_map {α β} (g : α → β) (d : α) (l : List α) (u : Nat) :
    (l.map g).getD u (g d) = g (l.getD u d) := by
  simp only [List.getD_eq_getElem?_getD, List.getElem?_map]
  cases l[u]? <;> rfl

theorem count_heldV_set (k : Key) (p : QP) :
    ∀ (v : List QP) (u : Nat), u < v.length →
      (heldV (v.set u p)).count k + (pairKeys (v.getD u zeroP)).count k = (heldV v).count k + (pairKeys p).count k
  | [], _, h => by simp at h
  | a :: l, 0, _ => by simp [heldV, List.count_append]; omega
  | a :: l, u + 1, h => by
    have := count_heldV_set k p l u (by simpa using h)
    simp only [heldV, List.set_cons_succ, List.flatMap_cons, List.count_append, List.getD_cons_succ] at *
    omega

theorem set_of_ge {α} (a : α) : ∀ (v : List α) (u : Nat), v.length ≤ u → v.set u a = v
  | [], _, _ => rfl
  | b :: l, 0, h => by simp at h
  | b :: l, u + 1, h => by simp [set_of_ge a l u (by simpa using h)]

theorem count_heldV_set_le (k : Key) (p : QP) (v : List QP) (u : Nat) :
    (heldV (v.set u p)).count k + (pairKeys (v.getD u zeroP)).count k ≤ (heldV v).count k + (pairKeys p).count k := by
  by_cases h : u < v.length
  · exact Nat.le_of_eq (count_heldV_set k p v u h)
  · have h' : v.length ≤ u := Nat.le_of_not_lt h
    rw [set_of_ge p v u h', List.getD_eq_getElem?_getD, List.getElem?_eq_none h']
    simp

/-! ### frame lemmas -/

theorem QQ_getUser (s : Srv) (u : Nat) : QQ (getUser s u) = (qview s).getD u zeroP := by
  unfold getUser qview
  rw [← QQ_zero 0, getD_map]

theorem qview_setUser (s : Srv) (u : Nat) (f : Session → Session) :
    qview (setUser s u f) = (qview s).set u (QQ (f (getUser s u))) := by
  unfold qview setUser getUser
  exact map_modify QQ f _ _ _

/-- two states with the same stored queries -/
structure SameQ (s s' : Srv) : Prop where
  eq : qview s' = qview s

theorem SameQ.refl (s : Srv) : SameQ s s := ⟨rfl⟩
theorem SameQ.trans {a b c : Srv} (h1 : SameQ a b) (h2 : SameQ b c) : SameQ a c := ⟨by rw [h2.eq, h1.eq]⟩

theorem SameQ.held_eq {s s' : Srv} (h : SameQ s s') : held s' = held s := by unfold held; rw [h.eq]
theorem SameQ.qq {s s' : Srv} (h : SameQ s s') (u : Nat) : QQ (getUser s' u) = QQ (getUser s u) := by
  rw [QQ_getUser, QQ_getUser, h.eq]
theorem SameQ.q {s s' : Srv} (h : SameQ s s') (u : Nat) : (getUser s' u).q = (getUser s u).q :=
  congrArg Prod.fst (h.qq u)
theorem SameQ.qs {s s' : Srv} (h : SameQ s s') (u : Nat) : (getUser s' u).qs = (getUser s u).qs :=
  congrArg Prod.snd (h.qq u)
theorem SameQ.len {s s' : Srv} (h : SameQ s s') : s'.users.length = s.users.length := by
  have := congrArg List.length h.eq
  simpa [qview] using this

theorem set_getD_self {α} (d : α) : ∀ (v : List α) (u : Nat), v.set u (v.getD u d) = v
  | [], _ => rfl
  | a :: l, 0 => rfl
  | a :: l, u + 1 => by simp only [List.getD_cons_succ, List.set_cons_succ, set_getD_self d l u]

/-- a write to a slot that keeps `q` and `q_sendrealsoon` -/
theorem sameQ_setUser (s : Srv) (u : Nat) (f : Session → Session) (hf : ∀ x, QQ (f x) = QQ x) :
    SameQ s (setUser s u f) := by
  constructor
  rw [qview_setUser, hf, QQ_getUser, set_getD_self]

theorem sameQ_of_users {s s' : Srv} (h : s'.users = s.users) : SameQ s s' := by
  constructor; unfold qview; rw [h]

theorem length_setUser (s : Srv) (u : Nat) (f : Session → Session) :
    (setUser s u f).users.length = s.users.length := by simp [setUser]

theorem getUser_setUser_self (s : Srv) (u : Nat) (f : Session → Session) (h : u < s.users.length) :
    getUser (setUser s u f) u = f (getUser s u) := by
  simp [getUser, setUser, List.getD_eq_getElem?_getD, h]

/-- out of range slots look inactive and empty -/
theorem getUser_of_ge (s : Srv) (u : Nat) (h : s.users.length ≤ u) : getUser s u = Session.zero 0 := by
  simp [getUser, List.getD_eq_getElem?_getD, List.getElem?_eq_none h]

theorem lt_of_qid_ne (s : Srv) (u : Nat) (h : (getUser s u).q.id ≠ 0) : u < s.users.length := by
  apply Nat.lt_of_not_le; intro hge; rw [getUser_of_ge s u hge] at h; exact h rfl

theorem lt_of_qsid_ne (s : Srv) (u : Nat) (h : (getUser s u).qs.id ≠ 0) : u < s.users.length := by
  apply Nat.lt_of_not_le; intro hge; rw [getUser_of_ge s u hge] at h; exact h rfl

/-! ### multiset inclusion by counting -/

/-- `A ≤ B` as multisets -/
def Le (A B : List Key) : Prop := ∀ k, A.count k ≤ B.count k

theorem Le.refl (A : List Key) : Le A A := fun _ => Nat.le_refl _
theorem Le.trans {A B C : List Key} (h1 : Le A B) (h2 : Le B C) : Le A C := fun k => Nat.le_trans (h1 k) (h2 k)

/-- the general write: what the held multiset becomes -/
theorem count_held_setUser_le (k : Key) (s : Srv) (u : Nat) (f : Session → Session) :
    (held (setUser s u f)).count k + (pairKeys (QQ (getUser s u))).count k
      ≤ (held s).count k + (pairKeys (QQ (f (getUser s u)))).count k := by
  unfold held
  rw [qview_setUser, QQ_getUser]
  exact count_heldV_set_le k _ _ _

end Iodine.C14L
