import IodineModel.Lemmas.SrvC16a
/-
Helper lemmas for C16, part c: the monitor that follows the answer cache and the query memories of one
session through a run, the invariant `K` tying it to the state, and the combinators with which the invariant
is pushed through the handlers.
-/
namespace Iodine.C16L
open Iodine Iodine.Server Iodine.Gen

/-! ### the monitor -/

/-- name, type and payload of a fresh answer -/
abbrev CEntry := List Nat × Nat × List Nat
/-- fingerprint and type of a fresh answer -/
abbrev QEntry := List Nat × Nat

/-- what the monitor knows about session `u` (most recent first): the fresh answers since the cache was last
emptied, the ping fingerprints and the data fingerprints saved since the query memories were last emptied -/
structure Mon where
  cache : List CEntry
  ping : List QEntry
  data : List QEntry

def Mon.empty : Mon := ⟨[], [], []⟩

/-- the answer is the VACK that hands out slot `u` -/
def isVack (u : Nat) : Event → Bool
  | .ans _ _ _ _ _ data .ctrl => data.take 4 == ascii "VACK" && data.getD 8 0 == u % 256
  | _ => false

/-- the user id an `N` query names -/
def nUser (td : List Nat) (q : Query) : Int :=
  charVal ((Encoding.unpackData Codec.b32 65536
    ((q.name.take (min ((Common.queryDatalen q.name td).getD 0) 512)).drop 1)).getD 0 0)

/-- the answer is the two-byte acknowledgement of an `N` query naming slot `u` -/
def isNack (td : List Nat) (u : Nat) : Input → Event → Bool
  | .q q, .ans _ _ _ _ _ data .ctrl =>
    (q.name.getD 0 0 == 78 || q.name.getD 0 0 == 110) && data.length == 2 && nUser td q == (u : Int)
  | _, _ => false

def isChunk (u : Nat) : Event → Bool
  | .ans _ _ _ _ _ _ (.chunk v) => v == u
  | _ => false

def isPingName (n : List Nat) : Bool := n.getD 0 0 == 80 || n.getD 0 0 == 112

/-- the fingerprint `save_to_qmem_pingordata` stores for a ping name, if it stores one -/
def pingSaved (n : List Nat) : Option (List Nat) :=
  match n.idxOf? 46 with
  | none => none
  | some cp =>
    let cmc := Codec.dec Codec.b32 8 (cp - 1) (n.drop 1)
    if cmc.length < 4 then none else some (cmc.take 4)

/-- the monitor after a fresh answer with name `n`, type `t`, payload `d` -/
def Mon.push (m : Mon) (n : List Nat) (t : Nat) (d : List Nat) : Mon :=
  { cache := (n, t, d) :: m.cache,
    ping := if isPingName n then (match pingSaved n with | some c => (c, t) :: m.ping | none => m.ping) else m.ping,
    data := if isPingName n then m.data else if n.length < 5 then m.data else (dataCmc n, t) :: m.data }

def monStep (td : List Nat) (u : Nat) (inp : Input) (m : Mon) (ev : Event) : Mon :=
  if isVack u ev then Mon.empty
  else if isNack td u inp ev then { m with cache := [] }
  else match ev with
    | .ans _ _ t _ n d (.chunk v) => if v = u then m.push n t d else m
    | _ => m

def monEvents (td : List Nat) (u : Nat) (inp : Input) (m : Mon) (evs : List Event) : Mon :=
  evs.foldl (monStep td u inp) m

theorem monEvents_append (td : List Nat) (u : Nat) (inp : Input) (m : Mon) (a b : List Event) :
    monEvents td u inp m (a ++ b) = monEvents td u inp (monEvents td u inp m a) b := by
  simp [monEvents, List.foldl_append]

/-! ### the invariant -/

def CacheOk (x : Session) (l : List CEntry) : Prop :=
  x.dnscache.length = DNSCACHE_LEN ∧ x.dcLast < DNSCACHE_LEN ∧
  ∀ i, i < DNSCACHE_LEN → ∀ n t p, l[i]? = some (n, t, p) →
    (cacheAt x i).q.name = n ∧ (cacheAt x i).q.type = t ∧ (cacheAt x i).q.id ≠ 0 ∧
    (cacheAt x i).answerlen ≠ 0 ∧ (cacheAt x i).answer.take (cacheAt x i).answerlen = p

def QmemOk (mem : List QmemEntry) (last L : Nat) (l : List QEntry) : Prop :=
  mem.length = L ∧ last < L ∧
  ∀ i, i < L → ∀ c t, l[i]? = some (c, t) → mem.getD (ringPos L last i) QmemEntry.zero = ⟨c, t⟩

def Inv (m : Mon) (x : Session) : Prop :=
  CacheOk x m.cache ∧ QmemOk x.qmemping x.qmempingLast QMEMPING_LEN m.ping ∧
  QmemOk x.qmemdata x.qmemdataLast QMEMDATA_LEN m.data

/-- the part of a session the invariant reads -/
def memOf (x : Session) :=
  (x.dnscache, x.dcLast, x.qmemping, x.qmempingLast, x.qmemdata, x.qmemdataLast)

theorem Inv_congr {m : Mon} {x x' : Session} (h : memOf x' = memOf x) : Inv m x → Inv m x' := by
  simp only [memOf, Prod.mk.injEq] at h
  obtain ⟨h1, h2, h3, h4, h5, h6⟩ := h
  unfold Inv CacheOk cacheAt
  rw [h1, h2, h3, h4, h5, h6]
  exact id

/-- `m'` knows less than `m`: each list is the same or empty -/
def Mon.le (m' m : Mon) : Prop :=
  (m'.cache = m.cache ∨ m'.cache = []) ∧ (m'.ping = m.ping ∨ m'.ping = []) ∧ (m'.data = m.data ∨ m'.data = [])

theorem Mon.le_refl (m : Mon) : m.le m := ⟨Or.inl rfl, Or.inl rfl, Or.inl rfl⟩

theorem Mon.le_trans {a b c : Mon} (h1 : a.le b) (h2 : b.le c) : a.le c := by
  obtain ⟨a1, a2, a3⟩ := h1
  obtain ⟨b1, b2, b3⟩ := h2
  refine ⟨?_, ?_, ?_⟩
  · rcases a1 with a1 | a1
    · rcases b1 with b1 | b1
      · exact Or.inl (a1.trans b1)
      · exact Or.inr (a1.trans b1)
    · exact Or.inr a1
  · rcases a2 with a2 | a2
    · rcases b2 with b2 | b2
      · exact Or.inl (a2.trans b2)
      · exact Or.inr (a2.trans b2)
    · exact Or.inr a2
  · rcases a3 with a3 | a3
    · rcases b3 with b3 | b3
      · exact Or.inl (a3.trans b3)
      · exact Or.inr (a3.trans b3)
    · exact Or.inr a3

theorem Inv_le {m' m : Mon} {x : Session} (h : m'.le m) : Inv m x → Inv m' x := by
  obtain ⟨h1, h2, h3⟩ := h
  rintro ⟨⟨a1, a2, a3⟩, ⟨b1, b2, b3⟩, ⟨c1, c2, c3⟩⟩
  refine ⟨⟨a1, a2, ?_⟩, ⟨b1, b2, ?_⟩, ⟨c1, c2, ?_⟩⟩
  · rcases h1 with h1 | h1 <;> rw [h1]
    · exact a3
    · intro i _ n t p hh; simp at hh
  · rcases h2 with h2 | h2 <;> rw [h2]
    · exact b3
    · intro i _ c t hh; simp at hh
  · rcases h3 with h3 | h3 <;> rw [h3]
    · exact c3
    · intro i _ c t hh; simp at hh

/-- an event that is not a fresh answer of session `u` can only make the monitor forget -/
theorem monStep_calm (td : List Nat) (u : Nat) (inp : Input) (m : Mon) (ev : Event)
    (h : isChunk u ev = false) : (monStep td u inp m ev).le m := by
  unfold monStep
  split
  · exact ⟨Or.inr rfl, Or.inr rfl, Or.inr rfl⟩
  · split
    · exact ⟨Or.inr rfl, Or.inl rfl, Or.inl rfl⟩
    · split
      · rename_i v
        split
        · rename_i hv; subst hv; simp [isChunk] at h
        · exact Mon.le_refl m
      · exact Mon.le_refl m

theorem monEvents_calm (td : List Nat) (u : Nat) (inp : Input) (evs : List Event) :
    ∀ (m : Mon), (∀ e ∈ evs, isChunk u e = false) → (monEvents td u inp m evs).le m := by
  induction evs with
  | nil => intro m _; exact Mon.le_refl m
  | cons e rest ih =>
    intro m h
    have h1 := monStep_calm td u inp m e (h e (List.mem_cons_self))
    have h2 := ih (monStep td u inp m e) (fun e' he' => h e' (List.mem_cons_of_mem _ he'))
    exact Mon.le_trans h2 h1

/-- the invariant of slot `u` in state `s` -/
def K (u : Nat) (m : Mon) (s : Srv) : Prop := u < s.users.length ∧ Inv m (getUser s u)

/-- `s'` has the same table size and the same cache / query memories in slot `u` as `s` -/
def Same (u : Nat) (s s' : Srv) : Prop :=
  s'.users.length = s.users.length ∧ memOf (getUser s' u) = memOf (getUser s u)

theorem Same.refl (u : Nat) (s : Srv) : Same u s s := ⟨rfl, rfl⟩

theorem Same.trans {u : Nat} {a b c : Srv} (h1 : Same u a b) (h2 : Same u b c) : Same u a c :=
  ⟨h2.1.trans h1.1, h2.2.trans h1.2⟩

theorem K_same {u : Nat} {m : Mon} {s s' : Srv} (h : Same u s s') : K u m s → K u m s' := by
  rintro ⟨a, b⟩
  exact ⟨by rw [h.1]; exact a, Inv_congr h.2 b⟩

theorem K_le {u : Nat} {m m' : Mon} {s : Srv} (h : m'.le m) : K u m s → K u m' s :=
  fun ⟨a, b⟩ => ⟨a, Inv_le h b⟩

theorem same_setUser (u v : Nat) (s : Srv) (g : Session → Session) (hg : ∀ x, memOf (g x) = memOf x) :
    Same u s (setUser s v g) := by
  refine ⟨setUser_length s v g, ?_⟩
  rw [getUser_setUser]
  split
  · rename_i h; rw [h.1]; exact hg _
  · rfl

theorem same_setUser_ne (u v : Nat) (s : Srv) (g : Session → Session) (h : u ≠ v) :
    Same u s (setUser s v g) :=
  ⟨setUser_length s v g, by rw [getUser_setUser_ne s v u g h]⟩

theorem same_of_users {u : Nat} {s s' : Srv} (h : s'.users = s.users) : Same u s s' :=
  ⟨by rw [h], by unfold getUser; rw [h]⟩

/-! ### pushing the invariant through a handler -/

section
variable (td : List Nat) (u : Nat) (inp : Input)

/-- running a piece of the handler from `s` with result `r` keeps the table size, and keeps monitor and state
in step -/
def Keeps (s : Srv) (r : Res) : Prop :=
  r.1.users.length = s.users.length ∧ ∀ m, K u m s → K u (monEvents td u inp m r.2) r.1

variable {td u inp}

theorem step_refl (s : Srv) : Keeps td u inp s (s, []) := ⟨rfl, fun _ h => h⟩

/-- no fresh answer of `u`, cache and memories of `u` untouched -/
theorem step_quiet {s : Srv} {r : Res} (h1 : Same u s r.1) (h2 : ∀ e ∈ r.2, isChunk u e = false) :
    Keeps td u inp s r := ⟨h1.1, fun m h => K_le (monEvents_calm td u inp r.2 m h2) (K_same h1 h)⟩

theorem step_seq {s : Srv} {r1 r2 : Res} (h1 : Keeps td u inp s r1) (h2 : Keeps td u inp r1.1 r2) :
    Keeps td u inp s (r2.1, r1.2 ++ r2.2) := by
  refine ⟨h2.1.trans h1.1, ?_⟩
  intro m h
  show K u (monEvents td u inp m (r1.2 ++ r2.2)) r2.1
  rw [monEvents_append]
  exact h2.2 _ (h1.2 m h)

theorem step_pre {s s' : Srv} {r : Res} (h1 : Same u s s') (h2 : Keeps td u inp s' r) : Keeps td u inp s r :=
  ⟨h2.1.trans h1.1, fun m h => h2.2 m (K_same h1 h)⟩

theorem step_post {s s' : Srv} {r : Res} (h1 : Keeps td u inp s r) (h2 : Same u r.1 s') :
    Keeps td u inp s (s', r.2) :=
  ⟨h2.1.trans h1.1, fun m h => K_same h2 (h1.2 m h)⟩

theorem step_of_bound {s : Srv} {r : Res} (hlen : r.1.users.length = s.users.length)
    (h : u < s.users.length → Keeps td u inp s r) : Keeps td u inp s r :=
  ⟨hlen, fun m hk => (h hk.1).2 m hk⟩

theorem step_eq {s : Srv} {r r' : Res} (h : Keeps td u inp s r) (e : r' = r) : Keeps td u inp s r' := e ▸ h

/-- `andThen` -/
theorem step_andThen {s : Srv} {r : Res} {f : Srv → Res} (h1 : Keeps td u inp s r)
    (h2 : Keeps td u inp r.1 (f r.1)) : Keeps td u inp s (andThen r f) :=
  step_seq h1 h2

end

end Iodine.C16L
