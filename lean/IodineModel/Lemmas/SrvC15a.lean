import IodineModel.Server.Run
/-
Helper lemmas for property C15, part a: frame lemmas for `getUser`/`setUser`, the fragment-size /
answer-cache invariant and its preservation by every function of the model.
-/
namespace Iodine.C15L
open Iodine Iodine.Server Iodine.Gen

/-! ### frame lemmas -/

theorem getUser_setUser (s : Srv) (u v : Nat) (f : Session → Session) :
    getUser (setUser s u f) v = if v = u ∧ u < s.users.length then f (getUser s u) else getUser s v := by
  unfold getUser setUser
  simp only [List.getD_eq_getElem?_getD, List.getElem?_modify]
  by_cases h : v = u
  · subst h
    by_cases hl : v < s.users.length
    · simp [hl]
    · simp [hl]
  · have : ¬ u = v := fun e => h e.symm
    simp [h, this]

@[simp] theorem setUser_cfg (s : Srv) (u : Nat) (f : Session → Session) : (setUser s u f).cfg = s.cfg := rfl
@[simp] theorem setUser_now (s : Srv) (u : Nat) (f : Session → Session) : (setUser s u f).now = s.now := rfl
@[simp] theorem setUser_rand (s : Srv) (u : Nat) (f : Session → Session) : (setUser s u f).rand = s.rand := rfl
@[simp] theorem setUser_fw (s : Srv) (u : Nat) (f : Session → Session) : (setUser s u f).fw = s.fw := rfl
@[simp] theorem setUser_length (s : Srv) (u : Nat) (f : Session → Session) :
    (setUser s u f).users.length = s.users.length := by
  simp [setUser]

theorem getUser_setUser_self (s : Srv) (u : Nat) (f : Session → Session) (h : u < s.users.length) :
    getUser (setUser s u f) u = f (getUser s u) := by
  simp [getUser_setUser, h]

theorem getUser_setUser_ne (s : Srv) (u v : Nat) (f : Session → Session) (h : v ≠ u) :
    getUser (setUser s u f) v = getUser s v := by
  simp [getUser_setUser, h]

/-- a property of sessions that `f` maintains is maintained slot-wise by `setUser` -/
theorem getUser_setUser_cases (s : Srv) (u v : Nat) (f : Session → Session) :
    getUser (setUser s u f) v = getUser s v ∨ (v = u ∧ getUser (setUser s u f) v = f (getUser s u)) := by
  rw [getUser_setUser]
  split
  · rename_i h; exact Or.inr ⟨h.1, rfl⟩
  · exact Or.inl rfl


/-! ### the fragment-size / answer-cache invariant -/

/-- negotiated downstream fragment size of slot `u` -/
def F (s : Srv) (u : Nat) : Nat := (getUser s u).fragsize

/-- a cache entry is compatible with fragment size `fs` -/
def EntryOK (fs : Nat) (e : DnsCacheEntry) : Prop :=
  e.answerlen ≤ fs + 2 ∧ e.answerlen ≤ 4096 ∧ (e.answerlen ≠ 0 → e.answer.length = e.answerlen)

/-- every cached answer of the session fits its fragment size -/
def CacheOK (x : Session) : Prop := ∀ e ∈ x.dnscache, EntryOK x.fragsize e

/-- the state invariant of part (A) -/
def Inv (s : Srv) : Prop := ∀ u, CacheOK (getUser s u)

/-- session `y` has the fragment size of `x` and a cache that is fine if `x`'s was -/
def Keep (x y : Session) : Prop := y.fragsize = x.fragsize ∧ (CacheOK x → CacheOK y)

/-- `s'` has the configuration, table size, fragment sizes of `s` and keeps the cache invariant slot-wise -/
def Pres (s s' : Srv) : Prop :=
  s'.cfg = s.cfg ∧ s'.users.length = s.users.length ∧ ∀ v, Keep (getUser s v) (getUser s' v)

theorem Keep.refl (x : Session) : Keep x x := ⟨rfl, id⟩

theorem Keep.trans {x y z : Session} (h1 : Keep x y) (h2 : Keep y z) : Keep x z :=
  ⟨h2.1.trans h1.1, fun h => h2.2 (h1.2 h)⟩

theorem keep_of_same {x y : Session} (h1 : y.fragsize = x.fragsize) (h2 : y.dnscache = x.dnscache) : Keep x y := by
  refine ⟨h1, ?_⟩
  unfold CacheOK
  rw [h1, h2]
  exact id

theorem Pres.refl (s : Srv) : Pres s s := ⟨rfl, rfl, fun _ => Keep.refl _⟩

theorem Pres.trans {a b c : Srv} (h1 : Pres a b) (h2 : Pres b c) : Pres a c :=
  ⟨h2.1.trans h1.1, h2.2.1.trans h1.2.1, fun v => (h1.2.2 v).trans (h2.2.2 v)⟩

theorem Pres.F {s s' : Srv} (h : Pres s s') (v : Nat) : F s' v = F s v := (h.2.2 v).1

theorem Pres.inv {s s' : Srv} (h : Pres s s') (hi : Inv s) : Inv s' := fun v => (h.2.2 v).2 (hi v)

theorem pres_of_users {s s' : Srv} (hc : s'.cfg = s.cfg) (hu : s'.users = s.users) : Pres s s' := by
  refine ⟨hc, by rw [hu], fun v => ?_⟩
  unfold getUser
  rw [hu]
  exact Keep.refl _

theorem pres_setUser (s : Srv) (u : Nat) (f : Session → Session) (h : Keep (getUser s u) (f (getUser s u))) :
    Pres s (setUser s u f) := by
  refine ⟨rfl, setUser_length s u f, fun v => ?_⟩
  rcases getUser_setUser_cases s u v f with h1 | ⟨rfl, h1⟩
  · rw [h1]; exact Keep.refl _
  · rw [h1]; exact h

/-- `setUser` with an update that touches neither `fragsize` nor `dnscache` -/
theorem pres_setUser_same (s : Srv) (u : Nat) (f : Session → Session)
    (h1 : ∀ x, (f x).fragsize = x.fragsize) (h2 : ∀ x, (f x).dnscache = x.dnscache) :
    Pres s (setUser s u f) :=
  pres_setUser s u f (keep_of_same (h1 _) (h2 _))


theorem Pres.set {s0 s : Srv} (h : Pres s0 s) (u : Nat) (f : Session → Session)
    (h1 : ∀ x, (f x).fragsize = x.fragsize) (h2 : ∀ x, (f x).dnscache = x.dnscache) :
    Pres s0 (setUser s u f) :=
  h.trans (pres_setUser_same s u f h1 h2)

/-! ### events -/

/-- the `data` of an answer carrying tunnel data for session `u` -/
def dataFor (u : Nat) : Event → Option (List Nat)
  | .ans _ _ _ _ _ data tag => if tag = .chunk u ∨ tag = .dupe u ∨ tag = .cached u then some data else none
  | _ => none

/-- all data answers among `evs` respect the fragment sizes of `s` -/
def Bnd (s : Srv) (evs : List Event) : Prop :=
  ∀ e ∈ evs, ∀ u d, dataFor u e = some d → d.length ≤ F s u + 2 ∧ d.length ≤ 4096

/-- no data answers among `evs` -/
def NoData (evs : List Event) : Prop := ∀ e ∈ evs, ∀ u, dataFor u e = none

theorem NoData.bnd {evs : List Event} (h : NoData evs) (s : Srv) : Bnd s evs := by
  intro e he u d hd
  rw [h e he u] at hd
  cases hd

@[simp] theorem noData_nil : NoData [] := by intro e he; cases he
@[simp] theorem bnd_nil (s : Srv) : Bnd s [] := by intro e he; cases he

theorem noData_append {a b : List Event} (ha : NoData a) (hb : NoData b) : NoData (a ++ b) := by
  intro e he
  rcases List.mem_append.1 he with h | h
  · exact ha e h
  · exact hb e h

theorem bnd_append {s : Srv} {a b : List Event} (ha : Bnd s a) (hb : Bnd s b) : Bnd s (a ++ b) := by
  intro e he
  rcases List.mem_append.1 he with h | h
  · exact ha e h
  · exact hb e h

theorem Bnd.of_F {s s' : Srv} {evs : List Event} (h : Bnd s evs) (hf : ∀ v, F s' v = F s v) : Bnd s' evs := by
  intro e he u d hd
  rw [hf u]
  exact h e he u d hd

@[simp] theorem dataFor_writeDns_ctrl (u : Nat) (q : Query) (d : List Nat) (dn : Nat) :
    dataFor u (writeDns q d dn) = none := by
  simp [writeDns, dataFor]

@[simp] theorem dataFor_writeDns_qmem (u v : Nat) (q : Query) (d : List Nat) (dn : Nat) :
    dataFor u (writeDns q d dn (.qmem v)) = none := by
  simp [writeDns, dataFor]

theorem noData_single_ctrl (q : Query) (d : List Nat) (dn : Nat) : NoData [writeDns q d dn] := by
  intro e he u
  simp only [List.mem_singleton] at he
  subst he
  simp

theorem noData_single_of {e : Event} (h : ∀ u, dataFor u e = none) : NoData [e] := by
  intro e' he u
  simp only [List.mem_singleton] at he
  subst he
  exact h u

/-! ### the small functions keep fragment sizes and the cache invariant -/

theorem pres_userSwitchCodec (s : Srv) (u : Nat) (e : Enc) : Pres s (userSwitchCodec s u e) := by
  unfold userSwitchCodec
  split
  · exact Pres.refl s
  · exact pres_setUser_same _ _ _ (fun _ => rfl) (fun _ => rfl)

theorem pres_userSetConnType (s : Srv) (u : Nat) (c : Conn) : Pres s (userSetConnType s u c) := by
  unfold userSetConnType
  split
  · exact Pres.refl s
  · exact pres_setUser_same _ _ _ (fun _ => rfl) (fun _ => rfl)

theorem pres_startNewOutpacket (s : Srv) (u : Nat) (d : List Nat) (n : Nat) :
    Pres s (startNewOutpacket s u d n) :=
  pres_setUser_same _ _ _ (fun _ => rfl) (fun _ => rfl)

theorem pres_saveToOutpacketq (s : Srv) (u : Nat) (d : List Nat) (n : Nat) :
    Pres s (saveToOutpacketq s u d n).1 := by
  unfold saveToOutpacketq
  dsimp only
  split
  · exact Pres.refl s
  · exact pres_setUser_same _ _ _ (fun _ => rfl) (fun _ => rfl)

theorem pres_getFromOutpacketq (s : Srv) (u : Nat) : Pres s (getFromOutpacketq s u).1 := by
  unfold getFromOutpacketq
  dsimp only
  split
  · exact Pres.refl s
  · exact (pres_startNewOutpacket _ _ _ _).trans (pres_setUser_same _ _ _ (fun _ => rfl) (fun _ => rfl))

theorem pres_saveToQmemPingOrData (s : Srv) (u : Nat) (q : Query) : Pres s (saveToQmemPingOrData s u q) := by
  unfold saveToQmemPingOrData
  dsimp only
  split
  · split
    · exact Pres.refl s
    · split
      · exact Pres.refl s
      · exact pres_setUser_same _ _ _ (fun _ => rfl) (fun _ => rfl)
  · split
    · exact Pres.refl s
    · exact pres_setUser_same _ _ _ (fun _ => rfl) (fun _ => rfl)

theorem pres_dropOut (s : Srv) (u : Nat) : Pres s (setUser s u dropOut) :=
  pres_setUser_same _ _ _ (fun _ => rfl) (fun _ => rfl)

theorem pres_scDropResent (s : Srv) (u : Nat) : Pres s (scDropResent s u) := by
  unfold scDropResent
  dsimp only
  split
  · exact (pres_dropOut s u).trans (pres_getFromOutpacketq _ _)
  · exact Pres.refl s

theorem pres_scPrepare (s : Srv) (u : Nat) : Pres s (scPrepare s u) := by
  unfold scPrepare
  split
  · exact pres_setUser_same _ _ _ (fun _ => rfl) (fun _ => rfl)
  · exact Pres.refl s

/-- storing an answer that fits the fragment size keeps the invariant -/
theorem pres_saveToDnscache (s : Srv) (u : Nat) (q : Query) (a : List Nat) (h : a.length ≤ F s u + 2) :
    Pres s (saveToDnscache s u q a) := by
  unfold saveToDnscache
  split
  · exact Pres.refl s
  · rename_i hl
    apply pres_setUser
    refine ⟨rfl, fun hc e he => ?_⟩
    dsimp only at he ⊢
    rcases List.mem_or_eq_of_mem_set he with h1 | h1
    · exact hc e h1
    · subst h1
      refine ⟨h, ?_, fun _ => rfl⟩
      simp only [DNSCACHE_ANSWER_SIZE] at hl
      dsimp only
      omega

theorem scDatalen_le (x : Session) : scDatalen x ≤ x.fragsize ∧ scDatalen x ≤ 4094 := by
  unfold scDatalen
  split <;> omega

theorem scPkt_length_le (x : Session) (n : Nat) : (scPkt x n).length ≤ n + 2 := by
  unfold scPkt
  simp only [List.length_append, List.length_cons, List.length_nil, List.length_take]
  omega

theorem pres_qselSet (s : Srv) (u : Nat) (w : QSel) (q : Query) :
    Pres s (setUser s u fun y => w.set y q) := by
  cases w <;> exact pres_setUser_same _ _ _ (fun _ => rfl) (fun _ => rfl)


/-! ### send_chunk_or_dataless -/

theorem scAnswer_bnd (s : Srv) (q : Query) (pkt : List Nat) (dn u : Nat)
    (h : pkt.length ≤ F s u + 2 ∧ pkt.length ≤ 4096) : Bnd s (scAnswer q pkt dn u).2 := by
  unfold scAnswer
  split
  · intro e he v d hd
    simp only [List.mem_cons, List.not_mem_nil, or_false] at he
    rcases he with rfl | rfl <;>
    · simp only [writeDns, dataFor] at hd
      split at hd
      · rename_i ht
        have : v = u := by
          rcases ht with ht | ht | ht <;> first | (injection ht with ht; exact ht.symm) | cases ht
        subst this
        cases hd
        exact h
      · cases hd
  · intro e he v d hd
    simp only [List.mem_singleton] at he
    subst he
    simp only [writeDns, dataFor] at hd
    split at hd
    · rename_i ht
      have : v = u := by
        rcases ht with ht | ht | ht <;> first | (injection ht with ht; exact ht.symm) | cases ht
      subst this
      cases hd
      exact h
    · cases hd

theorem sendChunkOrDataless_spec (s : Srv) (u : Nat) (w : QSel) :
    Pres s (sendChunkOrDataless s u w).1.1 ∧ Bnd s (sendChunkOrDataless s u w).1.2 := by
  have h1 : Pres s (scPrepare (scDropResent s u) u) := (pres_scDropResent s u).trans (pres_scPrepare _ u)
  have hF : F (scPrepare (scDropResent s u) u) u = F s u := h1.F u
  have hlen : (scPkt (getUser (scPrepare (scDropResent s u) u) u)
      (scDatalen (getUser (scPrepare (scDropResent s u) u) u))).length ≤ F s u + 2 ∧
      (scPkt (getUser (scPrepare (scDropResent s u) u) u)
      (scDatalen (getUser (scPrepare (scDropResent s u) u) u))).length ≤ 4096 := by
    have a := scPkt_length_le (getUser (scPrepare (scDropResent s u) u) u)
      (scDatalen (getUser (scPrepare (scDropResent s u) u) u))
    have b := scDatalen_le (getUser (scPrepare (scDropResent s u) u) u)
    unfold F at hF
    unfold F
    omega
  have h2 := pres_saveToQmemPingOrData (scPrepare (scDropResent s u) u) u
    (scAnswer (w.get (getUser (scPrepare (scDropResent s u) u) u))
      (scPkt (getUser (scPrepare (scDropResent s u) u) u) (scDatalen (getUser (scPrepare (scDropResent s u) u) u)))
      (getUser (scPrepare (scDropResent s u) u) u).downenc u).1
  have h12 := h1.trans h2
  have h3 := pres_saveToDnscache _ u
    (scAnswer (w.get (getUser (scPrepare (scDropResent s u) u) u))
      (scPkt (getUser (scPrepare (scDropResent s u) u) u) (scDatalen (getUser (scPrepare (scDropResent s u) u) u)))
      (getUser (scPrepare (scDropResent s u) u) u).downenc u).1
    (scPkt (getUser (scPrepare (scDropResent s u) u) u) (scDatalen (getUser (scPrepare (scDropResent s u) u) u)))
    (by rw [h12.F u]; exact hlen.1)
  have h123 := h12.trans h3
  unfold sendChunkOrDataless
  dsimp only
  split
  · exact ⟨(h123.trans (pres_qselSet _ _ _ _)).trans ((pres_dropOut _ _).trans (pres_getFromOutpacketq _ _)),
      scAnswer_bnd s _ _ _ _ hlen⟩
  · exact ⟨h123.trans (pres_qselSet _ _ _ _), scAnswer_bnd s _ _ _ _ hlen⟩

theorem pres_sendChunk (s : Srv) (u : Nat) (w : QSel) : Pres s (sendChunkOrDataless s u w).1.1 :=
  (sendChunkOrDataless_spec s u w).1

theorem bnd_sendChunk (s : Srv) (u : Nat) (w : QSel) : Bnd s (sendChunkOrDataless s u w).1.2 :=
  (sendChunkOrDataless_spec s u w).2

/-- the shape every handler of a fragment-size preserving step has -/
def Ok (s : Srv) (r : Res) : Prop := Pres s r.1 ∧ Bnd s r.2

theorem ok_refl (s : Srv) : Ok s (s, []) := ⟨Pres.refl s, bnd_nil s⟩

theorem ok_noData {s s' : Srv} {evs : List Event} (h : Pres s s') (he : NoData evs) : Ok s (s', evs) :=
  ⟨h, he.bnd s⟩

theorem ok_ctrl (s : Srv) (q : Query) (d : List Nat) (dn : Nat) : Ok s (s, [writeDns q d dn]) :=
  ok_noData (Pres.refl s) (noData_single_ctrl q d dn)

theorem ok_sendChunk (s : Srv) (u : Nat) (w : QSel) : Ok s (sendChunkOrDataless s u w).1 :=
  sendChunkOrDataless_spec s u w

/-- sequencing -/
theorem Ok.andThen {s : Srv} {r : Res} {f : Srv → Res} (h1 : Ok s r) (h2 : ∀ s', Ok s' (f s')) :
    Ok s (andThen r f) := by
  refine ⟨h1.1.trans (h2 r.1).1, bnd_append h1.2 ?_⟩
  exact (h2 r.1).2.of_F (fun v => (h1.1.F v).symm)

theorem Ok.seq {s : Srv} {r1 r2 : Res} (h1 : Ok s r1) (h2 : Ok r1.1 r2) : Ok s (r2.1, r1.2 ++ r2.2) :=
  ⟨h1.1.trans h2.1, bnd_append h1.2 (h2.2.of_F (fun v => (h1.1.F v).symm))⟩

theorem Ok.pre {s s0 : Srv} {r : Res} (h0 : Pres s0 s) (h : Ok s r) : Ok s0 r :=
  ⟨h0.trans h.1, h.2.of_F (fun v => (h0.F v).symm)⟩

theorem Ok.post {s : Srv} {r : Res} {s' : Srv} (h : Ok s r) (h1 : Pres r.1 s') : Ok s (s', r.2) :=
  ⟨h.1.trans h1, h.2⟩

theorem ok_sendWaiting (s : Srv) (u : Nat) : Ok s (sendWaiting s u) := by
  unfold sendWaiting
  dsimp only
  split
  · exact ok_sendChunk _ _ _
  · split
    · exact ok_sendChunk _ _ _
    · exact ok_refl s


/-! ### tunnel_tun, handle_full_packet, process_downstream_ack -/

theorem noData_raw (a : Addr) (b : List Nat) : NoData [Event.raw a b] :=
  noData_single_of (fun _ => rfl)

theorem noData_sendRaw (b : List Nat) (n u c : Nat) (q : Query) : NoData [sendRaw b n u c q] :=
  noData_single_of (fun _ => rfl)

theorem ok_tunnelTun (s : Srv) (frame : List Nat) : Ok s (tunnelTun s frame) := by
  unfold tunnelTun
  split
  · exact ok_refl s
  · split
    · exact ok_refl s
    · split
      · exact ok_refl s
      · dsimp only
        split
        · split
          · exact ok_noData (pres_saveToOutpacketq _ _ _ _) noData_nil
          · exact (ok_sendWaiting _ _).pre (pres_startNewOutpacket _ _ _ _)
        · exact ok_noData (Pres.refl s) (noData_sendRaw _ _ _ _ _)

theorem ok_deliverToUser (s : Srv) (t : Nat) (d : List Nat) (n : Nat) : Ok s (deliverToUser s t d n) := by
  unfold deliverToUser
  dsimp only
  split
  · split
    · exact (ok_sendWaiting _ _).pre (pres_startNewOutpacket _ _ _ _)
    · exact ok_noData (pres_saveToOutpacketq _ _ _ _) noData_nil
  · exact ok_noData (Pres.refl s) (noData_sendRaw _ _ _ _ _)

theorem ok_handleFullPacket (s : Srv) (u : Nat) : Ok s (handleFullPacket s u) := by
  unfold handleFullPacket
  dsimp only
  apply Ok.post (r := match uncompress (List.take (getUser s u).inpacket.len (getUser s u).inpacket.data) 65536 with
      | some out =>
        if out.length ≥ 4 + 20 then
          match findUserByIp s (ipDst out) with
          | none => (s, [writeTun out])
          | some t => deliverToUser s t (getUser s u).inpacket.data (getUser s u).inpacket.len
        else (s, [])
      | none => (s, []))
  · split
    · split
      · split
        · exact ok_noData (Pres.refl s) (noData_single_of (fun _ => rfl))
        · exact ok_deliverToUser _ _ _ _
      · exact ok_refl s
    · exact ok_refl s
  · exact pres_setUser_same _ _ _ (fun _ => rfl) (fun _ => rfl)

theorem pres_processDownstreamAck (s : Srv) (u : Nat) (a b : Int) : Pres s (processDownstreamAck s u a b) := by
  unfold processDownstreamAck
  dsimp only
  split
  · exact Pres.refl s
  · split
    · exact Pres.refl s
    · split
      · exact Pres.refl s
      · split
        · apply Pres.trans ?_ (pres_getFromOutpacketq _ _)
          apply Pres.set
          apply Pres.set
          exact Pres.refl s
          all_goals (intro _; rfl)
        · exact pres_setUser_same _ _ _ (fun _ => rfl) (fun _ => rfl)

end Iodine.C15L
