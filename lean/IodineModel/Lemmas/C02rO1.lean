import IodineModel.Lemmas.C02qO3
import IodineModel.Lemmas.C02qO5
/-
C02 / lazy mode, overlapping transfers, ENDINGS — server side: the LAST fragment of an upstream packet arrives while the
server holds NO query (`q.id = 0`, `qs.id = 0`) and HAS a downstream fragment in flight which the data query does not
acknowledge.  The upstream packet is written to tun; the new query is answered at once with the SAME downstream fragment
again (`outfragresent + 1`), its header acknowledging the last upstream fragment.
-/
namespace Iodine.C02L
open Iodine Iodine.Gen Iodine.Server Iodine.World

/-- the last fragment on a slot that holds no query and has a downstream fragment in flight which the query does not
acknowledge: stored, the packet handed on; the new query is answered at once by `send_chunk_or_dataless` -/
theorem dataSess_noq_last_out (x : Session) (u : Nat) (Q : Query) (h : UpHdr) (payload : List Nat) (now : Nat) (I : Packet)
    (hout : x.outpacket.len > 0) (hq : x.q.id = 0) (hqs : x.qs.id = 0) (hlast : h.last = true)
    (hstale : x.outpacket.seqno ≠ h.dnSeq ∨ x.outpacket.fragment ≠ h.dnFrag)
    (hup : dataUpstream x h.upSeq h.upFrag = ({ x with inpacket := I }, true)) :
    dataSess x u Q h payload now =
      ((scSess (saveQ (fullSess (stored x I payload)) Q now) u .q).1.1,
       fullEvs (stored x I payload) ++ (scSess (saveQ (fullSess (stored x I payload)) Q now) u .q).1.2) := by
  unfold dataSess
  rw [dataASess_accept_stale x h payload I hstale hup]
  simp only [hlast, and_self, if_true]
  have e1 : stepQsSess (fullSess (stored x I payload)) u = ((fullSess (stored x I payload), []), false) := by
    simp [stepQsSess, fullSess, stored, dataStore, hqs]
  rw [e1]
  simp only
  have e2 : stepQSess (fullSess (stored x I payload)) u true true false = ((fullSess (stored x I payload), []), false) := by
    unfold stepQSess
    rw [if_neg (by simp [fullSess, stored, dataStore, hq])]
  rw [e2]
  simp only
  have e3 : stepFinalSess (saveQ (fullSess (stored x I payload)) Q now) u true true false =
      (scSess (saveQ (fullSess (stored x I payload)) Q now) u .q).1 := by
    unfold stepFinalSess
    rw [if_pos ⟨by simpa [saveQ, fullSess, stored, dataStore] using hout, by simp⟩]
  rw [e3]
  simp

theorem srv_recv_last_noq_out {P : Par} (hP : P.Ok) {s : Srv} (hS : SStat P s) (hp : PingSrvL P s)
    {outD : List Nat} {sqd : Int} {od D fd : Nat}
    (hop : (getUser s P.u).outpacket = ⟨outD.length, D, od, outD, sqd, (fd : Int)⟩)
    (hD : 0 < D) (hDdef : D = downLen (getUser s P.u).fragsize (outD.length - od)) (hle : od + D ≤ outD.length)
    (hnd : D < outD.length) (hfd : fd < 16) (hsqd : 0 ≤ sqd ∧ sqd < 8)
    {k sd : Nat} (hk : k < 36) (hA : Aged P (getUser s P.u) k 1) (hPA : PAged P (getUser s P.u) sd 1)
    {Q : Query} {sq fr : Nat} {dsq dfr : Int} {frame : List Nat} {o m : Nat}
    (hQ : UpQ P Q ⟨sq, fr, dsq, dfr, true⟩ k (((0x5a :: frame).drop o).take m))
    (hstale : dsq ≠ sqd ∨ dfr ≠ (fd : Int))
    (hE : Expect (getUser s P.u) (0x5a :: frame) sq o fr) (hsq : sq < 8) (hfr : fr < 16)
    (hm : o + m = (0x5a :: frame).length) (h64 : (0x5a :: frame).length ≤ 65536) (h24 : 24 ≤ frame.length)
    (hdst : ipDst frame ≠ (getUser s P.u).tunIp) :
    ∃ s' evs t pkt, iteration s (.q Q) s.now = (s', evs, t) ∧
      downOfEvents evs = [.ans Q.id Q.type Q.name pkt] ∧ tunOfSEvents evs = [[0, 0, 8, 0] ++ frame.drop 4] ∧
      SStat P s' ∧ (getUser s' P.u).q.id = 0 ∧ (getUser s' P.u).qs.id = 0 ∧ (getUser s' P.u).lazy = true ∧
      (getUser s' P.u).oqFilled = 0 ∧ (getUser s' P.u).outfragresent = (getUser s P.u).outfragresent + 1 ∧
      (getUser s' P.u).outpacket = (getUser s P.u).outpacket ∧
      (getUser s' P.u).inpacket.seqno = (sq : Int) ∧ (getUser s' P.u).inpacket.fragment = (fr : Int) ∧
      (getUser s' P.u).tunIp = (getUser s P.u).tunIp ∧ (getUser s' P.u).fragsize = (getUser s P.u).fragsize ∧ s'.now = s.now ∧
      FragPkt pkt outD sqd od D fd (decide (outD.length > 0 ∧ outD.length = od + D)) ∧
      (Client.decodeHdr pkt).upSeq = (sq : Int) ∧ (Client.decodeHdr pkt).upFrag = (fr : Int) ∧
      Aged P (getUser s' P.u) ((k + 1) % 36) 1 ∧ PAged P (getUser s' P.u) sd 1 := by
  obtain ⟨dlen, hdl, h6, hparse, hpl⟩ := hQ.parse
  have htop := topSess_live hS
  have hu := hS.solo.lt
  have hF := hA.fresh hk (by omega)
  -- the slot at the top of the loop
  generalize hx0 : ({ getUser s P.u with qsNew := false } : Session) = x0 at htop
  have hx0s : XStat P x0 := by subst hx0; exact ⟨hS.x.active, hS.x.auth, hS.x.enabled, hS.x.conn, hS.x.enc, hS.x.oseq, hS.x.ofrag, hS.x.iseq, hS.x.ifrag⟩
  have hx0o : x0.outpacket = (getUser s P.u).outpacket := by subst hx0; rfl
  have hx0op : x0.outpacket = ⟨outD.length, D, od, outD, sqd, (fd : Int)⟩ := hx0o.trans hop
  have hx0out : x0.outpacket.len > 0 := by rw [hx0op]; show 0 < outD.length; omega
  have hx0q : x0.q.id = 0 := by subst hx0; exact hp.q
  have hx0qs : x0.qs.id = 0 := by subst hx0; exact hp.qs
  have hx0lz : x0.lazy = true := by subst hx0; exact hp.lz
  have hx0oq : x0.oqFilled = 0 := by subst hx0; exact hp.oq
  have hx0res : x0.outfragresent = (getUser s P.u).outfragresent := by subst hx0; rfl
  have hx0f : Fresh P x0 k (0 + 1) := by subst hx0; exact ⟨hF.cache, hF.qmem⟩
  have hx0e : Expect x0 (0x5a :: frame) sq o fr := by subst hx0; exact hE
  have hx0h : x0.host = (getUser s P.u).host := by subst hx0; rfl
  have hx0t : x0.tunIp = (getUser s P.u).tunIp := by subst hx0; rfl
  have hx0fs : x0.fragsize = (getUser s P.u).fragsize := by subst hx0; rfl
  have hx0A : Aged P x0 ((k + 1) % 36) 2 := by subst hx0; exact (hA.step hk (by omega)).congr rfl rfl rfl rfl
  have hx0PA : PAged P x0 sd 1 := by subst hx0; exact hPA.congr rfl rfl rfl rfl
  have hx0st : x0.outpacket.seqno ≠ dsq ∨ x0.outpacket.fragment ≠ dfr := by
    rw [hx0op]
    rcases hstale with h | h
    · exact Or.inl (fun hc => h hc.symm)
    · exact Or.inr (fun hc => h hc.symm)
  obtain ⟨I, hup, hI⟩ := accept_of_expect hx0e hx0s.iseq
  obtain ⟨e1, e2, e3, e4, e5, _⟩ := expect_stored hP (sq := sq) (f := fr) hx0s.enc _ hpl hI (Nat.le_of_eq hm) h64
  generalize hst : stored x0 I ((Q.name.take (min dlen 512)).drop 5) = st at e1 e2 e3 e4 e5
  have hstc : core st = core { x0 with inpacket := st.inpacket } := by
    subst hst; unfold stored dataStore; rfl
  have hun : uncompress (st.inpacket.data.take st.inpacket.len) 65536 = some frame := by
    rw [e5, e4, hm, List.take_take, Nat.min_self, List.take_length]
    exact uncompress_compress frame (by simp at h64; omega)
  have hit := iteration_data hS.solo Q s.now dlen hP.hu (by rw [hS.td]; exact hdl) h6 hQ.c0 (hQ.ty ▸ hP.tty) hQ.id
    (admitted_entry hS Q hQ.from_)
    (by rw [htop]; exact hx0f.cacheMiss Q hQ.ty hQ.c0 hQ.c4 hk)
    (by rw [htop]; exact hx0f.qmemMiss Q hQ.ty hQ.c4 hk)
    (by rw [htop]; exact Or.inl hx0q) (by rw [htop]; exact Or.inl hx0qs)
    (by
      rw [htop, hparse]
      intro _
      rw [dataASess_accept_stale x0 _ _ I hx0st hup, hst]
      intro ⟨out', h1, _, _, _, _, _, h7⟩
      rw [hun] at h1
      have : out' = frame := (Option.some.inj h1).symm
      subst this
      have : st.tunIp = x0.tunIp := by have h9 := core_tunIp hstc; exact h9
      rw [this, hx0t] at h7
      exact hdst h7)
  rw [htop, hparse, dataSess_noq_last_out x0 P.u Q _ _ s.now I hx0out hx0q hx0qs rfl hx0st hup, hst] at hit
  have hfe : fullEvs st = [writeTun frame] := by
    unfold fullEvs
    rw [hun]
    simp only
    rw [if_pos (by omega)]
  rw [hfe] at hit
  have hstA : Aged P st ((k + 1) % 36) 2 := by subst hst; exact hx0A.congr rfl rfl rfl rfl
  have hstPA : PAged P st sd 1 := by subst hst; exact hx0PA.congr rfl rfl rfl rfl
  -- the slot `send_chunk_or_dataless` works on
  generalize hy : saveQ (fullSess st) Q s.now = y at hit
  have hyc : core y = core { x0 with inpacket := { st.inpacket with len := 0, offset := 0 }, q := Q, lastPkt := s.now } := by
    subst hy
    have := hstc
    unfold core at this ⊢
    unfold saveQ fullSess
    simp only [Session.mk.injEq] at this ⊢
    simp [this]
  have hyo : y.outpacket = ⟨outD.length, D, od, outD, sqd, (fd : Int)⟩ := by
    have h9 := core_outpacket hyc; exact h9.trans hx0op
  have hyq : y.q = Q := by have h9 := core_q hyc; exact h9
  have hyoq : y.oqFilled = 0 := by have h9 := core_oqFilled hyc; exact h9.trans hx0oq
  have hyres : y.outfragresent = x0.outfragresent := by have h9 := core_outfragresent hyc; exact h9
  have hyfs : y.fragsize = x0.fragsize := by have h9 := core_fragsize hyc; exact h9
  have hyin : y.inpacket = { st.inpacket with len := 0, offset := 0 } := by have h9 := core_inpacket hyc; exact h9
  have hyA : Aged P y ((k + 1) % 36) 2 := by subst hy; exact hstA.congr rfl rfl rfl rfl
  have hyPA : PAged P y sd 1 := by subst hy; exact hstPA.congr rfl rfl rfl rfl
  have hDy : scDatalen y = D := by
    unfold scDatalen
    rw [hyo, hyfs, hx0fs]
    simp only
    rw [if_pos (by omega), hDdef]
    rfl
  have hsd := scSess_data y P.u .q (by rw [hyo]; show 0 < outD.length; omega)
    (by rw [hyres, hx0res]; have := hp.res; omega) (by show y.q.id2 = 0; rw [hyq]; exact hQ.id2) hyoq
  rw [hDy] at hsd
  have hnw : ¬ (D > 0 ∧ D = y.outpacket.len) := by rw [hyo]; intro h; have := h.2; simp at this; omega
  rw [if_neg hnw] at hsd
  rw [hsd] at hit
  simp only at hit
  have hgetq : QSel.q.get y = Q := hyq
  rw [hgetq] at hit
  -- the slot with the send noted
  generalize hz : prepOut y = z at hit
  have hzc : core z = core { y with outfragresent := y.outfragresent + 1 } := by
    subst hz
    unfold prepOut
    rw [hDy]
    have : ({ y.outpacket with sentlen := D } : Packet) = y.outpacket := by rw [hyo]
    rw [this]
  have hzA : Aged P z ((k + 1) % 36) 2 := by subst hz; exact hyA.congr rfl rfl rfl rfl
  have hzPA : PAged P z sd 1 := by subst hz; exact hyPA.congr rfl rfl rfl rfl
  have hzo : z.outpacket = ⟨outD.length, D, od, outD, sqd, (fd : Int)⟩ := by
    have h9 := core_outpacket hzc; exact h9.trans hyo
  have hzin : z.inpacket = { st.inpacket with len := 0, offset := 0 } := by have h9 := core_inpacket hzc; exact h9.trans hyin
  have hplen : (scPkt z D).length ≤ DNSCACHE_ANSWER_SIZE := by
    have h1 := scPkt_length z D
    have : D ≤ 4094 := by rw [hDdef]; unfold downLen; omega
    simp only [DNSCACHE_ANSWER_SIZE]; rw [h1]; omega
  have hAm := hzA.memo Q (scPkt z D) hplen k 1 ⟨by omega, by omega⟩ (behind_next k hk) hk hQ.c4 hQ.len5
    (by rw [hQ.c0]; exact hexLower_ne_p hP.hu)
  have hPm := hzPA.memo_data hP.hu Q (scPkt z D) hplen hQ.len5 hQ.c0
  have hans : answered y .q = { cacheUpd (qmemUpd z Q) Q (scPkt z D) with q := { Q with id := 0 } } := by
    unfold answered
    rw [hDy, hz, hgetq]
    rfl
  rw [hans] at hit
  generalize hY : ({ cacheUpd (qmemUpd z Q) Q (scPkt z D) with q := { Q with id := 0 } } : Session) = Y at hit
  have hYA : Aged P Y ((k + 1) % 36) 1 := by subst hY; exact hAm.congr rfl rfl rfl rfl
  have hYPA : PAged P Y sd 1 := by subst hY; exact hPm.congr rfl rfl rfl rfl
  have hYc : core Y = core { x0 with
      inpacket := { st.inpacket with len := 0, offset := 0 }, q := { Q with id := 0 }, lastPkt := s.now, outfragresent := x0.outfragresent + 1 } := by
    subst hY
    have h1 := core_memo z Q (scPkt z D)
    have h2 := hzc
    have h3 := hyc
    rw [hyres] at h2
    unfold core at h1 h2 h3 ⊢
    simp only [Session.mk.injEq] at h1 h2 h3 ⊢
    simp [h1, h2, h3]
  have fA : Y.active = x0.active := by have h9 := core_active hYc; exact h9
  have fB : Y.authenticated = x0.authenticated := by have h9 := core_authenticated hYc; exact h9
  have fC : Y.disabled = x0.disabled := by have h9 := core_disabled hYc; exact h9
  have fD : Y.conn = x0.conn := by have h9 := core_conn hYc; exact h9
  have fE : Y.encoder = x0.encoder := by have h9 := core_encoder hYc; exact h9
  have fF : Y.outpacket = x0.outpacket := by have h9 := core_outpacket hYc; exact h9
  have fG : Y.inpacket = { st.inpacket with len := 0, offset := 0 } := by have h9 := core_inpacket hYc; exact h9
  have fH : Y.q = { Q with id := 0 } := by have h9 := core_q hYc; exact h9
  have fI : Y.qs = x0.qs := by have h9 := core_qs hYc; exact h9
  have fJ : Y.lazy = x0.lazy := by have h9 := core_lazy hYc; exact h9
  have fK : Y.host = x0.host := by have h9 := core_host hYc; exact h9
  have fL : Y.lastPkt = s.now := by have h9 := core_lastPkt hYc; exact h9
  have fQ : Y.oqFilled = x0.oqFilled := by have h9 := core_oqFilled hYc; exact h9
  have fT : Y.tunIp = x0.tunIp := by have h9 := core_tunIp hYc; exact h9
  have fS : Y.fragsize = x0.fragsize := by have h9 := core_fragsize hYc; exact h9
  have fR : Y.outfragresent = x0.outfragresent + 1 := by have h9 := core_outfragresent hYc; exact h9
  -- the sweep does nothing: no query is parked
  have hsw : sweepSess Y P.u s.now = (Y, []) := by
    unfold sweepSess
    rw [if_neg (by intro hc; apply hc.2.1; rw [fI]; exact hx0qs)]
  rw [hsw] at hit
  dsimp only at hit
  have hg : getUser { putUser s P.u Y with now := s.now } P.u = Y := by
    rw [getUser_withNow, getUser_putUser_self _ _ _ hu]
  have hz1 : 0 ≤ z.inpacket.seqno ∧ z.inpacket.seqno < 8 := by rw [hzin, e1]; omega
  have hz2 : 0 ≤ z.inpacket.fragment ∧ z.inpacket.fragment < 16 := by rw [hzin, e2]; omega
  have hdec := decodeHdr_scPkt z D hz1 hz2 (by rw [hzo]; exact hsqd) (by rw [hzo]; show (0 : Int) ≤ fd ∧ (fd : Int) < 16; omega)
  refine ⟨_, _, _, scPkt z D, hit, ?_, ?_, ?_, ?_, ?_, ?_, ?_, ?_, ?_, ?_, ?_, ?_, ?_, rfl, ?_, ?_, ?_, ?_, ?_⟩
  · simp only [List.append_nil, downOfEvents_append, downOfEvents_sweep, downOfEvents_writeDns _ _ _ _ hQ.from_]
    rfl
  · simp only [List.append_nil, tunOfSEvents_append, tunOfSEvents_writeDns, tunOfSEvents_sweep]
    rfl
  · refine ⟨(hS.solo.putUser Y).withNow _, hS.td, ?_, ?_, ?_⟩
    · rw [hg]
      refine ⟨fA ▸ hx0s.active, fB ▸ hx0s.auth, fC ▸ hx0s.enabled, fD ▸ hx0s.conn, fE ▸ hx0s.enc, fF ▸ hx0s.oseq, fF ▸ hx0s.ofrag, ?_, ?_⟩
      · rw [fG, e1]; omega
      · rw [fG, e2]; omega
    · rw [hg, fK, hx0h]; exact hS.host
    · rw [hg, fL]; show s.now < s.now + 60; omega
  · rw [hg, fH]
  · rw [hg, fI]; exact hx0qs
  · rw [hg, fJ]; exact hx0lz
  · rw [hg, fQ]; exact hx0oq
  · rw [hg, fR, hx0res]
  · rw [hg, fF, hx0o]
  · rw [hg, fG]; exact e1
  · rw [hg, fG]; exact e2
  · rw [hg, fT, hx0t]
  · rw [hg, fS, hx0fs]
  · exact fragPkt_of z outD sqd od D fd hzo hle hsqd hfd hz1 hz2
  · rw [hdec]; show z.inpacket.seqno = _; rw [hzin, e1]
  · rw [hdec]; show z.inpacket.fragment = _; rw [hzin, e2]
  · rw [hg]; exact hYA
  · rw [hg]; exact hYPA


#print axioms srv_recv_last_noq_out

end Iodine.C02L
