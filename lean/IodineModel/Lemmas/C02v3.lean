import IodineModel.Lemmas.C02p
import IodineModel.Lemmas.C02v1
import IodineModel.Lemmas.C02v2
/-
The vocabulary of the clean-path proofs: parameters of a session, the static facts about client and server that hold
throughout a run, and the freshness of the server's duplicate memories with respect to the data-CMC characters the client
is going to use next.
-/
namespace Iodine.C02L
open Iodine Iodine.Gen Iodine.World

/-- parameters of a session -/
structure Par where
  u : Nat                 -- user id = slot
  td : List Nat           -- tunnel domain
  L : Nat                 -- host name limit (`-M`)
  ec : Client.Enc         -- upstream codec, client's view
  es : Server.Enc         -- … server's view
  ty : Nat                -- query type

def encMatch : Client.Enc → Server.Enc → Prop
  | .b32, .b32 | .b64, .b64 | .b64u, .b64u | .b128, .b128 => True
  | _, _ => False

theorem codec_of_encMatch {a : Client.Enc} {b : Server.Enc} (h : encMatch a b) : b.codec = a.codec := by
  cases a <;> cases b <;> first | rfl | exact absurd h (by simp [encMatch])

structure Par.Ok (P : Par) : Prop where
  hu : P.u < 16
  set : UpSetting P.ec.codec P.L P.td
  enc : encMatch P.ec P.es
  tty : TunnelType P.ty

theorem tunnelType_lt {ty : Nat} (h : TunnelType ty) : ty < 65536 := by
  unfold TunnelType at h
  rcases h with h | h | h | h | h | h | h <;> subst h <;> decide

/-- what stays true of the client during a run in immediate mode -/
structure CStat (P : Par) (c : Client.Cli) : Prop where
  running : c.running = true
  conn : c.conn = .dnsNull
  imm : c.lazymode = false
  uid : c.userid = (P.u : Int)
  uch : c.useridChar = hexLower P.u
  td : c.topdomain = P.td
  L : c.hostnameMaxlen = (P.L : Int)
  enc : c.dataenc = P.ec
  ty : c.doQtype = P.ty
  cid : c.chunkid < 65536
  cmc : c.datacmc < 36
  alive : ¬ c.lastdownstreamtime + 60 < c.now
  oseq : 0 ≤ c.outpkt.seqno ∧ c.outpkt.seqno < 8
  iseq : 0 ≤ c.inpkt.seqno ∧ c.inpkt.seqno < 8
  ifrag : 0 ≤ c.inpkt.fragment ∧ c.inpkt.fragment < 16
  seed : c.randSeed < 65536

/-- what stays true of the server's slot -/
structure XStat (P : Par) (x : Server.Session) : Prop where
  active : x.active = true
  auth : x.authenticated = true
  enabled : x.disabled = false
  conn : x.conn = .dnsNull
  enc : x.encoder = P.es
  oseq : 0 ≤ x.outpacket.seqno ∧ x.outpacket.seqno < 8
  ofrag : 0 ≤ x.outpacket.fragment ∧ x.outpacket.fragment < 16
  iseq : 0 ≤ x.inpacket.seqno ∧ x.inpacket.seqno < 8
  ifrag : 0 ≤ x.inpacket.fragment ∧ x.inpacket.fragment < 16

/-- … and of the server -/
structure SStat (P : Par) (s : Server.Srv) : Prop where
  solo : Solo P.u s
  td : s.cfg.topdomain = P.td
  x : XStat P (Server.getUser s P.u)
  host : s.cfg.checkIp = false ∨ ((Server.getUser s P.u).host.fam = 4 ∧ (Server.getUser s P.u).host.ip = clientAddr.ip)
  live : s.now < (Server.getUser s P.u).lastPkt + 60

/-! ### freshness of the duplicate memories -/

/-- `ch` is one of the next `n` data-CMC characters when the counter is `k` -/
def InWin (k n ch : Nat) : Prop := ∃ i, i < n ∧ ch = cmcChar ((k + i) % 36)

/-- no remembered data query of this session and type carries one of the next `n` data-CMC characters -/
structure Fresh (P : Par) (x : Server.Session) (k n : Nat) : Prop where
  cache : ∀ e ∈ x.dnscache, e.q.type = P.ty → e.q.name.getD 0 0 = hexLower P.u → ¬ InWin k n (e.q.name.getD 4 0)
  qmem : ∀ e ∈ x.qmemdata, e.type = P.ty → ¬ InWin k n (e.cmc.getD 3 0)

theorem InWin.shrink {k n ch : Nat} (h : InWin ((k + 1) % 36) n ch) : InWin k (n + 1) ch := by
  obtain ⟨i, hi, he⟩ := h
  refine ⟨i + 1, by omega, ?_⟩
  rw [he]
  congr 1
  omega

theorem Fresh.mono {P : Par} {x : Server.Session} {k n m : Nat} (h : Fresh P x k n) (hm : m ≤ n) : Fresh P x k m :=
  ⟨fun e he h1 h2 ⟨i, hi, hc⟩ => h.cache e he h1 h2 ⟨i, by omega, hc⟩, fun e he h1 ⟨i, hi, hc⟩ => h.qmem e he h1 ⟨i, by omega, hc⟩⟩

theorem Fresh.next {P : Par} {x : Server.Session} {k n : Nat} (h : Fresh P x k (n + 1)) : Fresh P x ((k + 1) % 36) n :=
  ⟨fun e he h1 h2 hw => h.cache e he h1 h2 hw.shrink, fun e he h1 hw => h.qmem e he h1 hw.shrink⟩

/-- a fresh memory has no entry for a data query that carries the current data-CMC character -/
theorem Fresh.cacheMiss {P : Par} {x : Server.Session} {k n : Nat} (h : Fresh P x k (n + 1)) (q : Server.Query)
    (hty : q.type = P.ty) (h0 : q.name.getD 0 0 = hexLower P.u) (h4 : q.name.getD 4 0 = cmcChar k) (hk : k < 36) :
    CacheMiss x q := by
  intro e he ⟨_, _, h3, h5⟩
  apply h.cache e he (h3.trans hty) (by rw [h5]; exact h0)
  refine ⟨0, by omega, ?_⟩
  rw [h5, h4]
  congr 1
  omega

end Iodine.C02L
