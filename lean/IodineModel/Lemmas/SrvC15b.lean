import IodineModel.Lemmas.SrvC15a
/-
Helper lemmas for property C15, part b: the request handlers, `tunnel_dns`, raw mode, the loop: fragment
sizes change only in `handleSetFragsize` / `handleVersion`, the cache invariant is preserved, data answers
respect the fragment size.
-/
namespace Iodine.C15L
open Iodine Iodine.Server Iodine.Gen

theorem ok_seq3 {s : Srv} {r1 r2 r3 : Res} (h1 : Ok s r1) (h2 : Ok r1.1 r2) (h3 : Ok r2.1 r3) :
    Ok s (r3.1, r1.2 ++ r2.2 ++ r3.2) := by
  have := (h1.seq h2).seq h3
  exact this

theorem ok_seq4 {s : Srv} {r1 r2 r3 r4 : Res} (h1 : Ok s r1) (h2 : Ok r1.1 r2) (h3 : Ok r2.1 r3) (h4 : Ok r3.1 r4) :
    Ok s (r4.1, r1.2 ++ r2.2 ++ r3.2 ++ r4.2) := by
  have := ((h1.seq h2).seq h3).seq h4
  exact this

/-! ### handlers that keep every fragment size -/

theorem ok_handleLogin (s : Srv) (q : Query) (inb : List Nat) : Ok s (handleLogin s q inb) := by
  unfold handleLogin
  dsimp only
  split
  · exact ok_ctrl _ _ _ _
  · split
    · exact ok_ctrl _ _ _ _
    · split
      · refine ok_noData ?_ (noData_single_ctrl _ _ _)
        apply Pres.set
        apply Pres.set
        exact Pres.refl s
        all_goals (intro _; rfl)
      · refine ok_noData ?_ (noData_single_ctrl _ _ _)
        apply Pres.set
        exact Pres.refl s
        all_goals (intro _; rfl)

theorem ok_handleIp (s : Srv) (q : Query) (inb : List Nat) : Ok s (handleIp s q inb) := by
  unfold handleIp
  dsimp only
  split <;> exact ok_ctrl _ _ _ _

theorem ok_handleZ (s : Srv) (q : Query) (inb : List Nat) : Ok s (handleZ s q inb) := ok_ctrl _ _ _ _

theorem ok_handleSwitchCodec (s : Srv) (q : Query) (dlen : Nat) (inb : List Nat) :
    Ok s (handleSwitchCodec s q dlen inb) := by
  unfold handleSwitchCodec
  split
  · exact ok_ctrl _ _ _ _
  · extract_lets userid u dn codec sw
    have h1 : ∀ e, Ok s (sw e) := fun e => ok_noData (pres_userSwitchCodec s u e) (noData_single_ctrl _ _ _)
    clear_value sw
    split
    · exact ok_ctrl _ _ _ _
    · repeat' split
      all_goals first
        | exact h1 _
        | exact ok_ctrl _ _ _ _

theorem ok_handleOptions (s : Srv) (q : Query) (dlen : Nat) (inb : List Nat) :
    Ok s (handleOptions s q dlen inb) := by
  unfold handleOptions
  split
  · exact ok_ctrl _ _ _ _
  · extract_lets userid u c setDn setLazy
    have h1 : ∀ d m, Ok s (setDn d m) := fun d m =>
      ok_noData (pres_setUser_same s u _ (fun _ => rfl) (fun _ => rfl)) (noData_single_ctrl _ _ _)
    have h2 : ∀ l m, Ok s (setLazy l m) := fun l m =>
      ok_noData (pres_setUser_same s u _ (fun _ => rfl) (fun _ => rfl)) (noData_single_ctrl _ _ _)
    clear_value setDn setLazy
    split
    · exact ok_ctrl _ _ _ _
    · repeat' split
      all_goals first
        | exact h1 _ _
        | exact h2 _ _
        | exact ok_ctrl _ _ _ _

theorem ok_handleDownCodecCheck (s : Srv) (q : Query) (dlen : Nat) (inb : List Nat) :
    Ok s (handleDownCodecCheck s q dlen inb) := by
  unfold handleDownCodecCheck
  dsimp only
  split
  · exact ok_ctrl _ _ _ _
  · split
    · exact ok_ctrl _ _ _ _
    · split <;> exact ok_ctrl _ _ _ _

theorem pres_popRand (s : Srv) : Pres s (popRand s).2 := by
  unfold popRand
  split
  · exact Pres.refl s
  · exact pres_of_users rfl rfl

theorem ok_handleFragsizeProbe (s : Srv) (q : Query) (dlen : Nat) (inb : List Nat) :
    Ok s (handleFragsizeProbe s q dlen inb) := by
  unfold handleFragsizeProbe
  dsimp only
  split
  · exact ok_ctrl _ _ _ _
  · split
    · exact ok_ctrl _ _ _ _
    · split
      · exact ok_ctrl _ _ _ _
      · exact ok_noData (pres_popRand s) (noData_single_ctrl _ _ _)

theorem pres_rememberDuplicate (s s' : Srv) (u : Nat) (q : Query) (h : rememberDuplicate s u q = some s') :
    Pres s s' := by
  unfold rememberDuplicate at h
  dsimp only at h
  split at h
  · cases h
    exact pres_setUser_same _ _ _ (fun _ => rfl) (fun _ => rfl)
  · split at h
    · cases h
      exact pres_setUser_same _ _ _ (fun _ => rfl) (fun _ => rfl)
    · cases h

theorem pres_saveQuery (s : Srv) (u : Nat) (q : Query) : Pres s (saveQuery s u q) :=
  pres_setUser_same _ _ _ (fun _ => rfl) (fun _ => rfl)

theorem getD_mem_or {α} (l : List α) (i : Nat) (d : α) : l.getD i d ∈ l ∨ l.getD i d = d := by
  rw [List.getD_eq_getElem?_getD]
  cases hg : l[i]? with
  | none => right; rfl
  | some e => left; exact List.mem_of_getElem? hg

/-- what the cache lookup returns is a cache entry -/
theorem dnscacheFind_mem (x : Session) (q : Query) (e : DnsCacheEntry) :
    ∀ n i, dnscacheFind x q n i = some e → e ∈ x.dnscache ∨ e = DnsCacheEntry.zero := by
  intro n
  induction n with
  | zero => intro i h; simp [dnscacheFind] at h
  | succ n ih =>
    intro i h
    unfold dnscacheFind at h
    dsimp only at h
    generalize (if x.dcLast < i then x.dcLast + DNSCACHE_LEN - i else x.dcLast - i) = use at h
    split at h
    · exact ih _ h
    · split at h
      · exact ih _ h
      · split at h
        · exact ih _ h
        · cases h
          exact getD_mem_or _ _ _

/-- a cached answer respects the fragment size when the cache invariant holds -/
theorem bnd_answerFromDnscache (s : Srv) (u : Nat) (q : Query) (e : Event) (hi : Inv s)
    (h : answerFromDnscache s u q = some e) : Bnd s [e] := by
  unfold answerFromDnscache at h
  dsimp only at h
  split at h
  · rename_i c hc
    cases h
    intro e' he v d hd
    simp only [List.mem_singleton] at he
    subst he
    simp only [writeDns, dataFor] at hd
    split at hd
    · rename_i ht
      have : v = u := by
        rcases ht with ht | ht | ht <;> first | (injection ht with ht; exact ht.symm) | cases ht
      subst this
      cases hd
      have hlen : (List.take c.answerlen c.answer).length ≤ c.answerlen := by
        simp only [List.length_take]; omega
      rcases dnscacheFind_mem _ _ _ _ _ hc with hm | hz
      · have := hi v c hm
        unfold EntryOK at this
        unfold F
        omega
      · subst hz
        simp [DnsCacheEntry.zero]
    · cases hd
  · cases h

theorem noData_answerFromQmem (q : Query) (mem : List QmemEntry) (cmc : List Nat) (u : Nat) (e : Event)
    (h : answerFromQmem q mem cmc u = some e) : NoData [e] := by
  unfold answerFromQmem at h
  split at h
  · cases h
    exact noData_single_of (fun _ => by simp)
  · cases h


/-! ### ping and data -/

theorem ok_pingFresh (s : Srv) (u : Nat) (q : Query) (unpacked : List Nat) : Ok s (pingFresh s u q unpacked) := by
  unfold pingFresh
  extract_lets b s1 r1 t r2 didsend s3 x r3
  have h1 : Pres s s1 := pres_processDownstreamAck _ _ _ _
  have hr1 : Ok s1 r1 := by
    unfold r1
    split
    · exact ok_sendChunk s1 u .qs
    · exact ok_refl s1
  have ht : Ok r1.1 t.1 := ok_sendChunk r1.1 u .q
  have hr2 : Ok r1.1 r2.1 := by
    unfold r2
    split
    · dsimp only
      exact ht
    · exact ok_refl r1.1
  have hr3 : Ok r2.1.1 r3 := by
    apply Ok.pre (pres_saveQuery r2.1.1 u q)
    unfold r3
    split
    · exact ok_sendChunk s3 u .q
    · exact ok_refl s3
  exact (ok_seq3 hr1 hr2 hr3).pre h1

theorem ok_handlePing (s : Srv) (q : Query) (inb : List Nat) (hi : Inv s) : Ok s (handlePing s q inb) := by
  unfold handlePing
  split
  · exact ok_refl s
  · extract_lets unpacked userid u
    split
    · exact ok_refl s
    · split
      · exact ok_ctrl _ _ _ _
      · split
        · rename_i e he
          exact ⟨Pres.refl s, bnd_answerFromDnscache s u q e hi he⟩
        · split
          · rename_i e he
            exact ok_noData (Pres.refl s) (noData_answerFromQmem _ _ _ _ _ he)
          · split
            · rename_i s' hs
              exact ok_noData (pres_rememberDuplicate _ _ _ _ hs) noData_nil
            · exact ok_pingFresh _ _ _ _

theorem ok_dataStepQs (s : Srv) (u : Nat) : Ok s (dataStepQs s u).1 := by
  unfold dataStepQs
  split
  · dsimp only
    exact ok_sendChunk s u .qs
  · exact ok_refl s

theorem ok_dataStepQ (s : Srv) (u : Nat) (a b c : Bool) : Ok s (dataStepQ s u a b c).1 := by
  unfold dataStepQ
  extract_lets x
  split
  · split
    · dsimp only
      exact ok_sendChunk s u .q
    · exact ok_noData (pres_setUser_same _ _ _ (fun _ => rfl) (fun _ => rfl)) noData_nil
  · exact ok_refl s

theorem ok_dataStepFinal (s : Srv) (u : Nat) (a b c : Bool) : Ok s (dataStepFinal s u a b c) := by
  unfold dataStepFinal
  extract_lets x
  split
  · exact ok_sendChunk _ _ _
  · split
    · split
      · exact ok_noData (pres_setUser_same _ _ _ (fun _ => rfl) (fun _ => rfl)) noData_nil
      · exact ok_sendChunk _ _ _
    · exact ok_refl s

theorem keep_dataUpstream (x : Session) (a b : Nat) : Keep x (dataUpstream x a b).1 := by
  unfold dataUpstream
  repeat' split
  all_goals exact keep_of_same rfl rfl

theorem keep_dataStore (x : Session) (p : List Nat) : Keep x (dataStore x p) := keep_of_same rfl rfl

theorem ok_dataFresh (s : Srv) (u : Nat) (q : Query) (inb : List Nat) : Ok s (dataFresh s u q inb) := by
  unfold dataFresh
  extract_lets b1 b2 b3 upSeq upFrag dnSeq dnFrag lastfrag s1 up upstreamOk s2 r3 r4 r5 s6 r7
  have h1 : Pres s s1 := pres_processDownstreamAck _ _ _ _
  have h2 : Pres s1 s2 := by
    apply pres_setUser
    split
    · exact (keep_dataUpstream _ _ _).trans (keep_dataStore _ _)
    · exact keep_dataUpstream _ _ _
  have hr3 : Ok s2 r3 := by
    unfold r3
    split
    · exact ok_handleFullPacket _ _
    · exact ok_refl _
  have hr4 : Ok r3.1 r4.1 := ok_dataStepQs _ _
  have hr5 : Ok r4.1.1 r5.1 := ok_dataStepQ _ _ _ _ _
  have hr7 : Ok r5.1.1 r7 := (ok_dataStepFinal _ _ _ _ _).pre (pres_saveQuery _ _ _)
  exact (ok_seq4 hr3 hr4 hr5 hr7).pre (h1.trans h2)

theorem ok_handleData (s : Srv) (q : Query) (dlen : Nat) (inb : List Nat) (hi : Inv s) :
    Ok s (handleData s q dlen inb) := by
  unfold handleData
  split
  · exact ok_refl s
  · split
    · exact ok_refl s
    · extract_lets userid u
      split
      · exact ok_ctrl _ _ _ _
      · split
        · rename_i e he
          exact ⟨Pres.refl s, bnd_answerFromDnscache s u q e hi he⟩
        · split
          · rename_i e he
            exact ok_noData (Pres.refl s) (noData_answerFromQmem _ _ _ _ _ he)
          · split
            · rename_i s' hs
              exact ok_noData (pres_rememberDuplicate _ _ _ _ hs) noData_nil
            · exact ok_dataFresh _ _ _ _


/-! ### the two handlers that change a fragment size -/

/-- what every handler guarantees (fragment sizes may change) -/
structure Ok2 (s : Srv) (r : Res) : Prop where
  cfg : r.1.cfg = s.cfg
  len : r.1.users.length = s.users.length
  inv : Inv s → Inv r.1
  bnd : Bnd r.1 r.2

theorem Ok.ok2 {s : Srv} {r : Res} (h : Ok s r) : Ok2 s r :=
  ⟨h.1.1, h.1.2.1, h.1.inv, h.2.of_F (fun v => h.1.F v)⟩

theorem getUser_popRand (s : Srv) (v : Nat) : getUser (popRand s).2 v = getUser s v := by
  unfold popRand
  split <;> rfl

theorem popRand_cfg (s : Srv) : (popRand s).2.cfg = s.cfg := by
  unfold popRand
  split <;> rfl

theorem popRand_length (s : Srv) : (popRand s).2.users.length = s.users.length := by
  unfold popRand
  split <;> rfl

theorem findAvailableUser_some (s s1 : Srv) (u : Nat) (h : findAvailableUser s = (some u, s1)) :
    s1 = setUser s u (claim s.now) := by
  unfold findAvailableUser at h
  split at h
  · injection h with h1 h2
    injection h1 with h1
    subst h1
    exact h2.symm
  · injection h with h1 h2
    cases h1

theorem findAvailableUser_none (s s1 : Srv) (h : findAvailableUser s = (none, s1)) : s1 = s := by
  unfold findAvailableUser at h
  split at h
  · injection h with h1 h2
    cases h1
  · injection h with h1 h2
    exact h2.symm

theorem cacheOK_resetSession (x : Session) : CacheOK (resetSession x) := by
  intro e he
  simp only [resetSession, clearDnscache, List.mem_map] at he
  obtain ⟨e0, _, rfl⟩ := he
  refine ⟨Nat.zero_le _, Nat.zero_le _, fun h => absurd rfl h⟩

/-- state after an accepted `V` for slot `u`: only slot `u` changed, it has fragment size 100 and an empty cache -/
theorem handleVersion_state (s : Srv) (u seed : Nat) (q : Query) (v : Nat) :
    let s1 := setUser s u (claim s.now)
    let r := popRand s1
    let s2 := setUser r.2 u fun x => { x with seed := seed, host := q.from_, q := q, encoder := .b32, downenc := chT }
    getUser (setUser s2 u resetSession) v =
      if v = u ∧ u < s.users.length then
        resetSession ({ claim s.now (getUser s u) with seed := seed, host := q.from_, q := q, encoder := .b32, downenc := chT })
      else getUser s v := by
  intro s1 r s2
  have hl1 : s1.users.length = s.users.length := setUser_length _ _ _
  have hlr : r.2.users.length = s.users.length := by rw [popRand_length]; exact hl1
  have hl2 : s2.users.length = s.users.length := by rw [setUser_length]; exact hlr
  rw [getUser_setUser, hl2]
  split
  · rename_i h
    rw [getUser_setUser, hlr, if_pos ⟨rfl, h.2⟩, getUser_popRand, getUser_setUser, if_pos ⟨rfl, h.2⟩]
  · rename_i h
    rw [getUser_setUser, hlr, if_neg h, getUser_popRand, getUser_setUser, if_neg h]

/-- `V`: what it does to the fragment sizes -/
def VCase (q : Query) (r : Res) (u : Nat) : Prop :=
  F r.1 u = 100 ∧ ∃ seed dn, writeDns q (ascii "VACK" ++ beBytes 4 seed ++ [u % 256]) dn ∈ r.2

theorem handleVersion_spec (s : Srv) (q : Query) (inb : List Nat) :
    Ok2 s (handleVersion s q inb) ∧ NoData (handleVersion s q inb).2 ∧
    ∀ v, F (handleVersion s q inb).1 v ≠ F s v → VCase q (handleVersion s q inb) v := by
  unfold handleVersion
  extract_lets unpacked version
  split
  · split
    · rename_i u s1 hfa
      have hs1 := findAvailableUser_some s s1 u hfa
      subst hs1
      have hst := handleVersion_state s u (popRand (setUser s u (claim s.now))).1 q
      dsimp only at hst ⊢
      refine ⟨⟨?_, ?_, ?_, ?_⟩, ?_, ?_⟩
      · simp [popRand_cfg]
      · simp [popRand_length]
      · intro hi v
        rw [hst v]
        split
        · exact cacheOK_resetSession _
        · exact hi v
      · exact (noData_single_of (fun _ => by simp [sendVersionResponse])).bnd _
      · exact noData_single_of (fun _ => by simp [sendVersionResponse])
      · intro v hv
        unfold F at hv
        rw [hst v] at hv
        split at hv
        · rename_i h
          obtain ⟨rfl, hlt⟩ := h
          refine ⟨?_, _, _, List.mem_singleton.2 rfl⟩
          unfold F
          rw [hst v, if_pos ⟨rfl, hlt⟩]
          rfl
        · exact absurd rfl hv
    · rename_i s1 hfa
      have hs1 := findAvailableUser_none s s1 hfa
      subst hs1
      refine ⟨(ok_noData (Pres.refl _) (noData_single_of (fun _ => by simp [sendVersionResponse]))).ok2,
        noData_single_of (fun _ => by simp [sendVersionResponse]), fun v hv => absurd rfl hv⟩
  · refine ⟨(ok_noData (Pres.refl _) (noData_single_of (fun _ => by simp [sendVersionResponse]))).ok2,
        noData_single_of (fun _ => by simp [sendVersionResponse]), fun v hv => absurd rfl hv⟩


theorem cacheOK_clear (x : Session) (n : Nat) (b : Bool) :
    CacheOK { x with fragsize := n, optionsLocked := b, dnscache := clearDnscache x.dnscache } := by
  intro e he
  simp only [clearDnscache, List.mem_map] at he
  obtain ⟨e0, _, rfl⟩ := he
  refine ⟨Nat.zero_le _, Nat.zero_le _, fun h => absurd rfl h⟩

/-- `N`: the request decoded from the name part `inb`, as `handleSetFragsize` reads it -/
def nUnpacked (inb : List Nat) : List Nat := Encoding.unpackData Codec.b32 65536 (inb.drop 1)

def nSize (inb : List Nat) : Nat := ((nUnpacked inb).getD 1 0 % 256) * 256 + (nUnpacked inb).getD 2 0 % 256

/-- `N` accepted for slot `u` -/
def NCase (s : Srv) (q : Query) (inb : List Nat) (r : Res) (u : Nat) : Prop :=
  3 ≤ (nUnpacked inb).length ∧ charVal ((nUnpacked inb).getD 0 0) = (u : Int) ∧
  checkAuthenticatedUserAndIpAndOptions s u q = false ∧
  2 ≤ nSize inb ∧ F r.1 u = nSize inb ∧
  writeDns q (((nUnpacked inb).drop 1).take 2) (getUser s u).downenc ∈ r.2

theorem checkUserAndIp_range (s : Srv) (userid : Int) (q : Query) (h : checkUserAndIp s userid q = false) :
    0 ≤ userid ∧ userid < (s.cfg.createdUsers : Int) := by
  unfold checkUserAndIp at h
  split at h
  · cases h
  · omega

theorem checkOptions_range (s : Srv) (userid : Int) (q : Query)
    (h : ¬ checkAuthenticatedUserAndIpAndOptions s userid q = true) : 0 ≤ userid := by
  have : checkUserAndIp s userid q = false := by
    cases hc : checkUserAndIp s userid q with
    | false => rfl
    | true =>
      exfalso
      apply h
      simp [checkAuthenticatedUserAndIpAndOptions, checkAuthenticatedUserAndIp, hc]
  exact (checkUserAndIp_range s userid q this).1

theorem handleSetFragsize_spec (s : Srv) (q : Query) (inb : List Nat) :
    Ok2 s (handleSetFragsize s q inb) ∧ NoData (handleSetFragsize s q inb).2 ∧
    ∀ v, F (handleSetFragsize s q inb).1 v ≠ F s v → NCase s q inb (handleSetFragsize s q inb) v := by
  unfold handleSetFragsize
  extract_lets unpacked userid u maxFrag
  split
  · exact ⟨(ok_ctrl _ _ _ _).ok2, noData_single_ctrl _ _ _, fun v hv => absurd rfl hv⟩
  · split
    · exact ⟨(ok_ctrl _ _ _ _).ok2, noData_single_ctrl _ _ _, fun v hv => absurd rfl hv⟩
    · split
      · exact ⟨(ok_ctrl _ _ _ _).ok2, noData_single_ctrl _ _ _, fun v hv => absurd rfl hv⟩
      · rename_i hlen hchk hfrag
        refine ⟨⟨rfl, setUser_length _ _ _, ?_, (noData_single_ctrl _ _ _).bnd _⟩, noData_single_ctrl _ _ _, ?_⟩
        · intro hi v
          rcases getUser_setUser_cases s u v
            (fun x => { x with fragsize := maxFrag, optionsLocked := true, dnscache := clearDnscache x.dnscache })
            with h1 | ⟨_, h1⟩
          · dsimp only; rw [h1]; exact hi v
          · dsimp only; rw [h1]; exact cacheOK_clear _ _ _
        · intro v hv
          unfold F at hv
          dsimp only at hv
          rw [getUser_setUser] at hv
          split at hv
          · rename_i h
            obtain ⟨rfl, hlt⟩ := h
            have h0 := checkOptions_range s userid q hchk
            have hu : (u : Int) = userid := Int.toNat_of_nonneg h0
            refine ⟨Nat.le_of_not_lt hlen, hu.symm, ?_, Nat.le_of_not_lt hfrag, ?_, List.mem_singleton.2 rfl⟩
            · rw [hu]
              cases hc : checkAuthenticatedUserAndIpAndOptions s userid q with
              | false => rfl
              | true => exact absurd hc hchk
            · unfold F
              dsimp only
              rw [getUser_setUser, if_pos ⟨rfl, hlt⟩]
              rfl
          · exact absurd rfl hv

end Iodine.C15L
