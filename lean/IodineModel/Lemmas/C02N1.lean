import IodineModel.Lemmas.C02M7
import IodineModel.Lemmas.C02R5
/-
C02 — packets offered on BOTH sides, one after the other, in lazy mode and in raw mode (the immediate-mode version is
`mixed_sequence_imm` in `C02d15.lean`).  The single-packet theorems of either direction start and end in the same
quiescent invariant (`QuietLazy`, `QuietRaw`), so they compose by induction on the list of offers.
-/
namespace Iodine.C02L
open Iodine Iodine.World

/-- **Packets offered on both sides, one after the other (lazy mode)**: every frame reaches the peer's tun device exactly
once, each direction in the order offered; quiescent again.  No timing hypothesis: no clock advances. -/
theorem mixed_sequence_lazy {P : Par} (hP : P.Ok) (fuel : Nat) (hfuel : 33 ≤ fuel) :
    ∀ (offers : List Offer) (w : W), QuietLazy P w → 0 < (Server.getUser w.srv P.u).fragsize →
      (∀ o ∈ offers, OfferOk P (Server.getUser w.srv P.u).tunIp (Server.getUser w.srv P.u).fragsize o) →
      QuietLazy P (offerAll P.u fuel w offers) ∧
      (offerAll P.u fuel w offers).tunS = w.tunS ++ (Offer.ups offers).map tunImage ∧
      (offerAll P.u fuel w offers).tunC = w.tunC ++ (Offer.downs offers).map tunImage := by
  intro offers
  induction offers with
  | nil => intro w hq _ _; exact ⟨hq, by simp [offerAll, Offer.ups], by simp [offerAll, Offer.downs]⟩
  | cons o os ih =>
    intro w hq hF hok
    have ho := hok o List.mem_cons_self
    cases o with
    | toServer f =>
      have hf : UpFrameOk P (Server.getUser w.srv P.u).tunIp f := ho
      obtain ⟨w', h1, h2, h3, h4, h5, h6⟩ := up_packet_lazy hP hq f hf.h24 hf.hl hf.bytes hf.dst hf.frags
      have hrun : runPrompt P.u fuel (step w (.offerC f)) = w' :=
        runPrompt_of_steps P.u _ _ _ h1 h2.quiet fuel (by have := hf.frags; omega)
      have := ih w' h2 (by rw [h6]; exact hF) (fun g hg => by rw [h5, h6]; exact hok g (List.mem_cons_of_mem _ hg))
      unfold offerAll
      rw [hrun]
      refine ⟨this.1, ?_, ?_⟩
      · rw [this.2.1, h3]; simp [Offer.ups, tunImage]
      · rw [this.2.2, h4]; simp [Offer.downs]
    | toClient f =>
      have hf : DownFrameOk (Server.getUser w.srv P.u).tunIp (Server.getUser w.srv P.u).fragsize f := ho
      obtain ⟨w', h1, h2, _, h4, h5, h6, h7⟩ := down_packet_lazy_gen hP hq f hF hf
      have hsteps : downStepsL w.cs.c.sendPingSoon
          (downFrags (Server.getUser w.srv P.u).fragsize (f.length + 1) (f.length + 1)) ≤ fuel := by
        have := hf.frags
        have := downStepsL_le w.cs.c.sendPingSoon (downFrags (Server.getUser w.srv P.u).fragsize (f.length + 1) (f.length + 1))
        omega
      have hrun : runPrompt P.u fuel (step w (.offerS f)) = w' := runPrompt_of_steps P.u _ _ _ h1 h2.quiet fuel hsteps
      have := ih w' h2 (by rw [h6]; exact hF) (fun g hg => by rw [h6, h7]; exact hok g (List.mem_cons_of_mem _ hg))
      unfold offerAll
      rw [hrun]
      refine ⟨this.1, ?_, ?_⟩
      · rw [this.2.1, h5]; simp [Offer.ups]
      · rw [this.2.2, h4]; simp [Offer.downs]

/-- an offer the raw-mode theorems speak about -/
def RawOfferOk (tunIp : Nat) : Offer → Prop
  | .toServer f => RawUpOk tunIp f
  | .toClient f => RawDownOk tunIp f

/-- **Packets offered on both sides, one after the other (raw mode).** -/
theorem mixed_sequence_raw {u : Nat} (fuel : Nat) (hfuel : 3 ≤ fuel) :
    ∀ (offers : List Offer) (w : W), QuietRaw u w → 0 < w.cs.c.selecttimeout →
      (∀ o ∈ offers, RawOfferOk (Server.getUser w.srv u).tunIp o) →
      QuietRaw u (offerAll u fuel w offers) ∧
      (offerAll u fuel w offers).tunS = w.tunS ++ (Offer.ups offers).map tunImage ∧
      (offerAll u fuel w offers).tunC = w.tunC ++ (Offer.downs offers).map tunImage := by
  intro offers
  induction offers with
  | nil => intro w hq _ _; exact ⟨hq, by simp [offerAll, Offer.ups], by simp [offerAll, Offer.downs]⟩
  | cons o os ih =>
    intro w hq hsel hok
    have ho := hok o List.mem_cons_self
    cases o with
    | toServer f =>
      obtain ⟨k, w', hk, h1, h2, h3, h4, h5, _, _⟩ := raw_up_any hq hsel f ho
      have hrun : runPrompt u fuel (step w (.offerC f)) = w' := runPrompt_of_steps u _ _ _ h1 h2.quiet fuel (by omega)
      have := ih w' h2 (by rw [h5.selto]; exact hsel) (fun g hg => by rw [h5.tunIp]; exact hok g (List.mem_cons_of_mem _ hg))
      unfold offerAll
      rw [hrun]
      refine ⟨this.1, ?_, ?_⟩
      · rw [this.2.1, h3]; simp [Offer.ups]
      · rw [this.2.2, h4]; simp [Offer.downs]
    | toClient f =>
      obtain ⟨k, w', hk, h1, h2, h3, h4, h5, _, _⟩ := raw_down_any hq hsel f ho
      have hrun : runPrompt u fuel (step w (.offerS f)) = w' := runPrompt_of_steps u _ _ _ h1 h2.quiet fuel (by omega)
      have := ih w' h2 (by rw [h5.selto]; exact hsel) (fun g hg => by rw [h5.tunIp]; exact hok g (List.mem_cons_of_mem _ hg))
      unfold offerAll
      rw [hrun]
      refine ⟨this.1, ?_, ?_⟩
      · rw [this.2.1, h4]; simp [Offer.ups]
      · rw [this.2.2, h3]; simp [Offer.downs]

end Iodine.C02L
